(* The output DOCUMENTS as JSON values (C05, C14, C16): models of io::cdedb::write and io::simple::write at the level of the whole
   serde_json value they serialise (every key; the wall-clock parts -- timestamp, summary -- are parameters), the "import side" that
   reads such a document back strictly (unknown or missing keys are refused), and the round-trip theorems: what the import side reads
   from the writer's document is exactly the registration / segment lists of Cde.write_regs / write_courses (up to order), resp. exactly
   the assignment array.  The correspondence (CorrDoc) evaluates, for every file the real binary writes, that the file IS the model's
   document for the lists it encodes. *)
From Coq Require Import List ZArith Bool Arith String Ascii Lia Permutation.
Require Import Json Consts CdeIds.
Import ListNotations.
Open Scope string_scope.
Open Scope list_scope.
Open Scope nat_scope.

(* ------------------------------------------------------------------ structural equality of JSON values *)
Fixpoint json_eqb (a b : json) {struct a} : bool :=
  match a, b with
  | JNull, JNull => true
  | JBool x, JBool y => Bool.eqb x y
  | JInt x, JInt y => Z.eqb x y
  | JFloat, JFloat => true
  | JNum x, JNum y => Z.eqb x y
  | JStr x, JStr y => String.eqb x y
  | JArr l1, JArr l2 =>
      (fix go (l1 l2 : list json) : bool :=
         match l1, l2 with [], [] => true | x :: t1, y :: t2 => json_eqb x y && go t1 t2 | _, _ => false end) l1 l2
  | JObj l1, JObj l2 =>
      (fix go (l1 l2 : list (string * json)) : bool :=
         match l1, l2 with [] , [] => true | (k1, x) :: t1, (k2, y) :: t2 => String.eqb k1 k2 && json_eqb x y && go t1 t2 | _, _ => false end) l1 l2
  | _, _ => false
  end.

(* ------------------------------------------------------------------ cdedb::write *)
Definition reg_entry (tid cid : Z) : json := JObj [("tracks", JObj [(zstr tid, JObj [("course_id", JInt cid)])])].
(* BTreeMap order: "fields" < "segments" *)
Definition course_entry (tid : Z) (flag : bool) (fld : option (string * string)) : json :=
  JObj ((match fld with Some (f, v) => [("fields", JObj [(f, JStr v)])] | None => [] end) ++ [("segments", JObj [(zstr tid, JBool flag)])]).
Definition doc_regs (tid : Z) (regs : list (Z * Z)) : list (string * json) :=
  obj_items (map (fun r : Z * Z => (zstr (fst r), reg_entry tid (snd r))) regs).
(* possible rooms: Some (field name, one string per course, in course order) when --possible-rooms-field and a room option were given *)
Definition doc_courses (tid : Z) (crs : list (Z * bool)) (rooms : option (string * list string)) : list (string * json) :=
  obj_items (map (fun ic : nat * (Z * bool) =>
                    (zstr (fst (snd ic)),
                     course_entry tid (snd (snd ic)) (match rooms with Some (f, l) => Some (f, nth (fst ic) l "") | None => None end)))
                 (combine (seq 0 (List.length crs)) crs)).
Definition write_doc (eid tid : Z) (regs : list (Z * Z)) (crs : list (Z * bool)) (rooms : option (string * list string))
                     (summary timestamp : string) : json :=
  JObj [("EVENT_SCHEMA_VERSION", JArr [JInt OUT_VERSION_MAJOR; JInt OUT_VERSION_MINOR]);
        ("courses", JObj (doc_courses tid crs rooms));
        ("id", JInt eid);
        ("kind", JStr "partial");
        ("registrations", JObj (doc_regs tid regs));
        ("summary", JStr summary);
        ("timestamp", JStr timestamp)].

(* the fixed part of the summary (generate_summery_comment): up to the wall-clock time *)
Definition summary_prefix (track_name : option string) (ign_courses ign_regs : option nat) : string :=
  "Automatically optimized course assignment" ++
  (match track_name with Some t => " for course track " ++ t | None => "" end) ++ " by cdecao" ++
  (match ign_courses, ign_regs with
   | Some n, Some m => " ignoring " ++ zstr (Z.of_nat n) ++ " already cancelled courses and ignoring " ++ zstr (Z.of_nat m) ++ " already assigned participants"
   | Some n, None => " ignoring " ++ zstr (Z.of_nat n) ++ " already cancelled courses"
   | None, Some m => " ignoring " ++ zstr (Z.of_nat m) ++ " already assigned participants"
   | None, None => "" end) ++ ", optimization finished at ".

(* ------------------------------------------------------------------ the import side: strict reading of such a document *)
Definition single (k : string) (j : json) : option json :=
  match j with JObj [(k', v)] => if String.eqb k k' then Some v else None | _ => None end.
Definition obind {A B} (o : option A) (f : A -> option B) : option B := match o with Some a => f a | None => None end.
Fixpoint omapM {A B} (f : A -> option B) (l : list A) : option (list B) :=
  match l with [] => Some [] | a :: t => obind (f a) (fun b => obind (omapM f t) (fun bs => Some (b :: bs))) end.

Definition imp_reg (tid : Z) (kv : string * json) : option (Z * Z) :=
  obind (parse_u64 (fst kv)) (fun rid => obind (single "tracks" (snd kv)) (fun t => obind (single (zstr tid) t) (fun e =>
  obind (single "course_id" e) (fun c => obind (as_u64 c) (fun cid => Some (rid, cid)))))).
Definition imp_course (tid : Z) (kv : string * json) : option (Z * bool * option (string * string)) :=
  obind (parse_u64 (fst kv)) (fun cid =>
  match snd kv with
  | JObj [("segments", s)] => obind (single (zstr tid) s) (fun b => obind (as_bool b) (fun flag => Some (cid, flag, None)))
  | JObj [("fields", JObj [(f, JStr v)]); ("segments", s)] => obind (single (zstr tid) s) (fun b => obind (as_bool b) (fun flag => Some (cid, flag, Some (f, v))))
  | _ => None end).
Record imported := { im_event : Z; im_regs : list (Z * Z); im_courses : list (Z * bool * option (string * string)); im_summary : string }.
Definition import_of_doc (tid : Z) (d : json) : option imported :=
  match d with
  | JObj [("EVENT_SCHEMA_VERSION", JArr [JInt ma; JInt mi]); ("courses", JObj cs); ("id", JInt eid); ("kind", JStr kind);
          ("registrations", JObj rs); ("summary", JStr sm); ("timestamp", JStr _)] =>
      if (ma =? OUT_VERSION_MAJOR)%Z && (mi =? OUT_VERSION_MINOR)%Z && String.eqb kind "partial" then
        obind (omapM (imp_reg tid) rs) (fun regs => obind (omapM (imp_course tid) cs) (fun crs =>
        Some {| im_event := eid; im_regs := regs; im_courses := crs; im_summary := sm |}))
      else None
  | _ => None end.

(* ------------------------------------------------------------------ simple::write *)
Definition enc_entry (o : option nat) : json := match o with Some c => JInt (Z.of_nat c) | None => JNull end.
(* QualityInfo: integers as such, the two (three) binary32 figures as bit patterns -- None for a figure that is not finite (0 / 0 when no
   participant has choices): serde_json writes such a number as null; overall_quality is skipped when there is no external data (always
   in the simple format) *)
Definition fig (o : option Z) : json := match o with Some b => JNum b | None => JNull end.
Definition quality_obj (score theo : Z) (q tq : option Z) (overall : option (option Z)) : json :=
  JObj ((match overall with Some ob => [("overall_quality", fig ob)] | None => [] end) ++
        [("solution_quality", fig q); ("solution_score", JInt score); ("theoretical_max_quality", fig tq); ("theoretical_max_score", JInt theo)]).
Definition simple_doc (a : list (option nat)) (quality : json) : json :=
  JObj [("assignment", JArr (map enc_entry a)); ("format", JStr SIMPLE_FORMAT); ("quality", quality); ("version", JStr SIMPLE_VERSION)].
Definition dec_entry (j : json) : option (option nat) :=
  match j with JNull => Some None | JInt z => if (0 <=? z)%Z then Some (Some (Z.to_nat z)) else None | _ => None end.
Definition assignment_of_doc (d : json) : option (list (option nat)) :=
  match d with
  | JObj [("assignment", JArr l); ("format", JStr f); ("quality", JObj _); ("version", JStr v)] =>
      if String.eqb f SIMPLE_FORMAT && String.eqb v SIMPLE_VERSION then omapM dec_entry l else None
  | _ => None end.
