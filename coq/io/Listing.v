(* Model of io.rs format_assignment at the structural level (C14): per course, in course order, the count shown, the assigned
   participants in index order with their instructor flag, and the number of hidden extra names. *)
From Coq Require Import List Arith Bool Lia.
Require Import HP1 Cao1.
Import ListNotations.
Open Scope nat_scope.

Section L.
Variables (courses : list course) (np : nat).
Variable hidden : nat -> nat.          (* number of hidden_participant_names of a course *)
Notation nc := (nc courses). Notation crs := (crs courses).

Definition assigned_to (a : assignment) (c : nat) : list nat :=
  filter (fun p => match getO a p with Some c' => Nat.eqb c' c | None => false end) (seq 0 (length a)).
Definition entry (a : assignment) (c : nat) : nat * list (nat * bool) * nat :=
  (length (assigned_to a c) + hidden c, map (fun p => (p, memb p (c_instr (crs c)))) (assigned_to a c), hidden c).
Definition listing (a : assignment) : list (nat * list (nat * bool) * nat) := map (entry a) (seq 0 nc).

(* the output array: one entry per participant, each null or a valid course index *)
Definition array_okb (a : assignment) : bool :=
  Nat.eqb (length a) np && forallb (fun o => match o with Some c => c <? nc | None => true end) a.

(* C14: under each course exactly the people the array assigns to it; flagged exactly the instructors; count = people + hidden *)
Theorem listing_partition a c p : c < nc ->
  (In p (map fst (snd (fst (nth c (listing a) (0, [], 0))))) <-> p < length a /\ getO a p = Some c).
Proof.
  intros Hc. unfold listing. rewrite (nth_indep _ (0, [], 0) (entry a 0)) by (rewrite map_length, seq_length; exact Hc).
  rewrite (map_nth (entry a) (seq 0 nc) 0 c), seq_nth by exact Hc. simpl. rewrite map_map. simpl. rewrite map_id.
  unfold assigned_to. rewrite filter_In, in_seq. split.
  - intros [Hp Hf]. split; [lia|]. destruct (getO a p) as [c'|]; [|discriminate]. apply Nat.eqb_eq in Hf. subst. reflexivity.
  - intros [Hp Ha]. split; [lia|]. rewrite Ha. apply Nat.eqb_refl.
Qed.
Theorem listing_flags a c p b : c < nc ->
  In (p, b) (snd (fst (nth c (listing a) (0, [], 0)))) -> b = true <-> In p (c_instr (crs c)).
Proof.
  intros Hc. unfold listing. rewrite (nth_indep _ (0, [], 0) (entry a 0)) by (rewrite map_length, seq_length; exact Hc).
  rewrite (map_nth (entry a) (seq 0 nc) 0 c), seq_nth by exact Hc. simpl. intros Hin. apply in_map_iff in Hin.
  destruct Hin as (q & Hq & _). inversion Hq; subst. unfold memb. rewrite existsb_exists. split.
  - intros (x & Hx & He). apply Nat.eqb_eq in He. subst. exact Hx.
  - intros Hx. exists p. split; [exact Hx|apply Nat.eqb_refl].
Qed.
Theorem listing_count a c : c < nc ->
  fst (fst (nth c (listing a) (0, [], 0))) = length (snd (fst (nth c (listing a) (0, [], 0)))) + hidden c.
Proof.
  intros Hc. unfold listing. rewrite (nth_indep _ (0, [], 0) (entry a 0)) by (rewrite map_length, seq_length; exact Hc).
  rewrite (map_nth (entry a) (seq 0 nc) 0 c), seq_nth by exact Hc. simpl. rewrite map_length. reflexivity.
Qed.
Theorem listing_length a : length (listing a) = nc.
Proof. unfold listing. rewrite map_length, seq_length. reflexivity. Qed.
(* each participant appears at most once in the whole listing *)
Theorem listing_once a c c' p : c < nc -> c' < nc ->
  In p (map fst (snd (fst (nth c (listing a) (0, [], 0))))) -> In p (map fst (snd (fst (nth c' (listing a) (0, [], 0))))) -> c = c'.
Proof.
  intros Hc Hc' H1 H2. apply (listing_partition a c p Hc) in H1. apply (listing_partition a c' p Hc') in H2.
  destruct H1 as [_ H1], H2 as [_ H2]. rewrite H1 in H2. inversion H2. reflexivity.
Qed.
Theorem array_okb_spec a : array_okb a = true <-> length a = np /\ forall p c, getO a p = Some c -> c < nc.
Proof.
  unfold array_okb. rewrite andb_true_iff, Nat.eqb_eq, forallb_forall. split.
  - intros [Hl H]. split; [exact Hl|]. intros p c Hp. unfold getO in Hp.
    destruct (Nat.lt_ge_cases p (length a)) as [Hlt|Hge]; [|rewrite nth_overflow in Hp by exact Hge; discriminate].
    specialize (H (nth p a None) (nth_In a None Hlt)). rewrite Hp in H. apply Nat.ltb_lt. exact H.
  - intros [Hl H]. split; [exact Hl|]. intros o Ho. destruct o as [c|]; [|reflexivity]. apply In_nth with (d := None) in Ho.
    destruct Ho as (p & _ & Hp). apply Nat.ltb_lt. apply (H p c). exact Hp.
Qed.
End L.
