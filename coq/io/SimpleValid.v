(* From documents to the solver's validity predicate: a simple-format document that the program accepts (SimpleRead: parsed and
   consistent) yields an instance that satisfies every clause of Valid the program checks -- references in range, min <= max, nobody
   instructing twice, penalties non-negative -- and Valid itself once the three clauses the program does NOT check hold as well
   (no course twice in one choice list, participants * max penalty < WEIGHT_OFFSET, somebody has choices).  This pins the quantifier
   "valid instance" of C01/C02/C08/C10 down to input documents. *)
From Coq Require Import List ZArith Bool Arith String Lia.
Require Import Consts HP1 Cao1 Cao3 Spec Valid Json SimpleRead.
Import ListNotations.
Open Scope nat_scope.

Definition to_choice (ch : schoice) : choice := {| ch_course := Z.to_nat (sc_course ch); ch_pen := sc_pen ch |}.
Definition to_part (p : spart) : participant := {| p_choices := map to_choice (sp_choices p) |}.
Definition to_course (c : scourse) : course :=
  {| c_min := Z.to_nat (so_min c); c_max := Z.to_nat (so_max c); c_instr := map Z.to_nat (so_instr c); c_fixed := so_fixed c |}.

(* the clauses of validity that io::check_data_consistency does not look at *)
Definition unchecked_okb (ps : list spart) : bool :=
  forallb (fun p => nodupb (map ch_course (p_choices (to_part p)))) ps &&
  (Z.of_nat (List.length ps) * maxpen (map to_part ps) <? WEIGHT_OFFSET)%Z &&
  existsb (fun p => negb (match sp_choices p with [] => true | _ => false end)) ps.

Lemma nodupb_complete : forall l, NoDup l -> nodupb l = true.
Proof.
  induction l as [|x t IH]; intros H; [reflexivity|]. inversion H as [|? ? Hx Ht]; subst. simpl. rewrite (IH Ht), andb_true_r.
  apply negb_true_iff. destruct (memb x t) eqn:E; [|reflexivity]. apply memb_true in E. contradiction.
Qed.
Lemma NoDup_map_to_nat : forall l, NoDup l -> (forall z, In z l -> (0 <= z)%Z) -> NoDup (map Z.to_nat l).
Proof.
  induction l as [|x t IH]; intros Hn Hp; simpl; [constructor|]. inversion Hn as [|? ? Hx Ht]; subst. constructor.
  - intros Hin. apply in_map_iff in Hin. destruct Hin as (y & Hy & Hin). apply Hx.
    assert (y = x) by (apply Z2Nat.inj; [apply Hp; right; exact Hin|apply Hp; left; reflexivity|exact Hy]). subst. exact Hin.
  - apply IH; [exact Ht|intros z Hz; apply Hp; right; exact Hz].
Qed.
Lemma flat_map_instr cs : flat_map c_instr (map to_course cs) = map Z.to_nat (flat_map so_instr cs).
Proof. induction cs as [|c t IH]; [reflexivity|]. simpl. rewrite map_app, IH. reflexivity. Qed.

Theorem accepted_validb data ps cs : simple_read data = ROk (ps, cs) -> consistentb ps cs = true -> unchecked_okb ps = true ->
  Spec.validb (map to_course cs) (map to_part ps) = true.
Proof.
  intros Hr Hc Hu. destruct (accepted_is_consistent data ps cs Hr Hc) as (Hch & Hin & Hmm & Hnd).
  unfold unchecked_okb in Hu. apply andb_prop in Hu. destruct Hu as [Hu Hreal]. apply andb_prop in Hu. destruct Hu as [Hcd Hpen].
  unfold Spec.validb. unfold Cao1.np, Cao1.nc. rewrite !map_length.
  apply andb_true_iff. split; [apply andb_true_iff; split; [apply andb_true_iff; split; [apply andb_true_iff; split|]|]|].
  - (* instructors in range, min <= max *)
    apply forallb_forall. intros c' Hc'. apply in_map_iff in Hc'. destruct Hc' as (c & <- & Hcin). simpl. apply andb_true_iff. split.
    + apply forallb_forall. intros i Hi. apply in_map_iff in Hi. destruct Hi as (z & <- & Hz). apply Nat.ltb_lt.
      pose proof (Hin c z Hcin Hz). lia.
    + apply Nat.leb_le. pose proof (Hmm c Hcin). lia.
  - (* nobody instructs twice *)
    apply nodupb_complete. rewrite flat_map_instr. apply NoDup_map_to_nat; [exact Hnd|].
    intros z Hz. apply in_flat_map in Hz. destruct Hz as (c & Hcin & Hz). pose proof (Hin c z Hcin Hz). lia.
  - (* choices *)
    apply forallb_forall. intros p' Hp'. apply in_map_iff in Hp'. destruct Hp' as (p & <- & Hpin). apply andb_true_iff. split.
    + apply forallb_forall. intros ch' Hch'. simpl in Hch'. apply in_map_iff in Hch'. destruct Hch' as (ch & <- & Hchin). simpl.
      destruct (Hch p ch Hpin Hchin) as [H1 H2]. apply andb_true_iff. split; [apply Nat.ltb_lt; lia|apply Z.leb_le; lia].
    + rewrite forallb_forall in Hcd. apply Hcd. exact Hpin.
  - exact Hpen.
  - (* somebody has choices *)
    apply existsb_exists in Hreal. destruct Hreal as (p & Hpin & Hne).
    destruct (In_nth ps p {| sp_name := EmptyString; sp_choices := [] |} Hpin) as (i & Hi & Hn).
    apply existsb_exists. exists i. split; [apply in_seq; lia|].
    unfold Cao1.instr_only, Cao1.prt. change {| p_choices := [] |} with (to_part {| sp_name := EmptyString; sp_choices := [] |}).
    rewrite map_nth, Hn. simpl. destruct (sp_choices p); [discriminate|reflexivity].
Qed.

Theorem accepted_valid data ps cs : simple_read data = ROk (ps, cs) -> consistentb ps cs = true -> unchecked_okb ps = true ->
  Valid (map to_course cs) (map to_part ps).
Proof. intros Hr Hc Hu. apply validb_valid. apply (accepted_validb data ps cs Hr Hc Hu). Qed.

(* the size clause of check_data_consistency is the size bound of the no-overflow theorem (NoOverflow.SizeOK) *)
Require Import NoOverflow Cao5.
Lemma sumN_to_course cs : (forall c, In c cs -> (0 <= so_max c)%Z) ->
  Z.of_nat (sumN (map c_max (map to_course cs))) = fold_right Z.add 0%Z (map so_max cs).
Proof.
  induction cs as [|c t IH]; intros H; [reflexivity|]. simpl. rewrite Nat2Z.inj_add.
  rewrite IH by (intros c' Hc'; apply H; right; exact Hc'). rewrite Z2Nat.id by (apply H; left; reflexivity). reflexivity.
Qed.
Lemma countB_le_len l : countB l <= List.length l.
Proof. apply countB_le. Qed.

Theorem accepted_size_ok data ps cs : simple_read data = ROk (ps, cs) -> consistentb ps cs = true ->
  SizeOK (map to_course cs) (map to_part ps).
Proof.
  intros Hr Hc. destruct (accepted_is_consistent data ps cs Hr Hc) as (_ & _ & Hmm & _). pose proof (consistent_rows ps cs Hc) as Hrows.
  unfold SizeOK, Cao1.n_, Cao1.m_, Cao1.np. rewrite map_length.
  pose proof (countB_le_len (map (skippable (map to_course cs) (map to_part ps)) (seq 0 (List.length ps)))) as Hsk. rewrite map_length, seq_length in Hsk.
  assert (Hm : Z.of_nat (sumN (map c_max (map to_course cs))) = fold_right Z.add 0%Z (map so_max cs)).
  { apply sumN_to_course. intros c Hcin. pose proof (Hmm c Hcin). lia. }
  unfold max_rows in Hrows.
  assert (HW : (0 < WEIGHT_OFFSET)%Z) by (unfold WEIGHT_OFFSET; lia).
  pose proof (Z.mul_div_le 2147483647 WEIGHT_OFFSET HW) as Hd. unfold HP1.maxI.
  set (n := Nat.max (sumN (map c_max (map to_course cs)) + countB (map (skippable (map to_course cs) (map to_part ps)) (seq 0 (List.length ps)))) (List.length ps)).
  assert (Hn : (Z.of_nat n <= Z.of_nat (List.length ps) + fold_right Z.add 0 (map so_max cs))%Z) by (unfold n; lia).
  nia.
Qed.
