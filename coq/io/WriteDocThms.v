(* Round-trip theorems for the output documents (WriteDoc): decimal keys parse back to their numbers, the import side reads the
   writer's document as exactly the lists it was made from (up to order), the assignment array reads back as the assignment. *)
From Coq Require Import List ZArith Bool Arith String Ascii Lia Permutation.
Require Import Json Consts CdeIds WriteDoc.
Import ListNotations.
Open Scope string_scope.
Open Scope list_scope.
Open Scope nat_scope.

(* ------------------------------------------------------------------ parse_u64 (zstr z) = Some z *)
Fixpoint zgo (fuel : nat) (n : Z) (acc : string) : string :=
  match fuel with 0 => acc | S f =>
    let d := (n mod 10)%Z in let acc' := String (ascii_of_nat (48 + Z.to_nat d)) acc in
    if (n / 10 =? 0)%Z then acc' else zgo f (n / 10)%Z acc' end.
Lemma zstr_zgo z : zstr z = zgo 25 z "".
Proof. reflexivity. Qed.

Lemma digit_char d : d < 10 -> nat_of_ascii (ascii_of_nat (48 + d)) = 48 + d.
Proof. intros H. apply nat_ascii_embedding. lia. Qed.

Lemma parse_digit_step d t a : d < 10 ->
  parse_digits (String (ascii_of_nat (48 + d)) t) a = parse_digits t (a * 10 + Z.of_nat d)%Z.
Proof.
  intros H. cbn [parse_digits]. rewrite (digit_char d H).
  replace ((48 <=? 48 + d) && (48 + d <=? 57)) with true
    by (symmetry; apply andb_true_iff; split; apply Nat.leb_le; lia).
  replace (48 + d - 48) with d by lia. reflexivity.
Qed.

Lemma parse_zgo : forall fuel n acc a, (0 <= n < 10 ^ Z.of_nat fuel)%Z -> 0 < fuel ->
  exists k, (0 <= k)%Z /\ parse_digits (zgo fuel n acc) a = parse_digits acc (a * 10 ^ k + n)%Z.
Proof.
  induction fuel as [|f IH]; intros n acc a Hn Hf; [lia|].
  cbn [zgo]. assert (Hd : Z.to_nat (n mod 10) < 10) by (pose proof (Z.mod_pos_bound n 10 ltac:(lia)); lia).
  assert (Hdz : Z.of_nat (Z.to_nat (n mod 10)) = (n mod 10)%Z) by (pose proof (Z.mod_pos_bound n 10 ltac:(lia)); lia).
  destruct (n / 10 =? 0)%Z eqn:E.
  - apply Z.eqb_eq in E. exists 1%Z. split; [lia|]. rewrite (parse_digit_step _ acc a Hd), Hdz. f_equal.
    pose proof (Z.div_mod n 10 ltac:(lia)). lia.
  - apply Z.eqb_neq in E.
    assert (Hf' : 0 < f).
    { destruct f; [|lia]. exfalso. apply E. apply Z.div_small. simpl in Hn. lia. }
    assert (Hn' : (0 <= n / 10 < 10 ^ Z.of_nat f)%Z).
    { split; [apply Z.div_pos; lia|]. apply Z.div_lt_upper_bound; [lia|].
      replace (Z.of_nat (S f)) with (Z.of_nat f + 1)%Z in Hn by lia. rewrite Z.pow_add_r in Hn by lia. lia. }
    destruct (IH (n / 10)%Z (String (ascii_of_nat (48 + Z.to_nat (n mod 10))) acc) a Hn' Hf') as (k & Hk0 & Hk).
    exists (k + 1)%Z. split; [lia|]. rewrite Hk, (parse_digit_step _ acc _ Hd), Hdz. f_equal.
    pose proof (Z.div_mod n 10 ltac:(lia)) as Hdm.
    rewrite Z.pow_add_r by lia. rewrite Z.pow_1_r. set (P := (10 ^ k)%Z). set (q := (n / 10)%Z) in *. set (r := (n mod 10)%Z) in *. nia.
Qed.

Lemma zgo_head : forall fuel n acc, 0 < fuel -> exists d t, d < 10 /\ zgo fuel n acc = String (ascii_of_nat (48 + d)) t.
Proof.
  induction fuel as [|f IH]; intros n acc Hf; [lia|]. cbn [zgo].
  assert (Hd : Z.to_nat (n mod 10) < 10) by (pose proof (Z.mod_pos_bound n 10 ltac:(lia)); lia).
  destruct (n / 10 =? 0)%Z eqn:E; [exists (Z.to_nat (n mod 10)), acc; split; [exact Hd|reflexivity]|].
  destruct f as [|f']; [cbn [zgo]; exists (Z.to_nat (n mod 10)), acc; split; [exact Hd|reflexivity]|].
  apply IH. lia.
Qed.

Theorem parse_zstr z : (0 <= z < 18446744073709551616)%Z -> parse_u64 (zstr z) = Some z.
Proof.
  intros Hz. rewrite zstr_zgo.
  destruct (zgo_head 25 z "" ltac:(lia)) as (d & t & Hd & Ht).
  destruct (parse_zgo 25 z "" 0%Z ltac:(simpl; lia) ltac:(lia)) as (k & _ & Hk).
  rewrite Ht in *. unfold parse_u64.
  assert (Hne : ascii_of_nat (48 + d) <> "+"%char).
  { intros Hc. apply (f_equal nat_of_ascii) in Hc. rewrite (digit_char d Hd) in Hc. change (nat_of_ascii "+"%char) with 43 in Hc. lia. }
  assert (G : parse_digits (String (ascii_of_nat (48 + d)) t) 0 = Some z).
  { rewrite Hk. cbn [parse_digits]. f_equal; lia. }
  destruct (ascii_of_nat (48 + d)) as [b0 b1 b2 b3 b4 b5 b6 b7] eqn:Ea.
  destruct b0, b1, b2, b3, b4, b5, b6, b7; try (rewrite G; replace (z <? 18446744073709551616)%Z with true by (symmetry; apply Z.ltb_lt; lia); reflexivity).
  exfalso. apply Hne. reflexivity.
Qed.
Corollary canonical_zstr z : (0 <= z < 18446744073709551616)%Z -> canonical (zstr z) = true.
Proof. intros H. unfold canonical. rewrite (parse_zstr z H). apply String.eqb_refl. Qed.
Corollary zstr_inj z1 z2 : (0 <= z1 < 18446744073709551616)%Z -> (0 <= z2 < 18446744073709551616)%Z -> zstr z1 = zstr z2 -> z1 = z2.
Proof. intros H1 H2 E. pose proof (parse_zstr z1 H1) as P1. rewrite E, (parse_zstr z2 H2) in P1. congruence. Qed.

(* ------------------------------------------------------------------ generic lemmas *)
Lemma omapM_some {A B} (f : A -> option B) : forall L, (forall y, In y L -> exists x, f y = Some x) ->
  exists l', omapM f L = Some l' /\ map Some l' = map f L.
Proof.
  induction L as [|y t IH]; intros H; [exists []; split; reflexivity|].
  destruct (H y (or_introl eq_refl)) as (x & Hx). destruct (IH (fun z Hz => H z (or_intror Hz))) as (l' & Hl & Hm).
  exists (x :: l'). cbn [omapM]. rewrite Hx, Hl. cbn [obind]. split; [reflexivity|]. cbn [map]. rewrite Hx, Hm. reflexivity.
Qed.
Lemma map_Some_inj {A} : forall (l1 l2 : list A), map Some l1 = map Some l2 -> l1 = l2.
Proof. induction l1 as [|x t IH]; intros [|y u] H; simpl in H; try discriminate; [reflexivity|]. inversion H. f_equal. apply IH. assumption. Qed.
(* reading back a permuted image: every element is recovered *)
Lemma omapM_perm {A B} (f : A -> option B) (h : B -> A) (l : list B) (L : list A) :
  (forall x, In x l -> f (h x) = Some x) -> Permutation L (map h l) ->
  exists l', omapM f L = Some l' /\ Permutation l' l.
Proof.
  intros Hf HP.
  assert (Hall : forall y, In y L -> exists x, f y = Some x).
  { intros y Hy. apply (Permutation_in _ HP) in Hy. apply in_map_iff in Hy. destruct Hy as (x & <- & Hx). exists x. apply Hf. exact Hx. }
  destruct (omapM_some f L Hall) as (l' & Hl & Hm). exists l'. split; [exact Hl|].
  assert (HP2 : Permutation (map Some l') (map Some l)).
  { rewrite Hm. apply perm_trans with (map f (map h l)); [apply Permutation_map; exact HP|].
    rewrite map_map. rewrite (map_ext_in (fun x => f (h x)) Some l Hf). apply Permutation_refl. }
  apply Permutation_map_inv in HP2. destruct HP2 as (l3 & E & P3). apply map_Some_inj in E. subst l3. apply Permutation_sym. exact P3.
Qed.

(* an object built from pairwise distinct keys keeps all its entries *)
Lemma obj_items_perm (l : list (string * json)) : NoDup (map fst l) -> Permutation (obj_items l) l.
Proof.
  intros Hnd. unfold obj_items. apply perm_trans with (fold_left (fun acc kv => if existsb (fun kv' : string * json => String.eqb (fst kv') (fst kv)) acc
      then map (fun kv' : string * json => if String.eqb (fst kv') (fst kv) then kv else kv') acc else (acc ++ [kv])%list) l []); [apply sort_by_perm|].
  assert (G : forall l acc, NoDup (map fst (acc ++ l)) ->
     fold_left (fun acc kv => if existsb (fun kv' : string * json => String.eqb (fst kv') (fst kv)) acc
        then map (fun kv' : string * json => if String.eqb (fst kv') (fst kv) then kv else kv') acc else (acc ++ [kv])%list) l acc = acc ++ l).
  { induction l0 as [|kv t IH]; intros acc H; simpl; [rewrite app_nil_r; reflexivity|].
    assert (E : existsb (fun kv' : string * json => String.eqb (fst kv') (fst kv)) acc = false).
    { destruct (existsb _ acc) eqn:E; [|reflexivity]. exfalso. apply existsb_exists in E. destruct E as (x & Hx & Hk). apply String.eqb_eq in Hk.
      rewrite map_app in H. simpl in H. apply NoDup_remove_2 in H. apply H. apply in_or_app. left. rewrite <- Hk. apply in_map. exact Hx. }
    rewrite E. rewrite IH; [rewrite <- app_assoc; reflexivity|]. rewrite <- app_assoc. exact H. }
  rewrite (G l [] Hnd). apply Permutation_refl.
Qed.

Definition in_u64 (z : Z) : Prop := (0 <= z < 18446744073709551616)%Z.
Lemma nodup_zstr_keys {A} (key : A -> Z) (l : list A) : NoDup (map key l) -> (forall x, In x l -> in_u64 (key x)) -> NoDup (map (fun x => zstr (key x)) l).
Proof.
  induction l as [|x t IH]; intros Hnd Hr; simpl; [constructor|]. inversion Hnd as [|? ? Hx Ht]; subst. constructor.
  - intros Hin. apply Hx. apply in_map_iff in Hin. destruct Hin as (y & Hy & Hin). apply in_map_iff. exists y. split; [|exact Hin].
    apply zstr_inj in Hy; [exact Hy|apply Hr; right; exact Hin|apply Hr; left; reflexivity].
  - apply IH; [exact Ht|intros y Hy; apply Hr; right; exact Hy].
Qed.

(* ------------------------------------------------------------------ simple::write *)
Lemma dec_enc o : dec_entry (enc_entry o) = Some o.
Proof. destruct o as [c|]; [|reflexivity]. cbn [enc_entry dec_entry]. replace (0 <=? Z.of_nat c)%Z with true by (symmetry; apply Z.leb_le; lia). rewrite Nat2Z.id. reflexivity. Qed.
Lemma omapM_dec a : omapM dec_entry (map enc_entry a) = Some a.
Proof. induction a as [|o t IH]; [reflexivity|]. cbn [map omapM]. rewrite dec_enc, IH. reflexivity. Qed.
Theorem simple_doc_round_trip a q : assignment_of_doc (simple_doc a (JObj q)) = Some a.
Proof. unfold simple_doc, assignment_of_doc. rewrite !String.eqb_refl. cbn [andb]. apply omapM_dec. Qed.
(* shape of the document: exactly the four documented keys; the array has one entry per element of the assignment, each null or the index *)
Theorem simple_doc_shape a q :
  get "format" (simple_doc a q) = Some (JStr SIMPLE_FORMAT) /\ get "version" (simple_doc a q) = Some (JStr SIMPLE_VERSION) /\
  get "quality" (simple_doc a q) = Some q /\ get "assignment" (simple_doc a q) = Some (JArr (map enc_entry a)) /\
  List.length (map enc_entry a) = List.length a.
Proof. repeat split; try reflexivity. apply map_length. Qed.

(* ------------------------------------------------------------------ cdedb::write *)
Lemma single_one k v : single k (JObj [(k, v)]) = Some v.
Proof. unfold single. rewrite String.eqb_refl. reflexivity. Qed.
Lemma imp_reg_entry tid r : in_u64 (fst r) -> in_u64 (snd r) -> imp_reg tid (zstr (fst r), reg_entry tid (snd r)) = Some r.
Proof.
  destruct r as [rid cid]. cbn [fst snd]. intros H1 H2. unfold imp_reg, reg_entry. cbn [fst snd]. rewrite (parse_zstr _ H1). cbn [obind].
  repeat (rewrite single_one; cbn [obind]).
  unfold as_u64. unfold in_u64 in H2.
  replace ((0 <=? cid) && (cid <? 18446744073709551616))%Z with true
    by (symmetry; apply andb_true_iff; split; [apply Z.leb_le|apply Z.ltb_lt]; lia).
  reflexivity.
Qed.
Lemma imp_course_entry tid cid flag fld : in_u64 cid -> imp_course tid (zstr cid, course_entry tid flag fld) = Some (cid, flag, fld).
Proof.
  intros H. unfold imp_course, course_entry. cbn [fst snd]. rewrite (parse_zstr _ H). cbn [obind].
  destruct fld as [[f v]|]; cbn [app]; rewrite single_one; reflexivity.
Qed.

Definition course_rows (crs : list (Z * bool)) (rooms : option (string * list string)) : list (Z * bool * option (string * string)) :=
  map (fun ic : nat * (Z * bool) => (fst (snd ic), snd (snd ic), match rooms with Some (f, l) => Some (f, nth (fst ic) l "") | None => None end))
      (combine (seq 0 (List.length crs)) crs).
Lemma course_rows_ids crs rooms : map (fun row : Z * bool * option (string * string) => fst (fst row)) (course_rows crs rooms) = map fst crs.
Proof.
  unfold course_rows. rewrite map_map. cbn [fst]. generalize 0. induction crs as [|c t IH]; intros s; [reflexivity|]. cbn [List.length seq combine map]. f_equal. apply IH.
Qed.

(* what the import side reads from the writer's document: the event id, the (registration, course) pairs and the (course, flag, field) rows
   the document was made from, each exactly once (object order = byte order of the decimal keys) *)
Theorem import_of_write_doc eid tid regs crs rooms sm ts :
  NoDup (map fst regs) -> NoDup (map fst crs) ->
  (forall r, In r regs -> in_u64 (fst r) /\ in_u64 (snd r)) -> (forall c, In c crs -> in_u64 (fst c)) ->
  (* one room string per course (the Rust code indexes the list with the course position and would panic otherwise) *)
  match rooms with Some (_, l) => List.length l = List.length crs | None => True end ->
  exists im, import_of_doc tid (write_doc eid tid regs crs rooms sm ts) = Some im /\
             im_event im = eid /\ im_summary im = sm /\ Permutation (im_regs im) regs /\ Permutation (im_courses im) (course_rows crs rooms).
Proof.
  intros NDr NDc Hr Hc _. unfold write_doc, import_of_doc. rewrite !Z.eqb_refl. cbn [andb String.eqb]. 
  replace (String.eqb "partial" "partial") with true by reflexivity. cbn [andb].
  (* registrations *)
  destruct (omapM_perm (imp_reg tid) (fun r : Z * Z => (zstr (fst r), reg_entry tid (snd r))) regs (doc_regs tid regs)) as (lr & Hlr & Pr).
  { intros r Hin. destruct (Hr r Hin). apply imp_reg_entry; assumption. }
  { unfold doc_regs. apply obj_items_perm. rewrite map_map. cbn [fst]. apply (nodup_zstr_keys fst regs NDr). intros r Hin. apply (Hr r Hin). }
  (* courses *)
  set (rows := course_rows crs rooms).
  assert (Ed : doc_courses tid crs rooms = obj_items (map (fun row : Z * bool * option (string * string) => (zstr (fst (fst row)), course_entry tid (snd (fst row)) (snd row))) rows)).
  { unfold doc_courses, rows, course_rows. rewrite map_map. reflexivity. }
  destruct (omapM_perm (imp_course tid) (fun row : Z * bool * option (string * string) => (zstr (fst (fst row)), course_entry tid (snd (fst row)) (snd row))) rows (doc_courses tid crs rooms)) as (lc & Hlc & Pc).
  { intros [[cid flag] fld] Hin. cbn [fst snd]. apply imp_course_entry.
    assert (Hid : In cid (map fst crs)) by (rewrite <- (course_rows_ids crs rooms); apply in_map_iff; exists (cid, flag, fld); split; [reflexivity|exact Hin]).
    apply in_map_iff in Hid. destruct Hid as (c & <- & Hcin). apply (Hc c Hcin). }
  { rewrite Ed. apply obj_items_perm. rewrite map_map. cbn [fst].
    apply (nodup_zstr_keys (fun row : Z * bool * option (string * string) => fst (fst row)) rows).
    - unfold rows. rewrite course_rows_ids. exact NDc.
    - intros row Hin. assert (Hid : In (fst (fst row)) (map fst crs)) by (rewrite <- (course_rows_ids crs rooms); apply in_map_iff; exists row; split; [reflexivity|exact Hin]).
      apply in_map_iff in Hid. destruct Hid as (c & <- & Hcin). apply (Hc c Hcin). }
  rewrite Hlr, Hlc. cbn [obind]. eexists. split; [reflexivity|]. cbn. repeat split; assumption.
Qed.

(* ------------------------------------------------------------------ json_eqb decides equality (CorrDoc compares documents with it) *)
Lemma json_eqb_eq : forall a b, json_eqb a b = true -> a = b.
Proof.
  fix IH 1. intros a b. destruct a as [| x | x | | x | x | l | l], b as [| y | y | | y | y | l' | l']; cbn [json_eqb]; intros H; try discriminate H; try reflexivity.
  - apply Bool.eqb_prop in H. subst. reflexivity.
  - apply Z.eqb_eq in H. subst. reflexivity.
  - apply Z.eqb_eq in H. subst. reflexivity.
  - apply String.eqb_eq in H. subst. reflexivity.
  - f_equal. revert l' H. induction l as [|x t IHl]; intros [|y u] H; try discriminate H; [reflexivity|].
    apply andb_true_iff in H. destruct H as [H1 H2]. f_equal; [apply IH; exact H1|apply IHl; exact H2].
  - f_equal. revert l' H. induction l as [|[k x] t IHl]; intros [|[k' y] u] H; try discriminate H; [reflexivity|].
    apply andb_true_iff in H. destruct H as [H12 H3]. apply andb_true_iff in H12. destruct H12 as [H1 H2]. apply String.eqb_eq in H1. subst k'.
    f_equal; [f_equal; apply IH; exact H2|apply IHl; exact H3].
Qed.
Lemma json_eqb_refl : forall a, json_eqb a a = true.
Proof.
  fix IH 1. intros a. destruct a as [| x | x | | x | x | l | l]; cbn [json_eqb]; try reflexivity.
  - apply Bool.eqb_reflx.
  - apply Z.eqb_refl.
  - apply Z.eqb_refl.
  - apply String.eqb_refl.
  - induction l as [|x t IHl]; [reflexivity|]. rewrite (IH x), IHl. reflexivity.
  - induction l as [|[k x] t IHl]; [reflexivity|]. rewrite String.eqb_refl, (IH x), IHl. reflexivity.
Qed.
Theorem json_eqb_spec a b : json_eqb a b = true <-> a = b.
Proof. split; [apply json_eqb_eq|intros ->; apply json_eqb_refl]. Qed.

(* "only the selected track": read for ANOTHER track, the document of a non-empty assignment is refused *)
Theorem import_other_track eid tid tid' regs crs rooms sm ts :
  zstr tid' <> zstr tid -> regs <> [] -> NoDup (map fst regs) -> (forall r, In r regs -> in_u64 (fst r)) ->
  import_of_doc tid' (write_doc eid tid regs crs rooms sm ts) = None.
Proof.
  intros Hne Hnil NDr Hr. unfold write_doc, import_of_doc. rewrite !Z.eqb_refl. cbn [andb].
  replace (String.eqb "partial" "partial") with true by reflexivity. cbn [andb].
  assert (P : Permutation (doc_regs tid regs) (map (fun r : Z * Z => (zstr (fst r), reg_entry tid (snd r))) regs)).
  { unfold doc_regs. apply obj_items_perm. rewrite map_map. cbn [fst]. apply (nodup_zstr_keys fst regs NDr Hr). }
  destruct (doc_regs tid regs) as [|kv t] eqn:E.
  - apply Permutation_nil in P. destruct regs; [contradiction|discriminate].
  - assert (Hin : In kv (map (fun r : Z * Z => (zstr (fst r), reg_entry tid (snd r))) regs)) by (apply (Permutation_in _ P); left; reflexivity).
    apply in_map_iff in Hin. destruct Hin as ([rid cid] & <- & _). cbn [omapM fst snd].
    assert (F : imp_reg tid' (zstr rid, reg_entry tid cid) = None).
    { unfold imp_reg, reg_entry. cbn [fst snd]. destruct (parse_u64 (zstr rid)); [|reflexivity]. cbn [obind]. rewrite single_one. cbn [obind].
      unfold single. destruct (String.eqb (zstr tid') (zstr tid)) eqn:Eq; [apply String.eqb_eq in Eq; contradiction|reflexivity]. }
    rewrite F. reflexivity.
Qed.
