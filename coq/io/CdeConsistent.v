(* The problem that cdedb::read builds (CdeSpec.spec_read = the transcription, CdeRefine) is consistent BY CONSTRUCTION: every choice names
   a course of the problem, every instructor index a participant of the problem, 0 <= min <= max after the adaptation, and nobody is
   listed as instructor twice.  Hence io::check_data_consistency never refuses what the CdE reader returns, and the index clauses of the
   solver's validity predicate hold for every accepted export. *)
From Coq Require Import List ZArith Bool Arith String Lia.
Require Import Json CdeSpec CdeThms CdeIgnore.
Import ListNotations.
Open Scope nat_scope.

(* ---------------------------------------------------------------- lists *)
Lemma NoDup_app_intro {A} (l1 l2 : list A) : NoDup l1 -> NoDup l2 -> (forall x, In x l1 -> In x l2 -> False) -> NoDup (l1 ++ l2).
Proof.
  induction l1 as [|a t IH]; intros H1 H2 Hd; simpl; [exact H2|]. inversion H1 as [|? ? Ha Ht]; subst. constructor.
  - intros Hin. apply in_app_or in Hin. destruct Hin as [Hin|Hin]; [contradiction|]. apply (Hd a); [left; reflexivity|exact Hin].
  - apply IH; [exact Ht|exact H2|]. intros x Hx1 Hx2. apply (Hd x); [right; exact Hx1|exact Hx2].
Qed.
Lemma NoDup_map_filter {A B} (f : A -> B) (P : A -> bool) : forall L, NoDup (map f L) -> NoDup (map f (filter P L)).
Proof.
  induction L as [|x t IH]; simpl; intros H; [constructor|]. inversion H as [|? ? Hx Ht]; subst. destruct (P x); simpl; [|apply IH; exact Ht].
  constructor; [|apply IH; exact Ht]. intros Hin. apply Hx. apply in_map_iff in Hin. destruct Hin as (y & Hy & Hin). apply filter_In in Hin.
  apply in_map_iff. exists y. tauto.
Qed.
Lemma map_inj_on {A B} (f : A -> B) : forall L, NoDup (map f L) -> forall x y, In x L -> In y L -> f x = f y -> x = y.
Proof.
  induction L as [|a t IH]; intros H x y Hx Hy E; [destruct Hx|]. simpl in H. inversion H as [|? ? Ha Ht]; subst.
  destruct Hx as [->|Hx], Hy as [->|Hy]; try reflexivity.
  - exfalso. apply Ha. rewrite E. apply in_map. exact Hy.
  - exfalso. apply Ha. rewrite <- E. apply in_map. exact Hx.
  - apply IH; assumption.
Qed.
(* the classes of a partition of L, mapped injectively, are pairwise disjoint *)
Lemma nodup_flat_map_partition {A B} (f : A -> B) (P : nat -> A -> bool) (L : list A) :
  NoDup (map f L) -> (forall x a b, P a x = true -> P b x = true -> a = b) ->
  forall idx, NoDup idx -> NoDup (flat_map (fun a => map f (filter (P a) L)) idx).
Proof.
  intros HL HP. induction idx as [|a rest IH]; intros Hn; simpl; [constructor|]. inversion Hn as [|? ? Ha Hr]; subst.
  apply NoDup_app_intro; [apply NoDup_map_filter; exact HL|apply IH; exact Hr|].
  intros y H1 H2. apply in_map_iff in H1. destruct H1 as (x & Hx & Hxin). apply filter_In in Hxin. destruct Hxin as [HxL HxP].
  apply in_flat_map in H2. destruct H2 as (b & Hb & H2). apply in_map_iff in H2. destruct H2 as (x' & Hx' & Hxin'). apply filter_In in Hxin'.
  destruct Hxin' as [HxL' HxP']. assert (x = x') by (apply (map_inj_on f L HL); [exact HxL|exact HxL'|congruence]). subst x'.
  assert (a = b) by (apply (HP x); assumption). subst b. contradiction.
Qed.
Lemma map_fst_combine_seq' {A} : forall (l : list A) s, map fst (combine (seq s (List.length l)) l) = seq s (List.length l).
Proof. induction l as [|x t IH]; intros s; simpl; [reflexivity|]. rewrite IH. reflexivity. Qed.
Lemma mapM_In' {A B} (f : A -> result B) : forall l r b, mapM f l = ROk r -> In b r -> exists a, In a l /\ f a = ROk b.
Proof.
  induction l as [|x t IH]; intros r b Hr Hb; simpl in Hr.
  - inversion Hr; subst. destruct Hb.
  - destruct (f x) as [y|] eqn:Ex; [|discriminate]. simpl in Hr. destruct (mapM f t) as [ys|] eqn:Et; [|discriminate]. simpl in Hr.
    inversion Hr; subst. destruct Hb as [<-|Hb]; [exists x; split; [left; reflexivity|exact Ex]|].
    destruct (IH ys b eq_refl Hb) as (a & Ha & Hf). exists a. split; [right; exact Ha|exact Hf].
Qed.

(* ---------------------------------------------------------------- the id map *)
Lemma lookup_app_none k : forall l1 l2, (forall k' v, In (k', v) l1 -> v = None) ->
  forall i, lookup k (l1 ++ l2) = Some (Some i) -> lookup k l2 = Some (Some i).
Proof.
  induction l1 as [|[k' v] t IH]; intros l2 Hn i H; simpl in H; [exact H|]. destruct (k =? k')%Z.
  - rewrite (Hn k' v (or_introl eq_refl)) in H. discriminate.
  - apply IH; [intros k'' v' Hin; apply (Hn k'' v'); right; exact Hin|exact H].
Qed.
Lemma lookup_in k : forall l v, lookup k l = Some v -> exists k', In (k', v) l.
Proof.
  induction l as [|[k' v'] t IH]; intros v H; simpl in H; [discriminate|]. destruct (k =? k')%Z.
  - inversion H; subst. exists k'. left. reflexivity.
  - destruct (IH v H) as (k'' & Hin). exists k''. right. exact Hin.
Qed.
Theorem cmap_index_in_range ign_c cviews cid i : lookup cid (spec_cmap ign_c cviews) = Some (Some i) -> i < List.length (spec_csorted ign_c cviews).
Proof.
  unfold spec_cmap. intros H. apply lookup_app_none in H.
  - destruct (lookup_in _ _ _ H) as (k' & Hin). apply in_map_iff in Hin. destruct Hin as ([j v] & Heq & Hin). simpl in Heq. inversion Heq; subst.
    apply in_combine_seq in Hin. destruct Hin as [_ Hn]. rewrite Nat.sub_0_r in Hn. apply nth_error_Some. congruence.
  - intros k' v Hin. apply in_map_iff in Hin. destruct Hin as (x & Heq & _). inversion Heq. reflexivity.
Qed.

(* ---------------------------------------------------------------- registrations *)
Lemma view_reg_choices part_id track_id cmap kr v : view_reg part_id track_id cmap kr = ROk v ->
  forall c pen, In (c, pen) (pc_choices (rv_pcd v)) -> exists cid, lookup cid cmap = Some (Some c).
Proof.
  destruct kr as [k reg]. unfold view_reg.
  destruct (ok_or (parse_u64 k) 15) as [rid|]; [|discriminate]. cbn [bind].
  destruct (ok_or _ 16) as [rparts|]; [|discriminate]. cbn [bind].
  destruct (match assoc (zstr part_id) rparts with Some p => _ | None => _ end) as [is_part|]; [|discriminate]. cbn [bind].
  destruct (ok_or _ 18) as [persona|]; [|discriminate]. cbn [bind].
  destruct (ok_or (match get "given_names" persona with Some v0 => as_str v0 | None => None end) 19) as [gn|]; [|discriminate]. cbn [bind].
  destruct (ok_or (match get "family_name" persona with Some v0 => as_str v0 | None => None end) 19) as [fn|]; [|discriminate]. cbn [bind].
  destruct is_part.
  - destruct (parse_pcd reg track_id cmap) as [d|] eqn:Ed; [|discriminate]. cbn [bind]. intros H. inversion H; subst v. clear H. cbn [rv_pcd].
    unfold parse_pcd in Ed. destruct (ok_or _ 40) as [rt|]; [|discriminate]. cbn [bind] in Ed.
    destruct (ok_or (get "course_id" rt) 41) as [acj|]; [|discriminate]. cbn [bind] in Ed.
    destruct (match as_u64 acj with Some cid => _ | None => _ end) as [assigned|]; [|discriminate]. cbn [bind] in Ed.
    destruct (ok_or (get "course_instructor" rt) 43) as [icj|]; [|discriminate]. cbn [bind] in Ed.
    destruct (match as_u64 icj with Some cid => _ | None => _ end) as [instr|]; [|discriminate]. cbn [bind] in Ed.
    destruct (ok_or _ 45) as [chs|]; [|discriminate]. cbn [bind] in Ed.
    destruct (pcd_choices cmap chs 0) as [choices|] eqn:Ec; [|discriminate]. cbn [bind] in Ed. inversion Ed; subst d. cbn [pc_choices].
    intros c pen Hin. destruct (choice_penalty_is_position cmap chs 0 choices c pen Ec Hin) as (_ & _ & cid & _ & _ & Hl). eauto.
  - cbn [bind]. intros H. inversion H; subst v. cbn [rv_pcd no_pcd pc_choices]. intros c pen [].
Qed.

(* ---------------------------------------------------------------- courses *)
Lemma view_course_minmax track_id ign_c ff of kc v : view_course track_id ign_c ff of kc = ROk v -> (0 <= cv_min v <= cv_max v)%Z.
Proof.
  destruct kc as [k c]. unfold view_course. destruct (ok_or (parse_u64 k) 12) as [cid|]; [|discriminate]. cbn [bind].
  unfold parse_course. destruct (ok_or _ 30) as [segs|]; [|discriminate]. cbn [bind].
  destruct (match assoc (zstr track_id) segs with Some v0 => _ | None => _ end) as [st|]; [|discriminate]. cbn [bind].
  destruct (ok_or _ 32) as [nr|]; [|discriminate]. cbn [bind]. destruct (ok_or _ 33) as [sn|]; [|discriminate]. cbn [bind].
  set (mx := match get "max_size" c with Some v0 => match as_u64 v0 with Some z => z | None => 25%Z end | None => 25%Z end).
  set (mn := match get "min_size" c with Some v0 => match as_u64 v0 with Some z => z | None => 0%Z end | None => 0%Z end).
  destruct (mx <? mn)%Z eqn:E; [discriminate|]. cbn [bind].
  match goal with |- context [let* fo := ?X in _] => destruct X as [fo|] end; [|discriminate]. cbn [bind].
  intros H. inversion H; subst v. cbn [cv_min cv_max]. apply Z.ltb_ge in E. split; [|exact E].
  unfold mn. destruct (get "min_size" c) as [v0|]; [|lia]. destruct (as_u64 v0) as [z|] eqn:Eu; [|lia].
  unfold as_u64 in Eu. destruct v0; try discriminate. destruct ((0 <=? z0)%Z && (z0 <? 18446744073709551616)%Z) eqn:Er; [|discriminate].
  inversion Eu; subst. apply andb_prop in Er. destruct Er as [Er _]. apply Z.leb_le. exact Er.
Qed.
Lemma adapt_minmax c : (0 <= rc_min c <= rc_max c)%Z -> (0 <= rc_min (adapt_course c) <= rc_max (adapt_course c))%Z.
Proof.
  intros H. unfold adapt_course. cbn [rc_min rc_max].
  destruct (Z.ltb_spec (rc_min c) (Z.of_nat (rc_inv_att c))), (Z.ltb_spec (rc_max c) (Z.of_nat (rc_inv_att c))); lia.
Qed.

(* ---------------------------------------------------------------- the whole reader *)
Theorem spec_read_consistent data track ign_c ign_a ff of ps cs amb :
  spec_read data track ign_c ign_a ff of = ROk (ps, cs, amb) ->
  (forall p c pen, In p ps -> In (c, pen) (rp_choices p) -> c < List.length cs) /\
  (forall c i, In c cs -> In i (rc_instr c) -> i < List.length ps) /\
  (forall c, In c cs -> (0 <= rc_min c <= rc_max c)%Z) /\
  NoDup (flat_map rc_instr cs).
Proof.
  unfold spec_read. destruct (check_version data) as [[]|]; [|discriminate]. cbn [bind].
  destruct (ok_or _ 9) as [ts|]; [|discriminate]. cbn [bind]. destruct (ok_or _ 10) as [parts|]; [|discriminate]. cbn [bind].
  destruct (find_track parts track) as [[[part_id track_id] td]|]; [|discriminate]. cbn [bind].
  destruct (ok_or _ 11) as [cdata|]; [|discriminate]. cbn [bind].
  destruct (mapM (view_course track_id ign_c ff of) (obj_items cdata)) as [cviews|] eqn:Ecv; [|discriminate]. cbn [bind].
  destruct (ok_or _ 14) as [rdata|]; [|discriminate]. cbn [bind].
  destruct (mapM (view_reg part_id track_id (spec_cmap ign_c cviews)) (obj_items rdata)) as [rviews|] eqn:Erv; [|discriminate]. cbn [bind].
  destruct (ok_or _ 50) as [eid|]; [|discriminate]. cbn [bind]. destruct (ok_or _ 51) as [sn|]; [|discriminate]. cbn [bind].
  intros H. inversion H; subst ps cs. clear H.
  set (csorted := spec_csorted ign_c cviews).
  assert (Hlen : List.length (spec_courses ign_a csorted rviews) = List.length csorted).
  { unfold spec_courses. rewrite map_length, combine_length, seq_length. lia. }
  assert (Hplen : List.length (spec_participants ign_a rviews) = List.length (filter (kept ign_a) rviews)).
  { unfold spec_participants. rewrite map_length. reflexivity. }
  split; [|split; [|split]].
  - (* choices name courses of the problem *)
    intros p c pen Hp Hc. apply spec_participants_exactly in Hp. destruct Hp as (v & Hv & _ & ->). unfold mk_part in Hc. cbn [rp_choices] in Hc.
    destruct (mapM_In' _ _ _ _ Erv Hv) as (kr & _ & Hkr). destruct (view_reg_choices _ _ _ _ _ Hkr c pen Hc) as (cid & Hl).
    rewrite Hlen. apply (cmap_index_in_range ign_c cviews cid c Hl).
  - (* instructors are participants of the problem *)
    intros c i Hc Hi. unfold spec_courses in Hc. apply in_map_iff in Hc. destruct Hc as ([ci v] & <- & _). cbn [fst snd] in Hi.
    unfold spec_course, adapt_course in Hi. cbn [rc_instr] in Hi. apply spec_instructors_exactly in Hi. destruct Hi as (w & Hn & _).
    rewrite Hplen. apply nth_error_Some. congruence.
  - (* limits *)
    intros c Hc. unfold spec_courses in Hc. apply in_map_iff in Hc. destruct Hc as ([ci v] & <- & Hin). cbn [fst snd].
    unfold spec_course. apply adapt_minmax. cbn [rc_min rc_max].
    apply in_combine_r in Hin. unfold csorted, spec_csorted in Hin.
    apply in_sort_by in Hin. apply filter_In in Hin. destruct Hin as [Hv _].
    destruct (mapM_In' _ _ _ _ Ecv Hv) as (kc & _ & Hkc). apply (view_course_minmax _ _ _ _ _ _ Hkc).
  - (* nobody instructs twice *)
    unfold spec_courses. rewrite flat_map_concat_map, map_map, <- flat_map_concat_map.
    set (keptl := filter (kept ign_a) rviews).
    assert (E : flat_map (fun x : nat * cview => rc_instr (spec_course ign_a rviews (fst x) (snd x))) (combine (seq 0 (List.length csorted)) csorted) =
                flat_map (fun ci => map fst (filter (fun ir : nat * rview => opt_is (pc_instr (rv_pcd (snd ir))) ci) (combine (seq 0 (List.length keptl)) keptl)))
                         (seq 0 (List.length csorted))).
    { rewrite <- (map_fst_combine_seq' csorted 0) at 2. rewrite flat_map_concat_map, (flat_map_concat_map _ (map fst _)), map_map. reflexivity. }
    rewrite E. apply (nodup_flat_map_partition fst (fun ci (ir : nat * rview) => opt_is (pc_instr (rv_pcd (snd ir))) ci)).
    + rewrite map_fst_combine_seq'. apply seq_NoDup.
    + intros x a b Ha Hb. unfold opt_is in Ha, Hb. destruct (pc_instr (rv_pcd (snd x))) as [c'|]; [|discriminate].
      apply Nat.eqb_eq in Ha, Hb. congruence.
    + apply seq_NoDup.
Qed.
