(* Soundness of the executable consistency check Cde.import_okb (C05, C11): what it accepts satisfies the declarative statement
   ImportOK -- the text of C05 spelled out for an import file (registration pairs, course flags) and the problem (ps, cs) it was computed
   from.  The check is evaluated inside Coq on every import file the real binary writes; this theorem says what a `true` means. *)
From Coq Require Import List ZArith Bool Arith String Lia.
Require Import HP1 Cao1 Cao3 Json Cde.
Import ListNotations.
Open Scope nat_scope.

Definition dp0 : rpart := {| rp_dbid := 0; rp_name := ""; rp_choices := [] |}.
(* the person with registration id rid is the participant p (the first one with that id), the course with id cid is course c *)
Definition is_part (ps : list rpart) (rid : Z) (p : nat) : Prop := p < List.length ps /\ rp_dbid (nth p ps dp0) = rid /\ forall q, q < p -> rp_dbid (nth q ps dp0) <> rid.
Definition is_course (cs : list rcourse) (cid : Z) (c : nat) : Prop := c < List.length cs /\ rc_dbid (nth c cs dflt_c) = cid /\ forall q, q < c -> rc_dbid (nth q cs dflt_c) <> cid.
Definition chose (ps : list rpart) (p c : nat) : Prop := exists pen, In (c, pen) (rp_choices (nth p ps dp0)).
Definition instructs_c (cs : list rcourse) (p c : nat) : Prop := In p (rc_instr (nth c cs dflt_c)).
(* attendees of a course in the file besides its instructors *)
Definition file_attendees (ps : list rpart) (cs : list rcourse) (regs : list (Z * Z)) (cid : Z) (c : nat) : nat :=
  List.length (filter (fun r : Z * Z => (snd r =? cid)%Z &&
                         negb (match index_where (fun p => (rp_dbid p =? fst r)%Z) ps 0 with Some p => existsb (Nat.eqb p) (rc_instr (nth c cs dflt_c)) | None => false end)) regs).

Record ImportOK (ps : list rpart) (cs : list rcourse) (regs : list (Z * Z)) (crs : list (Z * bool)) : Prop := {
  (* every registration and every course is mentioned at most once *)
  io_regs_once : NoDup (map fst regs);
  io_crs_once : NoDup (map fst crs);
  (* the file names only registrations and courses of the problem; every registration it assigns is placed in a course that the file marks
     as taking place and that the person chose or instructs *)
  io_assigned : forall rid cid, In (rid, cid) regs ->
    exists p c, is_part ps rid p /\ is_course cs cid c /\ In (cid, true) crs /\ (chose ps p c \/ instructs_c cs p c);
  (* every course it marks as taking place holds between min and max attendees besides its instructors (limits of the problem: already
     reduced by the places reserved for ignored pre-assigned attendees); nobody is assigned to a course it cancels, and a course with
     reserved places (fixed) is never cancelled *)
  io_courses : forall cid flag, In (cid, flag) crs ->
    exists c, is_course cs cid c /\
      (flag = true -> Z.to_nat (rc_min (nth c cs dflt_c)) <= file_attendees ps cs regs cid c <= Z.to_nat (rc_max (nth c cs dflt_c))) /\
      (flag = false -> (forall rid, ~ In (rid, cid) regs) /\ rc_fixed (nth c cs dflt_c) = false);
  (* every course of the problem is mentioned *)
  io_all_courses : forall c, c < List.length cs -> exists flag, In (rc_dbid (nth c cs dflt_c), flag) crs
}.

(* ---- helper lemmas ---- *)
Lemma znodup_sound : forall l, znodup l = true -> NoDup l.
Proof.
  induction l as [|x t IH]; intros H; [constructor|]. cbn [znodup] in H. apply andb_true_iff in H. destruct H as [H1 H2]. constructor; [|apply IH; exact H2].
  intros Hin. apply negb_true_iff in H1. assert (existsb (Z.eqb x) t = true) by (apply existsb_exists; exists x; split; [exact Hin|apply Z.eqb_refl]). congruence.
Qed.
Lemma zfind_in {A} : forall (l : list (Z * A)) k v, zfind k l = Some v -> In (k, v) l.
Proof.
  induction l as [|[k' v'] t IH]; intros k v H; [discriminate|]. cbn [zfind] in H. destruct (Z.eqb_spec k k') as [->|Hne].
  - inversion H; subst. left. reflexivity.
  - right. apply IH. exact H.
Qed.
Lemma index_where_spec {A} (f : A -> bool) (d : A) : forall l s i, index_where f l s = Some i ->
  s <= i /\ i - s < List.length l /\ f (nth (i - s) l d) = true /\ forall q, q < i - s -> f (nth q l d) = false.
Proof.
  induction l as [|x t IH]; intros s i H; [discriminate|]. cbn [index_where] in H. destruct (f x) eqn:Ef.
  - inversion H; subst. rewrite Nat.sub_diag. cbn [List.length nth]. repeat split; [lia|lia|exact Ef|intros q Hq; lia].
  - apply IH in H. destruct H as (H1 & H2 & H3 & H4). replace (i - s) with (S (i - S s)) by lia. cbn [List.length nth]. repeat split; [lia|lia|exact H3|].
    intros q Hq. destruct q as [|q]; [exact Ef|]. apply H4. lia.
Qed.
Lemma pidx_is_part ps rid p : index_where (fun q => (rp_dbid q =? rid)%Z) ps 0 = Some p -> is_part ps rid p.
Proof.
  intros H. apply (index_where_spec _ dp0) in H. rewrite Nat.sub_0_r in H. destruct H as (_ & H2 & H3 & H4). repeat split; [exact H2|apply Z.eqb_eq; exact H3|].
  intros q Hq E. specialize (H4 q Hq). apply Z.eqb_neq in H4. contradiction.
Qed.
Lemma cidx_is_course cs cid c : index_where (fun q => (rc_dbid q =? cid)%Z) cs 0 = Some c -> is_course cs cid c.
Proof.
  intros H. apply (index_where_spec _ dflt_c) in H. rewrite Nat.sub_0_r in H. destruct H as (_ & H2 & H3 & H4). repeat split; [exact H2|apply Z.eqb_eq; exact H3|].
  intros q Hq E. specialize (H4 q Hq). apply Z.eqb_neq in H4. contradiction.
Qed.

Theorem import_okb_sound ps cs regs crs : import_okb ps cs regs crs = true -> ImportOK ps cs regs crs.
Proof.
  unfold import_okb. intros H.
  repeat (apply andb_true_iff in H; destruct H as [H ?]).
  rename H into Hn1. rename H5 into Hn2. rename H4 into Hk1. rename H3 into Hk2. rename H2 into Hreg. rename H1 into Hcrs. rename H0 into Hall.
  rewrite forallb_forall in Hk1, Hk2, Hreg, Hcrs, Hall.
  constructor.
  - apply znodup_sound. exact Hn1.
  - apply znodup_sound. exact Hn2.
  - intros rid cid Hin. specialize (Hreg (rid, cid) Hin). cbn [fst snd] in Hreg.
    destruct (index_where (fun p => (rp_dbid p =? rid)%Z) ps 0) as [p|] eqn:Ep; [|discriminate].
    destruct (index_where (fun c => (rc_dbid c =? cid)%Z) cs 0) as [c|] eqn:Ec; [|discriminate].
    apply andb_true_iff in Hreg. destruct Hreg as [Hact Hwhy].
    exists p, c. split; [apply pidx_is_part; exact Ep|]. split; [apply cidx_is_course; exact Ec|]. split.
    + destruct (zfind cid crs) as [[|]|] eqn:Ez; try discriminate. apply zfind_in. exact Ez.
    + apply orb_true_iff in Hwhy. destruct Hwhy as [Hc|Hi].
      * left. apply existsb_exists in Hc. destruct Hc as ([c' pen] & Hin' & He). cbn [fst] in He. apply Nat.eqb_eq in He. subst c'. exists pen. exact Hin'.
      * right. apply existsb_exists in Hi. destruct Hi as (p' & Hin' & He). apply Nat.eqb_eq in He. subst p'. exact Hin'.
  - intros cid flag Hin. specialize (Hcrs (cid, flag) Hin). cbn [fst snd] in Hcrs.
    destruct (index_where (fun c => (rc_dbid c =? cid)%Z) cs 0) as [c|] eqn:Ec; [|discriminate].
    exists c. split; [apply cidx_is_course; exact Ec|]. split.
    + intros ->. apply andb_true_iff in Hcrs. destruct Hcrs as [H1 H2]. apply Nat.leb_le in H1, H2. unfold file_attendees. split; assumption.
    + intros ->. apply andb_true_iff in Hcrs. destruct Hcrs as [H1 H2]. split; [|apply negb_true_iff; exact H2].
      intros rid Hr. apply negb_true_iff in H1.
      assert (existsb (fun r : Z * Z => (snd r =? cid)%Z) regs = true) by (apply existsb_exists; exists (rid, cid); split; [exact Hr|apply Z.eqb_refl]). congruence.
  - intros c Hc. specialize (Hall (nth c cs dflt_c) (nth_In cs dflt_c Hc)).
    destruct (zfind (rc_dbid (nth c cs dflt_c)) crs) as [flag|] eqn:Ez; [|discriminate]. exists flag. apply zfind_in. exact Ez.
Qed.
