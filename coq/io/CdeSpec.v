(* A DECLARATIVE model of cdedb::read (C12): every registration and course is first viewed in isolation (what the export says about
   it for the selected track), and the problem is then described by filters, sorts and counts over these views -- no running
   state.  It is tied to the code by the same exact correspondence as the transcription Json.read_fields (both must agree with the
   real reader on every generated export); the statements of C12 are theorems about this specification. *)
From Coq Require Import List ZArith Bool Arith String Lia.
Require Import Json.
Import ListNotations.
Open Scope nat_scope.

(* ---- views ---- *)
Record cview := { cv_id : Z; cv_name : string; cv_status : cstatus; cv_min : Z; cv_max : Z; cv_key : string; cv_fields : option json * option json }.
Definition view_course (track_id : Z) (ign_c : bool) (ff of : option string) (kc : string * json) : result cview :=
  let '(k, c) := kc in
  let* cid := ok_or (parse_u64 k) 12 in
  let* (name, st, mn, mx, key) := parse_course cid c track_id in
  let skip := match st with NotOffered => true | Cancelled => ign_c | TakesPlace => false end in
  let* fo := (if skip then ROk (None, None) else
              let* _ := ok_or (match get "fields" c with Some v => as_object v | None => None end) 13 in
              match get "fields" c with Some fl => ROk (num_field fl ff, num_field fl of) | None => ROk (None, None) end) in
  ROk {| cv_id := cid; cv_name := name; cv_status := st; cv_min := mn; cv_max := mx; cv_key := key; cv_fields := fo |}.
(* a course is part of the problem iff it is offered in the track and not an ignored cancelled one *)
Definition in_problem (ign_c : bool) (v : cview) : bool :=
  match cv_status v with NotOffered => false | Cancelled => negb ign_c | TakesPlace => true end.

(* counted in the summary: a cancelled course that is skipped because of --ignore-cancelled (a course not offered in the track is not counted) *)
Definition ignored_cancelled (ign_c : bool) (v : cview) : bool := match cv_status v with Cancelled => ign_c | _ => false end.

Record rview := { rv_id : Z; rv_name : string; rv_part : bool; rv_pcd : pcd }.
Definition no_pcd : pcd := {| pc_assigned := None; pc_instr := None; pc_choices := [] |}.
Definition view_reg (part_id track_id : Z) (cmap : list (Z * option nat)) (kr : string * json) : result rview :=
  let '(k, reg) := kr in
  let* rid := ok_or (parse_u64 k) 15 in
  let* rparts := ok_or (match get "parts" reg with Some v => as_object v | None => None end) 16 in
  let* is_part := match assoc (zstr part_id) rparts with
                  | Some p => match as_object p with
                              | Some _ => let* stz := ok_or (match get "status" p with Some v => as_i64 v | None => None end) 17 in ROk (stz =? 2)%Z
                              | None => ROk false end
                  | None => ROk false end in
  let* persona := ok_or (match get "persona" reg with Some v => match as_object v with Some _ => Some v | None => None end | None => None end) 18 in
  let* gn := ok_or (match get "given_names" persona with Some v => as_str v | None => None end) 19 in
  let* fn := ok_or (match get "family_name" persona with Some v => as_str v | None => None end) 19 in
  let* d := (if is_part then parse_pcd reg track_id cmap else ROk no_pcd) in
  ROk {| rv_id := rid; rv_name := (gn ++ " " ++ fn)%string; rv_part := is_part; rv_pcd := d |}.

(* ---- who is what ---- *)
Definition ignored (ign_a : bool) (v : rview) : bool :=
  rv_part v && ign_a && match pc_assigned (rv_pcd v) with Some _ => true | None => false end.
(* a registration becomes a participant iff it has status 'participant' in the track's part, is not an ignored pre-assigned one, and has
   a valid choice or instructs a course of the problem *)
Definition kept (ign_a : bool) (v : rview) : bool :=
  rv_part v && negb (ignored ign_a v) &&
  (negb (match pc_choices (rv_pcd v) with [] => true | _ => false end) || match pc_instr (rv_pcd v) with Some _ => true | None => false end).
Definition opt_is (o : option nat) (c : nat) : bool := match o with Some c' => Nat.eqb c' c | None => false end.

(* the problem, given the views (csorted: the courses of the problem in their final order; rviews: all registrations in key order) *)
Definition mk_part (v : rview) : rpart := {| rp_dbid := rv_id v; rp_name := rv_name v; rp_choices := pc_choices (rv_pcd v) |}.
Definition spec_participants (ign_a : bool) (rviews : list rview) : list rpart := map mk_part (filter (kept ign_a) rviews).
Definition spec_instructors (ign_a : bool) (rviews : list rview) (ci : nat) : list nat :=
  let keptl := filter (kept ign_a) rviews in
  map fst (filter (fun ir : nat * rview => opt_is (pc_instr (rv_pcd (snd ir))) ci) (combine (seq 0 (List.length keptl)) keptl)).
Definition spec_course (ign_a : bool) (rviews : list rview) (ci : nat) (v : cview) : rcourse :=
  let mine := filter (fun r => opt_is (pc_assigned (rv_pcd r)) ci) (filter (ignored ign_a) rviews) in
  adapt_course {| rc_dbid := cv_id v; rc_name := cv_name v; rc_min := cv_min v; rc_max := cv_max v;
                  rc_instr := spec_instructors ign_a rviews ci; rc_fixed := false; rc_hidden := map rv_name mine;
                  rc_inv_instr := List.length (filter (fun r => opt_is (pc_instr (rv_pcd r)) ci) mine);
                  rc_inv_att := List.length (filter (fun r => negb (opt_is (pc_instr (rv_pcd r)) ci)) mine) |}.
Definition spec_courses (ign_a : bool) (csorted : list cview) (rviews : list rview) : list rcourse :=
  map (fun iv : nat * cview => spec_course ign_a rviews (fst iv) (snd iv)) (combine (seq 0 (List.length csorted)) csorted).
Definition same_course (r : rview) : bool := match pc_assigned (rv_pcd r) with Some ci => opt_is (pc_instr (rv_pcd r)) ci | None => false end.
(* a participant WITH CHOICES (valid ones: of courses of the problem) -- only those are rated *)
Definition has_choices (r : rview) : bool := match pc_choices (rv_pcd r) with [] => false | _ => true end.
Definition spec_quality (ign_a : bool) (td : json) (rviews : list rview) : nat * list nat :=
  let ign := filter (ignored ign_a) rviews in
  (List.length (filter (fun r => same_course r && has_choices r) ign),
   map (fun r => match pc_assigned (rv_pcd r) with Some ci => assigned_penalty ci (pc_choices (rv_pcd r)) td | None => 0 end)
       (filter (fun r => negb (same_course r) && has_choices r) ign)).
(* the courses of the problem: those offered (and not ignored), ordered by right-aligned course number, ties in key order *)
Definition spec_csorted (ign_c : bool) (cviews : list cview) : list cview := sort_by cv_key (filter (in_problem ign_c) cviews).
Definition spec_cmap (ign_c : bool) (cviews : list cview) : list (Z * option nat) :=
  let csorted := spec_csorted ign_c cviews in
  (map (fun cid => (cid, None)) (map cv_id (filter (fun v => negb (in_problem ign_c v)) cviews)) ++
   map (fun iv : nat * cview => (cv_id (snd iv), Some (fst iv))) (combine (seq 0 (List.length csorted)) csorted))%list.

Definition spec_read (data : json) (track : option Z) (ign_c ign_a : bool) (ff of : option string) : result (list rpart * list rcourse * ramb) :=
  let* _ := check_version data in
  let* _ts := ok_or (match get "timestamp" data with Some v => as_str v | None => None end) 9 in
  let* parts := ok_or (match get "event" data with Some ev => match as_object ev with Some _ => match get "parts" ev with Some p => as_object p | None => None end | None => None end | None => None end) 10 in
  let* (part_id, track_id, td) := find_track parts track in
  let* cdata := ok_or (match get "courses" data with Some v => as_object v | None => None end) 11 in
  let* cviews := mapM (view_course track_id ign_c ff of) (obj_items cdata) in
  let csorted := spec_csorted ign_c cviews in
  let* rdata := ok_or (match get "registrations" data with Some v => as_object v | None => None end) 14 in
  let* rviews := mapM (view_reg part_id track_id (spec_cmap ign_c cviews)) (obj_items rdata) in
  let* eid := ok_or (match get "id" data with Some v => as_u64 v | None => None end) 50 in
  let* _sn := ok_or (match get "shortname" td with Some v => as_str v | None => None end) 51 in
  ROk (spec_participants ign_a rviews, spec_courses ign_a csorted rviews,
       {| ra_event := eid; ra_track := track_id; ra_part := part_id; ra_qual := if ign_a then Some (spec_quality ign_a td rviews) else None;
          ra_ign_courses := List.length (filter (ignored_cancelled ign_c) cviews);
          ra_ign_regs := List.length (filter (ignored ign_a) rviews); ra_fields := map cv_fields csorted |}).

(* ------------------------------------------------------------------ what the specification says (C12) *)

(* exactly the registrations with status 'participant' in the part of the selected track that are not ignored pre-assigned ones and
   have a valid choice or instruct a course of the problem -- in key order *)
Theorem spec_participants_exactly ign_a rviews p :
  In p (spec_participants ign_a rviews) <-> exists v, In v rviews /\ kept ign_a v = true /\ p = mk_part v.
Proof.
  unfold spec_participants. rewrite in_map_iff. split.
  - intros (v & <- & Hv). apply filter_In in Hv. exists v. tauto.
  - intros (v & Hin & Hk & ->). exists v. split; [reflexivity|apply filter_In; tauto].
Qed.
Theorem kept_iff ign_a v : kept ign_a v = true <->
  rv_part v = true /\ (ign_a = true -> pc_assigned (rv_pcd v) = None) /\ (pc_choices (rv_pcd v) <> [] \/ pc_instr (rv_pcd v) <> None).
Proof.
  unfold kept, ignored. destruct (rv_part v), ign_a, (pc_assigned (rv_pcd v)), (pc_choices (rv_pcd v)), (pc_instr (rv_pcd v)); simpl;
    intuition (try discriminate; try congruence).
Qed.
Theorem spec_participants_order ign_a rviews :
  map rp_dbid (spec_participants ign_a rviews) = map rv_id (filter (kept ign_a) rviews).
Proof. unfold spec_participants. rewrite map_map. reflexivity. Qed.
(* instructors of a course are stored as the running indices of the kept registrations that instruct it *)
Lemma in_combine_seq {A} : forall (l : list A) s i v, In (i, v) (combine (seq s (List.length l)) l) <-> s <= i /\ nth_error l (i - s) = Some v.
Proof.
  induction l as [|x t IH]; intros s i v; simpl.
  - split; [intros []|intros [_ H]; destruct (i - s); discriminate].
  - split.
    + intros [Heq|Hin]; [inversion Heq; subst; split; [lia|rewrite Nat.sub_diag; reflexivity]|].
      apply IH in Hin. destruct Hin as [Hle Hn]. split; [lia|]. replace (i - s) with (S (i - S s)) by lia. exact Hn.
    + intros [Hle Hn]. destruct (Nat.eq_dec i s) as [->|Hne].
      * rewrite Nat.sub_diag in Hn. simpl in Hn. inversion Hn; subst. left. reflexivity.
      * right. apply IH. split; [lia|]. replace (i - s) with (S (i - S s)) in Hn by lia. exact Hn.
Qed.
Theorem spec_instructors_exactly ign_a rviews ci i :
  In i (spec_instructors ign_a rviews ci) <->
  exists v, nth_error (filter (kept ign_a) rviews) i = Some v /\ pc_instr (rv_pcd v) = Some ci.
Proof.
  unfold spec_instructors. set (keptl := filter (kept ign_a) rviews). rewrite in_map_iff. split.
  - intros ([j v] & Hj & Hin). simpl in Hj. subst j. apply filter_In in Hin. destruct Hin as [Hin Hf]. simpl in Hf.
    apply in_combine_seq in Hin. destruct Hin as [_ Hn]. rewrite Nat.sub_0_r in Hn. exists v. split; [exact Hn|].
    unfold opt_is in Hf. destruct (pc_instr (rv_pcd v)) as [c'|]; [|discriminate]. apply Nat.eqb_eq in Hf. subst. reflexivity.
  - intros (v & Hn & Hi). exists (i, v). split; [reflexivity|]. apply filter_In. split.
    + apply in_combine_seq. split; [lia|]. rewrite Nat.sub_0_r. exact Hn.
    + simpl. rewrite Hi. unfold opt_is. apply Nat.eqb_refl.
Qed.
(* the courses of the problem are exactly the offered (not ignored) ones, ordered by the right-aligned course number (ties in key
   order); names, limits and the configured room fields come from the course's view *)
Theorem spec_courses_exactly ign_a csorted rviews :
  map rc_dbid (spec_courses ign_a csorted rviews) = map cv_id csorted /\ map rc_name (spec_courses ign_a csorted rviews) = map cv_name csorted.
Proof.
  unfold spec_courses. rewrite !map_map. simpl.
  assert (G : forall {B} (g : cview -> B) s, map (fun x : nat * cview => g (snd x)) (combine (seq s (List.length csorted)) csorted) = map g csorted).
  { intros B g. induction csorted as [|x t IH]; intros s; simpl; [reflexivity|]. f_equal. apply IH. }
  split; apply G.
Qed.
(* size limits: the export's max_size / min_size when they are non-negative integers, else the defaults 25 and 0 *)
Theorem view_course_limits track_id ign_c ff of k c v : view_course track_id ign_c ff of (k, c) = ROk v ->
  cv_max v = match get "max_size" c with Some x => match as_u64 x with Some z => z | None => 25%Z end | None => 25%Z end /\
  cv_min v = match get "min_size" c with Some x => match as_u64 x with Some z => z | None => 0%Z end | None => 0%Z end.
Proof.
  unfold view_course. destruct (parse_u64 k) as [cid|]; [|discriminate]. cbn [ok_or bind].
  unfold parse_course. destruct (match get "segments" c with Some v0 => as_object v0 | None => None end) as [segs|]; [|discriminate]. cbn [ok_or bind].
  destruct (match assoc (zstr track_id) segs with Some v0 => _ | None => _ end) as [st|]; [|discriminate]. cbn [bind].
  destruct (match get "nr" c with Some v0 => as_str v0 | None => None end) as [nr|]; [|discriminate]. cbn [ok_or bind].
  destruct (match get "shortname" c with Some v0 => as_str v0 | None => None end) as [sn|]; [|discriminate]. cbn [ok_or bind].
  match goal with |- context [if ?b then RErr 34 else _] => destruct b end; [discriminate|]. cbn [bind].
  match goal with |- context [let* fo := ?X in _] => destruct X as [fo|] end; [|discriminate]. cbn [bind].
  intros H. inversion H; subst. simpl. split; reflexivity.
Qed.

(* the configured room factor / offset fields: for a course of the problem the view carries the values of the two configured fields of the
   export's `fields` object when they are numbers (anything else, and a missing field or option, counts as "not configured": the defaults 1.0
   and 0.0 are applied where the sizes are computed) *)
Theorem view_course_fields track_id ign_c ff of k c v : view_course track_id ign_c ff of (k, c) = ROk v -> in_problem ign_c v = true ->
  exists fl, get "fields" c = Some fl /\ cv_fields v = (num_field fl ff, num_field fl of).
Proof.
  unfold view_course. destruct (parse_u64 k) as [cid|]; [|discriminate]. cbn [ok_or bind].
  destruct (parse_course cid c track_id) as [[[[[name st] mn] mx] key]|e]; [|discriminate]. cbn [bind].
  intros H Hp.
  destruct st.
  - (* not offered: not in the problem *)
    cbn [bind] in H. inversion H; subst. unfold in_problem in Hp. cbn in Hp. discriminate.
  - destruct ign_c.
    + cbn [bind] in H. inversion H; subst. unfold in_problem in Hp. cbn in Hp. discriminate.
    + destruct (match get "fields" c with Some v0 => as_object v0 | None => None end) as [o|] eqn:Eo; [|discriminate H]. cbn [ok_or bind] in H.
      destruct (get "fields" c) as [fl|] eqn:Ef; [|discriminate Eo]. cbn [bind] in H. inversion H; subst. exists fl. split; reflexivity.
  - destruct (match get "fields" c with Some v0 => as_object v0 | None => None end) as [o|] eqn:Eo; [|discriminate H]. cbn [ok_or bind] in H.
    destruct (get "fields" c) as [fl|] eqn:Ef; [|discriminate Eo]. cbn [bind] in H. inversion H; subst. exists fl. split; reflexivity.
Qed.
