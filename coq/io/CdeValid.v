(* From CdE exports to the solver's validity predicate: the problem the reader builds (transcription = specification) is a valid instance
   as soon as the three clauses hold that neither the reader nor check_data_consistency establishes (no course twice in a choice list,
   participants * longest choice list < WEIGHT_OFFSET, somebody has a choice). *)
From Coq Require Import List ZArith Bool Arith String Lia.
Require Import Consts HP1 Cao1 Cao3 Spec Valid Json CdeSpec CdeRefine CdeConsistent.
Import ListNotations.
Open Scope nat_scope.

Definition cde_choice (ch : nat * nat) : choice := {| ch_course := fst ch; ch_pen := Z.of_nat (snd ch) |}.
Definition cde_part (p : rpart) : participant := {| p_choices := map cde_choice (rp_choices p) |}.
Definition cde_course (c : rcourse) : course :=
  {| c_min := Z.to_nat (rc_min c); c_max := Z.to_nat (rc_max c); c_instr := rc_instr c; c_fixed := rc_fixed c |}.

Definition cde_unchecked_okb (ps : list rpart) : bool :=
  forallb (fun p => nodupb (map ch_course (p_choices (cde_part p)))) ps &&
  (Z.of_nat (List.length ps) * maxpen (map cde_part ps) <? WEIGHT_OFFSET)%Z &&
  existsb (fun p => negb (match rp_choices p with [] => true | _ => false end)) ps.

Lemma nodupb_complete' : forall l, NoDup l -> nodupb l = true.
Proof.
  induction l as [|x t IH]; intros H; [reflexivity|]. inversion H as [|? ? Hx Ht]; subst. simpl. rewrite (IH Ht), andb_true_r.
  apply negb_true_iff. destruct (memb x t) eqn:E; [|reflexivity]. apply memb_true in E. contradiction.
Qed.
Lemma flat_map_cde_instr cs : flat_map c_instr (map cde_course cs) = flat_map rc_instr cs.
Proof. induction cs as [|c t IH]; [reflexivity|]. simpl. rewrite IH. reflexivity. Qed.

Theorem export_valid data track ign_c ign_a ff of ps cs amb :
  read_fields data track ign_c ign_a ff of = ROk (ps, cs, amb) -> cde_unchecked_okb ps = true ->
  Valid (map cde_course cs) (map cde_part ps).
Proof.
  intros Hr Hu. rewrite read_fields_refines_spec in Hr. destruct (spec_read_consistent _ _ _ _ _ _ _ _ _ Hr) as (Hch & Hin & Hmm & Hnd).
  unfold cde_unchecked_okb in Hu. apply andb_prop in Hu. destruct Hu as [Hu Hreal]. apply andb_prop in Hu. destruct Hu as [Hcd Hpen].
  apply validb_valid. unfold Spec.validb. unfold Cao1.np, Cao1.nc. rewrite !map_length.
  apply andb_true_iff. split; [apply andb_true_iff; split; [apply andb_true_iff; split; [apply andb_true_iff; split|]|]|].
  - apply forallb_forall. intros c' Hc'. apply in_map_iff in Hc'. destruct Hc' as (c & <- & Hcin). simpl. apply andb_true_iff. split.
    + apply forallb_forall. intros i Hi. apply Nat.ltb_lt. apply (Hin c i Hcin Hi).
    + apply Nat.leb_le. pose proof (Hmm c Hcin). lia.
  - apply nodupb_complete'. rewrite flat_map_cde_instr. exact Hnd.
  - apply forallb_forall. intros p' Hp'. apply in_map_iff in Hp'. destruct Hp' as (p & <- & Hpin). apply andb_true_iff. split.
    + apply forallb_forall. intros ch' Hch'. simpl in Hch'. apply in_map_iff in Hch'. destruct Hch' as ([c pen] & <- & Hchin). simpl.
      apply andb_true_iff. split; [apply Nat.ltb_lt; apply (Hch p c pen Hpin Hchin)|apply Z.leb_le; lia].
    + rewrite forallb_forall in Hcd. apply Hcd. exact Hpin.
  - exact Hpen.
  - apply existsb_exists in Hreal. destruct Hreal as (p & Hpin & Hne).
    destruct (In_nth ps p {| rp_dbid := 0; rp_name := EmptyString; rp_choices := [] |} Hpin) as (i & Hi & Hn).
    apply existsb_exists. exists i. split; [apply in_seq; lia|].
    unfold Cao1.instr_only, Cao1.prt. change {| p_choices := [] |} with (cde_part {| rp_dbid := 0; rp_name := EmptyString; rp_choices := [] |}).
    rewrite map_nth, Hn. simpl. destruct (rp_choices p); [discriminate|reflexivity].
Qed.
