(* Round trip for the simple input format: the document that io::simple::write_input_data produces for an instance (all fields written,
   object form) is read back by SimpleRead.simple_read as exactly that instance.  Ties the instances the harness hands to the library
   to the files it writes for the real binary. *)
From Coq Require Import List ZArith Bool Arith String Ascii Lia.
Require Import Consts Json SimpleRead.
Import ListNotations.
Open Scope string_scope.
Open Scope list_scope.

Definition doc_choice (ch : schoice) : json := JObj [("course", JInt (sc_course ch)); ("penalty", JInt (sc_pen ch))].
Definition doc_part (p : spart) : json := JObj [("name", JStr (sp_name p)); ("choices", JArr (map doc_choice (sp_choices p)))].
Definition doc_course (c : scourse) : json :=
  JObj [("name", JStr (so_name c)); ("num_max", JInt (so_max c)); ("num_min", JInt (so_min c)); ("instructors", JArr (map JInt (so_instr c)));
        ("room_factor", match so_factor c with Some v => v | None => JInt 1 end);
        ("room_offset", match so_offset c with Some v => v | None => JInt 0 end);
        ("fixed_course", JBool (so_fixed c)); ("hidden_participant_names", JArr (map JStr (so_hidden c)))].
Definition doc (ps : list spart) (cs : list scourse) : json :=
  JObj [("format", JStr "X-coursedata-simple"); ("version", JStr "1.0"); ("participants", JArr (map doc_part ps)); ("courses", JArr (map doc_course cs))].

Definition u64 (z : Z) : Prop := (0 <= z < 18446744073709551616)%Z.
Definition u32 (z : Z) : Prop := (0 <= z < 4294967296)%Z.
Definition wf_choice (ch : schoice) : Prop := u64 (sc_course ch) /\ u32 (sc_pen ch).
Definition wf_part (p : spart) : Prop := Forall wf_choice (sp_choices p).
Definition wf_course (c : scourse) : Prop :=
  u64 (so_max c) /\ u64 (so_min c) /\ Forall u64 (so_instr c) /\
  (exists v, so_factor c = Some v /\ is_num v = true) /\ (exists v, so_offset c = Some v /\ is_num v = true).

Lemma as_u64_ok z : u64 z -> as_u64 (JInt z) = Some z.
Proof. intros [H1 H2]. unfold as_u64. replace ((0 <=? z)%Z && (z <? 18446744073709551616)%Z) with true; [reflexivity|]. symmetry. apply andb_true_iff. split; [apply Z.leb_le|apply Z.ltb_lt]; lia. Qed.
Lemma de_u32_ok z : u32 z -> de_u32 (JInt z) = ROk z.
Proof. intros [H1 H2]. unfold de_u32. replace ((0 <=? z)%Z && (z <? 4294967296)%Z) with true; [reflexivity|]. symmetry. apply andb_true_iff. split; [apply Z.leb_le|apply Z.ltb_lt]; lia. Qed.

Lemma mapM_map_ok {A B} (g : A -> json) (f : json -> result B) (h : A -> B) : forall l, Forall (fun a => f (g a) = ROk (h a)) l -> mapM f (map g l) = ROk (map h l).
Proof. induction 1 as [|a t Ha Ht IH]; [reflexivity|]. simpl. rewrite Ha. cbn [bind]. rewrite IH. reflexivity. Qed.

Lemma choice_round ch : wf_choice ch -> de_choice (doc_choice ch) = ROk ch.
Proof.
  intros [H1 H2]. unfold de_choice, doc_choice, req. cbn [assoc String.eqb Ascii.eqb Bool.eqb]. unfold de_usize. rewrite (as_u64_ok _ H1). cbn [ok_or bind].
  rewrite (de_u32_ok _ H2). cbn [bind]. destruct ch; reflexivity.
Qed.

Lemma part_round p : wf_part p -> de_part (doc_part p) = ROk p.
Proof.
  intros H. unfold de_part, doc_part, req. cbn [assoc String.eqb Ascii.eqb Bool.eqb]. cbn [de_string as_str ok_or bind de_vec].
  rewrite (mapM_map_ok doc_choice de_choice (fun ch => ch)).
  - cbn [bind]. rewrite map_id. destruct p; reflexivity.
  - unfold wf_part in H. rewrite Forall_forall in *. intros ch Hch. apply choice_round, H, Hch.
Qed.

Lemma course_round c : wf_course c -> de_course (doc_course c) = ROk c.
Proof.
  intros (H1 & H2 & H3 & (vf & Ef & Hf) & (vo & Eo & Ho)). unfold de_course, doc_course, req, opt.
  cbn [assoc String.eqb Ascii.eqb Bool.eqb]. cbn [de_string as_str ok_or bind]. unfold de_usize at 1 2. rewrite (as_u64_ok _ H1), (as_u64_ok _ H2). cbn [ok_or bind de_vec].
  rewrite (mapM_map_ok JInt de_usize (fun z => z)).
  2:{ rewrite Forall_forall in *. intros z Hz. unfold de_usize. rewrite (as_u64_ok _ (H3 z Hz)). reflexivity. }
  cbn [bind]. rewrite Ef, Eo. unfold de_f32. rewrite Hf, Ho. cbn [bind de_bool as_bool ok_or].
  rewrite (mapM_map_ok JStr de_string (fun x => x)) by (apply Forall_forall; intros; reflexivity). cbn [bind].
  rewrite !map_id. destruct c; cbn in *; subst; reflexivity.
Qed.

Theorem simple_round_trip ps cs : Forall wf_part ps -> Forall wf_course cs -> simple_read (doc ps cs) = ROk (ps, cs).
Proof.
  intros Hp Hc. unfold simple_read, doc, get. cbn [assoc String.eqb Ascii.eqb Bool.eqb ok_or bind de_vec].
  rewrite (mapM_map_ok doc_part de_part (fun p => p)) by (rewrite Forall_forall in *; intros p Hpin; apply part_round, Hp, Hpin). cbn [bind].
  rewrite (mapM_map_ok doc_course de_course (fun c => c)) by (rewrite Forall_forall in *; intros c Hcin; apply course_round, Hc, Hcin). cbn [bind].
  rewrite !map_id. reflexivity.
Qed.
