(* Model of the decision skeleton of main.rs (C15, C16): the exit status and whether an output file is produced, as a function of
   what each stage returned.  Parsing itself (clap, serde_json) is the trusted library returning Ok/Err; what is modelled is what
   cdecao decides from those results.  Exit codes: 2 clap usage error, 64 USAGE, 65 DATAERR, 66 NOINPUT, 74 IOERR, 1 no solution. *)
From Coq Require Import List Arith Bool Lia.
Import ListNotations.
Open Scope nat_scope.

Record stages := {
  args_ok : bool;          (* clap accepted the command line (incl. --num-threads >= 1) *)
  track_ok : bool;         (* --track value parses as a number (only looked at with --cde) *)
  rooms_both : bool;       (* --rooms and --rooms-file given together *)
  rooms_open_ok : bool;    (* the rooms file can be opened *)
  rooms_parse_ok : bool;   (* room list / rooms file parses *)
  input_open_ok : bool;
  input_parse_ok : bool;   (* reader (simple or CdE) returned Ok *)
  consistent : bool;       (* check_data_consistency: indices in range, min <= max *)
  has_participants : bool;
  found : bool;            (* the solver reports a solution *)
  out_requested : bool;
  create_ok : bool;        (* File::create succeeded *)
  write_ok : bool          (* the format writer returned Ok *)
}.

Definition exit_code (s : stages) : nat :=
  if negb (args_ok s) then 2
  else if rooms_both s then 64
  else if negb (rooms_open_ok s) then 66
  else if negb (rooms_parse_ok s) then 65
  else if negb (input_open_ok s) then 66
  else if negb (track_ok s) then 65
  else if negb (input_parse_ok s) then 65
  else if negb (consistent s) then 65
  else if negb (has_participants s) then 65
  else if negb (found s) then 1
  else if out_requested s && negb (create_ok s && write_ok s) then 74
  else 0.

(* the output file is (attempted to be) created only after a solution was found *)
Definition reaches_output (s : stages) : bool :=
  args_ok s && negb (rooms_both s) && rooms_open_ok s && rooms_parse_ok s && input_open_ok s && track_ok s && input_parse_ok s &&
  consistent s && has_participants s && found s && out_requested s.

Definition well_formed_run (s : stages) : bool :=
  args_ok s && negb (rooms_both s) && rooms_open_ok s && rooms_parse_ok s && input_open_ok s && track_ok s && input_parse_ok s &&
  consistent s && has_participants s.

(* C16: exit status 0 with a requested output means the file was created and written completely *)
Theorem exit0_output_written s : out_requested s = true -> exit_code s = 0 -> create_ok s = true /\ write_ok s = true.
Proof.
  unfold exit_code. intros Ho.
  repeat (match goal with |- context [if ?b then _ else _] => destruct b eqn:? end; try discriminate).
  intros _. rewrite Ho in *. simpl in *. apply negb_false_iff in Heqb9. apply andb_true_iff in Heqb9. exact Heqb9.
Qed.
(* C16: a failing create or write gives a non-zero status *)
Theorem output_failure_nonzero s : out_requested s = true -> (create_ok s = false \/ write_ok s = false) -> exit_code s <> 0.
Proof.
  intros Ho Hf Hz. destruct (exit0_output_written s Ho Hz) as [H1 H2]. destruct Hf; congruence.
Qed.
(* C15: input that is not a well-formed run is refused with a data/usage status and never reaches the output stage *)
Theorem malformed_refused s : well_formed_run s = false ->
  In (exit_code s) [2; 64; 65; 66] /\ reaches_output s = false.
Proof.
  unfold well_formed_run, exit_code, reaches_output. intros H.
  destruct (args_ok s); simpl in *; [|split; [auto|reflexivity]].
  destruct (rooms_both s); simpl in *; [split; [auto|reflexivity]|].
  destruct (rooms_open_ok s); simpl in *; [|split; [auto 6|reflexivity]].
  destruct (rooms_parse_ok s); simpl in *; [|split; [auto 6|reflexivity]].
  destruct (input_open_ok s); simpl in *; [|split; [auto 6|reflexivity]].
  destruct (track_ok s); simpl in *; [|split; [auto 6|reflexivity]].
  destruct (input_parse_ok s); simpl in *; [|split; [auto 6|reflexivity]].
  destruct (consistent s); simpl in *; [|split; [auto 6|reflexivity]].
  destruct (has_participants s); simpl in *; [discriminate|split; [auto 6|reflexivity]].
Qed.
(* C10 at this level: a well-formed run ends with 0, 1 (no solution) or 74 (output failure) *)
Theorem wellformed_exit s : well_formed_run s = true -> In (exit_code s) [0; 1; 74].
Proof.
  unfold well_formed_run, exit_code. intros H. repeat (apply andb_true_iff in H; destruct H as [H ?]).
  rewrite H, H0, H1, H2, H3, H4, H5, H6. apply negb_true_iff in H7. rewrite H7. simpl.
  destruct (found s); simpl; [|auto]. destruct (out_requested s && negb (create_ok s && write_ok s)); simpl; auto.
Qed.
