(* C11 on the declarative reader specification (= the transcription of cdedb::read, CdeRefine): ignored registrations and ignored
   courses never enter the problem; the places of ignored attendees are reserved. *)
From Coq Require Import List ZArith Bool Arith String Lia.
Require Import Json CdeSpec CdeThms.
Import ListNotations.
Open Scope nat_scope.

(* no ignored registration is a participant of the problem *)
Theorem ignored_not_participant ign_a rviews p :
  In p (spec_participants ign_a rviews) -> exists v, In v rviews /\ ignored ign_a v = false /\ kept ign_a v = true /\ p = mk_part v.
Proof.
  intros Hin. apply spec_participants_exactly in Hin. destruct Hin as (v & Hv & Hk & ->). exists v. repeat split; try assumption.
  unfold kept in Hk. destruct (ignored ign_a v); [|reflexivity]. rewrite andb_false_r in Hk. discriminate.
Qed.
Theorem ignored_id_absent ign_a rviews v : NoDup (map rv_id rviews) -> In v rviews -> ignored ign_a v = true ->
  ~ In (rv_id v) (map rp_dbid (spec_participants ign_a rviews)).
Proof.
  intros Hnd Hv Hig Hin. rewrite spec_participants_order in Hin. apply in_map_iff in Hin. destruct Hin as (w & Hid & Hw).
  apply filter_In in Hw. destruct Hw as [Hw Hk].
  assert (w = v).
  { clear -Hnd Hv Hw Hid. induction rviews as [|x t IH]; [destruct Hv|]. simpl in Hnd. inversion Hnd as [|? ? Hx Ht]; subst.
    destruct Hv as [->|Hv], Hw as [->|Hw]; try reflexivity.
    - exfalso. apply Hx. rewrite <- Hid. apply in_map. exact Hw.
    - exfalso. apply Hx. rewrite Hid. apply in_map. exact Hv.
    - apply IH; assumption. }
  subst w. unfold kept in Hk. rewrite Hig in Hk. rewrite andb_false_r in Hk. discriminate.
Qed.

(* ignored courses (not offered in the track; cancelled ones with --ignore-cancelled) are not courses of the problem ... *)
Lemma in_insert_by {A} (key : A -> string) (x y : A) : forall l, In y (insert_by key x l) <-> y = x \/ In y l.
Proof.
  induction l as [|z t IH]; simpl; [intuition|]. destruct (str_ltb (key x) (key z)); simpl; [intuition|]. rewrite IH. intuition.
Qed.
Lemma in_sort_by {A} (key : A -> string) (y : A) (l : list A) : In y (sort_by key l) <-> In y l.
Proof.
  unfold sort_by. assert (G : forall l acc, In y (fold_left (fun acc x => insert_by key x acc) l acc) <-> In y l \/ In y acc).
  { induction l0 as [|x t IH]; intros acc; simpl; [intuition|]. rewrite IH, in_insert_by. intuition. }
  rewrite G. simpl. intuition.
Qed.
Theorem problem_courses_offered ign_c cviews v : In v (spec_csorted ign_c cviews) ->
  In v cviews /\ cv_status v <> NotOffered /\ (ign_c = true -> cv_status v = TakesPlace).
Proof.
  unfold spec_csorted. rewrite in_sort_by. intros Hin. apply filter_In in Hin. destruct Hin as [Hin Hp]. split; [exact Hin|].
  unfold in_problem in Hp. destruct (cv_status v); try discriminate; split; try discriminate; try reflexivity.
  intros ->. discriminate.
Qed.
(* ... and the id map sends their ids to "ignored", so choices, assignments and instructor entries naming them are dropped *)
Theorem ignored_course_lookup ign_c cviews v : In v cviews -> in_problem ign_c v = false -> lookup (cv_id v) (spec_cmap ign_c cviews) = Some None.
Proof.
  intros Hin Hp. unfold spec_cmap.
  set (sk := map cv_id (filter (fun v0 => negb (in_problem ign_c v0)) cviews)).
  assert (Hs : In (cv_id v) sk) by (unfold sk; apply in_map; apply filter_In; split; [exact Hin|rewrite Hp; reflexivity]).
  generalize (map (fun iv : nat * cview => (cv_id (snd iv), Some (fst iv))) (combine (seq 0 (List.length (spec_csorted ign_c cviews))) (spec_csorted ign_c cviews))).
  intros rest. induction sk as [|x t IH]; [destruct Hs|]. simpl. destruct (Z.eqb_spec (cv_id v) x) as [E|E]; [reflexivity|].
  apply IH. destruct Hs as [Hs|Hs]; [congruence|exact Hs].
Qed.
Theorem choices_never_ignored cmap : forall l res c pen, pcd_choices cmap l 0 = ROk res -> In (c, pen) res ->
  exists v cid, nth_error l pen = Some v /\ as_u64 v = Some cid /\ lookup cid cmap = Some (Some c).
Proof.
  intros l res c pen Hr Hin. destruct (choice_penalty_is_position cmap l 0 res c pen Hr Hin) as (_ & v & cid & Hn & Hv & Hl).
  rewrite Nat.sub_0_r in Hn. eauto.
Qed.

(* the places of ignored attendees are reserved: the course's limits are reduced by their number (never below 0), it is pinned, and
   their names are kept for the listing *)
Lemma part_len {A} (P : A -> bool) (l : list A) : List.length (filter P l) + List.length (filter (fun x => negb (P x)) l) = List.length l.
Proof. induction l as [|x t IH]; [reflexivity|]. simpl. destruct (P x); simpl; lia. Qed.
Theorem reserved_places ign_a rviews ci v :
  let mine := filter (fun r => opt_is (pc_assigned (rv_pcd r)) ci) (filter (ignored ign_a) rviews) in
  let att := List.length (filter (fun r => negb (opt_is (pc_instr (rv_pcd r)) ci)) mine) in
  let c := spec_course ign_a rviews ci v in
  rc_max c = Z.max 0 (cv_max v - Z.of_nat att) /\ rc_min c = Z.max 0 (cv_min v - Z.of_nat att) /\
  rc_hidden c = map rv_name mine /\ (rc_fixed c = true <-> mine <> []).
Proof.
  intros mine att c. unfold c, spec_course, adapt_course. cbn [rc_max rc_min rc_hidden rc_fixed rc_inv_att rc_inv_instr]. fold mine. fold att.
  repeat split.
  - destruct (Z.ltb_spec (cv_max v) (Z.of_nat att)); lia.
  - destruct (Z.ltb_spec (cv_min v) (Z.of_nat att)); lia.
  - intros Hf E. apply negb_true_iff, Nat.eqb_neq in Hf. apply Hf. unfold att. rewrite (part_len (fun r => opt_is (pc_instr (rv_pcd r)) ci) mine), E. reflexivity.
  - intros Hne. apply negb_true_iff. apply Nat.eqb_neq. unfold att. rewrite (part_len (fun r => opt_is (pc_instr (rv_pcd r)) ci) mine). destruct mine; [exfalso; apply Hne; reflexivity|discriminate].
Qed.
