(* CdE import file: model of cdedb::write (the parts that carry meaning: registrations and course segments), the problem that the
   reader model builds, and the executable consistency predicate of C05 / C11 on an import file. *)
From Coq Require Import List ZArith Bool Arith String.
Require Import HP1 Cao1 Cao3 Json.
Import ListNotations.
Open Scope nat_scope.

Definition to_course (c : rcourse) : course :=
  {| c_min := Z.to_nat (rc_min c); c_max := Z.to_nat (rc_max c); c_instr := rc_instr c; c_fixed := rc_fixed c |}.
Definition to_part (p : rpart) : participant :=
  {| p_choices := map (fun ch : nat * nat => {| ch_course := fst ch; ch_pen := Z.of_nat (snd ch) |}) (rp_choices p) |}.

(* the import file: registration id -> course id, in participant order; course id -> segment flag, in course order *)
Definition write_regs (a : assignment) (ps : list rpart) (cs : list rcourse) : list (Z * Z) :=
  flat_map (fun p => match getO a p with
                     | Some c => [(rp_dbid (nth p ps {| rp_dbid := 0; rp_name := ""; rp_choices := [] |}), rc_dbid (nth c cs dflt_c))]
                     | None => [] end) (seq 0 (List.length a)).
Definition size_of (a : assignment) (c : nat) : nat :=
  List.length (filter (fun o => match o with Some c' => Nat.eqb c' c | None => false end) a).
Definition write_courses (a : assignment) (cs : list rcourse) : list (Z * bool) :=
  map (fun c => (rc_dbid (nth c cs dflt_c), (0 <? size_of a c) || rc_fixed (nth c cs dflt_c))) (seq 0 (List.length cs)).

(* ---- consistency of an import file with the problem it was computed from (C05, C11) ---- *)
Fixpoint zfind {A} (k : Z) (l : list (Z * A)) : option A :=
  match l with [] => None | (k', v) :: t => if (k =? k')%Z then Some v else zfind k t end.
Fixpoint index_where {A} (f : A -> bool) (l : list A) (i : nat) : option nat :=
  match l with [] => None | x :: t => if f x then Some i else index_where f t (S i) end.
Fixpoint znodup (l : list Z) : bool := match l with [] => true | x :: t => negb (existsb (Z.eqb x) t) && znodup t end.

Definition import_okb (ps : list rpart) (cs : list rcourse) (regs : list (Z * Z)) (crs : list (Z * bool)) : bool :=
  let pidx := fun rid => index_where (fun p => (rp_dbid p =? rid)%Z) ps 0 in
  let cidx := fun cid => index_where (fun c => (rc_dbid c =? cid)%Z) cs 0 in
  (* only registrations / courses of the problem, each at most once *)
  znodup (map fst regs) && znodup (map fst crs) &&
  forallb (fun r : Z * Z => match pidx (fst r) with Some _ => true | None => false end) regs &&
  forallb (fun c : Z * bool => match cidx (fst c) with Some _ => true | None => false end) crs &&
  (* every assigned registration: a course that the file marks as taking place and that the person chose or instructs *)
  forallb (fun r : Z * Z =>
             match pidx (fst r), cidx (snd r) with
             | Some p, Some c =>
               (match zfind (snd r) crs with Some true => true | _ => false end) &&
               (existsb (fun ch : nat * nat => Nat.eqb (fst ch) c) (rp_choices (nth p ps {| rp_dbid := 0; rp_name := ""; rp_choices := [] |})) ||
                existsb (Nat.eqb p) (rc_instr (nth c cs dflt_c)))
             | _, _ => false end) regs &&
  (* every course: active -> min <= attendees (besides its instructors) <= max (limits already reduced by the places reserved for
     ignored pre-assigned attendees); inactive -> nobody assigned; a course with reserved places (fixed) must be active *)
  forallb (fun c : Z * bool =>
             match cidx (fst c) with
             | Some ci =>
               let rc := nth ci cs dflt_c in
               let att := List.length (filter (fun r : Z * Z => (snd r =? fst c)%Z &&
                                                 negb (match pidx (fst r) with Some p => existsb (Nat.eqb p) (rc_instr rc) | None => false end)) regs) in
               if snd c then (Z.to_nat (rc_min rc) <=? att) && (att <=? Z.to_nat (rc_max rc))
               else negb (existsb (fun r : Z * Z => (snd r =? fst c)%Z) regs) && negb (rc_fixed rc)
             | None => false end) crs &&
  (* every course of the problem is mentioned *)
  forallb (fun c => match zfind (rc_dbid c) crs with Some _ => true | None => false end) cs.
