(* C05 end to end: from an ACCEPTED export with canonical keys, through the reader (read_fields), ANY hard-feasible assignment of the problem it
   builds and the writer's whole document, to the declarative consistency statement ImportOK about what the import side reads from that
   document.  Composes CdeIds (distinct ids), CdeWriteOk (the written lists pass import_okb), CdeImportSound (what import_okb means),
   WriteDocThms (the import side reads the written lists back, up to order). *)
From Coq Require Import List ZArith Bool Arith String Ascii Lia Permutation.
Require Import HP1 Cao1 Cao3 Json Cde CdeWriteOk CdeSpec CdeRefine CdeIds WriteDoc WriteDocThms CdeImportSound.
Import ListNotations.
Open Scope nat_scope.

(* ---- ids lie in the u64 range ---- *)
Lemma parse_digits_nonneg : forall s acc z, (0 <= acc)%Z -> parse_digits s acc = Some z -> (0 <= z)%Z.
Proof.
  induction s as [|c t IH]; intros acc z Ha H; cbn [parse_digits] in H; [inversion H; subst; exact Ha|].
  destruct ((48 <=? Ascii.nat_of_ascii c) && (Ascii.nat_of_ascii c <=? 57)); [|discriminate]. apply (IH _ z) in H; [exact H|lia].
Qed.
Definition chk64 (o : option Z) : option Z := match o with Some z => if (z <? 18446744073709551616)%Z then Some z else None | None => None end.
Lemma parse_u64_unfold k : parse_u64 k =
  match k with
  | EmptyString => None
  | String c t => if Ascii.eqb c "+"%char then match t with EmptyString => None | _ => chk64 (parse_digits t 0%Z) end else chk64 (parse_digits k 0%Z)
  end.
Proof.
  destruct k as [|c t]; [reflexivity|]. destruct c as [[] [] [] [] [] [] [] []]; reflexivity.
Qed.
Lemma chk64_range s z : chk64 (parse_digits s 0%Z) = Some z -> in_u64 z.
Proof.
  unfold chk64, in_u64. destruct (parse_digits s 0%Z) as [z0|] eqn:E; [|discriminate]. destruct (Z.ltb_spec z0 18446744073709551616); [|discriminate].
  intros Hs. inversion Hs; subst. split; [apply (parse_digits_nonneg s 0%Z z ltac:(lia) E)|assumption].
Qed.
Lemma parse_u64_range k z : parse_u64 k = Some z -> in_u64 z.
Proof.
  rewrite parse_u64_unfold. destruct k as [|c t]; [discriminate|]. destruct (Ascii.eqb c "+"%char).
  - destruct t as [|c' t']; [discriminate|]. apply chk64_range.
  - apply chk64_range.
Qed.

Lemma mapM_in {A B} (f : A -> result B) : forall l vs, mapM f l = ROk vs -> forall v, In v vs -> exists x, In x l /\ f x = ROk v.
Proof.
  induction l as [|x t IH]; intros vs H v Hv; cbn [mapM] in H.
  - inversion H; subst. destruct Hv.
  - destruct (f x) as [b|] eqn:Eb; [|discriminate]. cbn [bind] in H. destruct (mapM f t) as [bs|] eqn:Et; [|discriminate]. cbn [bind] in H. inversion H; subst.
    destruct Hv as [->|Hv]; [exists x; split; [left; reflexivity|exact Eb]|]. destruct (IH bs eq_refl v Hv) as (y & Hy & Hf). exists y. split; [right; exact Hy|exact Hf].
Qed.

Theorem spec_read_ids_in_range data track ign_c ign_a ff of ps cs amb :
  spec_read data track ign_c ign_a ff of = ROk (ps, cs, amb) ->
  (forall p, In p ps -> in_u64 (rp_dbid p)) /\ (forall c, In c cs -> in_u64 (rc_dbid c)).
Proof.
  unfold spec_read. intros H.
  binv H. binv H. binv H. binv H.
  match goal with x : (Z * Z * json)%type |- _ => destruct x as [[part_id track_id] td] end.
  binv H.
  match type of H with bind ?r _ = _ => destruct r as [cviews|] eqn:Hcv; [cbn [bind] in H|discriminate H] end.
  binv H.
  match type of H with bind ?r _ = _ => destruct r as [rviews|] eqn:Hrv; [cbn [bind] in H|discriminate H] end.
  binv H. binv H. inversion H; subst. split.
  - intros p Hp. apply spec_participants_exactly in Hp. destruct Hp as (v & Hv & _ & ->). cbn [mk_part rp_dbid].
    destruct (mapM_in _ _ _ Hrv v Hv) as (kr & _ & Hf). apply view_reg_id in Hf. apply (parse_u64_range _ _ Hf).
  - intros c Hc. assert (Hid : In (rc_dbid c) (map rc_dbid (spec_courses ign_a (spec_csorted ign_c cviews) rviews))) by (apply in_map; exact Hc).
    destruct (spec_courses_exactly ign_a (spec_csorted ign_c cviews) rviews) as [E _]. rewrite E in Hid. apply in_map_iff in Hid. destruct Hid as (v & Hv & Hin).
    unfold spec_csorted in Hin. apply (Permutation_in _ (sort_by_perm cv_key _)) in Hin. apply filter_In in Hin. destruct Hin as [Hin _].
    destruct (mapM_in _ _ _ Hcv v Hin) as (kc & _ & Hf). apply view_course_id in Hf. rewrite <- Hv. apply (parse_u64_range _ _ Hf).
Qed.

(* ---- ImportOK does not depend on the order of the lists ---- *)
Lemma filter_perm_length {A} (f : A -> bool) l l' : Permutation l l' -> List.length (filter f l) = List.length (filter f l').
Proof.
  induction 1 as [|x l l' _ IH|x y l|l l' l'' _ IH1 _ IH2]; cbn [filter]; [reflexivity| | |congruence].
  - destruct (f x); cbn [List.length]; congruence.
  - destruct (f x), (f y); reflexivity.
Qed.
Theorem ImportOK_perm ps cs regs crs regs' crs' : Permutation regs regs' -> Permutation crs crs' -> ImportOK ps cs regs crs -> ImportOK ps cs regs' crs'.
Proof.
  intros Pr Pc [H1 H2 H3 H4 H5]. constructor.
  - apply (Permutation_NoDup (Permutation_map fst Pr) H1).
  - apply (Permutation_NoDup (Permutation_map fst Pc) H2).
  - intros rid cid Hin. apply (Permutation_in _ (Permutation_sym Pr)) in Hin. destruct (H3 rid cid Hin) as (p & c & Hp & Hc & Hact & Hwhy).
    exists p, c. repeat split; try assumption; try apply Hp; try apply Hc. apply (Permutation_in _ Pc Hact).
  - intros cid flag Hin. apply (Permutation_in _ (Permutation_sym Pc)) in Hin. destruct (H4 cid flag Hin) as (c & Hc & Ht & Hf). exists c. split; [exact Hc|]. split.
    + intros E. unfold file_attendees. rewrite <- (filter_perm_length _ _ _ Pr). apply (Ht E).
    + intros E. destruct (Hf E) as [Hn Hfx]. split; [|exact Hfx]. intros rid Hr. apply (Hn rid). apply (Permutation_in _ (Permutation_sym Pr) Hr).
  - intros c Hc. destruct (H5 c Hc) as (flag & Hin). exists flag. apply (Permutation_in _ Pc Hin).
Qed.

Definition row_flag (row : Z * bool * option (string * string)) : Z * bool := (fst (fst row), snd (fst row)).
Lemma course_rows_flags crs rooms : map row_flag (course_rows crs rooms) = crs.
Proof.
  unfold course_rows. rewrite map_map. unfold row_flag. cbn [fst snd]. generalize 0. induction crs as [|[cid fl] t IH]; intros s; [reflexivity|].
  cbn [List.length seq combine map fst snd]. f_equal. apply IH.
Qed.

Lemma nth_in_u64_p ps p : (forall q, In q ps -> in_u64 (rp_dbid q)) -> in_u64 (rp_dbid (nth p ps {| rp_dbid := 0; rp_name := ""; rp_choices := [] |})).
Proof.
  intros H. destruct (Nat.lt_ge_cases p (List.length ps)) as [L|L]; [apply H, nth_In; exact L|]. rewrite nth_overflow by exact L. cbn. unfold in_u64. lia.
Qed.
Lemma nth_in_u64_c cs c : (forall q, In q cs -> in_u64 (rc_dbid q)) -> in_u64 (rc_dbid (nth c cs dflt_c)).
Proof.
  intros H. destruct (Nat.lt_ge_cases c (List.length cs)) as [L|L]; [apply H, nth_In; exact L|]. rewrite nth_overflow by exact L. cbn. unfold in_u64. lia.
Qed.

(* ---- the composition ---- *)
Theorem export_to_import data track ign_c ign_a ff of ps cs amb K a rooms sm ts :
  read_fields data track ign_c ign_a ff of = ROk (ps, cs, amb) -> keys_canonical data = true ->
  HardOK_K (map to_course cs) (map to_part ps) K a ->
  (forall c, K c = true -> c < nc (map to_course cs) /\ c_fixed (crs (map to_course cs) c) = false) ->
  match rooms with Some (_, l) => List.length l = List.length cs | None => True end ->
  exists im,
    import_of_doc (ra_track amb) (write_doc (ra_event amb) (ra_track amb) (write_regs a ps cs) (write_courses a cs) rooms sm ts) = Some im /\
    im_event im = ra_event amb /\ im_summary im = sm /\
    ImportOK ps cs (im_regs im) (map row_flag (im_courses im)).
Proof.
  intros Hr Hk Hh HK Hrooms. rewrite read_fields_refines_spec in Hr.
  destruct (spec_read_ids_distinct data track ign_c ign_a ff of ps cs amb Hr Hk) as [NDp NDc].
  destruct (spec_read_ids_in_range data track ign_c ign_a ff of ps cs amb Hr) as [Rp Rc].
  pose proof (written_file_ok ps cs NDp NDc K a Hh HK) as Hok. apply import_okb_sound in Hok.
  destruct (import_of_write_doc (ra_event amb) (ra_track amb) (write_regs a ps cs) (write_courses a cs) rooms sm ts) as (im & Him & He & Hs & Pr & Pc).
  - apply (regs_fst_nodup ps cs NDp K a Hh).
  - rewrite crs_fst. exact NDc.
  - intros r Hin. unfold write_regs in Hin. apply in_flat_map in Hin. destruct Hin as (p & _ & Hin). destruct (getO a p) as [c|]; [|destruct Hin].
    destruct Hin as [<-|[]]. cbn [fst snd]. split; [apply nth_in_u64_p; exact Rp|apply nth_in_u64_c; exact Rc].
  - intros c Hin. unfold write_courses in Hin. apply in_map_iff in Hin. destruct Hin as (i & <- & _). cbn [fst]. apply nth_in_u64_c. exact Rc.
  - destruct rooms as [[f l]|]; [|exact I]. unfold write_courses. rewrite map_length, seq_length. exact Hrooms.
  - exists im. split; [exact Him|]. split; [exact He|]. split; [exact Hs|].
    apply (ImportOK_perm ps cs (write_regs a ps cs) (write_courses a cs)); [apply Permutation_sym; exact Pr| |exact Hok].
    rewrite <- (course_rows_flags (write_courses a cs) rooms). apply Permutation_map. apply Permutation_sym. exact Pc.
Qed.

(* ---- corollaries used by C11: what the file can and cannot mention ---- *)
(* every registration the file mentions is a participant of the problem ... *)
Theorem importok_regs_are_participants ps cs regs crs rid cid : ImportOK ps cs regs crs -> In (rid, cid) regs -> In rid (map rp_dbid ps).
Proof.
  intros H Hin. destruct (io_assigned _ _ _ _ H rid cid Hin) as (p & c & (Hp & Hid & _) & _). rewrite <- Hid. apply in_map. apply nth_In. exact Hp.
Qed.
(* ... every course it mentions is a course of the problem ... *)
Theorem importok_courses_of_problem ps cs regs crs cid flag : ImportOK ps cs regs crs -> In (cid, flag) crs -> In cid (map rc_dbid cs).
Proof.
  intros H Hin. destruct (io_courses _ _ _ _ H cid flag Hin) as (c & (Hc & Hid & _) & _). rewrite <- Hid. apply in_map. apply nth_In. exact Hc.
Qed.
(* ... and a course with reserved places (fixed: somebody ignored sits in it or instructs it) is marked as taking place *)
Theorem importok_fixed_active ps cs regs crs c : NoDup (map rc_dbid cs) -> ImportOK ps cs regs crs -> c < List.length cs ->
  rc_fixed (nth c cs dflt_c) = true -> In (rc_dbid (nth c cs dflt_c), true) crs.
Proof.
  intros ND H Hc Hf. destruct (io_all_courses _ _ _ _ H c Hc) as ([|] & Hin); [exact Hin|].
  destruct (io_courses _ _ _ _ H _ false Hin) as (c' & (Hc' & Hid & _) & _ & Hfalse). destruct (Hfalse eq_refl) as [_ Hnf].
  assert (c' = c) by (apply (key_inj rc_dbid dflt_c cs c' c ND Hc' Hc Hid)). subst c'. congruence.
Qed.

(* C11 end to end: for an accepted export with canonical keys (any options, in particular --ignore-assigned / --ignore-cancelled), any
   hard-feasible assignment and the writer's document: every registration the import side finds is a participant of the problem, every course
   it finds is a course of the problem, and every course with reserved places is marked as taking place *)
Theorem export_to_import_c11 data track ign_c ign_a ff of ps cs amb K a rooms sm ts :
  read_fields data track ign_c ign_a ff of = ROk (ps, cs, amb) -> keys_canonical data = true ->
  HardOK_K (map to_course cs) (map to_part ps) K a ->
  (forall c, K c = true -> c < nc (map to_course cs) /\ c_fixed (crs (map to_course cs) c) = false) ->
  match rooms with Some (_, l) => List.length l = List.length cs | None => True end ->
  exists im,
    import_of_doc (ra_track amb) (write_doc (ra_event amb) (ra_track amb) (write_regs a ps cs) (write_courses a cs) rooms sm ts) = Some im /\
    (forall rid cid, In (rid, cid) (im_regs im) -> In rid (map rp_dbid ps)) /\
    (forall cid flag fld, In (cid, flag, fld) (im_courses im) -> In cid (map rc_dbid cs)) /\
    (forall c, c < List.length cs -> rc_fixed (nth c cs dflt_c) = true -> exists fld, In (rc_dbid (nth c cs dflt_c), true, fld) (im_courses im)).
Proof.
  intros Hr Hk Hh HK Hrooms.
  destruct (export_to_import data track ign_c ign_a ff of ps cs amb K a rooms sm ts Hr Hk Hh HK Hrooms) as (im & Him & _ & _ & Hok).
  exists im. split; [exact Him|]. split; [|split].
  - intros rid cid Hin. apply (importok_regs_are_participants _ _ _ _ rid cid Hok Hin).
  - intros cid flag fld Hin. apply (importok_courses_of_problem _ _ _ _ cid flag Hok). apply in_map_iff. exists (cid, flag, fld). split; [reflexivity|exact Hin].
  - intros c Hc Hf. rewrite read_fields_refines_spec in Hr. destruct (spec_read_ids_distinct data track ign_c ign_a ff of ps cs amb Hr Hk) as [_ NDc].
    pose proof (importok_fixed_active _ _ _ _ c NDc Hok Hc Hf) as Hin. apply in_map_iff in Hin. destruct Hin as ([[cid fl] fld] & E & Hin).
    unfold row_flag in E. cbn [fst snd] in E. inversion E; subst. exists fld. exact Hin.
Qed.
