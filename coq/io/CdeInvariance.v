(* C13 for the declarative reader specification: the problem depends only on the selected track's live data. *)
From Coq Require Import List ZArith Bool Arith String Lia.
Require Import Json CdeThms CdeSpec.
Import ListNotations.
Open Scope nat_scope.

Lemma mapM_ext {A A' B} (f : A -> result B) (g : A' -> result B) : forall l l', Forall2 (fun x y => f x = g y) l l' -> mapM f l = mapM g l'.
Proof. induction 1 as [|x y l l' Hxy _ IH]; simpl; [reflexivity|]. rewrite Hxy, IH. reflexivity. Qed.

Lemma Forall2_impl {A B} (P Q : A -> B -> Prop) : (forall x y, P x y -> Q x y) -> forall l l', Forall2 P l l' -> Forall2 Q l l'.
Proof. intros H l l' F. induction F; constructor; auto. Qed.

(* ---- what view_reg looks at ---- *)
Definition reg_data (part_id track_id : Z) (reg : json) : option (option json) * option (option string * option string) * option json :=
  (match get "parts" reg with Some v => match as_object v with Some o => Some (assoc (zstr part_id) o) | None => None end | None => None end,
   match get "persona" reg with
   | Some v => match as_object v with
               | Some _ => Some (match get "given_names" v with Some x => as_str x | None => None end,
                                 match get "family_name" v with Some x => as_str x | None => None end)
               | None => None end
   | None => None end,
   match get "tracks" reg with Some v => match as_object v with Some o => assoc (zstr track_id) o | None => None end | None => None end).

Theorem view_reg_depends part_id track_id cmap k reg reg' :
  reg_data part_id track_id reg = reg_data part_id track_id reg' ->
  view_reg part_id track_id cmap (k, reg) = view_reg part_id track_id cmap (k, reg').
Proof.
  unfold reg_data. intros H. inversion H as [[H1 H2 H3]]. clear H.
  assert (Hp : parse_pcd reg track_id cmap = parse_pcd reg' track_id cmap) by (apply parse_pcd_other_tracks; exact H3).
  unfold view_reg. destruct (parse_u64 k) as [rid|]; [|reflexivity]. cbn [ok_or bind].
  destruct (get "parts" reg) as [v|], (get "parts" reg') as [v'|]; try destruct (as_object v) as [o|]; try destruct (as_object v') as [o'|];
    try discriminate; try reflexivity; cbn [ok_or bind].
  inversion H1 as [H1']. rewrite H1'.
  match goal with |- (let* is_part := ?X in _) = _ => destruct X as [is_part|code] end; [|reflexivity]. cbn [bind].
  destruct (get "persona" reg) as [pv|], (get "persona" reg') as [pv'|]; try destruct (as_object pv) as [po|]; try destruct (as_object pv') as [po'|];
    try discriminate; try reflexivity; cbn [ok_or bind].
  inversion H2 as [[Hg Hf]]. rewrite Hg, Hf, Hp. reflexivity.
Qed.

(* ---- what view_course looks at ---- *)
Definition course_data (track_id : Z) (c : json) :=
  (get "nr" c, get "shortname" c, get "max_size" c, get "min_size" c, get "fields" c,
   match get "segments" c with Some v => match as_object v with Some o => Some (assoc (zstr track_id) o) | None => None end | None => None end).

Theorem view_course_depends track_id ign_c ff of k c c' :
  course_data track_id c = course_data track_id c' ->
  view_course track_id ign_c ff of (k, c) = view_course track_id ign_c ff of (k, c').
Proof.
  unfold course_data. intros H. inversion H as [[H1 H2 H3 H4 H5 H6]]. clear H.
  unfold view_course. destruct (parse_u64 k) as [cid|]; [|reflexivity]. cbn [ok_or bind].
  assert (Hpc : parse_course cid c track_id = parse_course cid c' track_id).
  { unfold parse_course. rewrite H1, H2, H3, H4.
    destruct (get "segments" c) as [v|], (get "segments" c') as [v'|]; try destruct (as_object v) as [o|]; try destruct (as_object v') as [o'|];
      try discriminate; try reflexivity; cbn [ok_or bind]. inversion H6 as [H6']. rewrite H6'. reflexivity. }
  rewrite Hpc, H5. reflexivity.
Qed.

(* ---- the whole reader specification ---- *)
Definition items_of (key : string) (data : json) : option (list (string * json)) :=
  match get key data with Some v => match as_object v with Some o => Some (obj_items o) | None => None end | None => None end.

Theorem spec_read_depends data data' track ign_c ign_a ff of :
  (* same kind / version / timestamp / event structure (parts and tracks) / event id *)
  get "kind" data = get "kind" data' -> get "EVENT_SCHEMA_VERSION" data = get "EVENT_SCHEMA_VERSION" data' ->
  get "CDEDB_EXPORT_EVENT_VERSION" data = get "CDEDB_EXPORT_EVENT_VERSION" data' ->
  get "timestamp" data = get "timestamp" data' -> get "event" data = get "event" data' -> get "id" data = get "id" data' ->
  (* the same courses and registrations (keys), each agreeing on what the selected track's view reads *)
  (forall part_id track_id,
     match items_of "courses" data, items_of "courses" data' with
     | Some l, Some l' => Forall2 (fun x y : string * json => fst x = fst y /\ course_data track_id (snd x) = course_data track_id (snd y)) l l'
     | None, None => True | _, _ => False end /\
     match items_of "registrations" data, items_of "registrations" data' with
     | Some l, Some l' => Forall2 (fun x y : string * json => fst x = fst y /\ reg_data part_id track_id (snd x) = reg_data part_id track_id (snd y)) l l'
     | None, None => True | _, _ => False end) ->
  spec_read data track ign_c ign_a ff of = spec_read data' track ign_c ign_a ff of.
Proof.
  intros Hk Hv Hv2 Ht He Hi Hitems. unfold spec_read, check_version. rewrite Hk, Hv, Hv2, Ht, He, Hi.
  destruct (let* kind := ok_or (match get "kind" data' with Some v => as_str v | None => None end) 1 in _) as [u|]; [|reflexivity]. cbn [bind].
  destruct (ok_or (match get "timestamp" data' with Some v => as_str v | None => None end) 9) as [ts|]; [|reflexivity]. cbn [bind].
  destruct (ok_or (match get "event" data' with Some ev => _ | None => None end) 10) as [parts|]; [|reflexivity]. cbn [bind].
  destruct (find_track parts track) as [[[part_id track_id] td]|]; [|reflexivity]. cbn [bind].
  destruct (Hitems part_id track_id) as [Hc Hr]. unfold items_of in Hc, Hr.
  destruct (get "courses" data) as [cv|], (get "courses" data') as [cv'|]; try destruct (as_object cv) as [co|]; try destruct (as_object cv') as [co'|];
    try contradiction; try reflexivity; cbn [ok_or bind].
  assert (Ecv : mapM (view_course track_id ign_c ff of) (obj_items co) = mapM (view_course track_id ign_c ff of) (obj_items co')).
  { apply mapM_ext. eapply Forall2_impl; [|exact Hc]. intros [k c] [k' c'] [Hkk Hcd]. simpl in *. subst k'. apply view_course_depends. exact Hcd. }
  rewrite Ecv. destruct (mapM (view_course track_id ign_c ff of) (obj_items co')) as [cviews|]; [|reflexivity]. cbn [bind].
  destruct (get "registrations" data) as [rv|], (get "registrations" data') as [rv'|]; try destruct (as_object rv) as [ro|]; try destruct (as_object rv') as [ro'|];
    try contradiction; try reflexivity; cbn [ok_or bind].
  assert (Erv : mapM (view_reg part_id track_id (spec_cmap ign_c cviews)) (obj_items ro) = mapM (view_reg part_id track_id (spec_cmap ign_c cviews)) (obj_items ro')).
  { apply mapM_ext. eapply Forall2_impl; [|exact Hr]. intros [k r] [k' r'] [Hkk Hrd]. simpl in *. subst k'. apply view_reg_depends. exact Hrd. }
  rewrite Erv. reflexivity.
Qed.

(* The same with the agreement demanded ONLY for the part and track that find_track selects (the statement above asks for it at every
   pair of ids, which other-track edits do not satisfy; its proof uses the selected pair only). *)
Definition event_parts (data : json) : option (list (string * json)) :=
  match get "event" data with Some ev => match as_object ev with Some _ => match get "parts" ev with Some p => as_object p | None => None end | None => None end | None => None end.
Definition selected (data : json) (track : option Z) : option (Z * Z) :=
  match event_parts data with
  | Some parts => match find_track parts track with ROk (p, t, _) => Some (p, t) | RErr _ => None end
  | None => None end.

Theorem spec_read_depends_selected data data' track ign_c ign_a ff of :
  get "kind" data = get "kind" data' -> get "EVENT_SCHEMA_VERSION" data = get "EVENT_SCHEMA_VERSION" data' ->
  get "CDEDB_EXPORT_EVENT_VERSION" data = get "CDEDB_EXPORT_EVENT_VERSION" data' ->
  get "timestamp" data = get "timestamp" data' -> get "event" data = get "event" data' -> get "id" data = get "id" data' ->
  (forall part_id track_id, selected data' track = Some (part_id, track_id) ->
     match items_of "courses" data, items_of "courses" data' with
     | Some l, Some l' => Forall2 (fun x y : string * json => fst x = fst y /\ course_data track_id (snd x) = course_data track_id (snd y)) l l'
     | None, None => True | _, _ => False end /\
     match items_of "registrations" data, items_of "registrations" data' with
     | Some l, Some l' => Forall2 (fun x y : string * json => fst x = fst y /\ reg_data part_id track_id (snd x) = reg_data part_id track_id (snd y)) l l'
     | None, None => True | _, _ => False end) ->
  spec_read data track ign_c ign_a ff of = spec_read data' track ign_c ign_a ff of.
Proof.
  intros Hk Hv Hv2 Ht He Hi Hitems. unfold spec_read, check_version. rewrite Hk, Hv, Hv2, Ht, He, Hi.
  destruct (let* kind := ok_or (match get "kind" data' with Some v => as_str v | None => None end) 1 in _) as [u|]; [|reflexivity]. cbn [bind].
  destruct (ok_or (match get "timestamp" data' with Some v => as_str v | None => None end) 9) as [ts|]; [|reflexivity]. cbn [bind].
  destruct (ok_or (match get "event" data' with Some ev => _ | None => None end) 10) as [parts|] eqn:Ep; [|reflexivity]. cbn [bind].
  destruct (find_track parts track) as [[[part_id track_id] td]|] eqn:Ef; [|reflexivity]. cbn [bind].
  assert (Hsel : selected data' track = Some (part_id, track_id)).
  { unfold selected, event_parts. unfold ok_or in Ep.
    destruct (match get "event" data' with Some ev => _ | None => None end) as [parts'|]; [|discriminate]. inversion Ep; subst parts'. rewrite Ef. reflexivity. }
  destruct (Hitems part_id track_id Hsel) as [Hc Hr]. unfold items_of in Hc, Hr.
  destruct (get "courses" data) as [cv|], (get "courses" data') as [cv'|]; try destruct (as_object cv) as [co|]; try destruct (as_object cv') as [co'|];
    try contradiction; try reflexivity; cbn [ok_or bind].
  assert (Ecv : mapM (view_course track_id ign_c ff of) (obj_items co) = mapM (view_course track_id ign_c ff of) (obj_items co')).
  { apply mapM_ext. eapply Forall2_impl; [|exact Hc]. intros [k c] [k' c'] [Hkk Hcd]. simpl in *. subst k'. apply view_course_depends. exact Hcd. }
  rewrite Ecv. destruct (mapM (view_course track_id ign_c ff of) (obj_items co')) as [cviews|]; [|reflexivity]. cbn [bind].
  destruct (get "registrations" data) as [rv|], (get "registrations" data') as [rv'|]; try destruct (as_object rv) as [ro|]; try destruct (as_object rv') as [ro'|];
    try contradiction; try reflexivity; cbn [ok_or bind].
  assert (Erv : mapM (view_reg part_id track_id (spec_cmap ign_c cviews)) (obj_items ro) = mapM (view_reg part_id track_id (spec_cmap ign_c cviews)) (obj_items ro')).
  { apply mapM_ext. eapply Forall2_impl; [|exact Hr]. intros [k r] [k' r'] [Hkk Hrd]. simpl in *. subst k'. apply view_reg_depends. exact Hrd. }
  rewrite Erv. reflexivity.
Qed.

(* ---- without --ignore-assigned the existing assignment (course_id) does not matter ---- *)
Definition forget_assigned (v : rview) : rview :=
  {| rv_id := rv_id v; rv_name := rv_name v; rv_part := rv_part v;
     rv_pcd := {| pc_assigned := None; pc_instr := pc_instr (rv_pcd v); pc_choices := pc_choices (rv_pcd v) |} |}.
Lemma kept_forget v : kept false (forget_assigned v) = kept false v.
Proof. unfold kept, ignored. simpl. rewrite !andb_false_r. reflexivity. Qed.
Theorem assigned_irrelevant csorted rviews :
  spec_participants false (map forget_assigned rviews) = spec_participants false rviews /\
  spec_courses false csorted (map forget_assigned rviews) = spec_courses false csorted rviews.
Proof.
  assert (Hf : forall l, filter (kept false) (map forget_assigned l) = map forget_assigned (filter (kept false) l)).
  { induction l as [|v t IH]; simpl; [reflexivity|]. rewrite kept_forget. destruct (kept false v); simpl; rewrite IH; reflexivity. }
  assert (Hi : forall l, filter (ignored false) l = []).
  { induction l as [|v t IH]; simpl; [reflexivity|]. unfold ignored at 1. rewrite andb_false_r. simpl. exact IH. }
  split.
  - unfold spec_participants. rewrite Hf, map_map. reflexivity.
  - unfold spec_courses. apply map_ext. intros [ci v]. unfold spec_course, spec_instructors. simpl. rewrite !Hi, Hf. simpl. f_equal. f_equal.
    rewrite map_length. generalize 0 as s. induction (filter (kept false) rviews) as [|x t IH]; intros s; simpl; [reflexivity|].
    destruct (opt_is (pc_instr (rv_pcd x)) ci); simpl; rewrite IH; reflexivity.
Qed.

(* ---- without --ignore-cancelled it does not matter whether a course of the track is currently cancelled or active ---- *)
Definition forget_cancel (v : cview) : cview :=
  {| cv_id := cv_id v; cv_name := cv_name v; cv_status := match cv_status v with Cancelled => TakesPlace | s => s end;
     cv_min := cv_min v; cv_max := cv_max v; cv_key := cv_key v; cv_fields := cv_fields v |}.
Theorem cancelled_irrelevant cviews :
  map cv_id (spec_csorted false (map forget_cancel cviews)) = map cv_id (spec_csorted false cviews) /\
  spec_cmap false (map forget_cancel cviews) = spec_cmap false cviews.
Proof.
  assert (Hin : forall v, in_problem false (forget_cancel v) = in_problem false v) by (intros v; unfold in_problem, forget_cancel; simpl; destruct (cv_status v); reflexivity).
  assert (Hf : forall l, filter (in_problem false) (map forget_cancel l) = map forget_cancel (filter (in_problem false) l)).
  { induction l as [|v t IH]; simpl; [reflexivity|]. rewrite Hin. destruct (in_problem false v); simpl; rewrite IH; reflexivity. }
  assert (Hins : forall x acc, insert_by cv_key (forget_cancel x) (map forget_cancel acc) = map forget_cancel (insert_by cv_key x acc)).
  { intros x. induction acc as [|y u IHu]; simpl; [reflexivity|]. destruct (str_ltb (cv_key x) (cv_key y)); simpl; [reflexivity|]. rewrite IHu. reflexivity. }
  assert (Hs : forall l, sort_by cv_key (map forget_cancel l) = map forget_cancel (sort_by cv_key l)).
  { unfold sort_by. intros l. change (@nil cview) with (map forget_cancel []) at 1. generalize (@nil cview) as acc.
    induction l as [|x t IH]; intros acc; simpl; [reflexivity|]. rewrite Hins. apply IH. }
  assert (Hsk : forall l, map cv_id (filter (fun v => negb (in_problem false v)) (map forget_cancel l)) = map cv_id (filter (fun v => negb (in_problem false v)) l)).
  { induction l as [|v t IH]; simpl; [reflexivity|]. rewrite Hin. destruct (in_problem false v); simpl; rewrite IH; reflexivity. }
  assert (Hc : spec_csorted false (map forget_cancel cviews) = map forget_cancel (spec_csorted false cviews)) by (unfold spec_csorted; rewrite Hf, Hs; reflexivity).
  split.
  - rewrite Hc, map_map. reflexivity.
  - unfold spec_cmap. rewrite Hc. f_equal.
    + f_equal. apply Hsk.
    + rewrite map_length. generalize (spec_csorted false cviews) as L. clear. intros L. generalize 0 as s.
      induction L as [|x t IH]; intros s; simpl; [reflexivity|]. rewrite IH. reflexivity.
Qed.

(* ---- refusals and selection by track (lifted from find_track to the reader specification) ---- *)
Lemma spec_read_track_err data track ign_c ign_a ff of parts e :
  event_parts data = Some parts -> find_track parts track = RErr e -> exists code, spec_read data track ign_c ign_a ff of = RErr code.
Proof.
  intros Hp Hf. unfold spec_read. destruct (check_version data) as [u|c]; cbn [bind]; [|eexists; reflexivity].
  destruct (ok_or (match get "timestamp" data with Some v => as_str v | None => None end) 9) as [ts|c]; cbn [bind]; [|eexists; reflexivity].
  unfold event_parts in Hp. rewrite Hp. cbn [ok_or bind]. rewrite Hf. cbn [bind]. eexists. reflexivity.
Qed.
Lemma spec_read_track_ok data track ign_c ign_a ff of ps cs amb :
  spec_read data track ign_c ign_a ff of = ROk (ps, cs, amb) ->
  exists parts p td, event_parts data = Some parts /\ find_track parts track = ROk (p, ra_track amb, td) /\ ra_part amb = p.
Proof.
  unfold spec_read. destruct (check_version data) as [u|c]; cbn [bind]; [|discriminate].
  destruct (ok_or (match get "timestamp" data with Some v => as_str v | None => None end) 9) as [ts|c]; cbn [bind]; [|discriminate].
  unfold event_parts. destruct (match get "event" data with Some ev => _ | None => None end) as [parts|]; cbn [ok_or bind]; [|discriminate].
  destruct (find_track parts track) as [[[part_id track_id] td]|c] eqn:Ef; cbn [bind]; [|discriminate].
  destruct (ok_or (match get "courses" data with Some v => as_object v | None => None end) 11) as [cdata|]; cbn [bind]; [|discriminate].
  destruct (mapM _ (obj_items cdata)) as [cviews|]; cbn [bind]; [|discriminate].
  destruct (ok_or (match get "registrations" data with Some v => as_object v | None => None end) 14) as [rdata|]; cbn [bind]; [|discriminate].
  destruct (mapM _ (obj_items rdata)) as [rviews|]; cbn [bind]; [|discriminate].
  destruct (ok_or (match get "id" data with Some v => as_u64 v | None => None end) 50) as [eid|]; cbn [bind]; [|discriminate].
  destruct (ok_or (match get "shortname" td with Some v => as_str v | None => None end) 51) as [sn|]; cbn [bind]; [|discriminate].
  intros H. inversion H as [[H1 H2 H3]]. exists parts, part_id, td. cbn. split; [reflexivity|]. split; [exact Ef|reflexivity].
Qed.
