(* Text-level model of io.rs format_assignment and of the `--print` stage of main.rs (C14): the exact bytes written to stdout, from the
   instance as the reader model SimpleRead reads it (names, hidden names), the assignment and the room strings.
   Theorems: the text is the rendering of the structural listing (Listing.listing), so what C14_partition / _flags / _count say about the
   structure holds of what is printed; and the lines can be recovered from the text when no name contains a line feed. *)
From Coq Require Import List ZArith Bool Arith String Ascii Lia.
From Coq Require Import DecimalString.
Require Import HP1 Cao1 Listing Json SimpleRead SimpleValid.
Import ListNotations.
Open Scope string_scope.
Open Scope list_scope.
Open Scope nat_scope.

Infix "+++" := String.append (right associativity, at level 60).
Definition nl : string := String "010"%char EmptyString.
Definition dec (n : nat) : string := NilZero.string_of_uint (Nat.to_uint n).
Definition line (s : string) : string := s +++ nl.
Definition unlines (l : list string) : string := String.concat "" (map line l).
Definition title : string := "The assignment is:".
Definition dflt_part : spart := {| sp_name := ""; sp_choices := [] |}.
Definition dflt_course : scourse :=
  {| so_name := ""; so_max := 0; so_min := 0; so_instr := []; so_factor := None; so_offset := None; so_fixed := false; so_hidden := [] |}.
Definition memz (z : Z) (l : list Z) : bool := existsb (Z.eqb z) l.

Section T.
Variables (cs : list scourse) (ps : list spart) (rooms : option (list string)).

Definition pname (p : nat) : string := sp_name (nth p ps dflt_part).
Definition person_line (c : scourse) (p : nat) : string :=
  "- " +++ pname p +++ (if memz (Z.of_nat p) (so_instr c) then " (instr)" else "").
Definition rooms_lines (ci : nat) : list string :=
  match rooms with Some rs => ["(possible course rooms: " +++ nth ci rs "" +++ ")"] | None => [] end.
Definition hidden_lines (c : scourse) : list string :=
  match so_hidden c with [] => [] | h => "further attendees (not optimized):" :: map (fun n => "- " +++ n) h end.
Definition count_line (n : nat) : string := "(" +++ dec n +++ " participants incl. instructors)".
Definition head_line (c : scourse) : string := "===== " +++ so_name c +++ " =====".

(* one course: write!("\n===== {} =====\n"), the count, the optional room line, the assigned participants in index order, the hidden names *)
Definition block_lines (a : assignment) (ci : nat) : list string :=
  let c := nth ci cs dflt_course in
  let assigned := assigned_to a ci in
  [""; head_line c; count_line (List.length assigned + List.length (so_hidden c))] ++ rooms_lines ci ++
  map (person_line c) assigned ++ hidden_lines c.

Definition listing_lines (a : assignment) : list string := flat_map (block_lines a) (seq 0 (List.length cs)).
(* io::format_assignment *)
Definition format_assignment (a : assignment) : string := unlines (listing_lines a).
(* main.rs: print!("The assignment is:\n{}", ...) *)
Definition print_stage (a : assignment) : string := unlines (title :: listing_lines a).

(* ---- the text is the rendering of the structural listing ---- *)
Definition courses := map to_course cs.
Definition hidden (c : nat) : nat := List.length (so_hidden (nth c cs dflt_course)).
Definition entry_lines (ci : nat) (e : nat * list (nat * bool) * nat) : list string :=
  let c := nth ci cs dflt_course in
  let '(num, people, _) := e in
  [""; head_line c; count_line num] ++ rooms_lines ci ++
  map (fun pb : nat * bool => "- " +++ pname (fst pb) +++ (if snd pb then " (instr)" else "")) people ++ hidden_lines c.
Definition render (l : list (nat * list (nat * bool) * nat)) : list string :=
  flat_map (fun ie : nat * (nat * list (nat * bool) * nat) => entry_lines (fst ie) (snd ie)) (combine (seq 0 (List.length l)) l).

Hypothesis instr_nonneg : forall c i, In c cs -> In i (so_instr c) -> (0 <= i)%Z.

Lemma memz_memb c p : In c cs -> memz (Z.of_nat p) (so_instr c) = memb p (map Z.to_nat (so_instr c)).
Proof.
  intros Hc. unfold memz, memb. pose proof (fun i => instr_nonneg c i Hc) as Hn. induction (so_instr c) as [|z t IH]; [reflexivity|]. simpl.
  rewrite IH by (intros i Hi; apply Hn; right; exact Hi). f_equal.
  assert (0 <= z)%Z by (apply Hn; left; reflexivity).
  destruct (Z.eqb_spec (Z.of_nat p) z) as [E|E]; destruct (Nat.eqb_spec p (Z.to_nat z)) as [E2|E2]; try reflexivity; exfalso; lia.
Qed.

Lemma crs_to_course ci : ci < List.length cs -> crs courses ci = to_course (nth ci cs dflt_course).
Proof.
  intros H. unfold crs, courses. rewrite (nth_indep _ _ (to_course dflt_course)) by (rewrite map_length; exact H). apply map_nth.
Qed.

Lemma block_is_entry a ci : ci < List.length cs -> block_lines a ci = entry_lines ci (entry courses hidden a ci).
Proof.
  intros H. unfold block_lines, entry_lines, entry. unfold hidden. f_equal. f_equal. rewrite map_map. f_equal.
  apply map_ext_in. intros p _. unfold person_line. cbn [fst snd]. rewrite crs_to_course by exact H.
  rewrite memz_memb by (apply nth_In; exact H). reflexivity.
Qed.

Lemma flat_map_combine_seq {A B} (f : nat -> A) (g : nat -> A -> list B) n s :
  flat_map (fun ie : nat * A => g (fst ie) (snd ie)) (combine (seq s n) (map f (seq s n))) = flat_map (fun i => g i (f i)) (seq s n).
Proof. revert s. induction n as [|n IH]; intros s; [reflexivity|]. simpl. rewrite IH. reflexivity. Qed.

Lemma flat_map_ext_in' {A B} (f g : A -> list B) l : (forall x, In x l -> f x = g x) -> flat_map f l = flat_map g l.
Proof.
  induction l as [|x t IH]; intros H; [reflexivity|]. simpl. rewrite (H x (or_introl eq_refl)), IH; [reflexivity|].
  intros y Hy. apply H. right. exact Hy.
Qed.
Theorem lines_render a : listing_lines a = render (listing courses hidden a).
Proof.
  unfold listing_lines, render. rewrite listing_length. unfold listing, Cao1.nc, courses. rewrite map_length.
  rewrite (flat_map_combine_seq (entry (map to_course cs) hidden a) entry_lines). apply flat_map_ext_in'.
  intros ci Hci. apply in_seq in Hci. apply block_is_entry. lia.
Qed.
Theorem print_stage_render a : print_stage a = unlines (title :: render (listing courses hidden a)).
Proof. unfold print_stage. rewrite lines_render. reflexivity. Qed.
End T.

(* ---- the lines can be recovered from the text ---- *)
Fixpoint has_nl (s : string) : bool := match s with EmptyString => false | String c t => Ascii.eqb c "010"%char || has_nl t end.
(* lines of a text in which every line is terminated by a line feed (an unterminated rest is a last line) *)
Fixpoint lines_of (s acc : string) : list string :=
  match s with
  | EmptyString => match acc with EmptyString => [] | _ => [acc] end
  | String c t => if Ascii.eqb c "010"%char then acc :: lines_of t "" else lines_of t (acc +++ String c EmptyString)
  end.

Lemma append_assoc (a b c : string) : (a +++ b) +++ c = a +++ (b +++ c).
Proof. induction a as [|x a IH]; [reflexivity|]. simpl. rewrite IH. reflexivity. Qed.
Lemma append_nil_r (a : string) : a +++ "" = a.
Proof. induction a as [|x a IH]; [reflexivity|]. simpl. rewrite IH. reflexivity. Qed.

Lemma lines_of_line l rest acc : has_nl l = false -> lines_of (line l +++ rest) acc = (acc +++ l) :: lines_of rest "".
Proof.
  revert acc. induction l as [|c l IH]; intros acc H.
  - simpl. rewrite append_nil_r. reflexivity.
  - simpl in H. apply orb_false_iff in H. destruct H as [Hc Hl]. unfold line. simpl. rewrite Hc.
    change (lines_of (line l +++ rest) (acc +++ String c "") = (acc +++ String c l) :: lines_of rest "").
    rewrite IH by exact Hl. rewrite append_assoc. reflexivity.
Qed.
Lemma concat_nil_cons (x : string) (l : list string) : String.concat "" (x :: l) = x +++ String.concat "" l.
Proof. destruct l as [|y l]; simpl; [rewrite append_nil_r|]; reflexivity. Qed.
Theorem lines_of_unlines ls : forallb (fun l => negb (has_nl l)) ls = true -> lines_of (unlines ls) "" = ls.
Proof.
  induction ls as [|l ls IH]; intros H; [reflexivity|]. simpl in H. apply andb_prop in H. destruct H as [Hl Hls].
  unfold unlines. cbn [map]. rewrite concat_nil_cons. rewrite lines_of_line by (apply negb_true_iff; exact Hl).
  simpl. f_equal. apply IH. exact Hls.
Qed.

(* ---- nothing but the names can bring a line feed into the text: with names free of line feeds the printed text determines its lines,
   i.e. the rendering of the structural listing can be read off the output ---- *)
Lemma has_nl_app a b : has_nl (a +++ b) = has_nl a || has_nl b.
Proof. induction a as [|c a IH]; [reflexivity|]. simpl. rewrite IH, orb_assoc. reflexivity. Qed.

Fixpoint uint_no_nl (d : Decimal.uint) : has_nl (NilEmpty.string_of_uint d) = false.
Proof. destruct d; simpl; try reflexivity; apply uint_no_nl. Qed.
Lemma dec_no_nl n : has_nl (dec n) = false.
Proof.
  unfold dec, NilZero.string_of_uint. destruct (Nat.to_uint n) eqn:E; try reflexivity; rewrite <- E; apply uint_no_nl.
Qed.

Section Recover.
Variables (cs : list scourse) (ps : list spart) (rooms : option (list string)).
Hypothesis pnames_ok : forall p, In p ps -> has_nl (sp_name p) = false.
Hypothesis cnames_ok : forall c, In c cs -> has_nl (so_name c) = false /\ forallb (fun h => negb (has_nl h)) (so_hidden c) = true.
Hypothesis rooms_ok : match rooms with Some rs => forallb (fun s => negb (has_nl s)) rs = true | None => True end.

Lemma pname_no_nl p : has_nl (pname ps p) = false.
Proof.
  unfold pname. destruct (Nat.lt_ge_cases p (List.length ps)) as [H|H]; [apply pnames_ok, nth_In, H|]. rewrite nth_overflow by exact H. reflexivity.
Qed.
Lemma nth_course_ok ci : has_nl (so_name (nth ci cs dflt_course)) = false /\ forallb (fun h => negb (has_nl h)) (so_hidden (nth ci cs dflt_course)) = true.
Proof.
  destruct (Nat.lt_ge_cases ci (List.length cs)) as [H|H]; [apply cnames_ok, nth_In, H|]. rewrite nth_overflow by exact H. split; reflexivity.
Qed.

Lemma block_lines_no_nl a ci : forallb (fun l => negb (has_nl l)) (block_lines cs ps rooms a ci) = true.
Proof.
  unfold block_lines. destruct (nth_course_ok ci) as [Hn Hh]. rewrite !forallb_app. apply andb_true_intro; split; [|apply andb_true_intro; split; [|apply andb_true_intro; split]].
  - cbn [forallb]. unfold head_line, count_line. rewrite !has_nl_app, Hn, dec_no_nl. reflexivity.
  - unfold rooms_lines. destruct rooms as [rs|]; [|reflexivity]. cbn [forallb]. rewrite !has_nl_app.
    assert (Hr : has_nl (nth ci rs "") = false).
    { destruct (Nat.lt_ge_cases ci (List.length rs)) as [H|H]; [|rewrite nth_overflow by exact H; reflexivity].
      rewrite forallb_forall in rooms_ok. apply negb_true_iff. apply rooms_ok, nth_In, H. }
    rewrite Hr. reflexivity.
  - apply forallb_forall. intros l Hl. apply in_map_iff in Hl. destruct Hl as (p & <- & _). unfold person_line.
    rewrite !has_nl_app, pname_no_nl. destruct (memz _ _); reflexivity.
  - unfold hidden_lines. destruct (so_hidden (nth ci cs dflt_course)) as [|h t] eqn:E; [reflexivity|].
    cbn [forallb]. apply andb_true_intro. split; [reflexivity|]. apply forallb_forall. intros l Hl. apply in_map_iff in Hl.
    destruct Hl as (x & <- & Hx). rewrite has_nl_app. rewrite forallb_forall in Hh. specialize (Hh x Hx). apply negb_true_iff in Hh. rewrite Hh. reflexivity.
Qed.

Theorem print_stage_lines a : lines_of (print_stage cs ps rooms a) "" = title :: listing_lines cs ps rooms a.
Proof.
  unfold print_stage. apply lines_of_unlines. cbn [forallb]. apply andb_true_intro. split; [reflexivity|].
  unfold listing_lines. induction (seq 0 (List.length cs)) as [|ci t IH]; [reflexivity|]. cbn [flat_map]. rewrite forallb_app, block_lines_no_nl, IH. reflexivity.
Qed.
End Recover.
