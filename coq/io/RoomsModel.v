(* Executable model of io/rooms.rs: calculate_possible_course_room_sizes (on top of the rank-level core of Rooms18.v) and the
   expansion to room-kind names; plus the executable specification predicates of C18. *)
From Coq Require Import List Arith Lia Bool.
Require Import Rooms18.
Import ListNotations.
Open Scope nat_scope.

(* stable descending sort by size of (course, size) pairs; the code uses sort_unstable_by_key: the order among equal sizes is
   unspecified there (the theorems of Rooms18 do not depend on it) *)
Fixpoint insert_desc (x : nat * nat) (l : list (nat * nat)) : list (nat * nat) :=
  match l with [] => [x] | y :: t => if snd y <=? snd x then x :: y :: t else y :: insert_desc x t end.
Definition sort_desc (l : list (nat * nat)) : list (nat * nat) := fold_right insert_desc [] l.
Fixpoint insert_nat_desc (x : nat) (l : list nat) : list nat :=
  match l with [] => [x] | y :: t => if y <=? x then x :: y :: t else y :: insert_nat_desc x t end.
Definition sort_nat_desc (l : list nat) : list nat := fold_right insert_nat_desc [] l.

Fixpoint dedup (l : list nat) : list nat :=
  match l with
  | x :: ((y :: _) as t) => if Nat.eqb x y then dedup t else x :: dedup t
  | _ => l
  end.
Fixpoint index_of (c : nat) (l : list nat) (i : nat) : nat :=
  match l with [] => i | x :: t => if Nat.eqb x c then i else index_of c t (S i) end.

Definition possible (sizes rooms : list nat) : list (list nat) :=
  let cs := sort_desc (combine (seq 0 (length sizes)) sizes) in
  let s := map snd cs in
  let r := sort_nat_desc rooms in
  map (fun c => dedup (listed s r (index_of c (map fst cs) 0))) (seq 0 (length sizes)).

(* room kinds: (name id, capacity, quantity), in the order of the rooms file after read() *)
Definition kind := (nat * nat * nat)%type.
(* io::rooms::read: the kinds of the file are sorted by capacity (stable, ascending) and the list is reversed: descending capacities,
   kinds of equal capacity in reverse file order *)
Definition kind_cap (k : kind) : nat := snd (fst k).
Fixpoint insert_kind (x : kind) (l : list kind) : list kind :=
  match l with [] => [x] | y :: t => if kind_cap x <? kind_cap y then x :: l else y :: insert_kind x t end.
Definition kinds_read (raw : list kind) : list kind := rev (fold_left (fun acc x => insert_kind x acc) raw []).
Definition rooms_of_kinds (ks : list kind) : list nat := flat_map (fun k : kind => let '(_, cap, q) := k in repeat cap q) ks.
Definition kind_names (ks : list kind) (sizes : list nat) : list (list nat) :=
  map (fun l => flat_map (fun r => map (fun k : kind => fst (fst k))
                                       (filter (fun k : kind => let '(_, cap, q) := k in Nat.eqb cap r && (0 <? q)) ks)) l)
      (possible sizes (rooms_of_kinds ks)).

(* ---- executable specification (independent of tie order) ---- *)
Fixpoint remove_one (x : nat) (l : list nat) : list nat :=
  match l with [] => [] | y :: t => if Nat.eqb x y then t else y :: remove_one x t end.
Definition housed_desc (sizes rooms : list nat) : bool :=
  let s := sort_nat_desc sizes in let r := sort_nat_desc rooms in
  forallb (fun i => nth i s 0 <=? nth i r 0) (seq 0 (length s)).
(* room v is usable for course c: big enough, present, and after giving it to c the other courses can still be housed *)
Definition usableb (sizes rooms : list nat) (c v : nat) : bool :=
  (nth c sizes 0 <=? v) && existsb (Nat.eqb v) rooms &&
  housed_desc (firstn c sizes ++ skipn (S c) sizes) (remove_one v rooms).
Definition listing_okb (sizes rooms : list nat) (lists : list (list nat)) : bool :=
  Nat.eqb (length lists) (length sizes) &&
  forallb (fun c => forallb (usableb sizes rooms c) (nth c lists []) &&
                    ((nth c sizes 0 =? 0) || negb (match nth c lists [] with [] => true | _ => false end)))
          (seq 0 (length sizes)).
(* names: exactly the kinds with positive quantity whose capacity is listed, in list order *)
Definition names_okb (ks : list kind) (lists : list (list nat)) (names : list (list nat)) : bool :=
  Nat.eqb (length names) (length lists) &&
  forallb (fun c => forallb (fun n => existsb (fun k : kind => let '(id, cap, q) := k in Nat.eqb id n && (0 <? q) && existsb (Nat.eqb cap) (nth c lists [])) ks)
                            (nth c names []))
          (seq 0 (length lists)).
