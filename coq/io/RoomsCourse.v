(* C18 at course level: the rank-level theorems of Rooms18 carried through the two sorts of calculate_possible_course_room_sizes.
   For every course c (by its index in the input) and every room size v that RoomsModel.possible lists for it: v is at least c's
   size and there is an allocation of pairwise distinct rooms (positions of the room list sorted descending, a permutation of the
   given rooms) that gives every course of positive size a sufficiently large room and gives c a room of size v. *)
From Coq Require Import List Arith Lia Bool Permutation Sorted.
Require Import Rooms18 RoomsModel.
Import ListNotations.
Open Scope nat_scope.

(* ---- the sorts ---- *)
Lemma insert_desc_perm x : forall l, Permutation (insert_desc x l) (x :: l).
Proof.
  induction l as [|y t IH]; simpl; [apply Permutation_refl|]. destruct (snd y <=? snd x); [apply Permutation_refl|].
  apply perm_trans with (y :: x :: t); [apply perm_skip; exact IH|apply perm_swap].
Qed.
Lemma sort_desc_perm l : Permutation (sort_desc l) l.
Proof. induction l as [|x t IH]; simpl; [apply perm_nil|]. apply perm_trans with (x :: sort_desc t); [apply insert_desc_perm|apply perm_skip; exact IH]. Qed.
Lemma insert_nat_desc_perm x : forall l, Permutation (insert_nat_desc x l) (x :: l).
Proof.
  induction l as [|y t IH]; simpl; [apply Permutation_refl|]. destruct (y <=? x); [apply Permutation_refl|].
  apply perm_trans with (y :: x :: t); [apply perm_skip; exact IH|apply perm_swap].
Qed.
Theorem sort_nat_desc_perm l : Permutation (sort_nat_desc l) l.
Proof. induction l as [|x t IH]; simpl; [apply perm_nil|]. apply perm_trans with (x :: sort_nat_desc t); [apply insert_nat_desc_perm|apply perm_skip; exact IH]. Qed.

Lemma map_snd_insert x : forall l, map snd (insert_desc x l) = insert_nat_desc (snd x) (map snd l).
Proof. induction l as [|y t IH]; simpl; [reflexivity|]. destruct (snd y <=? snd x); simpl; [reflexivity|]. rewrite IH. reflexivity. Qed.
Lemma map_snd_sort l : map snd (sort_desc l) = sort_nat_desc (map snd l).
Proof. induction l as [|x t IH]; simpl; [reflexivity|]. rewrite map_snd_insert, IH. reflexivity. Qed.
Lemma map_snd_combine_seq : forall (l : list nat) s, map snd (combine (seq s (length l)) l) = l.
Proof. induction l as [|x t IH]; intros s; simpl; [reflexivity|]. rewrite IH. reflexivity. Qed.
Lemma map_fst_combine_seq : forall (l : list nat) s, map fst (combine (seq s (length l)) l) = seq s (length l).
Proof. induction l as [|x t IH]; intros s; simpl; [reflexivity|]. rewrite IH. reflexivity. Qed.

Definition desc (l : list nat) : Prop := StronglySorted (fun a b => b <= a) l.
Lemma insert_nat_desc_sorted x : forall l, desc l -> desc (insert_nat_desc x l).
Proof.
  induction l as [|y t IH]; intros H; simpl.
  - constructor; [constructor|constructor].
  - inversion H as [|? ? Ht Hy]; subst. destruct (y <=? x) eqn:E.
    + apply Nat.leb_le in E. constructor; [exact H|]. constructor; [exact E|]. rewrite Forall_forall in *. intros z Hz. specialize (Hy z Hz). lia.
    + apply Nat.leb_gt in E. constructor; [apply IH; exact Ht|]. rewrite Forall_forall in *. intros z Hz.
      apply (Permutation_in _ (insert_nat_desc_perm x t)) in Hz. destruct Hz as [<-|Hz]; [lia|apply Hy; exact Hz].
Qed.
Lemma sort_nat_desc_sorted l : desc (sort_nat_desc l).
Proof. induction l as [|x t IH]; simpl; [constructor|apply insert_nat_desc_sorted; exact IH]. Qed.
Lemma desc_nth l : desc l -> forall i j, i <= j -> j < length l -> nth j l 0 <= nth i l 0.
Proof.
  intros H. induction H as [|x t Ht IH Hx]; intros i j Hij Hj; simpl in Hj; [lia|].
  destruct i as [|i], j as [|j]; simpl; try lia.
  - rewrite Forall_forall in Hx. apply Hx. apply nth_In. lia.
  - apply IH; lia.
Qed.

(* ---- ranks ---- *)
Lemma index_of_spec c : forall l i, In c l -> i <= index_of c l i /\ index_of c l i - i < length l /\ nth (index_of c l i - i) l 0 = c.
Proof.
  induction l as [|x t IH]; intros i Hin; [destruct Hin|]. simpl. destruct (Nat.eqb x c) eqn:E.
  - apply Nat.eqb_eq in E. subst. rewrite Nat.sub_diag. simpl. repeat split; lia.
  - destruct Hin as [->|Hin]; [rewrite Nat.eqb_refl in E; discriminate|]. destruct (IH (S i) Hin) as (H1 & H2 & H3).
    split; [lia|]. replace (index_of c t (S i) - i) with (S (index_of c t (S i) - S i)) by lia. simpl. split; [lia|exact H3].
Qed.

Lemma dedup_incl_aux : forall k l v, length l <= k -> In v (dedup l) -> In v l.
Proof.
  induction k as [|k IH]; intros l v Hl Hin; destruct l as [|x [|y t]]; try exact Hin; simpl in Hl; try lia.
  change (dedup (x :: y :: t)) with (if Nat.eqb x y then dedup (y :: t) else x :: dedup (y :: t)) in Hin.
  destruct (Nat.eqb x y).
  - right. apply (IH (y :: t) v); [simpl; lia|exact Hin].
  - destruct Hin as [->|Hin]; [left; reflexivity|right; apply (IH (y :: t) v); [simpl; lia|exact Hin]].
Qed.
Lemma dedup_incl l v : In v (dedup l) -> In v l.
Proof. apply (dedup_incl_aux (length l)). lia. Qed.

Lemma dedup_nil_aux : forall k l, length l <= k -> dedup l = [] -> l = [].
Proof.
  induction k as [|k IH]; intros l Hl E; destruct l as [|x [|y t]]; try reflexivity; try discriminate; simpl in Hl; try lia.
  change (dedup (x :: y :: t)) with (if Nat.eqb x y then dedup (y :: t) else x :: dedup (y :: t)) in E.
  destruct (Nat.eqb x y); [|discriminate]. assert (y :: t = []) by (apply IH; [simpl; lia|exact E]). discriminate.
Qed.
Lemma dedup_nil l : dedup l = [] -> l = [].
Proof. apply (dedup_nil_aux (length l)). lia. Qed.

Lemma in_combine_seq_nth : forall (l : list nat) st c sz, In (c, sz) (combine (seq st (length l)) l) -> st <= c /\ nth (c - st) l 0 = sz.
Proof.
  induction l as [|x t IH]; intros st0 c0 sz0 Hin; simpl in Hin; [destruct Hin|]. destruct Hin as [Heq|Hin].
  - inversion Heq; subst. rewrite Nat.sub_diag. split; [lia|reflexivity].
  - destruct (IH (S st0) c0 sz0 Hin) as [Hle Hn]. split; [lia|]. replace (c0 - st0) with (S (c0 - S st0)) by lia. exact Hn.
Qed.

(* ---- room feasibility as the executable predicate ---- *)
Lemma housed_desc_spec sizes rooms : housed_desc sizes rooms = true ->
  let s := sort_nat_desc sizes in let r := sort_nat_desc rooms in
  forall i, i < length s -> (i < length r -> nth i s 0 <= nth i r 0) /\ (length r <= i -> nth i s 0 = 0).
Proof.
  unfold housed_desc. intros H i Hi. rewrite forallb_forall in H. specialize (H i ltac:(apply in_seq; lia)). apply Nat.leb_le in H.
  split; [intros _; exact H|]. intros Hr. rewrite (nth_overflow (sort_nat_desc rooms)) in H by exact Hr. lia.
Qed.

(* ---- the course-level statement ---- *)
Section Course.
Variables (sizes rooms : list nat).
Let n := length sizes.
Let s := sort_nat_desc sizes.
Let r := sort_nat_desc rooms.
Hypothesis H : housed_desc sizes rooms = true.

Definition UsableCourse (c v : nat) : Prop :=
  nth c sizes 0 <= v /\
  exists alloc : nat -> nat,
    (forall a b, a < n -> b < n -> alloc a = alloc b -> a = b) /\
    alloc c < length r /\ nth (alloc c) r 0 = v /\
    (forall a, a < n -> 0 < nth a sizes 0 -> alloc a < length r /\ nth a sizes 0 <= nth (alloc a) r 0).

Let cs := sort_desc (combine (seq 0 n) sizes).
Let ranks := map fst cs.
Let rank (c : nat) := index_of c ranks 0.

Lemma s_is : map snd cs = s.
Proof. unfold cs, s, n. rewrite map_snd_sort, map_snd_combine_seq. reflexivity. Qed.
Lemma ranks_perm : Permutation ranks (seq 0 n).
Proof.
  apply perm_trans with (map fst (combine (seq 0 n) sizes)); [apply Permutation_map, sort_desc_perm|].
  unfold n. rewrite map_fst_combine_seq. apply Permutation_refl.
Qed.
Lemma len_cs : length cs = n.
Proof. unfold cs. rewrite (Permutation_length (sort_desc_perm _)), combine_length, seq_length. unfold n. lia. Qed.
Lemma len_s : length s = n.
Proof. rewrite <- s_is, map_length. apply len_cs. Qed.

Lemma rank_spec c : c < n -> rank c < n /\ nth (rank c) ranks 0 = c /\ nth (rank c) s 0 = nth c sizes 0.
Proof.
  intros Hc. assert (Hin : In c ranks) by (apply (Permutation_in _ (Permutation_sym ranks_perm)); apply in_seq; lia).
  destruct (index_of_spec c ranks 0 Hin) as (_ & H2 & H3). rewrite Nat.sub_0_r in H2, H3. fold (rank c) in H2, H3.
  assert (Hl : length ranks = n) by (unfold ranks; rewrite map_length; apply len_cs). split; [lia|]. split; [exact H3|].
  (* the pair at that rank *)
  assert (Hp : In (nth (rank c) cs (0, 0)) (combine (seq 0 n) sizes)).
  { apply (Permutation_in _ (sort_desc_perm _)). apply nth_In. change (rank c < length cs). rewrite len_cs. lia. }
  destruct (nth (rank c) cs (0, 0)) as [c' sz] eqn:E.
  assert (Hc' : c' = c). { rewrite <- H3. unfold ranks. change 0 with (fst (0, 0)) at 1. rewrite map_nth, E. reflexivity. }
  subst c'. rewrite <- s_is. change 0 with (snd (0, 0)) at 1. rewrite map_nth, E. simpl.
  destruct (in_combine_seq_nth sizes 0 c sz Hp) as [_ Hn]. rewrite Nat.sub_0_r in Hn. symmetry. exact Hn.
Qed.

Lemma rank_inj a b : a < n -> b < n -> rank a = rank b -> a = b.
Proof. intros Ha Hb E. destruct (rank_spec a Ha) as (_ & H1 & _). destruct (rank_spec b Hb) as (_ & H2 & _). rewrite E in H1. congruence. Qed.

Theorem possible_usable c v : c < n -> In v (nth c (possible sizes rooms) []) -> UsableCourse c v.
Proof.
  intros Hc Hin. unfold possible in Hin. fold n cs in Hin. rewrite s_is in Hin. fold r ranks in Hin.
  rewrite (nth_indep _ [] ((fun c0 => dedup (listed s r (index_of c0 ranks 0))) 0)) in Hin by (rewrite map_length, seq_length; exact Hc).
  rewrite (map_nth (fun c0 => dedup (listed s r (index_of c0 ranks 0)))), seq_nth in Hin by exact Hc. simpl in Hin. fold (rank c) in Hin.
  apply dedup_incl in Hin.
  pose proof (listed_usable s r (desc_nth r (sort_nat_desc_sorted rooms)) (housed_desc_spec sizes rooms H) (rank c) v Hin) as U.
  destruct U as (Hk & Hsz & alloc & Hinj & Hak & Hrm & Hall). rewrite len_s in *.
  destruct (rank_spec c Hc) as (_ & _ & Esz). unfold Sz in Hsz. rewrite Esz in Hsz. split; [exact Hsz|].
  exists (fun a => alloc (rank a)). split; [|split; [exact Hak|split; [exact Hrm|]]].
  - intros a b Ha Hb E. apply rank_inj; [exact Ha|exact Hb|]. apply Hinj; [apply rank_spec; exact Ha|apply rank_spec; exact Hb|exact E].
  - intros a Ha Hp. destruct (rank_spec a Ha) as (Hr & _ & Ea). specialize (Hall (rank a) Hr). unfold Sz, Rm in Hall. rewrite Ea in Hall. apply Hall. exact Hp.
Qed.
Theorem possible_nonempty c : c < n -> 0 < nth c sizes 0 -> nth c (possible sizes rooms) [] <> [].
Proof.
  intros Hc Hp E. unfold possible in E. fold n cs in E. rewrite s_is in E. fold r ranks in E.
  rewrite (nth_indep _ [] ((fun c0 => dedup (listed s r (index_of c0 ranks 0))) 0)) in E by (rewrite map_length, seq_length; exact Hc).
  rewrite (map_nth (fun c0 => dedup (listed s r (index_of c0 ranks 0)))), seq_nth in E by exact Hc. simpl in E. fold (rank c) in E.
  apply dedup_nil in E. destruct (rank_spec c Hc) as (Hr & _ & Esz).
  apply (listed_nonempty s r (housed_desc_spec sizes rooms H) (rank c)); [rewrite len_s; exact Hr|unfold Sz; rewrite Esz; exact Hp|exact E].
Qed.
End Course.

(* ---- io::rooms::read ---- *)
Lemma insert_kind_perm x : forall l, Permutation (insert_kind x l) (x :: l).
Proof.
  induction l as [|y t IH]; simpl; [apply Permutation_refl|]. destruct (kind_cap x <? kind_cap y); [apply Permutation_refl|].
  apply perm_trans with (y :: x :: t); [apply perm_skip; exact IH|apply perm_swap].
Qed.
Theorem kinds_read_perm raw : Permutation (kinds_read raw) raw.
Proof.
  unfold kinds_read. apply perm_trans with (fold_left (fun acc x => insert_kind x acc) raw []); [apply Permutation_sym, Permutation_rev|].
  assert (G : forall l acc, Permutation (fold_left (fun acc x => insert_kind x acc) l acc) (l ++ acc)).
  { induction l as [|x t IH]; intros acc; simpl; [apply Permutation_refl|].
    apply perm_trans with (t ++ insert_kind x acc); [apply IH|]. apply perm_trans with (t ++ x :: acc); [apply Permutation_app_head, insert_kind_perm|].
    apply Permutation_sym, Permutation_middle. }
  rewrite <- (app_nil_r raw) at 2. apply G.
Qed.
(* the room list the solver gets contains, for every kind of the file, exactly `quantity` rooms of its capacity *)
Theorem rooms_read_perm raw : Permutation (rooms_of_kinds (kinds_read raw)) (rooms_of_kinds raw).
Proof.
  unfold rooms_of_kinds. assert (G : forall l l' : list kind, Permutation l l' ->
    Permutation (flat_map (fun k : kind => let '(_, cap, q) := k in repeat cap q) l) (flat_map (fun k : kind => let '(_, cap, q) := k in repeat cap q) l')).
  { induction 1; simpl.
    - apply perm_nil.
    - apply Permutation_app_head. assumption.
    - rewrite !app_assoc. apply Permutation_app_tail. apply Permutation_app_comm.
    - eapply perm_trans; eassumption. }
  apply G, kinds_read_perm.
Qed.

(* rooms::read returns the kinds in descending order of capacity *)
Lemma insert_kind_sorted x : forall l, StronglySorted (fun a b : kind => kind_cap a <= kind_cap b) l ->
  StronglySorted (fun a b : kind => kind_cap a <= kind_cap b) (insert_kind x l).
Proof.
  induction l as [|y t IH]; intros H; simpl; [constructor; constructor|].
  inversion H as [|? ? Ht Hy]; subst. destruct (kind_cap x <? kind_cap y) eqn:E.
  - apply Nat.ltb_lt in E. constructor; [exact H|]. constructor; [lia|]. rewrite Forall_forall in *. intros z Hz. specialize (Hy z Hz). lia.
  - apply Nat.ltb_ge in E. constructor; [apply IH; exact Ht|]. rewrite Forall_forall in *. intros z Hz.
    apply (Permutation_in _ (insert_kind_perm x t)) in Hz. destruct Hz as [<-|Hz]; [exact E|apply Hy; exact Hz].
Qed.
Theorem kinds_read_descending raw : forall i j, i <= j -> j < length (kinds_read raw) ->
  kind_cap (nth j (kinds_read raw) (0, 0, 0)) <= kind_cap (nth i (kinds_read raw) (0, 0, 0)).
Proof.
  assert (S : StronglySorted (fun a b : kind => kind_cap a <= kind_cap b) (fold_left (fun acc x => insert_kind x acc) raw [])).
  { assert (G : forall l acc, StronglySorted (fun a b : kind => kind_cap a <= kind_cap b) acc ->
                 StronglySorted (fun a b : kind => kind_cap a <= kind_cap b) (fold_left (fun acc x => insert_kind x acc) l acc)).
    { induction l as [|x t IH]; intros acc Ha; simpl; [exact Ha|]. apply IH. apply insert_kind_sorted. exact Ha. }
    apply G. constructor. }
  unfold kinds_read. set (L := fold_left (fun acc x => insert_kind x acc) raw []) in *. intros i j Hij Hj. rewrite rev_length in Hj.
  rewrite !rev_nth by lia.
  assert (N : forall l, StronglySorted (fun a b : kind => kind_cap a <= kind_cap b) l -> forall a b, a <= b -> b < length l ->
              kind_cap (nth a l (0, 0, 0)) <= kind_cap (nth b l (0, 0, 0))).
  { induction 1 as [|x t Ht IHt Hx]; intros a b Hab Hb; simpl in Hb; [lia|]. destruct a as [|a], b as [|b]; simpl; try lia.
    - rewrite Forall_forall in Hx. apply Hx. apply nth_In. lia.
    - apply IHt; lia. }
  apply (N L S); lia.
Qed.
