(* Spike: JSON value model and a transcription of io/cdedb.rs::read (without room factor fields) *)
From Coq Require Import List ZArith Lia Bool Arith String Ascii.
Import ListNotations.
Open Scope string_scope.
Open Scope list_scope.
Open Scope nat_scope.

(* JNum: a JSON number with a fractional part or exponent; it carries the binary32 bit pattern of `as_f64() as f32` (the only way
   such numbers are used: the configured room factor / offset fields) *)
Inductive json := JNull | JBool (b : bool) | JInt (z : Z) | JFloat | JNum (f32bits : Z) | JStr (s : string) | JArr (l : list json) | JObj (l : list (string * json)).

(* byte-wise string order, as Rust's String / BTreeMap<String,_> *)
Fixpoint str_ltb (a b : string) : bool :=
  match a, b with
  | EmptyString, EmptyString => false
  | EmptyString, String _ _ => true
  | String _ _, EmptyString => false
  | String x a', String y b' =>
      let nx := nat_of_ascii x in let ny := nat_of_ascii y in
      if Nat.ltb nx ny then true else if Nat.ltb ny nx then false else str_ltb a' b'
  end.
Definition str_leb (a b : string) : bool := negb (str_ltb b a).

(* stable insertion sort by key *)
Fixpoint insert_by {A} (key : A -> string) (x : A) (l : list A) : list A :=
  match l with [] => [x] | y :: t => if str_ltb (key x) (key y) then x :: l else y :: insert_by key x t end.
Definition sort_by {A} (key : A -> string) (l : list A) : list A := fold_left (fun acc x => insert_by key x acc) l [].

(* serde_json::Map = BTreeMap: iteration in key order; duplicate keys: the last one wins *)
Fixpoint assoc (k : string) (l : list (string * json)) : option json :=
  match l with [] => None | (k', v) :: t => match assoc k t with Some v' => Some v' | None => if String.eqb k k' then Some v else None end end.
Definition obj_items (l : list (string * json)) : list (string * json) :=
  sort_by fst (fold_left (fun acc kv => if existsb (fun kv' => String.eqb (fst kv') (fst kv)) acc
                                         then map (fun kv' => if String.eqb (fst kv') (fst kv) then kv else kv') acc else (acc ++ [kv])%list) l []).

Definition get (k : string) (j : json) : option json := match j with JObj l => assoc k l | _ => None end.
Definition as_object (j : json) : option (list (string * json)) := match j with JObj l => Some l | _ => None end.
Definition as_str (j : json) : option string := match j with JStr s => Some s | _ => None end.
Definition as_bool (j : json) : option bool := match j with JBool b => Some b | _ => None end.
Definition as_array (j : json) : option (list json) := match j with JArr l => Some l | _ => None end.
Definition as_u64 (j : json) : option Z := match j with JInt z => if ((0 <=? z) && (z <? 18446744073709551616))%Z then Some z else None | _ => None end.
Definition as_i64 (j : json) : option Z := match j with JInt z => if ((-9223372036854775808 <=? z) && (z <? 9223372036854775808))%Z then Some z else None | _ => None end.

(* u64/usize parse of an object key: decimal digits only (optional leading +), no overflow handling beyond 2^64 *)
Fixpoint parse_digits (s : string) (acc : Z) : option Z :=
  match s with
  | EmptyString => Some acc
  | String c t => let n := nat_of_ascii c in if (48 <=? n) && (n <=? 57) then parse_digits t (acc * 10 + Z.of_nat (n - 48))%Z else None
  end.
Definition parse_u64 (s : string) : option Z :=
  match s with
  | EmptyString => None
  | String "+"%char EmptyString => None
  | String "+"%char t => match parse_digits t 0%Z with Some z => if (z <? 18446744073709551616)%Z then Some z else None | None => None end
  | _ => match parse_digits s 0%Z with Some z => if (z <? 18446744073709551616)%Z then Some z else None | None => None end
  end.

Inductive result (A : Type) := ROk (a : A) | RErr (code : nat).
Arguments ROk {A} a. Arguments RErr {A} code.
Definition bind {A B} (r : result A) (f : A -> result B) : result B := match r with ROk a => f a | RErr c => RErr c end.
Definition ok_or {A} (o : option A) (c : nat) : result A := match o with Some a => ROk a | None => RErr c end.
Notation "'let*' x ':=' r 'in' k" := (bind r (fun x => k)) (at level 200, x pattern, right associativity).
Fixpoint mapM {A B} (f : A -> result B) (l : list A) : result (list B) :=
  match l with [] => ROk [] | a :: t => let* b := f a in let* bs := mapM f t in ROk (b :: bs) end.

(* number of characters of a UTF-8 string: bytes that are not continuation bytes *)
Fixpoint nchars (s : string) : nat :=
  match s with EmptyString => 0 | String c t => let n := nat_of_ascii c in (if (128 <=? n) && (n <? 192) then 0 else 1) + nchars t end.
Fixpoint spaces (n : nat) : string := match n with 0 => "" | S k => String " "%char (spaces k) end.
Definition right_align (w : nat) (s : string) : string := (spaces (w - nchars s) ++ s)%string.

Definition zstr (z : Z) : string :=   (* decimal rendering of a non-negative number, for map keys *)
  let fix go (fuel : nat) (n : Z) (acc : string) : string :=
    match fuel with 0 => acc | S f =>
      let d := (n mod 10)%Z in let acc' := String (ascii_of_nat (48 + Z.to_nat d)) acc in
      if (n / 10 =? 0)%Z then acc' else go f (n / 10)%Z acc' end in go 25 z "".

(* ---------------- the reader ---------------- *)
Record rcourse := { rc_dbid : Z; rc_name : string; rc_min : Z; rc_max : Z; rc_instr : list nat; rc_fixed : bool;
                    rc_hidden : list string; rc_inv_instr : nat; rc_inv_att : nat }.
Record rpart := { rp_dbid : Z; rp_name : string; rp_choices : list (nat * nat) }.

Definition check_version (data : json) : result unit :=
  let* kind := ok_or (match get "kind" data with Some v => as_str v | None => None end) 1 in
  if negb (String.eqb kind "partial") then RErr 2 else
  let* ver :=
    match get "EVENT_SCHEMA_VERSION" data with
    | Some vt => let* arr := ok_or (as_array vt) 3 in
                 match arr with
                 | [a; b] => let* x := ok_or (as_u64 a) 4 in let* y := ok_or (as_u64 b) 4 in ROk (x, y)
                 | _ => RErr 5 end
    | None => match get "CDEDB_EXPORT_EVENT_VERSION" data with
              | Some vt => let* v := ok_or (as_u64 vt) 6 in ROk (v, 0%Z)
              | None => RErr 7 end
    end in
  let '(vmaj, vmin) := ver in
  (* (7,0) <= v <= (19, u64::MAX) *)
  if ((vmaj <? 7) || (19 <? vmaj))%Z then RErr 8 else ROk tt.

(* find_track: returns (part_id, track_id, track_data) *)
Fixpoint ft_tracks (t : Z) (pid : string) (ts : list (string * json)) : result (option (Z * Z * json)) :=
  match ts with
  | [] => ROk None
  | (tid, tr) :: trest =>
      let* tidz := ok_or (parse_u64 tid) 22 in
      if (tidz =? t)%Z then
        let* pidz := ok_or (parse_u64 pid) 22 in
        let* _ := ok_or (as_object tr) 23 in ROk (Some (pidz, tidz, tr))
      else ft_tracks t pid trest
  end.
Fixpoint ft_parts (t : Z) (ps : list (string * json)) : result (Z * Z * json) :=
  match ps with
  | [] => RErr 20
  | (pid, part) :: rest =>
      let* tracks := ok_or (match get "tracks" part with Some v => as_object v | None => None end) 21 in
      let* r := ft_tracks t pid (obj_items tracks) in
      match r with Some x => ROk x | None => ft_parts t rest end
  end.
(* all (part key, track key, track data) triples of the event in document order *)
Definition tracks_of (parts : list (string * json)) : result (list (string * string * json)) :=
  let* all := mapM (fun '(pid, part) =>
                      let* tracks := ok_or (match get "tracks" part with Some v => as_object v | None => None end) 21 in
                      ROk (map (fun '(tid, tr) => (pid, tid, tr)) (obj_items tracks))) (obj_items parts) in
  ROk (List.concat all).
Definition find_track (parts : list (string * json)) (track : option Z) : result (Z * Z * json) :=
  match track with
  | Some t => ft_parts t (obj_items parts)
  | None =>
      (* exactly one track overall *)
      let* all := tracks_of parts in
      match all with
      | [] => RErr 24
      | [(pid, tid, tr)] => let* pidz := ok_or (parse_u64 pid) 22 in let* tidz := ok_or (parse_u64 tid) 22 in
                            let* _ := ok_or (as_object tr) 23 in ROk (pidz, tidz, tr)
      | _ => RErr 25
      end
  end.

Inductive cstatus := NotOffered | Cancelled | TakesPlace.

Definition parse_course (cid : Z) (c : json) (track_id : Z) : result (string * cstatus * Z * Z * string) :=
  let* segs := ok_or (match get "segments" c with Some v => as_object v | None => None end) 30 in
  let* st := match assoc (zstr track_id) segs with
             | Some v => let* b := ok_or (as_bool v) 31 in ROk (if b then TakesPlace else Cancelled)
             | None => ROk NotOffered end in
  let* nr := ok_or (match get "nr" c with Some v => as_str v | None => None end) 32 in
  let* sn := ok_or (match get "shortname" c with Some v => as_str v | None => None end) 33 in
  let name := (nr ++ ". " ++ sn)%string in
  let key := right_align 10 nr in
  let mx := match get "max_size" c with Some v => match as_u64 v with Some z => z | None => 25%Z end | None => 25%Z end in
  let mn := match get "min_size" c with Some v => match as_u64 v with Some z => z | None => 0%Z end | None => 0%Z end in
  if (mx <? mn)%Z then RErr 34 else ROk (name, st, mn, mx, key).

(* HashMap<u64, Option<usize>> as association list *)
Fixpoint lookup (k : Z) (l : list (Z * option nat)) : option (option nat) :=
  match l with [] => None | (k', v) :: t => if (k =? k')%Z then Some v else lookup k t end.

Record pcd := { pc_assigned : option nat; pc_instr : option nat; pc_choices : list (nat * nat) }.
(* the choice list: ignored courses are dropped, the others keep their position in the original list as penalty *)
Fixpoint pcd_choices (cmap : list (Z * option nat)) (l : list json) (i : nat) : result (list (nat * nat)) :=
  match l with
  | [] => ROk []
  | v :: t => let* cid := ok_or (as_u64 v) 46 in
              let* ci := ok_or (lookup cid cmap) 47 in
              let* rest := pcd_choices cmap t (S i) in
              ROk (match ci with Some c => (c, i) :: rest | None => rest end)
  end.
Definition parse_pcd (reg : json) (track_id : Z) (cmap : list (Z * option nat)) : result pcd :=
  let* rt := ok_or (match get "tracks" reg with Some v => match as_object v with Some o => match assoc (zstr track_id) o with Some t => match as_object t with Some _ => Some t | None => None end | None => None end | None => None end | None => None end) 40 in
  let* acj := ok_or (get "course_id" rt) 41 in
  let* assigned := match as_u64 acj with
                   | Some cid => let* ci := ok_or (lookup cid cmap) 42 in ROk ci
                   | None => ROk None end in
  let* icj := ok_or (get "course_instructor" rt) 43 in
  let* instr := match as_u64 icj with
                | Some cid => let* ci := ok_or (lookup cid cmap) 44 in ROk ci
                | None => ROk None end in
  let* chs := ok_or (match get "choices" rt with Some v => as_array v | None => None end) 45 in
  let* choices := pcd_choices cmap chs 0 in
  ROk {| pc_assigned := assigned; pc_instr := instr; pc_choices := choices |}.

Fixpoint upd {A} (l : list A) (i : nat) (v : A) : list A :=
  match l, i with [], _ => [] | _ :: t, O => v :: t | h :: t, S i' => h :: upd t i' v end.
Definition modify {A} (l : list A) (i : nat) (f : A -> A) (d : A) : list A := upd l i (f (nth i l d)).
Definition dflt_c : rcourse := {| rc_dbid := 0; rc_name := ""; rc_min := 0; rc_max := 0; rc_instr := []; rc_fixed := false; rc_hidden := []; rc_inv_instr := 0; rc_inv_att := 0 |}.

(* adapt_course_for_invisible_participants: reserve the places of ignored pre-assigned attendees, pin the course *)
Definition adapt_course (c : rcourse) : rcourse :=
  let ia := Z.of_nat (rc_inv_att c) in
  {| rc_dbid := rc_dbid c; rc_name := rc_name c;
     rc_min := (if (rc_min c <? ia)%Z then 0 else rc_min c - ia)%Z; rc_max := (if (rc_max c <? ia)%Z then 0 else rc_max c - ia)%Z;
     rc_instr := rc_instr c; rc_fixed := negb (Nat.eqb (rc_inv_instr c + rc_inv_att c) 0); rc_hidden := rc_hidden c;
     rc_inv_instr := rc_inv_instr c; rc_inv_att := rc_inv_att c |}.

(* what read() returns besides participants and courses (ImportAmbienceData and AssignmentQualityInfo) *)
Record ramb := { ra_event : Z; ra_track : Z; ra_part : Z; ra_qual : option (nat * list nat); ra_ign_courses : nat; ra_ign_regs : nat;
                 ra_fields : list (option json * option json) }.   (* per course: the numeric values of the configured factor / offset fields *)
Definition is_num (j : json) : bool := match j with JInt _ | JFloat | JNum _ => true | _ => false end.
Definition num_field (fields : json) (name : option string) : option json :=
  match name with Some n => match get n fields with Some v => if is_num v then Some v else None | None => None end | None => None end.
(* penalty_for_unchosen_course (after fix 7a6f786): num_choices + 1 in u32, saturating (before, `as u32 + 1` overflowed: defect D16) *)
Definition unchosen_penalty (td : json) : nat :=
  Z.to_nat (Z.min (1 + match get "num_choices" td with Some v => match as_u64 v with Some z => z | None => 0 end | None => 0 end) 4294967295)%Z.

(* penalty_for_assigned_course_choice (after fix f94b8fe): the penalty of the found choice = its rank in the original list *)
Definition assigned_penalty (ci : nat) (choices : list (nat * nat)) (td : json) : nat :=
  match find (fun ch : nat * nat => Nat.eqb (fst ch) ci) choices with Some ch => snd ch | None => unchosen_penalty td end.

(* an ignored attendee is rated only if he has (valid) choices (fix after 2b07851: participants without choices are not rated) *)
Definition rate_att (q : nat * list nat) (ci : nat) (choices : list (nat * nat)) (td : json) : nat * list nat :=
  match choices with [] => q | _ => (fst q, (snd q ++ [assigned_penalty ci choices td])%list) end.

(* courses in key order; keep (sort_key, course) for offered ones, remember skipped ids *)
Fixpoint goc (track_id : Z) (ign_c : bool) (ffield ofield : option string) (l : list (string * json))
  : result (list (string * (rcourse * (option json * option json))) * list Z * nat) :=
  match l with
  | [] => ROk ([], [], 0)
  | (k, c) :: t =>
      let* cid := ok_or (parse_u64 k) 12 in
      let* (name, st, mn, mx, key) := parse_course cid c track_id in
      let skip := match st with NotOffered => true | Cancelled => ign_c | TakesPlace => false end in
      let* fo := (if skip then ROk (None, None) else
                  let* _ := ok_or (match get "fields" c with Some v => as_object v | None => None end) 13 in
                  match get "fields" c with Some fl => ROk (num_field fl ffield, num_field fl ofield) | None => ROk (None, None) end) in
      let* (cs, sk, nc) := goc track_id ign_c ffield ofield t in
      (* nc: num_ignored_inactive_courses -- only the CANCELLED courses skipped because of --ignore-cancelled *)
      ROk (if skip then (cs, cid :: sk, match st with Cancelled => S nc | _ => nc end)
           else ((key, ({| rc_dbid := cid; rc_name := name; rc_min := mn; rc_max := mx; rc_instr := []; rc_fixed := false;
                           rc_hidden := []; rc_inv_instr := 0; rc_inv_att := 0 |}, fo)) :: cs, sk, nc))
  end.

(* the registrations in key order; running state: next participant index, courses, participants so far (reversed), quality info of
   the ignored pre-assigned registrations, their number *)
Fixpoint gor (part_id track_id : Z) (cmap : list (Z * option nat)) (ign_a : bool) (_td : json)
    (l : list (string * json)) (i : nat) (courses : list rcourse) (acc : list rpart) (q : nat * list nat) (nign : nat)
  : result (list rpart * list rcourse * (nat * list nat) * nat) :=
  match l with
  | [] => ROk (rev acc, courses, q, nign)
  | (k, reg) :: t =>
      let* rid := ok_or (parse_u64 k) 15 in
      (* extract_participant_base_data *)
      let* rparts := ok_or (match get "parts" reg with Some v => as_object v | None => None end) 16 in
      let* is_part := match assoc (zstr part_id) rparts with
                      | Some p => match as_object p with
                                  | Some _ => let* stz := ok_or (match get "status" p with Some v => as_i64 v | None => None end) 17 in ROk (stz =? 2)%Z
                                  | None => ROk false end
                      | None => ROk false end in
      let* persona := ok_or (match get "persona" reg with Some v => match as_object v with Some _ => Some v | None => None end | None => None end) 18 in
      let* gn := ok_or (match get "given_names" persona with Some v => as_str v | None => None end) 19 in
      let* fn := ok_or (match get "family_name" persona with Some v => as_str v | None => None end) 19 in
      let name := (gn ++ " " ++ fn)%string in
      if negb is_part then gor part_id track_id cmap ign_a _td t i courses acc q nign else
      let* d := parse_pcd reg track_id cmap in
      match (if ign_a then pc_assigned d else None) with
      | Some ci =>
          let courses' := modify courses ci (fun c =>
              {| rc_dbid := rc_dbid c; rc_name := rc_name c; rc_min := rc_min c; rc_max := rc_max c; rc_instr := rc_instr c; rc_fixed := rc_fixed c;
                 rc_hidden := (rc_hidden c ++ [name])%list;
                 rc_inv_instr := (match pc_instr d with Some c' => if Nat.eqb c' ci then S (rc_inv_instr c) else rc_inv_instr c | None => rc_inv_instr c end);
                 rc_inv_att := (match pc_instr d with Some c' => if Nat.eqb c' ci then rc_inv_att c else S (rc_inv_att c) | None => S (rc_inv_att c) end) |}) dflt_c in
          (* an ignored instructor of his own course counts only if he has (valid) choices (fix 2b07851: instructor-only participants are
             not rated, like the optimised ones) *)
          let q' := match pc_instr d with
                    | Some c' => if Nat.eqb c' ci then (match pc_choices d with [] => q | _ => (S (fst q), snd q) end)
                                 else rate_att q ci (pc_choices d) _td
                    | None => rate_att q ci (pc_choices d) _td end in
          gor part_id track_id cmap ign_a _td t i courses' acc q' (S nign)
      | None =>
          match pc_choices d, pc_instr d with
          | [], None => gor part_id track_id cmap ign_a _td t i courses acc q nign
          | _, _ =>
              let courses' := match pc_instr d with
                              | Some ci => modify courses ci (fun c =>
                                  {| rc_dbid := rc_dbid c; rc_name := rc_name c; rc_min := rc_min c; rc_max := rc_max c; rc_instr := (rc_instr c ++ [i])%list;
                                     rc_fixed := rc_fixed c; rc_hidden := rc_hidden c; rc_inv_instr := rc_inv_instr c; rc_inv_att := rc_inv_att c |}) dflt_c
                              | None => courses end in
              gor part_id track_id cmap ign_a _td t (S i) courses' ({| rp_dbid := rid; rp_name := name; rp_choices := pc_choices d |} :: acc) q nign
          end
      end
  end.

Definition read_fields (data : json) (track : option Z) (ign_c ign_a : bool) (ffield ofield : option string) : result (list rpart * list rcourse * ramb) :=
  let* _ := check_version data in
  let* _ts := ok_or (match get "timestamp" data with Some v => as_str v | None => None end) 9 in
  let* parts := ok_or (match get "event" data with Some ev => match as_object ev with Some _ => match get "parts" ev with Some p => as_object p | None => None end | None => None end | None => None end) 10 in
  let* (part_id, track_id, _td) := find_track parts track in
  let* cdata := ok_or (match get "courses" data with Some v => as_object v | None => None end) 11 in
  let* (keyed, skipped, ncanc) := goc track_id ign_c ffield ofield (obj_items cdata) in
  let courses0 := map (fun x : string * (rcourse * (option json * option json)) => fst (snd x)) (sort_by fst keyed) in
  let fields0 := map (fun x : string * (rcourse * (option json * option json)) => snd (snd x)) (sort_by fst keyed) in
  let cmap : list (Z * option nat) :=
    (map (fun cid => (cid, None)) skipped ++ map (fun '(i, c) => (rc_dbid c, Some i)) (combine (seq 0 (List.length courses0)) courses0))%list in
  let* rdata := ok_or (match get "registrations" data with Some v => as_object v | None => None end) 14 in
  let* (ps, cs, q, nign) := gor part_id track_id cmap ign_a _td (obj_items rdata) 0 courses0 [] (0, []) 0 in
  (* adapt_course_for_invisible_participants *)
  let cs' := map adapt_course cs in
  let* eid := ok_or (match get "id" data with Some v => as_u64 v | None => None end) 50 in
  (* (track given or not: the `?` inside then_some is evaluated eagerly in the Rust code) *)
  let* _sn := ok_or (match get "shortname" _td with Some v => as_str v | None => None end) 51 in
  ROk (ps, cs', {| ra_event := eid; ra_track := track_id; ra_part := part_id; ra_qual := if ign_a then Some q else None;
                    ra_ign_courses := ncanc; ra_ign_regs := nign; ra_fields := fields0 |}).

Definition read_full (data : json) (track : option Z) (ign_c ign_a : bool) : result (list rpart * list rcourse * ramb) :=
  read_fields data track ign_c ign_a None None.

Definition read (data : json) (track : option Z) (ign_c ign_a : bool) : result (list rpart * list rcourse) :=
  match read_full data track ign_c ign_a with ROk (ps, cs, _) => ROk (ps, cs) | RErr c => RErr c end.

(* ---- comparison against the implementation's dump (used by generated case files) ---- *)
Definition eqb_list {A B} (eqb : A -> B -> bool) (l1 : list A) (l2 : list B) : bool :=
  Nat.eqb (List.length l1) (List.length l2) && forallb (fun p => eqb (fst p) (snd p)) (combine l1 l2).
Definition exp_part := (string * list (nat * nat))%type.
Definition exp_course := (string * Z * Z * list nat * bool * list string * nat)%type.   (* name,min,max,instr,fixed,hidden,offset *)
Definition check (r : result (list rpart * list rcourse)) (e : option (list exp_part * list exp_course)) : bool :=
  match r, e with
  | RErr _, None => true
  | ROk (ps, cs), Some (eps, ecs) =>
      eqb_list (fun p (ep : exp_part) => String.eqb (rp_name p) (fst ep) &&
                   eqb_list (fun a b => Nat.eqb (fst a) (fst b) && Nat.eqb (snd a) (snd b)) (rp_choices p) (snd ep)) ps eps &&
      eqb_list (fun c (ec : exp_course) => let '(n, mn, mx, ins, fx, hid, off) := ec in
                   String.eqb (rc_name c) n && (rc_min c =? mn)%Z && (rc_max c =? mx)%Z && eqb_list Nat.eqb (rc_instr c) ins &&
                   Bool.eqb (rc_fixed c) fx && eqb_list String.eqb (rc_hidden c) hid && Nat.eqb (rc_inv_instr c + rc_inv_att c) off) cs ecs
  | _, _ => false
  end.
