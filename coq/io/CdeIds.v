(* Distinct ids (hypothesis of C05_file / C11_ignored_id_absent): the registrations and courses of an export are the entries of JSON
   objects, so their KEYS are pairwise distinct (obj_items); the ids are the keys parsed as u64.  Rust's parse accepts "7", "07" and
   "+7" for the same number, so distinct keys do not give distinct ids in general -- but they do when every key is CANONICAL (the
   decimal rendering of its own number, which is what the CdE-Datenbank writes).  Then the ids of the problem's participants and
   courses are pairwise distinct. *)
From Coq Require Import List ZArith Bool Arith String Lia Permutation.
Require Import Json CdeSpec.
Import ListNotations.
Open Scope nat_scope.

Definition canonical (k : string) : bool := match parse_u64 k with Some z => String.eqb (zstr z) k | None => false end.

Lemma canonical_inj k1 k2 z : canonical k1 = true -> canonical k2 = true -> parse_u64 k1 = Some z -> parse_u64 k2 = Some z -> k1 = k2.
Proof.
  unfold canonical. intros H1 H2 E1 E2. rewrite E1 in H1. rewrite E2 in H2. apply String.eqb_eq in H1, H2. congruence.
Qed.

(* ---- sort_by is a permutation ---- *)
Lemma insert_by_perm {A} (key : A -> string) x : forall l, Permutation (insert_by key x l) (x :: l).
Proof.
  induction l as [|y t IH]; simpl; [apply Permutation_refl|]. destruct (str_ltb (key x) (key y)); [apply Permutation_refl|].
  apply perm_trans with (y :: x :: t); [apply perm_skip, IH|apply perm_swap].
Qed.
Lemma sort_by_perm {A} (key : A -> string) (l : list A) : Permutation (sort_by key l) l.
Proof.
  unfold sort_by. assert (G : forall l acc, Permutation (fold_left (fun acc x => insert_by key x acc) l acc) (acc ++ l)).
  { induction l0 as [|x t IH]; intros acc; simpl; [rewrite app_nil_r; apply Permutation_refl|].
    apply perm_trans with (insert_by key x acc ++ t); [apply IH|].
    apply perm_trans with ((x :: acc) ++ t); [apply Permutation_app_tail, insert_by_perm|]. simpl. apply Permutation_middle. }
  apply (G l []).
Qed.

(* ---- the keys of an object's items are pairwise distinct ---- *)
Lemma NoDup_app_one {A} (l : list A) x : NoDup l -> ~ In x l -> NoDup (l ++ [x]).
Proof.
  induction l as [|y t IH]; intros Hnd Hx; simpl; [constructor; [intros []|constructor]|].
  inversion Hnd as [|? ? Hy Ht]; subst. constructor.
  - intros Hin. apply in_app_or in Hin. destruct Hin as [Hin|[->|[]]]; [exact (Hy Hin)|apply Hx; left; reflexivity].
  - apply IH; [exact Ht|intros Hin; apply Hx; right; exact Hin].
Qed.
Lemma replace_keys (kv : string * json) : forall acc,
  map fst (map (fun kv' : string * json => if String.eqb (fst kv') (fst kv) then kv else kv') acc) = map fst acc.
Proof.
  induction acc as [|x t IH]; simpl; [reflexivity|]. rewrite IH. f_equal.
  destruct (String.eqb (fst x) (fst kv)) eqn:E; [apply String.eqb_eq in E; congruence|reflexivity].
Qed.
Lemma obj_items_nodup (l : list (string * json)) : NoDup (map fst (obj_items l)).
Proof.
  unfold obj_items. apply (Permutation_NoDup (l := map fst (fold_left (fun acc kv => if existsb (fun kv' : string * json => String.eqb (fst kv') (fst kv)) acc
      then map (fun kv' : string * json => if String.eqb (fst kv') (fst kv) then kv else kv') acc else (acc ++ [kv])%list) l []))).
  { apply Permutation_map. apply Permutation_sym. apply sort_by_perm. }
  assert (G : forall l acc, NoDup (map fst acc) ->
     NoDup (map fst (fold_left (fun acc kv => if existsb (fun kv' : string * json => String.eqb (fst kv') (fst kv)) acc
        then map (fun kv' : string * json => if String.eqb (fst kv') (fst kv) then kv else kv') acc else (acc ++ [kv])%list) l acc))).
  { induction l0 as [|kv t IH]; intros acc Hnd; simpl; [exact Hnd|]. apply IH.
    destruct (existsb (fun kv' : string * json => String.eqb (fst kv') (fst kv)) acc) eqn:E.
    - rewrite replace_keys. exact Hnd.
    - rewrite map_app. simpl. apply NoDup_app_one; [exact Hnd|]. intros Hin. apply in_map_iff in Hin. destruct Hin as (x & Hx & Hin).
      assert (existsb (fun kv' : string * json => String.eqb (fst kv') (fst kv)) acc = true).
      { apply existsb_exists. exists x. split; [exact Hin|]. rewrite Hx. apply String.eqb_refl. }
      congruence. }
  apply G. constructor.
Qed.

(* ---- ids are the parsed keys ---- *)
Lemma mapM_keys {A B} (f : A -> result B) (ka : A -> option Z) (kb : B -> Z) :
  (forall x v, f x = ROk v -> ka x = Some (kb v)) ->
  forall l vs, mapM f l = ROk vs -> map ka l = map (fun v => Some (kb v)) vs.
Proof.
  intros Hf. induction l as [|x t IH]; intros vs H; simpl in H.
  - inversion H; subst. reflexivity.
  - destruct (f x) as [b|] eqn:Eb; [|discriminate]. cbn [bind] in H. destruct (mapM f t) as [bs|] eqn:Et; [|discriminate].
    cbn [bind] in H. inversion H; subst. simpl. rewrite (Hf x b Eb), (IH bs eq_refl). reflexivity.
Qed.
Lemma nodup_keys_ids (l : list (string * json)) (ids : list Z) :
  NoDup (map fst l) -> forallb (fun kv => canonical (fst kv)) l = true ->
  map (fun kv => parse_u64 (fst kv)) l = map Some ids -> NoDup ids.
Proof.
  revert ids. induction l as [|[k j] t IH]; intros ids Hnd Hc Hm; destruct ids as [|z ids]; simpl in *; try discriminate; [constructor|].
  apply andb_true_iff in Hc. destruct Hc as [Hk Hc]. inversion Hnd as [|? ? Hk' Ht]; subst. inversion Hm as [[Hz Hm']].
  constructor; [|apply IH; assumption]. intros Hin. apply Hk'.
  assert (G : In (Some z) (map (fun kv : string * json => parse_u64 (fst kv)) t)) by (rewrite Hm'; apply in_map; exact Hin).
  apply in_map_iff in G. destruct G as ([k2 j2] & E2 & Hin2). simpl in E2.
  assert (Hc2 : canonical k2 = true) by (rewrite forallb_forall in Hc; apply (Hc (k2, j2) Hin2)).
  rewrite (canonical_inj k k2 z Hk Hc2 Hz E2). apply in_map_iff. exists (k2, j2). split; [reflexivity|exact Hin2].
Qed.

Ltac binv H := match type of H with
  | bind ?r _ = ROk _ => let a := fresh "a" in let Ha := fresh "Ha" in destruct r as [a|] eqn:Ha; [cbn [bind] in H|discriminate H] end.

Lemma view_reg_id part_id track_id cmap kr v : view_reg part_id track_id cmap kr = ROk v -> parse_u64 (fst kr) = Some (rv_id v).
Proof.
  destruct kr as [k reg]. unfold view_reg. simpl fst. intros H.
  destruct (parse_u64 k) as [rid|]; [|discriminate H]. cbn [ok_or bind] in H.
  repeat binv H. inversion H; subst. reflexivity.
Qed.
Lemma view_course_id track_id ign_c ff of kc v : view_course track_id ign_c ff of kc = ROk v -> parse_u64 (fst kc) = Some (cv_id v).
Proof.
  destruct kc as [k c]. unfold view_course. simpl fst. intros H.
  destruct (parse_u64 k) as [cid|]; [|discriminate H]. cbn [ok_or bind] in H.
  binv H. destruct a as [[[[name st] mn] mx] key]. binv H. inversion H; subst. reflexivity.
Qed.

Lemma map_some_inj (l1 l2 : list Z) : map Some l1 = map Some l2 -> l1 = l2.
Proof. revert l2. induction l1 as [|x t IH]; intros [|y u] H; simpl in H; try discriminate; [reflexivity|]. inversion H. f_equal. apply IH. assumption. Qed.

Theorem rviews_ids_nodup part_id track_id cmap (rdata : list (string * json)) rviews :
  forallb (fun kv => canonical (fst kv)) (obj_items rdata) = true ->
  mapM (view_reg part_id track_id cmap) (obj_items rdata) = ROk rviews -> NoDup (map rv_id rviews).
Proof.
  intros Hc Hm. apply (nodup_keys_ids (obj_items rdata)); [apply obj_items_nodup|exact Hc|].
  rewrite (mapM_keys _ (fun kv => parse_u64 (fst kv)) rv_id (view_reg_id part_id track_id cmap) _ _ Hm). rewrite map_map. reflexivity.
Qed.
Theorem cviews_ids_nodup track_id ign_c ff of (cdata : list (string * json)) cviews :
  forallb (fun kv => canonical (fst kv)) (obj_items cdata) = true ->
  mapM (view_course track_id ign_c ff of) (obj_items cdata) = ROk cviews -> NoDup (map cv_id cviews).
Proof.
  intros Hc Hm. apply (nodup_keys_ids (obj_items cdata)); [apply obj_items_nodup|exact Hc|].
  rewrite (mapM_keys _ (fun kv => parse_u64 (fst kv)) cv_id (view_course_id track_id ign_c ff of) _ _ Hm). rewrite map_map. reflexivity.
Qed.

(* filters and sorts keep ids distinct *)
Lemma nodup_map_filter {A} (g : A -> Z) (f : A -> bool) : forall l, NoDup (map g l) -> NoDup (map g (filter f l)).
Proof.
  induction l as [|x t IH]; intros H; simpl; [constructor|]. inversion H as [|? ? Hx Ht]; subst. destruct (f x); [|apply IH; exact Ht].
  simpl. constructor; [|apply IH; exact Ht]. intros Hin. apply Hx. apply in_map_iff in Hin. destruct Hin as (y & Hy & Hin).
  apply filter_In in Hin. apply in_map_iff. exists y. tauto.
Qed.
Theorem participants_ids_nodup ign_a rviews : NoDup (map rv_id rviews) -> NoDup (map rp_dbid (spec_participants ign_a rviews)).
Proof. intros H. rewrite spec_participants_order. apply nodup_map_filter. exact H. Qed.
Theorem courses_ids_nodup ign_c ign_a cviews rviews : NoDup (map cv_id cviews) ->
  NoDup (map rc_dbid (spec_courses ign_a (spec_csorted ign_c cviews) rviews)).
Proof.
  intros H. destruct (spec_courses_exactly ign_a (spec_csorted ign_c cviews) rviews) as [E _]. rewrite E. unfold spec_csorted.
  apply (Permutation_NoDup (l := map cv_id (filter (in_problem ign_c) cviews))).
  - apply Permutation_map, Permutation_sym, sort_by_perm.
  - apply nodup_map_filter. exact H.
Qed.

(* the whole reader: an accepted export whose registration and course keys are canonical gives a problem with pairwise distinct
   registration ids and pairwise distinct course ids *)
Definition keys_canonical (data : json) : bool :=
  match get "registrations" data, get "courses" data with
  | Some (JObj r), Some (JObj c) => forallb (fun kv => canonical (fst kv)) (obj_items r) && forallb (fun kv => canonical (fst kv)) (obj_items c)
  | _, _ => false end.

Theorem spec_read_ids_distinct data track ign_c ign_a ff of ps cs amb :
  spec_read data track ign_c ign_a ff of = ROk (ps, cs, amb) -> keys_canonical data = true ->
  NoDup (map rp_dbid ps) /\ NoDup (map rc_dbid cs).
Proof.
  unfold spec_read, keys_canonical. intros H Hk.
  binv H. binv H. binv H. binv H. destruct a2 as [[part_id track_id] td].
  destruct (get "courses" data) as [cj|] eqn:Ec; [|destruct (get "registrations" data) as [[]|]; discriminate Hk].
  destruct (get "registrations" data) as [rj|] eqn:Er; [|discriminate Hk].
  destruct rj as [| | | | | | |robj]; try discriminate Hk. destruct cj as [| | | | | | |cobj]; try discriminate Hk.
  apply andb_true_iff in Hk. destruct Hk as [Hkr Hkc].
  cbn [as_object ok_or bind] in H.
  binv H.
  cbn [ok_or bind] in H.
  binv H.
  binv H.
  binv H.
  inversion H; subst.
  split.
  - apply participants_ids_nodup. eapply rviews_ids_nodup; [|eassumption]; assumption.
  - apply courses_ids_nodup. eapply cviews_ids_nodup; [|eassumption]; assumption.
Qed.

Example canonical_ok : canonical "42" = true /\ canonical "07" = false /\ canonical "+7" = false /\ canonical "0" = true.
Proof. vm_compute. repeat split. Qed.
