(* C08, external rating: an ignored pre-assigned participant is rated by the ORIGINAL rank of the assigned course in his choice list
   (positions count the choices of skipped courses too), or by num_choices + 1 when the course is not among his choices. *)
From Coq Require Import List ZArith Bool Arith String Lia.
Require Import Json CdeSpec CdeRefine.
Import ListNotations.
Open Scope nat_scope.

(* maps_to cmap v ci: the choice entry v names the problem course ci *)
Definition maps_to (cmap : list (Z * option nat)) (v : json) (ci : nat) : bool :=
  match as_u64 v with Some cid => match lookup cid cmap with Some (Some c) => Nat.eqb c ci | _ => false end | None => false end.
(* position (counted from i) of the first entry of the original choice list that names course ci *)
Fixpoint first_rank (cmap : list (Z * option nat)) (l : list json) (ci i : nat) : option nat :=
  match l with [] => None | v :: t => if maps_to cmap v ci then Some i else first_rank cmap t ci (S i) end.

Lemma find_first_rank cmap ci : forall l i res, pcd_choices cmap l i = ROk res ->
  option_map snd (find (fun ch : nat * nat => Nat.eqb (fst ch) ci) res) = first_rank cmap l ci i.
Proof.
  induction l as [|v t IH]; intros i res Hr; simpl in Hr.
  - inversion Hr. reflexivity.
  - unfold first_rank; fold first_rank. unfold maps_to.
    destruct (as_u64 v) as [cid|]; [|discriminate]. simpl in Hr. destruct (lookup cid cmap) as [oc|]; [|discriminate]. simpl in Hr.
    destruct (pcd_choices cmap t (S i)) as [rest|] eqn:Er; [|discriminate]. simpl in Hr. inversion Hr; subst res. clear Hr.
    destruct oc as [c|]; [|apply IH; exact Er]. simpl. destruct (Nat.eqb c ci); [reflexivity|apply IH; exact Er].
Qed.

Theorem assigned_penalty_rank cmap l res ci td : pcd_choices cmap l 0 = ROk res ->
  assigned_penalty ci res td = match first_rank cmap l ci 0 with Some r => r | None => unchosen_penalty td end.
Proof.
  intros Hr. unfold assigned_penalty. rewrite <- (find_first_rank cmap ci l 0 res Hr). destruct (find _ res); reflexivity.
Qed.

(* first_rank is the least position whose entry names the course *)
Theorem first_rank_spec cmap ci : forall l i,
  match first_rank cmap l ci i with
  | Some r => i <= r /\ (exists v, nth_error l (r - i) = Some v /\ maps_to cmap v ci = true) /\
              forall j v, j < r - i -> nth_error l j = Some v -> maps_to cmap v ci = false
  | None => forall v, In v l -> maps_to cmap v ci = false
  end.
Proof.
  induction l as [|v t IH]; intros i; simpl.
  - intros v [].
  - destruct (maps_to cmap v ci) eqn:E.
    + split; [lia|]. rewrite Nat.sub_diag. split; [exists v; split; [reflexivity|exact E]|]. intros j v' Hj. lia.
    + specialize (IH (S i)). destruct (first_rank cmap t ci (S i)) as [r|].
      * destruct IH as (Hle & (v' & Hn & Hm) & Hmin). split; [lia|]. replace (r - i) with (S (r - S i)) by lia. split.
        -- exists v'. split; [exact Hn|exact Hm].
        -- intros j v'' Hj Hn'. destruct j as [|j]; simpl in Hn'; [inversion Hn'; subst; exact E|]. apply (Hmin j v''); [lia|exact Hn'].
      * intros v' [<-|Hin]; [exact E|apply IH; exact Hin].
Qed.

(* the penalties recorded for the ignored registrations by the specification (and hence, CdeRefine, by the transcription) *)
Theorem spec_quality_penalties ign_a td rviews :
  snd (spec_quality ign_a td rviews) =
  map (fun r => match pc_assigned (rv_pcd r) with Some ci => assigned_penalty ci (pc_choices (rv_pcd r)) td | None => 0 end)
      (filter (fun r => negb (same_course r) && has_choices r) (filter (ignored ign_a) rviews)).
Proof. reflexivity. Qed.
