(* C06 -> C18: the criterion proved for every solution found with a room list (RoomThms.Housed) is the precondition of the possible-room
   listing theorems (RoomsModel.housed_desc): both sort descending, and a descending-sorted permutation is unique. *)
From Coq Require Import List Arith Lia Bool Permutation Sorted.
Require RoomThms.
Require Import RoomsModel RoomsCourse.
Import ListNotations.
Open Scope nat_scope.

Lemma sorted_perm_unique : forall l1 l2, StronglySorted (fun a b => b <= a) l1 -> StronglySorted (fun a b => b <= a) l2 -> Permutation l1 l2 -> l1 = l2.
Proof.
  induction l1 as [|a t1 IH]; intros l2 H1 H2 P.
  - apply Permutation_nil in P. subst. reflexivity.
  - destruct l2 as [|b t2]; [apply Permutation_sym, Permutation_nil in P; discriminate|].
    inversion H1 as [|? ? Ht1 Ha]; subst. inversion H2 as [|? ? Ht2 Hb]; subst. rewrite Forall_forall in Ha, Hb.
    assert (Hab : a = b).
    { assert (In a (b :: t2)) by (apply (Permutation_in _ P); left; reflexivity).
      assert (In b (a :: t1)) by (apply (Permutation_in _ (Permutation_sym P)); left; reflexivity).
      destruct H as [->|Hin]; [reflexivity|]. destruct H0 as [->|Hin']; [reflexivity|]. pose proof (Ha b Hin'). pose proof (Hb a Hin). lia. }
    subst b. f_equal. apply IH; [exact Ht1|exact Ht2|]. apply (Permutation_cons_inv P).
Qed.

Lemma nth_sorted_strongly : forall l, (forall i j, i <= j -> j < length l -> nth j l 0 <= nth i l 0) -> StronglySorted (fun a b => b <= a) l.
Proof.
  induction l as [|a t IH]; intros H; [constructor|]. constructor.
  - apply IH. intros i j Hij Hj. apply (H (S i) (S j)); simpl; lia.
  - apply Forall_forall. intros b Hb. destruct (In_nth _ _ 0 Hb) as (j & Hj & <-). apply (H 0 (S j)); simpl; lia.
Qed.

Lemma desc_eq l : RoomThms.desc l = sort_nat_desc l.
Proof.
  apply sorted_perm_unique.
  - apply nth_sorted_strongly. intros i j Hij Hj. rewrite RoomThms.desc_length in Hj. apply (RoomThms.desc_sorted l i j Hij Hj).
  - apply sort_nat_desc_sorted.
  - apply perm_trans with l; [apply RoomThms.desc_perm|apply Permutation_sym, sort_nat_desc_perm].
Qed.

Theorem housed_link sizes rooms : RoomThms.Housed sizes rooms <-> housed_desc sizes rooms = true.
Proof.
  unfold RoomThms.Housed, housed_desc. rewrite !desc_eq. rewrite forallb_forall.
  rewrite (Permutation_length (sort_nat_desc_perm sizes)). split.
  - intros H i Hi. apply in_seq in Hi. apply Nat.leb_le. apply H. lia.
  - intros H i Hi. apply Nat.leb_le. apply H. apply in_seq. lia.
Qed.
