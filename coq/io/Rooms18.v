(* Spike for C18: the possible-room listing of io/rooms.rs on sorted inputs; every listed room is usable *)
From Coq Require Import List Arith Lia Bool.
Import ListNotations.

Section Rooms.
Variables (s r : list nat).     (* course sizes and room sizes, by rank (both sorted descending by the caller) *)
Definition Sz (i : nat) := nth i s 0.
Definition Rm (j : nat) := nth j r 0.
Let num := length s.
Let nr := length r.

(* inner loop `for j in i..rooms.len()` with its break; events are pushes (rank, room size) in program order *)
Fixpoint inner (fuel i j : nat) : list (nat * nat) :=
  match fuel with
  | 0 => []
  | S f => if (j <? nr) && (Sz i <=? Rm j)
           then (i, Rm j) :: (if j <? num then [(j, Rm i)] else []) ++ inner f i (S j)
           else []
  end.
Definition events : list (nat * nat) := flat_map (fun i => inner (nr - i) i i) (seq 0 num).
Definition listed (k : nat) : list nat := map snd (filter (fun e => fst e =? k) events).

Hypothesis Rsorted : forall i j, i <= j -> j < nr -> Rm j <= Rm i.
Hypothesis Housed : forall i, i < num -> (i < nr -> Sz i <= Rm i) /\ (nr <= i -> Sz i = 0).

Definition Usable (k v : nat) : Prop :=
  k < num /\ Sz k <= v /\
  exists alloc : nat -> nat,
    (forall c c', c < num -> c' < num -> alloc c = alloc c' -> c = c') /\
    alloc k < nr /\ Rm (alloc k) = v /\
    (forall c, c < num -> 0 < Sz c -> alloc c < nr /\ Sz c <= Rm (alloc c)).

Lemma housed_pos c : c < num -> 0 < Sz c -> c < nr /\ Sz c <= Rm c.
Proof. intros Hc Hp. destruct (Housed c Hc) as [H1 H2]. destruct (lt_dec c nr); [auto|]. rewrite H2 in Hp by lia. lia. Qed.

Lemma inner_usable : forall fuel i j k v, i < num -> i <= j -> In (k, v) (inner fuel i j) -> Usable k v.
Proof.
  induction fuel as [|f IH]; intros i j k v Hi Hij Hin; [destruct Hin|]. cbn [inner] in Hin.
  destruct ((j <? nr) && (Sz i <=? Rm j)) eqn:E; [|destruct Hin].
  apply andb_prop in E. destruct E as [Ej Es]. apply Nat.ltb_lt in Ej. apply Nat.leb_le in Es.
  destruct Hin as [Heq|Hin].
  - (* course i may take room j *)
    inversion Heq; subst k v. split; [exact Hi|]. split; [exact Es|].
    destruct (lt_dec j num) as [Hj|Hj].
    + exists (fun c => if c =? i then j else if c =? j then i else c). repeat split.
      * intros c c' _ _ H. destruct (c =? i) eqn:E1, (c' =? i) eqn:E1', (c =? j) eqn:E2, (c' =? j) eqn:E2';
          repeat match goal with H : (_ =? _) = true |- _ => apply Nat.eqb_eq in H | H : (_ =? _) = false |- _ => apply Nat.eqb_neq in H end; lia.
      * rewrite Nat.eqb_refl. exact Ej.
      * rewrite Nat.eqb_refl. reflexivity.
      * destruct (c =? i) eqn:E1; [exact Ej|]. destruct (c =? j) eqn:E2; [lia|]. apply (housed_pos c H H0).
      * destruct (c =? i) eqn:E1; [apply Nat.eqb_eq in E1; subst; exact Es|]. destruct (c =? j) eqn:E2.
        -- apply Nat.eqb_eq in E2. subst c. destruct (housed_pos j H H0). pose proof (Rsorted i j Hij Ej). lia.
        -- apply (housed_pos c H H0).
    + exists (fun c => if c =? i then j else c). repeat split.
      * intros c c' Hc Hc' H. destruct (c =? i) eqn:E1, (c' =? i) eqn:E1';
          repeat match goal with H : (_ =? _) = true |- _ => apply Nat.eqb_eq in H | H : (_ =? _) = false |- _ => apply Nat.eqb_neq in H end; lia.
      * rewrite Nat.eqb_refl. exact Ej.
      * rewrite Nat.eqb_refl. reflexivity.
      * destruct (c =? i) eqn:E1; [exact Ej|]. apply (housed_pos c H H0).
      * destruct (c =? i) eqn:E1; [apply Nat.eqb_eq in E1; subst; exact Es|]. apply (housed_pos c H H0).
  - apply in_app_or in Hin. destruct Hin as [Hin|Hin].
    + (* course j may take room i *)
      destruct (j <? num) eqn:Ejn; [|destruct Hin]. apply Nat.ltb_lt in Ejn. destruct Hin as [Heq|[]]. inversion Heq; subst k v.
      pose proof (Rsorted i j Hij Ej) as Hr. destruct (Housed j Ejn) as [Hh _]. specialize (Hh Ej).
      split; [exact Ejn|]. split; [lia|].
      exists (fun c => if c =? i then j else if c =? j then i else c). repeat split.
      * intros c c' _ _ H. destruct (c =? i) eqn:E1, (c' =? i) eqn:E1', (c =? j) eqn:E2, (c' =? j) eqn:E2';
          repeat match goal with H : (_ =? _) = true |- _ => apply Nat.eqb_eq in H | H : (_ =? _) = false |- _ => apply Nat.eqb_neq in H end; lia.
      * destruct (j =? i) eqn:E1; [exact Ej|]. rewrite Nat.eqb_refl. lia.
      * destruct (j =? i) eqn:E1; [apply Nat.eqb_eq in E1; subst; reflexivity|]. rewrite Nat.eqb_refl. reflexivity.
      * destruct (c =? i) eqn:E1; [exact Ej|]. destruct (c =? j) eqn:E2; [lia|]. apply (housed_pos c H H0).
      * destruct (c =? i) eqn:E1; [apply Nat.eqb_eq in E1; subst; exact Es|]. destruct (c =? j) eqn:E2.
        -- apply Nat.eqb_eq in E2. subst c. lia.
        -- apply (housed_pos c H H0).
    + apply (IH i (S j) k v Hi ltac:(lia) Hin).
Qed.

Theorem listed_usable k v : In v (listed k) -> Usable k v.
Proof.
  unfold listed. intros Hin. apply in_map_iff in Hin. destruct Hin as ([k' v'] & Hv & Hin). cbn in Hv. subst v'.
  apply filter_In in Hin. destruct Hin as [Hin Hk]. cbn in Hk. apply Nat.eqb_eq in Hk. subst k'.
  unfold events in Hin. apply in_flat_map in Hin. destruct Hin as (i & Hi & Hin). apply in_seq in Hi.
  apply (inner_usable (nr - i) i i k v); [lia|lia|exact Hin].
Qed.

Theorem listed_nonempty k : k < num -> 0 < Sz k -> listed k <> [].
Proof.
  intros Hk Hp. destruct (housed_pos k Hk Hp) as [Hkr Hs].
  assert (Hin : In (k, Rm k) events).
  { unfold events. apply in_flat_map. exists k. split; [apply in_seq; lia|].
    destruct (nr - k) as [|f] eqn:E; [lia|]. cbn [inner].
    replace (k <? nr) with true by (symmetry; apply Nat.ltb_lt; exact Hkr).
    replace (Sz k <=? Rm k) with true by (symmetry; apply Nat.leb_le; exact Hs). left. reflexivity. }
  unfold listed. intros Hnil.
  assert (In (Rm k) (map snd (filter (fun e => fst e =? k) events))).
  { apply in_map_iff. exists (k, Rm k). split; [reflexivity|]. apply filter_In. split; [exact Hin|]. apply Nat.eqb_refl. }
  rewrite Hnil in H. destruct H.
Qed.
End Rooms.
