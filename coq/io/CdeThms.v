(* Theorems about the CdE reader / writer models (C05, C11, C12, C13). *)
From Coq Require Import List ZArith Lia Bool Arith String.
Require Import HP1 Cao1 Cao3 Json Cde.
Import ListNotations.
Open Scope nat_scope.

(* ------------------------------------------------------------------ C05: the written file is consistent (index level) *)
Section C05.
Variables (courses : list course) (parts : list participant).
Notation nc := (nc courses). Notation np := (np parts). Notation crs := (crs courses).
Notation instructs := (instructs courses). Notation instr_only := (instr_only parts). Notation has_choice := (has_choice parts).
Variables (K : nat -> bool) (a : assignment).
Hypothesis H : HardOK_K courses parts K a.
Hypothesis HK : forall c, K c = true -> c < nc /\ c_fixed (crs c) = false.
Hypothesis Hone : forall p c c', c < nc -> c' < nc -> instructs p c = true -> instructs p c' = true -> c = c'.

(* the segment flag the writer emits: somebody is assigned, or the course is fixed *)
Definition active (c : nat) : bool := (0 <? size_of a c) || c_fixed (crs c).

Lemma size_pos_iff c : 0 < size_of a c <-> exists p, p < np /\ getO a p = Some c.
Proof.
  unfold size_of. rewrite <- (h_len _ _ _ _ H). split.
  - intros Hp. destruct (filter _ a) as [|o t] eqn:E; [simpl in Hp; lia|].
    assert (Hin : In o (filter (fun o => match o with Some c' => Nat.eqb c' c | None => false end) a)) by (rewrite E; left; reflexivity).
    apply filter_In in Hin. destruct Hin as [Hin Ho]. destruct o as [c'|]; [|discriminate]. apply Nat.eqb_eq in Ho. subst c'.
    apply In_nth with (d := None) in Hin. destruct Hin as (p & Hp' & Hn). exists p. split; [exact Hp'|exact Hn].
  - intros (p & Hp & Ha). assert (Hin : In (Some c) (filter (fun o => match o with Some c' => Nat.eqb c' c | None => false end) a)).
    { apply filter_In. split; [rewrite <- Ha; apply nth_In; exact Hp|apply Nat.eqb_refl]. }
    destruct (filter _ a); [destruct Hin|simpl; lia].
Qed.

(* every assigned registration sits in a course that is written as taking place and that the person chose or instructs *)
Theorem assigned_ok p c : p < np -> getO a p = Some c -> active c = true /\ (has_choice p c = true \/ instructs p c = true).
Proof.
  intros Hp Ha. split.
  - unfold active. apply orb_true_iff. left. apply Nat.ltb_lt. apply size_pos_iff. exists p. auto.
  - assert (Hc : c < nc) by (apply (h_rng _ _ _ _ H p c Hp Ha)).
    destruct (instr_only p) eqn:Eio.
    + right. apply (h_only _ _ _ _ H p Hp Eio c Ha).
    + destruct (existsb (fun c' => negb (K c') && instructs p c') (seq 0 nc)) eqn:Ex.
      * apply existsb_exists in Ex. destruct Ex as (c' & Hc' & Ex). apply in_seq in Hc'. apply andb_prop in Ex. destruct Ex as [E1 E2].
        apply negb_true_iff in E1. destruct (h_notK _ _ _ _ H c' ltac:(lia) E1) as [Hi _].
        assert (Ha' : getO a p = Some c') by (apply Hi; apply memb_true; exact E2). rewrite Ha in Ha'. inversion Ha'; subst. right. exact E2.
      * left. destruct (h_choice _ _ _ _ H p Hp Eio) as (c'' & Ha'' & Hch).
        { intros c' Hc' Hk. pose proof (existsb_false_all _ _ Ex c' ltac:(apply in_seq; lia)) as E. cbn in E. rewrite Hk in E. exact E. }
        rewrite Ha in Ha''. inversion Ha''; subst. exact Hch.
Qed.
(* every course written as taking place holds between its minimum and maximum attendees besides its instructors *)
Theorem active_sizes c : c < nc -> active c = true -> c_min (crs c) <= attendees courses parts a c <= c_max (crs c).
Proof.
  intros Hc Hact. destruct (K c) eqn:Ek.
  - exfalso. destruct (HK c Ek) as [_ Hfix]. unfold active in Hact. rewrite Hfix, orb_false_r in Hact. apply Nat.ltb_lt in Hact.
    apply size_pos_iff in Hact. destruct Hact as (p & Hp & Ha). apply (h_K _ _ _ _ H c Hc Ek p Hp Ha).
  - apply (h_notK _ _ _ _ H c Hc Ek).
Qed.
(* nobody is assigned to a course written as cancelled *)
Theorem inactive_empty c p : active c = false -> p < np -> getO a p <> Some c.
Proof.
  intros Hact Hp Ha. unfold active in Hact. apply orb_false_iff in Hact. destruct Hact as [Hs _]. apply Nat.ltb_ge in Hs.
  assert (0 < size_of a c) by (apply size_pos_iff; exists p; auto). lia.
Qed.
(* a fixed course (in particular one with places reserved for ignored registrations) is always written as taking place *)
Theorem fixed_active c : c_fixed (crs c) = true -> active c = true.
Proof. intros Hf. unfold active. rewrite Hf. apply orb_true_r. Qed.
End C05.

(* ------------------------------------------------------------------ C11: what the adaptation of a course reserves *)
(* with `pre` ignored pre-assigned attendees, original limits m <= M and the adapted limits m', M' (what the solver sees), any number
   `new` of newly assigned attendees within the adapted limits respects the original limits counting both groups *)
Theorem adapt_reserves (c : rcourse) (new : Z) :
  let pre := Z.of_nat (rc_inv_att c) in
  (rc_min (adapt_course c) <= new <= rc_max (adapt_course c))%Z -> (0 <= new)%Z ->
  (new + pre <= Z.max (rc_max c) pre)%Z /\ (rc_min c <= new + pre)%Z /\ (0 < new -> new + pre <= rc_max c)%Z.
Proof.
  cbv zeta. unfold adapt_course. cbn [rc_min rc_max]. intros [Hlo Hhi] Hn.
  destruct (rc_min c <? Z.of_nat (rc_inv_att c))%Z eqn:E1; destruct (rc_max c <? Z.of_nat (rc_inv_att c))%Z eqn:E2;
    try apply Z.ltb_lt in E1; try apply Z.ltb_ge in E1; try apply Z.ltb_lt in E2; try apply Z.ltb_ge in E2; lia.
Qed.
(* a course with any ignored pre-assigned person (instructor or attendee) is fixed, hence never cancelled (C01) and written active *)
Theorem adapt_fixed (c : rcourse) : rc_fixed (adapt_course c) = true <-> 0 < rc_inv_instr c + rc_inv_att c.
Proof. unfold adapt_course. cbn [rc_fixed]. rewrite negb_true_iff, Nat.eqb_neq. lia. Qed.
Theorem adapt_keeps (c : rcourse) : rc_dbid (adapt_course c) = rc_dbid c /\ rc_instr (adapt_course c) = rc_instr c /\ rc_hidden (adapt_course c) = rc_hidden c.
Proof. repeat split. Qed.

(* ------------------------------------------------------------------ C12: pieces of the reader *)
(* each kept choice carries as penalty its position in the registration's original choice list, and the course stored at that
   position is the chosen one; choices of ignored courses are dropped without renumbering the others *)
Theorem choice_penalty_is_position cmap : forall l i res c pen, pcd_choices cmap l i = ROk res -> In (c, pen) res ->
  i <= pen /\ exists v cid, nth_error l (pen - i) = Some v /\ as_u64 v = Some cid /\ lookup cid cmap = Some (Some c).
Proof.
  induction l as [|v t IH]; intros i res c pen Hr Hin; simpl in Hr.
  - inversion Hr; subst. destruct Hin.
  - destruct (as_u64 v) as [cid|] eqn:Ev; [|discriminate]. simpl in Hr. destruct (lookup cid cmap) as [ci|] eqn:El; [|discriminate]. simpl in Hr.
    destruct (pcd_choices cmap t (S i)) as [rest|] eqn:Er; [|discriminate]. simpl in Hr. inversion Hr; subst res. clear Hr.
    assert (Hrest : In (c, pen) rest -> i <= pen /\ exists v' cid', nth_error (v :: t) (pen - i) = Some v' /\ as_u64 v' = Some cid' /\ lookup cid' cmap = Some (Some c)).
    { intros Hin'. destruct (IH (S i) rest c pen Er Hin') as (Hle & v' & cid' & Hn & Hv & Hl). split; [lia|].
      exists v', cid'. replace (pen - i) with (S (pen - S i)) by lia. simpl. auto. }
    destruct ci as [c0|]; [|apply Hrest; exact Hin]. destruct Hin as [Heq|Hin]; [|apply Hrest; exact Hin].
    inversion Heq; subst. split; [lia|]. exists v, cid. rewrite Nat.sub_diag. simpl. auto.
Qed.
(* files of the wrong kind are refused *)
Theorem refuse_wrong_kind data tr ic ia k : get "kind" data = Some (JStr k) -> String.eqb k "partial" = false ->
  exists code, read_full data tr ic ia = RErr code.
Proof. intros Hk Hne. unfold read_full, read_fields, check_version. rewrite Hk. simpl. rewrite Hne. simpl. eexists. reflexivity. Qed.
Theorem refuse_missing_kind data tr ic ia : get "kind" data = None -> exists code, read_full data tr ic ia = RErr code.
Proof. intros Hk. unfold read_full, read_fields, check_version. rewrite Hk. simpl. eexists. reflexivity. Qed.
(* schema versions below 7 or above 19 are refused *)
Lemma check_version_refuses data a b : get "kind" data = Some (JStr "partial") -> get "EVENT_SCHEMA_VERSION" data = Some (JArr [JInt a; JInt b]) ->
  (a < 7 \/ 19 < a)%Z -> exists code, check_version data = RErr code.
Proof.
  intros Hk Hv Hr. unfold check_version. rewrite Hk. cbn [as_str bind ok_or]. change (String.eqb "partial" "partial") with true. cbn [negb].
  rewrite Hv. cbn [as_array bind ok_or as_u64].
  destruct ((0 <=? a)%Z && (a <? 18446744073709551616)%Z); cbn [bind ok_or]; [|eexists; reflexivity].
  destruct ((0 <=? b)%Z && (b <? 18446744073709551616)%Z); cbn [bind ok_or]; [|eexists; reflexivity].
  destruct ((a <? 7)%Z || (19 <? a)%Z) eqn:E; [eexists; reflexivity|]. exfalso. apply orb_false_iff in E. destruct E as [E1 E2].
  apply Z.ltb_ge in E1, E2. lia.
Qed.
Theorem refuse_version data tr ic ia a b : get "kind" data = Some (JStr "partial") -> get "EVENT_SCHEMA_VERSION" data = Some (JArr [JInt a; JInt b]) ->
  (a < 7 \/ 19 < a)%Z -> exists code, read_full data tr ic ia = RErr code.
Proof.
  intros Hk Hv Hr. destruct (check_version_refuses data a b Hk Hv Hr) as (code & Hc). unfold read_full, read_fields. rewrite Hc. exists code. reflexivity.
Qed.

(* ------------------------------------------------------------------ C13: lookups are keyed by the selected track *)
(* what the reader extracts from a registration depends only on the registration's entry for the selected track *)
Theorem parse_pcd_other_tracks reg reg' tid cmap :
  (match get "tracks" reg with Some v => match as_object v with Some o => assoc (zstr tid) o | None => None end | None => None end) =
  (match get "tracks" reg' with Some v => match as_object v with Some o => assoc (zstr tid) o | None => None end | None => None end) ->
  parse_pcd reg tid cmap = parse_pcd reg' tid cmap.
Proof.
  intros Heq. unfold parse_pcd.
  destruct (get "tracks" reg) as [v|]; destruct (get "tracks" reg') as [v'|]; try destruct (as_object v) as [o|]; try destruct (as_object v') as [o'|];
    try rewrite Heq; try rewrite <- Heq; try reflexivity.
Qed.
(* what the reader extracts from a course depends only on the segment of the selected track and the course's own base data *)
Theorem parse_course_other_segments cid c c' tid :
  get "nr" c = get "nr" c' -> get "shortname" c = get "shortname" c' -> get "max_size" c = get "max_size" c' -> get "min_size" c = get "min_size" c' ->
  (exists segs segs', get "segments" c = Some (JObj segs) /\ get "segments" c' = Some (JObj segs') /\ assoc (zstr tid) segs = assoc (zstr tid) segs') ->
  parse_course cid c tid = parse_course cid c' tid.
Proof.
  intros H1 H2 H3 H4 (segs & segs' & Hs & Hs' & Ha). unfold parse_course. rewrite Hs, Hs', H1, H2, H3, H4. simpl. rewrite Ha. reflexivity.
Qed.

(* ---- find_track: which track is selected, and when the document is refused ---- *)
Lemma ft_tracks_id t pid ts r : ft_tracks t pid ts = ROk (Some r) -> snd (fst r) = t.
Proof.
  induction ts as [|[tid tr] trest IH]; intros H; [discriminate|]. cbn in H.
  destruct (ok_or (parse_u64 tid) 22) as [tidz|]; [|discriminate]. cbn [bind] in H.
  destruct (tidz =? t)%Z eqn:E; [|apply IH; exact H].
  destruct (ok_or (parse_u64 pid) 22) as [pidz|]; [|discriminate]. cbn [bind] in H.
  destruct (ok_or (as_object tr) 23); [|discriminate]. cbn [bind] in H. inversion H; subst. cbn. apply Z.eqb_eq. exact E.
Qed.
(* --track t: whatever is selected carries the id t ... *)
Theorem find_track_some_id parts t p t' td : find_track parts (Some t) = ROk (p, t', td) -> t' = t.
Proof.
  unfold find_track. generalize (obj_items parts) as ps. induction ps as [|[pid part] rest IH]; [discriminate|].
  cbn. destruct (ok_or _ 21) as [tracks|]; [|discriminate]. cbn [bind].
  destruct (ft_tracks t pid (obj_items tracks)) as [[r|]|] eqn:Er; cbn [bind]; try discriminate.
  - intros H. inversion H; subst r. apply (ft_tracks_id t pid _ _ Er).
  - exact IH.
Qed.
(* ... and a track id that no part has is refused *)
Lemma ft_tracks_absent t pid ts : (forall tid tr, In (tid, tr) ts -> parse_u64 tid <> Some t) -> forall r, ft_tracks t pid ts <> ROk (Some r).
Proof.
  induction ts as [|[tid tr] trest IH]; intros Hno r H; [discriminate|]. cbn in H.
  destruct (parse_u64 tid) as [tidz|] eqn:Ep; cbn in H; [|discriminate].
  destruct (tidz =? t)%Z eqn:E.
  - apply Z.eqb_eq in E. subst. apply (Hno tid tr (or_introl eq_refl)). exact Ep.
  - apply (IH (fun tid' tr' Hin => Hno tid' tr' (or_intror Hin)) r H).
Qed.
Theorem find_track_unknown parts t :
  (forall pid part tracks tid tr, In (pid, part) (obj_items parts) -> (match get "tracks" part with Some v => as_object v | None => None end) = Some tracks ->
                                  In (tid, tr) (obj_items tracks) -> parse_u64 tid <> Some t) ->
  exists e, find_track parts (Some t) = RErr e.
Proof.
  unfold find_track. generalize (obj_items parts) as ps. induction ps as [|[pid part] rest IH]; intros Hno; [eexists; reflexivity|].
  cbn. destruct (match get "tracks" part with Some v => as_object v | None => None end) as [tracks|] eqn:Et; cbn; [|eexists; reflexivity].
  destruct (ft_tracks t pid (obj_items tracks)) as [[r|]|e] eqn:Er; cbn [bind].
  - exfalso. apply (ft_tracks_absent t pid (obj_items tracks) (fun tid tr Hin => Hno pid part tracks tid tr (or_introl eq_refl) Et Hin) r Er).
  - apply IH. intros pid' part' tracks' tid tr Hin. apply (Hno pid' part' tracks' tid tr (or_intror Hin)).
  - eexists. reflexivity.
Qed.
(* no --track: accepted iff the event has exactly one track overall (codes 24: no track, 25: several tracks) *)
Theorem find_track_none parts :
  match tracks_of parts with
  | ROk [] => find_track parts None = RErr 24
  | ROk [(pid, tid, tr)] => find_track parts None =
                            (let* pidz := ok_or (parse_u64 pid) 22 in let* tidz := ok_or (parse_u64 tid) 22 in let* _ := ok_or (as_object tr) 23 in ROk (pidz, tidz, tr))
  | ROk (_ :: _ :: _) => find_track parts None = RErr 25
  | RErr e => find_track parts None = RErr e
  end.
Proof.
  unfold find_track. destruct (tracks_of parts) as [all|e]; cbn [bind]; [|reflexivity].
  destruct all as [|[[pid tid] tr] [|y t]]; reflexivity.
Qed.
