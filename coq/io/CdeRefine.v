(* Refinement: the line-by-line transcription of cdedb::read (Json.read_fields: two loops with running state, exactly tied to the code by
   differential execution) computes the declarative specification CdeSpec.spec_read -- for every document, option set, and including
   every refusal with its reason.  The C12 / C13 theorems about spec_read are thereby theorems about the transcription. *)
From Coq Require Import List ZArith Bool Arith String Lia.
Require Import Json CdeSpec.
Import ListNotations.
Open Scope nat_scope.

(* ---------------------------------------------------------------- lists *)
Lemma insert_by_map {A B} (h : A -> B) (key : B -> string) (x : A) : forall l,
  insert_by key (h x) (map h l) = map h (insert_by (fun a => key (h a)) x l).
Proof. induction l as [|y t IH]; simpl; [reflexivity|]. destruct (str_ltb (key (h x)) (key (h y))); simpl; [reflexivity|]. rewrite IH. reflexivity. Qed.
Lemma sort_by_map {A B} (h : A -> B) (key : B -> string) (l : list A) :
  sort_by key (map h l) = map h (sort_by (fun a => key (h a)) l).
Proof.
  unfold sort_by. change (@nil B) with (map h []). generalize (@nil A). induction l as [|x t IH]; intros acc; simpl; [reflexivity|].
  rewrite insert_by_map. apply IH.
Qed.

Lemma combine_seq_map {A B C} (h : A -> B) (g : nat * B -> C) : forall (l : list A) s,
  map g (combine (seq s (List.length (map h l))) (map h l)) = map (fun iv : nat * A => g (fst iv, h (snd iv))) (combine (seq s (List.length l)) l).
Proof. induction l as [|x t IH]; intros s; simpl; [reflexivity|]. f_equal. apply IH. Qed.

Lemma in_combine_seq_ge {A} : forall (l : list A) s i v, In (i, v) (combine (seq s (List.length l)) l) -> s <= i.
Proof. intros l s i v H. apply in_combine_seq in H. tauto. Qed.

(* updating one position of an indexed map *)
Lemma upd_map_combine {A B} (g g' : nat * A -> B) (f : B -> B) (d : B) : forall (l : list A) s ci,
  (forall i v, g' (i, v) = if Nat.eqb i (s + ci) then f (g (i, v)) else g (i, v)) ->
  modify (map g (combine (seq s (List.length l)) l)) ci f d = map g' (combine (seq s (List.length l)) l).
Proof.
  unfold modify. induction l as [|x t IH]; intros s ci Hg; simpl.
  - destruct ci; reflexivity.
  - destruct ci as [|ci]; simpl.
    + rewrite Hg, Nat.add_0_r, Nat.eqb_refl. f_equal. apply map_ext_in. intros [i v] Hin. apply in_combine_seq_ge in Hin.
      rewrite Hg. replace (Nat.eqb i (s + 0)) with false by (symmetry; apply Nat.eqb_neq; lia). reflexivity.
    + rewrite Hg. replace (Nat.eqb s (s + S ci)) with false by (symmetry; apply Nat.eqb_neq; lia). f_equal.
      apply IH. intros i v. rewrite Hg. replace (s + S ci) with (S s + ci) by lia. reflexivity.
Qed.

Lemma combine_seq_snoc {A} : forall (l : list A) s x,
  combine (seq s (List.length (l ++ [x]))) (l ++ [x]) = combine (seq s (List.length l)) l ++ [(s + List.length l, x)].
Proof.
  induction l as [|y t IH]; intros s x; simpl; [rewrite Nat.add_0_r; reflexivity|]. f_equal. rewrite IH. replace (S s + List.length t) with (s + S (List.length t)) by lia. reflexivity.
Qed.

Lemma mapM_app {A B} (f : A -> result B) : forall l1 l2,
  mapM f (l1 ++ l2) = let* a := mapM f l1 in let* b := mapM f l2 in ROk (a ++ b).
Proof.
  induction l1 as [|x t IH]; intros l2; simpl.
  - destruct (mapM f l2); reflexivity.
  - destruct (f x) as [b|c]; simpl; [|reflexivity]. rewrite IH. destruct (mapM f t); simpl; [|reflexivity]. destruct (mapM f l2); reflexivity.
Qed.

(* ---------------------------------------------------------------- the course loop *)
Section Courses.
Variables (track_id : Z) (ign_c : bool) (ff of : option string).

Definition mk0 (v : cview) : rcourse :=
  {| rc_dbid := cv_id v; rc_name := cv_name v; rc_min := cv_min v; rc_max := cv_max v; rc_instr := []; rc_fixed := false;
     rc_hidden := []; rc_inv_instr := 0; rc_inv_att := 0 |}.
Definition keyed_of (cviews : list cview) : list (string * (rcourse * (option json * option json))) :=
  map (fun v => (cv_key v, (mk0 v, cv_fields v))) (filter (in_problem ign_c) cviews).
Definition skipped_of (cviews : list cview) : list Z := map cv_id (filter (fun v => negb (in_problem ign_c v)) cviews).

Lemma goc_spec : forall l,
  goc track_id ign_c ff of l = let* cviews := mapM (view_course track_id ign_c ff of) l in
  ROk (keyed_of cviews, skipped_of cviews, List.length (filter (ignored_cancelled ign_c) cviews)).
Proof.
  induction l as [|[k c] t IH]; [reflexivity|]. cbn [goc mapM]. unfold view_course at 1.
  destruct (parse_u64 k) as [cid|]; [|reflexivity]. cbn [ok_or bind].
  destruct (parse_course cid c track_id) as [[[[[name st] mn] mx] key]|e]; [|reflexivity]. cbn [bind].
  set (skip := match st with NotOffered => true | Cancelled => ign_c | TakesPlace => false end).
  destruct (if skip then ROk (None, None) else _) as [fo|e] eqn:Efo; [|reflexivity]. cbn [bind].
  rewrite IH. destruct (mapM (view_course track_id ign_c ff of) t) as [cviews|e]; [|reflexivity]. cbn [bind].
  unfold keyed_of, skipped_of. cbn [filter]. unfold in_problem at 1 3. unfold ignored_cancelled at 1. cbn [cv_status].
  subst skip. destruct st, ign_c; reflexivity.
Qed.
End Courses.

(* ---------------------------------------------------------------- the registration loop *)
Section Regs.
Variables (part_id track_id : Z) (cmap : list (Z * option nat)) (ign_a : bool) (td : json).
Variable csorted : list cview.

(* the course at index ci after the registrations vs have been processed (before adapt_course) *)
Definition pre_course (vs : list rview) (iv : nat * cview) : rcourse :=
  let ci := fst iv in let v := snd iv in
  let mine := filter (fun r => opt_is (pc_assigned (rv_pcd r)) ci) (filter (ignored ign_a) vs) in
  {| rc_dbid := cv_id v; rc_name := cv_name v; rc_min := cv_min v; rc_max := cv_max v;
     rc_instr := spec_instructors ign_a vs ci; rc_fixed := false; rc_hidden := map rv_name mine;
     rc_inv_instr := List.length (filter (fun r => opt_is (pc_instr (rv_pcd r)) ci) mine);
     rc_inv_att := List.length (filter (fun r => negb (opt_is (pc_instr (rv_pcd r)) ci)) mine) |}.
Definition courses_of (vs : list rview) : list rcourse := map (pre_course vs) (combine (seq 0 (List.length csorted)) csorted).

Lemma spec_courses_adapt vs : spec_courses ign_a csorted vs = map adapt_course (courses_of vs).
Proof. unfold spec_courses, courses_of. rewrite map_map. reflexivity. Qed.

Lemma ignored_assigned v : ignored ign_a v = true -> exists ci, (if ign_a then pc_assigned (rv_pcd v) else None) = Some ci.
Proof. unfold ignored. destruct (rv_part v), ign_a, (pc_assigned (rv_pcd v)) as [ci|]; simpl; try discriminate. eauto. Qed.

(* one more registration: not kept, not ignored *)
Lemma step_none vs v : kept ign_a v = false -> ignored ign_a v = false ->
  filter (kept ign_a) (vs ++ [v]) = filter (kept ign_a) vs /\ filter (ignored ign_a) (vs ++ [v]) = filter (ignored ign_a) vs.
Proof. intros Hk Hi. rewrite !filter_app. simpl. rewrite Hk, Hi, !app_nil_r. split; reflexivity. Qed.

Lemma courses_of_ext vs vs' :
  filter (kept ign_a) vs' = filter (kept ign_a) vs -> filter (ignored ign_a) vs' = filter (ignored ign_a) vs -> courses_of vs' = courses_of vs.
Proof. intros Hk Hi. unfold courses_of, pre_course, spec_instructors. rewrite Hk, Hi. reflexivity. Qed.

Lemma instr_step vs v i : filter (kept ign_a) (vs ++ [v]) = filter (kept ign_a) vs ++ [v] ->
  spec_instructors ign_a (vs ++ [v]) i =
  spec_instructors ign_a vs i ++ (if opt_is (pc_instr (rv_pcd v)) i then [List.length (filter (kept ign_a) vs)] else []).
Proof.
  intros Fk. unfold spec_instructors. rewrite Fk, combine_seq_snoc, filter_app, map_app. cbn [filter snd]. rewrite Nat.add_0_l.
  destruct (opt_is (pc_instr (rv_pcd v)) i); reflexivity.
Qed.

Lemma gor_spec : forall l vs,
  gor part_id track_id cmap ign_a td l (List.length (filter (kept ign_a) vs)) (courses_of vs) (rev (spec_participants ign_a vs))
      (spec_quality ign_a td vs) (List.length (filter (ignored ign_a) vs)) =
  let* vl := mapM (view_reg part_id track_id cmap) l in
  ROk (spec_participants ign_a (vs ++ vl), courses_of (vs ++ vl), spec_quality ign_a td (vs ++ vl), List.length (filter (ignored ign_a) (vs ++ vl))).
Proof.
  induction l as [|[k reg] t IH]; intros vs.
  - cbn [gor mapM bind]. rewrite app_nil_r, rev_involutive. reflexivity.
  - cbn [gor mapM]. unfold view_reg at 1.
    destruct (parse_u64 k) as [rid|]; [|reflexivity]. cbn [ok_or bind].
    destruct (match get "parts" reg with Some v => as_object v | None => None end) as [rparts|]; [|reflexivity]. cbn [ok_or bind].
    destruct (match assoc (zstr part_id) rparts with Some p => _ | None => _ end) as [is_part|e]; [|reflexivity]. cbn [bind].
    destruct (match get "persona" reg with Some v => _ | None => None end) as [persona|]; [|reflexivity]. cbn [ok_or bind].
    destruct (match get "given_names" persona with Some v => as_str v | None => None end) as [gn|]; [|reflexivity]. cbn [ok_or bind].
    destruct (match get "family_name" persona with Some v => as_str v | None => None end) as [fn|]; [|reflexivity]. cbn [ok_or bind].
    set (name := (gn ++ " " ++ fn)%string).
    assert (Hcont : forall v, (let* bs := mapM (view_reg part_id track_id cmap) t in ROk (v :: bs)) = mapM (view_reg part_id track_id cmap) t
                     \/ True) by (intros; right; exact I). clear Hcont.
    (* the continuation after the view v of this registration *)
    assert (K : forall v : rview,
      (let* vl := (let* bs := mapM (view_reg part_id track_id cmap) t in ROk (v :: bs)) in
       ROk (spec_participants ign_a (vs ++ vl), courses_of (vs ++ vl), spec_quality ign_a td (vs ++ vl), List.length (filter (ignored ign_a) (vs ++ vl)))) =
      (let* vl := mapM (view_reg part_id track_id cmap) t in
       ROk (spec_participants ign_a ((vs ++ [v]) ++ vl), courses_of ((vs ++ [v]) ++ vl), spec_quality ign_a td ((vs ++ [v]) ++ vl),
            List.length (filter (ignored ign_a) ((vs ++ [v]) ++ vl))))).
    { intros v. destruct (mapM (view_reg part_id track_id cmap) t) as [vl|e]; [|reflexivity]. cbn [bind]. rewrite <- !app_assoc. reflexivity. }
    destruct is_part; cbn [negb].
    + (* a participant of the part *)
      destruct (parse_pcd reg track_id cmap) as [d|e]; [|reflexivity]. cbn [bind].
      set (v := {| rv_id := rid; rv_name := name; rv_part := true; rv_pcd := d |}). rewrite (K v). rewrite <- (IH (vs ++ [v])). clear K IH.
      assert (Ev : rv_pcd v = d) by reflexivity.
      destruct (if ign_a then pc_assigned d else None) as [ci|] eqn:Eas.
      * (* ignored pre-assigned registration *)
        assert (Hig : ignored ign_a v = true) by (unfold ignored; simpl; destruct ign_a; [|discriminate]; rewrite Eas; reflexivity).
        assert (Hk : kept ign_a v = false) by (unfold kept; rewrite Hig; simpl; reflexivity).
        assert (Eas' : pc_assigned d = Some ci) by (destruct ign_a; [exact Eas|discriminate]).
        assert (Fk : filter (kept ign_a) (vs ++ [v]) = filter (kept ign_a) vs) by (rewrite filter_app; simpl; rewrite Hk, app_nil_r; reflexivity).
        assert (Fi : filter (ignored ign_a) (vs ++ [v]) = filter (ignored ign_a) vs ++ [v]) by (rewrite filter_app; simpl; rewrite Hig; reflexivity).
        f_equal.
        -- rewrite Fk. reflexivity.
        -- (* courses *)
           unfold courses_of. apply upd_map_combine. intros i cv. unfold pre_course, spec_instructors. cbn [fst snd]. rewrite Fk, Fi.
           rewrite (filter_app _ (filter (ignored ign_a) vs) [v]). cbn [filter]. rewrite Ev, Eas'. change (opt_is (Some ci) i) with (Nat.eqb ci i).
           rewrite Nat.add_0_l, (Nat.eqb_sym ci i). destruct (Nat.eqb i ci) eqn:Eic.
           ++ apply Nat.eqb_eq in Eic. subst i. cbn [rc_dbid rc_name rc_min rc_max rc_instr rc_fixed rc_hidden rc_inv_instr rc_inv_att].
              rewrite !filter_app, map_app, !app_length. cbn [filter map]. rewrite Ev.
              destruct (pc_instr d) as [c'|]; cbn [opt_is]; [destruct (Nat.eqb c' ci)|]; cbn [negb List.length app]; f_equal; try reflexivity; lia.
           ++ rewrite !app_nil_r. reflexivity.
        -- unfold spec_participants. rewrite Fk. reflexivity.
        -- (* quality *)
           assert (Es : same_course v = opt_is (pc_instr d) ci) by (unfold same_course; rewrite Ev, Eas'; reflexivity).
           assert (Eh : has_choices v = match pc_choices d with [] => false | _ => true end) by (unfold has_choices; rewrite Ev; reflexivity).
           unfold spec_quality. rewrite Fi, !filter_app, map_app, app_length. cbn [filter]. rewrite Es, Eh.
           unfold rate_att.
           destruct (pc_instr d) as [c'|]; cbn [opt_is]; [destruct (Nat.eqb c' ci)|]; destruct (pc_choices d) eqn:Ech;
             cbn [negb andb List.length app map fst snd]; rewrite ?Ev, ?Eas', ?Ech, ?app_nil_r; f_equal; try reflexivity; lia.
        -- rewrite Fi, app_length. simpl. lia.
      * (* not ignored *)
        assert (Hig : ignored ign_a v = false).
        { unfold ignored. simpl. destruct ign_a; [|reflexivity]. rewrite Eas. reflexivity. }
        assert (Fi : filter (ignored ign_a) (vs ++ [v]) = filter (ignored ign_a) vs) by (rewrite filter_app; simpl; rewrite Hig, app_nil_r; reflexivity).
        destruct (pc_choices d) as [|ch0 cht] eqn:Ech; [destruct (pc_instr d) as [ci|] eqn:Ein|].
        -- (* instructor without choices: kept *)
           assert (Hk : kept ign_a v = true) by (unfold kept; rewrite Hig; simpl; rewrite Ech, Ein; reflexivity).
           assert (Fk : filter (kept ign_a) (vs ++ [v]) = filter (kept ign_a) vs ++ [v]) by (rewrite filter_app; simpl; rewrite Hk; reflexivity).
           f_equal.
           ++ rewrite Fk, app_length. simpl. lia.
           ++ unfold courses_of. apply upd_map_combine. intros i cv. unfold pre_course. cbn [fst snd]. rewrite (instr_step vs v i Fk), Fi, Ev, Ein.
              change (opt_is (Some ci) i) with (Nat.eqb ci i). rewrite Nat.add_0_l, (Nat.eqb_sym ci i).
              destruct (Nat.eqb i ci); [reflexivity|rewrite app_nil_r; reflexivity].
           ++ unfold spec_participants. rewrite Fk, map_app, rev_app_distr. simpl. unfold mk_part. simpl. rewrite Ech. reflexivity.
           ++ unfold spec_quality. rewrite Fi. reflexivity.
           ++ rewrite Fi. reflexivity.
        -- (* neither choices nor instructor: dropped *)
           assert (Hk : kept ign_a v = false) by (unfold kept; simpl; rewrite Ech, Ein; simpl; rewrite andb_false_r; reflexivity).
           destruct (step_none vs v Hk Hig) as [Fk _].
           f_equal; [rewrite Fk; reflexivity|apply eq_sym, courses_of_ext; assumption|unfold spec_participants; rewrite Fk; reflexivity|
                     unfold spec_quality; rewrite Fi; reflexivity|rewrite Fi; reflexivity].
        -- (* has choices: kept *)
           assert (Hk : kept ign_a v = true) by (unfold kept; rewrite Hig; simpl; rewrite Ech; reflexivity).
           assert (Fk : filter (kept ign_a) (vs ++ [v]) = filter (kept ign_a) vs ++ [v]) by (rewrite filter_app; simpl; rewrite Hk; reflexivity).
           f_equal.
           ++ rewrite Fk, app_length. simpl. lia.
           ++ destruct (pc_instr d) as [ci|] eqn:Ein.
              ** unfold courses_of. apply upd_map_combine. intros i cv. unfold pre_course. cbn [fst snd]. rewrite (instr_step vs v i Fk), Fi, Ev, Ein.
                 change (opt_is (Some ci) i) with (Nat.eqb ci i). rewrite Nat.add_0_l, (Nat.eqb_sym ci i).
                 destruct (Nat.eqb i ci); [reflexivity|rewrite app_nil_r; reflexivity].
              ** unfold courses_of. apply map_ext. intros iv. unfold pre_course. rewrite (instr_step vs v (fst iv) Fk), Fi, Ev, Ein.
                 cbn [opt_is]. rewrite app_nil_r. reflexivity.
           ++ unfold spec_participants. rewrite Fk, map_app, rev_app_distr. simpl. unfold mk_part. simpl. rewrite Ech. reflexivity.
           ++ unfold spec_quality. rewrite Fi. reflexivity.
           ++ rewrite Fi. reflexivity.
    + (* not a participant of the part: the registration is skipped *)
      cbn [bind]. set (v := {| rv_id := rid; rv_name := name; rv_part := false; rv_pcd := no_pcd |}). rewrite (K v). rewrite <- (IH (vs ++ [v])). clear K IH.
      assert (Hk : kept ign_a v = false) by reflexivity. assert (Hig : ignored ign_a v = false) by reflexivity.
      destruct (step_none vs v Hk Hig) as [Fk Fi].
      f_equal; [rewrite Fk; reflexivity|apply eq_sym, courses_of_ext; assumption|unfold spec_participants; rewrite Fk; reflexivity|
                unfold spec_quality; rewrite Fi; reflexivity|rewrite Fi; reflexivity].
Qed.
End Regs.

(* ---------------------------------------------------------------- the whole reader *)
Lemma courses_of_nil ign_a cs : courses_of ign_a cs [] = map mk0 cs.
Proof. unfold courses_of. generalize 0. induction cs as [|x t IH]; intros s; simpl; [reflexivity|]. f_equal. apply IH. Qed.
Theorem read_fields_refines_spec data track ign_c ign_a ff of :
  read_fields data track ign_c ign_a ff of = spec_read data track ign_c ign_a ff of.
Proof.
  unfold read_fields, spec_read.
  destruct (check_version data) as [[]|e]; [|reflexivity]. cbn [bind].
  destruct (ok_or (match get "timestamp" data with Some v => as_str v | None => None end) 9) as [ts|e]; [|reflexivity]. cbn [bind].
  destruct (ok_or _ 10) as [parts|e]; [|reflexivity]. cbn [bind].
  destruct (find_track parts track) as [[[part_id track_id] td]|e]; [|reflexivity]. cbn [bind].
  destruct (ok_or _ 11) as [cdata|e]; [|reflexivity]. cbn [bind].
  rewrite goc_spec. destruct (mapM (view_course track_id ign_c ff of) (obj_items cdata)) as [cviews|e]; [|reflexivity]. cbn [bind].
  destruct (ok_or _ 14) as [rdata|e]; [|reflexivity]. cbn [bind].
  (* the sorted course list and the id map *)
  assert (Es : sort_by fst (keyed_of ign_c cviews) = map (fun v => (cv_key v, (mk0 v, cv_fields v))) (spec_csorted ign_c cviews)).
  { unfold keyed_of, spec_csorted. rewrite sort_by_map. reflexivity. }
  rewrite Es, !map_map. cbn [fst snd]. change (fun x : cview => mk0 x) with mk0. change (fun x : cview => cv_fields x) with cv_fields.
  set (csorted := spec_csorted ign_c cviews).
  assert (Ecm : (map (fun cid => (cid, @None nat)) (skipped_of ign_c cviews) ++
                 map (fun '(i, c) => (rc_dbid c, Some i)) (combine (seq 0 (List.length (map mk0 csorted))) (map mk0 csorted)))%list = spec_cmap ign_c cviews).
  { unfold spec_cmap, skipped_of. fold csorted. f_equal. rewrite (combine_seq_map mk0 (fun ic : nat * rcourse => let '(i, c) := ic in (rc_dbid c, Some i))).
    apply map_ext. intros [i v]. reflexivity. }
  rewrite Ecm.
  rewrite <- (courses_of_nil ign_a csorted).
  pose proof (gor_spec part_id track_id (spec_cmap ign_c cviews) ign_a td csorted (obj_items rdata) []) as G. cbn [filter List.length app] in G.
  change (rev (spec_participants ign_a [])) with (@nil rpart) in G. change (spec_quality ign_a td []) with (0, @nil nat) in G.
  rewrite G. clear G.
  destruct (mapM (view_reg part_id track_id (spec_cmap ign_c cviews)) (obj_items rdata)) as [rviews|e]; [|reflexivity]. cbn [bind].
  rewrite <- spec_courses_adapt.
  destruct (ok_or _ 50) as [eid|e]; [|reflexivity]. cbn [bind].
  destruct (ok_or _ 51) as [sn|e]; [|reflexivity]. cbn [bind].
  reflexivity.
Qed.
