(* Model of io/simple.rs::read (the simple JSON input format) on the generic JSON value type: serde's derived Deserialize for
   Participant, Choice and Course (from an object by field name -- unknown keys ignored, `default` fields optional -- or from an array
   positionally), followed by io::check_data_consistency.  Total by construction: every JSON value is either refused or yields
   participants and courses.  Tied to the code by exact comparison on generated and corrupted documents (CorrSimple). *)
From Coq Require Import List ZArith Bool Arith String Ascii Lia.
Require Import Consts Json.
Import ListNotations.
Open Scope string_scope.
Open Scope list_scope.
Open Scope nat_scope.

Record schoice := { sc_course : Z; sc_pen : Z }.
Record spart := { sp_name : string; sp_choices : list schoice }.
Record scourse := { so_name : string; so_max : Z; so_min : Z; so_instr : list Z; so_factor : option json; so_offset : option json;
                    so_fixed : bool; so_hidden : list string }.

(* primitive deserializers of serde_json::Value (no coercions between number kinds, strings and booleans) *)
Definition de_usize (j : json) : result Z := ok_or (as_u64 j) 60.
Definition de_u32 (j : json) : result Z :=
  match j with JInt z => if ((0 <=? z) && (z <? 4294967296))%Z then ROk z else RErr 61 | _ => RErr 61 end.
Definition de_f32 (j : json) : result json := if is_num j then ROk j else RErr 62.
Definition de_bool (j : json) : result bool := ok_or (as_bool j) 63.
Definition de_string (j : json) : result string := ok_or (as_str j) 64.
Definition de_vec {A} (f : json -> result A) (j : json) : result (list A) := match j with JArr l => mapM f l | _ => RErr 65 end.

(* a struct field from an object: required, or with a default when the key is absent *)
Definition req {A} (f : json -> result A) (name : string) (o : list (string * json)) : result A :=
  match assoc name o with Some v => f v | None => RErr 66 end.
Definition opt {A} (f : json -> result A) (name : string) (o : list (string * json)) (d : A) : result A :=
  match assoc name o with Some v => f v | None => ROk d end.
(* ... and from an array, positionally *)
Definition req_at {A} (f : json -> result A) (i : nat) (l : list json) : result A :=
  match nth_error l i with Some v => f v | None => RErr 67 end.
Definition opt_at {A} (f : json -> result A) (i : nat) (l : list json) (d : A) : result A :=
  match nth_error l i with Some v => f v | None => ROk d end.

Definition de_choice (j : json) : result schoice :=
  match j with
  | JObj o => let* c := req de_usize "course" o in let* p := req de_u32 "penalty" o in ROk {| sc_course := c; sc_pen := p |}
  | JArr l => let* c := req_at de_usize 0 l in let* p := req_at de_u32 1 l in
              if 2 <? List.length l then RErr 68 else ROk {| sc_course := c; sc_pen := p |}
  | _ => RErr 69
  end.
Definition de_part (j : json) : result spart :=
  match j with
  | JObj o => let* n := req de_string "name" o in let* ch := req (de_vec de_choice) "choices" o in ROk {| sp_name := n; sp_choices := ch |}
  | JArr l => let* n := req_at de_string 0 l in let* ch := req_at (de_vec de_choice) 1 l in
              if 2 <? List.length l then RErr 68 else ROk {| sp_name := n; sp_choices := ch |}
  | _ => RErr 69
  end.
Definition de_course (j : json) : result scourse :=
  match j with
  | JObj o =>
      let* n := req de_string "name" o in let* mx := req de_usize "num_max" o in let* mn := req de_usize "num_min" o in
      let* ins := req (de_vec de_usize) "instructors" o in
      let* fa := opt (fun v => let* x := de_f32 v in ROk (Some x)) "room_factor" o None in
      let* of := opt (fun v => let* x := de_f32 v in ROk (Some x)) "room_offset" o None in
      let* fx := opt de_bool "fixed_course" o false in
      let* hid := opt (de_vec de_string) "hidden_participant_names" o [] in
      ROk {| so_name := n; so_max := mx; so_min := mn; so_instr := ins; so_factor := fa; so_offset := of; so_fixed := fx; so_hidden := hid |}
  | JArr l =>
      let* n := req_at de_string 0 l in let* mx := req_at de_usize 1 l in let* mn := req_at de_usize 2 l in
      let* ins := req_at (de_vec de_usize) 3 l in
      let* fa := opt_at (fun v => let* x := de_f32 v in ROk (Some x)) 4 l None in
      let* of := opt_at (fun v => let* x := de_f32 v in ROk (Some x)) 5 l None in
      let* fx := opt_at de_bool 6 l false in
      let* hid := opt_at (de_vec de_string) 7 l [] in
      if 8 <? List.length l then RErr 68 else
      ROk {| so_name := n; so_max := mx; so_min := mn; so_instr := ins; so_factor := fa; so_offset := of; so_fixed := fx; so_hidden := hid |}
  | _ => RErr 69
  end.

Definition simple_read (data : json) : result (list spart * list scourse) :=
  let* pd := ok_or (get "participants" data) 70 in
  let* ps := de_vec de_part pd in
  let* cd := ok_or (get "courses" data) 71 in
  let* cs := de_vec de_course cd in
  ROk (ps, cs).

(* io::check_data_consistency (with the penalty bound of fix 39561cd, the instructor-uniqueness check of a385a72 and the size bound) *)
(* the matching matrix has one row per participant / course place; i32::MAX / WEIGHT_OFFSET - 2 rows at most (third fix) *)
Definition max_rows : Z := (2147483647 / WEIGHT_OFFSET - 2)%Z.
Fixpoint nodupz (l : list Z) : bool := match l with [] => true | x :: t => negb (existsb (Z.eqb x) t) && nodupz t end.
Definition consistentb (ps : list spart) (cs : list scourse) : bool :=
  forallb (fun p => forallb (fun ch => (sc_course ch <? Z.of_nat (List.length cs))%Z && (sc_pen ch <? WEIGHT_OFFSET)%Z) (sp_choices p)) ps &&
  forallb (fun c => forallb (fun i => (i <? Z.of_nat (List.length ps))%Z) (so_instr c) && (so_min c <=? so_max c)%Z) cs &&
  nodupz (flat_map so_instr cs) &&
  (Z.of_nat (List.length ps) + fold_right Z.add 0%Z (map so_max cs) <=? max_rows)%Z.
Lemma nodupz_NoDup l : nodupz l = true -> NoDup l.
Proof.
  induction l as [|x t IH]; simpl; intros H; [constructor|]. apply andb_prop in H. destruct H as [H1 H2]. constructor; [|apply IH; exact H2].
  intros Hin. apply negb_true_iff in H1. assert (existsb (Z.eqb x) t = true) by (apply existsb_exists; exists x; split; [exact Hin|apply Z.eqb_refl]). congruence.
Qed.

(* what main.rs makes of an input document: refused (exit status 65) unless it parses, is consistent and has a participant *)
Definition simple_accepts (data : json) : bool :=
  match simple_read data with
  | ROk (ps, cs) => consistentb ps cs && negb (match ps with [] => true | _ => false end)
  | RErr _ => false
  end.

(* ------------------------------------------------------------------ theorems *)
Lemma mapM_In {A B} (f : A -> result B) : forall l r b, mapM f l = ROk r -> In b r -> exists a, In a l /\ f a = ROk b.
Proof.
  induction l as [|x t IH]; intros r b Hr Hb; simpl in Hr.
  - inversion Hr; subst. destruct Hb.
  - destruct (f x) as [y|] eqn:Ex; [|discriminate]. simpl in Hr. destruct (mapM f t) as [ys|] eqn:Et; [|discriminate]. simpl in Hr.
    inversion Hr; subst. destruct Hb as [<-|Hb]; [exists x; split; [left; reflexivity|exact Ex]|].
    destruct (IH ys b eq_refl Hb) as (a & Ha & Hf). exists a. split; [right; exact Ha|exact Hf].
Qed.
Lemma de_vec_In {A} (f : json -> result A) j r b : de_vec f j = ROk r -> In b r -> exists a, f a = ROk b.
Proof. destruct j; try discriminate. simpl. intros Hr Hb. destruct (mapM_In f l r b Hr Hb) as (a & _ & Ha). eauto. Qed.
Lemma de_usize_nonneg j z : de_usize j = ROk z -> (0 <= z)%Z.
Proof.
  unfold de_usize, as_u64. destruct j; try discriminate. destruct ((0 <=? z0)%Z && (z0 <? 18446744073709551616)%Z) eqn:E; [|discriminate].
  simpl. intros H. inversion H; subst. apply andb_prop in E. destruct E as [E _]. apply Z.leb_le. exact E.
Qed.
Lemma de_u32_nonneg j z : de_u32 j = ROk z -> (0 <= z)%Z.
Proof.
  unfold de_u32. destruct j; try discriminate. destruct ((0 <=? z0)%Z && (z0 <? 4294967296)%Z) eqn:E; [|discriminate].
  intros H. inversion H; subst. apply andb_prop in E. destruct E as [E _]. apply Z.leb_le. exact E.
Qed.
Lemma req_ok {A} (f : json -> result A) name o a : req f name o = ROk a -> exists v, f v = ROk a.
Proof. unfold req. destruct (assoc name o); [eauto|discriminate]. Qed.
Lemma req_at_ok {A} (f : json -> result A) i l a : req_at f i l = ROk a -> exists v, f v = ROk a.
Proof. unfold req_at. destruct (nth_error l i); [eauto|discriminate]. Qed.

Lemma de_choice_nonneg j ch : de_choice j = ROk ch -> (0 <= sc_course ch)%Z /\ (0 <= sc_pen ch)%Z.
Proof.
  unfold de_choice. destruct j as [| | | | | |l|o]; try discriminate.
  - destruct (req_at de_usize 0 l) as [c|] eqn:Ec; [|discriminate]. cbn [bind]. destruct (req_at de_u32 1 l) as [p|] eqn:Ep; [|discriminate]. cbn [bind].
    destruct (2 <? List.length l); [discriminate|]. intros H. inversion H; subst. simpl.
    destruct (req_at_ok _ _ _ _ Ec) as (v & Hv). destruct (req_at_ok _ _ _ _ Ep) as (w & Hw). split; [eapply de_usize_nonneg; eauto|eapply de_u32_nonneg; eauto].
  - destruct (req de_usize "course" o) as [c|] eqn:Ec; [|discriminate]. cbn [bind]. destruct (req de_u32 "penalty" o) as [p|] eqn:Ep; [|discriminate]. cbn [bind].
    intros H. inversion H; subst. simpl.
    destruct (req_ok _ _ _ _ Ec) as (v & Hv). destruct (req_ok _ _ _ _ Ep) as (w & Hw). split; [eapply de_usize_nonneg; eauto|eapply de_u32_nonneg; eauto].
Qed.
Lemma de_part_nonneg j p ch : de_part j = ROk p -> In ch (sp_choices p) -> (0 <= sc_course ch)%Z /\ (0 <= sc_pen ch)%Z.
Proof.
  unfold de_part. destruct j as [| | | | | |l|o]; try discriminate.
  - destruct (req_at de_string 0 l) as [n|]; [|discriminate]. cbn [bind]. destruct (req_at (de_vec de_choice) 1 l) as [chs|] eqn:Ec; [|discriminate]. cbn [bind].
    destruct (2 <? List.length l); [discriminate|]. intros H Hin. inversion H; subst. simpl in Hin.
    destruct (req_at_ok _ _ _ _ Ec) as (v & Hv). destruct (de_vec_In _ _ _ _ Hv Hin) as (a & Ha). apply (de_choice_nonneg a ch Ha).
  - destruct (req de_string "name" o) as [n|]; [|discriminate]. cbn [bind]. destruct (req (de_vec de_choice) "choices" o) as [chs|] eqn:Ec; [|discriminate]. cbn [bind].
    intros H Hin. inversion H; subst. simpl in Hin.
    destruct (req_ok _ _ _ _ Ec) as (v & Hv). destruct (de_vec_In _ _ _ _ Hv Hin) as (a & Ha). apply (de_choice_nonneg a ch Ha).
Qed.
Lemma de_course_nonneg j c : de_course j = ROk c -> (0 <= so_min c)%Z /\ forall i, In i (so_instr c) -> (0 <= i)%Z.
Proof.
  unfold de_course. destruct j as [| | | | | |l|o]; try discriminate.
  - destruct (req_at de_string 0 l) as [n|]; [|discriminate]. cbn [bind]. destruct (req_at de_usize 1 l) as [mx|]; [|discriminate]. cbn [bind].
    destruct (req_at de_usize 2 l) as [mn|] eqn:Emn; [|discriminate]. cbn [bind].
    destruct (req_at (de_vec de_usize) 3 l) as [ins|] eqn:Ei; [|discriminate]. cbn [bind].
    destruct (opt_at _ 4 l None) as [fa|]; [|discriminate]. cbn [bind]. destruct (opt_at _ 5 l None) as [of|]; [|discriminate]. cbn [bind].
    destruct (opt_at de_bool 6 l false) as [fx|]; [|discriminate]. cbn [bind]. destruct (opt_at (de_vec de_string) 7 l []) as [hid|]; [|discriminate]. cbn [bind].
    destruct (8 <? List.length l); [discriminate|]. intros H. inversion H; subst. simpl.
    destruct (req_at_ok _ _ _ _ Emn) as (v & Hv). split; [eapply de_usize_nonneg; eauto|].
    intros i Hi. destruct (req_at_ok _ _ _ _ Ei) as (w & Hw). destruct (de_vec_In _ _ _ _ Hw Hi) as (a & Ha). eapply de_usize_nonneg; eauto.
  - destruct (req de_string "name" o) as [n|]; [|discriminate]. cbn [bind]. destruct (req de_usize "num_max" o) as [mx|]; [|discriminate]. cbn [bind].
    destruct (req de_usize "num_min" o) as [mn|] eqn:Emn; [|discriminate]. cbn [bind].
    destruct (req (de_vec de_usize) "instructors" o) as [ins|] eqn:Ei; [|discriminate]. cbn [bind].
    destruct (opt _ "room_factor" o None) as [fa|]; [|discriminate]. cbn [bind]. destruct (opt _ "room_offset" o None) as [of|]; [|discriminate]. cbn [bind].
    destruct (opt de_bool "fixed_course" o false) as [fx|]; [|discriminate]. cbn [bind].
    destruct (opt (de_vec de_string) "hidden_participant_names" o []) as [hid|]; [|discriminate]. cbn [bind].
    intros H. inversion H; subst. simpl.
    destruct (req_ok _ _ _ _ Emn) as (v & Hv). split; [eapply de_usize_nonneg; eauto|].
    intros i Hi. destruct (req_ok _ _ _ _ Ei) as (w & Hw). destruct (de_vec_In _ _ _ _ Hw Hi) as (a & Ha). eapply de_usize_nonneg; eauto.
Qed.

(* whatever is accepted has all cross references in range, sane size limits and penalties that fit the score arithmetic *)
Theorem accepted_is_consistent data ps cs : simple_read data = ROk (ps, cs) -> consistentb ps cs = true ->
  (forall p ch, In p ps -> In ch (sp_choices p) -> (0 <= sc_course ch < Z.of_nat (List.length cs))%Z /\ (0 <= sc_pen ch < WEIGHT_OFFSET)%Z) /\
  (forall c i, In c cs -> In i (so_instr c) -> (0 <= i < Z.of_nat (List.length ps))%Z) /\
  (forall c, In c cs -> (0 <= so_min c <= so_max c)%Z) /\
  NoDup (flat_map so_instr cs).
Proof.
  unfold simple_read. destruct (ok_or (get "participants" data) 70) as [pd|]; [|discriminate]. cbn [bind].
  destruct (de_vec de_part pd) as [ps0|] eqn:Ep; [|discriminate]. cbn [bind].
  destruct (ok_or (get "courses" data) 71) as [cd|]; [|discriminate]. cbn [bind].
  destruct (de_vec de_course cd) as [cs0|] eqn:Ec; [|discriminate]. cbn [bind].
  intros H Hc. inversion H; subst ps0 cs0. clear H. unfold consistentb in Hc. apply andb_prop in Hc. destruct Hc as [Hc _].
  apply andb_prop in Hc. destruct Hc as [Hc H3]. apply andb_prop in Hc. destruct Hc as [H1 H2].
  rewrite forallb_forall in H1, H2. split; [|split; [|split; [|apply nodupz_NoDup; exact H3]]].
  - intros p ch Hp Hch. destruct (de_vec_In _ _ _ _ Ep Hp) as (a & Ha). destruct (de_part_nonneg a p ch Ha Hch) as [N1 N2].
    specialize (H1 p Hp). rewrite forallb_forall in H1. specialize (H1 ch Hch). apply andb_prop in H1. destruct H1 as [L1 L2].
    apply Z.ltb_lt in L1. apply Z.ltb_lt in L2. lia.
  - intros c i Hcc Hi. destruct (de_vec_In _ _ _ _ Ec Hcc) as (a & Ha). destruct (de_course_nonneg a c Ha) as [_ N].
    specialize (H2 c Hcc). apply andb_prop in H2. destruct H2 as [H2 _]. rewrite forallb_forall in H2. specialize (H2 i Hi). apply Z.ltb_lt in H2.
    specialize (N i Hi). lia.
  - intros c Hcc. destruct (de_vec_In _ _ _ _ Ec Hcc) as (a & Ha). destruct (de_course_nonneg a c Ha) as [N _].
    specialize (H2 c Hcc). apply andb_prop in H2. destruct H2 as [_ H2]. apply Z.leb_le in H2. lia.
Qed.

(* a refused document never reaches the solver: with the exit-status skeleton of main.rs (Cli) it ends with status 65 *)
Theorem refused_not_accepted data : (exists code, simple_read data = RErr code) -> simple_accepts data = false.
Proof. intros (code & H). unfold simple_accepts. rewrite H. reflexivity. Qed.

(* the size clause of the consistency check *)
Lemma consistent_rows ps cs : consistentb ps cs = true -> (Z.of_nat (List.length ps) + fold_right Z.add 0 (map so_max cs) <= max_rows)%Z.
Proof. unfold consistentb. intros H. apply andb_prop in H. destruct H as [_ H]. apply Z.leb_le. exact H. Qed.

(* ---------------------------------------------------------------- the rooms file (io::rooms::read) and the --rooms option *)
(* CourseRoomKind { name, capacity, quantity } by serde's derived Deserialize; at most MAX_NUM_ROOMS rooms in total (fix 0d4135b).
   A kind is (name, capacity, quantity); the sorted order and the expansion to the room list are RoomsModel.kinds_read / rooms_of_kinds. *)
Definition max_num_rooms : Z := 100000%Z.
Definition de_kind (j : json) : result (string * Z * Z) :=
  match j with
  | JObj o => let* n := req de_string "name" o in let* c := req de_usize "capacity" o in let* q := req de_usize "quantity" o in ROk (n, c, q)
  | JArr l => let* n := req_at de_string 0 l in let* c := req_at de_usize 1 l in let* q := req_at de_usize 2 l in
              if 3 <? List.length l then RErr 68 else ROk (n, c, q)
  | _ => RErr 69
  end.
Definition rooms_file_read (j : json) : result (list (string * Z * Z)) :=
  let* ks := de_vec de_kind j in
  if (fold_right Z.add 0%Z (map (fun k : string * Z * Z => snd k) ks) <=? max_num_rooms)%Z then ROk ks else RErr 72.

(* --rooms "a,b,c": every comma-separated piece must be a usize in Rust's FromStr syntax (optional '+', decimal digits, < 2^64) *)
Fixpoint split_comma (s : string) (cur : string) : list string :=
  match s with
  | EmptyString => [cur]
  | String c t => if Ascii.eqb c ","%char then cur :: split_comma t EmptyString else split_comma t (cur ++ String c EmptyString)%string
  end.
Definition rooms_option_read (s : string) : result (list Z) := mapM (fun piece => ok_or (parse_u64 piece) 73) (split_comma s EmptyString).

Theorem rooms_file_bounded j ks : rooms_file_read j = ROk ks ->
  (fold_right Z.add 0 (map (fun k : string * Z * Z => snd k) ks) <= max_num_rooms)%Z /\
  forall n c q, In (n, c, q) ks -> (0 <= c)%Z /\ (0 <= q)%Z.
Proof.
  unfold rooms_file_read. destruct (de_vec de_kind j) as [ks0|] eqn:E; [|discriminate]. cbn [bind].
  destruct (_ <=? max_num_rooms)%Z eqn:El; [|discriminate]. intros H. inversion H; subst ks0. split; [apply Z.leb_le; exact El|].
  intros n c q Hin. destruct (de_vec_In _ _ _ _ E Hin) as (a & Ha). unfold de_kind in Ha. destruct a as [| | | | | |l|o]; try discriminate.
  - destruct (req_at de_string 0 l) as [n0|]; [|discriminate]. cbn [bind] in Ha. destruct (req_at de_usize 1 l) as [c0|] eqn:Ec; [|discriminate]. cbn [bind] in Ha.
    destruct (req_at de_usize 2 l) as [q0|] eqn:Eq; [|discriminate]. cbn [bind] in Ha. destruct (3 <? List.length l); [discriminate|]. inversion Ha; subst.
    destruct (req_at_ok _ _ _ _ Ec) as (v & Hv). destruct (req_at_ok _ _ _ _ Eq) as (w & Hw). split; eapply de_usize_nonneg; eauto.
  - destruct (req de_string "name" o) as [n0|]; [|discriminate]. cbn [bind] in Ha. destruct (req de_usize "capacity" o) as [c0|] eqn:Ec; [|discriminate]. cbn [bind] in Ha.
    destruct (req de_usize "quantity" o) as [q0|] eqn:Eq; [|discriminate]. cbn [bind] in Ha. inversion Ha; subst.
    destruct (req_ok _ _ _ _ Ec) as (v & Hv). destruct (req_ok _ _ _ _ Eq) as (w & Hw). split; eapply de_usize_nonneg; eauto.
Qed.
