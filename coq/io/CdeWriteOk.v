(* C05 at file level (model): for the problem the reader built, with pairwise distinct registration and course ids, the import file that
   the writer model produces from ANY hard-feasible assignment passes the executable consistency check Cde.import_okb -- the very check
   that is evaluated on every import file the real binary writes. *)
From Coq Require Import List ZArith Lia Bool Arith String.
Require Import HP1 Cao1 Cao3 Spec Valid Json Cde CdeThms.
Import ListNotations.
Open Scope nat_scope.

(* ---------------------------------------------------------------- generic *)
Lemma znodup_complete : forall l, NoDup l -> znodup l = true.
Proof.
  induction l as [|x t IH]; intros H; [reflexivity|]. inversion H as [|? ? Hx Ht]; subst. simpl. rewrite (IH Ht), andb_true_r.
  apply negb_true_iff. destruct (existsb (Z.eqb x) t) eqn:E; [|reflexivity]. apply existsb_exists in E. destruct E as (y & Hy & E).
  apply Z.eqb_eq in E. subst y. contradiction.
Qed.

Lemma index_where_key {A} (key : A -> Z) (d : A) : forall l s i, NoDup (map key l) -> i < List.length l ->
  index_where (fun x => (key x =? key (nth i l d))%Z) l s = Some (s + i).
Proof.
  induction l as [|x t IH]; intros s i Hn Hi; [simpl in Hi; lia|]. simpl in Hn. inversion Hn as [|? ? Hx Ht]; subst. simpl.
  destruct i as [|i].
  - rewrite Z.eqb_refl. f_equal. lia.
  - destruct (Z.eqb_spec (key x) (key (nth i t d))) as [E|E].
    + exfalso. apply Hx. rewrite E. apply in_map. apply nth_In. simpl in Hi. lia.
    + rewrite (IH (S s) i Ht ltac:(simpl in Hi; lia)). f_equal. lia.
Qed.

Lemma zfind_key {A B} (key : A -> Z) (val : A -> B) : forall l x, NoDup (map key l) -> In x l ->
  zfind (key x) (map (fun y => (key y, val y)) l) = Some (val x).
Proof.
  induction l as [|y t IH]; intros x Hn Hin; [destruct Hin|]. simpl in Hn. inversion Hn as [|? ? Hy Ht]; subst. simpl.
  destruct Hin as [->|Hin]; [rewrite Z.eqb_refl; reflexivity|].
  destruct (Z.eqb_spec (key x) (key y)) as [E|E]; [exfalso; apply Hy; rewrite <- E; apply in_map; exact Hin|apply IH; assumption].
Qed.

Lemma key_inj {A} (key : A -> Z) (d : A) l i j : NoDup (map key l) -> i < List.length l -> j < List.length l -> key (nth i l d) = key (nth j l d) -> i = j.
Proof.
  intros Hn Hi Hj E. pose proof (index_where_key key d l 0 i Hn Hi) as H1. pose proof (index_where_key key d l 0 j Hn Hj) as H2.
  rewrite E in H1. rewrite H1 in H2. inversion H2. lia.
Qed.

Lemma filter_flat_map_single {A B} (F : A -> option B) (G : B -> bool) : forall l,
  List.length (filter G (flat_map (fun x => match F x with Some y => [y] | None => [] end) l)) =
  List.length (filter (fun x => match F x with Some y => G y | None => false end) l).
Proof. induction l as [|x t IH]; [reflexivity|]. simpl. destruct (F x) as [y|]; simpl; [destruct (G y); simpl; rewrite IH; reflexivity|exact IH]. Qed.

Section W.
Variables (ps : list rpart) (cs : list rcourse).
Let courses := map to_course cs.
Let parts := map to_part ps.
Hypothesis NDp : NoDup (map rp_dbid ps).
Hypothesis NDc : NoDup (map rc_dbid cs).
Variables (K : nat -> bool) (a : assignment).
Hypothesis H : HardOK_K courses parts K a.
Hypothesis HK : forall c, K c = true -> c < nc courses /\ c_fixed (crs courses c) = false.
Hypothesis Hone : forall p c c', c < nc courses -> c' < nc courses -> instructs courses p c = true -> instructs courses p c' = true -> c = c'.

Let dp : rpart := {| rp_dbid := 0; rp_name := ""; rp_choices := [] |}.
Let pid (p : nat) : Z := rp_dbid (nth p ps dp).
Let cid (c : nat) : Z := rc_dbid (nth c cs dflt_c).
Let regs := write_regs a ps cs.
Let crsf := write_courses a cs.

Lemma np_len : np parts = List.length ps. Proof. unfold np, parts. apply map_length. Qed.
Lemma nc_len : nc courses = List.length cs. Proof. unfold nc, courses. apply map_length. Qed.
Lemma a_len : List.length a = List.length ps. Proof. rewrite (h_len _ _ _ _ H). apply np_len. Qed.
Lemma crs_nth c : crs courses c = to_course (nth c cs dflt_c).
Proof. unfold crs, courses. change {| c_min := 0; c_max := 0; c_instr := []; c_fixed := false |} with (to_course dflt_c). apply map_nth. Qed.
Lemma prt_nth p : prt parts p = to_part (nth p ps dp).
Proof. unfold prt, parts. change {| p_choices := [] |} with (to_part dp). apply map_nth. Qed.

Lemma pidx_pid p : p < List.length ps -> index_where (fun q => (rp_dbid q =? pid p)%Z) ps 0 = Some p.
Proof. intros Hp. apply (index_where_key rp_dbid dp ps 0 p NDp Hp). Qed.
Lemma cidx_cid c : c < List.length cs -> index_where (fun q => (rc_dbid q =? cid c)%Z) cs 0 = Some c.
Proof. intros Hc. apply (index_where_key rc_dbid dflt_c cs 0 c NDc Hc). Qed.

Lemma in_regs r : In r regs <-> exists p c, p < List.length ps /\ getO a p = Some c /\ r = (pid p, cid c).
Proof.
  unfold regs, write_regs. rewrite in_flat_map. split.
  - intros (p & Hp & Hr). apply in_seq in Hp. rewrite a_len in Hp. destruct (getO a p) as [c|] eqn:E; [|destruct Hr]. destruct Hr as [<-|[]].
    exists p, c. split; [lia|]. split; [exact E|reflexivity].
  - intros (p & c & Hp & Ha & ->). exists p. split; [apply in_seq; rewrite a_len; lia|]. rewrite Ha. left. reflexivity.
Qed.
Lemma assigned_rng p c : p < List.length ps -> getO a p = Some c -> c < List.length cs.
Proof. intros Hp Ha. rewrite <- nc_len. apply (h_rng _ _ _ _ H p c); [rewrite np_len; exact Hp|exact Ha]. Qed.

Lemma flag_of c : c < List.length cs -> zfind (cid c) crsf = Some ((0 <? size_of a c) || rc_fixed (nth c cs dflt_c)).
Proof.
  intros Hc. unfold crsf, write_courses.
  apply (zfind_key cid (fun c0 => (0 <? size_of a c0) || rc_fixed (nth c0 cs dflt_c)) (seq 0 (List.length cs)) c); [|apply in_seq; lia].
  unfold cid. rewrite <- map_map. rewrite <- (list_as_map dflt_c cs). exact NDc.
Qed.

(* ---- the conjuncts of import_okb ---- *)
Lemma regs_fst : map fst regs = map pid (filter (fun p => match getO a p with Some _ => true | None => false end) (seq 0 (List.length ps))).
Proof.
  unfold regs, write_regs. rewrite a_len. induction (seq 0 (List.length ps)) as [|p t IH]; [reflexivity|].
  cbn [flat_map filter]. destruct (getO a p); cbn [map app fst]; rewrite IH; reflexivity.
Qed.
Lemma regs_fst_nodup : NoDup (map fst regs).
Proof.
  rewrite regs_fst. apply HP5.NoDup_map_inj_in; [apply NoDup_filter, seq_NoDup|].
  intros x y Hx Hy Exy. apply filter_In in Hx, Hy. destruct Hx as [Hx _], Hy as [Hy _]. apply in_seq in Hx, Hy.
  apply (key_inj rp_dbid dp ps x y NDp); [lia|lia|exact Exy].
Qed.
Lemma crs_fst : map fst crsf = map rc_dbid cs.
Proof. unfold crsf, write_courses. rewrite map_map. cbn [fst]. rewrite <- map_map. rewrite <- (list_as_map dflt_c cs). reflexivity. Qed.

Lemma memb_instr p c : existsb (Nat.eqb p) (rc_instr (nth c cs dflt_c)) = instructs courses p c.
Proof. unfold instructs, memb. rewrite crs_nth. reflexivity. Qed.
Lemma choice_has p c : existsb (fun ch : nat * nat => Nat.eqb (fst ch) c) (rp_choices (nth p ps dp)) = has_choice parts p c.
Proof.
  unfold has_choice. rewrite prt_nth. unfold to_part. cbn [p_choices]. induction (rp_choices (nth p ps dp)) as [|ch t IH]; [reflexivity|].
  cbn [existsb map ch_course]. rewrite IH. reflexivity.
Qed.

Lemma reg_ok r : In r regs ->
  match index_where (fun q => (rp_dbid q =? fst r)%Z) ps 0, index_where (fun q => (rc_dbid q =? snd r)%Z) cs 0 with
  | Some p, Some c =>
      (match zfind (snd r) crsf with Some true => true | _ => false end) &&
      (existsb (fun ch : nat * nat => Nat.eqb (fst ch) c) (rp_choices (nth p ps dp)) || existsb (Nat.eqb p) (rc_instr (nth c cs dflt_c)))
  | _, _ => false end = true.
Proof.
  intros Hr. apply in_regs in Hr. destruct Hr as (p & c & Hp & Ha & ->). pose proof (assigned_rng p c Hp Ha) as Hc. cbn [fst snd].
  rewrite (pidx_pid p Hp), (cidx_cid c Hc), (flag_of c Hc), memb_instr, choice_has.
  destruct (assigned_ok courses parts K a H p c ltac:(rewrite np_len; exact Hp) Ha) as [Hact Hci]. unfold active in Hact. rewrite crs_nth in Hact. cbn [to_course c_fixed] in Hact.
  rewrite Hact. cbn [andb]. destruct Hci as [-> | ->]; [reflexivity|apply orb_true_r].
Qed.

(* the attendee count of the file = attendees of the assignment *)
Definition regF (p : nat) : option (Z * Z) := match getO a p with Some c0 => Some (pid p, cid c0) | None => None end.
Lemma regs_as_F : regs = flat_map (fun p => match regF p with Some y => [y] | None => [] end) (seq 0 (List.length ps)).
Proof.
  unfold regs, write_regs. rewrite a_len. apply flat_map_ext. intros p. unfold regF. destruct (getO a p); reflexivity.
Qed.
Lemma att_count c : c < List.length cs ->
  List.length (filter (fun r : Z * Z => (snd r =? cid c)%Z &&
      negb (match index_where (fun q => (rp_dbid q =? fst r)%Z) ps 0 with Some p => existsb (Nat.eqb p) (rc_instr (nth c cs dflt_c)) | None => false end)) regs) =
  attendees courses parts a c.
Proof.
  intros Hc. rewrite regs_as_F, filter_flat_map_single. unfold attendees. rewrite np_len. f_equal. apply filter_ext_in.
  intros p Hp. apply in_seq in Hp. unfold regF. destruct (getO a p) as [c0|] eqn:Ea; [|reflexivity]. cbn [fst snd].
  pose proof (assigned_rng p c0 ltac:(lia) Ea) as Hc0. rewrite (pidx_pid p ltac:(lia)), memb_instr. f_equal.
  destruct (Nat.eqb_spec c0 c) as [->|Hne]; [apply Z.eqb_refl|]. apply Z.eqb_neq. intros E. apply Hne.
  apply (key_inj rc_dbid dflt_c cs c0 c NDc Hc0 Hc E).
Qed.

Lemma course_ok c : c < List.length cs ->
  (let flag := (0 <? size_of a c) || rc_fixed (nth c cs dflt_c) in
   let rc := nth c cs dflt_c in
   let att := List.length (filter (fun r : Z * Z => (snd r =? cid c)%Z &&
      negb (match index_where (fun q => (rp_dbid q =? fst r)%Z) ps 0 with Some p => existsb (Nat.eqb p) (rc_instr rc) | None => false end)) regs) in
   if flag then (Z.to_nat (rc_min rc) <=? att) && (att <=? Z.to_nat (rc_max rc))
   else negb (existsb (fun r : Z * Z => (snd r =? cid c)%Z) regs) && negb (rc_fixed rc)) = true.
Proof.
  intros Hc. cbv zeta. rewrite (att_count c Hc).
  assert (Hact : active courses a c = (0 <? size_of a c) || rc_fixed (nth c cs dflt_c)) by (unfold active; rewrite crs_nth; reflexivity).
  destruct ((0 <? size_of a c) || rc_fixed (nth c cs dflt_c)) eqn:Ef.
  - pose proof (active_sizes courses parts K a H HK c ltac:(rewrite nc_len; exact Hc) Hact) as [L1 L2]. rewrite crs_nth in L1, L2. cbn [to_course c_min c_max] in L1, L2.
    apply andb_true_iff. split; apply Nat.leb_le; assumption.
  - apply orb_false_iff in Ef. destruct Ef as [Es Efx]. rewrite Efx. cbn [negb andb]. rewrite andb_true_r. apply negb_true_iff.
    destruct (existsb (fun r : Z * Z => (snd r =? cid c)%Z) regs) eqn:Ex; [|reflexivity]. exfalso.
    apply existsb_exists in Ex. destruct Ex as (r & Hr & Er). apply in_regs in Hr. destruct Hr as (p & c0 & Hp & Ha & ->). cbn [snd] in Er. apply Z.eqb_eq in Er.
    pose proof (assigned_rng p c0 Hp Ha) as Hc0. assert (c0 = c) by (apply (key_inj rc_dbid dflt_c cs c0 c NDc Hc0 Hc Er)). subst c0.
    apply (inactive_empty courses parts K a H c p); [exact Hact|rewrite np_len; exact Hp|exact Ha].
Qed.

Theorem written_file_ok : import_okb ps cs (write_regs a ps cs) (write_courses a cs) = true.
Proof.
  unfold import_okb. fold regs crsf. fold dp.
  repeat (apply andb_true_iff; split).
  - apply znodup_complete, regs_fst_nodup.
  - apply znodup_complete. rewrite crs_fst. exact NDc.
  - apply forallb_forall. intros r Hr. apply in_regs in Hr. destruct Hr as (p & c & Hp & Ha & ->). cbn [fst]. rewrite (pidx_pid p Hp). reflexivity.
  - apply forallb_forall. intros e He. unfold crsf, write_courses in He. apply in_map_iff in He. destruct He as (c & <- & Hc). apply in_seq in Hc. cbn [fst].
    fold (cid c). rewrite (cidx_cid c ltac:(lia)). reflexivity.
  - apply forallb_forall. intros r Hr. apply (reg_ok r Hr).
  - apply forallb_forall. intros e He. unfold crsf, write_courses in He. apply in_map_iff in He. destruct He as (c & <- & Hc). apply in_seq in Hc. cbn [fst snd].
    fold (cid c). rewrite (cidx_cid c ltac:(lia)). apply (course_ok c ltac:(lia)).
  - apply forallb_forall. intros rc Hrc. destruct (In_nth cs rc dflt_c Hrc) as (c & Hc & <-). fold (cid c). rewrite (flag_of c Hc). reflexivity.
Qed.
End W.
