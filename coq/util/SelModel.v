(* Model of util.rs: k-subset iterator (KSelectionIterator) and binom.  Definitions only; proofs are in SelProofs.v *)
From Coq Require Import List Arith Lia Bool NArith.
Import ListNotations.

(* Pascal's triangle: the mathematical binomial coefficient used in the specification *)
Fixpoint C (n k : nat) : nat :=
  match n, k with
  | _, 0 => 1
  | 0, S _ => 0
  | S n', S k' => C n' k' + C n' (S k')
  end.

(* --- KSelectionIterator::next, index update part (the loop over j with its two exits and the prefix reset) --- *)
(* l = suffix of the index vector starting at position pos *)
Fixpoint step (n pos : nat) (l : list nat) : option (list nat) :=
  match l with
  | [] => None
  | a :: t =>
    match t with
    | [] => if n - 1 <=? a then None else Some [S a]
    | b :: _ => if a <? b - 1 then Some (S a :: t)
                else match step n (S pos) t with None => None | Some t' => Some (pos :: t') end
    end
  end.

Fixpoint rank (pos : nat) (l : list nat) : nat :=
  match l with [] => 0 | a :: t => C a (S pos) + rank (S pos) t end.

Fixpoint incr (l : list nat) : Prop :=
  match l with a :: ((b :: _) as t) => a < b /\ incr t | _ => True end.

Definition hd0 (l : list nat) := hd 0 l.

(* all index vectors the iterator yields, starting from idx (already yielded) *)
Fixpoint iter (fuel n : nat) (idx : list nat) : list (list nat) :=
  idx :: match fuel with O => [] | S f => match step n 0 idx with None => [] | Some idx' => iter f n idx' end end.

Definition valid (n k : nat) (idx : list nat) := length idx = k /\ incr idx /\ Forall (fun a => a < n) idx.

Definition selections (n k : nat) : list (list nat) :=
  if (k =? 0) || (n <? k) then [] else iter (C n k) n (seq 0 k).

(* --- binom: the multiply/divide loop of util.rs (since fix f71c4f2 over the smaller one of k and n - k) --- *)
Fixpoint binom_loop (n : nat) (i steps res : nat) : nat :=
  match steps with O => res | S s => binom_loop n (S i) s (res * (n - i) / (S i)) end.
Definition binom (n k : nat) : nat := if n <? k then 0 else binom_loop n 0 (Nat.min k (n - k)) 1.

(* the same loop with the machine arithmetic of the code: usize = 64 bit, the product in 128 bit, saturation at usize::MAX
   (None = the 128-bit product overflows: an arithmetic overflow panic of a debug build; impossible for n < 2^64, SelProofs) *)
Definition MAXU : N := 18446744073709551615.
Fixpoint binom_loop64 (n : N) (i : N) (steps : nat) (res : N) : option N :=
  match steps with
  | O => Some res
  | S s => let prod := (res * (n - i))%N in
           if (prod <? 340282366920938463463374607431768211456)%N
           then let next := (prod / N.succ i)%N in
                if (MAXU <? next)%N then Some MAXU else binom_loop64 n (N.succ i) s next
           else None
  end.
Definition binom64 (n k : N) : option N :=
  if (n <? k)%N then Some 0%N else binom_loop64 n 0%N (N.to_nat (N.min k (n - k))) 1%N.

(* --- the iterator as a state machine: state = the `index` field --- *)
Definition it_state := option (list nat).
Definition it_next (n k : nat) (st : it_state) : it_state * option (list nat) :=
  match st with
  | Some idx => match step n 0 idx with
                | None => (Some idx, None)
                | Some idx' => (Some idx', Some idx')
                end
  | None => if (k =? 0) || (n <? k) then (None, None) else (Some (seq 0 k), Some (seq 0 k))
  end.
(* size_hint: usize arithmetic; `binom(n,k) - rank - 1` is a checked subtraction (None = underflow panic) *)
Definition it_hint (n k : nat) (st : it_state) : option nat :=
  match st with
  | Some idx => let r := fold_left Nat.add (map (fun p => binom (snd p) (S (fst p))) (combine (seq 0 (length idx)) idx)) 0 in
                if binom n k <? r + 1 then None else Some (binom n k - r - 1)
  | None => Some (binom n k)
  end.
(* run the iterator to exhaustion, recording the hint before every call of next (including the final one that returns None) *)
Fixpoint it_run (fuel n k : nat) (st : it_state) : list (option nat) * list (list nat) :=
  match fuel with
  | O => ([it_hint n k st], [])
  | S f => match it_next n k st with
           | (st', Some v) => let '(hs, vs) := it_run f n k st' in (it_hint n k st :: hs, v :: vs)
           | (st', None) => ([it_hint n k st; it_hint n k st'], [])
           end
  end.

(* the same state machine with the hint computed in binary arithmetic (used by the correspondence run for larger n;
   SelProofs.it_runN_spec shows it is the image of it_run under N.of_nat) *)
Fixpoint binom_loopN (n i : N) (steps : nat) (res : N) : N :=
  match steps with O => res | S s => binom_loopN n (N.succ i) s (res * (n - i) / N.succ i)%N end.
Definition binomN (n k : nat) : N := if n <? k then 0%N else binom_loopN (N.of_nat n) 0%N (Nat.min k (n - k)) 1%N.
Definition it_hintN (n k : nat) (st : it_state) : option N :=
  match st with
  | Some idx => let r := fold_left N.add (map (fun p => binomN (snd p) (S (fst p))) (combine (seq 0 (length idx)) idx)) 0%N in
                if (binomN n k <? r + 1)%N then None else Some (binomN n k - r - 1)%N
  | None => Some (binomN n k)
  end.
Fixpoint it_runN (fuel n k : nat) (st : it_state) : list (option N) * list (list nat) :=
  match fuel with
  | O => ([it_hintN n k st], [])
  | S f => match it_next n k st with
           | (st', Some v) => let '(hs, vs) := it_runN f n k st' in (it_hintN n k st :: hs, v :: vs)
           | (st', None) => ([it_hintN n k st; it_hintN n k st'], [])
           end
  end.

(* the same enumeration with the fuel computed in binary arithmetic (C by Pascal's rule takes exponential time when k is close to n);
   SelProofs.selections_fast_eq: selections_fast = selections.  Used where the model is evaluated on wide instances. *)
Definition selections_fast (n k : nat) : list (list nat) :=
  if (k =? 0) || (n <? k) then [] else iter (N.to_nat (binomN n k)) n (seq 0 k).
