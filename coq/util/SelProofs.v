(* Proofs about SelModel.v (C20): the rank argument needs only Pascal's rule *)
From Coq Require Import List Arith Lia Bool NArith.
Require Import SelModel.
Import ListNotations.


Lemma C_0_r n : C n 0 = 1. Proof. destruct n; reflexivity. Qed.
Lemma C_pascal n k : C (S n) (S k) = C n k + C n (S k). Proof. reflexivity. Qed.
Lemma C_lt n : forall k, n < k -> C n k = 0.
Proof. induction n as [|n IH]; intros [|k] H; try lia; simpl; auto. rewrite !IH by lia. reflexivity. Qed.
Lemma C_diag n : C n n = 1.
Proof. induction n as [|n IH]; simpl; auto. rewrite IH, C_lt by lia. reflexivity. Qed.
Lemma C_mono n m k : n <= m -> C n k <= C m k.
Proof.
  intros H. induction H as [|m H IH]; [lia|].
  destruct k as [|k]; [rewrite !C_0_r; lia|]. rewrite C_pascal. lia.
Qed.
Lemma C_pos n k : k <= n -> 1 <= C n k.
Proof. intros H. rewrite <- (C_diag k). apply C_mono, H. Qed.


Lemma step_cons2 n pos a b t : step n pos (a :: b :: t) =
  if a <? b - 1 then Some (S a :: b :: t)
  else match step n (S pos) (b :: t) with None => None | Some t' => Some (pos :: t') end.
Proof. reflexivity. Qed.
Lemma step_single n pos a : step n pos [a] = if n - 1 <=? a then None else Some [S a].
Proof. reflexivity. Qed.

Lemma step_length n : forall l pos l', step n pos l = Some l' -> length l' = length l.
Proof.
  induction l as [|a t IH]; intros pos l' H; simpl in H; [discriminate|].
  destruct t as [|b t'].
  - destruct (n - 1 <=? a); inversion H; reflexivity.
  - destruct (a <? b - 1); [inversion H; reflexivity|].
    destruct (step n (S pos) (b :: t')) eqn:E; [|discriminate]. inversion H; subst.
    simpl. f_equal. apply (IH _ _ E).
Qed.

(* head of the successor is >= pos, and strictly above the position value that precedes it *)
Lemma step_hd n : forall l pos l', pos <= hd0 l -> step n pos l = Some l' -> pos <= hd0 l'.
Proof.
  intros [|a t] pos l' Hp H; simpl in *; [discriminate|].
  destruct t as [|b t'].
  - destruct (n - 1 <=? a); inversion H; subst; simpl; unfold hd0 in *; simpl in *; lia.
  - destruct (a <? b - 1); [inversion H; subst; unfold hd0 in *; simpl in *; lia|].
    destruct (step n (S pos) (b :: t')); inversion H; subst. unfold hd0; simpl; lia.
Qed.

Lemma step_rank n : forall l pos l', incr l -> pos <= hd0 l -> step n pos l = Some l' ->
  rank pos l' = rank pos l + C (hd0 l) pos /\ incr l'.
Proof.
  induction l as [|a t IH]; intros pos l' Hi Hp H; [discriminate|].
  destruct t as [|b t'].
  - simpl in H. destruct (n - 1 <=? a); inversion H; subst. split; [|exact I].
    unfold hd0; simpl. rewrite !Nat.add_0_r. destruct pos; simpl; rewrite ?C_0_r; lia.
  - rewrite step_cons2 in H. destruct Hi as [Hab Hi].
    destruct (a <? b - 1) eqn:Elt.
    + inversion H; subst. apply Nat.ltb_lt in Elt. split.
      * unfold hd0; cbn [rank hd]. rewrite C_pascal. lia.
      * cbn [incr]. split; [lia|exact Hi].
    + apply Nat.ltb_ge in Elt. assert (b = S a) by lia. subst b.
      destruct (step n (S pos) (S a :: t')) as [t''|] eqn:E; [|discriminate]. inversion H; subst.
      unfold hd0 in Hp; simpl in Hp.
      destruct (IH (S pos) t'' Hi ltac:(unfold hd0; simpl; lia) E) as [Hr Hi'].
      pose proof (step_hd n (S a :: t') (S pos) t'' ltac:(unfold hd0; simpl; lia) E) as Hh.
      split.
      * cbn [rank]. rewrite Hr. unfold hd0; cbn [hd rank].
        rewrite (C_lt pos (S pos)) by lia. rewrite (C_pascal a pos). lia.
      * destruct t'' as [|c t3]; [exact I|]. cbn [incr]. unfold hd0 in Hh; simpl in Hh. split; [lia|exact Hi'].
Qed.


Lemma step_bound n : forall l pos l', Forall (fun a => a < n) l -> incr l -> pos <= hd0 l ->
  step n pos l = Some l' -> Forall (fun a => a < n) l'.
Proof.
  induction l as [|a t IH]; intros pos l' Hf Hi Hp H; [discriminate|].
  destruct t as [|b t'].
  - rewrite step_single in H. destruct (n - 1 <=? a) eqn:E; inversion H; subst. apply Nat.leb_gt in E. constructor; [lia|constructor].
  - rewrite step_cons2 in H. destruct Hi as [Hab Hi]. inversion Hf as [|? ? Ha Hf']; subst.
    unfold hd0 in Hp; simpl in Hp.
    destruct (a <? b - 1) eqn:Elt.
    + inversion H; subst. apply Nat.ltb_lt in Elt. assert (b < n) by (inversion Hf'; assumption). constructor; [lia|assumption].
    + destruct (step n (S pos) (b :: t')) as [t''|] eqn:E; [|discriminate]. inversion H; subst.
      constructor; [lia|]. apply (IH (S pos) t'' Hf' Hi); [unfold hd0; simpl; lia|exact E].
Qed.

Lemma step_none_rank n : forall l pos, incr l -> Forall (fun a => a < n) l -> l <> [] ->
  step n pos l = None -> rank pos l + C (hd0 l) pos = C n (pos + length l).
Proof.
  induction l as [|a t IH]; intros pos Hi Hf Hne H; [congruence|].
  destruct t as [|b t'].
  - rewrite step_single in H. destruct (n - 1 <=? a) eqn:E; [|discriminate]. apply Nat.leb_le in E.
    inversion Hf; subst. assert (n = S a) by lia. subst n.
    unfold hd0; cbn [rank hd length]. rewrite Nat.add_0_r, Nat.add_1_r, C_pascal. lia.
  - rewrite step_cons2 in H. destruct Hi as [Hab Hi]. inversion Hf as [|? ? Ha Hf']; subst.
    destruct (a <? b - 1) eqn:Elt; [discriminate|]. apply Nat.ltb_ge in Elt. assert (b = S a) by lia. subst b.
    destruct (step n (S pos) (S a :: t')) eqn:E; [discriminate|].
    specialize (IH (S pos) Hi Hf' ltac:(discriminate) E).
    unfold hd0 in *; cbn [rank hd length] in *. rewrite (C_pascal a pos) in IH.
    replace (pos + S (S (length t'))) with (S pos + S (length t')) by lia. lia.
Qed.

Lemma rank_le n : forall l pos, incr l -> Forall (fun a => a < n) l -> l <> [] ->
  rank pos l + C (hd0 l) pos <= C n (pos + length l).
Proof.
  induction l as [|a t IH]; intros pos Hi Hf Hne; [congruence|].
  inversion Hf as [|? ? Ha Hf']; subst.
  destruct t as [|b t'].
  - unfold hd0; cbn [rank hd length]. rewrite Nat.add_0_r, Nat.add_1_r.
    pose proof (C_mono (S a) n (S pos) ltac:(lia)) as Hm. rewrite C_pascal in Hm. lia.
  - destruct Hi as [Hab Hi].
    specialize (IH (S pos) Hi Hf' ltac:(discriminate)).
    unfold hd0 in *; cbn [rank hd length] in *.
    replace (pos + S (S (length t'))) with (S pos + S (length t')) by lia.
    pose proof (C_mono (S a) b (S pos) ltac:(lia)) as Hm. rewrite C_pascal in Hm. lia.
Qed.


Lemma iter_ranks n k : 1 <= k -> forall fuel idx, valid n k idx -> C n k <= rank 0 idx + S fuel ->
  map (rank 0) (iter fuel n idx) = seq (rank 0 idx) (C n k - rank 0 idx) /\ Forall (valid n k) (iter fuel n idx).
Proof.
  intros Hk. induction fuel as [|f IH]; intros idx (Hl & Hi & Hf) Hfuel.
  - assert (Hne : idx <> []) by (destruct idx; simpl in *; [lia|discriminate]).
    pose proof (rank_le n idx 0 Hi Hf Hne) as Hb. rewrite C_0_r in Hb. simpl in Hb. rewrite Hl in Hb.
    assert (C n k - rank 0 idx = 1) as -> by lia. simpl. split; [reflexivity|]. repeat constructor; assumption.
  - assert (Hne : idx <> []) by (destruct idx; simpl in *; [lia|discriminate]).
    pose proof (rank_le n idx 0 Hi Hf Hne) as Hb. rewrite C_0_r in Hb. simpl in Hb. rewrite Hl in Hb.
    cbn [iter]. destruct (step n 0 idx) as [idx'|] eqn:E.
    + destruct (step_rank n idx 0 idx' Hi ltac:(lia) E) as [Hr Hi']. rewrite C_0_r in Hr.
      pose proof (step_bound n idx 0 idx' Hf Hi ltac:(lia) E) as Hf'.
      pose proof (step_length n idx 0 idx' E) as Hl'.
      assert (Hv' : valid n k idx') by (repeat split; [lia|assumption|assumption]).
      destruct (IH idx' Hv' ltac:(lia)) as [Hm Hall].
      assert (Hne' : idx' <> []) by (destruct idx'; simpl in *; [lia|discriminate]).
      pose proof (rank_le n idx' 0 Hi' Hf' Hne') as Hb'. rewrite C_0_r in Hb'. simpl in Hb'. rewrite Hl', Hl in Hb'.
      split.
      * cbn [map]. rewrite Hm, Hr. replace (C n k - rank 0 idx) with (S (C n k - (rank 0 idx + 1))) by lia.
        cbn [seq]. f_equal. f_equal. lia.
      * constructor; [repeat split; assumption|exact Hall].
    + pose proof (step_none_rank n idx 0 Hi Hf Hne E) as Hn. rewrite C_0_r in Hn. simpl in Hn. rewrite Hl in Hn.
      assert (C n k - rank 0 idx = 1) as -> by lia. simpl. split; [reflexivity|]. repeat constructor; assumption.
Qed.

Lemma rank_seq : forall k pos, rank pos (seq pos k) = 0.
Proof. induction k as [|k IH]; intros pos; simpl; [reflexivity|]. rewrite IH, C_lt by lia. reflexivity. Qed.
Lemma incr_seq : forall k pos, incr (seq pos k).
Proof. induction k as [|k IH]; intros pos; simpl; [exact I|]. destruct k; simpl; [exact I|]. split; [lia|apply (IH (S pos))]. Qed.


Theorem selections_ranks n k : 1 <= k <= n ->
  map (rank 0) (selections n k) = seq 0 (C n k) /\ Forall (valid n k) (selections n k).
Proof.
  intros [Hk Hn]. unfold selections.
  destruct (k =? 0) eqn:E1; [apply Nat.eqb_eq in E1; lia|]. destruct (n <? k) eqn:E2; [apply Nat.ltb_lt in E2; lia|]. simpl.
  assert (Hv : valid n k (seq 0 k)).
  { repeat split; [apply seq_length|apply incr_seq|]. apply Forall_forall. intros a Ha. apply in_seq in Ha. lia. }
  destruct (iter_ranks n k Hk (C n k) (seq 0 k) Hv ltac:(lia)) as [Hm Ha].
  rewrite rank_seq, Nat.sub_0_r in Hm. split; assumption.
Qed.

Corollary selections_nodup_length n k : 1 <= k <= n -> NoDup (selections n k) /\ length (selections n k) = C n k.
Proof.
  intros H. destruct (selections_ranks n k H) as [Hm _]. split.
  - apply (NoDup_map_inv (rank 0)). rewrite Hm. apply seq_NoDup.
  - rewrite <- (map_length (rank 0)), Hm. apply seq_length.
Qed.

(* --- completeness by counting --- *)
Fixpoint allinc (n k : nat) : list (list nat) :=
  match k with
  | 0 => [[]]
  | S k' => match n with
            | 0 => []
            | S n' => allinc n' k ++ map (fun l => l ++ [n']) (allinc n' k')
            end
  end.

Lemma allinc_length : forall n k, length (allinc n k) = C n k.
Proof.
  induction n as [|n IH]; intros [|k]; simpl; try reflexivity.
  rewrite app_length, map_length, !IH. destruct k; simpl; lia.
Qed.

Lemma incr_app_last : forall l a, incr (l ++ [a]) -> incr l /\ Forall (fun x => x < a) l.
Proof.
  induction l as [|x t IH]; intros a H; [split; [exact I|constructor]|].
  destruct t as [|y t'].
  - simpl in H. destruct H as [H _]. split; [exact I|]. constructor; [exact H|constructor].
  - change ((x :: y :: t') ++ [a]) with (x :: y :: (t' ++ [a])) in H. destruct H as [Hxy H].
    change (y :: t' ++ [a]) with ((y :: t') ++ [a]) in H.
    destruct (IH a H) as [Hi Hf]. split; [split; assumption|].
    constructor; [|exact Hf]. inversion Hf; subst. lia.
Qed.

Lemma allinc_complete : forall n k idx, valid n k idx -> In idx (allinc n k).
Proof.
  induction n as [|n IH]; intros k idx (Hl & Hi & Hf).
  - destruct idx as [|a t]; [simpl in Hl; subst; simpl; auto|]. inversion Hf; subst; lia.
  - destruct k as [|k]; [destruct idx; simpl in *; [auto|discriminate]|].
    destruct (exists_last (l := idx)) as (l & a & ->); [destruct idx; simpl in *; [discriminate|discriminate]|].
    rewrite app_length in Hl; simpl in Hl.
    destruct (incr_app_last l a Hi) as [Hil Hlt].
    assert (Ha : a < S n) by (rewrite Forall_forall in Hf; apply Hf; apply in_or_app; right; left; reflexivity).
    simpl. apply in_or_app.
    destruct (Nat.eq_dec a n) as [->|Hne].
    + right. apply in_map_iff. exists l. split; [reflexivity|]. apply IH. repeat split; [lia|assumption|assumption].
    + left. apply IH. repeat split; [rewrite app_length; simpl; lia|assumption|].
      apply Forall_app. split; [|constructor; [lia|constructor]].
      eapply Forall_impl; [|exact Hlt]. simpl; intros; lia.
Qed.

Theorem selections_complete n k : 1 <= k <= n -> forall idx, valid n k idx <-> In idx (selections n k).
Proof.
  intros H idx. destruct (selections_ranks n k H) as [_ Hall]. destruct (selections_nodup_length n k H) as [Hnd Hlen].
  split.
  - intros Hv.
    assert (Hincl : incl (selections n k) (allinc n k)).
    { intros x Hx. apply allinc_complete. rewrite Forall_forall in Hall. auto. }
    apply (NoDup_length_incl Hnd (l' := allinc n k)); [rewrite allinc_length, Hlen; lia|exact Hincl|].
    apply allinc_complete, Hv.
  - intros Hin. rewrite Forall_forall in Hall. auto.
Qed.

Theorem selections_empty n k : k = 0 \/ n < k -> selections n k = [].
Proof.
  intros [->|H]; unfold selections; [reflexivity|].
  destruct (k =? 0); [reflexivity|]. apply Nat.ltb_lt in H. rewrite H. reflexivity.
Qed.

(* --- binom: the multiply/divide loop of util.rs --- *)

Lemma C_absorb : forall n i, C n (S i) * S i = C n i * (n - i).
Proof.
  induction n as [|n IH]; intros i.
  - simpl. destruct i; simpl; lia.
  - destruct i as [|i].
    + rewrite C_pascal, !C_0_r. specialize (IH 0). rewrite C_0_r in IH. lia.
    + rewrite (C_pascal n (S i)), (C_pascal n i).
      pose proof (IH (S i)) as H1. pose proof (IH i) as H2.
      destruct (le_lt_dec (S i) n) as [Hle|Hgt].
      * replace (S n - S i) with (S (n - S i)) by lia. replace (n - i) with (S (n - S i)) in H2 by lia. nia.
      * rewrite (C_lt n (S (S i))) in * by lia.
        destruct (Nat.eq_dec n i) as [->|Hne].
        -- rewrite C_diag, (C_lt i (S i)) by lia. lia.
        -- rewrite (C_lt n (S i)), (C_lt n i) by lia. lia.
Qed.

Lemma binom_loop_spec n : forall steps i, i + steps <= n -> binom_loop n i steps (C n i) = C n (i + steps).
Proof.
  induction steps as [|s IH]; intros i H; cbn [binom_loop]; [f_equal; lia|].
  rewrite <- C_absorb, Nat.div_mul by lia. rewrite IH by lia. f_equal; lia.
Qed.

Lemma C_sym : forall n k, k <= n -> C n k = C n (n - k).
Proof.
  induction n as [|n IH]; intros k Hk.
  - replace k with 0 by lia. reflexivity.
  - destruct k as [|k].
    + rewrite Nat.sub_0_r, C_0_r, C_diag. reflexivity.
    + destruct (Nat.eq_dec k n) as [->|Hne].
      * rewrite Nat.sub_diag, C_0_r, C_diag. reflexivity.
      * replace (S n - S k) with (S (n - S k)) by lia. rewrite !C_pascal.
        rewrite (IH k) by lia. rewrite (IH (S k)) by lia. replace (n - k) with (S (n - S k)) by lia. lia.
Qed.
Lemma C_step_mono n i : 2 * S i <= n -> C n i <= C n (S i).
Proof. intros H. pose proof (C_absorb n i) as Ha. assert (S i <= n - i) by lia. nia. Qed.
Lemma C_mono_half n : forall j i, i <= j -> 2 * j <= n -> C n i <= C n j.
Proof.
  induction j as [|j IH]; intros i Hi Hj; [replace i with 0 by lia; lia|].
  destruct (Nat.eq_dec i (S j)) as [->|Hne]; [lia|].
  apply Nat.le_trans with (C n j); [apply IH; lia|apply C_step_mono; lia].
Qed.

Theorem binom_exact n k : binom n k = C n k.
Proof.
  unfold binom. destruct (n <? k) eqn:E.
  - apply Nat.ltb_lt in E. symmetry. apply C_lt, E.
  - apply Nat.ltb_ge in E. rewrite <- (C_0_r n) at 1. rewrite (binom_loop_spec n (Nat.min k (n - k)) 0) by lia. simpl.
    destruct (Nat.min_spec k (n - k)) as [[_ ->]|[_ ->]]; [reflexivity|symmetry; apply C_sym; exact E].
Qed.

(* --- the iterator state machine (it_next / it_hint / it_run) against `selections` --- *)
Lemma it_run_values n k : forall f idx, snd (it_run f n k (Some idx)) = tl (iter f n idx).
Proof.
  induction f as [|f IH]; intros idx; [reflexivity|].
  cbn [it_run it_next iter]. destruct (step n 0 idx) as [idx'|] eqn:E; [|reflexivity].
  specialize (IH idx'). destruct (it_run f n k (Some idx')) as [hs vs]. cbn [snd tl] in *. rewrite IH.
  destruct f; reflexivity.
Qed.

Theorem it_values n k : 1 <= k <= n -> snd (it_run (S (C n k)) n k None) = selections n k.
Proof.
  intros [Hk Hn]. unfold selections. cbn [it_run it_next].
  destruct (k =? 0) eqn:E1; [apply Nat.eqb_eq in E1; lia|]. destruct (n <? k) eqn:E2; [apply Nat.ltb_lt in E2; lia|]. cbn [orb].
  pose proof (it_run_values n k (C n k) (seq 0 k)) as H.
  destruct (it_run (C n k) n k (Some (seq 0 k))) as [hs vs]. cbn [snd] in *. rewrite H.
  pose proof (C_pos n k Hn). destruct (C n k); [lia|]. reflexivity.
Qed.

Lemma hint_sum : forall l pos acc,
  fold_left Nat.add (map (fun p => binom (snd p) (S (fst p))) (combine (seq pos (length l)) l)) acc = acc + rank pos l.
Proof.
  induction l as [|a t IH]; intros pos acc; cbn [length seq combine map fold_left rank]; [lia|].
  rewrite IH. cbn [fst snd]. rewrite binom_exact. lia.
Qed.

Lemma hint_valid n k idx : 1 <= k -> valid n k idx -> it_hint n k (Some idx) = Some (C n k - rank 0 idx - 1).
Proof.
  intros Hk (Hl & Hi & Hf). unfold it_hint. rewrite hint_sum, binom_exact. cbn [Nat.add].
  assert (Hne : idx <> []) by (destruct idx; simpl in *; [lia|discriminate]).
  pose proof (rank_le n idx 0 Hi Hf Hne) as Hb. rewrite C_0_r in Hb. simpl in Hb. rewrite Hl in Hb.
  destruct (C n k <? rank 0 idx + 1) eqn:E; [apply Nat.ltb_lt in E; lia|reflexivity].
Qed.

Lemma rev_seq_S m : rev (seq 0 (S m)) = m :: rev (seq 0 m).
Proof. rewrite seq_S, rev_app_distr. reflexivity. Qed.

Lemma it_run_hints n k : 1 <= k -> forall f idx, valid n k idx -> C n k - rank 0 idx <= f ->
  fst (it_run f n k (Some idx)) = map Some (rev (seq 0 (C n k - rank 0 idx))) ++ [Some 0].
Proof.
  intros Hk. induction f as [|f IH]; intros idx Hv Hfuel.
  - exfalso. destruct Hv as (Hl & Hi & Hf).
    assert (Hne : idx <> []) by (destruct idx; simpl in *; [lia|discriminate]).
    pose proof (rank_le n idx 0 Hi Hf Hne) as Hb. rewrite C_0_r in Hb. simpl in Hb. rewrite Hl in Hb. lia.
  - pose proof (hint_valid n k idx Hk Hv) as Hh. destruct Hv as (Hl & Hi & Hf).
    assert (Hne : idx <> []) by (destruct idx; simpl in *; [lia|discriminate]).
    pose proof (rank_le n idx 0 Hi Hf Hne) as Hb. rewrite C_0_r in Hb. simpl in Hb. rewrite Hl in Hb.
    cbn [it_run it_next]. destruct (step n 0 idx) as [idx'|] eqn:E.
    + destruct (step_rank n idx 0 idx' Hi ltac:(lia) E) as [Hr Hi']. rewrite C_0_r in Hr.
      pose proof (step_bound n idx 0 idx' Hf Hi ltac:(lia) E) as Hf'.
      pose proof (step_length n idx 0 idx' E) as Hl'.
      assert (Hv' : valid n k idx') by (repeat split; [lia|assumption|assumption]).
      specialize (IH idx' Hv' ltac:(lia)).
      destruct (it_run f n k (Some idx')) as [hs vs]. cbn [fst] in *. rewrite Hh, IH, Hr.
      replace (C n k - rank 0 idx) with (S (C n k - (rank 0 idx + 1))) by lia. rewrite rev_seq_S. cbn [map app].
      f_equal. f_equal. lia.
    + pose proof (step_none_rank n idx 0 Hi Hf Hne E) as Hn. rewrite C_0_r in Hn. simpl in Hn. rewrite Hl in Hn.
      cbn [fst]. rewrite Hh. replace (C n k - rank 0 idx) with 1 by lia. reflexivity.
Qed.

(* before the i-th call of next (i = 0 .. C n k) the hint is C n k - i; after the final `None` it is still 0 *)
Theorem it_hints n k : 1 <= k <= n ->
  fst (it_run (S (C n k)) n k None) = map Some (rev (seq 0 (S (C n k)))) ++ [Some 0].
Proof.
  intros [Hk Hn]. cbn [it_run it_next].
  destruct (k =? 0) eqn:E1; [apply Nat.eqb_eq in E1; lia|]. destruct (n <? k) eqn:E2; [apply Nat.ltb_lt in E2; lia|]. cbn [orb].
  assert (Hv : valid n k (seq 0 k)).
  { repeat split; [apply seq_length|apply incr_seq|]. apply Forall_forall. intros a Ha. apply in_seq in Ha. lia. }
  pose proof (it_run_hints n k Hk (C n k) (seq 0 k) Hv ltac:(lia)) as H. rewrite rank_seq, Nat.sub_0_r in H.
  destruct (it_run (C n k) n k (Some (seq 0 k))) as [hs vs]. cbn [fst] in *. rewrite H.
  rewrite rev_seq_S. cbn [map app it_hint]. rewrite binom_exact. reflexivity.
Qed.

Theorem it_empty n k : k = 0 \/ n < k -> forall f, snd (it_run f n k None) = [].
Proof.
  intros H f. assert (E : (k =? 0) || (n <? k) = true).
  { destruct H as [->|H]; [reflexivity|]. apply Nat.ltb_lt in H. rewrite H. apply orb_true_r. }
  destruct f; cbn [it_run it_next]; [reflexivity|]. rewrite E. reflexivity.
Qed.

(* --- the 64-bit loop: no overflow and exact for n <= 57 --- *)
Lemma C_le_pow2 : forall n k, (N.of_nat (C n k) <= 2 ^ N.of_nat n)%N.
Proof.
  induction n as [|n IH]; intros [|k]; cbn [C]; try (simpl; lia).
  pose proof (IH k). pose proof (IH (S k)). rewrite Nat2N.inj_succ, N.pow_succ_r'. lia.
Qed.

(* the machine loop: never an overflow of the 128-bit product, and the result is min (C n k) usize::MAX -- for ALL n < 2^64 and all k *)
Lemma binom_loop64_spec n : (N.of_nat n < 18446744073709551616)%N -> forall steps i, 2 * (i + steps) <= n -> (N.of_nat (C n i) <= MAXU)%N ->
  binom_loop64 (N.of_nat n) (N.of_nat i) steps (N.of_nat (C n i)) = Some (N.min (N.of_nat (C n (i + steps))) MAXU).
Proof.
  intros Hn. induction steps as [|s IH]; intros i H Hres; cbn [binom_loop64].
  - replace (i + 0) with i by lia. rewrite N.min_l by exact Hres. reflexivity.
  - assert (Hlt : (N.of_nat (C n i) * (N.of_nat n - N.of_nat i) <? 340282366920938463463374607431768211456)%N = true).
    { apply N.ltb_lt. unfold MAXU in Hres.
      apply N.le_lt_trans with (18446744073709551615 * 18446744073709551615)%N; [apply N.mul_le_mono; lia|reflexivity]. }
    rewrite Hlt.
    replace (N.of_nat (C n i) * (N.of_nat n - N.of_nat i))%N with (N.of_nat (C n (S i)) * N.of_nat (S i))%N.
    2:{ rewrite <- Nat2N.inj_mul, C_absorb. rewrite Nat2N.inj_mul. f_equal. lia. }
    replace (N.succ (N.of_nat i)) with (N.of_nat (S i)) by lia.
    rewrite N.div_mul by lia.
    destruct (MAXU <? N.of_nat (C n (S i)))%N eqn:Es.
    + apply N.ltb_lt in Es. f_equal. symmetry. apply N.min_r.
      pose proof (C_mono_half n (i + S s) (S i) ltac:(lia) ltac:(lia)). lia.
    + apply N.ltb_ge in Es. rewrite (IH (S i)) by (try lia; exact Es). replace (S i + s) with (i + S s) by lia. reflexivity.
Qed.

Theorem binom64_spec n k : (N.of_nat n < 18446744073709551616)%N ->
  binom64 (N.of_nat n) (N.of_nat k) = Some (N.min (N.of_nat (C n k)) MAXU).
Proof.
  intros Hn. unfold binom64. destruct (N.of_nat n <? N.of_nat k)%N eqn:E.
  - apply N.ltb_lt in E. rewrite C_lt by lia. reflexivity.
  - apply N.ltb_ge in E.
    replace (N.to_nat (N.min (N.of_nat k) (N.of_nat n - N.of_nat k))) with (Nat.min k (n - k)) by lia.
    change 1%N with (N.of_nat 1). rewrite <- (C_0_r n) at 1. change 0%N with (N.of_nat 0).
    rewrite (binom_loop64_spec n Hn (Nat.min k (n - k)) 0) by (try lia; rewrite C_0_r; unfold MAXU; lia). simpl.
    destruct (Nat.min_spec k (n - k)) as [[_ ->]|[_ ->]]; [reflexivity|]. rewrite <- C_sym by lia. reflexivity.
Qed.

(* the earlier statement (exact up to n = 57, where every C n k is below 2^57) is a special case *)
Theorem binom64_exact n k : n <= 57 -> binom64 (N.of_nat n) (N.of_nat k) = Some (N.of_nat (C n k)).
Proof.
  intros Hn. rewrite binom64_spec by lia. f_equal. apply N.min_l. pose proof (C_le_pow2 n k) as Hc.
  assert (2 ^ N.of_nat n <= 2 ^ 57)%N by (apply N.pow_le_mono_r; lia). unfold MAXU.
  apply N.le_trans with (2 ^ 57)%N; [lia|]. vm_compute. discriminate.
Qed.

(* --- the binary-arithmetic variant of the state machine is the image of it_run under N.of_nat --- *)
Lemma binom_loopN_spec n : forall steps i res,
  binom_loopN (N.of_nat n) (N.of_nat i) steps (N.of_nat res) = N.of_nat (binom_loop n i steps res).
Proof.
  induction steps as [|s IH]; intros i res; cbn [binom_loopN binom_loop]; [reflexivity|].
  replace (N.succ (N.of_nat i)) with (N.of_nat (S i)) by lia.
  replace (N.of_nat res * (N.of_nat n - N.of_nat i) / N.of_nat (S i))%N with (N.of_nat (res * (n - i) / S i)).
  - apply IH.
  - rewrite Nat2N.inj_div, Nat2N.inj_mul, Nat2N.inj_sub. reflexivity.
Qed.
Lemma binomN_spec n k : binomN n k = N.of_nat (binom n k).
Proof.
  unfold binomN, binom. destruct (n <? k); [reflexivity|].
  change 0%N with (N.of_nat 0). change 1%N with (N.of_nat 1). apply binom_loopN_spec.
Qed.
Lemma hint_sumN : forall (l : list (nat * nat)) acc,
  fold_left N.add (map (fun p => binomN (snd p) (S (fst p))) l) (N.of_nat acc) =
  N.of_nat (fold_left Nat.add (map (fun p => binom (snd p) (S (fst p))) l) acc).
Proof.
  induction l as [|a t IH]; intros acc; cbn [map fold_left]; [reflexivity|].
  rewrite binomN_spec, <- Nat2N.inj_add. apply IH.
Qed.
Lemma it_hintN_spec n k st : it_hintN n k st = option_map N.of_nat (it_hint n k st).
Proof.
  destruct st as [idx|]; cbn [it_hintN it_hint option_map]; [|rewrite binomN_spec; reflexivity].
  change 0%N with (N.of_nat 0). rewrite hint_sumN, binomN_spec.
  set (r := fold_left Nat.add _ 0).
  destruct (binom n k <? r + 1) eqn:E.
  - apply Nat.ltb_lt in E. replace (N.of_nat (binom n k) <? N.of_nat r + 1)%N with true; [reflexivity|]. symmetry. apply N.ltb_lt. lia.
  - apply Nat.ltb_ge in E. replace (N.of_nat (binom n k) <? N.of_nat r + 1)%N with false; [cbn [option_map]; f_equal; lia|].
    symmetry. apply N.ltb_ge. lia.
Qed.
Theorem it_runN_spec n k : forall fuel st,
  it_runN fuel n k st = (map (option_map N.of_nat) (fst (it_run fuel n k st)), snd (it_run fuel n k st)).
Proof.
  induction fuel as [|f IH]; intros st; cbn [it_runN it_run].
  - cbn [fst snd map]. rewrite it_hintN_spec. reflexivity.
  - destruct (it_next n k st) as [st' [v|]].
    + rewrite IH. destruct (it_run f n k st') as [hs vs]. cbn [fst snd map]. rewrite it_hintN_spec. reflexivity.
    + cbn [fst snd map]. rewrite !it_hintN_spec. reflexivity.
Qed.

Theorem selections_fast_eq n k : selections_fast n k = selections n k.
Proof. unfold selections_fast, selections. rewrite binomN_spec, Nat2N.id, binom_exact. reflexivity. Qed.
