(* Spike: existence of a perfect allowed matching from counts (the precondition of hungarian_correct), abstractly *)
From Coq Require Import List ZArith Lia Bool Arith Permutation.
Require Import HP1 HP2 HP5.
Import ListNotations.
Open Scope nat_scope.

Lemma perm_partition {A} (f : A -> bool) : forall l, Permutation (filter f l ++ filter (fun x => negb (f x)) l) l.
Proof.
  induction l as [|a l IH]; simpl; [constructor|]. destruct (f a); simpl.
  - constructor. exact IH.
  - eapply Permutation_trans; [apply Permutation_sym, Permutation_middle|]. constructor. exact IH.
Qed.
Lemma map_fst_combine {A B} : forall (l : list A) (k : list B), length l = length k -> map fst (combine l k) = l.
Proof. induction l as [|a l IH]; intros [|b k] H; simpl in *; try discriminate; auto. f_equal. apply IH. lia. Qed.
Lemma map_snd_combine {A B} : forall (l : list A) (k : list B), length l = length k -> map snd (combine l k) = k.
Proof. induction l as [|a l IH]; intros [|b k] H; simpl in *; try discriminate; auto. f_equal. apply IH. lia. Qed.
Lemma combine_app_eq {A B} : forall (l1 l2 : list A) (k1 k2 : list B), length l1 = length k1 ->
  combine (l1 ++ l2) (k1 ++ k2) = combine l1 k1 ++ combine l2 k2.
Proof. induction l1 as [|a l1 IH]; intros l2 [|b k1] k2 H; simpl in *; try discriminate; auto. f_equal. apply IH. lia. Qed.

Section HallS.
Variables (dx my sx sy : list bool) (nx ny : nat).
Notation rowsL := (rowsL sx nx). Notation colsL := (colsL sy ny). Notation is_pm := (HP5.is_pm dx my sx sy nx ny).

Theorem hall_from_counts :
  length rowsL = length colsL ->
  length (filter (getB my) colsL) <= length (filter (fun x => negb (getB dx x)) rowsL) ->
  exists pm, is_pm pm.
Proof.
  intros Hsq Hle.
  set (R := filter (fun x => negb (getB dx x)) rowsL). set (D := filter (fun x => negb (negb (getB dx x))) rowsL).
  set (M := filter (getB my) colsL). set (N := filter (fun y => negb (getB my y)) colsL).
  assert (HRD : Permutation (R ++ D) rowsL) by apply perm_partition.
  assert (HMN : Permutation (M ++ N) colsL) by apply perm_partition.
  set (R1 := firstn (length M) R). set (R2 := skipn (length M) R).
  assert (HR : R = R1 ++ R2) by (symmetry; apply firstn_skipn).
  assert (HlR1 : length R1 = length M) by (unfold R1; rewrite firstn_length; fold M R in Hle; lia).
  assert (Hlen : length (R2 ++ D) = length N).
  { pose proof (Permutation_length HRD) as L1. pose proof (Permutation_length HMN) as L2. rewrite HR in L1.
    rewrite !app_length in *. lia. }
  exists (combine (R1 ++ (R2 ++ D)) (M ++ N)).
  assert (Hl : length (R1 ++ R2 ++ D) = length (M ++ N)) by (rewrite !app_length in *; lia).
  split; [|split].
  - rewrite map_fst_combine by exact Hl. rewrite app_assoc, <- HR. exact HRD.
  - rewrite map_snd_combine by exact Hl. exact HMN.
  - rewrite combine_app_eq by exact HlR1. apply Forall_app. split; apply Forall_forall; intros [x y] Hin; cbn [fst snd]; unfold HP1.allowed.
    + apply in_combine_l in Hin. assert (In x R) by (rewrite HR; apply in_or_app; left; exact Hin).
      unfold R in H. apply filter_In in H. destruct H as [_ H]. apply negb_true_iff in H. rewrite H. reflexivity.
    + apply in_combine_r in Hin. unfold N in Hin. apply filter_In in Hin. destruct Hin as [_ H]. apply negb_true_iff in H.
      rewrite H, andb_false_r. reflexivity.
Qed.
End HallS.
