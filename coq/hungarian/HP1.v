(* Hungarian proof spike, part 1: prelude + model with Overflow/Stuck outcomes *)
From Coq Require Import List ZArith Lia Bool Arith Permutation.
Import ListNotations.
Open Scope Z_scope.

Definition getZ (l : list Z) (i : nat) : Z := nth i l 0.
Definition getB (l : list bool) (i : nat) : bool := nth i l false.
Definition getN (l : list nat) (i : nat) : nat := nth i l 0%nat.
Fixpoint upd {A} (l : list A) (i : nat) (v : A) : list A :=
  match l, i with [], _ => [] | _ :: t, O => v :: t | h :: t, S i' => h :: upd t i' v end.

Lemma upd_length {A} (l : list A) : forall i v, length (upd l i v) = length l.
Proof. induction l; intros [|i] v; simpl; auto. Qed.
Lemma nth_upd_eq {A} (l : list A) : forall i v d, (i < length l)%nat -> nth i (upd l i v) d = v.
Proof. induction l; intros [|i] v d H; simpl in *; try lia; auto. apply IHl. lia. Qed.
Lemma nth_upd_neq {A} (l : list A) : forall i j v d, i <> j -> nth j (upd l i v) d = nth j l d.
Proof. induction l; intros [|i] [|j] v d H; simpl; auto; try congruence. Qed.
Lemma nth_repeat_lt {A} (a d : A) n i : nth i (repeat a n) d = if (i <? n)%nat then a else d.
Proof.
  revert i; induction n; intros [|i]; simpl; auto. rewrite IHn.
  destruct (i <? n)%nat eqn:E; [apply Nat.ltb_lt in E|apply Nat.ltb_ge in E].
  - replace (S i <? S n)%nat with true; auto. symmetry; apply Nat.ltb_lt; lia.
  - replace (S i <? S n)%nat with false; auto. symmetry; apply Nat.ltb_ge; lia.
Qed.
Lemma nth_map_seq {A} (f : nat -> A) n i d : (i < n)%nat -> nth i (map f (seq 0 n)) d = f i.
Proof.
  intros H. rewrite (nth_indep _ d (f 0%nat)) by (rewrite map_length, seq_length; lia).
  rewrite map_nth, seq_nth; auto.
Qed.
Lemma nth_map_combine {A B C} (f : A * B -> C) (l1 : list A) (l2 : list B) i d d1 d2 :
  length l1 = length l2 -> (i < length l1)%nat -> nth i (map f (combine l1 l2)) d = f (nth i l1 d1, nth i l2 d2).
Proof.
  intros H1 H2. rewrite (nth_indep _ d (f (d1, d2))) by (rewrite map_length, combine_length; lia).
  rewrite map_nth, combine_nth by assumption. reflexivity.
Qed.

Fixpoint find_true (l : list bool) (i : nat) : option nat :=
  match l with [] => None | b :: t => if b then Some i else find_true t (S i) end.

Lemma find_true_some : forall l i y, find_true l i = Some y ->
  (i <= y)%nat /\ (y - i < length l)%nat /\ getB l (y - i) = true.
Proof.
  induction l as [|b t IH]; intros i y H; simpl in H; [discriminate|].
  destruct b.
  - inversion H; subst. replace (y - y)%nat with 0%nat by lia. simpl. repeat split; lia.
  - destruct (IH _ _ H) as (H1 & H2 & H3). replace (y - i)%nat with (S (y - S i)) by lia.
    simpl. repeat split; try lia. exact H3.
Qed.
Lemma find_true_none : forall l i, find_true l i = None -> forall j, getB l j = false.
Proof.
  induction l as [|b t IH]; intros i H j; unfold getB; [destruct j; reflexivity|].
  simpl in H. destruct b; [discriminate|]. destruct j; [reflexivity|]. apply (IH _ H).
Qed.
Lemma find_true_none_iff l : find_true l 0 = None <-> forall j, getB l j = false.
Proof.
  split; [apply find_true_none|].
  intros H. destruct (find_true l 0) eqn:E; [|reflexivity].
  apply find_true_some in E. destruct E as (_ & _ & E). rewrite H in E. discriminate.
Qed.

(* ---------------------------------------------------------------- model *)
Inductive res (A : Type) := Ok (a : A) | Stuck | Overflow.
Arguments Ok {A} a. Arguments Stuck {A}. Arguments Overflow {A}.

Definition maxI : Z := 2147483647.
Definition minI : Z := -2147483648.
Definition inr (z : Z) : bool := (minI <=? z) && (z <=? maxI).

Definition row (w : list (list Z)) (x : nat) : list Z := nth x w [].
Record tree := { S_ : list bool; SP : list nat; T_ : list bool; TP : list nat; NL : list bool; NB : list nat; LX : list Z; LY : list Z }.

Section H.
Variables (w : list (list Z)) (dx my sx sy : list bool) (nx ny : nat).
Definition W (x y : nat) : Z := getZ (row w x) y.
Definition allowed (x y : nat) : bool := negb (getB dx x && getB my y).
Definition eligible (st : tree) (x y : nat) : bool :=
  getB (S_ st) x && negb (getB (T_ st) y) && negb (getB sy y) && allowed x y.
Definition slack (st : tree) (x y : nat) : Z := getZ (LX st) x + getZ (LY st) y - W x y.

Definition scan_acc := res (Z * list bool * list nat).
Definition scan_cell (st : tree) (acc : scan_acc) (p : nat * nat) : scan_acc :=
  match acc with
  | Ok (dmin, nl, nb) =>
    let (x, y) := p in
    if eligible st x y then
      let s1 := getZ (LX st) x + getZ (LY st) y in
      let d := s1 - W x y in
      if inr s1 && inr d then
        if d =? dmin then Ok (dmin, upd nl y true, upd nb y x)
        else if d <? dmin then Ok (d, upd (repeat false ny) y true, upd nb y x)
        else acc
      else Overflow
    else acc
  | _ => acc
  end.
Definition pairs : list (nat * nat) := list_prod (seq 0 nx) (seq 0 ny).
Definition scan (st : tree) : scan_acc := fold_left (scan_cell st) pairs (Ok (maxI, NL st, NB st)).

Definition relabel (st : tree) : res tree :=
  match scan st with
  | Ok (dmin, nl, nb) =>
    let lx' := map (fun p : Z * bool => if snd p then fst p - dmin else fst p) (combine (LX st) (S_ st)) in
    let ly' := map (fun p : Z * bool => if snd p then fst p + dmin else fst p) (combine (LY st) (T_ st)) in
    if forallb inr lx' && forallb inr ly' then
      Ok {| S_ := S_ st; SP := SP st; T_ := T_ st; TP := TP st; NL := nl; NB := nb; LX := lx'; LY := ly' |}
    else Overflow
  | Stuck => Stuck
  | Overflow => Overflow
  end.

Fixpoint augment (fuel : nat) (u : nat) (st : tree) (mm : list nat) (yy xx : nat) : res (list nat) :=
  match fuel with O => Stuck | S f =>
    let mm' := upd mm yy xx in
    if Nat.eqb xx u then Ok mm' else
      let yy' := getN (SP st) xx in augment f u st mm' yy' (getN (TP st) yy')
  end.

Definition extend (st : tree) (y z : nat) : tree :=
  let t' := upd (T_ st) y true in
  let lz := getZ (LX st) z in
  let newn := map (fun y' => negb (getB sy y') && negb (getB t' y') && (if getB dx z then negb (getB my y') else true)
                               && (W z y' =? getZ (LY st) y' + lz)) (seq 0 ny) in
  {| S_ := upd (S_ st) z true; SP := upd (SP st) z y; T_ := t'; TP := upd (TP st) y (getN (NB st) y);
     NL := map (fun p : bool * bool => orb (fst p) (snd p)) (combine (upd (NL st) y false) newn);
     NB := map (fun p : nat * bool => if snd p then z else fst p) (combine (NB st) newn);
     LX := LX st; LY := LY st |}.

Definition ensure_nl (st : tree) : res tree :=
  match find_true (NL st) 0 with Some _ => Ok st | None => relabel st end.

Fixpoint grow (fuel : nat) (u : nat) (m : list bool) (mm : list nat) (st : tree) : res (list bool * list nat * list Z * list Z) :=
  match fuel with O => Stuck | S f =>
    match ensure_nl st with
    | Ok st1 =>
      match find_true (NL st1) 0 with
      | None => Stuck
      | Some y =>
        if getB m y then grow f u m mm (extend st1 y (getN mm y))
        else match augment (S ny) u st1 mm y (getN (NB st1) y) with
             | Ok mm' => Ok (upd m y true, mm', LX st1, LY st1)
             | Stuck => Stuck | Overflow => Overflow end
      end
    | Stuck => Stuck | Overflow => Overflow
    end
  end.

Definition init_tree (u : nat) (lx ly : list Z) : tree :=
  {| S_ := upd (repeat false nx) u true; SP := repeat 0%nat nx; T_ := repeat false ny; TP := repeat 0%nat ny;
     NL := map (fun y => negb (getB sy y) && (W u y =? getZ lx u + getZ ly y) && allowed u y) (seq 0 ny);
     NB := repeat u ny; LX := lx; LY := ly |}.

Fixpoint phases (free : list nat) (m : list bool) (mm : list nat) (lx ly : list Z) : res (list bool * list nat * list Z * list Z) :=
  match free with
  | [] => Ok (m, mm, lx, ly)
  | u :: rest =>
    match grow (S (S ny)) u m mm (init_tree u lx ly) with
    | Ok (m', mm', lx', ly') => phases rest m' mm' lx' ly'
    | Stuck => Stuck | Overflow => Overflow
    end
  end.

Definition lx0 : list Z := map (fun x => fold_left Z.max (row w x) 0) (seq 0 nx).
Definition free0 : list nat := rev (filter (fun x => negb (getB sx x)) (seq 0 nx)).
Definition hungarian : res (list nat * Z * list Z * list Z) :=
  match phases free0 (repeat false ny) (repeat 0%nat ny) lx0 (repeat 0 ny) with
  | Ok (m, mm, lx, ly) =>
    Ok (mm, fold_left (fun acc y => if getB sy y then acc else acc + W (getN mm y) y) (seq 0 ny) 0, lx, ly)
  | Stuck => Stuck | Overflow => Overflow
  end.
End H.
