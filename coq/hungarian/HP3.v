(* Hungarian proof spike, part 3: tree extension (matched neighbour) *)
From Coq Require Import List ZArith Lia Bool Arith Permutation.
Require Import HP1 HP2.
Import ListNotations.
Open Scope Z_scope.

Lemma cntT_upd_true : forall l y, (y < length l)%nat -> getB l y = false -> cntT (upd l y true) = S (cntT l).
Proof.
  unfold cntT, getB. induction l as [|b t IH]; intros [|y] Hy Hf; simpl in *; try lia.
  - subst b. destruct (bool_dec true true); [|congruence]. destruct (bool_dec false true); [discriminate|]. reflexivity.
  - rewrite IH by (try lia; assumption). destruct (bool_dec b true); reflexivity.
Qed.
Lemma cntT_le_length l : (cntT l <= length l)%nat.
Proof. unfold cntT. apply count_occ_bound. Qed.

Lemma getB_map_seq (f : nat -> bool) n i : (i < n)%nat -> getB (map f (seq 0 n)) i = f i.
Proof. intros; unfold getB; apply nth_map_seq; assumption. Qed.
Lemma getB_orb_combine (l1 l2 : list bool) i : length l1 = length l2 -> (i < length l1)%nat ->
  getB (map (fun p : bool * bool => orb (fst p) (snd p)) (combine l1 l2)) i = orb (getB l1 i) (getB l2 i).
Proof. intros H1 H2. unfold getB. rewrite (nth_map_combine _ l1 l2 i false false false H1 H2). reflexivity. Qed.
Lemma getN_sel_combine (l1 : list nat) (l2 : list bool) z i : length l1 = length l2 -> (i < length l1)%nat ->
  getN (map (fun p : nat * bool => if snd p then z else fst p) (combine l1 l2)) i = if getB l2 i then z else getN l1 i.
Proof. intros H1 H2. unfold getN, getB. rewrite (nth_map_combine _ l1 l2 i 0%nat 0%nat false H1 H2). reflexivity. Qed.
Lemma getB_upd_true_mono l i j : getB l j = true -> getB (upd l i true) j = true.
Proof.
  intros H. destruct (Nat.eq_dec i j) as [->|Hne]; [|rewrite getB_upd_neq; assumption].
  destruct (lt_dec j (length l)); [apply getB_upd_eq; assumption|].
  unfold getB in *. rewrite nth_overflow in H by lia. discriminate.
Qed.

Section P3.
Variables (w : list (list Z)) (dx my sx sy : list bool) (nx ny : nat).
Notation W := (W w). Notation allowed := (allowed dx my).
Notation PInv := (PInv w dx my sx sy nx ny). Notation OInv := (OInv w dx my sx sy nx ny).
Notation extend := (extend w dx my sy ny).

Lemma extend_ok u m mm st y : PInv u m mm st -> (y < ny)%nat -> getB (NL st) y = true -> getB m y = true ->
  PInv u m mm (extend st y (getN mm y)) /\ cntT (T_ (extend st y (getN mm y))) = S (cntT (T_ st)).
Proof.
  intros P Hy Hnl Hm. set (z := getN mm y).
  pose proof (p_len _ _ _ _ _ _ _ _ _ _ _ P) as Hl. destruct Hl as (HlS & HlSP & HlT & HlTP & HlNL & HlNB & HlLX & HlLY).
  pose proof (p_o _ _ _ _ _ _ _ _ _ _ _ P) as O.
  destruct (p_NL _ _ _ _ _ _ _ _ _ _ _ P y Hy Hnl) as (HTy & Hsyy & Hnbx & HSnb & Hanb & Htnb).
  destruct (o_match _ _ _ _ _ _ _ _ _ _ _ O y Hy Hm) as (Hcy & Hrz & Haz & Htz). fold z in Hrz, Haz, Htz.
  assert (Hzx : (z < nx)%nat) by apply Hrz.
  assert (HSz : getB (S_ st) z = false).
  { destruct (getB (S_ st) z) eqn:E; [|reflexivity].
    rewrite (S_partner_T _ _ _ _ _ _ _ _ _ _ _ P y Hy Hm E) in HTy. discriminate. }
  assert (Huz : u <> z).
  { intros ->. apply (proj1 (proj2 (p_u _ _ _ _ _ _ _ _ _ _ _ P))). exists y. auto. }
  assert (Hnbz : getN (NB st) y <> z) by (intros E; rewrite E in HSnb; congruence).
  (* partners of other T-columns differ from z *)
  assert (Hpart : forall y', (y' < ny)%nat -> getB m y' = true -> y' <> y -> getN mm y' <> z).
  { intros y' Hy' Hm' Hne E. apply Hne. apply (o_inj _ _ _ _ _ _ _ _ _ _ _ O y' y Hy' Hy Hm' Hm E). }
  set (newn := map (fun y' => negb (getB sy y') && negb (getB (upd (T_ st) y true) y') && (if getB dx z then negb (getB my y') else true)
                               && (W z y' =? getZ (LY st) y' + getZ (LX st) z)) (seq 0 ny)).
  assert (Hnewn : forall y', (y' < ny)%nat -> getB newn y' = true ->
            getB sy y' = false /\ getB (upd (T_ st) y true) y' = false /\ allowed z y' = true /\ W z y' = getZ (LX st) z + getZ (LY st) y').
  { intros y' Hy' H. unfold newn in H. rewrite getB_map_seq in H by exact Hy'.
    repeat (apply andb_prop in H; destruct H as [H ?]).
    repeat split; try (apply negb_true_iff; assumption).
    - unfold HP1.allowed. destruct (getB dx z); [|reflexivity]. simpl. assumption.
    - match goal with E : (_ =? _) = true |- _ => apply Z.eqb_eq in E; lia end. }
  assert (Hlnewn : length newn = ny) by (unfold newn; rewrite map_length, seq_length; reflexivity).
  unfold HP1.extend. fold z. fold newn.
  split; [|cbn [T_]; apply cntT_upd_true; [lia|exact HTy]].
  constructor; cbn [S_ SP T_ TP NL NB LX LY].
  - unfold tlen; cbn [S_ SP T_ TP NL NB LX LY]. rewrite !upd_length, !map_length, !combine_length, !upd_length. repeat split; lia.
  - exact O.
  - destruct (p_u _ _ _ _ _ _ _ _ _ _ _ P) as (H1 & H2 & H3). repeat split; try assumption; try apply H1. apply getB_upd_true_mono, H3.
  - (* p_T *)
    intros y' Hy' Ht'. destruct (Nat.eq_dec y' y) as [->|Hne].
    + rewrite (getN_upd_eq (TP st) y (getN (NB st) y)) by lia. fold z.
      rewrite (getN_upd_eq (SP st) z y) by lia. rewrite (getB_upd_eq (S_ st) z true) by lia.
      repeat split; try assumption. apply getB_upd_true_mono, HSnb.
    + rewrite getB_upd_neq in Ht' by auto.
      destruct (p_T _ _ _ _ _ _ _ _ _ _ _ P y' Hy' Ht') as (H1 & H2 & H3 & H4 & H5 & H6 & H7).
      rewrite (getN_upd_neq (TP st) y y') by auto.
      repeat split; try assumption.
      * apply getB_upd_true_mono, H2.
      * rewrite getN_upd_neq; [exact H3|]. intros E. apply (Hpart y' Hy' H1 Hne). auto.
      * apply getB_upd_true_mono, H5.
  - (* p_S *)
    intros x Hx Hs. destruct (Nat.eq_dec x z) as [->|Hne].
    + right. exists y. repeat split; auto. apply getB_upd_eq; lia.
    + rewrite getB_upd_neq in Hs by auto.
      destruct (p_S _ _ _ _ _ _ _ _ _ _ _ P x Hx Hs) as [->|(y' & Hy' & Ht' & He)]; [left; reflexivity|].
      right. exists y'. repeat split; auto. apply getB_upd_true_mono, Ht'.
  - (* p_NL *)
    intros y' Hy' Hn. rewrite getB_orb_combine in Hn by (rewrite ?upd_length; lia).
    rewrite getN_sel_combine by lia.
    destruct (getB newn y') eqn:En.
    + destruct (Hnewn y' Hy' En) as (H1 & H2 & H3 & H4). repeat split; try assumption. apply getB_upd_eq; lia.
    + rewrite orb_false_r in Hn.
      assert (Hne : y <> y'). { intros ->. rewrite getB_upd_eq in Hn by lia. discriminate. }
      rewrite getB_upd_neq in Hn by exact Hne.
      destruct (p_NL _ _ _ _ _ _ _ _ _ _ _ P y' Hy' Hn) as (H1 & H2 & H3 & H4 & H5 & H6).
      repeat split; try assumption.
      * rewrite getB_upd_neq by exact Hne. exact H1.
      * apply getB_upd_true_mono, H4.
  - (* p_rk *)
    destruct (p_rk _ _ _ _ _ _ _ _ _ _ _ P) as (rk & Hr0 & HrT & Hrb).
    exists (fun x => if Nat.eqb x z then S (rk (getN (NB st) y)) else rk x).
    assert (Hz : forall x, x <> z -> (if Nat.eqb x z then S (rk (getN (NB st) y)) else rk x) = rk x).
    { intros x Hx. destruct (Nat.eqb x z) eqn:E; [apply Nat.eqb_eq in E; congruence|reflexivity]. }
    split; [rewrite Hz by exact Huz; exact Hr0|]. split.
    + intros y' Hy' Ht'. destruct (Nat.eq_dec y' y) as [->|Hne].
      * fold z. rewrite Nat.eqb_refl. rewrite getN_upd_eq by lia. rewrite Hz by exact Hnbz. reflexivity.
      * rewrite getB_upd_neq in Ht' by auto.
        destruct (p_T _ _ _ _ _ _ _ _ _ _ _ P y' Hy' Ht') as (H1 & H2 & H3 & H4 & H5 & H6 & H7).
        rewrite (getN_upd_neq (TP st) y y') by auto.
        rewrite Hz by (apply Hpart; auto). rewrite Hz by (intros E; rewrite E in H5; congruence).
        apply HrT; assumption.
    + intros x Hx Hs. rewrite (cntT_upd_true (T_ st) y) by (try lia; exact HTy).
      destruct (Nat.eq_dec x z) as [->|Hne].
      * rewrite Nat.eqb_refl. specialize (Hrb _ Hnbx HSnb). lia.
      * rewrite Hz by exact Hne. rewrite getB_upd_neq in Hs by auto. specialize (Hrb _ Hx Hs). lia.
  - rewrite (cntT_upd_true (S_ st) z) by (try lia; exact HSz). rewrite (cntT_upd_true (T_ st) y) by (try lia; exact HTy).
    f_equal. apply (p_cnt _ _ _ _ _ _ _ _ _ _ _ P).
Qed.
End P3.
