(* Hungarian proof, part 7: the range-checked i32 arithmetic never overflows.
   If a perfect allowed matching exists, all weights lie in [0, Wmax] and (N + 2) * Wmax <= i32::MAX (N = number of active rows), the
   model never takes its explicit Overflow exit.  Argument: the dual objective Phi = sum of the labels of the active rows and columns
   is bounded below by the weight of the perfect matching (>= 0, dual feasibility) and drops by exactly dmin at every relabelling
   (|S| = |T| + 1); so the total of all label changes is at most Phi0 <= N * Wmax, and every label stays within
   [-N * Wmax, (N + 1) * Wmax]. *)
From Coq Require Import List ZArith Lia Bool Arith Permutation.
Require Import Cert HP1 HP2 HP3 HP4 HP5 HP6.
Import ListNotations.
Open Scope Z_scope.

Section P7.
Variables (w : list (list Z)) (dx my sx sy : list bool) (nx ny : nat).
Notation W := (W w). Notation allowed := (allowed dx my). Notation eligible := (eligible dx my sy).
Notation PInv := (PInv w dx my sx sy nx ny). Notation OInv := (OInv w dx my sx sy nx ny).
Notation actR := (actR sx nx). Notation actC := (actC sy ny).
Notation rowsL := (rowsL sx nx). Notation colsL := (colsL sy ny). Notation is_pm := (HP5.is_pm dx my sx sy nx ny).

Variable Wmax : Z.
Hypothesis HW : forall x y, 0 <= W x y <= Wmax.
Variable pm : list (nat * nat).
Hypothesis Hpm : is_pm pm.
Let N : Z := Z.of_nat (length rowsL).
Hypothesis Hsize : (N + 2) * Wmax <= maxI.

Definition Phi (lx ly : list Z) : Z := sumZ (map (getZ lx) rowsL) + sumZ (map (getZ ly) colsL).
Let l0 := lx0 w nx.
Definition Phi0 : Z := sumZ (map (getZ l0) rowsL).

Definition Bnd (lx ly : list Z) : Prop :=
  (forall x, (x < nx)%nat -> getZ l0 x - (Phi0 - Phi lx ly) <= getZ lx x <= getZ l0 x) /\
  (forall y, (y < ny)%nat -> 0 <= getZ ly y <= Phi0 - Phi lx ly).

Lemma Wmax_nonneg : 0 <= Wmax.
Proof. pose proof (HW 0 0). lia. Qed.

Lemma fold_max_bounds : forall l a, 0 <= a <= Wmax -> (forall z, In z l -> z <= Wmax) -> 0 <= fold_left Z.max l a <= Wmax.
Proof. induction l as [|z t IH]; intros a Ha Hl; simpl; [exact Ha|]. apply IH; [pose proof (Hl z (or_introl eq_refl)); lia|intros z' Hz'; apply Hl; right; exact Hz']. Qed.

Lemma l0_bounds x : (x < nx)%nat -> 0 <= getZ l0 x <= Wmax.
Proof.
  intros Hx. unfold l0, lx0, getZ. rewrite nth_map_seq by exact Hx. apply fold_max_bounds; [pose proof Wmax_nonneg; lia|].
  intros z Hz. destruct (In_nth _ _ 0 Hz) as (y & _ & <-). apply (HW x y).
Qed.

Lemma Phi0_bound : 0 <= Phi0 <= N * Wmax.
Proof.
  unfold Phi0, N. assert (G : forall L, (forall x, In x L -> (x < nx)%nat) -> 0 <= sumZ (map (getZ l0) L) <= Z.of_nat (length L) * Wmax).
  { induction L as [|x t IH]; intros HL; [simpl; lia|]. cbn [map sumZ fold_right length].
    pose proof (l0_bounds x (HL x (or_introl eq_refl))). specialize (IH (fun x' Hx' => HL x' (or_intror Hx'))). unfold sumZ in IH. lia. }
  apply G. intros x Hx. apply in_rowsL in Hx. apply Hx.
Qed.

(* dual feasibility bounds the objective from below by the weight of the perfect matching *)
Lemma Phi_nonneg lx ly : (forall x y, actR x -> actC y -> allowed x y = true -> W x y <= getZ lx x + getZ ly y) -> 0 <= Phi lx ly.
Proof.
  intros Hf. unfold Phi. rewrite <- (pm_label_sum (getZ lx) (getZ ly) allowed rowsL colsL pm Hpm).
  assert (G : forall l, Forall (fun p : nat * nat => 0 <= getZ lx (fst p) + getZ ly (snd p)) l -> 0 <= sumZ (map (fun p => getZ lx (fst p) + getZ ly (snd p)) l)).
  { induction 1; simpl; [lia|]. unfold sumZ in *. lia. }
  apply G. destruct Hpm as (Hr & Hc & Ha). rewrite Forall_forall in *. intros [x y] Hin. cbn [fst snd].
  assert (Hx : actR x) by (apply in_rowsL; apply (Permutation_in _ Hr); apply (in_map fst) in Hin; exact Hin).
  assert (Hy : actC y) by (apply in_colsL; apply (Permutation_in _ Hc); apply (in_map snd) in Hin; exact Hin).
  pose proof (Hf x y Hx Hy (Ha _ Hin)). pose proof (HW x y). lia.
Qed.

(* hence every label stays in a window that fits i32 *)
Lemma bnd_window lx ly : Bnd lx ly -> 0 <= Phi lx ly ->
  (forall x, (x < nx)%nat -> - (N * Wmax) <= getZ lx x <= Wmax) /\ (forall y, (y < ny)%nat -> 0 <= getZ ly y <= N * Wmax).
Proof.
  intros [B1 B2] Hp. pose proof Phi0_bound as H0. split.
  - intros x Hx. specialize (B1 x Hx). pose proof (l0_bounds x Hx). lia.
  - intros y Hy. specialize (B2 y Hy). lia.
Qed.

(* the label sums that the code also forms outside the range-checked places (equality tests when a tree is started or extended) lie in the
   same window, hence within i32 *)
Lemma bnd_sum_in_range lx ly : Bnd lx ly -> 0 <= Phi lx ly -> forall x y, (x < nx)%nat -> (y < ny)%nat -> inr (getZ lx x + getZ ly y) = true.
Proof.
  intros B Hp x y Hx Hy. destruct (bnd_window lx ly B Hp) as [Bx By]. specialize (Bx x Hx). specialize (By y Hy). pose proof Wmax_nonneg.
  unfold inr. apply andb_true_iff. split; apply Z.leb_le; unfold maxI, minI in *; nia.
Qed.

(* ---------------------------------------------------------------- scan *)
Lemma fold_scan_no_overflow st : forall cells acc,
  (forall x y, In (x, y) cells -> eligible st x y = true ->
     inr (getZ (LX st) x + getZ (LY st) y) && inr (getZ (LX st) x + getZ (LY st) y - W x y) = true) ->
  acc <> Overflow -> fold_left (scan_cell w dx my sy ny st) cells acc <> Overflow.
Proof.
  induction cells as [|[x y] t IH]; intros acc Hc Ha; simpl; [exact Ha|]. apply IH; [intros x0 y0 Hin He; apply Hc; [right; exact Hin|exact He]|].
  destruct acc as [[[dmin nl] nb]| |]; cbn [scan_cell]; try assumption; try discriminate.
  fold (eligible st x y). destruct (eligible st x y) eqn:E; [|discriminate].
  rewrite (Hc x y (or_introl eq_refl) E). destruct (_ =? dmin); [discriminate|]. destruct (_ <? dmin); discriminate.
Qed.

Lemma inr_intro z : minI <= z <= maxI -> inr z = true.
Proof. intros H. unfold inr. apply andb_true_iff. split; apply Z.leb_le; lia. Qed.

Lemma scan_no_overflow u m mm st : PInv u m mm st -> Bnd (LX st) (LY st) -> scan w dx my sy nx ny st <> Overflow.
Proof.
  intros P B. pose proof (p_o _ _ _ _ _ _ _ _ _ _ _ P) as O.
  destruct (bnd_window _ _ B (Phi_nonneg _ _ (o_feas _ _ _ _ _ _ _ _ _ _ _ O))) as [Bx By].
  unfold scan. apply fold_scan_no_overflow; [|discriminate].
  intros x y Hin _. apply in_pairs in Hin. destruct Hin as [Hx Hy]. specialize (Bx x Hx). specialize (By y Hy). pose proof (HW x y).
  pose proof Wmax_nonneg. unfold maxI, minI in *. apply andb_true_iff. split; apply inr_intro; unfold maxI, minI; nia.
Qed.

(* ---------------------------------------------------------------- relabel *)
Lemma sum_relabel_x (lx : list Z) (s : list bool) d : length lx = nx -> length s = nx -> forall L, (forall x, In x L -> (x < nx)%nat) ->
  sumZ (map (getZ (map (fun p : Z * bool => if snd p then fst p - d else fst p) (combine lx s))) L) =
  sumZ (map (getZ lx) L) - d * Z.of_nat (length (filter (getB s) L)).
Proof.
  intros Hl Hs. induction L as [|x t IH]; intros HL; [simpl; lia|]. cbn [map sumZ fold_right filter].
  rewrite (getZ_relabel_x lx s d x) by (try lia; rewrite Hl; apply HL; left; reflexivity).
  specialize (IH (fun x' Hx' => HL x' (or_intror Hx'))). unfold sumZ in IH. rewrite IH.
  destruct (getB s x); cbn [length]; lia.
Qed.
Lemma sum_relabel_y (ly : list Z) (t : list bool) d : length ly = ny -> length t = ny -> forall L, (forall y, In y L -> (y < ny)%nat) ->
  sumZ (map (getZ (map (fun p : Z * bool => if snd p then fst p + d else fst p) (combine ly t))) L) =
  sumZ (map (getZ ly) L) + d * Z.of_nat (length (filter (getB t) L)).
Proof.
  intros Hl Ht. induction L as [|y r IH]; intros HL; [simpl; lia|]. cbn [map sumZ fold_right filter].
  rewrite (getZ_relabel_y ly t d y) by (try lia; rewrite Hl; apply HL; left; reflexivity).
  specialize (IH (fun y' Hy' => HL y' (or_intror Hy'))). unfold sumZ in IH. rewrite IH.
  destruct (getB t y); cbn [length]; lia.
Qed.

Lemma filter_subset_seq (l sk : list bool) n : length l = n -> (forall i, (i < n)%nat -> getB l i = true -> getB sk i = false) ->
  length (filter (getB l) (filter (fun i => negb (getB sk i)) (seq 0 n))) = cntT l.
Proof.
  intros Hl Hs. rewrite <- (count_filter l n Hl). f_equal.
  induction (seq 0 n) as [|i t IH] eqn:E in Hs |- *; [reflexivity|].
  assert (G : forall L, (forall i, In i L -> (i < n)%nat) -> filter (getB l) (filter (fun i => negb (getB sk i)) L) = filter (getB l) L).
  { induction L as [|j r IHr]; intros HL; [reflexivity|]. simpl. destruct (getB sk j) eqn:Ej; simpl.
    - destruct (getB l j) eqn:El; [rewrite (Hs j (HL j (or_introl eq_refl)) El) in Ej; discriminate|]. apply IHr. intros; apply HL; right; assumption.
    - destruct (getB l j); [f_equal|]; apply IHr; intros; apply HL; right; assumption. }
  rewrite <- E. apply G. intros j Hj. apply in_seq in Hj. lia.
Qed.

Lemma relabel_no_overflow u m mm st : PInv u m mm st -> Bnd (LX st) (LY st) -> (forall y, getB (NL st) y = false) ->
  exists st', relabel w dx my sy nx ny st = Ok st' /\ Bnd (LX st') (LY st').
Proof.
  intros P B Hnone. pose proof (scan_inv w dx my sy nx ny st (p_len _ _ _ _ _ _ _ _ _ _ _ P) Hnone) as Hsc.
  pose proof (scan_no_overflow u m mm st P B) as Hno. unfold relabel.
  destruct (scan w dx my sy nx ny st) as [[[dmin nl] nb]| |]; [|destruct Hsc|congruence].
  destruct Hsc as (Hnl & Hnb & Hmax & Hmin & Hmark & Hex).
  pose proof (p_len _ _ _ _ _ _ _ _ _ _ _ P) as Hl. destruct Hl as (HlS & HlSP & HlT & HlTP & HlNL & HlNB & HlLX & HlLY).
  pose proof (p_o _ _ _ _ _ _ _ _ _ _ _ P) as O.
  (* an eligible pair exists, so dmin is a real slack: 0 <= dmin *)
  destruct (progress w dx my sx sy nx ny u m mm st pm P Hpm) as (xe & ye & Hxe & Hye & Hel).
  destruct (Hex (or_intror (ex_intro _ xe (ex_intro _ ye (conj (proj2 (in_pairs nx ny xe ye) (conj Hxe Hye)) Hel))))) as (y1 & Hy1 & Hy1n).
  destruct (Hmark y1 Hy1n) as (x1 & Hin1 & He1 & Hs1 & _). apply in_pairs in Hin1.
  destruct (eligible_split _ _ _ _ _ _ He1) as (HS1 & HT1 & Hsy1 & Ha1).
  assert (Hd0 : 0 <= dmin).
  { pose proof (o_feas _ _ _ _ _ _ _ _ _ _ _ O x1 y1 (S_actR _ _ _ _ _ _ _ _ _ _ _ P x1 (proj1 Hin1) HS1) (conj Hy1 Hsy1) Ha1). unfold slack in Hs1. lia. }
  set (lx' := map (fun p : Z * bool => if snd p then fst p - dmin else fst p) (combine (LX st) (S_ st))).
  set (ly' := map (fun p : Z * bool => if snd p then fst p + dmin else fst p) (combine (LY st) (T_ st))).
  assert (HLX : forall x, (x < nx)%nat -> getZ lx' x = if getB (S_ st) x then getZ (LX st) x - dmin else getZ (LX st) x).
  { intros x Hx. apply getZ_relabel_x; lia. }
  assert (HLY : forall y, (y < ny)%nat -> getZ ly' y = if getB (T_ st) y then getZ (LY st) y + dmin else getZ (LY st) y).
  { intros y Hy. apply getZ_relabel_y; lia. }
  (* the new labels are dual feasible *)
  assert (Hfeas : forall x y, actR x -> actC y -> allowed x y = true -> W x y <= getZ lx' x + getZ ly' y).
  { intros x y Hx Hy Ha. pose proof (o_feas _ _ _ _ _ _ _ _ _ _ _ O x y Hx Hy Ha) as Hf.
    rewrite (HLX x (proj1 Hx)), (HLY y (proj1 Hy)).
    destruct (getB (S_ st) x) eqn:ES, (getB (T_ st) y) eqn:ET; try lia.
    pose proof (Hmin x y (proj2 (in_pairs nx ny x y) (conj (proj1 Hx) (proj1 Hy))) (eligible_join _ _ _ st x y ES ET (proj2 Hy) Ha)) as Hs.
    unfold slack in Hs. lia. }
  (* the objective drops by exactly dmin *)
  assert (HPhi : Phi lx' ly' = Phi (LX st) (LY st) - dmin).
  { unfold Phi, lx', ly'.
    rewrite (sum_relabel_x (LX st) (S_ st) dmin HlLX HlS rowsL) by (intros x Hx; apply in_rowsL in Hx; apply Hx).
    rewrite (sum_relabel_y (LY st) (T_ st) dmin HlLY HlT colsL) by (intros y Hy; apply in_colsL in Hy; apply Hy).
    unfold HP5.rowsL, HP5.colsL.
    rewrite (filter_subset_seq (S_ st) sx nx HlS) by (intros i Hi Hs; apply (S_actR _ _ _ _ _ _ _ _ _ _ _ P i Hi Hs)).
    rewrite (filter_subset_seq (T_ st) sy ny HlT).
    2:{ intros i Hi Ht. destruct (p_T _ _ _ _ _ _ _ _ _ _ _ P i Hi Ht) as (Hm & _).
        destruct (o_match _ _ _ _ _ _ _ _ _ _ _ O i Hi Hm) as ([_ Hc] & _). exact Hc. }
    rewrite (p_cnt _ _ _ _ _ _ _ _ _ _ _ P). lia. }
  (* the bound is preserved *)
  assert (B' : Bnd lx' ly').
  { destruct B as [B1 B2]. split.
    - intros x Hx. specialize (B1 x Hx). rewrite (HLX x Hx), HPhi. destruct (getB (S_ st) x); lia.
    - intros y Hy. specialize (B2 y Hy). rewrite (HLY y Hy), HPhi. destruct (getB (T_ st) y); lia. }
  destruct (bnd_window _ _ B' (Phi_nonneg _ _ Hfeas)) as [Bx By].
  assert (Hchk : forallb inr lx' && forallb inr ly' = true).
  { pose proof Wmax_nonneg. apply andb_true_iff. split; apply forallb_forall; intros z Hz.
    - destruct (In_nth _ _ 0 Hz) as (x & Hx & <-). assert (Hx' : (x < nx)%nat) by (unfold lx' in Hx; rewrite map_length, combine_length in Hx; lia).
      specialize (Bx x Hx'). unfold getZ in Bx. apply inr_intro. unfold maxI, minI in *. nia.
    - destruct (In_nth _ _ 0 Hz) as (y & Hy & <-). assert (Hy' : (y < ny)%nat) by (unfold ly' in Hy; rewrite map_length, combine_length in Hy; lia).
      specialize (By y Hy'). unfold getZ in By. apply inr_intro. unfold maxI, minI in *. nia. }
  fold lx' ly'. rewrite Hchk. eexists. split; [reflexivity|]. cbn [LX LY]. exact B'.
Qed.

Lemma augment_not_overflow : forall fuel u st mm yy xx, augment fuel u st mm yy xx <> Overflow.
Proof. induction fuel as [|f IH]; intros u st mm yy xx; cbn [augment]; [discriminate|]. destruct (Nat.eqb xx u); [discriminate|apply IH]. Qed.

(* ---------------------------------------------------------------- one phase, all phases *)
Lemma grow_no_overflow u m mm : forall fuel st, PInv u m mm st -> Bnd (LX st) (LY st) ->
  match grow w dx my sy nx ny fuel u m mm st with
  | Overflow => False
  | Stuck => True
  | Ok (m1, mm1, lx1, ly1) => Bnd lx1 ly1
  end.
Proof.
  induction fuel as [|fuel IH]; intros st P B; [exact I|]. cbn [grow]. unfold ensure_nl.
  assert (Hst1 : exists st1, (match find_true (NL st) 0 with Some _ => Ok st | None => relabel w dx my sy nx ny st end) = Ok st1 /\
                             PInv u m mm st1 /\ Bnd (LX st1) (LY st1)).
  { destruct (find_true (NL st) 0) as [y|] eqn:E; [exists st; auto|].
    destruct (relabel_no_overflow u m mm st P B (find_true_none _ _ E)) as (st1 & Hr & B1). exists st1. split; [exact Hr|]. split; [|exact B1].
    pose proof (relabel_ok w dx my sx sy nx ny u m mm st P (find_true_none _ _ E)) as R. rewrite Hr in R. apply R. }
  destruct Hst1 as (st1 & -> & P1 & B1).
  destruct (find_true (NL st1) 0) as [y|] eqn:Ey; [|exact I].
  pose proof (p_len _ _ _ _ _ _ _ _ _ _ _ P1) as Hl. destruct Hl as (_ & _ & HlT & _ & HlNL & _).
  apply find_true_some in Ey. rewrite Nat.sub_0_r in Ey. destruct Ey as (_ & Hy & Hyn). rewrite HlNL in Hy.
  destruct (getB m y) eqn:Em.
  - destruct (extend_ok w dx my sx sy nx ny u m mm st1 y P1 Hy Hyn Em) as (P2 & _). apply IH; [exact P2|exact B1].
  - pose proof (augment_not_overflow (S ny) u st1 mm y (getN (NB st1) y)) as Ha.
    destruct (augment (S ny) u st1 mm y (getN (NB st1) y)) as [mm'| |]; [exact B1|exact I|congruence].
Qed.

Lemma phases_no_overflow : forall free m mm lx ly, OInv m mm lx ly -> Bnd lx ly -> NoDup free ->
  (forall x, In x free <-> actR x /\ ~ matched ny m mm x) ->
  match phases w dx my sy nx ny free m mm lx ly with
  | Overflow => False
  | _ => True
  end.
Proof.
  induction free as [|u rest IH]; intros m mm lx ly O B Hnd Hfree; cbn [phases]; [exact I|].
  destruct (proj1 (Hfree u) (or_introl eq_refl)) as [Hu Hum].
  pose proof (init_ok w dx my sx sy nx ny u m mm lx ly O Hu Hum) as P0.
  pose proof (grow_ok w dx my sx sy nx ny true u m mm (fun _ => ex_intro _ pm Hpm) (S (S ny)) _ P0) as G.
  assert (Hc0 : (ny - cntT (T_ (init_tree w dx my sy nx ny u lx ly)) < S (S ny))%nat) by lia. specialize (G Hc0).
  pose proof (grow_no_overflow u m mm (S (S ny)) _ P0 B) as G2.
  destruct (grow w dx my sy nx ny (S (S ny)) u m mm (init_tree w dx my sy nx ny u lx ly)) as [[[[m1 mm1] lx1] ly1]| |]; [|exact I|exact G2].
  destruct G as (O1 & Hmat). inversion Hnd as [|? ? Hnotin Hnd']; subst.
  apply IH; [exact O1|exact G2|exact Hnd'|]. intros x. rewrite Hmat. split.
  - intros Hin. destruct (proj1 (Hfree x) (or_intror Hin)) as [Hx Hxm]. split; [exact Hx|]. intros [Hm | ->]; contradiction.
  - intros [Hx Hn]. destruct (proj2 (Hfree x)) as [Heq|Hin]; [split; [exact Hx|tauto]| |exact Hin]. subst. exfalso. apply Hn. right. reflexivity.
Qed.

Theorem hungarian_no_overflow : hungarian w dx my sx sy nx ny <> Overflow.
Proof.
  unfold hungarian.
  assert (O0 : OInv (repeat false ny) (repeat 0%nat ny) (lx0 w nx) (repeat 0 ny)).
  { constructor.
    - unfold lx0. rewrite !repeat_length, map_length, seq_length. auto.
    - intros x y [Hx _] [Hy _] _. unfold lx0, getZ. rewrite nth_map_seq by exact Hx.
      rewrite nth_repeat_lt. destruct (y <? ny)%nat; rewrite Z.add_0_r; apply (fold_max_ge (row w x) y).
    - intros y Hy H. rewrite getB_repeat_false in H. discriminate.
    - intros y y' _ _ H. rewrite getB_repeat_false in H. discriminate. }
  assert (B0 : Bnd (lx0 w nx) (repeat 0 ny)).
  { assert (E : Phi (lx0 w nx) (repeat 0 ny) = Phi0).
    { unfold Phi, Phi0, l0. assert (G : forall L, sumZ (map (getZ (repeat 0 ny)) L) = 0).
      { induction L as [|y t IH]; [reflexivity|]. cbn [map sumZ fold_right]. unfold sumZ in IH. rewrite IH. unfold getZ. rewrite nth_repeat_lt. destruct (y <? ny)%nat; reflexivity. }
      rewrite G. lia. }
    split; [intros x Hx|intros y Hy]; rewrite E.
    - fold l0. lia.
    - unfold getZ. rewrite nth_repeat_lt. destruct (y <? ny)%nat; lia. }
  assert (Hnm : forall x, ~ matched ny (repeat false ny) (repeat 0%nat ny) x).
  { intros x (y & _ & H & _). rewrite getB_repeat_false in H. discriminate. }
  assert (Hnd : NoDup (free0 sx nx)). { unfold free0. apply NoDup_rev. apply NoDup_filter_seq. }
  assert (Hfr : forall x, In x (free0 sx nx) <-> actR x /\ ~ matched ny (repeat false ny) (repeat 0%nat ny) x).
  { intros x. unfold free0. rewrite <- in_rev. fold rowsL. rewrite in_rowsL. split; [intros H; split; [exact H|apply Hnm]|tauto]. }
  pose proof (phases_no_overflow (free0 sx nx) _ _ _ _ O0 B0 Hnd Hfr) as Ph.
  destruct (phases w dx my sy nx ny (free0 sx nx) (repeat false ny) (repeat 0%nat ny) (lx0 w nx) (repeat 0 ny)) as [[[[m mm] lx] ly]| |]; [discriminate|discriminate|destruct Ph].
Qed.
End P7.
