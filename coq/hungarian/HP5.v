(* Hungarian proof spike, part 5: progress (Hall), initial tree, phase loop, outer loop *)
From Coq Require Import List ZArith Lia Bool Arith Permutation.
Require Import HP1 HP2 HP3 HP4.
Import ListNotations.
Open Scope Z_scope.

Lemma count_filter_off : forall l k, length (filter (fun i => getB l (i - k)) (seq k (length l))) = cntT l.
Proof.
  unfold cntT. induction l as [|b t IH]; intros k; [reflexivity|].
  cbn [length seq filter]. replace (k - k)%nat with 0%nat by lia. unfold getB at 1. cbn [nth].
  rewrite (filter_ext_in _ (fun i => getB t (i - S k))).
  2:{ intros i Hi. apply in_seq in Hi. unfold getB. replace (i - k)%nat with (S (i - S k)) by lia. reflexivity. }
  specialize (IH (S k)). destruct b; cbn [length count_occ]; destruct (bool_dec _ _); try congruence; rewrite IH; reflexivity.
Qed.
Lemma count_filter l n : length l = n -> length (filter (getB l) (seq 0 n)) = cntT l.
Proof.
  intros <-. rewrite <- (count_filter_off l 0). f_equal. apply filter_ext. intros i. rewrite Nat.sub_0_r. reflexivity.
Qed.
Lemma cntT_repeat_false n : cntT (repeat false n) = 0%nat.
Proof. unfold cntT. induction n; simpl; auto. Qed.

Fixpoint partner (pm : list (nat * nat)) (x : nat) : nat :=
  match pm with [] => 0%nat | p :: t => if Nat.eqb (fst p) x then snd p else partner t x end.
Lemma partner_in : forall (pm : list (nat * nat)) x, In x (map fst pm) -> In (x, partner pm x) pm.
Proof.
  induction pm as [|[a b] t IH]; intros x H; [destruct H|]. cbn [partner fst snd].
  destruct (Nat.eqb a x) eqn:E.
  - apply Nat.eqb_eq in E. subst. left. reflexivity.
  - right. apply IH. destruct H as [H|H]; [apply Nat.eqb_neq in E; simpl in H; congruence|exact H].
Qed.
Lemma snd_inj : forall (pm : list (nat * nat)) x1 x2 y, NoDup (map snd pm) -> In (x1, y) pm -> In (x2, y) pm -> x1 = x2.
Proof.
  induction pm as [|[a b] t IH]; intros x1 x2 y Hnd H1 H2; [destruct H1|].
  inversion Hnd as [|? ? Hnot Hnd']; subst. destruct H1 as [H1|H1], H2 as [H2|H2].
  - congruence.
  - inversion H1; subst. exfalso. apply Hnot. apply (in_map snd) in H2. exact H2.
  - inversion H2; subst. exfalso. apply Hnot. apply (in_map snd) in H1. exact H1.
  - eapply IH; eauto.
Qed.
Lemma NoDup_map_inj_in {A B} (f : A -> B) : forall l, NoDup l ->
  (forall a b, In a l -> In b l -> f a = f b -> a = b) -> NoDup (map f l).
Proof.
  induction l as [|a t IH]; intros Hnd Hinj; [constructor|]. inversion Hnd; subst. cbn. constructor.
  - intros Hin. apply in_map_iff in Hin. destruct Hin as (b & Hb & Hbin).
    assert (b = a) by (apply Hinj; [right; exact Hbin|left; reflexivity|exact Hb]). subst. contradiction.
  - apply IH; [assumption|]. intros; apply Hinj; auto; right; assumption.
Qed.
Lemma forallb_false_ex {A} (f : A -> bool) : forall l, forallb f l = false -> exists a, In a l /\ f a = false.
Proof.
  induction l as [|a t IH]; intros H; [discriminate|]. cbn in H. destruct (f a) eqn:E.
  - destruct (IH H) as (b & Hb & Hfb). exists b. split; [right; exact Hb|exact Hfb].
  - exists a. split; [left; reflexivity|exact E].
Qed.
Lemma NoDup_filter_seq f k n : NoDup (filter f (seq k n)).
Proof. apply NoDup_filter, seq_NoDup. Qed.

Section P5.
Variables (w : list (list Z)) (dx my sx sy : list bool) (nx ny : nat).
Notation W := (W w). Notation allowed := (allowed dx my). Notation eligible := (eligible dx my sy).
Notation PInv := (PInv w dx my sx sy nx ny). Notation OInv := (OInv w dx my sx sy nx ny).
Notation actR := (actR sx nx). Notation actC := (actC sy ny). Notation matched := (matched ny).

Definition rowsL : list nat := filter (fun x => negb (getB sx x)) (seq 0 nx).
Definition colsL : list nat := filter (fun y => negb (getB sy y)) (seq 0 ny).
Definition is_pm (pm : list (nat * nat)) : Prop :=
  Permutation (map fst pm) rowsL /\ Permutation (map snd pm) colsL /\ Forall (fun p => allowed (fst p) (snd p) = true) pm.

Lemma in_rowsL x : In x rowsL <-> actR x.
Proof. unfold rowsL, HP2.actR. rewrite filter_In, in_seq, negb_true_iff. intuition lia. Qed.
Lemma in_colsL y : In y colsL <-> actC y.
Proof. unfold colsL, HP2.actC. rewrite filter_In, in_seq, negb_true_iff. intuition lia. Qed.

Lemma progress u m mm st pm : PInv u m mm st -> is_pm pm ->
  exists x y, (x < nx)%nat /\ (y < ny)%nat /\ eligible st x y = true.
Proof.
  intros P (Hr & Hc & Ha).
  pose proof (p_len _ _ _ _ _ _ _ _ _ _ _ P) as Hl. destruct Hl as (HlS & _ & HlT & _).
  set (Sx := filter (getB (S_ st)) (seq 0 nx)). set (Tl := filter (getB (T_ st)) (seq 0 ny)).
  assert (HSx : length Sx = S (length Tl)).
  { unfold Sx, Tl. rewrite (count_filter _ _ HlS), (count_filter _ _ HlT). apply (p_cnt _ _ _ _ _ _ _ _ _ _ _ P). }
  assert (HinS : forall x, In x Sx -> (x < nx)%nat /\ getB (S_ st) x = true /\ In (x, partner pm x) pm).
  { intros x Hx. unfold Sx in Hx. apply filter_In in Hx. destruct Hx as [Hx Hs]. apply in_seq in Hx.
    split; [lia|]. split; [exact Hs|]. apply partner_in. apply (Permutation_in _ (Permutation_sym Hr)).
    apply in_rowsL. apply (S_actR _ _ _ _ _ _ _ _ _ _ _ P); [lia|exact Hs]. }
  assert (Hcol : forall x y, In (x, y) pm -> actC y /\ allowed x y = true).
  { intros x y Hin. split.
    - apply in_colsL. apply (Permutation_in _ Hc). apply (in_map snd) in Hin. exact Hin.
    - rewrite Forall_forall in Ha. apply (Ha (x, y) Hin). }
  destruct (forallb (fun x => getB (T_ st) (partner pm x)) Sx) eqn:E.
  - exfalso. rewrite forallb_forall in E.
    assert (Hnd : NoDup (map (partner pm) Sx)).
    { apply NoDup_map_inj_in; [apply NoDup_filter_seq|]. intros a b Ha' Hb' He.
      destruct (HinS a Ha') as (_ & _ & Hpa). destruct (HinS b Hb') as (_ & _ & Hpb). rewrite He in Hpa.
      apply (snd_inj pm a b (partner pm b)); auto.
      apply (Permutation_NoDup (Permutation_sym Hc)). apply NoDup_filter_seq. }
    assert (Hincl : incl (map (partner pm) Sx) Tl).
    { intros y Hy. apply in_map_iff in Hy. destruct Hy as (x & <- & Hx). unfold Tl. apply filter_In. split; [|apply E, Hx].
      destruct (HinS x Hx) as (_ & _ & Hp). destruct (Hcol _ _ Hp) as [[Hlt _] _]. apply in_seq. lia. }
    pose proof (NoDup_incl_length Hnd Hincl) as Hle. rewrite map_length in Hle. lia.
  - destruct (forallb_false_ex _ _ E) as (x & Hx & Hf). destruct (HinS x Hx) as (Hxn & Hs & Hp).
    destruct (Hcol _ _ Hp) as [[Hyn Hsy] Hal].
    exists x, (partner pm x). split; [exact Hxn|]. split; [exact Hyn|].
    apply eligible_join; assumption.
Qed.

(* ---------- initial tree of a phase ---------- *)
Lemma init_ok u m mm lx ly : OInv m mm lx ly -> actR u -> ~ matched m mm u ->
  PInv u m mm (init_tree w dx my sy nx ny u lx ly).
Proof.
  intros O Hu Hum. destruct (o_len _ _ _ _ _ _ _ _ _ _ _ O) as (Hlm & Hlmm & Hllx & Hlly).
  destruct Hu as [Hux Husx].
  assert (HS : forall x, getB (upd (repeat false nx) u true) x = true -> x = u).
  { intros x H. destruct (Nat.eq_dec u x) as [->|Hne]; [reflexivity|]. rewrite getB_upd_neq, getB_repeat_false in H by exact Hne. discriminate. }
  constructor; unfold init_tree; cbn [S_ SP T_ TP NL NB LX LY].
  - unfold tlen; cbn [S_ SP T_ TP NL NB LX LY]. rewrite upd_length, !repeat_length, map_length, seq_length. repeat split; auto.
  - exact O.
  - repeat split; auto. apply getB_upd_eq. rewrite repeat_length. exact Hux.
  - intros y Hy Ht. rewrite getB_repeat_false in Ht. discriminate.
  - intros x Hx Hs. left. apply HS, Hs.
  - intros y Hy Hn. rewrite getB_map_seq in Hn by exact Hy.
    apply andb_prop in Hn. destruct Hn as [Hn Ha]. apply andb_prop in Hn. destruct Hn as [Hsy Ht].
    apply negb_true_iff in Hsy. apply Z.eqb_eq in Ht.
    assert (Hnb : getN (repeat u ny) y = u). { unfold getN. rewrite nth_repeat_lt. destruct (y <? ny)%nat eqn:E; [reflexivity|apply Nat.ltb_ge in E; lia]. }
    rewrite Hnb. repeat split; auto. apply getB_repeat_false. apply getB_upd_eq. rewrite repeat_length. exact Hux.
  - exists (fun _ => 0%nat). split; [reflexivity|]. split.
    + intros y Hy Ht. rewrite getB_repeat_false in Ht. discriminate.
    + intros; lia.
  - rewrite cntT_upd_true, !cntT_repeat_false; [reflexivity|rewrite repeat_length; exact Hux|apply getB_repeat_false].
Qed.

(* ---------- one phase ---------- *)
(* strict = true: a perfect allowed matching exists, so the run may not get stuck (total correctness);
   strict = false: nothing assumed, Stuck is an admitted outcome (partial correctness, enough for C01/C08) *)
Definition PhasePost (strict : bool) (u : nat) (m : list bool) (mm : list nat) (r : res (list bool * list nat * list Z * list Z)) : Prop :=
  match r with
  | Stuck => strict = false
  | Overflow => True
  | Ok (m1, mm1, lx1, ly1) => OInv m1 mm1 lx1 ly1 /\ (forall x, matched m1 mm1 x <-> matched m mm x \/ x = u)
  end.

Lemma grow_ok strict u m mm : (strict = true -> exists pm, is_pm pm) -> forall fuel st, PInv u m mm st -> (ny - cntT (T_ st) < fuel)%nat ->
  PhasePost strict u m mm (grow w dx my sy nx ny fuel u m mm st).
Proof.
  intros Hpm. induction fuel as [|fuel IH]; intros st P Hf; [lia|].
  cbn [grow]. unfold ensure_nl.
  assert (Hst1 : match (match find_true (NL st) 0 with Some _ => Ok st | None => relabel w dx my sy nx ny st end) with
                 | Stuck => False | Overflow => True
                 | Ok st1 => PInv u m mm st1 /\ cntT (T_ st1) = cntT (T_ st) /\ (strict = true -> exists y, find_true (NL st1) 0 = Some y) end).
  { destruct (find_true (NL st) 0) as [y|] eqn:E.
    - split; [exact P|]. split; [reflexivity|]. intros _. exists y. exact E.
    - pose proof (relabel_ok w dx my sx sy nx ny u m mm st P (find_true_none _ _ E)) as R.
      destruct (relabel w dx my sy nx ny st) as [st1| |]; auto.
      destruct R as (P1 & Hc & Hex). split; [exact P1|]. split; [exact Hc|]. intros Hs. destruct (Hpm Hs) as (pm & Hpm').
      destruct (Hex (progress u m mm st pm P Hpm')) as (y & Hy & Hyn).
      destruct (find_true (NL st1) 0) as [y1|] eqn:E1; [exists y1; reflexivity|].
      rewrite (find_true_none _ _ E1 y) in Hyn. discriminate. }
  destruct (match find_true (NL st) 0 with Some _ => Ok st | None => relabel w dx my sy nx ny st end) as [st1| |]; [|destruct Hst1|exact I].
  destruct Hst1 as (P1 & Hc & Hsome).
  destruct (find_true (NL st1) 0) as [y|] eqn:Ey.
  2:{ cbn. destruct strict; [|reflexivity]. destruct (Hsome eq_refl) as (y & Hy). discriminate. }
  pose proof (p_len _ _ _ _ _ _ _ _ _ _ _ P1) as Hl. destruct Hl as (_ & _ & HlT & _ & HlNL & _).
  apply find_true_some in Ey. rewrite Nat.sub_0_r in Ey. destruct Ey as (_ & Hy & Hyn). rewrite HlNL in Hy.
  destruct (getB m y) eqn:Em.
  - destruct (extend_ok w dx my sx sy nx ny u m mm st1 y P1 Hy Hyn Em) as (P2 & Hc2).
    apply IH; [exact P2|]. pose proof (cntT_le_length (T_ (extend w dx my sy ny st1 y (getN mm y)))) as Hb.
    rewrite (proj1 (proj2 (proj2 (p_len _ _ _ _ _ _ _ _ _ _ _ P2)))) in Hb. lia.
  - destruct (p_rk _ _ _ _ _ _ _ _ _ _ _ P1) as (rk & Hr0 & HrT & Hrb).
    destruct (p_NL _ _ _ _ _ _ _ _ _ _ _ P1 y Hy Hyn) as (HTy & Hsyy & Hnbx & HSnb & Hanb & Htnb).
    pose proof (p_o _ _ _ _ _ _ _ _ _ _ _ P1) as O.
    destruct (augment_ok w dx my sx sy nx ny u m mm st1 y rk P1 Hy Em Hr0 HrT (S ny) mm y (getN (NB st1) y)) as (mm' & Ea & O' & Hmat).
    + constructor.
      * apply (o_len _ _ _ _ _ _ _ _ _ _ _ O).
      * repeat split; auto. apply getB_upd_eq. rewrite (proj1 (o_len _ _ _ _ _ _ _ _ _ _ _ O)). exact Hy.
      * repeat split; auto.
      * intros y' Hy' Hne Hm'. left. split; [|reflexivity]. rewrite getB_upd_neq in Hm' by auto. exact Hm'.
      * intros y1 y2 Hy1 Hy2 Hn1 Hn2 Hm1 Hm2 He. rewrite getB_upd_neq in Hm1, Hm2 by auto.
        apply (o_inj _ _ _ _ _ _ _ _ _ _ _ O y1 y2); auto.
      * intros y' Hy' Hm'. exists y'. repeat split; auto; [congruence|apply getB_upd_true_mono, Hm'].
      * left. reflexivity.
      * intros; reflexivity.
    + specialize (Hrb _ Hnbx HSnb). pose proof (cntT_le_length (T_ st1)) as Hb. rewrite HlT in Hb. lia.
    + rewrite Ea. cbn. split; [exact O'|exact Hmat].
Qed.
End P5.
