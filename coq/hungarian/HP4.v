(* Hungarian proof spike, part 4: augmentation along the alternating path *)
From Coq Require Import List ZArith Lia Bool Arith Permutation.
Require Import HP1 HP2 HP3.
Import ListNotations.
Open Scope Z_scope.

Section P4.
Variables (w : list (list Z)) (dx my sx sy : list bool) (nx ny : nat).
Notation W := (W w). Notation allowed := (allowed dx my).
Notation PInv := (PInv w dx my sx sy nx ny). Notation OInv := (OInv w dx my sx sy nx ny).
Notation actR := (actR sx nx). Notation actC := (actC sy ny). Notation matched := (matched ny).

Section Aug.
Variables (u : nat) (m : list bool) (mm : list nat) (st : tree) (y0 : nat) (rk : nat -> nat).
Hypothesis P : PInv u m mm st.
Hypothesis Hy0 : (y0 < ny)%nat.
Hypothesis Hm0 : getB m y0 = false.
Hypothesis Hr0 : rk u = 0%nat.
Hypothesis HrT : forall y, (y < ny)%nat -> getB (T_ st) y = true -> rk (getN mm y) = S (rk (getN (TP st) y)).

Let m' := upd m y0 true.
Let tightp (x y : nat) := W x y = getZ (LX st) x + getZ (LY st) y.

Record AInv (cur : list nat) (yy xx : nat) : Prop := {
  a_len : length cur = ny;
  a_yy : (yy < ny)%nat /\ getB m' yy = true /\ getB sy yy = false;
  a_xx : (xx < nx)%nat /\ getB (S_ st) xx = true /\ allowed xx yy = true /\ tightp xx yy;
  a_col : forall y, (y < ny)%nat -> y <> yy -> getB m' y = true ->
          (getB m y = true /\ getN cur y = getN mm y) \/
          ((getN cur y < nx)%nat /\ getB (S_ st) (getN cur y) = true /\ (rk xx < rk (getN cur y))%nat /\
           getB sy y = false /\ allowed (getN cur y) y = true /\ tightp (getN cur y) y);
  a_inj : forall y y', (y < ny)%nat -> (y' < ny)%nat -> y <> yy -> y' <> yy -> getB m' y = true -> getB m' y' = true ->
          getN cur y = getN cur y' -> y = y';
  a_keep : forall y, (y < ny)%nat -> getB m y = true ->
          exists y', (y' < ny)%nat /\ y' <> yy /\ getB m' y' = true /\ getN cur y' = getN mm y;
  a_open : yy = y0 \/ (getB (T_ st) yy = true /\ (rk xx < rk (getN mm yy))%nat);
  a_low : forall y, (y < ny)%nat -> getB (T_ st) y = true -> (rk (getN mm y) <= rk xx)%nat -> y <> yy -> getN cur y = getN mm y
}.

Lemma m'_of_m y : getB m y = true -> getB m' y = true.
Proof. intros H. unfold m'. apply getB_upd_true_mono, H. Qed.
Lemma m_of_m' y : y <> y0 -> getB m' y = true -> getB m y = true.
Proof. intros Hne H. unfold m' in H. rewrite getB_upd_neq in H by auto. exact H. Qed.
Lemma lenm : length m = ny. Proof. apply (o_len _ _ _ _ _ _ _ _ _ _ _ (p_o _ _ _ _ _ _ _ _ _ _ _ P)). Qed.

(* a row of S other than u is the partner of the T-column SP points to *)
Lemma S_row_partner x : (x < nx)%nat -> getB (S_ st) x = true -> x <> u ->
  let y := getN (SP st) x in (y < ny)%nat /\ getB (T_ st) y = true /\ getN mm y = x /\ getB m y = true.
Proof.
  intros Hx Hs Hne. destruct (p_S _ _ _ _ _ _ _ _ _ _ _ P x Hx Hs) as [->|(y & Hy & Ht & He)]; [congruence|].
  destruct (p_T _ _ _ _ _ _ _ _ _ _ _ P y Hy Ht) as (H1 & H2 & H3 & _). rewrite He in H3. cbn. rewrite H3. auto.
Qed.

Lemma augment_ok : forall fuel cur yy xx, AInv cur yy xx -> (rk xx < fuel)%nat ->
  exists mm', augment fuel u st cur yy xx = Ok mm' /\
    OInv m' mm' (LX st) (LY st) /\ (forall x, matched m' mm' x <-> matched m mm x \/ x = u).
Proof.
  pose proof (p_o _ _ _ _ _ _ _ _ _ _ _ P) as O.
  induction fuel as [|fuel IH]; intros cur yy xx A Hf; [lia|].
  cbn [augment].
  destruct (a_yy _ _ _ A) as (Hyy & Hmyy & Hsyy). destruct (a_xx _ _ _ A) as (Hxx & HSxx & Haxx & Htxx).
  pose proof (a_len _ _ _ A) as Hlc.
  destruct (Nat.eqb xx u) eqn:Exu.
  - (* reached the root: done *)
    apply Nat.eqb_eq in Exu. subst xx. exists (upd cur yy u). split; [reflexivity|]. split.
    + constructor.
      * destruct (o_len _ _ _ _ _ _ _ _ _ _ _ O) as (?&?&?&?). unfold m'. rewrite !upd_length. auto.
      * apply (o_feas _ _ _ _ _ _ _ _ _ _ _ O).
      * intros y Hy Hmy. destruct (Nat.eq_dec y yy) as [->|Hne].
        -- rewrite getN_upd_eq by lia. repeat split; try assumption; apply (p_u _ _ _ _ _ _ _ _ _ _ _ P).
        -- rewrite getN_upd_neq by auto. destruct (a_col _ _ _ A y Hy Hne Hmy) as [[Hm He]|(H1 & H2 & H3 & H4 & H5 & H6)].
           ++ rewrite He. apply (o_match _ _ _ _ _ _ _ _ _ _ _ O y Hy Hm).
           ++ repeat split; try assumption; apply (S_actR _ _ _ _ _ _ _ _ _ _ _ P _ H1 H2).
      * intros y y' Hy Hy' Hmy Hmy' He.
        destruct (Nat.eq_dec y yy) as [->|Hne], (Nat.eq_dec y' yy) as [->|Hne']; try reflexivity.
        -- exfalso. rewrite getN_upd_eq in He by lia. rewrite getN_upd_neq in He by auto.
           destruct (a_col _ _ _ A y' Hy' Hne' Hmy') as [[Hm He']|(H1 & H2 & H3 & _)].
           ++ apply (proj1 (proj2 (p_u _ _ _ _ _ _ _ _ _ _ _ P))). exists y'. repeat split; auto. congruence.
           ++ rewrite <- He in H3. lia.
        -- exfalso. rewrite getN_upd_eq in He by lia. rewrite getN_upd_neq in He by auto.
           destruct (a_col _ _ _ A y Hy Hne Hmy) as [[Hm He']|(H1 & H2 & H3 & _)].
           ++ apply (proj1 (proj2 (p_u _ _ _ _ _ _ _ _ _ _ _ P))). exists y. repeat split; auto. congruence.
           ++ rewrite He in H3. lia.
        -- rewrite !getN_upd_neq in He by auto. apply (a_inj _ _ _ A y y'); auto.
    + intros x. split.
      * intros (y & Hy & Hmy & He). destruct (Nat.eq_dec y yy) as [->|Hne].
        -- rewrite getN_upd_eq in He by lia. right. auto.
        -- rewrite getN_upd_neq in He by auto. destruct (a_col _ _ _ A y Hy Hne Hmy) as [[Hm He']|(H1 & H2 & _)].
           ++ left. exists y. repeat split; auto. congruence.
           ++ rewrite He in H1, H2. destruct (Nat.eq_dec x u) as [->|Hxu]; [right; reflexivity|left].
              destruct (S_row_partner x H1 H2 Hxu) as (Hy1 & _ & He1 & Hm1). exists (getN (SP st) x). auto.
      * intros [(y & Hy & Hm & He) | ->].
        -- destruct (a_keep _ _ _ A y Hy Hm) as (y' & Hy' & Hne' & Hm'y & He'). exists y'. repeat split; auto.
           rewrite getN_upd_neq by auto. congruence.
        -- exists yy. repeat split; auto. apply getN_upd_eq. lia.
  - (* one more step along the path *)
    apply Nat.eqb_neq in Exu.
    destruct (S_row_partner xx Hxx HSxx Exu) as (Hy1 & HT1 & He1 & Hm1). set (yy' := getN (SP st) xx) in *.
    destruct (p_T _ _ _ _ _ _ _ _ _ _ _ P yy' Hy1 HT1) as (_ & _ & _ & Hx1 & HS1 & Ha1 & Ht1). set (xx' := getN (TP st) yy') in *.
    assert (Hrk : rk xx = S (rk xx')). { rewrite <- He1. apply HrT; assumption. }
    assert (Hneyy : yy' <> yy).
    { intros E. destruct (a_open _ _ _ A) as [Ho|[Ho1 Ho2]].
      - rewrite E, Ho in Hm1. congruence.
      - rewrite <- E, He1 in Ho2. lia. }
    assert (Hcur1 : getN cur yy' = xx). { rewrite <- He1. apply (a_low _ _ _ A); auto. rewrite He1. lia. }
    apply IH; [|lia].
    constructor.
    + rewrite upd_length. exact Hlc.
    + repeat split; auto. apply m'_of_m, Hm1. apply (o_match _ _ _ _ _ _ _ _ _ _ _ O yy' Hy1 Hm1).
    + repeat split; auto.
    + intros y Hy Hne Hmy. destruct (Nat.eq_dec y yy) as [->|Hney].
      * right. rewrite getN_upd_eq by lia. repeat split; auto. lia.
      * rewrite getN_upd_neq by auto. destruct (a_col _ _ _ A y Hy Hney Hmy) as [H|(H1 & H2 & H3 & H4)]; [left; exact H|right].
        repeat split; try assumption; try apply H4. lia.
    + intros y y' Hy Hy' Hne Hne' Hmy Hmy' He.
      destruct (Nat.eq_dec y yy) as [->|Hn1], (Nat.eq_dec y' yy) as [->|Hn2]; try reflexivity.
      * exfalso. rewrite getN_upd_eq in He by lia. rewrite getN_upd_neq in He by auto.
        destruct (a_col _ _ _ A y' Hy' Hn2 Hmy') as [[Hm He']|(H1 & H2 & H3 & _)].
        -- apply Hne'. apply (o_inj _ _ _ _ _ _ _ _ _ _ _ O y' yy' Hy' Hy1 Hm Hm1). congruence.
        -- rewrite <- He in H3. lia.
      * exfalso. rewrite getN_upd_eq in He by lia. rewrite getN_upd_neq in He by auto.
        destruct (a_col _ _ _ A y Hy Hn1 Hmy) as [[Hm He']|(H1 & H2 & H3 & _)].
        -- apply Hne. apply (o_inj _ _ _ _ _ _ _ _ _ _ _ O y yy' Hy Hy1 Hm Hm1). congruence.
        -- rewrite He in H3. lia.
      * rewrite !getN_upd_neq in He by auto. apply (a_inj _ _ _ A y y'); auto.
    + intros y Hy Hm. destruct (a_keep _ _ _ A y Hy Hm) as (y' & Hy' & Hne' & Hm'y & He').
      destruct (Nat.eq_dec y' yy') as [->|Hn].
      * exists yy. repeat split; auto. rewrite getN_upd_eq by lia. congruence.
      * exists y'. repeat split; auto. rewrite getN_upd_neq by auto. exact He'.
    + right. split; [exact HT1|]. rewrite He1. lia.
    + intros y Hy Ht Hle Hne. destruct (Nat.eq_dec y yy) as [->|Hn].
      * exfalso. destruct (a_open _ _ _ A) as [Ho|[Ho1 Ho2]].
        -- subst yy. destruct (p_T _ _ _ _ _ _ _ _ _ _ _ P y0 Hy Ht) as (Hmm & _). congruence.
        -- lia.
      * rewrite getN_upd_neq by auto. apply (a_low _ _ _ A); auto. lia.
Qed.
End Aug.
End P4.
