(* Hungarian proof spike, part 6: outer loop and the final theorem (C07 for the model) *)
From Coq Require Import List ZArith Lia Bool Arith Permutation.
Require Import HP1 HP2 HP3 HP4 HP5 Cert.
Import ListNotations.
Open Scope Z_scope.

Lemma fold_max_start : forall l a, a <= fold_left Z.max l a.
Proof. induction l as [|b t IH]; intros a; cbn [fold_left]; [lia|]. specialize (IH (Z.max a b)). lia. Qed.
Lemma fold_max_nth : forall l a y, (y < length l)%nat -> nth y l 0 <= fold_left Z.max l a.
Proof.
  induction l as [|b t IH]; intros a y Hy; cbn [length] in Hy; [lia|]. cbn [fold_left].
  destruct y as [|y]; cbn [nth].
  - pose proof (fold_max_start t (Z.max a b)). lia.
  - apply IH. lia.
Qed.
Lemma fold_max_ge l y : nth y l 0 <= fold_left Z.max l 0.
Proof.
  destruct (lt_dec y (length l)) as [H|H]; [apply fold_max_nth, H|].
  rewrite nth_overflow by lia. apply fold_max_start.
Qed.

Lemma fold_skip_sum (c : nat -> bool) (g : nat -> Z) : forall l a,
  fold_left (fun acc y => if c y then acc else acc + g y) l a = a + sumZ (map g (filter (fun y => negb (c y)) l)).
Proof.
  unfold sumZ. induction l as [|y t IH]; intros a; cbn [fold_left filter map fold_right]; [lia|].
  rewrite IH. destruct (c y); cbn [negb map fold_right]; lia.
Qed.

Section P6.
Variables (w : list (list Z)) (dx my sx sy : list bool) (nx ny : nat).
Notation W := (HP1.W w). Notation allowed := (HP1.allowed dx my).
Notation PInv := (PInv w dx my sx sy nx ny). Notation OInv := (OInv w dx my sx sy nx ny).
Notation actR := (actR sx nx). Notation actC := (actC sy ny). Notation matched := (matched ny).
Notation rowsL := (rowsL sx nx). Notation colsL := (colsL sy ny). Notation is_pm := (HP5.is_pm dx my sx sy nx ny).

Definition matchedb (m : list bool) (mm : list nat) (x : nat) : bool :=
  existsb (fun y => getB m y && Nat.eqb (getN mm y) x) (seq 0 ny).
Lemma matchedb_spec m mm x : matchedb m mm x = true <-> matched m mm x.
Proof.
  unfold matchedb, HP2.matched. rewrite existsb_exists. split.
  - intros (y & Hy & H). apply in_seq in Hy. apply andb_prop in H. destruct H as [H1 H2]. apply Nat.eqb_eq in H2. exists y. repeat split; auto; lia.
  - intros (y & Hy & H1 & H2). exists y. split; [apply in_seq; lia|]. rewrite H1, H2, Nat.eqb_refl. reflexivity.
Qed.

Lemma phases_ok strict : (strict = true -> exists pm, is_pm pm) -> forall free m mm lx ly, OInv m mm lx ly -> NoDup free ->
  (forall x, In x free <-> actR x /\ ~ matched m mm x) ->
  match phases w dx my sy nx ny free m mm lx ly with
  | Stuck => strict = false | Overflow => True
  | Ok (m1, mm1, lx1, ly1) => OInv m1 mm1 lx1 ly1 /\ forall x, actR x -> matched m1 mm1 x
  end.
Proof.
  intros Hpm. induction free as [|u rest IH]; intros m mm lx ly O Hnd Hfree; cbn [phases].
  - split; [exact O|]. intros x Hx. apply matchedb_spec. destruct (matchedb m mm x) eqn:E; [reflexivity|].
    exfalso. apply (proj2 (Hfree x)). split; [exact Hx|]. intros Hm. apply matchedb_spec in Hm. congruence.
  - destruct (proj1 (Hfree u) (or_introl eq_refl)) as [Hu Hum].
    pose proof (init_ok w dx my sx sy nx ny u m mm lx ly O Hu Hum) as P0.
    pose proof (grow_ok w dx my sx sy nx ny strict u m mm Hpm (S (S ny)) _ P0) as G.
    assert (Hc0 : (ny - cntT (T_ (init_tree w dx my sy nx ny u lx ly)) < S (S ny))%nat) by lia.
    specialize (G Hc0).
    destruct (grow w dx my sy nx ny (S (S ny)) u m mm (init_tree w dx my sy nx ny u lx ly)) as [[[[m1 mm1] lx1] ly1]| |]; [|exact G|exact I].
    destruct G as (O1 & Hmat). inversion Hnd as [|? ? Hnotin Hnd']; subst.
    apply IH; [exact O1|exact Hnd'|]. intros x. rewrite Hmat. split.
    + intros Hin. destruct (proj1 (Hfree x) (or_intror Hin)) as [Hx Hxm]. split; [exact Hx|].
      intros [Hm | ->]; [contradiction|contradiction].
    + intros [Hx Hn]. destruct (proj2 (Hfree x)) as [Heq|Hin]; [split; [exact Hx|tauto]| |exact Hin].
      subst. exfalso. apply Hn. right. reflexivity.
Qed.

Definition weight (pm : list (nat * nat)) : Z := sumZ (map (fun p => W (fst p) (snd p)) pm).
Definition pairs_of (mm : list nat) : list (nat * nat) := map (fun y => (getN mm y, y)) colsL.

Theorem hungarian_gen strict : (strict = true -> exists pm, is_pm pm) -> length rowsL = length colsL ->
  match hungarian w dx my sx sy nx ny with
  | Stuck => strict = false
  | Overflow => True
  | Ok (mm, s, lx, ly) => is_pm (pairs_of mm) /\ s = weight (pairs_of mm) /\ forall pm', is_pm pm' -> weight pm' <= s
  end.
Proof.
  intros Hpm Hlen. unfold hungarian.
  (* initial outer invariant *)
  assert (O0 : OInv (repeat false ny) (repeat 0%nat ny) (lx0 w nx) (repeat 0 ny)).
  { constructor.
    - unfold lx0. rewrite !repeat_length, map_length, seq_length. auto.
    - intros x y [Hx _] [Hy _] _. unfold lx0, getZ. rewrite nth_map_seq by exact Hx.
      rewrite nth_repeat_lt. destruct (y <? ny)%nat; rewrite Z.add_0_r; apply (fold_max_ge (row w x) y).
    - intros y Hy H. rewrite getB_repeat_false in H. discriminate.
    - intros y y' _ _ H. rewrite getB_repeat_false in H. discriminate. }
  assert (Hnm : forall x, ~ matched (repeat false ny) (repeat 0%nat ny) x).
  { intros x (y & _ & H & _). rewrite getB_repeat_false in H. discriminate. }
  pose proof (phases_ok strict Hpm (free0 sx nx) _ _ _ _ O0) as Ph.
  assert (Hnd : NoDup (free0 sx nx)). { unfold free0. apply NoDup_rev. apply NoDup_filter_seq. }
  assert (Hfr : forall x, In x (free0 sx nx) <-> actR x /\ ~ matched (repeat false ny) (repeat 0%nat ny) x).
  { intros x. unfold free0. rewrite <- in_rev. fold rowsL. rewrite in_rowsL. split; [intros H; split; [exact H|apply Hnm]|tauto]. }
  specialize (Ph Hnd Hfr).
  destruct (phases w dx my sy nx ny (free0 sx nx) (repeat false ny) (repeat 0%nat ny) (lx0 w nx) (repeat 0 ny)) as [[[[m mm] lx] ly]| |]; [|exact Ph|exact I].
  destruct Ph as (O & Hall).
  destruct (o_len _ _ _ _ _ _ _ _ _ _ _ O) as (Hlm & Hlmm & Hllx & Hlly).
  set (Ml := filter (getB m) (seq 0 ny)).
  assert (HMl : forall y, In y Ml <-> (y < ny)%nat /\ getB m y = true).
  { intros y. unfold Ml. rewrite filter_In, in_seq. intuition lia. }
  assert (Hall_m : forall y, actC y -> getB m y = true).
  { assert (H1 : incl rowsL (map (getN mm) Ml)).
    { intros x Hx. apply in_rowsL in Hx. destruct (Hall x Hx) as (y & Hy & Hm & He). apply in_map_iff. exists y. split; [exact He|apply HMl; auto]. }
    pose proof (NoDup_incl_length (NoDup_filter_seq _ 0 nx) H1) as L1. rewrite map_length in L1.
    assert (H3 : incl Ml colsL).
    { intros y Hy. apply HMl in Hy. apply in_colsL. apply (o_match _ _ _ _ _ _ _ _ _ _ _ O y (proj1 Hy) (proj2 Hy)). }
    assert (H4 : incl colsL Ml).
    { apply (NoDup_length_incl (NoDup_filter_seq _ 0 ny)); [unfold HP5.rowsL, HP5.colsL in *; subst Ml; lia|exact H3]. }
    intros y Hy. apply in_colsL in Hy. apply H4 in Hy. apply HMl in Hy. apply Hy. }
  assert (Hcol : forall y, In y colsL -> (y < ny)%nat /\ getB m y = true).
  { intros y Hy. apply in_colsL in Hy. split; [apply Hy|apply Hall_m, Hy]. }
  (* the result is a perfect matching *)
  assert (Hpm' : is_pm (pairs_of mm)).
  { unfold HP5.is_pm, pairs_of. rewrite !map_map. cbn [fst snd]. rewrite map_id. split; [|split].
    - apply NoDup_Permutation_bis.
      + apply NoDup_map_inj_in; [apply NoDup_filter_seq|]. intros a b Ha Hb He.
        destruct (Hcol a Ha), (Hcol b Hb). apply (o_inj _ _ _ _ _ _ _ _ _ _ _ O a b); auto.
      + rewrite map_length. fold colsL. lia.
      + intros x Hx. apply in_map_iff in Hx. destruct Hx as (y & <- & Hy). destruct (Hcol y Hy) as [Hy1 Hy2].
        apply in_rowsL. apply (o_match _ _ _ _ _ _ _ _ _ _ _ O y Hy1 Hy2).
    - apply Permutation_refl.
    - apply Forall_forall. intros p Hp. apply in_map_iff in Hp. destruct Hp as (y & <- & Hy). destruct (Hcol y Hy) as [Hy1 Hy2].
      cbn [fst snd]. apply (o_match _ _ _ _ _ _ _ _ _ _ _ O y Hy1 Hy2). }
  split; [exact Hpm'|]. split.
  - rewrite fold_skip_sum. unfold weight, pairs_of. rewrite map_map. cbn [fst snd]. fold colsL. lia.
  - intros pm' Hpm''.
    assert (Hs : fold_left (fun acc y => if getB sy y then acc else acc + W (getN mm y) y) (seq 0 ny) 0 = weight (pairs_of mm)).
    { rewrite fold_skip_sum. unfold weight, pairs_of. rewrite map_map. cbn [fst snd]. fold colsL. lia. }
    rewrite Hs.
    apply (cert_sound W (getZ lx) (getZ ly) allowed rowsL colsL (pairs_of mm)).
    + intros x y Hx Hy Ha. apply in_rowsL in Hx. apply in_colsL in Hy. apply (o_feas _ _ _ _ _ _ _ _ _ _ _ O x y Hx Hy Ha).
    + exact Hpm'.
    + unfold tight, pairs_of. apply Forall_forall. intros p Hp. apply in_map_iff in Hp. destruct Hp as (y & <- & Hy).
      destruct (Hcol y Hy) as [Hy1 Hy2]. cbn [fst snd]. apply (o_match _ _ _ _ _ _ _ _ _ _ _ O y Hy1 Hy2).
    + exact Hpm''.
Qed.

(* total correctness: a perfect allowed matching exists => never stuck, result optimal *)
Corollary hungarian_correct pm : is_pm pm ->
  match hungarian w dx my sx sy nx ny with
  | Stuck => False
  | Overflow => True
  | Ok (mm, s, lx, ly) => is_pm (pairs_of mm) /\ s = weight (pairs_of mm) /\ forall pm', is_pm pm' -> weight pm' <= s
  end.
Proof.
  intros Hpm. assert (Hlen : length rowsL = length colsL).
  { destruct Hpm as (Hpr & Hpc & _). rewrite <- (Permutation_length Hpr), <- (Permutation_length Hpc), !map_length. reflexivity. }
  pose proof (hungarian_gen true (fun _ => ex_intro _ pm Hpm) Hlen) as H.
  destruct (hungarian w dx my sx sy nx ny) as [[[[mm s] lx] ly]| |]; auto. discriminate.
Qed.
(* partial correctness: whenever it answers, the answer is a valid optimal matching (only equal active counts needed) *)
Corollary hungarian_partial : length rowsL = length colsL ->
  match hungarian w dx my sx sy nx ny with
  | Ok (mm, s, lx, ly) => is_pm (pairs_of mm) /\ s = weight (pairs_of mm) /\ forall pm', is_pm pm' -> weight pm' <= s
  | _ => True
  end.
Proof.
  intros Hlen. pose proof (hungarian_gen false (fun H => match Bool.diff_false_true H with end) Hlen) as H.
  destruct (hungarian w dx my sx sy nx ny) as [[[[mm s] lx] ly]| |]; auto.
Qed.
End P6.
