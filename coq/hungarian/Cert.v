From Coq Require Import List ZArith Lia Bool Permutation.
Import ListNotations.
Open Scope Z_scope.

Definition sumZ (l : list Z) : Z := fold_right Z.add 0 l.

Lemma sumZ_app l1 l2 : sumZ (l1 ++ l2) = sumZ l1 + sumZ l2.
Proof. induction l1; simpl; lia. Qed.

Lemma sumZ_perm l1 l2 : Permutation l1 l2 -> sumZ l1 = sumZ l2.
Proof. induction 1; simpl; lia. Qed.

Lemma sumZ_map_perm {A} (f : A -> Z) l1 l2 : Permutation l1 l2 -> sumZ (map f l1) = sumZ (map f l2).
Proof. intros H. apply sumZ_perm, Permutation_map, H. Qed.

Lemma sumZ_map_add {A} (f g : A -> Z) l : sumZ (map (fun a => f a + g a) l) = sumZ (map f l) + sumZ (map g l).
Proof. induction l; simpl; lia. Qed.

Lemma sumZ_map_le {A} (f g : A -> Z) l : Forall (fun a => f a <= g a) l -> sumZ (map f l) <= sumZ (map g l).
Proof. induction 1; simpl; lia. Qed.

Lemma sumZ_map_eq {A} (f g : A -> Z) l : Forall (fun a => f a = g a) l -> sumZ (map f l) = sumZ (map g l).
Proof. induction 1; simpl; lia. Qed.

Section Cert.
Variables (w : nat -> nat -> Z) (lx ly : nat -> Z) (allowed : nat -> nat -> bool).
Variables (rows cols : list nat).

Definition is_pm (pm : list (nat * nat)) : Prop :=
  Permutation (map fst pm) rows /\ Permutation (map snd pm) cols /\
  Forall (fun p => allowed (fst p) (snd p) = true) pm.

Definition weight (pm : list (nat * nat)) : Z := sumZ (map (fun p => w (fst p) (snd p)) pm).

Definition feasible : Prop :=
  forall x y, In x rows -> In y cols -> allowed x y = true -> w x y <= lx x + ly y.

Definition tight (pm : list (nat*nat)) : Prop :=
  Forall (fun p => w (fst p) (snd p) = lx (fst p) + ly (snd p)) pm.

Lemma pm_label_sum pm : is_pm pm ->
  sumZ (map (fun p => lx (fst p) + ly (snd p)) pm) = sumZ (map lx rows) + sumZ (map ly cols).
Proof.
  intros (Hr & Hc & _).
  rewrite (sumZ_map_add (fun p => lx (fst p)) (fun p => ly (snd p))).
  rewrite <- (sumZ_map_perm lx _ _ Hr), <- (sumZ_map_perm ly _ _ Hc).
  now rewrite !map_map.
Qed.

Theorem cert_sound pm : feasible -> is_pm pm -> tight pm ->
  forall pm', is_pm pm' -> weight pm' <= weight pm.
Proof.
  intros Hf Hpm Ht pm' Hpm'.
  unfold weight.
  rewrite (sumZ_map_eq _ (fun p => lx (fst p) + ly (snd p)) pm Ht).
  rewrite (pm_label_sum pm Hpm), <- (pm_label_sum pm' Hpm').
  apply sumZ_map_le.
  destruct Hpm' as (Hr & Hc & Ha).
  rewrite Forall_forall in *. intros p Hp.
  apply Hf.
  - eapply Permutation_in; [exact Hr|]. now apply in_map.
  - eapply Permutation_in; [exact Hc|]. now apply in_map.
  - now apply Ha.
Qed.
End Cert.
