(* Hungarian proof spike, part 2: invariants; scan / relabel *)
From Coq Require Import List ZArith Lia Bool Arith Permutation.
Require Import HP1.
Import ListNotations.
Open Scope Z_scope.

Section P.
Variables (w : list (list Z)) (dx my sx sy : list bool) (nx ny : nat).
Notation W := (W w). Notation allowed := (allowed dx my).
Notation eligible := (eligible dx my sy). Notation slack := (slack w).

Definition actR (x : nat) : Prop := (x < nx)%nat /\ getB sx x = false.
Definition actC (y : nat) : Prop := (y < ny)%nat /\ getB sy y = false.

Definition tlen (st : tree) : Prop :=
  length (S_ st) = nx /\ length (SP st) = nx /\ length (T_ st) = ny /\ length (TP st) = ny /\
  length (NL st) = ny /\ length (NB st) = ny /\ length (LX st) = nx /\ length (LY st) = ny.

(* ---------- generic fold invariant over "seen" prefix ---------- *)
Lemma fold_left_prefix_inv {A B} (f : A -> B -> A) (I : list B -> A -> Prop) :
  forall l a0, I [] a0 -> (forall seen b a, I seen a -> In b l -> I (seen ++ [b]) (f a b)) ->
  I l (fold_left f l a0).
Proof.
  intros l a0 H0 Hstep.
  assert (G : forall rest seen a, I seen a -> (forall b, In b rest -> In b l) -> I (seen ++ rest) (fold_left f rest a)).
  { induction rest as [|b rest IH]; intros seen a Ha Hin; simpl.
    - rewrite app_nil_r. exact Ha.
    - replace (seen ++ b :: rest) with ((seen ++ [b]) ++ rest) by (rewrite <- app_assoc; reflexivity).
      apply IH; [apply Hstep; [exact Ha|apply Hin; left; reflexivity]|intros; apply Hin; right; assumption]. }
  apply (G l [] a0 H0). auto.
Qed.

(* ---------- scan ---------- *)
Definition ScanOk (st : tree) (seen : list (nat * nat)) (dmin : Z) (nl : list bool) (nb : list nat) : Prop :=
    length nl = ny /\ length nb = ny /\ dmin <= maxI /\
    (forall x y, In (x, y) seen -> eligible st x y = true -> dmin <= slack st x y) /\
    (forall y, getB nl y = true ->
        exists x, In (x, y) seen /\ eligible st x y = true /\ slack st x y = dmin /\ getN nb y = x) /\
    ((dmin < maxI \/ exists x y, In (x, y) seen /\ eligible st x y = true) -> exists y, (y < ny)%nat /\ getB nl y = true).

Definition ScanInv (st : tree) (seen : list (nat * nat)) (acc : scan_acc) : Prop :=
  match acc with
  | Overflow => True
  | Stuck => False
  | Ok (dmin, nl, nb) => ScanOk st seen dmin nl nb
  end.

Lemma in_pairs x y : In (x, y) (pairs nx ny) <-> (x < nx)%nat /\ (y < ny)%nat.
Proof. unfold pairs. rewrite in_prod_iff, !in_seq. lia. Qed.

Lemma in_snoc {A} (a b : A) l : In a (l ++ [b]) <-> In a l \/ a = b.
Proof. rewrite in_app_iff. simpl. intuition. Qed.

Lemma getB_upd_eq l i v : (i < length l)%nat -> getB (upd l i v) i = v.
Proof. intros; unfold getB; apply nth_upd_eq; assumption. Qed.
Lemma getB_upd_neq l i j v : i <> j -> getB (upd l i v) j = getB l j.
Proof. intros; unfold getB; apply nth_upd_neq; assumption. Qed.
Lemma getN_upd_eq l i v : (i < length l)%nat -> getN (upd l i v) i = v.
Proof. intros; unfold getN; apply nth_upd_eq; assumption. Qed.
Lemma getN_upd_neq l i j v : i <> j -> getN (upd l i v) j = getN l j.
Proof. intros; unfold getN; apply nth_upd_neq; assumption. Qed.
Lemma getB_repeat_false n i : getB (repeat false n) i = false.
Proof. unfold getB. rewrite nth_repeat_lt. destruct (i <? n)%nat; reflexivity. Qed.

Lemma scan_step st seen dmin nl nb x y :
  (x < nx)%nat -> (y < ny)%nat -> ScanOk st seen dmin nl nb ->
  ScanInv st (seen ++ [(x, y)]) (scan_cell w dx my sy ny st (Ok (dmin, nl, nb)) (x, y)).
Proof.
  intros Hx Hy (Hnl & Hnb & Hmax & Hmin & Hmark & Hex).
  cbn [scan_cell]. fold (eligible st x y).
  destruct (eligible st x y) eqn:Eel.
  2:{ cbn. unfold ScanOk. repeat split; auto.
      - intros x' y' Hin' He. apply in_snoc in Hin'. destruct Hin' as [Hin'|Heq]; [auto|]. inversion Heq; subst. congruence.
      - intros y' Hy'. destruct (Hmark y' Hy') as (x' & H1 & H2). exists x'. split; [apply in_snoc; left; exact H1|exact H2].
      - intros [Hlt|(x' & y' & Hin' & He)]; [apply Hex; left; exact Hlt|]. apply in_snoc in Hin'. destruct Hin' as [Hin'|Heq]; [apply Hex; right; eauto|]. inversion Heq; subst. congruence. }
  set (s1 := getZ (LX st) x + getZ (LY st) y). set (d := s1 - W x y).
  assert (Hd : slack st x y = d) by reflexivity.
  destruct (inr s1 && inr d) eqn:Er; [|exact I].
  apply andb_prop in Er. destruct Er as [_ Er]. unfold inr in Er. apply andb_prop in Er. destruct Er as [_ Er]. apply Z.leb_le in Er.
  destruct (d =? dmin) eqn:E1; [apply Z.eqb_eq in E1|apply Z.eqb_neq in E1; destruct (d <? dmin) eqn:E2; [apply Z.ltb_lt in E2|apply Z.ltb_ge in E2]].
  - (* equal: mark y *)
    cbn. unfold ScanOk. rewrite !upd_length. repeat split; auto.
    + intros x' y' Hin' He. apply in_snoc in Hin'. destruct Hin' as [Hin'|Heq]; [auto|]. inversion Heq; subst. lia.
    + intros y' Hy'. destruct (Nat.eq_dec y y') as [<-|Hne].
      * exists x. split; [apply in_snoc; right; reflexivity|]. split; [exact Eel|]. split; [lia|]. apply getN_upd_eq. lia.
      * rewrite getB_upd_neq in Hy' by exact Hne.
        destruct (Hmark y' Hy') as (x' & H1 & H2 & H3 & H4).
        exists x'. split; [apply in_snoc; left; exact H1|]. split; [exact H2|]. split; [exact H3|].
        rewrite getN_upd_neq by exact Hne. exact H4.
    + intros _. exists y. split; [exact Hy|]. apply getB_upd_eq. lia.
  - (* strictly smaller: reset *)
    cbn. unfold ScanOk. rewrite !upd_length, repeat_length. repeat split; auto; try lia.
    + intros x' y' Hin' He. apply in_snoc in Hin'. destruct Hin' as [Hin'|Heq]; [specialize (Hmin _ _ Hin' He); lia|]. inversion Heq; subst. lia.
    + intros y' Hy'. destruct (Nat.eq_dec y y') as [<-|Hne].
      * exists x. split; [apply in_snoc; right; reflexivity|]. split; [exact Eel|]. split; [lia|]. apply getN_upd_eq. lia.
      * rewrite getB_upd_neq in Hy' by exact Hne. rewrite getB_repeat_false in Hy'. discriminate.
    + intros _. exists y. split; [exact Hy|]. apply getB_upd_eq. rewrite repeat_length. lia.
  - (* larger: unchanged *)
    cbn. unfold ScanOk. repeat split; auto.
    + intros x' y' Hin' He. apply in_snoc in Hin'. destruct Hin' as [Hin'|Heq]; [auto|]. inversion Heq; subst. lia.
    + intros y' Hy'. destruct (Hmark y' Hy') as (x' & H1 & H2). exists x'. split; [apply in_snoc; left; exact H1|exact H2].
    + intros _. apply Hex. left. lia.
Qed.

Lemma scan_inv st : tlen st -> (forall y, getB (NL st) y = false) ->
  ScanInv st (pairs nx ny) (scan w dx my sy nx ny st).
Proof.
  intros Hl Hnone. unfold scan. apply fold_left_prefix_inv.
  - destruct Hl as (_&_&_&_&Hnl&Hnb&_). cbn. unfold ScanOk. split; [exact Hnl|]. split; [exact Hnb|]. split; [lia|].
    split; [intros x y []|]. split; [intros y Hy; rewrite Hnone in Hy; discriminate|].
    intros [Hlt|(x & y & [] & _)]. lia.
  - intros seen [x y] acc Hacc Hin. apply in_pairs in Hin. destruct Hin as [Hx Hy].
    destruct acc as [[[dmin nl] nb]| |]; [|destruct Hacc|exact I].
    apply scan_step; assumption.
Qed.

(* ---------- invariants ---------- *)
Definition matched (m : list bool) (mm : list nat) (x : nat) : Prop :=
  exists y, (y < ny)%nat /\ getB m y = true /\ getN mm y = x.

Record OInv (m : list bool) (mm : list nat) (lx ly : list Z) : Prop := {
  o_len : length m = ny /\ length mm = ny /\ length lx = nx /\ length ly = ny;
  o_feas : forall x y, actR x -> actC y -> allowed x y = true -> W x y <= getZ lx x + getZ ly y;
  o_match : forall y, (y < ny)%nat -> getB m y = true ->
       actC y /\ actR (getN mm y) /\ allowed (getN mm y) y = true /\ W (getN mm y) y = getZ lx (getN mm y) + getZ ly y;
  o_inj : forall y y', (y < ny)%nat -> (y' < ny)%nat -> getB m y = true -> getB m y' = true ->
       getN mm y = getN mm y' -> y = y'
}.

Definition cntT (l : list bool) : nat := count_occ bool_dec l true.

Record PInv (u : nat) (m : list bool) (mm : list nat) (st : tree) : Prop := {
  p_len : tlen st;
  p_o : OInv m mm (LX st) (LY st);
  p_u : actR u /\ ~ matched m mm u /\ getB (S_ st) u = true;
  p_T : forall y, (y < ny)%nat -> getB (T_ st) y = true ->
        getB m y = true /\ getB (S_ st) (getN mm y) = true /\ getN (SP st) (getN mm y) = y /\
        (getN (TP st) y < nx)%nat /\ getB (S_ st) (getN (TP st) y) = true /\
        allowed (getN (TP st) y) y = true /\ W (getN (TP st) y) y = getZ (LX st) (getN (TP st) y) + getZ (LY st) y;
  p_S : forall x, (x < nx)%nat -> getB (S_ st) x = true ->
        x = u \/ exists y, (y < ny)%nat /\ getB (T_ st) y = true /\ getN mm y = x;
  p_NL : forall y, (y < ny)%nat -> getB (NL st) y = true ->
        getB (T_ st) y = false /\ getB sy y = false /\ (getN (NB st) y < nx)%nat /\ getB (S_ st) (getN (NB st) y) = true /\
        allowed (getN (NB st) y) y = true /\ W (getN (NB st) y) y = getZ (LX st) (getN (NB st) y) + getZ (LY st) y;
  p_rk : exists rk : nat -> nat, rk u = 0%nat /\
        (forall y, (y < ny)%nat -> getB (T_ st) y = true -> rk (getN mm y) = S (rk (getN (TP st) y))) /\
        (forall x, (x < nx)%nat -> getB (S_ st) x = true -> (rk x <= cntT (T_ st))%nat);
  p_cnt : cntT (S_ st) = S (cntT (T_ st))
}.

Lemma eligible_split st x y : eligible st x y = true ->
  getB (S_ st) x = true /\ getB (T_ st) y = false /\ getB sy y = false /\ allowed x y = true.
Proof.
  unfold eligible. intros H. repeat (apply andb_prop in H; destruct H as [H ?]).
  repeat split; auto; apply negb_true_iff; assumption.
Qed.
Lemma eligible_join st x y :
  getB (S_ st) x = true -> getB (T_ st) y = false -> getB sy y = false -> allowed x y = true -> eligible st x y = true.
Proof. unfold eligible. intros -> -> -> ->. reflexivity. Qed.

(* S-rows are active rows; T-columns are matched; matched column with partner in S is in T *)
Lemma S_actR u m mm st : PInv u m mm st -> forall x, (x < nx)%nat -> getB (S_ st) x = true -> actR x.
Proof.
  intros P x Hx Hs. destruct (p_S _ _ _ _ P x Hx Hs) as [->|(y & Hy & Ht & <-)].
  - apply (p_u _ _ _ _ P).
  - destruct (p_T _ _ _ _ P y Hy Ht) as (Hm & _). apply (o_match _ _ _ _ (p_o _ _ _ _ P) y Hy Hm).
Qed.
Lemma S_partner_T u m mm st : PInv u m mm st -> forall y, (y < ny)%nat -> getB m y = true ->
  getB (S_ st) (getN mm y) = true -> getB (T_ st) y = true.
Proof.
  intros P y Hy Hm Hs.
  assert (Hx : (getN mm y < nx)%nat) by apply (o_match _ _ _ _ (p_o _ _ _ _ P) y Hy Hm).
  destruct (p_S _ _ _ _ P _ Hx Hs) as [Hu|(y' & Hy' & Ht' & He)].
  - exfalso. apply (p_u _ _ _ _ P). exists y. auto.
  - destruct (p_T _ _ _ _ P y' Hy' Ht') as (Hm' & _).
    rewrite (o_inj _ _ _ _ (p_o _ _ _ _ P) y y' Hy Hy' Hm Hm' (eq_sym He)). exact Ht'.
Qed.

Lemma getZ_relabel_x (lx : list Z) (s : list bool) d x : length lx = length s -> (x < length lx)%nat ->
  getZ (map (fun p : Z * bool => if snd p then fst p - d else fst p) (combine lx s)) x =
  if getB s x then getZ lx x - d else getZ lx x.
Proof. intros H1 H2. unfold getZ, getB. rewrite (nth_map_combine _ lx s x 0 0 false H1 H2). reflexivity. Qed.
Lemma getZ_relabel_y (ly : list Z) (t : list bool) d y : length ly = length t -> (y < length ly)%nat ->
  getZ (map (fun p : Z * bool => if snd p then fst p + d else fst p) (combine ly t)) y =
  if getB t y then getZ ly y + d else getZ ly y.
Proof. intros H1 H2. unfold getZ, getB. rewrite (nth_map_combine _ ly t y 0 0 false H1 H2). reflexivity. Qed.

Lemma relabel_ok u m mm st : PInv u m mm st -> (forall y, getB (NL st) y = false) ->
  match relabel w dx my sy nx ny st with
  | Stuck => False
  | Overflow => True
  | Ok st' => PInv u m mm st' /\ cntT (T_ st') = cntT (T_ st) /\
      ((exists x y, (x < nx)%nat /\ (y < ny)%nat /\ eligible st x y = true) -> exists y, (y < ny)%nat /\ getB (NL st') y = true)
  end.
Proof.
  intros P Hnone. pose proof (scan_inv st (p_len _ _ _ _ P) Hnone) as Hsc. unfold relabel.
  destruct (scan w dx my sy nx ny st) as [[[dmin nl] nb]| |]; [|destruct Hsc|exact I].
  destruct Hsc as (Hnl & Hnb & Hmax & Hmin & Hmark & Hex).
  match goal with |- context [if ?c then _ else _] => destruct c; [|exact I] end.
  pose proof (p_len _ _ _ _ P) as Hl. destruct Hl as (HlS & HlSP & HlT & HlTP & HlNL & HlNB & HlLX & HlLY).
  pose proof (p_o _ _ _ _ P) as O.
  (* dmin >= 0 *)
  assert (Hd0 : 0 <= dmin).
  { destruct (Z_lt_le_dec dmin maxI) as [Hlt|Hge]; [|unfold maxI in *; lia].
    destruct (Hex (or_introl Hlt)) as (y & Hy & Hyn). destruct (Hmark y Hyn) as (x & Hin & He & Hs & _).
    apply in_pairs in Hin. destruct (eligible_split _ _ _ He) as (HS & HT & Hsy & Ha).
    pose proof (o_feas _ _ _ _ O x y (S_actR _ _ _ _ P x (proj1 Hin) HS) (conj Hy Hsy) Ha). unfold slack in Hs. lia. }
  set (st' := {| S_ := S_ st; SP := SP st; T_ := T_ st; TP := TP st; NL := nl; NB := nb;
                 LX := map (fun p : Z * bool => if snd p then fst p - dmin else fst p) (combine (LX st) (S_ st));
                 LY := map (fun p : Z * bool => if snd p then fst p + dmin else fst p) (combine (LY st) (T_ st)) |}).
  assert (HLX : forall x, (x < nx)%nat -> getZ (LX st') x = if getB (S_ st) x then getZ (LX st) x - dmin else getZ (LX st) x).
  { intros x Hx. apply getZ_relabel_x; lia. }
  assert (HLY : forall y, (y < ny)%nat -> getZ (LY st') y = if getB (T_ st) y then getZ (LY st) y + dmin else getZ (LY st) y).
  { intros y Hy. apply getZ_relabel_y; lia. }
  (* a tight pair with (S x <-> T y) stays tight *)
  assert (Hkeep : forall x y, (x < nx)%nat -> (y < ny)%nat -> getB (S_ st) x = getB (T_ st) y ->
            getZ (LX st') x + getZ (LY st') y = getZ (LX st) x + getZ (LY st) y).
  { intros x y Hx Hy Heq. rewrite (HLX x Hx), (HLY y Hy), Heq. destruct (getB (T_ st) y); lia. }
  subst st'. cbn [S_ SP T_ TP NL NB LX LY] in *.
  split; [|split; [reflexivity|]].
  - constructor; cbn [S_ SP T_ TP NL NB LX LY].
    + unfold tlen; cbn. rewrite !map_length, !combine_length. repeat split; lia.
    + (* OInv *)
      constructor.
      * destruct (o_len _ _ _ _ O) as (?&?&?&?). cbn. rewrite !map_length, !combine_length. repeat split; lia.
      * intros x y Hx Hy Ha. pose proof (o_feas _ _ _ _ O x y Hx Hy Ha) as Hf.
        rewrite (HLX x (proj1 Hx)), (HLY y (proj1 Hy)).
        destruct (getB (S_ st) x) eqn:ES, (getB (T_ st) y) eqn:ET; try lia.
        pose proof (Hmin x y (proj2 (in_pairs x y) (conj (proj1 Hx) (proj1 Hy))) (eligible_join st x y ES ET (proj2 Hy) Ha)) as Hs.
        unfold slack in Hs. lia.
      * intros y Hy Hm. destruct (o_match _ _ _ _ O y Hy Hm) as (Hc & Hr & Ha & Ht). repeat split; try assumption; try apply Hc; try apply Hr.
        rewrite Hkeep; [exact Ht|apply Hr|exact Hy|].
        destruct (getB (T_ st) y) eqn:ET.
        -- apply (p_T _ _ _ _ P y Hy ET).
        -- destruct (getB (S_ st) (getN mm y)) eqn:ES; [|reflexivity].
           rewrite (S_partner_T _ _ _ _ P y Hy Hm ES) in ET. discriminate.
      * apply (o_inj _ _ _ _ O).
    + apply (p_u _ _ _ _ P).
    + intros y Hy Ht. destruct (p_T _ _ _ _ P y Hy Ht) as (H1 & H2 & H3 & H4 & H5 & H6 & H7).
      repeat split; try assumption. rewrite Hkeep; [exact H7|exact H4|exact Hy|]. rewrite H5, Ht. reflexivity.
    + apply (p_S _ _ _ _ P).
    + intros y Hy Hyn. destruct (Hmark y Hyn) as (x & Hin & He & Hs & Hnbx).
      apply in_pairs in Hin. destruct (eligible_split _ _ _ He) as (HS & HT & Hsy & Ha).
      rewrite Hnbx. repeat split; try assumption; try apply Hin.
      rewrite (HLX x (proj1 Hin)), (HLY y Hy), HS, HT. unfold slack in Hs. lia.
    + apply (p_rk _ _ _ _ P).
    + apply (p_cnt _ _ _ _ P).
  - intros (x & y & Hx & Hy & He). apply Hex. right. exists x, y. split; [apply in_pairs; auto|exact He].
Qed.
End P.
