(* Correspondence and specification check for the generic engine (C04, C09, C19, C03): recorded histories of bab::solve on
   synthetic subproblem trees, driven through the scheduler shim, are replayed through EngExec.exec; the implementation's
   result, statistics and outcome are compared with the final model state and with an exhaustive evaluation of the tree. *)
From Coq Require Import List ZArith Bool Arith NArith FMapPositive.
Require Import EngP2 EngExec.
Import ListNotations.
Open Scope nat_scope.

(* plain data as printed by the harness.  A tree is a table indexed by node id; a subproblem is its id; a solution is an id *)
Inductive ptnode := TNo | TInf (cs : list nat) (s : Z) | TFeas (s : Z) | TPanic.
Inductive pev (ND : Type) := PAcq (i : nat) | PPopSolve (i : nat) (n : ND) (ps : Z) | PPopBound (i : nat) (n : ND) (ps : Z) | PExitYes (i : nat) | PExitNo (i : nat)
  | PEmptyWait (i : nat) | PEmptyDone (i : nat) | PFinNo (i : nat) | PFinFeas (i : nat) (s : Z) (nb : bool)
  | PFinInf (i : nat) (s : Z) (cs : list ND) | PFinPanic (i : nat) | PWake (i : nat).
Arguments PAcq {ND} i. Arguments PPopSolve {ND} i n ps. Arguments PPopBound {ND} i n ps. Arguments PExitYes {ND} i. Arguments PExitNo {ND} i.
Arguments PEmptyWait {ND} i. Arguments PEmptyDone {ND} i. Arguments PFinNo {ND} i. Arguments PFinFeas {ND} i s nb.
Arguments PFinInf {ND} i s cs. Arguments PFinPanic {ND} i. Arguments PWake {ND} i.
(* outcome: 0 = solve returned, 1 = deadlock reported by the scheduler, 2 = a panic propagated out of solve *)
Definition tree_case := (list ptnode * nat * list (pev nat) * option (nat * Z) * bool * nat * list N)%type.

Definition smin : Z := 0.
Definition smax : Z := 4294967295.

(* node ids are unary numbers in the case files; the replay runs on binary ids (N) so that huge trees (thousands of pending subproblems)
   stay cheap: the model EngExec.exec is generic in the type of subproblems *)
Definition tf (tab : list ptnode) (n : N) : nres N N :=
  match nth (N.to_nat n) tab TNo with
  | TNo => NoSol N N | TInf cs s => Infeas N N (map N.of_nat cs) s | TFeas s => Feas N N n s | TPanic => PanicR N N end.

Definition to_ev (e : pev nat) : ev N :=
  match e with
  | PAcq i => EAcq N i | PPopSolve i n ps => EPopSolve N i (N.of_nat n) ps | PPopBound i n ps => EPopBound N i (N.of_nat n) ps
  | PExitYes i => EExitYes N i | PExitNo i => EExitNo N i | PEmptyWait i => EEmptyWait N i | PEmptyDone i => EEmptyDone N i
  | PFinNo i => EFinNo N i | PFinFeas i s nb => EFinFeas N i s nb | PFinInf i s cs => EFinInf N i s (map N.of_nat cs)
  | PFinPanic i => EFinPanic N i | PWake i => EWake N i end.

(* the subproblems of the harness are ordered like caobab's BABNode: by their DEPTH in the tree only (different nodes of one layer compare
   equal).  Parents have smaller ids than their children, so one pass fills the depth table. *)
Fixpoint set_nth (l : list nat) (i v : nat) : list nat :=
  match l, i with [], _ => [] | _ :: t, O => v :: t | h :: t, S i' => h :: set_nth t i' v end.
Definition depths (tab : list ptnode) : list nat :=
  fold_left (fun dep i => match nth i tab TNo with
                          | TInf cs _ => fold_left (fun d c => set_nth d c (S (nth i dep 0))) cs dep
                          | _ => dep end) (seq 0 (length tab)) (repeat 0 (length tab)).
Definition dmap_of (dep : list nat) : PositiveMap.t nat :=
  fold_left (fun m (id : nat * nat) => PositiveMap.add (N.succ_pos (N.of_nat (fst id))) (snd id) m) (combine (seq 0 (length dep)) dep) (PositiveMap.empty nat).
Definition depth_of (m : PositiveMap.t nat) (n : N) : nat := match PositiveMap.find (N.succ_pos n) m with Some d => d | None => 0 end.
Definition depth_cmp (m : PositiveMap.t nat) (a b : N) : comparison := Nat.compare (depth_of m a) (depth_of m b).

(* replay with the heap-order conformance of every pop *)
Fixpoint replay_c (tab : list ptnode) (dep : PositiveMap.t nat) (st : state N N) (evs : list (pev nat)) (pos : nat) (maxok : bool) : (state N N + nat) * bool :=
  match evs with
  | [] => (inl st, maxok)
  | e :: t =>
    let mo := match e with
              | PPopSolve _ n ps | PPopBound _ n ps => pop_is_max N N (depth_cmp dep) st (N.of_nat n) ps
              | _ => true end in
    match exec N N (tf tab) N.eqb st (to_ev e) with
    | Some st' => replay_c tab dep st' t (S pos) (maxok && mo)
    | None => (inr pos, maxok)
    end
  end.

(* exhaustive evaluation of the tree below the root (fuel = table size): all feasible scores, whether a panic node is
   below the root, and bound consistency (the score of an inner node is >= every feasible score below it) *)
Fixpoint feas_below (tab : list ptnode) (fuel : nat) (n : nat) : list (nat * Z) :=
  match fuel with
  | O => []
  | S fu => match nth n tab TNo with
            | TFeas s => [(n, s)]
            | TInf cs _ => flat_map (feas_below tab fu) cs
            | _ => [] end
  end.
Fixpoint consistent (tab : list ptnode) (fuel : nat) (n : nat) : bool :=
  match fuel with
  | O => true
  | S fu => match nth n tab TNo with
            | TInf cs s => forallb (fun q : nat * Z => Z.leb (snd q) s) (flat_map (feas_below tab fu) cs) && forallb (consistent tab fu) cs
            | _ => true end
  end.
Fixpoint has_panic (tab : list ptnode) (fuel : nat) (n : nat) : bool :=
  match fuel with
  | O => false
  | S fu => match nth n tab TNo with
            | TPanic => true
            | TInf cs _ => existsb (has_panic tab fu) cs
            | _ => false end
  end.
Definition zmax_list (l : list Z) : option Z := match l with [] => None | x :: t => Some (fold_left Z.max t x) end.

Definition Nof (n : nat) : N := N.of_nat n.
Definition outcome_okb (outcome : nat) (failed_some : bool) : bool :=
  match outcome with 0 => negb failed_some | 2 => failed_some | _ => false end.

(* bits: 1 history accepted by the model | 2 all workers stopped in the final model state | 4 result = final model state
   | 8 statistics = model counters and the accounting equations hold | 16 C09: result is the maximum feasible score of the tree
   (None iff no feasible node) | 32 class: bound-consistent tree without failing node | 64 every pop took a maximal element
   | 128 outcome as the model predicts (never a deadlock; a panic propagates iff a failing node was solved)
   | 256 the tree has a failing node | 512 outcome is `returned` | 1024 the returned solution is a feasible node with that score *)
Definition check_tree (c : tree_case) : N :=
  let '(tab, k, evs, res, found_flag, outcome, stats) := c in
  let fuel := S (length tab) in
  let '(fin, maxok) := replay_c tab (dmap_of (depths tab)) (init N N 0%N smin smax k) evs 0 true in
  let cls := consistent tab fuel 0 && negb (has_panic tab fuel 0) in
  let feas := feas_below tab fuel 0 in
  let opt := zmax_list (map snd feas) in
  match fin with
  | inr pos => (if cls then 32 else 0) + (if has_panic tab fuel 0 then 256 else 0) + (if Nat.eqb outcome 0 then 512 else 0) + 2048 * Nof pos
  | inl st =>
    let stopped := all_stopped N N st in
    let res_ok := match res, best N N st with
                  | Some (x, s), Some x' => N.eqb (N.of_nat x) x' && Z.eqb s (bscore N N st)
                  | None, None => true | _, _ => false end in
    let stats_ok := match stats with
                    | [ex; no; inf; fea; bnd] =>
                      N.eqb ex (Nof (n_ex N N st)) && N.eqb no (Nof (n_no N N st)) && N.eqb inf (Nof (n_inf N N st)) &&
                      N.eqb fea (Nof (n_fea N N st)) && N.eqb bnd (Nof (n_bnd N N st)) &&
                      N.eqb ex (no + inf + fea) && N.eqb (Nof (length (generated N N st))) (ex + bnd)
                    | _ => false end in
    let c09 := match res, opt with
               | Some (_, s), Some o => Z.eqb s o | None, None => true | _, _ => false end in
    let self_ok := match res with
                   | Some (x, s) => existsb (fun q : nat * Z => Nat.eqb (fst q) x && Z.eqb (snd q) s) feas
                   | None => true end in
    let failed_some := match failed N N st with [] => false | _ => true end in
    let outcome_ok := outcome_okb outcome failed_some in
    (if true then 1 else 0) + (if stopped then 2 else 0) + (if Nat.eqb outcome 0 then (if res_ok then 4 else 0) else 4) +
    (if Nat.eqb outcome 0 then (if stats_ok then 8 else 0) else 8) +
    (if Nat.eqb outcome 0 then (if c09 then 16 else 0) else 16) + (if cls then 32 else 0) + (if maxok then 64 else 0) +
    (if outcome_ok then 128 else 0) + (if has_panic tab fuel 0 then 256 else 0) + (if Nat.eqb outcome 0 then 512 else 0) +
    (if self_ok then 1024 else 0)
  end%N.
