(* The instance files the CLI-level streams feed to the real binary (written by io::simple::write_input_data) read back, with the
   reader model SimpleRead, as exactly the instance the library-level run and the Coq-side evaluation use. *)
From Coq Require Import List ZArith Bool Arith NArith String.
From Flocq Require Import IEEE754.Binary IEEE754.Bits.
Require Import Json SimpleRead CorrNode CorrCde F32.
Import ListNotations.
Open Scope nat_scope.

Definition inst_file_case := (list pcourse * list (list pchoice) * json)%type.
Definition part_matches (p : spart) (pp : list pchoice) : bool :=
  eqb_list (fun (ch : schoice) (pc : pchoice) => (sc_course ch =? Z.of_nat (fst pc))%Z && (sc_pen ch =? snd pc)%Z) (sp_choices p) pp.
Definition course_matches (c : scourse) (pc : pcourse) : bool :=
  let '(mi, ma, ins, fx, fb, ob) := pc in
  (so_min c =? Z.of_nat mi)%Z && (so_max c =? Z.of_nat ma)%Z && eqb_list (fun (z : Z) (n : nat) => (z =? Z.of_nat n)%Z) (so_instr c) ins &&
  Bool.eqb (so_fixed c) fx &&
  (bits_of_b32 (match so_factor c with Some v => f32_of_json v | None => f32_of_Z 1 end) =? fb)%Z &&
  (bits_of_b32 (match so_offset c with Some v => f32_of_json v | None => f32_of_Z 0 end) =? ob)%Z.
(* 1: the file is read (model) as the instance; 2: the model accepts it (consistent, somebody there) *)
Definition check_inst_file (c : inst_file_case) : N :=
  let '(pcs, pps, j) := c in
  ((match simple_read j with
    | ROk (ps, cs) => if eqb_list part_matches ps pps && eqb_list course_matches cs pcs then 1 else 0
    | RErr _ => 0 end) + (if simple_accepts j then 2 else 0))%N.
