(* Correspondence and specification check for io/rooms.rs (C18) *)
From Coq Require Import List ZArith Bool Arith NArith.
Require Import HP1 Cao1 Rooms F32 Rooms18 RoomsModel CorrSel CorrNode.
Import ListNotations.
Open Scope nat_scope.

Definition rooms_case := (list pcourse * list (option nat) * list nat * list (list nat) * list kind * list (list nat) * list kind)%type.

(* bits: 1 size lists = model | 2 C18: every listed size is usable and every course that takes place is offered a room
   | 4 class: the assignment can be housed | 8 kind names = model AND rooms::read = model (kinds in the order after read(), room list)
   | 16 C18: every listed kind has positive quantity and a listed capacity *)
Definition check_rooms (c : rooms_case) : N :=
  let '(pcs, a, rooms, lists, ks, names, raw) := c in
  let courses := map mk_course pcs in let params := mk_params pcs in
  let es := esize32 params in
  let sizes := map (eff_size courses es a) (seq 0 (length courses)) in
  let agree := list_eqb (list_eqb Nat.eqb) lists (possible sizes rooms) in
  let cls := housed_desc sizes rooms in
  let spec := listing_okb sizes rooms lists in
  let kind_eqb (a b : kind) := Nat.eqb (fst (fst a)) (fst (fst b)) && Nat.eqb (snd (fst a)) (snd (fst b)) && Nat.eqb (snd a) (snd b) in
  let kagree := match ks with [] => true | _ => list_eqb (list_eqb Nat.eqb) names (kind_names ks sizes) &&
                                                list_eqb kind_eqb ks (kinds_read raw) && list_eqb Nat.eqb rooms (rooms_of_kinds (kinds_read raw)) end in
  let kspec := match ks with [] => true | _ => names_okb ks (possible sizes (rooms_of_kinds ks)) names end in
  ((if agree then 1 else 0) + (if spec then 2 else 0) + (if cls then 4 else 0) + (if kagree then 8 else 0) + (if kspec then 16 else 0))%N.
