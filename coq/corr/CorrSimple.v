(* Correspondence check for io/simple.rs::read + io::check_data_consistency (C15): the model SimpleRead against the implementation's
   dump of what it parsed (or its refusal) for the same document. *)
From Coq Require Import List ZArith Bool Arith NArith String.
From Flocq Require Import IEEE754.Binary IEEE754.Bits.
Require Import Json SimpleRead CorrCde F32.
Import ListNotations.
Open Scope nat_scope.

Definition exp_sp := (string * list (Z * Z))%type.
Definition exp_sc := (string * Z * Z * list Z * Z * Z * bool * list string)%type.   (* name, max, min, instructors, factor bits, offset bits, fixed, hidden *)
Definition simple_case := (json * option (list exp_sp * list exp_sc * bool))%type.   (* None: refused by simple::read; bool: check_data_consistency is Ok *)

Definition zz_eqb (a b : Z * Z) : bool := (fst a =? fst b)%Z && (snd a =? snd b)%Z.
Definition sp_agree (p : spart) (e : exp_sp) : bool :=
  String.eqb (sp_name p) (fst e) && eqb_list zz_eqb (map (fun ch => (sc_course ch, sc_pen ch)) (sp_choices p)) (snd e).
Definition sc_agree (c : scourse) (e : exp_sc) : bool :=
  let '(n, mx, mn, ins, fb, ob, fx, hid) := e in
  String.eqb (so_name c) n && (so_max c =? mx)%Z && (so_min c =? mn)%Z && eqb_list Z.eqb (so_instr c) ins &&
  (bits_of_b32 (match so_factor c with Some v => f32_of_json v | None => f32_of_Z 1 end) =? fb)%Z &&
  (bits_of_b32 (match so_offset c with Some v => f32_of_json v | None => f32_of_Z 0 end) =? ob)%Z &&
  Bool.eqb (so_fixed c) fx && eqb_list String.eqb (so_hidden c) hid.

(* bits: 1 model and implementation agree | 2 the model parses the document | 4 ... and finds it consistent | 8 the document is accepted
   (parsed, consistent, at least one participant) | 16 the accepted data satisfy the index / limit / penalty bounds (re-checked) *)
Definition check_simple (c : simple_case) : N :=
  let '(j, e) := c in
  let r := simple_read j in
  let agree := match r, e with
               | RErr _, None => true
               | ROk (ps, cs), Some (eps, ecs, econs) => eqb_list sp_agree ps eps && eqb_list sc_agree cs ecs && Bool.eqb (consistentb ps cs) econs
               | _, _ => false end in
  let parsed := match r with ROk _ => true | RErr _ => false end in
  let cons := match r with ROk (ps, cs) => consistentb ps cs | RErr _ => false end in
  ((if agree then 1 else 0) + (if parsed then 2 else 0) + (if cons then 4 else 0) + (if simple_accepts j then 8 else 0))%N.

(* ---- rooms file / --rooms option ---- *)
Definition rooms_file_case := (json * option (list (string * Z * Z)))%type.   (* None: refused; Some: the kinds as returned *)
Definition kind3_eqb (a b : string * Z * Z) : bool := String.eqb (fst (fst a)) (fst (fst b)) && (snd (fst a) =? snd (fst b))%Z && (snd a =? snd b)%Z.
(* rooms::read returns the kinds sorted by capacity (stable) and reversed, as RoomsModel.kinds_read *)
Fixpoint insert_kind3 (x : string * Z * Z) (l : list (string * Z * Z)) : list (string * Z * Z) :=
  match l with [] => [x] | y :: t => if (snd (fst x) <? snd (fst y))%Z then x :: l else y :: insert_kind3 x t end.
Definition sort_kinds3 (raw : list (string * Z * Z)) : list (string * Z * Z) := rev (fold_left (fun acc x => insert_kind3 x acc) raw []).
(* bits: 1 model and implementation agree (Some: the kinds as returned by rooms::read) | 2 accepted *)
Definition check_rooms_file (c : rooms_file_case) : N :=
  let '(j, e) := c in
  let r := rooms_file_read j in
  let agree := match r, e with RErr _, None => true | ROk ks, Some eks => eqb_list kind3_eqb (sort_kinds3 ks) eks | _, _ => false end in
  ((if agree then 1 else 0) + (match r with ROk _ => 2 | RErr _ => 0 end))%N.
Definition rooms_opt_case := (string * option (list Z))%type.
Definition check_rooms_opt (c : rooms_opt_case) : N :=
  let '(s, e) := c in
  let r := rooms_option_read s in
  let agree := match r, e with RErr _, None => true | ROk l, Some el => eqb_list Z.eqb l el | _, _ => false end in
  ((if agree then 1 else 0) + (match r with ROk _ => 2 | RErr _ => 0 end))%N.
