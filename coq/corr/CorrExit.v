(* Correspondence of the real binary's exit status with Cli.exit_code (C15, C16) *)
From Coq Require Import List Bool Arith NArith.
Require Import Cli.
Import ListNotations.
Open Scope nat_scope.

(* the thirteen stage flags in the order of the record, the observed exit status (1000 = killed / timed out, 101 = panic), whether a
   well-formed output file exists afterwards *)
Definition exit_case := (list bool * nat * bool)%type.
Definition mk_stages (l : list bool) : stages :=
  let g := fun i => nth i l true in
  {| args_ok := g 0; track_ok := g 1; rooms_both := g 2; rooms_open_ok := g 3; rooms_parse_ok := g 4; input_open_ok := g 5;
     input_parse_ok := g 6; consistent := g 7; has_participants := g 8; found := g 9; out_requested := g 10; create_ok := g 11; write_ok := g 12 |}.
(* bits: 1 exit status = model | 2 C16: status 0 with requested output implies a complete well-formed file | 4 C15: a malformed run has a
   refusal status (2/64/65/66) | 8 C15/C16: no output file unless the run reached the output stage and succeeded | 16 well-formed run *)
Definition check_exit (c : exit_case) : N :=
  let '(l, code, file_ok) := c in
  let s := mk_stages l in
  let wf := well_formed_run s in
  let refusal := existsb (Nat.eqb code) [2; 64; 65; 66] in
  let same := Nat.eqb code (exit_code s) in
  let c0 := Nat.eqb code 0 in
  ((if same then 1 else 0) +
   (if negb (out_requested s) || negb c0 || file_ok then 2 else 0) +
   (if wf || refusal then 4 else 0) +
   (if negb file_ok || (reaches_output s && create_ok s && write_ok s) then 8 else 0) +
   (if wf then 16 else 0))%N.
