(* Correspondence and specification check for the room stage alone (check_room_feasibility / create_room_constraint_set) at realistic
   sizes: the binary32 forward and inverse size computations are compared with the code where the node stream is too expensive. *)
From Coq Require Import List ZArith Bool Arith NArith.
Require Import HP1 Cao1 Cao3 Rooms F32 Node Spec CorrSel CorrNode RoomSites.
Import ListNotations.
Open Scope nat_scope.

Inductive gres := GPanic | GRes (feasible : bool) (sets : option (list (list (nat * nat) * list nat))).
Definition gate_case := (list pcourse * list nat * pnode * list (option nat) * gres)%type.

Definition set_eqb (x y : list (nat * nat) * list nat) : bool := list_eqb pair_eqb (fst x) (fst y) && list_eqb Nat.eqb (snd x) (snd y).
(* bits: 1 model = implementation | 2 the node is well formed (node_wfb, and no shrink bound below the course's minimum: WfPres.Wf2) | 4 every child the IMPLEMENTATION's constraint sets lead to is
   well formed again (no course shrunk below its minimum size, nothing enforced cancelled: the invariant WfPres.Wf2 of all generated subproblems) | 8 the implementation reports a conflict
   | 16 implementation panicked | 32 C06 at the gate: if the implementation reports NO conflict, the assignment can be housed in the rooms
   (Spec.housedb on the effective sizes, binary32) *)
Definition check_gate (c : gate_case) : N :=
  let '(pcs, rooms, pn, a, ires) := c in
  let courses := map mk_course pcs in let params := mk_params pcs in
  let nd := mk_node pn in
  let es := esize32 params in let sf := fixed_shrink courses (shrinkf32 params) in
  let model := room_sets courses es sf (prep_rooms courses rooms) nd a in
  let agree := match model, ires with
               | Val None, GRes true None => true
               | Val (Some sets), GRes false (Some isets) => list_eqb set_eqb sets isets
               | Panic _, GPanic => true
               | _, _ => false end in
  let wf := node_wfb courses nd && forallb (fun cs : nat * nat => (fst cs <? length courses) && (c_min (crs courses (fst cs)) <=? snd cs)) (n_shrink nd) in
  let oks := fun nd' : node => forallb (fun cs : nat * nat => (fst cs <? length courses) && (c_min (crs courses (fst cs)) <=? snd cs)) (n_shrink nd') in
  let kids := match ires with GRes _ (Some isets) => forallb (fun s => node_wfb courses (child_of nd s) && oks (child_of nd s)) isets | _ => true end in
  let housed := match ires with
                | GRes true _ => Spec.housedb (map (eff_size courses es a) (seq 0 (length courses))) rooms
                | _ => true end in
  ((if agree then 1 else 0) + (if wf then 2 else 0) + (if kids then 4 else 0) +
   (match ires with GRes false _ => 8 | _ => 0 end) + (match ires with GPanic => 16 | _ => 0 end) + (if housed then 32 else 0))%N.
