(* Specification check of what the real binary wrote (C10, C14, C01/C06/C08 at CLI level): the assignment array and the quality
   object of the simple-format output file and the parsed --print listing of the same run. *)
From Coq Require Import List ZArith Bool Arith NArith.
Require Import HP1 Cao1 Cao3 Score1 Rooms F32 Node Spec Quality Listing CorrSel CorrNode.
Import ListNotations.
Open Scope nat_scope.

Definition plisting := list (nat * list (nat * bool) * nat).
Definition cli_case := (list pcourse * list (list pchoice) * list nat * option (list nat) *
                        option (list (option nat) * Z * Z * Z * Z) * option plisting)%type.

Definition entry_eqb (x y : nat * list (nat * bool) * nat) : bool :=
  let '(n1, l1, h1) := x in let '(n2, l2, h2) := y in
  Nat.eqb n1 n2 && list_eqb (fun p q : nat * bool => Nat.eqb (fst p) (fst q) && Bool.eqb (snd p) (snd q)) l1 l2 && Nat.eqb h1 h2.

(* bits: 1 valid instance | 2 C01 hard constraints | 4 score = score_of | 8 housed | 16 quality object | 32 C14 array shape
   | 64 C14 listing = model listing of the array | 128 an output was written | 256 class TC *)
Definition check_cli (c : cli_case) : N :=
  let '(pcs, pps, hid, rooms, out, lst) := c in
  let courses := map mk_course pcs in let parts := map mk_part pps in let params := mk_params pcs in
  let es := esize32 params in
  let cls := Spec.validb courses parts in
  let base := ((if cls then 1 else 0) + (if in_tc courses parts then 256 else 0))%N in
  match out with
  | None => (base + 2 + 4 + 8 + 16 + 32 + (match lst with None => 64 | Some _ => 0 end))%N
  | Some (a, s, qmax, qb, qmb) =>
    let hard := hard_ok_canon courses parts a in
    let sc := Z.eqb s (score_of courses parts a) in
    let housed := match rooms with Some rs => housedb (map (eff_size courses es a) (seq 0 (length courses))) rs | None => true end in
    let nr := Z.of_nat (n_real parts) in
    let q := Z.eqb qmax (theo_max courses parts) && Z.leb s qmax &&
             (Z.eqb nr 0 || (Z.eqb qb (quality_bits (quality_num parts s) nr) && Z.eqb qmb (quality_bits (quality_num parts qmax) nr))) in
    let arr := array_okb courses (length parts) a in
    let l_ok := match lst with
                | None => true
                | Some l => list_eqb entry_eqb l (listing courses (fun c => nth c hid 0) a) end in
    (base + (if hard then 2 else 0) + (if sc then 4 else 0) + (if housed then 8 else 0) + (if q then 16 else 0) +
     (if arr then 32 else 0) + (if l_ok then 64 else 0) + 128)%N
  end.
