(* Correspondence and specification check for whole solves (C01, C02, C03, C06, C08, C10, C17): the history of the real
   caobab::solve, recorded through the scheduler shim, is replayed through EngExec.exec over the node model Node.run_full
   (binary32 room arithmetic); the returned assignment, score, statistics and quality figures are compared with the final model
   state and checked against the executable specification. *)
From Coq Require Import List ZArith Bool Arith NArith.
Require Import HP1 Cao1 Cao3 Score1 Rooms F32 Node Spec Quality Solve CorrSel CorrNode CorrTree RoomSites.
Require Import EngP2 EngExec.
Import ListNotations.
Open Scope nat_scope.

Definition pnode_eqb (a b : node) : bool :=
  list_eqb Nat.eqb (n_cancel a) (n_cancel b) && list_eqb Nat.eqb (n_enf a) (n_enf b) && list_eqb pair_eqb (n_shrink a) (n_shrink b).
(* Ord of BABNode: total number of restrictions *)
Definition node_weight (n : node) : nat := length (n_cancel n) + length (n_enf n) + length (n_shrink n).
Definition node_cmp (a b : node) : comparison := Nat.compare (node_weight a) (node_weight b).

Definition to_sev (e : pev pnode) : ev node :=
  match e with
  | PAcq i => EAcq node i | PPopSolve i n ps => EPopSolve node i (mk_node n) ps | PPopBound i n ps => EPopBound node i (mk_node n) ps
  | PExitYes i => EExitYes node i | PExitNo i => EExitNo node i | PEmptyWait i => EEmptyWait node i | PEmptyDone i => EEmptyDone node i
  | PFinNo i => EFinNo node i | PFinFeas i s nb => EFinFeas node i s nb | PFinInf i s cs => EFinInf node i s (map mk_node cs)
  | PFinPanic i => EFinPanic node i | PWake i => EWake node i end.

Fixpoint replay_s (f : node -> nres node assignment) (st : state node assignment) (evs : list (pev pnode)) (pos : nat) (maxok : bool)
  : (state node assignment + nat) * bool :=
  match evs with
  | [] => (Datatypes.inl st, maxok)
  | e :: t =>
    let mo := match e with
              | PPopSolve _ n ps | PPopBound _ n ps => pop_is_max node assignment node_cmp st (mk_node n) ps
              | _ => true end in
    match exec node assignment f pnode_eqb st (to_sev e) with
    | Some st' => replay_s f st' t (S pos) (maxok && mo)
    | None => (Datatypes.inr pos, maxok)
    end
  end.

Definition solve_case := (list pcourse * list (list pchoice) * option (list nat) * nat * list (pev pnode) * option (list (option nat) * Z)
                          * nat * list N * option (Z * Z * Z * Z) * option (list (option nat)))%type.

(* the room list cannot bind: at least as many rooms as courses and every size a course can reach fits the smallest of the
   nc largest rooms *)
Definition nonbindingb (courses : list course) (es : nat -> nat -> nat) (rs : list nat) : bool :=
  let ncs := length courses in
  (ncs <=? length rs) &&
  forallb (fun c => forallb (fun s => es c s <=? nth (ncs - 1) (rev (sort_by (fun x => x) rs)) 0)
                            (seq 0 (S (c_max (nth c courses {| c_min := 0; c_max := 0; c_instr := []; c_fixed := false |}) +
                                       length (c_instr (nth c courses {| c_min := 0; c_max := 0; c_instr := []; c_fixed := false |}))))))
          (seq 0 ncs).

(* bits: 1 history accepted | 2 all workers stopped | 4 result = final model state (assignment and score) | 8 statistics
   | 16 C01 hard constraints hold of the returned assignment (canonical set of courses not taking place) | 32 valid instance
   | 64 heap order | 128 outcome as predicted | 256 C08 returned score = score recomputed from the assignment
   | 512 C06 the assignment can be housed | 1024 C08 quality figures | 2048 class TC (a participant with choices instructs)
   | 4096 a solution was returned | 8192 no certified better assignment (C02 witness) | 16384 the room list cannot bind (C17)
   | 32768 outcome is `returned` | 65536 * position of the first rejected event *)
Definition check_solve (c : solve_case) : N :=
  let '(pcs, pps, rooms, k, evs, res, outcome, stats, qual, better) := c in
  let courses := map mk_course pcs in let parts := map mk_part pps in let params := mk_params pcs in
  let es := esize32 params in let sf := fixed_shrink courses (shrinkf32 params) in
  let f := f_full courses parts es sf rooms in
  let '(fin, maxok) := replay_s f (init node assignment root CorrTree.smin CorrTree.smax k) evs 0 true in
  let cls := Spec.validb courses parts && float_saneb courses es sf rooms in
  let tc := in_tc courses parts in
  let nb := match rooms with Some rs => nonbindingb courses es rs | None => false end in
  let base := ((if cls then 32 else 0) + (if tc then 2048 else 0) + (if nb then 16384 else 0) + (if Nat.eqb outcome 0 then 32768 else 0))%N in
  let spec :=
    match res with
    | Some (a, s) =>
      let hard := hard_ok_canon courses parts a in
      let sc := Z.eqb s (score_of courses parts a) in
      let housed := match rooms with Some rs => housedb (map (eff_size courses es a) (seq 0 (length courses))) rs | None => true end in
      let q := match qual with
               | Some (qs, qmax, qb, qmb) =>
                 let nr := Z.of_nat (n_real parts) in
                 Z.eqb qs s && Z.eqb qmax (theo_max courses parts) && Z.leb s qmax &&
                 (Z.eqb nr 0 || (Z.eqb qb (quality_bits (quality_num parts s) nr) && Z.eqb qmb (quality_bits (quality_num parts qmax) nr)))
               | None => false end in
      let bet := match better with
                 | Some b => negb (hard_ok_canon courses parts b && Z.ltb s (score_of courses parts b))
                 | None => true end in
      ((if hard then 16 else 0) + (if sc then 256 else 0) + (if housed then 512 else 0) + (if q then 1024 else 0) + 4096 + (if bet then 8192 else 0))%N
    | None =>
      let bet := match better with Some b => negb (hard_ok_canon courses parts b) | None => true end in
      (16 + 256 + 512 + 1024 + (if bet then 8192 else 0))%N
    end in
  match fin with
  | Datatypes.inr pos => (base + spec + 65536 * Nof pos)%N
  | Datatypes.inl st =>
    let stopped := all_stopped node assignment st in
    let res_ok := match res, best node assignment st with
                  | Some (a, s), Some a' => list_eqb optnat_eqb a a' && Z.eqb s (bscore node assignment st)
                  | None, None => true | _, _ => false end in
    let stats_ok := match stats with
                    | [ex; no; inf; fea; bnd] =>
                      N.eqb ex (Nof (n_ex node assignment st)) && N.eqb no (Nof (n_no node assignment st)) &&
                      N.eqb inf (Nof (n_inf node assignment st)) && N.eqb fea (Nof (n_fea node assignment st)) &&
                      N.eqb bnd (Nof (n_bnd node assignment st)) && N.eqb ex (no + inf + fea) &&
                      N.eqb (Nof (length (generated node assignment st))) (ex + bnd)
                    | _ => false end in
    let failed_some := match failed node assignment st with [] => false | _ => true end in
    let r0 := Nat.eqb outcome 0 in
    (base + spec + 1 + (if stopped || negb r0 then 2 else 0) + (if res_ok || negb r0 then 4 else 0) + (if stats_ok || negb r0 then 8 else 0) +
     (if maxok then 64 else 0) + (if outcome_okb outcome failed_some then 128 else 0))%N
  end.
