(* Document-level correspondence (C05, C14, C16): the whole JSON value the real binary wrote is compared with the writer models of
   WriteDoc -- every key, the schema version, the kind, the event id, the object of registrations, the object of courses with segment flags
   and the possible-rooms field, the fixed part of the summary; resp. the four keys of the simple format with the assignment array and the
   quality object. *)
From Coq Require Import List ZArith Bool Arith NArith String.
From Flocq Require Import IEEE754.Binary IEEE754.Bits.
Require Import HP1 Cao1 Cao3 Score1 Rooms F32 Spec Quality QualityComb Json Cde CorrSel CorrNode CorrCde CorrCdeRooms WriteDoc Consts.
Require Listing CdeIds.
Import ListNotations.
Open Scope nat_scope.

Fixpoint prefixb (p s : string) : bool :=
  match p, s with
  | EmptyString, _ => true
  | String a p', String b s' => Ascii.eqb a b && prefixb p' s'
  | _, _ => false end.

(* export, --track, -i, -j, factor field, offset field, rooms option, possible-rooms field name, the import document *)
Definition cde_doc_case := (json * option Z * bool * bool * option string * option string *
                            (option (list nat) * option (list (string * nat * nat))) * option string * json * option (Z * Z))%type.

Definition track_name_of (j : json) (tr : option Z) : option string :=
  match tr with
  | None => None
  | Some _ =>
    match get "event" j with
    | Some ev => match get "parts" ev with
                 | Some (JObj parts) => match find_track parts tr with
                                        | ROk (_, _, td) => match get "shortname" td with Some (JStr s) => Some s | _ => None end
                                        | RErr _ => None end
                 | _ => None end
    | None => None end
  end.

(* bits: 16 the registration and course keys of the export are canonical decimal numbers (hypothesis of C05_ids_distinct / C05_end_to_end) |
   1 the model reads the export | 2 the import side reads the document (strict: exactly the seven keys, one track per registration / course,
   the output schema version, kind partial) | 4 the document IS WriteDoc.write_doc of the lists it encodes (= Cde.write_regs / write_courses of the
   encoded assignment, the model's possible-rooms strings) with the event id of the export | 8 the summary starts with the fixed text for the
   options (track name, numbers of ignored courses / registrations) | 32 C08 at CLI level: the two figures printed in the tail of the summary
   (binary32 bit patterns of "solution quality" and "overall assignment quality") are the model's: the mean penalty of the written
   assignment (quality_num / n_real) and the combined figure QualityComb.comb_num / comb_den with the external data of the READER MODEL
   (ra_qual: number of rated ignored instructors, penalties of the rated ignored attendees); without --ignore-assigned the second figure is
   the first one *)
Definition check_cde_doc (c : cde_doc_case) : N :=
  let '(j, tr, ic, ia, ff, of, rm, fname, doc, figs) := c in
  match read_fields j tr ic ia ff of with
  | ROk (ps, cs, amb) =>
    match import_of_doc (ra_track amb) doc with
    | Some im =>
      let a := assignment_of ps cs (im_regs im) in
      let courses := map to_course cs in
      let params := map (fun cf : rcourse * (option json * option json) =>
                           (bits_of_b32 (exp_factor (snd cf)), bits_of_b32 (exp_offset (snd cf) (rc_inv_instr (fst cf) + rc_inv_att (fst cf)))))
                        (combine cs (ra_fields amb)) in
      let rooms := match fname, room_strings_of courses params a rm with Some f, Some ss => Some (f, ss) | _, _ => None end in
      let ts := match get "timestamp" doc with Some (JStr s) => s | _ => EmptyString end in
      let model := write_doc (ra_event amb) (ra_track amb) (write_regs a ps cs) (write_courses a cs) rooms (im_summary im) ts in
      let same := json_eqb doc model in
      let sm := prefixb (summary_prefix (track_name_of j tr) (if ic then Some (ra_ign_courses amb) else None) (if ia then Some (ra_ign_regs amb) else None))
                        (im_summary im) in
      let parts := map to_part ps in
      let sc := score_of courses parts a in let nr := Z.of_nat (n_real parts) in
      let qm := quality_bits (quality_num parts sc) nr in
      let om := match ra_qual amb with
                | Some (ni, pens) => quality_bits (comb_num nr sc (Z.of_nat ni) (map Z.of_nat pens)) (comb_den nr (Z.of_nat ni) (map Z.of_nat pens))
                | None => qm end in
      let figs_ok := match figs with
                     | Some (qb, ob) => (nr =? 0)%Z || ((qb =? qm)%Z && (ob =? om)%Z)
                     | None => true end in
      (1 + 2 + (if same then 4 else 0) + (if sm then 8 else 0) + (if CdeIds.keys_canonical j then 16 else 0) + (if figs_ok then 32 else 0))%N
    | None => (1 + (if CdeIds.keys_canonical j then 16 else 0))%N
    end
  | RErr _ => 0%N
  end.

(* simple format: courses, participants (as in CorrCli), the output document *)
Definition simple_doc_case := (list pcourse * list (list pchoice) * json)%type.
(* bits: 1 valid instance | 2 the document reads back as an assignment (strict: exactly the four keys, format and version strings) |
   4 the document IS WriteDoc.simple_doc of that assignment with the quality object recomputed by the model (score_of, theo_max, binary32
   quotients) | 8 the array has one entry per participant, each null or a course index (Listing.array_okb) *)
Definition check_simple_doc (c : simple_doc_case) : N :=
  let '(pcs, pps, doc) := c in
  let courses := map mk_course pcs in let parts := map mk_part pps in
  let cls := Spec.validb courses parts in
  match assignment_of_doc doc with
  | Some a =>
    let s := score_of courses parts a in let tm := theo_max courses parts in let nr := Z.of_nat (n_real parts) in
    let qf := fun num => if (nr =? 0)%Z then None else Some (quality_bits num nr) in
    let q := quality_obj s tm (qf (quality_num parts s)) (qf (quality_num parts tm)) None in
    let same := json_eqb doc (simple_doc a q) in
    let arr := Listing.array_okb courses (List.length parts) a in
    ((if cls then 1 else 0) + 2 + (if same then 4 else 0) + (if arr then 8 else 0))%N
  | None => (if cls then 1 else 0)%N
  end.
