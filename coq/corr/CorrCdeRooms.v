(* End to end at CdE level with room options (C06, C18, C05): the export, the options, the registrations of the import file the real binary
   wrote, the rooms it was given and the values of the possible-rooms field it wrote.  The problem is rebuilt with the reader model
   (factor / offset fields, offsets adapted for ignored pre-assigned participants), the assignment through the id maps. *)
From Coq Require Import List ZArith Bool Arith NArith String.
From Flocq Require Import IEEE754.Binary IEEE754.Bits.
Require Import HP1 Cao1 Cao3 Rooms F32 Spec Rooms18 RoomsModel Json Cde CorrSel CorrNode CorrCde ListingText CorrCliText.
Import ListNotations.
Open Scope nat_scope.

Definition cde_rooms_case := (json * option Z * bool * bool * option string * option string * list (Z * Z) *
                              (option (list nat) * option (list (string * nat * nat))) * option (list (Z * string)))%type.

Definition room_strings_of (courses : list course) (params : list (Z * Z)) (a : list (option nat))
  (rm : option (list nat) * option (list (string * nat * nat))) : option (list string) :=
  let es := esize32 params in
  let sizes := map (eff_size courses es a) (seq 0 (List.length courses)) in
  match rm with
  | (Some rooms, _) => Some (map (fun l => join (map dec l)) (possible sizes rooms))
  | (None, None) => None
  | (None, Some raw) =>
    let ks := kinds_read (map (fun ik : nat * (string * nat * nat) => (fst ik, snd (fst (snd ik)), snd (snd ik))) (combine (seq 0 (List.length raw)) raw)) in
    Some (map (fun l => join (map (fun id => fst (fst (nth id raw (EmptyString, 0, 0)))) l)) (kind_names ks sizes))
  end.
Definition rooms_of_mode (rm : option (list nat) * option (list (string * nat * nat))) : option (list nat) :=
  match rm with
  | (Some rooms, _) => Some rooms
  | (None, Some raw) => Some (flat_map (fun k : string * nat * nat => repeat (snd (fst k)) (snd k)) raw)
  | (None, None) => None end.

(* bits: 1 the model reads the export | 2 C06: the encoded assignment can be housed in the given rooms (effective sizes with the export's
   factor / offset fields and the places of ignored participants) | 4 C18: the possible-rooms field of every course = the string of the
   model of io/rooms.rs, and every course of the problem carries the field *)
Definition check_cde_rooms (c : cde_rooms_case) : N :=
  let '(j, tr, ic, ia, ff, of, regs, rm, fields) := c in
  match read_fields j tr ic ia ff of with
  | ROk (ps, cs, amb) =>
    let a := assignment_of ps cs regs in
    let courses := map to_course cs in
    let params := map (fun cf : rcourse * (option json * option json) =>
                         (bits_of_b32 (exp_factor (snd cf)), bits_of_b32 (exp_offset (snd cf) (rc_inv_instr (fst cf) + rc_inv_att (fst cf)))))
                      (combine cs (ra_fields amb)) in
    let es := esize32 params in
    let sizes := map (eff_size courses es a) (seq 0 (List.length courses)) in
    let housed := match rooms_of_mode rm with Some rs => housedb sizes rs | None => true end in
    let strs := match fields, room_strings_of courses params a rm with
                | Some fl, Some ss => Nat.eqb (List.length fl) (List.length cs) &&
                                      forallb (fun cs' : rcourse * string => match zfind (rc_dbid (fst cs')) fl with Some v => String.eqb v (snd cs') | None => false end)
                                              (combine cs ss)
                | None, _ => true
                | Some _, None => false end in
    (1 + (if housed then 2 else 0) + (if strs then 4 else 0))%N
  | RErr _ => 6%N
  end.
