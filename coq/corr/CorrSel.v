(* Correspondence check for C20: model (SelModel) against the outputs of the real iterator, plus the executable
   specification predicate evaluated on the implementation's own outputs. *)
From Coq Require Import List Arith Bool NArith.
Require Import SelModel.
Import ListNotations.

Definition sel_case := (nat * nat * list N * list (list nat) * N * bool)%type.

Fixpoint list_eqb {A B} (eqb : A -> B -> bool) (a : list A) (b : list B) : bool :=
  match a, b with [], [] => true | x :: a', y :: b' => eqb x y && list_eqb eqb a' b' | _, _ => false end.
Definition opt_n (o : option nat) : option N := option_map N.of_nat o.
Definition optN_eqb (a : option N) (b : N) : bool := match a with Some x => N.eqb x b | None => false end.

(* strictly increasing, all below n *)
Fixpoint incrb (l : list nat) : bool :=
  match l with a :: ((b :: _) as t) => (a <? b) && incrb t | _ => true end.
Definition validb (n k : nat) (idx : list nat) : bool :=
  (length idx =? k) && incrb idx && forallb (fun a => a <? n) idx.
(* colexicographic order = lexicographic order on the reversed vectors; strictly sorted implies pairwise distinct *)
Fixpoint lex_lt (a b : list nat) : bool :=
  match a, b with
  | x :: a', y :: b' => (x <? y) || ((x =? y) && lex_lt a' b')
  | [], _ :: _ => true
  | _, _ => false end.
Fixpoint strictly_sorted (l : list (list nat)) : bool :=
  match l with a :: ((b :: _) as t) => lex_lt (rev a) (rev b) && strictly_sorted t | _ => true end.
(* C(n,k) on N by Pascal's rule (independent of the loop in binom) *)
Fixpoint pascal_row (n : nat) : list N :=
  match n with O => [1%N] | S n' => let r := pascal_row n' in map (fun p => (fst p + snd p)%N) (combine (0%N :: r) (r ++ [0%N])) end.
Definition CN (n k : nat) : N := nth k (pascal_row n) 0%N.
Fixpoint countdown (c : N) (steps : nat) : list N :=
  match steps with O => [] | S s => c :: countdown (N.pred c) s end.

(* bit 0: model = implementation;  bit 1: specification predicate holds of the implementation's output;
   bit 2: the case is in the class 1 <= k <= n (non-trivial) *)
Definition check_sel (c : sel_case) : N :=
  let '(n, k, hints, vals, b, consistent) := c in
  let '(mh, mv) := it_run (S (length vals)) n k None in
  let agree := list_eqb optN_eqb (map opt_n mh) hints && list_eqb (list_eqb Nat.eqb) mv vals
               && optN_eqb (binom64 (N.of_nat n) (N.of_nat k)) b && consistent in
  let cls := (1 <=? k) && (k <=? n) in
  let spec :=
    N.eqb b (CN n k) &&
    (if cls then
       forallb (validb n k) vals && strictly_sorted vals && N.eqb (N.of_nat (length vals)) (CN n k)
       && list_eqb N.eqb hints (countdown (CN n k) (S (length vals)) ++ [0%N])
     else match vals with [] => true | _ => false end) in
  ((if agree then 1 else 0) + (if spec then 2 else 0) + (if cls then 4 else 0))%N.

(* prefix mode for larger n: only the first steps of the iterator are run (the hint is recorded before each call and once after) *)
Definition check_sel_prefix (c : sel_case) : N :=
  let '(n, k, hints, vals, b, consistent) := c in
  let '(mh, mv) := it_runN (length vals) n k None in
  let agree := list_eqb optN_eqb mh hints && list_eqb (list_eqb Nat.eqb) mv vals
               && optN_eqb (binom64 (N.of_nat n) (N.of_nat k)) b && consistent in
  let cls := (1 <=? k) && (k <=? n) in
  let spec :=
    N.eqb b (CN n k) &&
    (if cls then
       forallb (validb n k) vals && strictly_sorted vals && (N.of_nat (length vals) <=? CN n k)%N
       && list_eqb N.eqb hints (countdown (CN n k) (S (length vals)))
     else match vals with [] => true | _ => false end) in
  ((if agree then 1 else 0) + (if spec then 2 else 0) + (if cls then 4 else 0))%N.

(* binom alone: (n, k, Some result | None = the implementation panicked).  Specification since fix f71c4f2: the exact count, or
   usize::MAX when the count does not fit -- for every n and k *)
Definition binom_case := (nat * nat * option N)%type.
Definition check_binom (c : binom_case) : N :=
  let '(n, k, b) := c in
  let model := binom64 (N.of_nat n) (N.of_nat k) in
  let agree := match model, b with Some x, Some y => N.eqb x y | None, None => true | _, _ => false end in
  let cls := k <=? n in
  let spec := match b with Some y => N.eqb y (N.min (CN n k) MAXU) | None => false end in
  ((if agree then 1 else 0) + (if spec then 2 else 0) + (if cls then 4 else 0))%N.
