(* Correspondence for the quality figures of solution_score.rs on large participant numbers (C08): solution_quality and
   combined_quality are recomputed from their integer numerators/denominators with binary32 division (Flocq). *)
From Coq Require Import List ZArith Bool NArith.
Require Import Cert F32 Consts QualityComb.
Import ListNotations.
Open Scope Z_scope.

(* n participants with choices, score, external data (number of instructors, penalties), implementation bits *)
Definition qual_case := (Z * Z * option (Z * list Z) * Z * option Z)%type.

(* bits: 1 solution_quality agrees | 2 overall (combined) quality agrees | 4 denominators positive and numerator non-negative *)
Definition check_qual (c : qual_case) : N :=
  let '(n, score, ext, qbits, obits) := c in
  let num := n * WEIGHT_OFFSET - score in
  let q_ok := Z.eqb qbits (quality_bits num n) in
  let o_ok := match ext, obits with
              | Some (ni, pens), Some ob => Z.eqb ob (quality_bits (comb_num n score ni pens) (comb_den n ni pens))
              | None, None => true | _, _ => false end in
  let cls := (0 <? n) && (0 <=? num) in
  ((if q_ok then 1 else 0) + (if o_ok then 2 else 0) + (if cls then 4 else 0))%N.
