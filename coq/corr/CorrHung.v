(* Correspondence check for C07: the Hungarian model (HP1.hungarian) against hungarian_algorithm of hungarian.rs,
   plus the executable specification (perfect allowed matching, truthful score, optimal weight) on the
   implementation's own output, plus the kernel-evaluated dual certificate on the implementation's final labels. *)
From Coq Require Import List ZArith Bool Arith NArith.
Require Import HP1 CorrSel.
Import ListNotations.
Open Scope Z_scope.

(* impl = None: the implementation panicked (debug build: arithmetic overflow or the failed unwrap) *)
Definition hung_case := (list (list Z) * list bool * list bool * list bool * list bool *
                         option (list nat * Z * list Z * list Z))%type.

Definition rowsB (sx : list bool) (nx : nat) : list nat := filter (fun x => negb (getB sx x)) (seq 0 nx).
Definition colsB (sy : list bool) (ny : nat) : list nat := filter (fun y => negb (getB sy y)) (seq 0 ny).
Definition count_nat (x : nat) (l : list nat) : nat := length (filter (Nat.eqb x) l).

(* pairs_of mm is a perfect matching of active rows and columns that respects dummy/mandatory *)
Definition is_pmb (w : list (list Z)) (dx my sx sy : list bool) (nx ny : nat) (mm : list nat) : bool :=
  let rows := rowsB sx nx in let cols := colsB sy ny in
  let xs := map (getN mm) cols in
  (length rows =? length cols)%nat &&
  forallb (fun x => (count_nat x xs =? 1)%nat) rows &&
  forallb (fun x => existsb (Nat.eqb x) rows) xs &&
  forallb (fun y => allowed dx my (getN mm y) y) cols.
Definition weightb (w : list (list Z)) (sy : list bool) (ny : nat) (mm : list nat) : Z :=
  fold_left (fun acc y => acc + W w (getN mm y) y) (colsB sy ny) 0.
(* dual certificate: labels feasible on all allowed active pairs, matched edges tight *)
Definition certb (w : list (list Z)) (dx my sx sy : list bool) (nx ny : nat) (mm : list nat) (lx ly : list Z) : bool :=
  let rows := rowsB sx nx in let cols := colsB sy ny in
  forallb (fun x => forallb (fun y => negb (allowed dx my x y) || (W w x y <=? getZ lx x + getZ ly y)) cols) rows &&
  forallb (fun y => W w (getN mm y) y =? getZ lx (getN mm y) + getZ ly y) cols.

Definition dims_ok (w : list (list Z)) (dx my sx sy : list bool) : bool :=
  let nx := length w in let ny := length my in
  (length dx =? nx)%nat && (length sx =? nx)%nat && (length sy =? ny)%nat && forallb (fun r => (length r =? ny)%nat) w.
Definition nonneg (w : list (list Z)) : bool := forallb (forallb (fun z => 0 <=? z)) w.

(* bit0 agree, bit1 spec, bit2 in the class of the theorem (dims, non-negative, equal counts, a perfect allowed matching exists),
   bit3 certificate on the implementation's labels holds, bit4 model outcome Overflow, bit5 model outcome Stuck *)
Definition check_hung (c : hung_case) : N :=
  let '(w, dx, my, sx, sy, impl) := c in
  let nx := length w in let ny := length my in
  let model := hungarian w dx my sx sy nx ny in
  let pre := dims_ok w dx my sx sy && nonneg w && (length (rowsB sx nx) =? length (colsB sy ny))%nat in
  let agree := match model, impl with
    | Ok (mm, s, lx, ly), Some (imm, isc, ilx, ily) =>
        list_eqb Nat.eqb mm imm && (s =? isc) && list_eqb Z.eqb lx ilx && list_eqb Z.eqb ly ily
    | Stuck, None => true
    | Overflow, None => true
    | _, _ => false end in
  let cls := pre && match model with Ok _ => true | _ => false end in
  let spec := if cls then
      match model, impl with
      | Ok (_, s, _, _), Some (imm, isc, _, _) =>
          is_pmb w dx my sx sy nx ny imm && (isc =? weightb w sy ny imm) && (isc =? s)
      | _, _ => false end
    else true in
  let cert := match impl with Some (imm, _, ilx, ily) => certb w dx my sx sy nx ny imm ilx ily | None => false end in
  ((if agree then 1 else 0) + (if spec then 2 else 0) + (if cls then 4 else 0) + (if cert then 8 else 0)
   + (match model with Overflow => 16 | Stuck => 32 | _ => 0 end))%N.
