(* Correspondence and specification checks for io/cdedb.rs (C05, C11, C12, C13, C08 external quality) *)
From Coq Require Import List ZArith Bool Arith NArith String.
From Flocq Require Import IEEE754.Binary IEEE754.Bits.
Require Import HP1 Cao1 Cao3 Score1 Spec Json Cde CdeSpec CorrSel F32.
Import ListNotations.
Open Scope nat_scope.

Definition exp_p := (Z * string * list (nat * nat))%type.
Definition exp_c := (Z * string * Z * Z * list nat * bool * list string * Z * Z)%type.   (* dbid,name,min,max,instr,fixed,hidden,factor bits,offset bits *)
Definition exp_read := (list exp_p * list exp_c * option (nat * list nat) * Z * Z * nat * option nat)%type.   (* ..., quality, event id, track id, ignored regs *)
Definition read_case := (json * option Z * bool * bool * option string * option string * option exp_read)%type.

(* `v.as_f64() as f32` of a numeric JSON value *)
Definition f32_of_json (j : json) : binary32 := match j with JInt z => f32_of_Z z | JNum b => b32_of_bits b | _ => f32_of_Z 0 end.
Definition exp_factor (fo : option json * option json) : binary32 := match fst fo with Some v => f32_of_json v | None => f32_of_Z 1 end.
(* room_offset after adapt_course_for_invisible_participants: offset + (invisible participants as f32) * factor *)
Definition exp_offset (fo : option json * option json) (inv : nat) : binary32 :=
  addf (match snd fo with Some v => f32_of_json v | None => f32_of_Z 0 end) (mulf (f32_of_Z (Z.of_nat inv)) (exp_factor fo)).

Definition pair_nn_eqb (a b : nat * nat) : bool := Nat.eqb (fst a) (fst b) && Nat.eqb (snd a) (snd b).
Definition read_agree (r : result (list rpart * list rcourse * ramb)) (e : option exp_read) : bool :=
  match r, e with
  | RErr _, None => true
  | ROk (ps, cs, amb), Some (eps, ecs, eq, eid, tid, nign, nigc) =>
    eqb_list (fun p (ep : exp_p) => let '(d, n, ch) := ep in (rp_dbid p =? d)%Z && String.eqb (rp_name p) n && eqb_list pair_nn_eqb (rp_choices p) ch) ps eps &&
    eqb_list (fun (cf : rcourse * (option json * option json)) (ec : exp_c) => let '(d, n, mn, mx, ins, fx, hid, fb, ob) := ec in let c := fst cf in
               (rc_dbid c =? d)%Z && String.eqb (rc_name c) n && (rc_min c =? mn)%Z && (rc_max c =? mx)%Z && eqb_list Nat.eqb (rc_instr c) ins &&
               Bool.eqb (rc_fixed c) fx && eqb_list String.eqb (rc_hidden c) hid &&
               (bits_of_b32 (exp_factor (snd cf)) =? fb)%Z && (bits_of_b32 (exp_offset (snd cf) (rc_inv_instr c + rc_inv_att c)) =? ob)%Z)
             (combine cs (ra_fields amb)) ecs && Nat.eqb (List.length (ra_fields amb)) (List.length cs) &&
    (match ra_qual amb, eq with
     | Some (ni, pens), Some (eni, epens) => Nat.eqb ni eni && eqb_list Nat.eqb pens epens
     | None, None => true | _, _ => false end) &&
    (ra_event amb =? eid)%Z && (ra_track amb =? tid)%Z && Nat.eqb (ra_ign_regs amb) nign &&
    (match nigc with Some n => Nat.eqb (ra_ign_courses amb) n | None => true end)
  | _, _ => false
  end.

(* ---- declarative pieces of C12, evaluated on the implementation's output independently of the transcription ---- *)
(* all (track id, part id) pairs of the export *)
Definition all_tracks (j : json) : list (Z * Z) :=
  match get "event" j with
  | Some ev => match get "parts" ev with
               | Some (JObj ps) => flat_map (fun kp : string * json => match get "tracks" (snd kp) with
                                                 | Some (JObj ts) => flat_map (fun kt : string * json => match parse_u64 (fst kt), parse_u64 (fst kp) with
                                                                                    | Some t, Some p => [(t, p)] | _, _ => [] end) ts
                                                 | _ => [] end) ps
               | _ => [] end
  | None => [] end.
(* documents that must be refused: wrong kind, schema version outside [7.0, 19.x], no track, several tracks and none selected,
   unknown track *)
Definition must_refuseb (j : json) (tr : option Z) : bool :=
  let kind_bad := match get "kind" j with Some (JStr k) => negb (String.eqb k "partial") | _ => true end in
  let ver_bad := match get "EVENT_SCHEMA_VERSION" j with
                 | Some (JArr [JInt a; JInt b]) => (a <? 7)%Z || (19 <? a)%Z
                 | Some _ => true
                 | None => match get "CDEDB_EXPORT_EVENT_VERSION" j with Some (JInt a) => (a <? 7)%Z || (19 <? a)%Z | _ => true end end in
  let ts := all_tracks j in
  let track_bad := match tr with
                   | Some t => negb (existsb (fun x : Z * Z => (fst x =? t)%Z) ts)
                   | None => negb (Nat.eqb (List.length ts) 1) end in
  kind_bad || ver_bad || track_bad.
(* each choice of each participant of the implementation's problem carries a penalty equal to its position in that registration's
   choice list of the export, and points to the course with that id *)
Definition penalties_okb (j : json) (e : exp_read) : bool :=
  let '(eps, ecs, _, _, tid, _, _) := e in
  forallb (fun ep : exp_p =>
    let '(rid, _, chs) := ep in
    match get "registrations" j with
    | Some regs => match get (zstr rid) regs with
                   | Some reg => match get "tracks" reg with
                                 | Some trs => match get (zstr tid) trs with
                                               | Some rt => match get "choices" rt with
                                                            | Some (JArr l) =>
                                                              forallb (fun ch : nat * nat =>
                                                                match nth_error l (snd ch), nth_error ecs (fst ch) with
                                                                | Some (JInt cid), Some ec => let '(d, _, _, _, _, _, _, _, _) := ec in (cid =? d)%Z
                                                                | _, _ => false end) chs
                                                            | _ => false end
                                               | None => false end
                                 | None => false end
                   | None => false end
    | None => false end) eps.

(* C08, last clause, read declaratively from the raw export: with --ignore-assigned every registration that participates in the
   selected track's part and is already assigned to a course of the problem (offered in the track and, under --ignore-cancelled, not
   cancelled) is rated by the position of that course in its ORIGINAL choice list (num_choices + 1 if not chosen); instructors of
   their own course are counted separately *)
Fixpoint position_of (cid : Z) (l : list json) (i : nat) : option nat :=
  match l with [] => None | JInt z :: t => if (z =? cid)%Z then Some i else position_of cid t (S i) | _ :: t => position_of cid t (S i) end.
Definition ext_quality (j : json) (tid : Z) (ic : bool) : option (nat * list nat) :=
  match find (fun x : Z * Z => (fst x =? tid)%Z) (all_tracks j), get "registrations" j, get "courses" j, get "event" j with
  | Some (_, part), Some (JObj regs), Some courses, Some ev =>
    let ncho := match get "parts" ev with
                | Some ps => match get (zstr part) ps with
                             | Some p => match get "tracks" p with
                                         | Some ts => match get (zstr tid) ts with Some td => unchosen_penalty td | None => 1 end
                                         | None => 1 end
                             | None => 1 end
                | None => 1 end in
    Some (fold_left (fun (acc : nat * list nat) (kr : string * json) =>
            let reg := snd kr in
            let in_prob := fun c : Z => match get (zstr c) courses with
                                        | Some cj => match get "segments" cj with
                                                     | Some sg => match get (zstr tid) sg with Some (JBool b) => b || negb ic | _ => false end
                                                     | None => false end
                                        | None => false end in
            (* a participant WITH CHOICES: some entry of the choice list is a course of the problem; only those are rated, as attendee
               (rank of the course in the original list, num_choices + 1 if not chosen) or as instructor (0) *)
            let has_valid_choice := fun rt : json => match get "choices" rt with
                                                     | Some (JArr l) => existsb (fun x => match x with JInt c => in_prob c | _ => false end) l
                                                     | _ => false end in
            let rate_attendee := fun (rt : json) (cid : Z) =>
              if has_valid_choice rt
              then (fst acc, (snd acc ++ [match get "choices" rt with Some (JArr l) => match position_of cid l 0 with Some p => p | None => ncho end | _ => ncho end])%list)
              else acc in
            let is_part := match get "parts" reg with Some ps => match get (zstr part) ps with Some p => match get "status" p with Some (JInt 2) => true | _ => false end | None => false end | None => false end in
            match is_part, (match get "tracks" reg with Some ts => get (zstr tid) ts | None => None end) with
            | true, Some rt =>
              match get "course_id" rt with
              | Some (JInt cid) =>
                let in_problem := match get (zstr cid) courses with
                                  | Some c => match get "segments" c with
                                              | Some sg => match get (zstr tid) sg with Some (JBool b) => b || negb ic | _ => false end
                                              | None => false end
                                  | None => false end in
                if in_problem then
                  match get "course_instructor" rt with
                  | Some (JInt i) => if (i =? cid)%Z
                                     then (* an instructor counts (with penalty 0) only if he has a choice among the courses of the problem --
                                             a participant WITH CHOICES, exactly as for optimised participants (instructor-only ones are not rated) *)
                                          (if match get "choices" rt with
                                              | Some (JArr l) => existsb (fun x => match x with
                                                                                   | JInt c => match get (zstr c) courses with
                                                                                               | Some cj => match get "segments" cj with
                                                                                                            | Some sg => match get (zstr tid) sg with Some (JBool b) => b || negb ic | _ => false end
                                                                                                            | None => false end
                                                                                               | None => false end
                                                                                   | _ => false end) l
                                              | _ => false end
                                           then (S (fst acc), snd acc) else acc)
                                     else rate_attendee rt cid
                  | _ => rate_attendee rt cid
                  end
                else acc
              | _ => acc end
            | _, _ => acc end) (obj_items regs) (0, []))
  | _, _, _, _ => None
  end.
Definition ext_quality_okb (j : json) (ic ia : bool) (e : exp_read) : bool :=
  let '(_, _, q, _, tid, _, _) := e in
  match q with
  | Some (ni, pens) => ia && match ext_quality j tid ic with Some (ni', pens') => Nat.eqb ni ni' && eqb_list Nat.eqb pens pens' | None => false end
  | None => negb ia end.

(* C12, "exactly the registrations ... that have a valid choice or instruct an offered course": every participant of the implementation's
   problem has a choice or is listed as instructor of one of the problem's courses (by its index), on the implementation's output alone *)
Definition involved_okb (e : exp_read) : bool :=
  let '(eps, ecs, _, _, _, _, _) := e in
  forallb (fun ip : nat * exp_p =>
             let '(i, (_, _, chs)) := ip in
             negb (match chs with [] => true | _ => false end) ||
             existsb (fun ec : exp_c => let '(_, _, _, _, ins, _, _, _, _) := ec in existsb (Nat.eqb i) ins) ecs)
          (combine (seq 0 (List.length eps)) eps).

(* bits: 1 reader model = implementation (problem, quality data, ids; or both refuse) | 2 the implementation accepted the document
   | 4 C12: penalty = position in the original choice list | 8 C12: documents that must be refused are refused
   | 16 C08: ignored pre-assigned participants are rated by their course's rank in the original choice list
   | 32 the declarative specification CdeSpec.spec_read = implementation
   | 64 C12: every participant of the problem has a valid choice or instructs a course of the problem *)
Definition check_read (c : read_case) : N :=
  let '(j, tr, ic, ia, ff, of, e) := c in
  ((if read_agree (read_fields j tr ic ia ff of) e then 1 else 0) + (match e with Some _ => 2 | None => 0 end) +
   (match e with Some ex => if penalties_okb j ex then 4 else 0 | None => 4 end) +
   (match e with Some _ => if must_refuseb j tr then 0 else 8 | None => 8 end) +
   (match e with Some ex => if ext_quality_okb j ic ia ex then 16 else 0 | None => 16 end) +
   (if read_agree (spec_read j tr ic ia ff of) e then 32 else 0) +
   (match e with Some ex => if involved_okb ex then 64 else 0 | None => 64 end))%N.

(* end to end: export, options, and the registrations / course segments of the import file the real binary wrote *)
Definition import_case := (json * option Z * bool * bool * option (list (Z * Z) * list (Z * bool)))%type.
(* assignment reconstructed from the file through the problem's id maps *)
Definition assignment_of (ps : list rpart) (cs : list rcourse) (regs : list (Z * Z)) : assignment :=
  map (fun p => match zfind (rp_dbid p) regs with
                | Some cid => index_where (fun c => (rc_dbid c =? cid)%Z) cs 0
                | None => None end) ps.
Definition zb_eqb (a b : Z * bool) : bool := (fst a =? fst b)%Z && Bool.eqb (snd a) (snd b).
Definition zz_eqb (a b : Z * Z) : bool := (fst a =? fst b)%Z && (snd a =? snd b)%Z.
Definition lsort_z {A} (l : list (Z * A)) : list (Z * A) :=
  fold_right (fun x acc => (fix ins (l : list (Z * A)) := match l with [] => [x] | y :: t => if (fst x <=? fst y)%Z then x :: y :: t else y :: ins t end) acc) [] l.

(* bits: 1 the model reads the export | 2 a file was written | 4 C05/C11 import_okb on the file | 8 the file = write model of the
   assignment it encodes (same registrations, same segments) | 16 hard constraints of the encoded assignment (C01 at this level) *)
Definition check_import (c : import_case) : N :=
  let '(j, tr, ic, ia, out) := c in
  match read_full j tr ic ia, out with
  | ROk (ps, cs, amb), Some (regs, crs) =>
    let a := assignment_of ps cs regs in
    let courses := map to_course cs in let parts := map to_part ps in
    let ok := import_okb ps cs regs crs in
    let wr := list_eqb zz_eqb (lsort_z regs) (lsort_z (write_regs a ps cs)) && list_eqb zb_eqb (lsort_z crs) (lsort_z (write_courses a cs)) in
    let hard := hard_ok_canon courses parts a in
    (1 + 2 + (if ok then 4 else 0) + (if wr then 8 else 0) + (if hard then 16 else 0))%N
  | ROk _, None => (1 + 4 + 8 + 16)%N
  | RErr _, Some _ => 2%N
  | RErr _, None => (4 + 8 + 16)%N
  end.

(* metamorphic pairs (C13): the reader model gives the same result on an export and its irrelevantly edited twin *)
Definition twin_case := (json * json * option Z * bool * bool)%type.
Definition rpart_eqb (a b : rpart) : bool := (rp_dbid a =? rp_dbid b)%Z && String.eqb (rp_name a) (rp_name b) && list_eqb pair_nn_eqb (rp_choices a) (rp_choices b).
Definition rcourse_eqb (a b : rcourse) : bool :=
  (rc_dbid a =? rc_dbid b)%Z && String.eqb (rc_name a) (rc_name b) && (rc_min a =? rc_min b)%Z && (rc_max a =? rc_max b)%Z &&
  list_eqb Nat.eqb (rc_instr a) (rc_instr b) && Bool.eqb (rc_fixed a) (rc_fixed b) && list_eqb String.eqb (rc_hidden a) (rc_hidden b) &&
  Nat.eqb (rc_inv_instr a) (rc_inv_instr b) && Nat.eqb (rc_inv_att a) (rc_inv_att b).
Definition check_twin (c : twin_case) : N :=
  let '(j1, j2, tr, ic, ia) := c in
  match spec_read j1 tr ic ia None None, spec_read j2 tr ic ia None None with
  | ROk (p1, c1, a1), ROk (p2, c2, a2) =>
    if list_eqb rpart_eqb p1 p2 && list_eqb rcourse_eqb c1 c2 && (ra_event a1 =? ra_event a2)%Z && (ra_track a1 =? ra_track a2)%Z &&
       (match ra_qual a1, ra_qual a2 with Some (n1, l1), Some (n2, l2) => Nat.eqb n1 n2 && list_eqb Nat.eqb l1 l2 | None, None => true | _, _ => false end)
    then 3%N else 2%N
  | RErr _, RErr _ => 1%N
  | _, _ => 0%N
  end.

(* twins whose persona NAMES differ as well (C13: names are carried through to the listing but must not influence the problem): the same
   comparison without the participants' names and the hidden participants' names *)
Definition rpart_eqb_nn (a b : rpart) : bool := (rp_dbid a =? rp_dbid b)%Z && list_eqb pair_nn_eqb (rp_choices a) (rp_choices b).
Definition rcourse_eqb_nn (a b : rcourse) : bool :=
  (rc_dbid a =? rc_dbid b)%Z && String.eqb (rc_name a) (rc_name b) && (rc_min a =? rc_min b)%Z && (rc_max a =? rc_max b)%Z &&
  list_eqb Nat.eqb (rc_instr a) (rc_instr b) && Bool.eqb (rc_fixed a) (rc_fixed b) && Nat.eqb (List.length (rc_hidden a)) (List.length (rc_hidden b)) &&
  Nat.eqb (rc_inv_instr a) (rc_inv_instr b) && Nat.eqb (rc_inv_att a) (rc_inv_att b).
Definition check_twin_nn (c : twin_case) : N :=
  let '(j1, j2, tr, ic, ia) := c in
  match spec_read j1 tr ic ia None None, spec_read j2 tr ic ia None None with
  | ROk (p1, c1, a1), ROk (p2, c2, a2) =>
    if list_eqb rpart_eqb_nn p1 p2 && list_eqb rcourse_eqb_nn c1 c2 && (ra_event a1 =? ra_event a2)%Z && (ra_track a1 =? ra_track a2)%Z &&
       (match ra_qual a1, ra_qual a2 with Some (n1, l1), Some (n2, l2) => Nat.eqb n1 n2 && list_eqb Nat.eqb l1 l2 | None, None => true | _, _ => false end)
    then 3%N else 2%N
  | RErr _, RErr _ => 1%N
  | _, _ => 0%N
  end.
