(* Correspondence check at node level (C01, C06, C08, C10, C17): the assembled node function Node.run_full, with the room
   stage instantiated with Flocq binary32, against run_bab_node of caobab.rs on generated instances and nodes. *)
From Coq Require Import List ZArith Bool Arith NArith.
Require Import HP1 Cao1 Cao3 Score1 Rooms F32 Node Spec CorrSel RoomSites.
Import ListNotations.
Open Scope nat_scope.

(* plain-data instance as printed by the harness *)
Definition pcourse := (nat * nat * list nat * bool * Z * Z)%type.        (* min, max, instructors, fixed, factor bits, offset bits *)
Definition pchoice := (nat * Z)%type.
Definition pnode := (list nat * list nat * list (nat * nat))%type.
Inductive pres := PNoSol | PInf (cs : list pnode) (s : Z) | PFeas (a : list (option nat)) (s : Z) | PPanic.
Definition node_case := (list pcourse * list (list pchoice) * option (list nat) * pnode * pres)%type.

Definition mk_course (c : pcourse) : course :=
  let '(mi, ma, ins, fx, _, _) := c in {| c_min := mi; c_max := ma; c_instr := ins; c_fixed := fx |}.
Definition mk_params (cs : list pcourse) : list (Z * Z) := map (fun c : pcourse => let '(_, _, _, _, f, o) := c in (f, o)) cs.
Definition mk_part (p : list pchoice) : participant :=
  {| p_choices := map (fun ch : pchoice => {| ch_course := fst ch; ch_pen := snd ch |}) p |}.
Definition mk_node (n : pnode) : node := let '(ca, en, sh) := n in {| n_cancel := ca; n_enf := en; n_shrink := sh |}.

Definition pair_eqb (a b : nat * nat) : bool := Nat.eqb (fst a) (fst b) && Nat.eqb (snd a) (snd b).
Definition node_eqb (a : node) (b : pnode) : bool :=
  let '(ca, en, sh) := b in
  list_eqb Nat.eqb (n_cancel a) ca && list_eqb Nat.eqb (n_enf a) en && list_eqb pair_eqb (n_shrink a) sh.
Definition optnat_eqb (a b : option nat) : bool :=
  match a, b with Some x, Some y => Nat.eqb x y | None, None => true | _, _ => false end.

Definition res_agree (m : out nres) (i : pres) : bool :=
  match m, i with
  | Val NoSolution, PNoSol => true
  | Val (Infeasible cs s), PInf ics is_ => list_eqb node_eqb cs ics && Z.eqb s is_
  | Val (Feasible a s), PFeas ia is_ => list_eqb optnat_eqb a ia && Z.eqb s is_
  | Panic _, PPanic => true
  | HOverflow, PPanic => true
  | _, _ => false
  end.

(* bits: 1 agree | 2 C01 hard constraints (node's cancelled set) | 4 valid instance and well-formed node | 8 NoSolution | 16 Infeasible
   | 32 Feasible | 64 implementation panicked | 128 C08 score = score_of | 256 C06 housed | 512 hard constraints with canonical K
   | 1024 model outcome is a panic site or Overflow
   | 2048 if the node has them, every child of an Infeasible answer of the IMPLEMENTATION keeps the invariants of generated subproblems: no fixed course
     cancelled (NodeWf.NoFix), node_wfb, no shrink bound below a minimum size (WfPres.Wf2) *)
Definition kids_okb (courses : list course) (ics : list pnode) : bool :=
  forallb (fun pn' => let nd' := mk_node pn' in
             forallb (fun c0 => negb (c_fixed (crs courses c0))) (n_cancel nd') && node_wfb courses nd' &&
             forallb (fun cs : nat * nat => (fst cs <? length courses) && (c_min (crs courses (fst cs)) <=? snd cs)) (n_shrink nd')) ics.
Definition check_node (c : node_case) : N :=
  let '(pcs, pps, rooms, pn, ires) := c in
  let courses := map mk_course pcs in let parts := map mk_part pps in let params := mk_params pcs in
  let nd := mk_node pn in
  let es := esize32 params in let sf := fixed_shrink courses (shrinkf32 params) in
  let model := run_full courses parts es sf rooms nd in
  let agree := res_agree model ires in
  let cls := Spec.validb courses parts && node_wfb courses nd && float_saneb courses es sf rooms in
  let '(hard, score_ok, housed, hardc) :=
    match ires with
    | PFeas a s =>
      (hard_okb courses parts (cancelled nd) a, Z.eqb s (score_of courses parts a),
       match rooms with
       | Some rs => housedb (map (eff_size courses es a) (seq 0 (length courses))) rs
       | None => true end,
       hard_ok_canon courses parts a)
    | _ => (true, true, true, true)
    end in
  ((if agree then 1 else 0) + (if hard then 2 else 0) + (if cls then 4 else 0) +
   (match ires with PNoSol => 8 | PInf _ _ => 16 | PFeas _ _ => 32 | PPanic => 64 end) +
   (if score_ok then 128 else 0) + (if housed then 256 else 0) + (if hardc then 512 else 0) +
   (match model with Val _ => 0 | _ => 1024 end) +
   (match ires with
    | PInf ics _ => if negb (kids_okb courses [pn]) || kids_okb courses ics then 2048 else 0
    | _ => 2048 end))%N.
