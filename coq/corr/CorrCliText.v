(* Text-level check of the `--print` stage (C14, and C18 at CLI level): the bytes the real binary wrote to stdout are exactly
   ListingText.print_stage of the instance as the reader model reads the input file, the assignment of the output file and the room strings
   of the model of io/rooms.rs. *)
From Coq Require Import List ZArith Bool Arith NArith String.
Require Import HP1 Cao1 Rooms F32 Rooms18 RoomsModel Json SimpleRead SimpleValid ListingText CorrSel CorrNode CorrCliFile.
Import ListNotations.
Open Scope nat_scope.

(* rooms: list mode (Some sizes, None), file mode (None, Some kinds of the file in file order: name, capacity, quantity), none (None, None) *)
Definition text_case := (list pcourse * list (list pchoice) * json * (option (list nat) * option (list (string * nat * nat))) * list (option nat) * string)%type.

Definition join (l : list string) : string := String.concat ", " l.
Definition room_strings (pcs : list pcourse) (a : list (option nat)) (rm : option (list nat) * option (list (string * nat * nat))) : option (list string) :=
  let courses := map mk_course pcs in let params := mk_params pcs in
  let es := esize32 params in
  let sizes := map (eff_size courses es a) (seq 0 (List.length courses)) in
  match rm with
  | (Some rooms, _) => Some (map (fun l => join (map dec l)) (possible sizes rooms))
  | (None, None) => None
  | (None, Some raw) =>
    let ks := kinds_read (map (fun ik : nat * (string * nat * nat) => (fst ik, snd (fst (snd ik)), snd (snd ik))) (combine (seq 0 (List.length raw)) raw)) in
    Some (map (fun l => join (map (fun id => fst (fst (nth id raw (EmptyString, 0, 0)))) l)) (kind_names ks sizes))
  end.

(* bits: 1 stdout = model text | 2 the input file reads (model) as the instance *)
Definition check_text (c : text_case) : N :=
  let '(pcs, pps, doc, rm, a, out) := c in
  match simple_read doc with
  | ROk (ps, cs) =>
    ((if String.eqb out (print_stage cs ps (room_strings pcs a rm) a) then 1 else 0) +
     (if eqb_list part_matches ps pps && eqb_list course_matches cs pcs then 2 else 0))%N
  | RErr _ => 0%N
  end.
