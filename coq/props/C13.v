(* C13 — the result depends only on the selected track's live data.  Property theorems only (partial: invariance is proved for the
   per-record lookups of the reader transcription; invariance of the whole reader on an edited export is evaluated inside Coq for
   every generated twin pair, and the real binary is run on both). *)
From Coq Require Import List ZArith Bool Arith String.
Require Import Json CdeThms.
Import ListNotations.

(* a registration's choices / assignment / instructed course as read depend only on its entry for the selected track *)
Theorem C13_registration_partial : forall reg reg' tid cmap,
  (match get "tracks" reg with Some v => match as_object v with Some o => assoc (zstr tid) o | None => None end | None => None end) =
  (match get "tracks" reg' with Some v => match as_object v with Some o => assoc (zstr tid) o | None => None end | None => None end) ->
  parse_pcd reg tid cmap = parse_pcd reg' tid cmap.
Proof. exact parse_pcd_other_tracks. Qed.
(* a course as read depends only on its base data and its segment for the selected track *)
Theorem C13_course_partial : forall cid c c' tid,
  get "nr" c = get "nr" c' -> get "shortname" c = get "shortname" c' -> get "max_size" c = get "max_size" c' -> get "min_size" c = get "min_size" c' ->
  (exists segs segs', get "segments" c = Some (JObj segs) /\ get "segments" c' = Some (JObj segs') /\ assoc (zstr tid) segs = assoc (zstr tid) segs') ->
  parse_course cid c tid = parse_course cid c' tid.
Proof. exact parse_course_other_segments. Qed.

Check C13_registration_partial. Check C13_course_partial.
Print Assumptions C13_registration_partial.
Print Assumptions C13_course_partial.
