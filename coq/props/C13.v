(* C13 — the result depends only on the selected track's live data.  Property theorems only.
   About the transcription Json.read_fields of cdedb::read (tied to the code by exact correspondence on every generated export)
   through the declarative specification CdeSpec.spec_read it is proved to compute (CdeRefine); additionally every generated twin pair -- export and irrelevantly edited export -- is evaluated in Coq and run through
   the real binary).  The problem determines verdict and score for every schedule (C03) and, with one worker, the assignment; the
   writer is a function of problem and assignment (C05). *)
From Coq Require Import List ZArith Bool Arith String.
Require Import Json CdeThms CdeSpec CdeInvariance CdeRefine.
Open Scope string_scope.
Import ListNotations.

(* course_data tid c / reg_data part tid r: exactly what the selected track's view of a course / registration reads: nr, shortname,
   sizes, fields and the segment entry of track tid; the status entry of the track's part, the two persona names and the tracks entry
   of track tid.  Two exports that have the same event structure, the same course and registration ids and agree on these data for
   every course and registration AT THE SELECTED PART AND TRACK -- whatever else differs: other tracks' choices, assignments, instructors and segments, other parts'
   statuses, lodgement and remaining persona data -- give the same problem (or the same refusal). *)
Theorem C13 : forall data data' track ign_c ign_a ff of,
  get "kind" data = get "kind" data' -> get "EVENT_SCHEMA_VERSION" data = get "EVENT_SCHEMA_VERSION" data' ->
  get "CDEDB_EXPORT_EVENT_VERSION" data = get "CDEDB_EXPORT_EVENT_VERSION" data' ->
  get "timestamp" data = get "timestamp" data' -> get "event" data = get "event" data' -> get "id" data = get "id" data' ->
  (* agreement is demanded ONLY at the part and track the reader selects (CdeInvariance.selected = find_track on the event structure) *)
  (forall part_id track_id, selected data' track = Some (part_id, track_id) ->
     match items_of "courses" data, items_of "courses" data' with
     | Some l, Some l' => Forall2 (fun x y : string * json => fst x = fst y /\ course_data track_id (snd x) = course_data track_id (snd y)) l l'
     | None, None => True | _, _ => False end /\
     match items_of "registrations" data, items_of "registrations" data' with
     | Some l, Some l' => Forall2 (fun x y : string * json => fst x = fst y /\ reg_data part_id track_id (snd x) = reg_data part_id track_id (snd y)) l l'
     | None, None => True | _, _ => False end) ->
  read_fields data track ign_c ign_a ff of = read_fields data' track ign_c ign_a ff of.
Proof. intros. rewrite !read_fields_refines_spec. apply spec_read_depends_selected; assumption. Qed.

(* non-vacuity: the hypotheses hold of a twin pair that differs in ANOTHER track's choices / assignment and in ANOTHER part's status (an
   earlier version of the statement asked for agreement at every pair of ids, which exactly these edits violate -- found by a review of
   the theorem statements) *)
Definition c13_export (other_choices : list json) (other_course : json) (other_status : Z) : json :=
  JObj [("kind", JStr "partial"); ("EVENT_SCHEMA_VERSION", JArr [JInt 16; JInt 0]); ("id", JInt 1); ("timestamp", JStr "2023-04-23T12:02:09+00:00");
        ("event", JObj [("parts", JObj [("1", JObj [("tracks", JObj [("1", JObj [("shortname", JStr "a"); ("num_choices", JInt 2)])])]);
                                        ("2", JObj [("tracks", JObj [("2", JObj [("shortname", JStr "b"); ("num_choices", JInt 2)])])])])]);
        ("courses", JObj [("10", JObj [("nr", JStr "1"); ("shortname", JStr "K"); ("segments", JObj [("1", JBool true); ("2", JBool true)]); ("fields", JObj [])])]);
        ("registrations", JObj [("5", JObj [("parts", JObj [("1", JObj [("status", JInt 2)]); ("2", JObj [("status", JInt other_status)])]);
                                            ("tracks", JObj [("1", JObj [("course_id", JNull); ("course_instructor", JNull); ("choices", JArr [JInt 10])]);
                                                             ("2", JObj [("course_id", other_course); ("course_instructor", JNull); ("choices", JArr other_choices)])]);
                                            ("persona", JObj [("given_names", JStr "G"); ("family_name", JStr "F")])])])].
Example C13_applies :
  c13_export [JInt 10] (JInt 10) 2 <> c13_export [] JNull 4 /\
  read_fields (c13_export [JInt 10] (JInt 10) 2) (Some 1%Z) false true None None = read_fields (c13_export [] JNull 4) (Some 1%Z) false true None None /\
  exists r, read_fields (c13_export [] JNull 4) (Some 1%Z) false true None None = ROk r.
Proof.
  split; [discriminate|]. split.
  - apply C13; try reflexivity. intros p t Hs. vm_compute in Hs. inversion Hs; subst p t. split; vm_compute; repeat constructor.
  - vm_compute. eexists. reflexivity.
Qed.

(* without --ignore-assigned the existing assignments (course_id of the selected track) do not enter the problem *)
Theorem C13_assigned_irrelevant : forall csorted rviews,
  spec_participants false (map forget_assigned rviews) = spec_participants false rviews /\
  spec_courses false csorted (map forget_assigned rviews) = spec_courses false csorted rviews.
Proof. exact assigned_irrelevant. Qed.
(* without --ignore-cancelled it does not matter whether a course of the selected track is currently cancelled or active: the same
   courses in the same order, the same id -> index map *)
Theorem C13_cancelled_irrelevant : forall cviews,
  map cv_id (spec_csorted false (map forget_cancel cviews)) = map cv_id (spec_csorted false cviews) /\
  spec_cmap false (map forget_cancel cviews) = spec_cmap false cviews.
Proof. exact cancelled_irrelevant. Qed.
(* the per-record lookups of the transcription have the same locality *)
Theorem C13_registration_lookup : forall reg reg' tid cmap,
  (match get "tracks" reg with Some v => match as_object v with Some o => assoc (zstr tid) o | None => None end | None => None end) =
  (match get "tracks" reg' with Some v => match as_object v with Some o => assoc (zstr tid) o | None => None end | None => None end) ->
  parse_pcd reg tid cmap = parse_pcd reg' tid cmap.
Proof. exact parse_pcd_other_tracks. Qed.

Check C13. Check C13_assigned_irrelevant. Check C13_cancelled_irrelevant. Check C13_registration_lookup.
Print Assumptions C13.
Print Assumptions C13_assigned_irrelevant.
Print Assumptions C13_cancelled_irrelevant.
Print Assumptions C13_registration_lookup.
