(* C01 — every reported assignment satisfies all hard course-assignment constraints.  Property theorems only.
   Model: Node.run_full (precompute_problem + run_bab_node + check_feasibility + room stage of caobab.rs, calling the Hungarian
   model HP1) under the engine EngP2 (bab.rs).  The theorems hold for every effective-size / shrink function (the room stage's
   floating point arithmetic), hence in particular for the binary32 instance the correspondence run evaluates. *)
From Coq Require Import List ZArith Lia Bool Arith.
Require Import HP1 Cao1 Cao3 Rooms Spec Valid SpecProofs Node NodeThms NodeWf Solve.
Require EngP2.
Import ListNotations.
Open Scope nat_scope.

(* node level: a Feasible answer of any subproblem of a valid instance satisfies the hard constraints, where the courses that do
   not take place are the cancelled courses of the node *)
Theorem C01_node : forall courses parts esize shrinkf rooms nd a s,
  Valid courses parts ->
  run_full courses parts esize shrinkf rooms nd = Val (Feasible a s) ->
  HardOK_K courses parts (cancelled nd) a.
Proof. intros courses parts esize shrinkf rooms nd a s V. apply (full_feasible_hard courses parts esize shrinkf rooms V). Qed.

(* the whole search: for every number of workers k and every interleaving (all reachable states of the engine, so in particular
   the final one whose best solution caobab::solve returns), with and without a room list: the best solution held satisfies the
   hard constraints for a set K of courses that do not take place; K contains only courses that are not marked fixed *)
Theorem C01 : forall courses parts esize shrinkf rooms smin smax k st a,
  Valid courses parts ->
  SReach courses parts esize shrinkf rooms smin smax k st ->
  EngP2.best node assignment st = Some a ->
  exists K, HardOK_K courses parts K a /\ forall c, K c = true -> c < nc courses /\ c_fixed (crs courses c) = false.
Proof.
  intros courses parts esize shrinkf rooms smin smax k st a V R Hb.
  destruct (best_is_node_output courses parts esize shrinkf rooms smin smax k st a R Hb) as (nd & Hin & Hrun).
  exists (cancelled nd). split.
  - apply (full_feasible_hard courses parts esize shrinkf rooms V nd a _ Hrun).
  - intros c Hc. pose proof (solved_nofix courses parts esize shrinkf rooms smin smax k st nd R Hin) as Hnf.
    unfold NoFix in Hnf. rewrite Forall_forall in Hnf. apply Hnf. apply memb_true. exact Hc.
Qed.

(* the executable predicates the correspondence run evaluates on the implementation's outputs mean the propositions *)
Theorem C01_checker_sound : forall courses parts K a, hard_okb courses parts K a = true -> HardOK_K courses parts K a.
Proof. exact hard_okb_sound. Qed.
Theorem C01_valid_checker_sound : forall courses parts, validb courses parts = true -> Valid courses parts.
Proof. exact validb_valid. Qed.

(* non-vacuity: a valid instance (3 courses, one fixed with an instructor; 5 participants, one instructor-only) whose root
   subproblem is answered Feasible by the model *)
Example C01_example :
  let courses := [ {| c_min := 1; c_max := 2; c_instr := [4]; c_fixed := true |};
                   {| c_min := 2; c_max := 3; c_instr := []; c_fixed := false |};
                   {| c_min := 0; c_max := 1; c_instr := []; c_fixed := false |} ] in
  let ch := fun c p => {| ch_course := c; ch_pen := p |} in
  let parts := [ {| p_choices := [ch 0 0%Z; ch 1 1%Z] |}; {| p_choices := [ch 1 0%Z; ch 2 1%Z] |}; {| p_choices := [ch 1 0%Z; ch 0 1%Z] |};
                 {| p_choices := [ch 2 0%Z; ch 1 1%Z] |}; {| p_choices := [] |} ] in
  Valid courses parts /\
  exists a s, run_full courses parts (fun _ n => n) (fun _ r => r) None root = Val (Feasible a s).
Proof.
  cbv zeta. split; [apply validb_valid; vm_compute; reflexivity|]. eexists. eexists. vm_compute. reflexivity.
Qed.

Check C01_node. Check C01. Check C01_checker_sound. Check C01_valid_checker_sound.
Print Assumptions C01_node.
Print Assumptions C01.
Print Assumptions C01_checker_sound.
Print Assumptions C01_valid_checker_sound.
