(* C02 — without room limits the result is optimal; 'no solution' means none exists.  Property theorems only.
   KNOWN FINDING (defect D2, class TC): when a participant with own choices instructs a course the search is incomplete; the
   theorem is therefore proved relative to the solutions that keep every such instructor teaching (Solution.s_keep), which is
   the full statement for instances outside TC (C02_noTC); C02_refuted exhibits the defect on the faithful model. *)
From Coq Require Import List ZArith Lia Bool Arith.
Require Import HP1 Cao1 Cao3 Cao5 Score1 Cov1 Rooms Spec SpecProofs Valid Node NodeThms NodeWf Solve C02Engine C02Full NoOverflow.
Require EngP2.
Import ListNotations.
Open Scope nat_scope.

Definition final (st : EngP2.state node assignment) : Prop := forall i t, EngP2.T node assignment st i = Some t -> t = EngP2.Done node.

(* For every valid instance without room list, every worker count k >= 1 and every interleaving: a final state of the search holds a
   best solution whose score is at least the score of EVERY hard-feasible assignment (with any set K of non-fixed courses not taking
   place) in which the participants with choices who instruct a course are assigned to it.  The only hypothesis besides validity: the
   matching routine never reports its range-checked i32 Overflow outcome (C07; excluded by the classical potential bound, not
   formalised).  That no node run ends in a panic site is proved (C10: NoPanic, WfPres). *)
Theorem C02_partial : forall courses parts esize shrinkf smin smax k st,
  Valid courses parts ->
  (forall nd, run_full courses parts esize shrinkf None nd <> HOverflow) ->
  (forall a, (score_of courses parts a <= smax)%Z) ->
  SReach courses parts esize shrinkf None smin smax k st -> 0 < k -> final st ->
  forall K a, Solution courses parts K a -> (forall c, c < nc courses -> K c = true -> c_fixed (crs courses c) = false) ->
  EngP2.best node assignment st <> None /\ (score_of courses parts a <= EngP2.bscore node assignment st)%Z.
Proof.
  intros courses parts esize shrinkf smin smax k st V Hov Hr R Hk Hfin K a Hs Hfix.
  apply (c02_partial_full courses parts V Hov smin smax k st Hr R Hk Hfin K a Hs Hfix).
Qed.

(* outside the class TC (no participant with choices instructs a course) this is the full statement: the reported score is the
   maximum over ALL hard-feasible assignments, and 'no solution' is reported only if none exists *)
Theorem C02_noTC : forall courses parts esize shrinkf smin smax k st,
  Valid courses parts -> in_tc courses parts = false ->
  (forall nd, run_full courses parts esize shrinkf None nd <> HOverflow) ->
  (forall a, (score_of courses parts a <= smax)%Z) ->
  SReach courses parts esize shrinkf None smin smax k st -> 0 < k -> final st ->
  forall K a, HardOK_K courses parts K a -> (forall c, K c = true -> c < nc courses /\ c_fixed (crs courses c) = false) ->
  EngP2.best node assignment st <> None /\ (score_of courses parts a <= EngP2.bscore node assignment st)%Z.
Proof.
  intros courses parts esize shrinkf smin smax k st V Htc Hnp Hr R Hk Hfin K a Hh HK.
  apply (C02_partial courses parts esize shrinkf smin smax k st V Hnp Hr R Hk Hfin K a).
  - constructor; [exact Hh| |intros c Hc; apply (HK c Hc)].
    intros p c Hp Hc Hio Hi. exfalso. unfold in_tc in Htc.
    assert (E : existsb (fun p => negb (instr_only parts p) && existsb (fun c => instructs courses p c) (seq 0 (nc courses))) (seq 0 (np parts)) = true).
    { apply existsb_exists. exists p. split; [apply in_seq; lia|]. rewrite Hio. simpl. apply existsb_exists. exists c. split; [apply in_seq; lia|exact Hi]. }
    congruence.
  - intros c _ Hc. apply (HK c Hc).
Qed.

(* the Overflow hypothesis discharged (HP7, NoOverflow): it suffices that the matching matrix is small enough for i32 labels,
   SizeOK: (n + 2) * WEIGHT_OFFSET <= i32::MAX with n = course places + skippable participants (n <= 42947 for WEIGHT_OFFSET 50000) *)
Theorem C02_sized : forall courses parts esize shrinkf smin smax k st,
  Valid courses parts -> in_tc courses parts = false -> SizeOK courses parts ->
  (forall a, (score_of courses parts a <= smax)%Z) ->
  SReach courses parts esize shrinkf None smin smax k st -> 0 < k -> final st ->
  forall K a, HardOK_K courses parts K a -> (forall c, K c = true -> c < nc courses /\ c_fixed (crs courses c) = false) ->
  EngP2.best node assignment st <> None /\ (score_of courses parts a <= EngP2.bscore node assignment st)%Z.
Proof.
  intros courses parts esize shrinkf smin smax k st V Htc Hs. apply (C02_noTC courses parts esize shrinkf smin smax k st V Htc).
  intros nd. apply (run_full_no_overflow courses parts V esize shrinkf None nd Hs).
Qed.

(* the final form: validity, not TC and the size bound (all but three validity clauses are what the program's own input check
   establishes) -- scores fit the Score type u32 under the size bound, so no hypothesis about smax remains *)
Theorem C02_final : forall courses parts esize shrinkf smin k st,
  Valid courses parts -> in_tc courses parts = false -> SizeOK courses parts ->
  SReach courses parts esize shrinkf None smin 4294967295%Z k st -> 0 < k -> final st ->
  forall K a, HardOK_K courses parts K a -> (forall c, K c = true -> c < nc courses /\ c_fixed (crs courses c) = false) ->
  EngP2.best node assignment st <> None /\ (score_of courses parts a <= EngP2.bscore node assignment st)%Z.
Proof.
  intros courses parts esize shrinkf smin k st V Htc Hs. apply (C02_sized courses parts esize shrinkf smin 4294967295%Z k st V Htc Hs).
  intros a. apply (score_fits_u32 courses parts V a Hs).
Qed.

(* the defect D2 on the faithful model: a valid instance of class TC that has a hard-feasible assignment (cancel course 0, its
   instructor attends the fixed course 1) on which the search ends without solution for every worker count and interleaving *)
Definition d2_courses := [ {| c_min := 0; c_max := 1; c_instr := [1]; c_fixed := false |}; {| c_min := 1; c_max := 3; c_instr := []; c_fixed := true |} ].
Definition d2_parts := [ {| p_choices := [] |}; {| p_choices := [ {| ch_course := 1; ch_pen := 0%Z |} ] |} ].
Theorem C02_refuted :
  Valid d2_courses d2_parts /\ in_tc d2_courses d2_parts = true /\
  (exists K a, HardOK_K d2_courses d2_parts K a /\ forall c, K c = true -> c < 2 /\ c_fixed (crs d2_courses c) = false) /\
  forall es sf smin smax k st, SReach d2_courses d2_parts es sf None smin smax k st -> EngP2.best node assignment st = None.
Proof.
  split; [apply validb_valid; vm_compute; reflexivity|]. split; [vm_compute; reflexivity|]. split.
  - exists (fun c => Nat.eqb c 0), [None; Some 1]. split; [apply SpecProofs.hard_okb_sound; vm_compute; reflexivity|].
    intros c Hc. apply Nat.eqb_eq in Hc. subst. split; [lia|reflexivity].
  - intros es sf smin smax k st R.
    pose (child := {| n_cancel := []; n_enf := [1]; n_shrink := [] |}).
    assert (Hroot : run_full d2_courses d2_parts es sf None root = Val (Infeasible [child] 50000%Z)) by (vm_compute; reflexivity).
    assert (Hchild : run_full d2_courses d2_parts es sf None child = Val NoSolution) by (vm_compute; reflexivity).
    destruct (EngP2.best node assignment st) as [a|] eqn:Eb; [|reflexivity]. exfalso.
    destruct (best_is_node_output d2_courses d2_parts es sf None smin smax k st a R Eb) as (nd & Hin & Hrun).
    destruct (EngP2.reach_gen node assignment (f_full d2_courses d2_parts es sf None) root smin smax (fun n => n = root \/ n = child)
                (or_introl eq_refl)
                (fun n cs s c Pn Hf Hc => ltac:(destruct Pn as [-> | ->]; unfold f_full in Hf; [rewrite Hroot in Hf; simpl in Hf; inversion Hf; subst;
                                                  destruct Hc as [<-|[]]; right; reflexivity | rewrite Hchild in Hf; simpl in Hf; discriminate]))
                k st R) as (_ & _ & _ & Hs).
    rewrite Forall_forall in Hs. destruct (Hs nd Hin) as [-> | ->]; congruence.
Qed.

Check C02_partial. Check C02_noTC. Check C02_sized. Check C02_final. Check C02_refuted.
Print Assumptions C02_partial.
Print Assumptions C02_noTC.
Print Assumptions C02_sized.
Print Assumptions C02_final.
Print Assumptions C02_refuted.
