(* C07 — the matching routine returns a maximum-weight constrained perfect matching.  Property theorems only. *)
From Coq Require Import List ZArith Permutation.
Require Import Cert HP1 HP2 HP5 HP6 HP7.
Import ListNotations.
Open Scope Z_scope.

(* For EVERY weight matrix and masks admitting a perfect allowed matching `pm` (rows/columns not skipped, no dummy row on a
   mandatory column): the routine is never stuck (no failed unwrap, fuel suffices); it either reports the range-checked
   i32 Overflow outcome or returns a perfect allowed matching whose weight is maximal and equals the returned score. *)
Theorem C07 : forall (w : list (list Z)) (dx my sx sy : list bool) (nx ny : nat) (pm : list (nat * nat)),
  is_pm dx my sx sy nx ny pm ->
  match hungarian w dx my sx sy nx ny with
  | Stuck => False
  | Overflow => True
  | Ok (mm, s, lx, ly) =>
      is_pm dx my sx sy nx ny (pairs_of sy ny mm) /\ s = weight w (pairs_of sy ny mm) /\
      forall pm', is_pm dx my sx sy nx ny pm' -> weight w pm' <= s
  end.
Proof. exact hungarian_correct. Qed.

(* TOTAL correctness: if moreover all weights lie in [0, Wmax] and (N + 2) * Wmax <= i32::MAX for N active rows, the range-checked
   i32 arithmetic never overflows (the dual objective is bounded below by the weight of pm and drops by dmin at every relabelling,
   so every label stays within [-N * Wmax, (N + 1) * Wmax]): the routine returns a maximum-weight perfect allowed matching *)
Theorem C07_total : forall (w : list (list Z)) (dx my sx sy : list bool) (nx ny : nat) (Wmax : Z) (pm : list (nat * nat)),
  (forall x y, 0 <= W w x y <= Wmax) -> is_pm dx my sx sy nx ny pm ->
  (Z.of_nat (length (rowsL sx nx)) + 2) * Wmax <= maxI ->
  exists mm s lx ly, hungarian w dx my sx sy nx ny = Ok (mm, s, lx, ly) /\
      is_pm dx my sx sy nx ny (pairs_of sy ny mm) /\ s = weight w (pairs_of sy ny mm) /\
      forall pm', is_pm dx my sx sy nx ny pm' -> weight w pm' <= s.
Proof.
  intros w dx my sx sy nx ny Wmax pm HW Hpm Hs.
  pose proof (hungarian_correct w dx my sx sy nx ny pm Hpm) as H.
  pose proof (hungarian_no_overflow w dx my sx sy nx ny Wmax HW pm Hpm Hs) as Hno.
  destruct (hungarian w dx my sx sy nx ny) as [[[[mm s] lx] ly]| |]; [|destruct H|congruence].
  exists mm, s, lx, ly. split; [reflexivity|exact H].
Qed.

(* partial correctness without the existence hypothesis: whenever the routine answers at all, the answer is optimal *)
Theorem C07_partial : forall (w : list (list Z)) (dx my sx sy : list bool) (nx ny : nat),
  length (rowsL sx nx) = length (colsL sy ny) ->
  match hungarian w dx my sx sy nx ny with
  | Ok (mm, s, lx, ly) =>
      is_pm dx my sx sy nx ny (pairs_of sy ny mm) /\ s = weight w (pairs_of sy ny mm) /\
      forall pm', is_pm dx my sx sy nx ny pm' -> weight w pm' <= s
  | _ => True
  end.
Proof. exact hungarian_partial. Qed.

(* weak duality: a feasible labelling with a tight perfect matching certifies optimality (used on the implementation's labels) *)
Theorem C07_certificate : forall (w : nat -> nat -> Z) (lx ly : nat -> Z) (allowed : nat -> nat -> bool) (rows cols : list nat) pm,
  Cert.feasible w lx ly allowed rows cols -> Cert.is_pm allowed rows cols pm -> Cert.tight w lx ly pm ->
  forall pm', Cert.is_pm allowed rows cols pm' -> Cert.weight w pm' <= Cert.weight w pm.
Proof. exact cert_sound. Qed.

(* non-vacuity: the 2x2 instance [[3;1];[2;5]] has the perfect matching (0,0),(1,1) and the model returns it with score 8 *)
Example C07_example :
  is_pm [false;false] [false;false] [false;false] [false;false] 2 2 [(0%nat,0%nat);(1%nat,1%nat)] /\
  match hungarian [[3;1];[2;5]] [false;false] [false;false] [false;false] [false;false] 2 2 with
  | Ok (mm, s, _, _) => mm = [0%nat;1%nat] /\ s = 8 | _ => False end.
Proof. split; [|vm_compute; auto]. repeat split; try apply Permutation_refl. repeat constructor. Qed.

Check C07_total.
Print Assumptions C07.
Print Assumptions C07_total.
Print Assumptions C07_partial.
Print Assumptions C07_certificate.
