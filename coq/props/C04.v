(* C04 — the parallel search always terminates and accounts for every subproblem once.  Property theorems only.
   Model: EngP2 (small-step transition system of bab.rs: one step per lock acquisition / critical-section decision /
   node result; spurious wake-ups and notifications are the flag-false steps).  Recorded histories of the real
   implementation are replayed by EngExec.exec; C04_replay ties them to `Reach`. *)
From Coq Require Import List ZArith Permutation Lia.
Require Import EngP2 EngExec.
Import ListNotations.
Open Scope nat_scope.

Section C04.
Variables (node sol : Type) (f : node -> nres node sol) (root : node) (smin smax : Z).
Notation Reach := (Reach node sol f root smin smax).
Notation Step := (Step node sol f).

(* accounting in every reachable state, for every worker count and interleaving: busy = number of workers solving; every generated
   subproblem is exactly one of failed / pending / being solved / solved / bounded (multiset equality); the statistics are the
   sizes of those multisets and executed = no-solution + infeasible + feasible *)
Theorem C04_accounting : forall k st, Reach k st ->
  busy node sol st = cnt node (isSolving node) (thr node sol st) /\
  Permutation (generated node sol st)
     (failed node sol st ++ map fst (pend node sol st) ++ solvingL node (thr node sol st) ++ solved node sol st ++ bounded node sol st) /\
  n_ex node sol st = length (solved node sol st) /\ n_bnd node sol st = length (bounded node sol st) /\
  n_ex node sol st = n_no node sol st + n_inf node sol st + n_fea node sol st.
Proof.
  intros k st R. destruct (reach_inv node sol f root smin smax k st R) as [Ib _ _ _ _ (I1 & I2 & I3) Ia _]. repeat split; assumption.
Qed.

(* no deadlock, no lost wake-up: as long as some worker has neither finished nor died, a step that is not a wake-up is enabled *)
Theorem C04_no_deadlock : forall k st, Reach k st ->
  (exists i t, T node sol st i = Some t /\ t <> Done node /\ t <> Dead node) -> exists st', Step true st st'.
Proof. exact (no_deadlock node sol f root smin smax). Qed.

(* termination: for any height function decreasing along children (finite tree), the measure M drops with every step that is not a
   spurious wake-up and grows by exactly 3 with a wake-up; so a run has at most M(init) + 3 * #wake-ups steps *)
Theorem C04_termination : forall (h : node -> nat),
  (forall n cs s c, f n = Infeas node sol cs s -> In c cs -> h c < h n) ->
  forall k b st st', Reach k st -> Step b st st' ->
  if b then M node sol f h k st' + 1 <= M node sol f h k st else M node sol f h k st' = M node sol f h k st + 3.
Proof. intros h Hh k b st st'. apply (measure_step node sol f root smin smax h Hh). Qed.

(* when all workers have stopped and one exited normally: nothing is pending, nobody is busy, generated = failed + solved + bounded *)
Theorem C04_final : forall k st, Reach k st ->
  (forall i t, T node sol st i = Some t -> t = Done node \/ t = Dead node) -> (exists i, T node sol st i = Some (Done node)) ->
  pend node sol st = [] /\ busy node sol st = 0 /\
  Permutation (generated node sol st) (failed node sol st ++ solved node sol st ++ bounded node sol st) /\
  n_ex node sol st = length (solved node sol st) /\ n_bnd node sol st = length (bounded node sol st) /\
  n_ex node sol st = n_no node sol st + n_inf node sol st + n_fea node sol st.
Proof. exact (final_accounting node sol f root smin smax). Qed.

(* the tie to the code: a history accepted by the executable replay ends in a reachable state *)
Theorem C04_replay : forall (node_eqb : node -> node -> bool), (forall a b, node_eqb a b = true -> a = b) ->
  forall k evs st', replay node sol f node_eqb (init node sol root smin smax k) evs 0 = inl st' -> Reach k st'.
Proof. intros eqb Heq k evs st'. apply (replay_init_reach node sol f root smin smax eqb Heq). Qed.
End C04.

Check C04_accounting. Check C04_no_deadlock. Check C04_termination. Check C04_final. Check C04_replay.
Print Assumptions C04_accounting.
Print Assumptions C04_no_deadlock.
Print Assumptions C04_termination.
Print Assumptions C04_final.
Print Assumptions C04_replay.
