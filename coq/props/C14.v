(* C14 — simple-format output and printed listing line up with the input.  Property theorems only.
   Listing.listing is the structural model of io.rs format_assignment: per course (in input order) the count shown, the assigned
   participants (in index order) with their instructor flag, the number of hidden extra names. *)
From Coq Require Import List Arith Bool Lia.
Require Import HP1 Cao1 Cao3 Listing.
Require Json SimpleRead SimpleRound SimpleValid ListingText WriteDoc WriteDocThms.
From Coq Require String ZArith.
Import ListNotations.
Open Scope nat_scope.

(* one block per input course *)
Theorem C14_courses : forall courses hidden a, length (listing courses hidden a) = nc courses.
Proof. exact listing_length. Qed.
(* under each course exactly the people the array assigns to it ... *)
Theorem C14_partition : forall courses hidden a c p, c < nc courses ->
  (In p (map fst (snd (fst (nth c (listing courses hidden a) (0, [], 0))))) <-> p < length a /\ getO a p = Some c).
Proof. exact listing_partition. Qed.
(* ... each at most once in the whole listing ... *)
Theorem C14_once : forall courses hidden a c c' p, c < nc courses -> c' < nc courses ->
  In p (map fst (snd (fst (nth c (listing courses hidden a) (0, [], 0))))) ->
  In p (map fst (snd (fst (nth c' (listing courses hidden a) (0, [], 0))))) -> c = c'.
Proof. exact listing_once. Qed.
(* ... flagged exactly the course's instructors ... *)
Theorem C14_flags : forall courses hidden a c p b, c < nc courses ->
  In (p, b) (snd (fst (nth c (listing courses hidden a) (0, [], 0)))) -> (b = true <-> In p (c_instr (crs courses c))).
Proof. exact listing_flags. Qed.
(* ... and counted together with the course's hidden extra names *)
Theorem C14_count : forall courses hidden a c, c < nc courses ->
  fst (fst (nth c (listing courses hidden a) (0, [], 0))) = length (snd (fst (nth c (listing courses hidden a) (0, [], 0)))) + hidden c.
Proof. exact listing_count. Qed.

(* the assignment array: exactly one entry per input participant, each null or a valid course index -- for every assignment that
   satisfies the hard constraints (which C01 proves of every reported one) *)
Theorem C14_array : forall courses parts K a, HardOK_K courses parts K a -> array_okb courses (np parts) a = true.
Proof.
  intros courses parts K a H. apply array_okb_spec. split; [apply (h_len _ _ _ _ H)|].
  intros p c Hp. assert (Hlt : p < np parts).
  { rewrite <- (h_len _ _ _ _ H). unfold getO in Hp. destruct (Nat.lt_ge_cases p (length a)) as [L|L]; [exact L|]. rewrite nth_overflow in Hp by exact L. discriminate. }
  apply (h_rng _ _ _ _ H p c Hlt Hp).
Qed.

(* non-vacuity: two courses, assignment [Some 1; None; Some 0; Some 1], participant 3 instructs course 1, one hidden name in course 0 *)
Example C14_example :
  listing [ {| c_min := 0; c_max := 3; c_instr := []; c_fixed := false |}; {| c_min := 0; c_max := 3; c_instr := [3]; c_fixed := false |} ]
          (fun c => if Nat.eqb c 0 then 1 else 0) [Some 1; None; Some 0; Some 1]
  = [ (2, [(2, false)], 1); (2, [(0, false); (3, true)], 0) ].
Proof. vm_compute. reflexivity. Qed.

(* "the input": the simple-format document that io::simple::write_input_data produces for an instance (SimpleRound.doc: all fields, object
   form) is read back by the reader model as exactly that instance; the CLI stream checks on every run that the real input file reads
   back as the instance the listing and the array are compared with *)
Theorem C14_input_round_trip : forall ps cs, Forall SimpleRound.wf_part ps -> Forall SimpleRound.wf_course cs ->
  SimpleRead.simple_read (SimpleRound.doc ps cs) = Json.ROk (ps, cs).
Proof. exact SimpleRound.simple_round_trip. Qed.

(* the TEXT: for every input document the program accepts, what `--print` writes to stdout (ListingText.print_stage, the model of main.rs's
   print! and io::format_assignment, compared byte for byte with the real stdout on every run) is the rendering of the structural listing
   above -- per course the header with its name, the count, the optional room line, one line per listed person with the flag, the
   hidden names -- for the courses, instructors and hidden names of the input as read *)
Theorem C14_text : forall data ps cs rooms a, SimpleRead.simple_read data = Json.ROk (ps, cs) -> SimpleRead.consistentb ps cs = true ->
  ListingText.print_stage cs ps rooms a =
  ListingText.unlines (ListingText.title ::
                       ListingText.render cs ps rooms (listing (map SimpleValid.to_course cs) (ListingText.hidden cs) a)).
Proof.
  intros data ps cs rooms a Hr Hc. apply ListingText.print_stage_render.
  destruct (SimpleRead.accepted_is_consistent data ps cs Hr Hc) as (_ & Hin & _ & _).
  intros c i Hcin Hi. destruct (Hin c i Hcin Hi) as [H _]. exact H.
Qed.
(* ... and the lines are recoverable from the text when no line contains a line feed *)
Theorem C14_text_lines : forall ls, forallb (fun l => negb (ListingText.has_nl l)) ls = true ->
  ListingText.lines_of (ListingText.unlines ls) String.EmptyString = ls.
Proof. exact ListingText.lines_of_unlines. Qed.

(* ... so for an accepted document whose names, hidden names and room strings contain no line feed, the lines of the printed text ARE the
   title followed by the rendering of the structural listing: what C14_partition / _flags / _count state can be read off stdout *)
Theorem C14_text_recover : forall data ps cs rooms a, SimpleRead.simple_read data = Json.ROk (ps, cs) -> SimpleRead.consistentb ps cs = true ->
  (forall p, In p ps -> ListingText.has_nl (SimpleRead.sp_name p) = false) ->
  (forall c, In c cs -> ListingText.has_nl (SimpleRead.so_name c) = false /\
                        forallb (fun h => negb (ListingText.has_nl h)) (SimpleRead.so_hidden c) = true) ->
  match rooms with Some rs => forallb (fun s => negb (ListingText.has_nl s)) rs = true | None => True end ->
  ListingText.lines_of (ListingText.print_stage cs ps rooms a) String.EmptyString =
  ListingText.title :: ListingText.render cs ps rooms (listing (map SimpleValid.to_course cs) (ListingText.hidden cs) a).
Proof.
  intros data ps cs rooms a Hr Hc Hp Hcs Hro. rewrite (ListingText.print_stage_lines cs ps rooms Hp Hcs Hro a). f_equal.
  apply ListingText.lines_render. destruct (SimpleRead.accepted_is_consistent data ps cs Hr Hc) as (_ & Hin & _ & _).
  intros c i Hcin Hi. destruct (Hin c i Hcin Hi) as [H _]. exact H.
Qed.

Import String.
Local Open Scope string_scope.
Local Open Scope list_scope.
Local Open Scope nat_scope.
(* the output DOCUMENT: WriteDoc.simple_doc is the whole JSON value simple::write serialises (compared with every output file of the real
   binary, CorrDoc.check_simple_doc): exactly the documented keys format / version / quality / assignment; the array has one entry per
   element of the assignment -- hence, by C14_array, one per input participant, each null or a valid course index -- and a strict reader of
   the document recovers exactly the assignment *)
Theorem C14_document : forall a q,
  Json.get "format" (WriteDoc.simple_doc a q) = Some (Json.JStr Consts.SIMPLE_FORMAT) /\
  Json.get "version" (WriteDoc.simple_doc a q) = Some (Json.JStr Consts.SIMPLE_VERSION) /\
  Json.get "quality" (WriteDoc.simple_doc a q) = Some q /\
  Json.get "assignment" (WriteDoc.simple_doc a q) = Some (Json.JArr (map WriteDoc.enc_entry a)) /\
  List.length (map WriteDoc.enc_entry a) = List.length a.
Proof. exact WriteDocThms.simple_doc_shape. Qed.
Theorem C14_document_round_trip : forall a q, WriteDoc.assignment_of_doc (WriteDoc.simple_doc a (Json.JObj q)) = Some a.
Proof. exact WriteDocThms.simple_doc_round_trip. Qed.
Theorem C14_document_entries : forall courses parts K a p, HardOK_K courses parts K a -> p < np parts ->
  nth p (map WriteDoc.enc_entry a) Json.JNull = Json.JNull \/
  exists c, c < nc courses /\ nth p (map WriteDoc.enc_entry a) Json.JNull = Json.JInt (BinInt.Z.of_nat c).
Proof.
  intros courses parts K a p H Hp.
  replace (nth p (map WriteDoc.enc_entry a) Json.JNull) with (WriteDoc.enc_entry (nth p a None))
    by (symmetry; apply (map_nth WriteDoc.enc_entry a None p)).
  destruct (nth p a None) as [c|] eqn:E; [right|left; reflexivity]. exists c. split; [|reflexivity].
  apply (h_rng _ _ _ _ H p c Hp). exact E.
Qed.

(* ... and "lines up with the input": for every input document the reader accepts (ps participants, cs courses as read) and every hard-feasible
   assignment of that instance, the array of the output document has exactly one entry per participant of the input, each null or an index
   into the input's course list *)
Theorem C14_document_input : forall data ps cs K a q,
  SimpleRead.simple_read data = Json.ROk (ps, cs) ->
  HardOK_K (map SimpleValid.to_course cs) (map SimpleValid.to_part ps) K a ->
  exists l, Json.get "assignment" (WriteDoc.simple_doc a q) = Some (Json.JArr l) /\ List.length l = List.length ps /\
            Forall (fun j => j = Json.JNull \/ exists c, c < List.length cs /\ j = Json.JInt (BinInt.Z.of_nat c)) l.
Proof.
  intros data ps cs K a q _ H. exists (map WriteDoc.enc_entry a). split; [reflexivity|]. split.
  - rewrite map_length. rewrite (h_len _ _ _ _ H). unfold np. apply map_length.
  - apply Forall_forall. intros j Hj. apply in_map_iff in Hj. destruct Hj as (o & <- & Ho). destruct o as [c|]; [right|left; reflexivity].
    exists c. split; [|reflexivity]. apply In_nth with (d := None) in Ho. destruct Ho as (p & Hp & Hn).
    assert (Hc : c < nc (map SimpleValid.to_course cs)).
    { apply (h_rng _ _ _ _ H p c); [rewrite <- (h_len _ _ _ _ H); exact Hp|exact Hn]. }
    unfold nc in Hc. rewrite map_length in Hc. exact Hc.
Qed.

Check C14_text. Check C14_text_lines. Check C14_text_recover. Check C14_document. Check C14_document_input. Check C14_document_round_trip. Check C14_document_entries.
Check C14_input_round_trip. Check C14_courses. Check C14_partition. Check C14_once. Check C14_flags. Check C14_count. Check C14_array.
Print Assumptions C14_partition.
Print Assumptions C14_once.
Print Assumptions C14_flags.
Print Assumptions C14_count.
Print Assumptions C14_array.
Print Assumptions C14_input_round_trip.
Print Assumptions C14_text.
Print Assumptions C14_text_lines.
Print Assumptions C14_text_recover.
Print Assumptions C14_document.
Print Assumptions C14_document_round_trip.
Print Assumptions C14_document_entries.
Print Assumptions C14_document_input.
