(* C10 — valid instances end in 'solution' or 'no feasible solution', never a crash.  Property theorems only (node level: the
   internal assert!/unwrap/usize-subtraction sites of run_bab_node; that the engine never hangs and terminates is C04; the exit
   status is decided by main.rs from the verdict and is checked on the real binary by the correspondence run). *)
From Coq Require Import List ZArith Lia Bool Arith.
Require Import HP1 Cao1 Cao5 Cao6 Rooms Spec Valid Node NoPanic RoomThms.
Import ListNotations.
Open Scope nat_scope.

(* for every valid instance and every well-formed subproblem (enforced courses exist, are not cancelled and are not shrunk below
   their minimum): a run of the node function can only end in one of the sites 6..10 of the room stage -- never in the dummy-row
   arithmetic (1, 2), the mandatory/skipped assertion (3), the matching routine's unwrap (4) or check_feasibility's assertion (5) *)
Theorem C10_node_partial : forall courses parts esize shrinkf rooms nd s,
  Valid courses parts -> WfNode courses nd ->
  run_full courses parts esize shrinkf rooms nd = Panic s -> 6 <= s <= 10.
Proof.
  intros courses parts esize shrinkf rooms nd s V Hwf H.
  apply (run_panic_sites courses parts _ _ (valid_one _ _ V) (v_minmax _ _ V) (fun s' => 6 <= s' <= 10) (fun s' Hs => proj1 Hs)
           (fun nd' a s' Hp => room_gate_site courses esize shrinkf rooms nd' a s' Hp) nd s Hwf H).
Qed.

(* without a room list no site at all is reachable: the node function answers (or reports the matching routine's range-checked
   i32 Overflow outcome, see C07) *)
Theorem C10_node_noroom : forall courses parts esize shrinkf nd s,
  Valid courses parts -> WfNode courses nd -> run_full courses parts esize shrinkf None nd <> Panic s.
Proof.
  intros courses parts esize shrinkf nd s V Hwf H.
  assert (Hg : forall nd' a s', the_gate courses esize shrinkf None nd' a = Panic s' -> False) by (intros nd' a s' Hp; discriminate Hp).
  apply (run_panic_sites courses parts _ _ (valid_one _ _ V) (v_minmax _ _ V) (fun _ => False) (fun s' Hs => match Hs with end) Hg nd s Hwf H).
Qed.

(* the matching routine's unwrap (site 4) is unreachable for EVERY instance and node, valid or not *)
Theorem C10_never_stuck : forall courses parts esize shrinkf rooms nd, run_full courses parts esize shrinkf rooms nd <> Panic 4.
Proof.
  intros courses parts esize shrinkf rooms nd. apply run_node_never_stuck. intros nd' a H.
  pose proof (room_gate_site courses esize shrinkf rooms nd' a 4 H). lia.
Qed.

(* the root subproblem is well-formed *)
Theorem C10_root_wf : forall courses, WfNode courses root.
Proof. intros courses c []. Qed.

Check C10_node_partial. Check C10_node_noroom. Check C10_never_stuck. Check C10_root_wf.
Print Assumptions C10_node_partial.
Print Assumptions C10_node_noroom.
Print Assumptions C10_never_stuck.
