(* C10 — valid instances end in 'solution' or 'no feasible solution', never a crash.  Property theorems only (node and search
   level: the internal assert!/unwrap/usize-subtraction sites of run_bab_node and of the room stage; that the engine never hangs
   and terminates is C04; the exit status is decided by main.rs from the verdict, see Cli.wellformed_exit, and is checked on the
   real binary by the correspondence run). *)
From Coq Require Import List ZArith Lia Bool Arith.
Require Import HP1 Cao1 Cao5 Cao6 Rooms Spec Valid Node NoPanic WfCheck RoomThms RoomSites WfPres Solve NoOverflow Terminate Prealloc.
From Coq Require NArith.
Require EngP2.
Require Json SimpleRead SimpleValid CdeValid.
Import ListNotations.
Open Scope nat_scope.

(* Wf2: every shrink bound respects its course's minimum; enforced courses exist and are not cancelled.
   FloatSane rooms: the two float functions of the room stage are consistent on the given room sizes (esize c n <= r -> n <= shrinkf c r
   for n = minimum + instructors and every room size r) -- a decidable property of instance and room list (float_saneb, reflected by
   C10_float_sane_checker; the correspondence run evaluates it for the binary32 functions on every tested instance); True without rooms. *)

(* for every valid instance and every well-formed subproblem, with or without room list: the node function never ends in any of its
   panic sites 1..10 (dummy-row arithmetic, mandatory/skipped assert, matching unwrap, check_feasibility assert, room stage asserts,
   unwraps and usize subtraction); it answers, or reports the matching routine's range-checked i32 Overflow outcome (C07) *)
Theorem C10_node : forall courses parts esize shrinkf rooms nd s,
  Valid courses parts -> FloatSane courses esize shrinkf rooms -> Wf2 courses nd ->
  run_full courses parts esize shrinkf rooms nd <> Panic s.
Proof.
  intros courses parts esize shrinkf rooms nd s V FS Hwf H.
  apply (run_panic_sites courses parts _ _ (valid_one _ _ V) (v_minmax _ _ V) (fun _ => False) (fun s' Hs => match Hs with end)
           (fun nd' a s' Hp => room_gate_no_site courses esize shrinkf rooms nd' a s' FS Hp) nd s (wf2_wf courses nd Hwf) H).
Qed.

(* the same for the executable class predicate of the node correspondence (which also runs random, unreachable nodes): whenever
   validb, float_saneb and node_wfb answer true the node model ends in no panic site *)
Theorem C10_node_class : forall courses parts esize shrinkf rooms nd s,
  Spec.validb courses parts = true -> float_saneb courses esize shrinkf rooms = true -> node_wfb courses nd = true ->
  run_full courses parts esize shrinkf rooms nd <> Panic s.
Proof.
  intros courses parts esize shrinkf rooms nd s Hv Hf Hw H. pose proof (validb_valid courses parts Hv) as V.
  apply (run_panic_sites courses parts _ _ (valid_one _ _ V) (v_minmax _ _ V) (fun _ => False) (fun s' Hs => match Hs with end)
           (fun nd' a s' Hp => room_gate_no_site courses esize shrinkf rooms nd' a s' (float_saneb_spec courses esize shrinkf rooms Hf) Hp)
           nd s (node_wfb_wf courses nd Hw) H).
Qed.

(* the root is well-formed and well-formedness is inherited by every child the node function generates ... *)
Theorem C10_root_wf : forall courses, Wf2 courses root.
Proof. exact wf2_root. Qed.
Theorem C10_children_wf : forall courses parts esize shrinkf rooms nd cs s,
  Valid courses parts -> FloatSane courses esize shrinkf rooms -> Wf2 courses nd ->
  run_full courses parts esize shrinkf rooms nd = Val (Infeasible cs s) -> forall c, In c cs -> Wf2 courses c.
Proof. intros courses parts esize shrinkf rooms nd cs s V FS. apply (children_wf2 courses parts esize shrinkf rooms V FS). Qed.

(* ... hence, for every worker count and interleaving, NO subproblem the search ever generates makes the node function panic *)
Theorem C10_search : forall courses parts esize shrinkf rooms smin smax k st nd s,
  Valid courses parts -> FloatSane courses esize shrinkf rooms ->
  SReach courses parts esize shrinkf rooms smin smax k st -> In nd (EngP2.generated node assignment st) ->
  run_full courses parts esize shrinkf rooms nd <> Panic s.
Proof.
  intros courses parts esize shrinkf rooms smin smax k st nd s V FS R Hin.
  destruct (EngP2.reach_gen node assignment (f_full courses parts esize shrinkf rooms) root smin smax (Wf2 courses) (wf2_root courses)
             (fun n cs s0 c Pn Hf Hc => children_wf2 courses parts esize shrinkf rooms V FS n cs s0 Pn (to_eng_inf _ _ _ Hf) c Hc) k st R) as (Hg & _).
  rewrite Forall_forall in Hg. apply (C10_node courses parts esize shrinkf rooms nd s V FS (Hg nd Hin)).
Qed.
(* and no worker dies unless the matching routine reports Overflow *)
Theorem C10_no_failure : forall courses parts esize shrinkf rooms smin smax k st,
  Valid courses parts -> FloatSane courses esize shrinkf rooms ->
  (forall nd, run_full courses parts esize shrinkf rooms nd <> HOverflow) ->
  SReach courses parts esize shrinkf rooms smin smax k st -> EngP2.failed node assignment st = [].
Proof.
  intros courses parts esize shrinkf rooms smin smax k st V FS Hov R.
  destruct (EngP2.failed node assignment st) as [|nd t] eqn:Ef; [reflexivity|]. exfalso.
  pose proof (EngP2.reach_failed node assignment (f_full courses parts esize shrinkf rooms) root smin smax k st R) as Hf. rewrite Ef in Hf.
  inversion Hf as [|? ? Hp _]; subst.
  assert (Hgen : In nd (EngP2.generated node assignment st)).
  { destruct (EngP2.reach_inv node assignment (f_full courses parts esize shrinkf rooms) root smin smax k st R) as [_ _ _ _ _ _ Ia _].
    apply (Permutation.Permutation_in _ (Permutation.Permutation_sym Ia)). rewrite Ef. left. reflexivity. }
  unfold f_full in Hp. destruct (run_full courses parts esize shrinkf rooms nd) as [[| |]|site|] eqn:Er; try discriminate.
  - apply (C10_search courses parts esize shrinkf rooms smin smax k st nd site V FS R Hgen Er).
  - apply (Hov nd Er).
Qed.

Theorem C10_float_sane_checker : forall courses esize shrinkf rooms, float_saneb courses esize shrinkf rooms = true -> FloatSane courses esize shrinkf rooms.
Proof. exact float_saneb_spec. Qed.

(* the matching routine's unwrap (site 4) is unreachable for EVERY instance and node, valid or not *)
Theorem C10_never_stuck : forall courses parts esize shrinkf rooms nd, run_full courses parts esize shrinkf rooms nd <> Panic 4.
Proof.
  intros courses parts esize shrinkf rooms nd. apply run_node_never_stuck. intros nd' a H.
  pose proof (room_gate_site courses esize shrinkf rooms nd' a 4 H). lia.
Qed.
(* without a room list FloatSane is not needed: take the identity functions *)
Theorem C10_node_noroom : forall courses parts esize shrinkf nd s,
  Valid courses parts -> Wf2 courses nd -> run_full courses parts esize shrinkf None nd <> Panic s.
Proof.
  intros courses parts esize shrinkf nd s V Hwf H.
  assert (Hg : forall nd' a s', the_gate courses esize shrinkf None nd' a = Panic s' -> False) by (intros nd' a s' Hp; discriminate Hp).
  apply (run_panic_sites courses parts _ _ (valid_one _ _ V) (v_minmax _ _ V) (fun _ => False) (fun s' Hs => match Hs with end) Hg nd s (wf2_wf courses nd Hwf) H).
Qed.

(* "valid instance" pinned down to input documents: a simple-format document that the program accepts (SimpleRead.simple_read parses it and
   check_data_consistency = consistentb passes; both compared exactly with the code, C15) and that satisfies the three clauses the program
   does not check (unchecked_okb: no course twice in a choice list, participants * max penalty < WEIGHT_OFFSET, somebody has choices)
   is a valid instance, so no generated subproblem ends in a panic site *)
Theorem C10_document_valid : forall data ps cs,
  SimpleRead.simple_read data = Json.ROk (ps, cs) -> SimpleRead.consistentb ps cs = true -> SimpleValid.unchecked_okb ps = true ->
  Valid (map SimpleValid.to_course cs) (map SimpleValid.to_part ps).
Proof. exact SimpleValid.accepted_valid. Qed.
Theorem C10_document_node : forall data ps cs esize shrinkf rooms nd s,
  SimpleRead.simple_read data = Json.ROk (ps, cs) -> SimpleRead.consistentb ps cs = true -> SimpleValid.unchecked_okb ps = true ->
  FloatSane (map SimpleValid.to_course cs) esize shrinkf rooms -> Wf2 (map SimpleValid.to_course cs) nd ->
  run_full (map SimpleValid.to_course cs) (map SimpleValid.to_part ps) esize shrinkf rooms nd <> Panic s.
Proof.
  intros data ps cs esize shrinkf rooms nd s Hr Hc Hu FS Hwf.
  apply (C10_node _ _ esize shrinkf rooms nd s (SimpleValid.accepted_valid data ps cs Hr Hc Hu) FS Hwf).
Qed.

(* with the size bound SizeOK ((n + 2) * WEIGHT_OFFSET <= i32::MAX, decidable: size_okb) the matching routine never reports Overflow
   (HP7: the labels stay within (n + 1) * WEIGHT_OFFSET), so every subproblem the search generates is ANSWERED and no worker dies *)
Theorem C10_node_total : forall courses parts esize shrinkf rooms nd,
  Valid courses parts -> FloatSane courses esize shrinkf rooms -> SizeOK courses parts -> Wf2 courses nd ->
  exists r, run_full courses parts esize shrinkf rooms nd = Val r.
Proof.
  intros courses parts esize shrinkf rooms nd V FS Hs Hwf.
  destruct (run_full courses parts esize shrinkf rooms nd) as [r|site|] eqn:E; [eauto| |].
  - exfalso. apply (C10_node courses parts esize shrinkf rooms nd site V FS Hwf E).
  - exfalso. apply (run_full_no_overflow courses parts V esize shrinkf rooms nd Hs E).
Qed.
Theorem C10_total : forall courses parts esize shrinkf rooms smin smax k st,
  Valid courses parts -> FloatSane courses esize shrinkf rooms -> SizeOK courses parts ->
  SReach courses parts esize shrinkf rooms smin smax k st -> EngP2.failed node assignment st = [].
Proof.
  intros courses parts esize shrinkf rooms smin smax k st V FS Hs. apply (C10_no_failure courses parts esize shrinkf rooms smin smax k st V FS).
  intros nd. apply (run_full_no_overflow courses parts V esize shrinkf rooms nd Hs).
Qed.
Theorem C10_size_checker : forall courses parts, size_okb courses parts = true -> SizeOK courses parts.
Proof. exact size_okb_spec. Qed.

(* for documents: what the program accepts (and satisfies the three unchecked clauses) is solved without any worker failing, for every
   worker count and interleaving -- the size bound is part of check_data_consistency (SimpleValid.accepted_size_ok) *)
Theorem C10_document_total : forall data ps cs esize shrinkf rooms smin smax k st,
  SimpleRead.simple_read data = Json.ROk (ps, cs) -> SimpleRead.consistentb ps cs = true -> SimpleValid.unchecked_okb ps = true ->
  FloatSane (map SimpleValid.to_course cs) esize shrinkf rooms ->
  SReach (map SimpleValid.to_course cs) (map SimpleValid.to_part ps) esize shrinkf rooms smin smax k st ->
  EngP2.failed node assignment st = [].
Proof.
  intros data ps cs esize shrinkf rooms smin smax k st Hr Hc Hu FS R.
  apply (C10_total _ _ esize shrinkf rooms smin smax k st (SimpleValid.accepted_valid data ps cs Hr Hc Hu) FS
           (SimpleValid.accepted_size_ok data ps cs Hr Hc) R).
Qed.

(* the same for CdE exports: the problem the reader builds is consistent by construction (C12_consistent), hence valid once the three
   unchecked clauses hold *)
Theorem C10_export_valid : forall data track ign_c ign_a ff of ps cs amb,
  Json.read_fields data track ign_c ign_a ff of = Json.ROk (ps, cs, amb) -> CdeValid.cde_unchecked_okb ps = true ->
  Valid (map CdeValid.cde_course cs) (map CdeValid.cde_part ps).
Proof. exact CdeValid.export_valid. Qed.

Check C10_export_valid. Check C10_document_total. (* Since fix edde4a5 the code's shrink size is max(floor(..), num_min + instructors): RoomSites.fixed_shrink.  For it the FloatSane
   hypothesis holds by construction (float_sane_fixed), for every forward size function and every room list -- so for the code as it is
   now NO hypothesis about the floating-point arithmetic remains: *)
Theorem C10_fixed_node : forall courses parts esize shrinkf rooms nd s,
  Valid courses parts -> Wf2 courses nd ->
  run_full courses parts esize (fixed_shrink courses shrinkf) rooms nd <> Panic s.
Proof.
  intros courses parts esize shrinkf rooms nd s V Hwf.
  apply (C10_node courses parts esize (fixed_shrink courses shrinkf) rooms nd s V (float_sane_fixed courses esize shrinkf rooms) Hwf).
Qed.
Theorem C10_fixed_total : forall courses parts esize shrinkf rooms smin smax k st,
  Valid courses parts -> SizeOK courses parts ->
  SReach courses parts esize (fixed_shrink courses shrinkf) rooms smin smax k st -> EngP2.failed node assignment st = [].
Proof.
  intros courses parts esize shrinkf rooms smin smax k st V Hs.
  apply (C10_total courses parts esize (fixed_shrink courses shrinkf) rooms smin smax k st V (float_sane_fixed courses esize shrinkf rooms) Hs).
Qed.
Theorem C10_fixed_answered : forall courses parts esize shrinkf rooms smin smax k st nd,
  Valid courses parts -> SizeOK courses parts ->
  SReach courses parts esize (fixed_shrink courses shrinkf) rooms smin smax k st -> In nd (EngP2.generated node assignment st) ->
  exists r, run_full courses parts esize (fixed_shrink courses shrinkf) rooms nd = Val r.
Proof.
  intros courses parts esize shrinkf rooms smin smax k st nd V Hs R Hin.
  pose proof (float_sane_fixed courses esize shrinkf rooms) as FS.
  destruct (EngP2.reach_gen node assignment (f_full courses parts esize (fixed_shrink courses shrinkf) rooms) root smin smax (Wf2 courses) (wf2_root courses)
             (fun n cs s0 c Pn Hf Hc => children_wf2 courses parts esize (fixed_shrink courses shrinkf) rooms V FS n cs s0 Pn (to_eng_inf _ _ _ Hf) c Hc) k st R) as (Hg & _).
  rewrite Forall_forall in Hg. apply (C10_node_total courses parts esize (fixed_shrink courses shrinkf) rooms nd V FS Hs (Hg nd Hin)).
Qed.

(* "never hangs": the subproblem tree of caobab::solve is finite -- a height on subproblems (courses not yet cancelled + courses not yet
   enforced + sum of the current shrink bounds) drops strictly along every child the node function generates (Terminate.children_lower)
   -- so the engine's measure (C04_termination) applies: for every valid instance, room list, worker count and interleaving there is a
   measure on search states that decreases with every step except spurious wake-ups of sleeping workers (+3).  Together with
   C04_no_deadlock (some step is always enabled while a worker is unfinished) every run ends after finitely many steps. *)
Theorem C10_never_hangs : forall courses parts esize shrinkf rooms, Valid courses parts ->
  exists Mf : nat -> EngP2.state node assignment -> nat, forall smin smax k b st st',
    SReach courses parts esize shrinkf rooms smin smax k st ->
    EngP2.Step node assignment (f_full courses parts esize shrinkf rooms) b st st' ->
    if b then Mf k st' + 1 <= Mf k st else Mf k st' = Mf k st + 3.
Proof. exact search_terminates. Qed.

(* panic site 11 (found as defect D15, fixed by f71c4f2): `Vec::with_capacity(binom(upper_bound - lower_bound, k))` in
   check_room_feasibility.  With the machine arithmetic of util::binom (SelModel.binom64: usize, 128-bit product, saturation; None = an
   arithmetic overflow) the call never overflows and requests at most C(17,8) = 24310 elements, for every instance whose number of courses
   fits a usize, every room list and every assignment: the range of the selections has at most MAX_N courses or consists of exactly the k
   courses that all have to shrink.  (prealloc_capacity re-computes the range with the let-bindings of Rooms.room_sets, word for word;
   C10_prealloc_reached: whenever the room stage yields constraint sets it went through that range.) *)
Theorem C10_prealloc : forall courses esize rooms a, (N.of_nat (nc courses) < 18446744073709551616)%N ->
  match prealloc_capacity courses esize rooms a with
  | Some None => False
  | Some (Some cap) => (cap <= 24310)%N
  | None => True end.
Proof. exact prealloc_small. Qed.
Theorem C10_prealloc_reached : forall courses esize shrinkf rooms nd a sets,
  room_sets courses esize shrinkf rooms nd a = Val (Some sets) -> exists w, room_window courses esize rooms a = Some w.
Proof. exact room_sets_window. Qed.

(* the u32 arithmetic of the scores (`score += INSTRUCTOR_SCORE`, the sum of the matched weights): the score of EVERY answer of a node --
   Feasible or Infeasible, the latter feed the bounds of the search -- is the recomputed score of an assignment, hence between 0 and
   participants * 50000 and, under the size bound the program checks, within u32 *)
Theorem C10_scores_fit_u32 : forall courses parts esize shrinkf rooms nd r, Valid courses parts -> SizeOK courses parts ->
  run_full courses parts esize shrinkf rooms nd = Val r ->
  match r with Feasible _ s | Infeasible _ s => (0 <= s <= 4294967295)%Z | NoSolution => True end.
Proof.
  intros courses parts esize shrinkf rooms nd r V S H. pose proof (NodeThms.full_any_score courses parts esize shrinkf rooms V nd r H) as Hs.
  destruct r as [|cs s|a s]; [exact I| |]; destruct Hs as (a' & ->); split;
    try apply (NoOverflow.score_nonneg courses parts V); apply (NoOverflow.score_fits_u32 courses parts V _ S).
Qed.
(* the statistics line divides the elapsed time by the number of executed subproblems: a search that ends without a failing node solver
   has executed at least one *)
Theorem C10_executed_positive : forall (node sol : Type) root f smin smax k st,
  EngP2.Reach node sol root f smin smax k st -> (forall i t, EngP2.T node sol st i = Some t -> t = EngP2.Done node) ->
  (exists i, EngP2.T node sol st i = Some (EngP2.Done node)) -> 1 <= EngP2.n_ex node sol st.
Proof. exact EngP2.executed_positive. Qed.

(* the size clause of io::check_data_consistency stated on the PROBLEM (so for both input formats: for a CdE export the problem is
   map Cde.to_course / map Cde.to_part of what the reader returns): it implies the size bound SizeOK of C10_total / C10_scores_fit_u32 *)
Theorem C10_rows_checker : forall courses parts, rows_okb courses parts = true -> SizeOK courses parts.
Proof. exact rows_okb_size_ok. Qed.

Check C10_rows_checker.
Check C10_scores_fit_u32. Check C10_executed_positive.
Check C10_prealloc. Check C10_prealloc_reached.
Check C10_never_hangs. Check C10_fixed_node. Check C10_fixed_total. Check C10_fixed_answered. Check C10_node_total. Check C10_total. Check C10_size_checker. Check C10_document_valid. Check C10_document_node. Check C10_float_sane_checker. Check C10_node. Check C10_node_class. Check C10_root_wf. Check C10_children_wf. Check C10_search. Check C10_no_failure. Check C10_never_stuck. Check C10_node_noroom.
Print Assumptions C10_node.
Print Assumptions C10_node_total.
Print Assumptions C10_total.
Print Assumptions C10_fixed_node.
Print Assumptions C10_never_hangs.
Print Assumptions C10_prealloc.
Print Assumptions C10_scores_fit_u32.
Print Assumptions C10_rows_checker.
Print Assumptions C10_executed_positive.
Print Assumptions C10_prealloc_reached.
Print Assumptions C10_fixed_total.
Print Assumptions C10_fixed_answered.
Print Assumptions C10_document_total.
Print Assumptions C10_export_valid.
Print Assumptions C10_document_valid.
Print Assumptions C10_document_node.
Print Assumptions C10_node_class.
Print Assumptions C10_children_wf.
Print Assumptions C10_search.
Print Assumptions C10_no_failure.
Print Assumptions C10_never_stuck.
Print Assumptions C10_node_noroom.
