(* C09 — the generic branch-and-bound engine returns the best leaf of any bounded tree.  Property theorems only. *)
From Coq Require Import List ZArith Lia.
Require Import EngP2 Tree.
Import ListNotations.
Open Scope Z_scope.

(* For every node function f (any branching factor, depth, mix of results, ties, tight bounds, scores equal to the minimal or
   maximal score value), every worker count k >= 1 and every interleaving (Reach quantifies over all of them, wake-ups included):
   if the tree below the root is bound consistent, has no failing node and its scores do not exceed the maximal score value (with
   which the root is queued), then a final state holds a feasible node of maximal score, or nothing if there is no feasible node. *)
Theorem C09 : forall (node sol : Type) (f : node -> nres node sol) (root : node) (smin smax : Z),
  bound_consistent node sol f root ->
  (forall n, Below node sol f root n -> f n <> PanicR node sol) ->
  (forall n x s, Below node sol f root n -> f n = Feas node sol x s -> s <= smax) ->
  forall k st, Reach node sol f root smin smax k st -> (0 < k)%nat ->
  (forall i t, T node sol st i = Some t -> t = Done node) ->
  match best node sol st with
  | Some x => (exists n, Below node sol f root n /\ f n = Feas node sol x (bscore node sol st)) /\
              (forall n x' s', Below node sol f root n -> f n = Feas node sol x' s' -> s' <= bscore node sol st)
  | None => forall n x' s', Below node sol f root n -> f n <> Feas node sol x' s'
  end.
Proof. exact engine_best_leaf. Qed.

(* without any hypothesis on the tree: whatever the engine holds as best solution is the output of a solved feasible node together
   with its score, and no solved feasible node scores higher (every reachable state, every schedule) *)
Theorem C09_best_is_solved : forall (node sol : Type) (f : node -> nres node sol) (root : node) (smin smax : Z) k st,
  Reach node sol f root smin smax k st ->
  (forall x, best node sol st = Some x -> exists n, In n (solved node sol st) /\ f n = Feas node sol x (bscore node sol st)) /\
  (forall n x s, In n (solved node sol st) -> f n = Feas node sol x s -> best node sol st <> None /\ s <= bscore node sol st).
Proof. exact reach_best. Qed.

(* non-vacuity: a three-node tree (root infeasible with score 7, children feasible 7 and 3) is bound consistent *)
Example C09_example :
  let f := fun n : nat => match n with 0%nat => Infeas nat nat [1%nat; 2%nat] 7 | 1%nat => Feas nat nat 1%nat 7 | 2%nat => Feas nat nat 2%nat 3 | _ => NoSol nat nat end in
  bound_consistent nat nat f 0%nat.
Proof.
  intros f n cs s m x s' Hn Hf Hm Hx.
  assert (Hroot : n = 0%nat).
  { destruct n as [|[|[|n]]]; simpl in Hf; try discriminate; reflexivity. }
  subst n. simpl in Hf. inversion Hf; subst.
  inversion Hm; subst; [simpl in Hx; discriminate|]. simpl in H. inversion H; subst.
  destruct H0 as [<-|[<-|[]]]; inversion H1; subst; simpl in *; try discriminate; inversion Hx; subst; lia.
Qed.

Check C09. Check C09_best_is_solved.
Print Assumptions C09.
Print Assumptions C09_best_is_solved.
