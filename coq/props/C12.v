(* C12 — the problem built from a CdE export is exactly what the export says.  Property theorems only.
   CdeSpec.spec_read is a DECLARATIVE specification of cdedb::read: each registration and course is viewed in isolation (view_reg,
   view_course: what the export says about it for the selected track), the problem is described by filters, a sort and counts over
   the views.  The line-by-line transcription Json.read_fields (two loops with running state) is tied to the real reader by exact
   comparison inside Coq on every generated export x option set, and C12_refinement proves that the transcription computes the
   specification for EVERY document and option set, refusals and their reasons included. *)
From Coq Require Import List ZArith Lia Bool Arith String.
Require Import Json CdeThms CdeSpec CdeRefine CdeConsistent.
Require CdeInvariance.
Import ListNotations.
Open Scope nat_scope.

(* the transcription of cdedb::read is the declarative specification *)
Theorem C12_refinement : forall data track ign_c ign_a ff of, read_fields data track ign_c ign_a ff of = spec_read data track ign_c ign_a ff of.
Proof. exact read_fields_refines_spec. Qed.

(* the participants are exactly the registrations that are kept, in key order ... *)
Theorem C12_participants : forall ign_a rviews p,
  In p (spec_participants ign_a rviews) <-> exists v, In v rviews /\ kept ign_a v = true /\ p = mk_part v.
Proof. exact spec_participants_exactly. Qed.
Theorem C12_participants_order : forall ign_a rviews, map rp_dbid (spec_participants ign_a rviews) = map rv_id (filter (kept ign_a) rviews).
Proof. exact spec_participants_order. Qed.
(* ... where `kept` means: status 'participant' in the part of the selected track, not an ignored pre-assigned registration, and a
   valid choice or an instructed course of the problem *)
Theorem C12_kept : forall ign_a v, kept ign_a v = true <->
  rv_part v = true /\ (ign_a = true -> pc_assigned (rv_pcd v) = None) /\ (pc_choices (rv_pcd v) <> [] \/ pc_instr (rv_pcd v) <> None).
Proof. exact kept_iff. Qed.
(* each kept choice carries a penalty equal to its position in the registration's choice list; dropping the choices of ignored
   courses does not renumber the others *)
Theorem C12_penalty_position : forall cmap l res c pen, pcd_choices cmap l 0 = ROk res -> In (c, pen) res ->
  exists v cid, nth_error l pen = Some v /\ as_u64 v = Some cid /\ lookup cid cmap = Some (Some c).
Proof.
  intros cmap l res c pen Hr Hin. destruct (choice_penalty_is_position cmap l 0 res c pen Hr Hin) as (_ & v & cid & Hn & Hv & Hl).
  rewrite Nat.sub_0_r in Hn. eauto.
Qed.
(* the courses are exactly the offered (not ignored) ones in sorted order; instructors are stored as running participant indices *)
Theorem C12_courses : forall ign_a csorted rviews,
  map rc_dbid (spec_courses ign_a csorted rviews) = map cv_id csorted /\ map rc_name (spec_courses ign_a csorted rviews) = map cv_name csorted.
Proof. exact spec_courses_exactly. Qed.
Theorem C12_instructors : forall ign_a rviews ci i, In i (spec_instructors ign_a rviews ci) <->
  exists v, nth_error (filter (kept ign_a) rviews) i = Some v /\ pc_instr (rv_pcd v) = Some ci.
Proof. exact spec_instructors_exactly. Qed.
(* size limits with the defaults 25 and 0 *)
Theorem C12_limits : forall track_id ign_c ff of k c v, view_course track_id ign_c ff of (k, c) = ROk v ->
  cv_max v = match get "max_size" c with Some x => match as_u64 x with Some z => z | None => 25%Z end | None => 25%Z end /\
  cv_min v = match get "min_size" c with Some x => match as_u64 x with Some z => z | None => 0%Z end | None => 0%Z end.
Proof. exact view_course_limits. Qed.
(* the configured room factor / offset fields are taken from the export's `fields` object of the course (numbers only) *)
Theorem C12_room_fields : forall track_id ign_c ff of k c v, view_course track_id ign_c ff of (k, c) = ROk v -> in_problem ign_c v = true ->
  exists fl, get "fields" c = Some fl /\ cv_fields v = (num_field fl ff, num_field fl of).
Proof. exact view_course_fields. Qed.
(* files of the wrong kind or schema version are refused (transcription) *)
Theorem C12_refuse_kind : forall data tr ic ia k, get "kind" data = Some (JStr k) -> String.eqb k "partial" = false ->
  exists code, read_full data tr ic ia = RErr code.
Proof. exact refuse_wrong_kind. Qed.
Theorem C12_refuse_version : forall data tr ic ia a b, get "kind" data = Some (JStr "partial") ->
  get "EVENT_SCHEMA_VERSION" data = Some (JArr [JInt a; JInt b]) -> (a < 7 \/ 19 < a)%Z -> exists code, read_full data tr ic ia = RErr code.
Proof. exact refuse_version. Qed.

(* which track: with --track t the problem is the one of track t (of the part that has it); a track id that no part has is refused; without
   --track the export is accepted only if the event has exactly one track overall (refusals: no track, several tracks) *)
Theorem C12_track_selected : forall data t ign_c ign_a ff of ps cs amb,
  read_fields data (Some t) ign_c ign_a ff of = ROk (ps, cs, amb) -> ra_track amb = t.
Proof.
  intros data t ign_c ign_a ff of ps cs amb H. rewrite read_fields_refines_spec in H.
  destruct (CdeInvariance.spec_read_track_ok _ _ _ _ _ _ _ _ _ H) as (parts & p & td & _ & Hf & _). apply (find_track_some_id parts t p _ td Hf).
Qed.
Theorem C12_refuse_unknown_track : forall data t ign_c ign_a ff of parts, CdeInvariance.event_parts data = Some parts ->
  (forall pid part tracks tid tr, In (pid, part) (obj_items parts) -> (match get "tracks" part with Some v => as_object v | None => None end) = Some tracks ->
                                  In (tid, tr) (obj_items tracks) -> parse_u64 tid <> Some t) ->
  exists code, read_fields data (Some t) ign_c ign_a ff of = RErr code.
Proof.
  intros data t ign_c ign_a ff of parts Hp Hno. rewrite read_fields_refines_spec. destruct (find_track_unknown parts t Hno) as (e & He).
  apply (CdeInvariance.spec_read_track_err data (Some t) ign_c ign_a ff of parts e Hp He).
Qed.
Theorem C12_refuse_no_or_several_tracks : forall data ign_c ign_a ff of parts all, CdeInvariance.event_parts data = Some parts ->
  tracks_of parts = ROk all -> List.length all <> 1 -> exists code, read_fields data None ign_c ign_a ff of = RErr code.
Proof.
  intros data ign_c ign_a ff of parts all Hp Ht Hl. rewrite read_fields_refines_spec. pose proof (find_track_none parts) as Hn. rewrite Ht in Hn.
  destruct all as [|[[pid tid] tr] [|y l]]; [| exfalso; apply Hl; reflexivity |];
    apply (CdeInvariance.spec_read_track_err data None ign_c ign_a ff of parts _ Hp Hn).
Qed.
Theorem C12_single_track_selected : forall data ign_c ign_a ff of ps cs amb,
  read_fields data None ign_c ign_a ff of = ROk (ps, cs, amb) ->
  exists parts pid tid tr, CdeInvariance.event_parts data = Some parts /\ tracks_of parts = ROk [(pid, tid, tr)] /\ parse_u64 tid = Some (ra_track amb).
Proof.
  intros data ign_c ign_a ff of ps cs amb H. rewrite read_fields_refines_spec in H.
  destruct (CdeInvariance.spec_read_track_ok _ _ _ _ _ _ _ _ _ H) as (parts & p & td & Hp & Hf & _). exists parts.
  pose proof (find_track_none parts) as Hn. destruct (tracks_of parts) as [[|[[pid tid] tr] [|y l]]|e]; rewrite Hn in Hf; try discriminate.
  exists pid, tid, tr. split; [exact Hp|]. split; [reflexivity|].
  destruct (parse_u64 pid); cbn in Hf; [|discriminate]. destruct (parse_u64 tid) as [tz|]; cbn in Hf; [|discriminate].
  destruct (as_object tr); cbn in Hf; [|discriminate]. inversion Hf. reflexivity.
Qed.

(* the problem built from an export is consistent by construction: every choice names a course of the problem, every instructor index a
   participant of the problem, 0 <= min <= max after the adaptation for ignored attendees, nobody is instructor twice -- so
   check_data_consistency never refuses what the CdE reader returns (C15) and the index clauses of validity hold (C10) *)
Theorem C12_consistent : forall data track ign_c ign_a ff of ps cs amb,
  read_fields data track ign_c ign_a ff of = ROk (ps, cs, amb) ->
  (forall p c pen, In p ps -> In (c, pen) (rp_choices p) -> c < List.length cs) /\
  (forall c i, In c cs -> In i (rc_instr c) -> i < List.length ps) /\
  (forall c, In c cs -> (0 <= rc_min c <= rc_max c)%Z) /\
  NoDup (flat_map rc_instr cs).
Proof. intros data track ign_c ign_a ff of ps cs amb H. rewrite read_fields_refines_spec in H. apply (spec_read_consistent _ _ _ _ _ _ _ _ _ H). Qed.

Check C12_consistent. Check C12_refinement. Check C12_participants. Check C12_participants_order. Check C12_kept. Check C12_penalty_position. Check C12_courses. Check C12_instructors.
Check C12_room_fields. Check C12_limits. Check C12_refuse_kind. Check C12_refuse_version.
Check C12_track_selected. Check C12_refuse_unknown_track. Check C12_refuse_no_or_several_tracks. Check C12_single_track_selected.
Print Assumptions C12_refinement.
Print Assumptions C12_consistent.
Print Assumptions C12_participants.
Print Assumptions C12_kept.
Print Assumptions C12_penalty_position.
Print Assumptions C12_courses.
Print Assumptions C12_instructors.
Print Assumptions C12_limits.
Print Assumptions C12_refuse_kind.
Print Assumptions C12_refuse_version.
Print Assumptions C12_track_selected.
Print Assumptions C12_refuse_unknown_track.
Print Assumptions C12_refuse_no_or_several_tracks.
Print Assumptions C12_single_track_selected.
Print Assumptions C12_room_fields.
