(* C12 — the problem built from a CdE export is exactly what the export says.  Property theorems only (partial: the listed rules
   are proved of the transcription Json.read_full; the complete input/output behaviour of the transcription is tied to cdedb::read
   by exact correspondence on every generated export, see DESIGN.md). *)
From Coq Require Import List ZArith Lia Bool Arith String.
Require Import Json CdeThms.
Import ListNotations.
Open Scope nat_scope.

(* each kept choice carries a penalty equal to its position in the registration's choice list; dropping the choices of ignored
   courses does not renumber the others *)
Theorem C12_penalty_position_partial : forall cmap l res c pen, pcd_choices cmap l 0 = ROk res -> In (c, pen) res ->
  exists v cid, nth_error l pen = Some v /\ as_u64 v = Some cid /\ lookup cid cmap = Some (Some c).
Proof.
  intros cmap l res c pen Hr Hin. destruct (choice_penalty_is_position cmap l 0 res c pen Hr Hin) as (_ & v & cid & Hn & Hv & Hl).
  rewrite Nat.sub_0_r in Hn. eauto.
Qed.
(* files of the wrong kind or schema version are refused *)
Theorem C12_refuse_kind : forall data tr ic ia k, get "kind" data = Some (JStr k) -> String.eqb k "partial" = false ->
  exists code, read_full data tr ic ia = RErr code.
Proof. exact refuse_wrong_kind. Qed.
Theorem C12_refuse_version : forall data tr ic ia a b, get "kind" data = Some (JStr "partial") ->
  get "EVENT_SCHEMA_VERSION" data = Some (JArr [JInt a; JInt b]) -> (a < 7 \/ 19 < a)%Z -> exists code, read_full data tr ic ia = RErr code.
Proof. exact refuse_version. Qed.

Check C12_penalty_position_partial. Check C12_refuse_kind. Check C12_refuse_version.
Print Assumptions C12_penalty_position_partial.
Print Assumptions C12_refuse_kind.
Print Assumptions C12_refuse_version.
