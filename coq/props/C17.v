(* C17 — room limits can only restrict the result.  Property theorems only. *)
From Coq Require Import List ZArith Lia Bool Arith.
Require Import HP1 Cao1 Cao3 Score1 Rooms Spec Valid Node NodeThms NodeWf Solve RoomThms NonBinding.
Require EngP2 EngExt C01 C08.
Import ListNotations.
Open Scope nat_scope.

(* second relation: with ANY room list, whatever the search reports (every worker count and interleaving) is a hard-feasible
   assignment whose reported score is its recomputed score; hence the score never exceeds any upper bound on the scores of the
   hard-feasible assignments -- in particular not the optimum without room limits *)
Theorem C17_upper : forall courses parts esize shrinkf rooms smin smax k st a (opt : Z),
  Valid courses parts ->
  (forall K a', HardOK_K courses parts K a' -> (forall c, K c = true -> c < nc courses /\ c_fixed (crs courses c) = false) ->
                (score_of courses parts a' <= opt)%Z) ->
  SReach courses parts esize shrinkf rooms smin smax k st -> EngP2.best node assignment st = Some a ->
  (EngP2.bscore node assignment st <= opt)%Z.
Proof.
  intros courses parts esize shrinkf rooms smin smax k st a opt V Hopt R Hb.
  destruct (C01.C01 courses parts esize shrinkf rooms smin smax k st a V R Hb) as (K & HK & HKf).
  rewrite (C08.C08_score courses parts esize shrinkf rooms smin smax k st a V R Hb). apply (Hopt K a HK HKf).
Qed.

(* first relation, at the level of the room gate: a room list that cannot bind (at least as many rooms as courses, each of the nc
   largest at least as large as any course can become) lets every assignment pass whose courses hold at most their maximum plus
   their instructors -- the room stage then never adds a restriction *)
Theorem C17_nonbinding_gate : forall courses esize shrinkf rs nd a,
  NonBinding courses esize rs ->
  (forall c, c < nc courses -> people a c <= c_max (crs courses c) + n_instr courses c) ->
  room_gate courses esize shrinkf (Some rs) nd a = Val None.
Proof. exact nonbinding_gate. Qed.

(* ... consequently the node function gives, for EVERY subproblem, exactly the result it gives without a room list ... *)
Theorem C17_nonbinding_node : forall courses parts esize shrinkf rs nd,
  Valid courses parts -> NonBinding courses esize rs ->
  run_full courses parts esize shrinkf (Some rs) nd = run_full courses parts esize shrinkf None nd.
Proof. intros courses parts esize shrinkf rs nd V. apply (nonbinding_same_node courses parts esize shrinkf V). Qed.
(* ... and the two searches are the same transition system: the same states are reachable, for every worker count and interleaving;
   hence the same verdicts and scores (and, for one worker, the same assignment) *)
Theorem C17_nonbinding : forall courses parts esize shrinkf rs smin smax k st,
  Valid courses parts -> NonBinding courses esize rs ->
  (SReach courses parts esize shrinkf (Some rs) smin smax k st <-> SReach courses parts esize shrinkf None smin smax k st).
Proof.
  intros courses parts esize shrinkf rs smin smax k st V NB.
  assert (E : forall nd, f_full courses parts esize shrinkf (Some rs) nd = f_full courses parts esize shrinkf None nd).
  { intros nd. unfold f_full. rewrite (nonbinding_same_node courses parts esize shrinkf V rs nd NB). reflexivity. }
  split; apply EngExt.Reach_ext; [exact E|intros nd; symmetry; apply E].
Qed.

Check C17_upper. Check C17_nonbinding_gate. Check C17_nonbinding_node. Check C17_nonbinding.
Print Assumptions C17_upper.
Print Assumptions C17_nonbinding_gate.
Print Assumptions C17_nonbinding_node.
Print Assumptions C17_nonbinding.
