(* C03 — verdict and score do not depend on thread count or thread interleaving.  Property theorems only.
   KNOWN FINDING (defect D3, class TC): when a participant with own choices instructs a course the node scores are not upper
   bounds, and the score depends on the schedule (C03_refuted, two recorded histories replayed inside Coq). *)
From Coq Require Import List ZArith Lia Bool Arith.
Require Import HP1 Cao1 Cao3 Score1 Cov1 Rooms Spec Valid Node NodeThms NodeWf Solve D3Witness CorrSolve NoPanic RoomSites WfPres Mono3 NoOverflow.
Require EngP2 EngExec Tree C01 C02 C08.
Import ListNotations.
Open Scope nat_scope.

(* generic engine: on every bound-consistent finite tree without failing node, any two final states -- any two worker counts, any two
   interleavings, wake-ups included -- agree on whether a solution was found and on its score *)
Theorem C03_engine : forall (nd sol : Type) (f : nd -> EngP2.nres nd sol) (root : nd) (smin smax : Z),
  Tree.bound_consistent nd sol f root ->
  (forall n, Tree.Below nd sol f root n -> f n <> EngP2.PanicR nd sol) ->
  (forall n x s, Tree.Below nd sol f root n -> f n = EngP2.Feas nd sol x s -> (s <= smax)%Z) ->
  forall k1 st1 k2 st2,
  EngP2.Reach nd sol f root smin smax k1 st1 -> 0 < k1 -> (forall i t, EngP2.T nd sol st1 i = Some t -> t = EngP2.Done nd) ->
  EngP2.Reach nd sol f root smin smax k2 st2 -> 0 < k2 -> (forall i t, EngP2.T nd sol st2 i = Some t -> t = EngP2.Done nd) ->
  (EngP2.best nd sol st1 = None <-> EngP2.best nd sol st2 = None) /\
  (EngP2.best nd sol st1 <> None -> EngP2.bscore nd sol st1 = EngP2.bscore nd sol st2).
Proof.
  intros nd sol f root smin smax Hbc Hnp Hr k1 st1 k2 st2 R1 K1 F1 R2 K2 F2.
  pose proof (Tree.engine_best_leaf nd sol f root smin smax Hbc Hnp Hr k1 st1 R1 K1 F1) as E1.
  pose proof (Tree.engine_best_leaf nd sol f root smin smax Hbc Hnp Hr k2 st2 R2 K2 F2) as E2.
  destruct (EngP2.best nd sol st1) as [x1|], (EngP2.best nd sol st2) as [x2|].
  - split; [split; discriminate|]. intros _. destruct E1 as ((n1 & B1 & Hf1) & M1), E2 as ((n2 & B2 & Hf2) & M2).
    pose proof (M1 n2 _ _ B2 Hf2). pose proof (M2 n1 _ _ B1 Hf1). lia.
  - exfalso. destruct E1 as ((n1 & B1 & Hf1) & _). apply (E2 n1 _ _ B1 Hf1).
  - exfalso. destruct E2 as ((n2 & B2 & Hf2) & _). apply (E1 n2 _ _ B2 Hf2).
  - split; [tauto|]. intros H. contradiction.
Qed.

(* caobab::solve without rooms, outside the class TC: same verdict and same score for every worker count and interleaving (both final
   states are optimal by C02_noTC and truthful by C01/C08).  Same side hypotheses as C02. *)
Theorem C03_noTC : forall courses parts esize shrinkf smin smax k1 st1 k2 st2,
  Valid courses parts -> in_tc courses parts = false ->
  (forall nd, run_full courses parts esize shrinkf None nd <> HOverflow) ->
  (forall a, (score_of courses parts a <= smax)%Z) ->
  SReach courses parts esize shrinkf None smin smax k1 st1 -> 0 < k1 -> C02.final st1 ->
  SReach courses parts esize shrinkf None smin smax k2 st2 -> 0 < k2 -> C02.final st2 ->
  (EngP2.best node assignment st1 = None <-> EngP2.best node assignment st2 = None) /\
  (EngP2.best node assignment st1 <> None -> EngP2.bscore node assignment st1 = EngP2.bscore node assignment st2).
Proof.
  intros courses parts esize shrinkf smin smax k1 st1 k2 st2 V Htc Hnp Hr R1 K1 F1 R2 K2 F2.
  assert (G : forall ka sta kb stb, SReach courses parts esize shrinkf None smin smax ka sta -> 0 < ka -> C02.final sta ->
               SReach courses parts esize shrinkf None smin smax kb stb -> 0 < kb -> C02.final stb ->
               forall a, EngP2.best node assignment sta = Some a ->
               EngP2.best node assignment stb <> None /\ (EngP2.bscore node assignment sta <= EngP2.bscore node assignment stb)%Z).
  { intros ka sta kb stb Ra Ka Fa Rb Kb Fb a Ha.
    destruct (C01.C01 courses parts esize shrinkf None smin smax ka sta a V Ra Ha) as (K & HK & HKf).
    rewrite (C08.C08_score courses parts esize shrinkf None smin smax ka sta a V Ra Ha).
    apply (C02.C02_noTC courses parts esize shrinkf smin smax kb stb V Htc Hnp Hr Rb Kb Fb K a HK HKf). }
  destruct (EngP2.best node assignment st1) as [a1|] eqn:E1, (EngP2.best node assignment st2) as [a2|] eqn:E2.
  - split; [split; discriminate|]. intros _.
    destruct (G k1 st1 k2 st2 R1 K1 F1 R2 K2 F2 a1 E1) as [_ L1]. destruct (G k2 st2 k1 st1 R2 K2 F2 R1 K1 F1 a2 E2) as [_ L2]. lia.
  - exfalso. destruct (G k1 st1 k2 st2 R1 K1 F1 R2 K2 F2 a1 E1) as [N _]. apply N. exact E2.
  - exfalso. destruct (G k2 st2 k1 st1 R2 K2 F2 R1 K1 F1 a2 E2) as [N _]. apply N. exact E1.
  - split; [tauto|]. intros H. contradiction.
Qed.

(* caobab::solve WITH OR WITHOUT a room list, outside the class TC: the subproblem tree (room constraint sets included) is bound
   consistent (a child never scores higher than its parent: its optimal matching extends to a matching of the parent), no generated
   subproblem panics (C10), so the generic theorem applies: same verdict and same score for every worker count and interleaving.
   Hypotheses: validity, not TC, FloatSane (decidable, see C10), the matching routine never reports Overflow, scores within Score. *)
Theorem C03_rooms_noTC : forall courses parts esize shrinkf rooms smin smax k1 st1 k2 st2,
  Valid courses parts -> in_tc courses parts = false -> FloatSane courses esize shrinkf rooms ->
  (forall nd, run_full courses parts esize shrinkf rooms nd <> HOverflow) ->
  (forall a, (score_of courses parts a <= smax)%Z) ->
  SReach courses parts esize shrinkf rooms smin smax k1 st1 -> 0 < k1 -> C02.final st1 ->
  SReach courses parts esize shrinkf rooms smin smax k2 st2 -> 0 < k2 -> C02.final st2 ->
  (EngP2.best node assignment st1 = None <-> EngP2.best node assignment st2 = None) /\
  (EngP2.best node assignment st1 <> None -> EngP2.bscore node assignment st1 = EngP2.bscore node assignment st2).
Proof.
  intros courses parts esize shrinkf rooms smin smax k1 st1 k2 st2 V Htc FS Hov Hr R1 K1 F1 R2 K2 F2.
  refine (C03_engine node assignment (f_full courses parts esize shrinkf rooms) root smin smax
           (tree_bound_consistent courses parts esize shrinkf rooms V FS Htc) _ _ k1 st1 k2 st2 R1 K1 F1 R2 K2 F2).
  - intros n Hn Hf. pose proof (below_wf2 courses parts esize shrinkf rooms V FS root n (wf2_root courses) Hn) as Hwf.
    unfold f_full in Hf. destruct (run_full courses parts esize shrinkf rooms n) as [[| |]|site|] eqn:E; try discriminate.
    + apply (run_panic_sites courses parts _ _ (valid_one _ _ V) (v_minmax _ _ V) (fun _ => False) (fun s' Hs => match Hs with end)
               (fun nd' a s' Hp => room_gate_no_site courses esize shrinkf rooms nd' a s' FS Hp) n site (wf2_wf courses n Hwf) E).
    + apply (Hov n E).
  - intros n x s _ Hf. apply to_eng_feas in Hf. rewrite (C08.C08_score_node courses parts esize shrinkf rooms n x s V Hf). apply Hr.
Qed.

(* (d3_f = f_full d3_courses d3_parts _ _ None: the node function of the instance without rooms) *)
(* the defect D3 on the faithful model: a valid instance of class TC and two runs of the search (1 and 2 workers) that end with all
   workers done and different scores *)
Theorem C03_refuted :
  Valid d3_courses d3_parts /\ in_tc d3_courses d3_parts = true /\
  exists k1 st1 k2 st2,
    EngP2.Reach node assignment d3_f root CorrTree.smin CorrTree.smax k1 st1 /\ C02.final st1 /\
    EngP2.Reach node assignment d3_f root CorrTree.smin CorrTree.smax k2 st2 /\ C02.final st2 /\
    EngP2.bscore node assignment st1 <> EngP2.bscore node assignment st2.
Proof.
  split; [apply validb_valid; vm_compute; reflexivity|]. split; [vm_compute; reflexivity|].
  destruct d3_reach1 as (st1 & R1 & D1 & S1). destruct d3_reach2 as (st2 & R2 & D2 & S2).
  exists 1, st1, 2, st2. split; [exact R1|]. split; [exact (EngExec.all_done_spec node assignment st1 D1)|].
  split; [exact R2|]. split; [exact (EngExec.all_done_spec node assignment st2 D2)|]. rewrite S1, S2. discriminate.
Qed.

(* the Overflow hypothesis discharged by the size bound SizeOK (HP7, NoOverflow) *)
Theorem C03_sized : forall courses parts esize shrinkf rooms smin smax k1 st1 k2 st2,
  Valid courses parts -> in_tc courses parts = false -> FloatSane courses esize shrinkf rooms -> SizeOK courses parts ->
  (forall a, (score_of courses parts a <= smax)%Z) ->
  SReach courses parts esize shrinkf rooms smin smax k1 st1 -> 0 < k1 -> C02.final st1 ->
  SReach courses parts esize shrinkf rooms smin smax k2 st2 -> 0 < k2 -> C02.final st2 ->
  (EngP2.best node assignment st1 = None <-> EngP2.best node assignment st2 = None) /\
  (EngP2.best node assignment st1 <> None -> EngP2.bscore node assignment st1 = EngP2.bscore node assignment st2).
Proof.
  intros courses parts esize shrinkf rooms smin smax k1 st1 k2 st2 V Htc FS Hs.
  apply (C03_rooms_noTC courses parts esize shrinkf rooms smin smax k1 st1 k2 st2 V Htc FS).
  intros nd. apply (run_full_no_overflow courses parts V esize shrinkf rooms nd Hs).
Qed.

(* for the code as it is since fix edde4a5 (RoomSites.fixed_shrink): no floating-point hypothesis *)
Theorem C03_fixed : forall courses parts esize shrinkf rooms smin smax k1 st1 k2 st2,
  Valid courses parts -> in_tc courses parts = false -> SizeOK courses parts ->
  (forall a, (score_of courses parts a <= smax)%Z) ->
  SReach courses parts esize (fixed_shrink courses shrinkf) rooms smin smax k1 st1 -> 0 < k1 -> C02.final st1 ->
  SReach courses parts esize (fixed_shrink courses shrinkf) rooms smin smax k2 st2 -> 0 < k2 -> C02.final st2 ->
  (EngP2.best node assignment st1 = None <-> EngP2.best node assignment st2 = None) /\
  (EngP2.best node assignment st1 <> None -> EngP2.bscore node assignment st1 = EngP2.bscore node assignment st2).
Proof.
  intros courses parts esize shrinkf rooms smin smax k1 st1 k2 st2 V Htc Hs.
  apply (C03_sized courses parts esize (fixed_shrink courses shrinkf) rooms smin smax k1 st1 k2 st2 V Htc (float_sane_fixed courses esize shrinkf rooms) Hs).
Qed.

Theorem C03_final : forall courses parts esize shrinkf rooms smin k1 st1 k2 st2,
  Valid courses parts -> in_tc courses parts = false -> SizeOK courses parts ->
  SReach courses parts esize (fixed_shrink courses shrinkf) rooms smin 4294967295%Z k1 st1 -> 0 < k1 -> C02.final st1 ->
  SReach courses parts esize (fixed_shrink courses shrinkf) rooms smin 4294967295%Z k2 st2 -> 0 < k2 -> C02.final st2 ->
  (EngP2.best node assignment st1 = None <-> EngP2.best node assignment st2 = None) /\
  (EngP2.best node assignment st1 <> None -> EngP2.bscore node assignment st1 = EngP2.bscore node assignment st2).
Proof.
  intros courses parts esize shrinkf rooms smin k1 st1 k2 st2 V Htc Hs.
  apply (C03_fixed courses parts esize shrinkf rooms smin 4294967295%Z k1 st1 k2 st2 V Htc Hs). intros a. apply (score_fits_u32 courses parts V a Hs).
Qed.

Check C03_final. Check C03_fixed. Check C03_engine. Check C03_noTC. Check C03_rooms_noTC. Check C03_sized. Check C03_refuted.
Print Assumptions C03_engine.
Print Assumptions C03_noTC.
Print Assumptions C03_rooms_noTC.
Print Assumptions C03_sized.
Print Assumptions C03_fixed.
Print Assumptions C03_final.
Print Assumptions C03_refuted.
