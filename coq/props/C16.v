(* C16 — exit status 0 means the requested output was written completely.  Property theorems only (decision skeleton of main.rs). *)
From Coq Require Import List Arith Bool.
Require Import Cli.
Import ListNotations.

Theorem C16_exit0_written : forall s, out_requested s = true -> exit_code s = 0 -> create_ok s = true /\ write_ok s = true.
Proof. exact exit0_output_written. Qed.
Theorem C16_failure_nonzero : forall s, out_requested s = true -> (create_ok s = false \/ write_ok s = false) -> exit_code s <> 0.
Proof. exact output_failure_nonzero. Qed.

Check C16_exit0_written. Check C16_failure_nonzero.
Print Assumptions C16_exit0_written.
Print Assumptions C16_failure_nonzero.
