(* C11 — the ignore options leave ignored data untouched and reserve its places.  Property theorems only.
   Reader model: an ignored (pre-assigned) registration never becomes a participant of the problem and its course gets
   rc_inv_instr / rc_inv_att incremented; ignored courses never become courses of the problem (checked against cdedb::read on every
   generated export).  adapt_course is adapt_course_for_invisible_participants. *)
From Coq Require Import List ZArith Lia Bool Arith.
Require Import HP1 Cao1 Cao3 Json Cde CdeThms CdeSpec CdeRefine CdeIgnore.
Import ListNotations.

(* with pre = number of ignored pre-assigned attendees: any number of new attendees within the ADAPTED limits keeps the course within
   its ORIGINAL limits counting both groups: never beyond max(original maximum, pre-assigned), minimum met, and a newcomer is only
   added while the original maximum is not exceeded *)
Theorem C11_reserve : forall (c : rcourse) (new : Z),
  let pre := Z.of_nat (rc_inv_att c) in
  (rc_min (adapt_course c) <= new <= rc_max (adapt_course c))%Z -> (0 <= new)%Z ->
  (new + pre <= Z.max (rc_max c) pre)%Z /\ (rc_min c <= new + pre)%Z /\ (0 < new -> new + pre <= rc_max c)%Z.
Proof. exact adapt_reserves. Qed.
(* a course with any ignored person is fixed ... *)
Theorem C11_fixed : forall c, rc_fixed (adapt_course c) = true <-> (0 < rc_inv_instr c + rc_inv_att c)%nat.
Proof. exact adapt_fixed. Qed.
(* ... and a fixed course is always written as taking place, whatever is newly assigned (and is never cancelled: C01) *)
Theorem C11_fixed_active : forall courses a c, c_fixed (crs courses c) = true -> active courses a c = true.
Proof. exact fixed_active. Qed.

(* --- on the reader (CdeSpec.spec_read, which the transcription of cdedb::read is proved to compute: C12_refinement) --- *)
(* no ignored pre-assigned registration is a participant of the problem (nor is its id, when registration ids are distinct) *)
Theorem C11_ignored_not_participant : forall ign_a rviews p, In p (spec_participants ign_a rviews) ->
  exists v, In v rviews /\ ignored ign_a v = false /\ kept ign_a v = true /\ p = mk_part v.
Proof. exact ignored_not_participant. Qed.
Theorem C11_ignored_id_absent : forall ign_a rviews v, NoDup (map rv_id rviews) -> In v rviews -> ignored ign_a v = true ->
  ~ In (rv_id v) (map rp_dbid (spec_participants ign_a rviews)).
Proof. exact ignored_id_absent. Qed.
(* the courses of the problem are offered in the track and, with --ignore-cancelled, take place; an ignored course's id is mapped to
   "ignored", so choices, assignments and instructor entries naming it are dropped (every kept choice names a course of the problem) *)
Theorem C11_problem_courses : forall ign_c cviews v, In v (spec_csorted ign_c cviews) ->
  In v cviews /\ cv_status v <> NotOffered /\ (ign_c = true -> cv_status v = TakesPlace).
Proof. exact problem_courses_offered. Qed.
Theorem C11_ignored_course_lookup : forall ign_c cviews v, In v cviews -> in_problem ign_c v = false ->
  lookup (cv_id v) (spec_cmap ign_c cviews) = Some None.
Proof. exact ignored_course_lookup. Qed.
Theorem C11_choices_in_problem : forall cmap l res c pen, pcd_choices cmap l 0 = ROk res -> In (c, pen) res ->
  exists v cid, nth_error l pen = Some v /\ as_u64 v = Some cid /\ lookup cid cmap = Some (Some c).
Proof. exact choices_never_ignored. Qed.
(* the places of the ignored attendees of a course are reserved: limits reduced by their number (not below 0), the course pinned, their
   names kept for the listing *)
Theorem C11_reserved_places : forall ign_a rviews ci v,
  let mine := filter (fun r => opt_is (pc_assigned (rv_pcd r)) ci) (filter (ignored ign_a) rviews) in
  let att := List.length (filter (fun r => negb (opt_is (pc_instr (rv_pcd r)) ci)) mine) in
  let c := spec_course ign_a rviews ci v in
  rc_max c = Z.max 0 (cv_max v - Z.of_nat att) /\ rc_min c = Z.max 0 (cv_min v - Z.of_nat att) /\
  rc_hidden c = map rv_name mine /\ (rc_fixed c = true <-> mine <> []).
Proof. exact reserved_places. Qed.

Check C11_reserve. Check C11_fixed. Check C11_fixed_active. Check C11_ignored_not_participant. Check C11_ignored_id_absent.
Check C11_problem_courses. Check C11_ignored_course_lookup. Check C11_choices_in_problem. Check C11_reserved_places.
Print Assumptions C11_reserve.
Print Assumptions C11_fixed.
Print Assumptions C11_fixed_active.
Print Assumptions C11_ignored_not_participant.
Print Assumptions C11_ignored_id_absent.
Print Assumptions C11_problem_courses.
Print Assumptions C11_ignored_course_lookup.
Print Assumptions C11_choices_in_problem.
Print Assumptions C11_reserved_places.
