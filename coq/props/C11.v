(* C11 — the ignore options leave ignored data untouched and reserve its places.  Property theorems only.
   Reader model: an ignored (pre-assigned) registration never becomes a participant of the problem and its course gets
   rc_inv_instr / rc_inv_att incremented; ignored courses never become courses of the problem (checked against cdedb::read on every
   generated export).  adapt_course is adapt_course_for_invisible_participants. *)
From Coq Require Import List ZArith Lia Bool Arith.
Require Import HP1 Cao1 Cao3 Json Cde CdeThms.
Import ListNotations.

(* with pre = number of ignored pre-assigned attendees: any number of new attendees within the ADAPTED limits keeps the course within
   its ORIGINAL limits counting both groups: never beyond max(original maximum, pre-assigned), minimum met, and a newcomer is only
   added while the original maximum is not exceeded *)
Theorem C11_reserve : forall (c : rcourse) (new : Z),
  let pre := Z.of_nat (rc_inv_att c) in
  (rc_min (adapt_course c) <= new <= rc_max (adapt_course c))%Z -> (0 <= new)%Z ->
  (new + pre <= Z.max (rc_max c) pre)%Z /\ (rc_min c <= new + pre)%Z /\ (0 < new -> new + pre <= rc_max c)%Z.
Proof. exact adapt_reserves. Qed.
(* a course with any ignored person is fixed ... *)
Theorem C11_fixed : forall c, rc_fixed (adapt_course c) = true <-> (0 < rc_inv_instr c + rc_inv_att c)%nat.
Proof. exact adapt_fixed. Qed.
(* ... and a fixed course is always written as taking place, whatever is newly assigned (and is never cancelled: C01) *)
Theorem C11_fixed_active : forall courses a c, c_fixed (crs courses c) = true -> active courses a c = true.
Proof. exact fixed_active. Qed.

Check C11_reserve. Check C11_fixed. Check C11_fixed_active.
Print Assumptions C11_reserve.
Print Assumptions C11_fixed.
Print Assumptions C11_fixed_active.
