(* C11 — the ignore options leave ignored data untouched and reserve its places.  Property theorems only.
   Reader model: an ignored (pre-assigned) registration never becomes a participant of the problem and its course gets
   rc_inv_instr / rc_inv_att incremented; ignored courses never become courses of the problem (checked against cdedb::read on every
   generated export).  adapt_course is adapt_course_for_invisible_participants. *)
From Coq Require Import List ZArith Lia Bool Arith.
Require Import HP1 Cao1 Cao3 Json Cde CdeThms CdeSpec CdeRefine CdeIgnore.
Require CdeIds WriteDoc CdeE2E.
Import ListNotations.

(* with pre = number of ignored pre-assigned attendees: any number of new attendees within the ADAPTED limits keeps the course within
   its ORIGINAL limits counting both groups: never beyond max(original maximum, pre-assigned), minimum met, and a newcomer is only
   added while the original maximum is not exceeded *)
Theorem C11_reserve : forall (c : rcourse) (new : Z),
  let pre := Z.of_nat (rc_inv_att c) in
  (rc_min (adapt_course c) <= new <= rc_max (adapt_course c))%Z -> (0 <= new)%Z ->
  (new + pre <= Z.max (rc_max c) pre)%Z /\ (rc_min c <= new + pre)%Z /\ (0 < new -> new + pre <= rc_max c)%Z.
Proof. exact adapt_reserves. Qed.
(* a course with any ignored person is fixed ... *)
Theorem C11_fixed : forall c, rc_fixed (adapt_course c) = true <-> (0 < rc_inv_instr c + rc_inv_att c)%nat.
Proof. exact adapt_fixed. Qed.
(* ... and a fixed course is always written as taking place, whatever is newly assigned (and is never cancelled: C01) *)
Theorem C11_fixed_active : forall courses a c, c_fixed (crs courses c) = true -> active courses a c = true.
Proof. exact fixed_active. Qed.

(* --- on the reader (CdeSpec.spec_read, which the transcription of cdedb::read is proved to compute: C12_refinement) --- *)
(* no ignored pre-assigned registration is a participant of the problem (nor is its id, when registration ids are distinct) *)
Theorem C11_ignored_not_participant : forall ign_a rviews p, In p (spec_participants ign_a rviews) ->
  exists v, In v rviews /\ ignored ign_a v = false /\ kept ign_a v = true /\ p = mk_part v.
Proof. exact ignored_not_participant. Qed.
Theorem C11_ignored_id_absent : forall ign_a rviews v, NoDup (map rv_id rviews) -> In v rviews -> ignored ign_a v = true ->
  ~ In (rv_id v) (map rp_dbid (spec_participants ign_a rviews)).
Proof. exact ignored_id_absent. Qed.
(* the courses of the problem are offered in the track and, with --ignore-cancelled, take place; an ignored course's id is mapped to
   "ignored", so choices, assignments and instructor entries naming it are dropped (every kept choice names a course of the problem) *)
Theorem C11_problem_courses : forall ign_c cviews v, In v (spec_csorted ign_c cviews) ->
  In v cviews /\ cv_status v <> NotOffered /\ (ign_c = true -> cv_status v = TakesPlace).
Proof. exact problem_courses_offered. Qed.
Theorem C11_ignored_course_lookup : forall ign_c cviews v, In v cviews -> in_problem ign_c v = false ->
  lookup (cv_id v) (spec_cmap ign_c cviews) = Some None.
Proof. exact ignored_course_lookup. Qed.
Theorem C11_choices_in_problem : forall cmap l res c pen, pcd_choices cmap l 0 = ROk res -> In (c, pen) res ->
  exists v cid, nth_error l pen = Some v /\ as_u64 v = Some cid /\ lookup cid cmap = Some (Some c).
Proof. exact choices_never_ignored. Qed.
(* the places of the ignored attendees of a course are reserved: limits reduced by their number (not below 0), the course pinned, their
   names kept for the listing *)
Theorem C11_reserved_places : forall ign_a rviews ci v,
  let mine := filter (fun r => opt_is (pc_assigned (rv_pcd r)) ci) (filter (ignored ign_a) rviews) in
  let att := List.length (filter (fun r => negb (opt_is (pc_instr (rv_pcd r)) ci)) mine) in
  let c := spec_course ign_a rviews ci v in
  rc_max c = Z.max 0 (cv_max v - Z.of_nat att) /\ rc_min c = Z.max 0 (cv_min v - Z.of_nat att) /\
  rc_hidden c = map rv_name mine /\ (rc_fixed c = true <-> mine <> []).
Proof. exact reserved_places. Qed.

(* END TO END (document level): for every accepted export with canonical keys, every option set (in particular --ignore-assigned and
   --ignore-cancelled), every hard-feasible assignment of the problem and the writer's whole document: the import side finds only registrations
   that are participants of the problem (an ignored registration is none: C11_ignored_not_participant / C11_ignored_id_absent) and only courses of
   the problem (an ignored cancelled course is none: C11_problem_courses), and every course with reserved places -- a course in which an ignored
   registration sits or which it instructs is fixed: C11_fixed -- is marked as taking place *)
Theorem C11_end_to_end : forall data track ign_c ign_a ff of ps cs amb K a rooms sm ts,
  read_fields data track ign_c ign_a ff of = ROk (ps, cs, amb) -> CdeIds.keys_canonical data = true ->
  HardOK_K (map to_course cs) (map to_part ps) K a ->
  (forall c, K c = true -> c < nc (map to_course cs) /\ c_fixed (crs (map to_course cs) c) = false) ->
  match rooms with Some (_, l) => List.length l = List.length cs | None => True end ->
  exists im,
    WriteDoc.import_of_doc (ra_track amb) (WriteDoc.write_doc (ra_event amb) (ra_track amb) (write_regs a ps cs) (write_courses a cs) rooms sm ts) = Some im /\
    (forall rid cid, In (rid, cid) (WriteDoc.im_regs im) -> In rid (map rp_dbid ps)) /\
    (forall cid flag fld, In (cid, flag, fld) (WriteDoc.im_courses im) -> In cid (map rc_dbid cs)) /\
    (forall c, c < List.length cs -> rc_fixed (nth c cs dflt_c) = true -> exists fld, In (rc_dbid (nth c cs dflt_c), true, fld) (WriteDoc.im_courses im)).
Proof. exact CdeE2E.export_to_import_c11. Qed.

Check C11_end_to_end.
Check C11_reserve. Check C11_fixed. Check C11_fixed_active. Check C11_ignored_not_participant. Check C11_ignored_id_absent.
Check C11_problem_courses. Check C11_ignored_course_lookup. Check C11_choices_in_problem. Check C11_reserved_places.
Print Assumptions C11_reserve.
Print Assumptions C11_fixed.
Print Assumptions C11_fixed_active.
Print Assumptions C11_ignored_not_participant.
Print Assumptions C11_ignored_id_absent.
Print Assumptions C11_problem_courses.
Print Assumptions C11_ignored_course_lookup.
Print Assumptions C11_choices_in_problem.
Print Assumptions C11_reserved_places.
Print Assumptions C11_end_to_end.
