(* C15 — malformed input is refused with an error, never with a panic.  Property theorems only (decision skeleton of main.rs). *)
From Coq Require Import List Arith Bool ZArith.
Require Import Consts Cli Json SimpleRead.
Import ListNotations.

(* for EVERY combination of stage results: if the run is not well formed (arguments rejected, both room options, rooms unreadable or
   unparsable, input unreadable, track not a number, reader error, inconsistent references or min > max, no participant) the exit
   status is 2 (clap), 64, 65 or 66 and the output stage is never reached *)
Theorem C15_refused : forall s, well_formed_run s = false -> In (exit_code s) [2; 64; 65; 66] /\ reaches_output s = false.
Proof. exact malformed_refused. Qed.
(* and a well-formed run ends with 0, 1 (no feasible solution) or 74 (output failure) *)
Theorem C15_wellformed : forall s, well_formed_run s = true -> In (exit_code s) [0; 1; 74].
Proof. exact wellformed_exit. Qed.

(* the simple-format reader and the consistency check are total functions of the JSON document (SimpleRead: serde's derived
   deserializers for Participant / Choice / Course from objects or arrays, then io::check_data_consistency; compared exactly with the
   implementation on generated and corrupted documents).  A document the model does not accept -- unparsable as an instance,
   references out of range, minimum above maximum, a penalty that does not fit the score arithmetic, a participant instructing
   twice, or no participant -- is refused: *)
Theorem C15_simple_refused : forall data s,
  input_parse_ok s = (match simple_read data with ROk _ => true | RErr _ => false end) ->
  (forall ps cs, simple_read data = ROk (ps, cs) ->
     consistent s = consistentb ps cs /\ has_participants s = negb (match ps with [] => true | _ => false end)) ->
  simple_accepts data = false -> In (exit_code s) [2; 64; 65; 66] /\ reaches_output s = false.
Proof.
  intros data s Hp Hc Ha. apply malformed_refused. unfold well_formed_run. unfold simple_accepts in Ha.
  destruct (simple_read data) as [[ps cs]|code] eqn:E.
  - destruct (Hc ps cs eq_refl) as [H1 H2]. rewrite H1, H2.
    destruct (consistentb ps cs); simpl in Ha; [rewrite Ha|]; rewrite ?andb_false_r; reflexivity.
  - rewrite Hp. rewrite ?andb_false_r. reflexivity.
Qed.
(* and whatever is accepted has every cross reference in range, minimum <= maximum and penalties below WEIGHT_OFFSET (the index and
   arithmetic clauses of the solver's validity predicate) *)
Theorem C15_simple_accepted : forall data ps cs, simple_read data = ROk (ps, cs) -> consistentb ps cs = true ->
  (forall p ch, In p ps -> In ch (sp_choices p) -> (0 <= sc_course ch < Z.of_nat (List.length cs))%Z /\ (0 <= sc_pen ch < WEIGHT_OFFSET)%Z) /\
  (forall c i, In c cs -> In i (so_instr c) -> (0 <= i < Z.of_nat (List.length ps))%Z) /\
  (forall c, In c cs -> (0 <= so_min c <= so_max c)%Z) /\
  NoDup (flat_map so_instr cs).           (* nobody instructs two courses or one course twice *)
Proof. exact accepted_is_consistent. Qed.

Check C15_refused. Check C15_wellformed. Check C15_simple_refused. Check C15_simple_accepted.
Print Assumptions C15_refused.
Print Assumptions C15_wellformed.
Print Assumptions C15_simple_refused.
Print Assumptions C15_simple_accepted.
