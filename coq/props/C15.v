(* C15 — malformed input is refused with an error, never with a panic.  Property theorems only (decision skeleton of main.rs). *)
From Coq Require Import List Arith Bool.
Require Import Cli.
Import ListNotations.

(* for EVERY combination of stage results: if the run is not well formed (arguments rejected, both room options, rooms unreadable or
   unparsable, input unreadable, track not a number, reader error, inconsistent references or min > max, no participant) the exit
   status is 2 (clap), 64, 65 or 66 and the output stage is never reached *)
Theorem C15_refused : forall s, well_formed_run s = false -> In (exit_code s) [2; 64; 65; 66] /\ reaches_output s = false.
Proof. exact malformed_refused. Qed.
(* and a well-formed run ends with 0, 1 (no feasible solution) or 74 (output failure) *)
Theorem C15_wellformed : forall s, well_formed_run s = true -> In (exit_code s) [0; 1; 74].
Proof. exact wellformed_exit. Qed.

Check C15_refused. Check C15_wellformed.
Print Assumptions C15_refused.
Print Assumptions C15_wellformed.
