(* C19 — a failing worker makes the search fail, not hang.  Property theorems only.
   The model step SFinishPanic is the repaired behaviour (fix bf4f1b4): the dying worker re-locks, books busy - 1, notifies all. *)
From Coq Require Import List ZArith Lia.
Require Import EngP2.
Import ListNotations.
Open Scope nat_scope.

Section C19.
Variables (node sol : Type) (f : node -> nres node sol) (root : node) (smin smax : Z).
Notation Reach := (Reach node sol f root smin smax).

(* never a hang: whatever fails and whenever, while some worker is neither done nor dead some worker can move (for every thread
   count, every position of the failing subproblem, every interleaving) *)
Theorem C19_no_hang : forall k st, Reach k st ->
  (exists i t, T node sol st i = Some t /\ t <> Done node /\ t <> Dead node) -> exists st', Step node sol f true st st'.
Proof. exact (no_deadlock node sol f root smin smax). Qed.

(* the failure is reported: a worker is dead (so that the main thread's join().unwrap() propagates the panic) exactly if a node
   solver failed *)
Theorem C19_reported : forall k st, Reach k st -> ((exists i, T node sol st i = Some (Dead node)) <-> failed node sol st <> []).
Proof. exact (failure_reported node sol f root smin smax). Qed.

(* and the run is finite (same measure as C04; the panic step lowers it too) *)
Theorem C19_terminates : forall (h : node -> nat),
  (forall n cs s c, f n = Infeas node sol cs s -> In c cs -> h c < h n) ->
  forall k b st st', Reach k st -> Step node sol f b st st' ->
  if b then M node sol f h k st' + 1 <= M node sol f h k st else M node sol f h k st' = M node sol f h k st + 3.
Proof. intros h Hh k b st st'. apply (measure_step node sol f root smin smax h Hh). Qed.
End C19.

Check C19_no_hang. Check C19_reported. Check C19_terminates.
Print Assumptions C19_no_hang.
Print Assumptions C19_reported.
Print Assumptions C19_terminates.
