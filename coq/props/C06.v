(* C06 — room limits are respected by every reported solution.  Property theorems only. *)
From Coq Require Import List ZArith Lia Bool Arith Permutation.
Require Import HP1 Cao1 Rooms Spec Node RoomThms NodeThms Solve F32 HousedAlloc.
Require EngP2.
Import ListNotations.
Open Scope nat_scope.

(* eff_size a c = 0 for a non-fixed course nobody is assigned to, else esize c (number of assigned people incl. instructors):
   a fixed course counts even when nobody is newly assigned.  Housed sizes rooms: after sorting both in descending order (missing
   rooms count as size 0) the i-th largest course fits the i-th largest room. *)
Theorem C06_node : forall courses parts esize shrinkf rs nd a s,
  run_full courses parts esize shrinkf (Some rs) nd = Val (Feasible a s) ->
  Housed (map (eff_size courses esize a) (seq 0 (nc courses))) rs.
Proof. exact full_feasible_housed. Qed.

(* the gate itself (the model of check_room_feasibility; the correspondence CorrGate compares it with the code at realistic sizes and checks
   this very implication on the implementation's verdicts, bit 32): when it reports no conflict for an assignment in a subproblem, the
   effective sizes of that assignment can be housed in the given rooms *)
Theorem C06_gate : forall courses esize shrinkf rs nd a,
  room_sets courses esize shrinkf (prep_rooms courses rs) nd a = Val None ->
  Housed (map (eff_size courses esize a) (seq 0 (nc courses))) rs.
Proof. exact room_sets_none_housed. Qed.

(* every best solution the search ever holds (all worker counts, all interleavings) can be housed *)
Theorem C06 : forall courses parts esize shrinkf rs smin smax k st a,
  SReach courses parts esize shrinkf (Some rs) smin smax k st ->
  EngP2.best node assignment st = Some a ->
  Housed (map (eff_size courses esize a) (seq 0 (nc courses))) rs.
Proof.
  intros courses parts esize shrinkf rs smin smax k st a R Hb.
  destruct (best_is_node_output courses parts esize shrinkf (Some rs) smin smax k st a R Hb) as (nd & _ & Hrun).
  apply (full_feasible_housed courses parts esize shrinkf rs nd a _ Hrun).
Qed.

(* Housed means what the property says: there is an allocation of pairwise distinct rooms of the given list in which every course that
   needs a room (effective size > 0) gets one that is large enough *)
Theorem C06_allocation : forall sizes rooms, Housed sizes rooms ->
  exists alloc : nat -> nat,
    (forall c, c < length sizes -> 0 < nth c sizes 0 -> alloc c < length rooms /\ nth c sizes 0 <= nth (alloc c) rooms 0) /\
    (forall c c', c < length sizes -> c' < length sizes -> 0 < nth c sizes 0 -> 0 < nth c' sizes 0 -> alloc c = alloc c' -> c = c').
Proof. exact housed_allocation. Qed.
(* ... and conversely: the rank-wise criterion is EXACTLY the existence of such an allocation (counting argument on the sorted lists) *)
Theorem C06_housed_iff : forall sizes rooms, Housed sizes rooms <->
  exists alloc : nat -> nat,
    (forall c, c < length sizes -> 0 < nth c sizes 0 -> alloc c < length rooms /\ nth c sizes 0 <= nth (alloc c) rooms 0) /\
    (forall c c', c < length sizes -> c' < length sizes -> 0 < nth c sizes 0 -> 0 < nth c' sizes 0 -> alloc c = alloc c' -> c = c').
Proof. exact housed_iff_allocation. Qed.

(* `desc` really is the descending sort: a permutation of its argument in non-increasing order *)
Theorem C06_desc_is_sort : forall l, Permutation (desc l) l /\ forall i j, i <= j -> j < length l -> nth j (desc l) 0 <= nth i (desc l) 0.
Proof. intros l. split; [apply desc_perm|apply desc_sorted]. Qed.
(* the executable predicate evaluated on the implementation's outputs *)
Theorem C06_checker_sound : forall sizes rooms, housedb sizes rooms = true <-> Housed sizes rooms.
Proof. exact housedb_spec. Qed.

(* the instance the correspondence run evaluates: binary32 arithmetic of Flocq for
   esize c n = ceil(room_offset_c + room_factor_c * n), the code's own definition (this line carries Flocq's classical axioms) *)
Definition C06_binary32 := fun courses parts params => C06 courses parts (esize32 params) (shrinkf32 params).

(* non-vacuity: sizes [3;1;2] fit rooms [2;5;1;4] (3<=5, 2<=4, 1<=2) but not rooms [2;2;1] (3 <= 2 fails for the first rank) *)
Example C06_example : Housed [3;1;2] [2;5;1;4] /\ ~ Housed [3;1;2] [2;2;1] /\ Housed [3;0;0] [4].
Proof.
  repeat split; try (apply housedb_spec; vm_compute; reflexivity).
  intros H. apply housedb_spec in H. vm_compute in H. discriminate.
Qed.

Check C06_gate. Check C06_allocation. Check C06_housed_iff. Check C06_node. Check C06. Check C06_desc_is_sort. Check C06_checker_sound.
Print Assumptions C06_allocation.
Print Assumptions C06_housed_iff.
Print Assumptions C06_gate.
Print Assumptions C06_node.
Print Assumptions C06.
Print Assumptions C06_desc_is_sort.
Print Assumptions C06_checker_sound.
Print Assumptions C06_binary32.
