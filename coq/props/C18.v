(* C18 — every room listed as possible for a course is really usable.  Property theorems only.
   Rank-level model of calculate_possible_course_room_sizes (Rooms18.listed: the pushes of the double loop with its break, on course
   sizes s by rank and rooms r sorted descending).  The theorems use only the descending order of the ROOMS and rank-wise fit, so they
   hold for every order the unstable sort may choose among courses of equal size. *)
From Coq Require Import List Arith Lia Bool Permutation.
Require Import Rooms18 RoomsModel RoomsCourse HousedLink.
Require HP1 Cao1 Rooms Node Solve EngP2 C06.
Import ListNotations.
Open Scope nat_scope.

(* Usable s r k v: v is at least course k's size and is course k's room in an allocation that gives distinct rooms to all courses
   and a sufficiently large room to every course of positive size ("takes place") *)
Theorem C18 : forall (s r : list nat),
  (forall i j, i <= j -> j < length r -> nth j r 0 <= nth i r 0) ->                                   (* rooms sorted descending *)
  (forall i, i < length s -> (i < length r -> nth i s 0 <= nth i r 0) /\ (length r <= i -> nth i s 0 = 0)) ->   (* room-feasible *)
  forall k v, In v (listed s r k) -> Usable s r k v.
Proof. exact listed_usable. Qed.

(* every course that takes place is offered at least one room *)
Theorem C18_nonempty : forall (s r : list nat),
  (forall i, i < length s -> (i < length r -> nth i s 0 <= nth i r 0) /\ (length r <= i -> nth i s 0 = 0)) ->
  forall k, k < length s -> 0 < nth k s 0 -> listed s r k <> [].
Proof. intros s r H k. apply (listed_nonempty s r H k). Qed.

(* the same at COURSE level, through the two sorts of calculate_possible_course_room_sizes (RoomsModel.possible is compared exactly with
   the implementation's lists): whenever the sizes can be housed (the executable housed_desc), every size v listed for course c is at
   least c's size, and some allocation of pairwise distinct rooms -- positions in the descending room list, a permutation of the
   given rooms -- gives c a room of size v and every course of positive size a room that is large enough *)
Theorem C18_course_level : forall sizes rooms, housed_desc sizes rooms = true ->
  forall c v, c < length sizes -> In v (nth c (possible sizes rooms) []) ->
  nth c sizes 0 <= v /\
  exists alloc : nat -> nat,
    (forall a b, a < length sizes -> b < length sizes -> alloc a = alloc b -> a = b) /\
    alloc c < length (sort_nat_desc rooms) /\ nth (alloc c) (sort_nat_desc rooms) 0 = v /\
    (forall a, a < length sizes -> 0 < nth a sizes 0 ->
       alloc a < length (sort_nat_desc rooms) /\ nth a sizes 0 <= nth (alloc a) (sort_nat_desc rooms) 0).
Proof. exact possible_usable. Qed.
Theorem C18_rooms_permuted : forall rooms, Permutation (sort_nat_desc rooms) rooms.
Proof. exact sort_nat_desc_perm. Qed.
Theorem C18_course_nonempty : forall sizes rooms, housed_desc sizes rooms = true ->
  forall c, c < length sizes -> 0 < nth c sizes 0 -> nth c (possible sizes rooms) [] <> [].
Proof. exact possible_nonempty. Qed.

(* io::rooms::read (RoomsModel.kinds_read, compared exactly with the code): the kinds are only reordered, and the room list handed to the
   solver contains, for every kind of the file, exactly `quantity` rooms of its capacity *)
Theorem C18_rooms_file : forall raw, Permutation (kinds_read raw) raw /\ Permutation (rooms_of_kinds (kinds_read raw)) (rooms_of_kinds raw).
Proof. intros raw. split; [apply kinds_read_perm|apply rooms_read_perm]. Qed.
Theorem C18_rooms_file_sorted : forall raw i j, i <= j -> j < length (kinds_read raw) ->
  kind_cap (nth j (kinds_read raw) (0, 0, 0)) <= kind_cap (nth i (kinds_read raw) (0, 0, 0)).
Proof. exact kinds_read_descending. Qed.

(* composed with C06: for EVERY solution the search can end with under a room list (any worker count and interleaving), the possible-room
   listing computed from that solution and that room list offers only usable rooms, and offers at least one to every course that
   takes place.  (The precondition of the listing theorems is exactly what C06 proves about solutions: HousedLink.) *)
Theorem C18_for_solutions : forall courses parts esize shrinkf rs smin smax k st a,
  Solve.SReach courses parts esize shrinkf (Some rs) smin smax k st -> EngP2.best Cao1.node Cao1.assignment st = Some a ->
  let sizes := map (Rooms.eff_size courses esize a) (seq 0 (Cao1.nc courses)) in
  housed_desc sizes rs = true /\
  (forall c v, c < length sizes -> In v (nth c (possible sizes rs) []) -> UsableCourse sizes rs c v) /\
  (forall c, c < length sizes -> 0 < nth c sizes 0 -> nth c (possible sizes rs) [] <> []).
Proof.
  intros courses parts esize shrinkf rs smin smax k st a R Hb sizes.
  assert (H : housed_desc sizes rs = true) by (apply housed_link; apply (C06.C06 courses parts esize shrinkf rs smin smax k st a R Hb)).
  split; [exact H|]. split; [intros c v; apply (possible_usable sizes rs H)|intros c; apply (possible_nonempty sizes rs H)].
Qed.

(* room kinds: a listed kind name always belongs to a kind with positive quantity whose capacity is one of the listed sizes *)
Theorem C18_kinds : forall ks sizes c n,
  In n (nth c (kind_names ks sizes) []) ->
  exists cap q, In (n, cap, q) ks /\ 0 < q /\ In cap (nth c (possible sizes (rooms_of_kinds ks)) []).
Proof.
  intros ks sizes c n. unfold kind_names. set (P := possible sizes (rooms_of_kinds ks)).
  destruct (Nat.lt_ge_cases c (length P)) as [Hc|Hc].
  - rewrite (nth_indep _ [] (flat_map (fun r => map (fun k : kind => fst (fst k)) (filter (fun k : kind => let '(_, cap, q) := k in Nat.eqb cap r && (0 <? q)) ks)) []))
      by (rewrite map_length; exact Hc).
    rewrite (map_nth (fun l => flat_map (fun r => map (fun k : kind => fst (fst k)) (filter (fun k : kind => let '(_, cap, q) := k in Nat.eqb cap r && (0 <? q)) ks)) l) P [] c).
    intros Hin. apply in_flat_map in Hin. destruct Hin as (r & Hr & Hin). apply in_map_iff in Hin. destruct Hin as ([[id cap] q] & Hid & Hk).
    apply filter_In in Hk. destruct Hk as [Hk Hf]. simpl in Hid. subst id. apply andb_true_iff in Hf. destruct Hf as [H1 H2].
    apply Nat.eqb_eq in H1. apply Nat.ltb_lt in H2. subst r. exists cap, q. auto.
  - rewrite nth_overflow by (rewrite map_length; exact Hc). intros [].
Qed.

(* non-vacuity: sizes by rank [5;3;0], rooms [6;5;3]: course 0 may use 6 or 5, course 1 may use 6, 5 or 3 *)
Example C18_example : dedup (listed [5;3;0] [6;5;3] 0) = [6; 5] /\ dedup (listed [5;3;0] [6;5;3] 1) = [6; 5; 3] /\ listed [5;3;0] [6;5;3] 2 <> [].
Proof. vm_compute. repeat split; discriminate. Qed.

Check C18_rooms_file_sorted. Check C18_for_solutions. Check C18_rooms_file. Check C18. Check C18_nonempty. Check C18_kinds. Check C18_course_level. Check C18_rooms_permuted. Check C18_course_nonempty.
Print Assumptions C18.
Print Assumptions C18_nonempty.
Print Assumptions C18_kinds.
Print Assumptions C18_for_solutions.
Print Assumptions C18_rooms_file.
Print Assumptions C18_rooms_file_sorted.
Print Assumptions C18_course_level.
Print Assumptions C18_rooms_permuted.
Print Assumptions C18_course_nonempty.
