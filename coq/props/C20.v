(* C20 — k-subset enumeration used for room branching is exact.  Property theorems only. *)
From Coq Require Import List Arith NArith.
Require Import SelModel SelProofs.
Import ListNotations.

(* every k-selection exactly once: pairwise distinct, C(n,k) many, and exactly the strictly increasing index vectors below n *)
Theorem C20_enum : forall n k, 1 <= k <= n ->
  NoDup (selections n k) /\ length (selections n k) = C n k /\ (forall idx, valid n k idx <-> In idx (selections n k)).
Proof. intros n k H. destruct (selections_nodup_length n k H) as [H1 H2]. split; [exact H1|split; [exact H2|exact (selections_complete n k H)]]. Qed.

(* the iterator (state machine next/size_hint) yields exactly that list, each vector strictly increasing (= in list order), and
   before the i-th call of next reports C(n,k) - i selections to come (and 0 after the final None) *)
Theorem C20_iterator : forall n k, 1 <= k <= n ->
  it_run (S (C n k)) n k None = (map Some (rev (seq 0 (S (C n k)))) ++ [Some 0], selections n k).
Proof. intros n k H. rewrite (surjective_pairing (it_run _ _ _ _)), (it_hints n k H), (it_values n k H). reflexivity. Qed.

Theorem C20_order : forall n k, 1 <= k <= n -> Forall incr (selections n k).
Proof. intros n k H. destruct (selections_ranks n k H) as [_ Hv]. eapply Forall_impl; [|exact Hv]. intros a (_ & Hi & _). exact Hi. Qed.

Theorem C20_empty : forall n k, k = 0 \/ n < k -> selections n k = [] /\ forall fuel, snd (it_run fuel n k None) = [].
Proof. intros n k H. split; [apply selections_empty, H|apply it_empty, H]. Qed.

Theorem C20_binom : forall n k, binom n k = C n k.
Proof. exact binom_exact. Qed.

(* the loop with the machine arithmetic of the code (usize = 64 bit, product in 128 bit; None = an arithmetic overflow): for EVERY n
   that a usize can hold and every k it never overflows and returns the exact count when that fits into usize and usize::MAX otherwise
   (since fix f71c4f2; before, binom(64, 64) = 1 overflowed -- defect D15) *)
Theorem C20_binom_machine : forall n k, (N.of_nat n < 18446744073709551616)%N ->
  binom64 (N.of_nat n) (N.of_nat k) = Some (N.min (N.of_nat (C n k)) MAXU).
Proof. exact binom64_spec. Qed.
(* ... in particular exact for n <= 57 (the earlier statement) *)
Theorem C20_binom64 : forall n k, n <= 57 -> binom64 (N.of_nat n) (N.of_nat k) = Some (N.of_nat (C n k)).
Proof. exact binom64_exact. Qed.
Example C20_binom_64_64 : binom64 64 64 = Some 1%N /\ binom64 66 33 = Some 7219428434016265740%N /\ binom64 68 34 = Some MAXU.
Proof. vm_compute. repeat split. Qed.

(* the binary-arithmetic variant of the state machine that the correspondence run evaluates for larger n is the same function *)
Theorem C20_runN : forall n k fuel st,
  it_runN fuel n k st = (map (option_map N.of_nat) (fst (it_run fuel n k st)), snd (it_run fuel n k st)).
Proof. exact it_runN_spec. Qed.

(* non-vacuity: a concrete instance *)
Example C20_example : selections 4 2 = [[0;1];[0;2];[1;2];[0;3];[1;3];[2;3]] /\ C 4 2 = 6.
Proof. split; reflexivity. Qed.

Check C20_enum : forall n k, 1 <= k <= n ->
  NoDup (selections n k) /\ length (selections n k) = C n k /\ (forall idx, valid n k idx <-> In idx (selections n k)).
Check C20_iterator : forall n k, 1 <= k <= n ->
  it_run (S (C n k)) n k None = (map Some (rev (seq 0 (S (C n k)))) ++ [Some 0], selections n k).
Check C20_empty : forall n k, k = 0 \/ n < k -> selections n k = [] /\ forall fuel, snd (it_run fuel n k None) = [].
Check C20_binom : forall n k, binom n k = C n k.
Check C20_binom_machine : forall n k, (N.of_nat n < 18446744073709551616)%N ->
  binom64 (N.of_nat n) (N.of_nat k) = Some (N.min (N.of_nat (C n k)) MAXU).
Check C20_binom64 : forall n k, n <= 57 -> binom64 (N.of_nat n) (N.of_nat k) = Some (N.of_nat (C n k)).
Print Assumptions C20_enum.
Print Assumptions C20_iterator.
Print Assumptions C20_order.
Print Assumptions C20_empty.
Print Assumptions C20_binom.
Print Assumptions C20_binom64.
Print Assumptions C20_binom_machine.
Print Assumptions C20_runN.
