(* C08 — reported score and quality figures are truthful.  Property theorems only (solver side; the rating of ignored
   pre-assigned participants is part of the CdE reader model, see C12). *)
From Coq Require Import List ZArith Lia Bool Arith.
Require Import Cert HP1 Cao1 Cao3 Score1 Rooms Spec Valid Node NodeThms Solve Quality.
Require EngP2.
Import ListNotations.
Open Scope nat_scope.

(* the score a Feasible node reports equals the score recomputed from its assignment by the documented rule
   (score_of: 50000 - penalty of the attended choice per attendee, 50000 per instructing participant with own choices) *)
Theorem C08_score_node : forall courses parts esize shrinkf rooms nd a s,
  Valid courses parts -> run_full courses parts esize shrinkf rooms nd = Val (Feasible a s) -> s = score_of courses parts a.
Proof. intros courses parts esize shrinkf rooms nd a s V. apply (full_feasible_score courses parts esize shrinkf rooms V). Qed.

(* the score the search holds together with its best solution (every worker count, every interleaving) is that recomputed score *)
Theorem C08_score : forall courses parts esize shrinkf rooms smin smax k st a,
  Valid courses parts -> SReach courses parts esize shrinkf rooms smin smax k st ->
  EngP2.best node assignment st = Some a -> EngP2.bscore node assignment st = score_of courses parts a.
Proof.
  intros courses parts esize shrinkf rooms smin smax k st a V R Hb.
  destruct (best_is_node_output courses parts esize shrinkf rooms smin smax k st a R Hb) as (nd & _ & Hrun).
  apply (full_feasible_score courses parts esize shrinkf rooms V nd a _ Hrun).
Qed.

(* the numerator of the reported quality lack, n_real * 50000 - score, is the sum over the participants with choices of their
   penalty (zero for a participant assigned to a course he instructs); the reported figure is this numerator divided by n_real *)
Theorem C08_quality : forall courses parts a,
  quality_num parts (score_of courses parts a) =
  sumZ (map (penalty_of courses parts a) (filter (fun p => negb (instr_only parts p)) (seq 0 (np parts)))).
Proof. exact quality_num_sum. Qed.

(* the theoretical maximum score is never below the achieved score *)
Theorem C08_max : forall courses parts K a, Valid courses parts -> HardOK_K courses parts K a ->
  (score_of courses parts a <= theo_max courses parts)%Z.
Proof. intros courses parts K a V H. apply (score_le_theo_max courses parts a V). intros p c Hp Ha. apply (h_rng _ _ _ _ H p c Hp Ha). Qed.

Check C08_score_node. Check C08_score. Check C08_quality. Check C08_max.
Print Assumptions C08_score_node.
Print Assumptions C08_score.
Print Assumptions C08_quality.
Print Assumptions C08_max.
