(* C08 — reported score and quality figures are truthful.  Property theorems only (solver side; the rating of ignored
   pre-assigned participants is part of the CdE reader model, see C12). *)
From Coq Require Import List ZArith Lia Bool Arith.
Require Import Cert HP1 Cao1 Cao3 Score1 Rooms Spec Valid Node NodeThms Solve Quality QualityComb.
Require Json CdeSpec CdeQuality.
Require EngP2.
Import ListNotations.
Open Scope nat_scope.

(* the score a Feasible node reports equals the score recomputed from its assignment by the documented rule
   (score_of: 50000 - penalty of the attended choice per attendee, 50000 per instructing participant with own choices) *)
Theorem C08_score_node : forall courses parts esize shrinkf rooms nd a s,
  Valid courses parts -> run_full courses parts esize shrinkf rooms nd = Val (Feasible a s) -> s = score_of courses parts a.
Proof. intros courses parts esize shrinkf rooms nd a s V. apply (full_feasible_score courses parts esize shrinkf rooms V). Qed.

(* the score the search holds together with its best solution (every worker count, every interleaving) is that recomputed score *)
Theorem C08_score : forall courses parts esize shrinkf rooms smin smax k st a,
  Valid courses parts -> SReach courses parts esize shrinkf rooms smin smax k st ->
  EngP2.best node assignment st = Some a -> EngP2.bscore node assignment st = score_of courses parts a.
Proof.
  intros courses parts esize shrinkf rooms smin smax k st a V R Hb.
  destruct (best_is_node_output courses parts esize shrinkf rooms smin smax k st a R Hb) as (nd & _ & Hrun).
  apply (full_feasible_score courses parts esize shrinkf rooms V nd a _ Hrun).
Qed.

(* the numerator of the reported quality lack, n_real * 50000 - score, is the sum over the participants with choices of their
   penalty (zero for a participant assigned to a course he instructs); the reported figure is this numerator divided by n_real *)
Theorem C08_quality : forall courses parts a,
  quality_num parts (score_of courses parts a) =
  sumZ (map (penalty_of courses parts a) (filter (fun p => negb (instr_only parts p)) (seq 0 (np parts)))).
Proof. exact quality_num_sum. Qed.

(* the theoretical maximum score is never below the achieved score *)
Theorem C08_max : forall courses parts K a, Valid courses parts -> HardOK_K courses parts K a ->
  (score_of courses parts a <= theo_max courses parts)%Z.
Proof. intros courses parts K a V H. apply (score_le_theo_max courses parts a V). intros p c Hp Ha. apply (h_rng _ _ _ _ H p c Hp Ha). Qed.

(* external rating (--ignore-assigned): an ignored pre-assigned participant is rated by the position of his assigned course in his
   ORIGINAL choice list -- choices of skipped (cancelled / not offered) courses count -- and by num_choices + 1 if he did not choose it.
   first_rank is the least such position (C08_first_rank).  The quality record of the reader specification (= transcription, C12_refinement)
   lists exactly these penalties for the ignored registrations that do not instruct their assigned course and have a valid choice
   (participants without choices are not rated -- defect D19, fixed like D18). *)
Theorem C08_external_rank : forall cmap l res ci td, Json.pcd_choices cmap l 0 = Json.ROk res ->
  Json.assigned_penalty ci res td = match CdeQuality.first_rank cmap l ci 0 with Some r => r | None => Json.unchosen_penalty td end.
Proof. exact CdeQuality.assigned_penalty_rank. Qed.
Theorem C08_first_rank : forall cmap ci l,
  match CdeQuality.first_rank cmap l ci 0 with
  | Some r => (exists v, nth_error l r = Some v /\ CdeQuality.maps_to cmap v ci = true) /\
              forall j v, j < r -> nth_error l j = Some v -> CdeQuality.maps_to cmap v ci = false
  | None => forall v, In v l -> CdeQuality.maps_to cmap v ci = false
  end.
Proof.
  intros cmap ci l. pose proof (CdeQuality.first_rank_spec cmap ci l 0) as H. destruct (CdeQuality.first_rank cmap l ci 0) as [r|]; [|exact H].
  destruct H as (_ & H1 & H2). rewrite Nat.sub_0_r in H1, H2. split; assumption.
Qed.
Theorem C08_external_list : forall ign_a td rviews,
  snd (CdeSpec.spec_quality ign_a td rviews) =
  map (fun r => match Json.pc_assigned (CdeSpec.rv_pcd r) with Some ci => Json.assigned_penalty ci (Json.pc_choices (CdeSpec.rv_pcd r)) td | None => 0 end)
      (filter (fun r => negb (CdeSpec.same_course r) && CdeSpec.has_choices r) (filter (CdeSpec.ignored ign_a) rviews)).
Proof. exact CdeQuality.spec_quality_penalties. Qed.

(* ... and the instructors it counts (each with penalty 0) are exactly the ignored registrations that instruct their assigned course AND have
   a valid choice: "per participant with choices" -- instructor-only participants are not rated, pre-assigned or optimised (defect D18,
   fixed by 2b07851: every ignored instructor was counted) *)
Theorem C08_external_instructors : forall ign_a td rviews,
  fst (CdeSpec.spec_quality ign_a td rviews) =
  List.length (filter (fun r => CdeSpec.same_course r && CdeSpec.has_choices r) (filter (CdeSpec.ignored ign_a) rviews)).
Proof. reflexivity. Qed.

(* the OVERALL quality lack (combined_quality; CorrQual evaluates comb_num / comb_den with binary32 division against the implementation's
   bits): its numerator is the sum of the penalties of ALL rated people -- the optimised participants with choices (zero for one assigned to
   a course he instructs) and the rated ignored pre-assigned ones (pens; an ignored instructor adds 0) -- and its denominator is their
   number: every participant counts in the same way, optimised or pre-assigned *)
Theorem C08_overall : forall courses parts a ni pens,
  comb_num (Z.of_nat (n_real parts)) (score_of courses parts a) ni pens =
    (sumZ (map (penalty_of courses parts a) (filter (fun p => negb (instr_only parts p)) (seq 0 (np parts)))) + sumZ pens)%Z /\
  comb_den (Z.of_nat (n_real parts)) ni pens =
    (Z.of_nat (length (filter (fun p => negb (instr_only parts p)) (seq 0 (np parts)))) + Z.of_nat (length pens) + ni)%Z.
Proof. intros courses parts a ni pens. split; [apply comb_num_sum|apply comb_den_count]. Qed.
(* with nobody ignored it is the solution quality itself *)
Theorem C08_overall_none : forall courses parts a,
  comb_num (Z.of_nat (n_real parts)) (score_of courses parts a) 0 [] = quality_num parts (score_of courses parts a) /\
  comb_den (Z.of_nat (n_real parts)) 0 [] = Z.of_nat (n_real parts).
Proof. exact comb_none. Qed.

(* the numerators are non-negative for every valid instance (each rated participant's penalty lies between 0 and WEIGHT_OFFSET), so the
   unsigned subtraction `n * WEIGHT_OFFSET as usize - score as usize` of solution_quality / combined_quality cannot wrap *)
Theorem C08_numerators_nonneg : forall courses parts a ni pens, Valid courses parts -> (forall z, In z pens -> (0 <= z)%Z) ->
  (0 <= quality_num parts (score_of courses parts a))%Z /\
  (0 <= comb_num (Z.of_nat (n_real parts)) (score_of courses parts a) ni pens)%Z.
Proof. intros courses parts a ni pens V Hp. split; [apply quality_num_nonneg; exact V|apply comb_num_nonneg; assumption]. Qed.

Check C08_external_instructors. Check C08_overall. Check C08_overall_none. Check C08_numerators_nonneg.
Check C08_external_rank. Check C08_first_rank. Check C08_external_list. Check C08_score_node. Check C08_score. Check C08_quality. Check C08_max.
Print Assumptions C08_score_node.
Print Assumptions C08_score.
Print Assumptions C08_quality.
Print Assumptions C08_max.
Print Assumptions C08_external_rank.
Print Assumptions C08_first_rank.
Print Assumptions C08_external_list.
Print Assumptions C08_external_instructors.
Print Assumptions C08_overall.
Print Assumptions C08_overall_none.
Print Assumptions C08_numerators_nonneg.
