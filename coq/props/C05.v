(* C05 — applying the generated CdE import file yields a consistent course track.  Property theorems only.
   `active courses a c` is the segment flag cdedb::write emits for course c (somebody assigned, or fixed); the file's registrations
   are exactly the pairs (dbid of p, dbid of c) with a[p] = Some c and its courses exactly the problem's courses (Cde.write_regs,
   Cde.write_courses; the real files are compared with these and checked by Cde.import_okb inside Coq on every run). *)
From Coq Require Import List ZArith Lia Bool Arith.
Require Import HP1 Cao1 Cao3 Json Cde CdeThms CdeWriteOk.
Import ListNotations.
Open Scope nat_scope.

(* For the problem (courses, parts) the reader built and ANY assignment satisfying the hard constraints with a set K of non-fixed
   courses not taking place (which C01 proves of every reported assignment): *)
Theorem C05 : forall courses parts K a,
  HardOK_K courses parts K a ->
  (forall c, K c = true -> c < nc courses /\ c_fixed (crs courses c) = false) ->
  (* every assigned registration: in a course the file marks as taking place and that the person chose or instructs *)
  (forall p c, p < np parts -> getO a p = Some c -> active courses a c = true /\ (has_choice parts p c = true \/ instructs courses p c = true)) /\
  (* every course the file marks as taking place: attendees besides its instructors within min..max *)
  (forall c, c < nc courses -> active courses a c = true -> c_min (crs courses c) <= attendees courses parts a c <= c_max (crs courses c)) /\
  (* nobody is assigned to a course the file cancels *)
  (forall c p, active courses a c = false -> p < np parts -> getO a p <> Some c).
Proof.
  intros courses parts K a H HK. split; [|split].
  - intros p c. apply (assigned_ok courses parts K a H).
  - intros c. apply (active_sizes courses parts K a H HK).
  - intros c p. apply (inactive_empty courses parts K a H).
Qed.

(* at FILE level: for the problem (ps, cs) the reader built, with pairwise distinct registration and course ids, the import file that the
   writer model produces from ANY hard-feasible assignment passes Cde.import_okb -- the executable check that is evaluated inside Coq on
   every import file the real binary writes (ids of the problem only, each once; every assigned registration in a course marked as
   taking place that the person chose or instructs; active courses within their limits counting only non-instructors; nobody in a
   cancelled course; fixed courses active; every course of the problem mentioned) *)
Theorem C05_file : forall ps cs K a,
  NoDup (map rp_dbid ps) -> NoDup (map rc_dbid cs) ->
  HardOK_K (map to_course cs) (map to_part ps) K a ->
  (forall c, K c = true -> c < nc (map to_course cs) /\ c_fixed (crs (map to_course cs) c) = false) ->
  import_okb ps cs (write_regs a ps cs) (write_courses a cs) = true.
Proof. intros ps cs K a NDp NDc H HK. apply (written_file_ok ps cs NDp NDc K a H HK). Qed.

Check C05_file. Check C05.
Print Assumptions C05.
Print Assumptions C05_file.
