(* C05 — applying the generated CdE import file yields a consistent course track.  Property theorems only.
   `active courses a c` is the segment flag cdedb::write emits for course c (somebody assigned, or fixed); the file's registrations
   are exactly the pairs (dbid of p, dbid of c) with a[p] = Some c and its courses exactly the problem's courses (Cde.write_regs,
   Cde.write_courses; the real files are compared with these and checked by Cde.import_okb inside Coq on every run). *)
From Coq Require Import List ZArith Lia Bool Arith.
Require Import HP1 Cao1 Cao3 Json Cde CdeThms CdeWriteOk.
Require CdeSpec CdeRefine CdeIds WriteDoc WriteDocThms CdeImportSound CdeE2E SpecProofs.
From Coq Require Import Permutation String.
Import ListNotations.
Open Scope nat_scope.

(* For the problem (courses, parts) the reader built and ANY assignment satisfying the hard constraints with a set K of non-fixed
   courses not taking place (which C01 proves of every reported assignment): *)
Theorem C05 : forall courses parts K a,
  HardOK_K courses parts K a ->
  (forall c, K c = true -> c < nc courses /\ c_fixed (crs courses c) = false) ->
  (* every assigned registration: in a course the file marks as taking place and that the person chose or instructs *)
  (forall p c, p < np parts -> getO a p = Some c -> active courses a c = true /\ (has_choice parts p c = true \/ instructs courses p c = true)) /\
  (* every course the file marks as taking place: attendees besides its instructors within min..max *)
  (forall c, c < nc courses -> active courses a c = true -> c_min (crs courses c) <= attendees courses parts a c <= c_max (crs courses c)) /\
  (* nobody is assigned to a course the file cancels *)
  (forall c p, active courses a c = false -> p < np parts -> getO a p <> Some c).
Proof.
  intros courses parts K a H HK. split; [|split].
  - intros p c. apply (assigned_ok courses parts K a H).
  - intros c. apply (active_sizes courses parts K a H HK).
  - intros c p. apply (inactive_empty courses parts K a H).
Qed.

(* at FILE level: for the problem (ps, cs) the reader built, with pairwise distinct registration and course ids, the import file that the
   writer model produces from ANY hard-feasible assignment passes Cde.import_okb -- the executable check that is evaluated inside Coq on
   every import file the real binary writes (ids of the problem only, each once; every assigned registration in a course marked as
   taking place that the person chose or instructs; active courses within their limits counting only non-instructors; nobody in a
   cancelled course; fixed courses active; every course of the problem mentioned) *)
Theorem C05_file : forall ps cs K a,
  NoDup (map rp_dbid ps) -> NoDup (map rc_dbid cs) ->
  HardOK_K (map to_course cs) (map to_part ps) K a ->
  (forall c, K c = true -> c < nc (map to_course cs) /\ c_fixed (crs (map to_course cs) c) = false) ->
  import_okb ps cs (write_regs a ps cs) (write_courses a cs) = true.
Proof. intros ps cs K a NDp NDc H HK. apply (written_file_ok ps cs NDp NDc K a H HK). Qed.

(* the hypothesis "pairwise distinct ids" holds for every export the reader accepts whose registration and course keys are canonical decimal
   numbers (what the CdE-Datenbank writes; Rust's parse would also accept "07" and "+7" for 7, and two such keys would collide): the ids are
   the parsed keys of JSON objects, whose keys are pairwise distinct *)
Theorem C05_ids_distinct : forall data track ign_c ign_a ff of ps cs amb,
  read_fields data track ign_c ign_a ff of = ROk (ps, cs, amb) -> CdeIds.keys_canonical data = true ->
  NoDup (map rp_dbid ps) /\ NoDup (map rc_dbid cs).
Proof.
  intros data track ign_c ign_a ff of ps cs amb H Hk. rewrite CdeRefine.read_fields_refines_spec in H.
  apply (CdeIds.spec_read_ids_distinct data track ign_c ign_a ff of ps cs amb H Hk).
Qed.
(* so: for the problem read from ANY accepted export with canonical keys, the file written for ANY hard-feasible assignment passes import_okb *)
Theorem C05_export_file : forall data track ign_c ign_a ff of ps cs amb K a,
  read_fields data track ign_c ign_a ff of = ROk (ps, cs, amb) -> CdeIds.keys_canonical data = true ->
  HardOK_K (map to_course cs) (map to_part ps) K a ->
  (forall c, K c = true -> c < nc (map to_course cs) /\ c_fixed (crs (map to_course cs) c) = false) ->
  import_okb ps cs (write_regs a ps cs) (write_courses a cs) = true.
Proof.
  intros data track ign_c ign_a ff of ps cs amb K a H Hk Hh HK.
  destruct (C05_ids_distinct data track ign_c ign_a ff of ps cs amb H Hk) as [NDp NDc].
  apply (C05_file ps cs K a NDp NDc Hh HK).
Qed.

(* what the executable check MEANS: every file it accepts satisfies the declarative statement CdeImportSound.ImportOK -- every registration and
   course mentioned at most once; every pair (registration, course) names a registration and a course of the problem, the course is marked as
   taking place in the file and the person chose or instructs it; every course marked as taking place has between min and max attendees besides
   its instructors; a course marked as cancelled has nobody assigned and holds no reserved places; every course of the problem is mentioned *)
Theorem C05_check_sound : forall ps cs regs crs, import_okb ps cs regs crs = true -> CdeImportSound.ImportOK ps cs regs crs.
Proof. exact CdeImportSound.import_okb_sound. Qed.

(* at DOCUMENT level: WriteDoc.write_doc is the whole JSON value cdedb::write serialises (every key; compared with every file the real binary
   writes, CorrDoc).  The import side (WriteDoc.import_of_doc: strict reading -- exactly the seven keys, the output schema version, kind
   "partial", per registration exactly one track = the selected one with a course_id, per course exactly one segment = the selected track and
   optionally one field) reads from it the event id and exactly the registration pairs and course rows it was made from, each once: the file
   names only what write_regs / write_courses list (which C05_file judges) and only the selected track *)
Theorem C05_document : forall eid tid regs crs rooms sm ts,
  NoDup (map fst regs) -> NoDup (map fst crs) ->
  (forall r, In r regs -> WriteDocThms.in_u64 (fst r) /\ WriteDocThms.in_u64 (snd r)) -> (forall c, In c crs -> WriteDocThms.in_u64 (fst c)) ->
  match rooms with Some (_, l) => List.length l = List.length crs | None => True end ->
  exists im, WriteDoc.import_of_doc tid (WriteDoc.write_doc eid tid regs crs rooms sm ts) = Some im /\
             WriteDoc.im_event im = eid /\ WriteDoc.im_summary im = sm /\ Permutation (WriteDoc.im_regs im) regs /\
             Permutation (WriteDoc.im_courses im) (WriteDocThms.course_rows crs rooms).
Proof. exact WriteDocThms.import_of_write_doc. Qed.
(* the keys are the decimal renderings of the ids and parse back to them (all u64 values) *)
Theorem C05_keys_parse_back : forall z, (0 <= z < 18446744073709551616)%Z -> parse_u64 (zstr z) = Some z.
Proof. exact WriteDocThms.parse_zstr. Qed.
(* non-vacuity: a document for two registrations and two courses with a possible-rooms field *)
Example C05_document_example :
  match WriteDoc.import_of_doc 3 (WriteDoc.write_doc 1 3 [(10, 2); (9, 1)]%Z [(1, true); (2, false)]%Z (Some ("raum"%string, ["8, 5"; "x"]%string)) "s"%string "t"%string) with
  | Some im => WriteDoc.im_regs im = [(10, 2); (9, 1)]%Z /\
               WriteDoc.im_courses im = [(1, true, Some ("raum", "8, 5")); (2, false, Some ("raum", "x"))]%Z%string
  | None => False end.
Proof. vm_compute. split; reflexivity. Qed.
(* "only the selected track": read for another track, the document of a non-empty assignment is refused *)
Theorem C05_other_track_refused : forall eid tid tid' regs crs rooms sm ts,
  zstr tid' <> zstr tid -> regs <> [] -> NoDup (map fst regs) -> (forall r, In r regs -> WriteDocThms.in_u64 (fst r)) ->
  WriteDoc.import_of_doc tid' (WriteDoc.write_doc eid tid regs crs rooms sm ts) = None.
Proof. exact WriteDocThms.import_other_track. Qed.
(* comparing documents with json_eqb (CorrDoc) decides equality of JSON values *)
Theorem C05_document_compare : forall a b, WriteDoc.json_eqb a b = true <-> a = b.
Proof. exact WriteDocThms.json_eqb_spec. Qed.

(* END TO END: for EVERY export the reader accepts (any options) whose registration and course keys are canonical, EVERY assignment of the
   problem it builds that satisfies the hard constraints (C01 proves this of every reported one) and the whole document the writer makes of
   it: the import side reads the document (for the selected track), finds the event id of the export, and what it reads satisfies the
   declarative consistency statement ImportOK w.r.t. the problem -- only registrations and courses of the problem, each once; everybody
   placed in a course marked as taking place that the person chose or instructs; courses taking place within their limits; nobody in a
   cancelled course; every course of the problem mentioned *)
Theorem C05_end_to_end : forall data track ign_c ign_a ff of ps cs amb K a rooms sm ts,
  read_fields data track ign_c ign_a ff of = ROk (ps, cs, amb) -> CdeIds.keys_canonical data = true ->
  HardOK_K (map to_course cs) (map to_part ps) K a ->
  (forall c, K c = true -> c < nc (map to_course cs) /\ c_fixed (crs (map to_course cs) c) = false) ->
  match rooms with Some (_, l) => List.length l = List.length cs | None => True end ->
  exists im,
    WriteDoc.import_of_doc (ra_track amb) (WriteDoc.write_doc (ra_event amb) (ra_track amb) (write_regs a ps cs) (write_courses a cs) rooms sm ts) = Some im /\
    WriteDoc.im_event im = ra_event amb /\ WriteDoc.im_summary im = sm /\
    CdeImportSound.ImportOK ps cs (WriteDoc.im_regs im) (map CdeE2E.row_flag (WriteDoc.im_courses im)).
Proof. exact CdeE2E.export_to_import. Qed.

Check C05_file. Check C05. Check C05_ids_distinct. Check C05_export_file. (* non-vacuity of C05_end_to_end: a small export (one part, one track, two courses, two registrations choosing them), read with --track 1: the
   reader accepts it, its keys are canonical, the assignment [Some 0; Some 1] satisfies the hard constraints (checked by the executable
   hard_okb, proved sound), so the theorem applies and the import side reads the two pairs (5 -> 10), (6 -> 11) *)
Definition c05_export : json :=
  JObj [("kind", JStr "partial"); ("EVENT_SCHEMA_VERSION", JArr [JInt 16; JInt 0]); ("id", JInt 7); ("timestamp", JStr "2023-04-23T12:02:09+00:00");
        ("event", JObj [("parts", JObj [("1", JObj [("tracks", JObj [("1", JObj [("shortname", JStr "a"); ("num_choices", JInt 2)])])])])]);
        ("courses", JObj [("10", JObj [("nr", JStr "1"); ("shortname", JStr "K"); ("segments", JObj [("1", JBool true)]); ("fields", JObj [])]);
                          ("11", JObj [("nr", JStr "2"); ("shortname", JStr "L"); ("segments", JObj [("1", JBool true)]); ("fields", JObj [])])]);
        ("registrations", JObj [("5", JObj [("parts", JObj [("1", JObj [("status", JInt 2)])]);
                                            ("tracks", JObj [("1", JObj [("course_id", JNull); ("course_instructor", JNull); ("choices", JArr [JInt 10; JInt 11])])]);
                                            ("persona", JObj [("given_names", JStr "G"); ("family_name", JStr "F")])]);
                                ("6", JObj [("parts", JObj [("1", JObj [("status", JInt 2)])]);
                                            ("tracks", JObj [("1", JObj [("course_id", JNull); ("course_instructor", JNull); ("choices", JArr [JInt 11])])]);
                                            ("persona", JObj [("given_names", JStr "H"); ("family_name", JStr "F")])])])].
Example C05_end_to_end_applies :
  exists ps cs amb im,
    read_fields c05_export (Some 1%Z) false false None None = ROk (ps, cs, amb) /\ CdeIds.keys_canonical c05_export = true /\
    HardOK_K (map to_course cs) (map to_part ps) (fun _ => false) [Some 0; Some 1] /\
    WriteDoc.import_of_doc (ra_track amb) (WriteDoc.write_doc (ra_event amb) (ra_track amb) (write_regs [Some 0; Some 1] ps cs) (write_courses [Some 0; Some 1] cs) None "s" "t") = Some im /\
    WriteDoc.im_regs im = [(5, 10); (6, 11)]%Z /\ WriteDoc.im_event im = 7%Z.
Proof.
  destruct (read_fields c05_export (Some 1%Z) false false None None) as [[[ps cs] amb]|] eqn:E; [|vm_compute in E; discriminate].
  exists ps, cs, amb. vm_compute in E. inversion E; subst. eexists. split; [reflexivity|]. split; [vm_compute; reflexivity|]. split.
  - apply SpecProofs.hard_okb_sound. vm_compute. reflexivity.
  - split; [vm_compute; reflexivity|]. split; vm_compute; reflexivity.
Qed.

Check C05_document. Check C05_keys_parse_back. Check C05_check_sound. Check C05_other_track_refused. Check C05_document_compare. Check C05_end_to_end.
Print Assumptions C05.
Print Assumptions C05_file.
Print Assumptions C05_ids_distinct.
Print Assumptions C05_export_file.
Print Assumptions C05_document.
Print Assumptions C05_keys_parse_back.
Print Assumptions C05_check_sound.
Print Assumptions C05_other_track_refused.
Print Assumptions C05_document_compare.
Print Assumptions C05_end_to_end.
