(* Engine proof spike 2: as EngP.v plus a panicking node solver with the planned fix (C19) *)
From Coq Require Import List ZArith Lia Bool Arith Permutation.
From RecordUpdate Require Import RecordSet.
Import ListNotations RecordSetNotations.
Open Scope Z_scope.

Fixpoint upd {A} (l : list A) (i : nat) (v : A) : list A :=
  match l, i with [], _ => [] | _ :: t, O => v :: t | h :: t, S i' => h :: upd t i' v end.
Lemma upd_length {A} (l : list A) : forall i v, length (upd l i v) = length l.
Proof. induction l; intros [|i] v; simpl; auto. Qed.
Lemma nth_error_upd_eq {A} (l : list A) : forall i v, (i < length l)%nat -> nth_error (upd l i v) i = Some v.
Proof. induction l; intros [|i] v H; simpl in *; try lia; auto. apply IHl. lia. Qed.
Lemma nth_error_upd_neq {A} (l : list A) : forall i j v, i <> j -> nth_error (upd l i v) j = nth_error l j.
Proof. induction l; intros [|i] [|j] v H; simpl; auto; try congruence. Qed.

Section Engine.
Variables (node sol : Type).
Inductive nres := NoSol | Infeas (cs : list node) (s : Z) | Feas (x : sol) (s : Z) | PanicR.
Variable f : node -> nres.
Variable root : node.
Variables (smin smax : Z).

Inductive tstat := Ready | Looping | AfterItem | Solving (n : node) | Waiting | Done | Dead.

Record state := mkState {
  pend : list (node * Z); busy : nat; best : option sol; bscore : Z; lock : option nat; thr : list tstat;
  solved : list node; bounded : list node; generated : list node; failed : list node;
  n_ex : nat; n_no : nat; n_inf : nat; n_fea : nat; n_bnd : nat }.
#[export] Instance eta_state : Settable _ :=
  settable! mkState <pend; busy; best; bscore; lock; thr; solved; bounded; generated; failed; n_ex; n_no; n_inf; n_fea; n_bnd>.

Definition init (k : nat) : state :=
  mkState [(root, smax)] 0 None smin None (repeat Ready k) [] [] [root] [] 0 0 0 0 0.

Definition wake_all (l : list tstat) : list tstat := map (fun t => match t with Waiting => Ready | t => t end) l.
Definition T (st : state) (i : nat) : option tstat := nth_error (thr st) i.

(* the comparison of the repaired code (fix of defect D4): `best_result.is_none() || score > best_score` *)
Definition newbest (st : state) (s : Z) : bool := match best st with None => true | Some _ => bscore st <? s end.

Inductive Step : bool -> state -> state -> Prop :=   (* the flag is false for spurious wake-ups only *)
| SAcquire st i : lock st = None -> T st i = Some Ready ->
    Step true st (st <| lock := Some i |> <| thr := upd (thr st) i Looping |>)
| SPopSolve st i l1 n ps l2 : lock st = Some i -> T st i = Some Looping -> pend st = l1 ++ (n, ps) :: l2 -> (best st = None \/ bscore st < ps) ->
    Step true st (st <| pend := l1 ++ l2 |> <| busy := S (busy st) |> <| lock := None |> <| thr := upd (thr st) i (Solving n) |>)
| SPopBound st i l1 n ps l2 : lock st = Some i -> T st i = Some Looping -> pend st = l1 ++ (n, ps) :: l2 -> best st <> None -> ps <= bscore st ->
    Step true st (st <| pend := l1 ++ l2 |> <| n_bnd := S (n_bnd st) |> <| bounded := n :: bounded st |> <| thr := upd (thr st) i AfterItem |>)
| SExitYes st i : lock st = Some i -> T st i = Some AfterItem -> pend st = [] -> busy st = 0%nat ->
    Step true st (st <| lock := None |> <| thr := upd (wake_all (thr st)) i Done |>)
| SExitNo st i : lock st = Some i -> T st i = Some AfterItem -> (pend st <> [] \/ busy st <> 0%nat) ->
    Step true st (st <| thr := upd (thr st) i Looping |>)
| SEmptyWait st i : lock st = Some i -> T st i = Some Looping -> pend st = [] -> (0 < busy st)%nat ->
    Step true st (st <| lock := None |> <| thr := upd (thr st) i Waiting |>)
| SEmptyDone st i : lock st = Some i -> T st i = Some Looping -> pend st = [] -> busy st = 0%nat ->
    Step true st (st <| lock := None |> <| thr := upd (thr st) i Done |>)
| SFinishNo st i n : lock st = None -> T st i = Some (Solving n) -> f n = NoSol ->
    Step true st (st <| busy := pred (busy st) |> <| lock := Some i |> <| thr := upd (thr st) i AfterItem |>
                <| solved := n :: solved st |> <| n_ex := S (n_ex st) |> <| n_no := S (n_no st) |>)
| SFinishFeas st i n x s : lock st = None -> T st i = Some (Solving n) -> f n = Feas x s ->
    Step true st ((if newbest st s then st <| best := Some x |> <| bscore := s |> else st)
                <| busy := pred (busy st) |> <| lock := Some i |> <| thr := upd (thr st) i AfterItem |>
                <| solved := n :: solved st |> <| n_ex := S (n_ex st) |> <| n_fea := S (n_fea st) |>)
| SFinishInf st i n cs s : lock st = None -> T st i = Some (Solving n) -> f n = Infeas cs s ->
    Step true st (st <| pend := pend st ++ map (fun c => (c, s)) cs |> <| busy := pred (busy st) |> <| lock := Some i |>
                <| thr := upd (thr st) i AfterItem |> <| solved := n :: solved st |> <| generated := generated st ++ cs |>
                <| n_ex := S (n_ex st) |> <| n_inf := S (n_inf st) |>)
| SFinishPanic st i n : lock st = None -> T st i = Some (Solving n) -> f n = PanicR ->
    (* the planned fix: the dying worker re-locks, books busy - 1, notifies all, unlocks, and unwinds *)
    Step true st (st <| busy := pred (busy st) |> <| thr := upd (wake_all (thr st)) i Dead |> <| failed := n :: failed st |>)
| SSpurious st i : T st i = Some Waiting ->
    Step false st (st <| thr := upd (thr st) i Ready |>).

Inductive Reach (k : nat) : state -> Prop :=
| R0 : Reach k (init k)
| RS b st st' : Reach k st -> Step b st st' -> Reach k st'.

(* ---------- counting helpers ---------- *)
Definition isSolving (t : tstat) : bool := match t with Solving _ => true | _ => false end.
Definition isWaiting (t : tstat) : bool := match t with Waiting => true | _ => false end.
Definition isHolder (t : tstat) : bool := match t with Looping | AfterItem => true | _ => false end.
Definition isDone (t : tstat) : bool := match t with Done => true | _ => false end.
Definition isDead (t : tstat) : bool := match t with Dead => true | _ => false end.
Definition cnt (p : tstat -> bool) (l : list tstat) : nat := length (filter p l).

Lemma cnt_upd p : forall l i t v, nth_error l i = Some t ->
  (cnt p (upd l i v) + (if p t then 1 else 0) = cnt p l + (if p v then 1 else 0))%nat.
Proof.
  unfold cnt. induction l as [|a l IH]; intros [|i] t v H; simpl in *; try discriminate.
  - inversion H; subst. destruct (p t), (p v); simpl; lia.
  - specialize (IH i t v H). destruct (p a); simpl; lia.
Qed.
Lemma cnt_wake_all_waiting l : cnt isWaiting (wake_all l) = 0%nat.
Proof. unfold cnt, wake_all. induction l as [|a l IH]; simpl; auto. destruct a; simpl; auto. Qed.
Lemma cnt_wake_all_solving l : cnt isSolving (wake_all l) = cnt isSolving l.
Proof. unfold cnt, wake_all. induction l as [|a l IH]; simpl; auto. destruct a; simpl; auto. Qed.
Lemma cnt_wake_all_holder l : cnt isHolder (wake_all l) = cnt isHolder l.
Proof. unfold cnt, wake_all. induction l as [|a l IH]; simpl; auto. destruct a; simpl; auto. Qed.
Lemma cnt_wake_all_done l : cnt isDone (wake_all l) = cnt isDone l.
Proof. unfold cnt, wake_all. induction l as [|a l IH]; simpl; auto. destruct a; simpl; auto. Qed.
Lemma cnt_wake_all_dead l : cnt isDead (wake_all l) = cnt isDead l.
Proof. unfold cnt, wake_all. induction l as [|a l IH]; simpl; auto. destruct a; simpl; auto. Qed.
Lemma nth_error_wake_all l i : nth_error (wake_all l) i = option_map (fun t => match t with Waiting => Ready | t => t end) (nth_error l i).
Proof. unfold wake_all. apply nth_error_map. Qed.
Lemma nth_error_lt {A} (l : list A) i t : nth_error l i = Some t -> (i < length l)%nat.
Proof. intros H. apply nth_error_Some. congruence. Qed.

(* ---------- the C04 invariant ---------- *)
Definition solvingL (l : list tstat) : list node := flat_map (fun t => match t with Solving n => [n] | _ => [] end) l.

Lemma solvingL_wake_all l : solvingL (wake_all l) = solvingL l.
Proof. unfold solvingL, wake_all. induction l as [|a l IH]; simpl; auto. destruct a; simpl; rewrite IH; auto. Qed.
Lemma solvingL_upd_in : forall l i t n, nth_error l i = Some t -> isSolving t = false ->
  Permutation (solvingL (upd l i (Solving n))) (n :: solvingL l).
Proof.
  unfold solvingL. induction l as [|a l IH]; intros [|i] t n H Ht; simpl in *; try discriminate.
  - inversion H; subst. destruct t; simpl in *; try discriminate; apply Permutation_refl.
  - specialize (IH i t n H Ht). destruct a; simpl; auto.
    eapply Permutation_trans; [apply perm_skip, IH|apply perm_swap].
Qed.
Lemma solvingL_upd_out : forall l i n v, nth_error l i = Some (Solving n) -> isSolving v = false ->
  Permutation (solvingL l) (n :: solvingL (upd l i v)).
Proof.
  unfold solvingL. induction l as [|a l IH]; intros [|i] n v H Hv; simpl in *; try discriminate.
  - inversion H; subst. destruct v; simpl in *; try discriminate; apply Permutation_refl.
  - specialize (IH i n v H Hv). destruct a; simpl; auto.
    eapply Permutation_trans; [apply perm_skip, IH|apply perm_swap].
Qed.
Lemma solvingL_upd_same : forall l i t v, nth_error l i = Some t -> isSolving t = false -> isSolving v = false ->
  solvingL (upd l i v) = solvingL l.
Proof.
  unfold solvingL. induction l as [|a l IH]; intros [|i] t v H Ht Hv; simpl in *; try discriminate.
  - inversion H; subst. destruct t, v; simpl in *; try discriminate; reflexivity.
  - rewrite (IH i t v H Ht Hv). reflexivity.
Qed.

Lemma perm_front {A} (P R : list A) n : Permutation (P ++ n :: R) (n :: P ++ R).
Proof. apply Permutation_sym, Permutation_middle. Qed.
Lemma perm_A {A} (P S So Bo : list A) n : Permutation (P ++ (n :: S) ++ So ++ Bo) (n :: P ++ S ++ So ++ Bo).
Proof. cbn [app]. apply perm_front. Qed.
Lemma perm_B {A} (P S So Bo : list A) n : Permutation (P ++ S ++ (n :: So) ++ Bo) (n :: P ++ S ++ So ++ Bo).
Proof. cbn [app]. rewrite (app_assoc P S (n :: So ++ Bo)). eapply Permutation_trans; [apply perm_front|]. rewrite <- app_assoc. apply Permutation_refl. Qed.
Lemma perm_C {A} (P S So Bo : list A) n : Permutation (P ++ S ++ So ++ n :: Bo) (n :: P ++ S ++ So ++ Bo).
Proof.
  rewrite (app_assoc S So (n :: Bo)), (app_assoc P (S ++ So) (n :: Bo)). eapply Permutation_trans; [apply perm_front|].
  rewrite <- !app_assoc. apply Permutation_refl.
Qed.
Lemma perm_pop {A B} (l1 l2 : list (A * B)) n ps (R : list A) :
  Permutation (map fst (l1 ++ (n, ps) :: l2) ++ R) (n :: map fst (l1 ++ l2) ++ R).
Proof. rewrite !map_app. cbn [map fst]. rewrite <- !app_assoc. cbn [app]. apply perm_front. Qed.

Lemma solvingL_repeat_ready k : solvingL (repeat Ready k) = [].
Proof. unfold solvingL. induction k; simpl; auto. Qed.
Arguments cnt : simpl never. Arguments solvingL : simpl never. Arguments wake_all : simpl never. Arguments upd : simpl never.

Record Inv (st : state) : Prop := {
  i_busy : busy st = cnt isSolving (thr st);
  i_wait : lock st = None -> (0 < cnt isWaiting (thr st))%nat -> (0 < busy st)%nat;
  i_lock_none : lock st = None -> cnt isHolder (thr st) = 0%nat;
  i_lock_some : forall i, lock st = Some i -> exists t, T st i = Some t /\ isHolder t = true /\ cnt isHolder (thr st) = 1%nat /\
                  (t = Looping -> busy st = 0%nat -> pend st <> [] \/ cnt isWaiting (thr st) = 0%nat);
  i_done : (0 < cnt isDone (thr st))%nat -> pend st = [] /\ busy st = 0%nat;
  i_stats : n_ex st = length (solved st) /\ n_bnd st = length (bounded st) /\ (n_ex st = n_no st + n_inf st + n_fea st)%nat;
  i_acc : Permutation (generated st) (failed st ++ map fst (pend st) ++ solvingL (thr st) ++ solved st ++ bounded st);
  i_dead : cnt isDead (thr st) = length (failed st)
}.

Ltac cu H v :=
  pose proof (cnt_upd isSolving _ _ _ v H); pose proof (cnt_upd isWaiting _ _ _ v H);
  pose proof (cnt_upd isHolder _ _ _ v H); pose proof (cnt_upd isDone _ _ _ v H); pose proof (cnt_upd isDead _ _ _ v H).

Lemma inv_init k : Inv (init k).
Proof.
  assert (H : forall p, p Ready = false -> cnt p (repeat Ready k) = 0%nat).
  { intros p Hp. unfold cnt. induction k; simpl; auto. rewrite Hp. auto. }
  constructor; cbn.
  - rewrite H by reflexivity. reflexivity.
  - intros _. rewrite H by reflexivity. lia.
  - intros _. apply H. reflexivity.
  - intros i Hi. discriminate.
  - rewrite H by reflexivity. lia.
  - repeat split; reflexivity.
  - rewrite solvingL_repeat_ready. apply Permutation_refl.
  - rewrite H by reflexivity. reflexivity.
Qed.

Lemma inv_step b st st' : Inv st -> Step b st st' -> Inv st'.
Proof.
  intros I S. destruct I as [Ib Iw Iln Ils Id Ist Ia Idd].
  destruct S; unfold T in *.
  - (* Acquire *)
    cu H0 Looping. cbn in *. constructor; unfold T; cbn; try lia; try discriminate; auto; try solve [destruct Ist as (?&?&?); repeat split; cbn; lia].
    + intros j Hj. inversion Hj; subst j. exists Looping. rewrite nth_error_upd_eq by (eapply nth_error_lt; eauto).
      specialize (Iln H). repeat split; auto; try lia. intros _ Hb. right.
      destruct (Nat.eq_dec (cnt isWaiting (thr st)) 0); [lia|]. specialize (Iw H ltac:(lia)). lia.
    + intros Hd. apply Id. lia.
    + rewrite (solvingL_upd_same _ _ _ _ H0) by reflexivity. exact Ia.
  - (* PopSolve *)
    cu H0 (Solving n). cbn in *. destruct (Ils i H) as (t & Ht & Hh & Hc & _). rewrite H0 in Ht. inversion Ht; subst t.
    constructor; unfold T; cbn; try lia; try discriminate; auto; try solve [destruct Ist as (?&?&?); repeat split; cbn; lia].
    + intros Hd. exfalso. assert (Hd' : (0 < cnt isDone (thr st))%nat) by lia. destruct (Id Hd') as [Hp _]. rewrite Hp in H1. destruct l1; discriminate.
    + rewrite H1 in Ia. eapply Permutation_trans; [exact Ia|]. apply Permutation_app_head. eapply Permutation_trans; [apply perm_pop|].
      apply Permutation_sym. eapply Permutation_trans; [|apply perm_A].
      apply Permutation_app_head. apply Permutation_app_tail. apply (solvingL_upd_in _ _ _ _ H0). reflexivity.
  - (* PopBound *)
    cu H0 AfterItem. cbn in *. destruct (Ils i H) as (t & Ht & Hh & Hc & _). rewrite H0 in Ht. inversion Ht; subst t.
    constructor; unfold T; cbn; try lia; try discriminate; auto; try solve [destruct Ist as (?&?&?); repeat split; cbn; lia].
    + intros Hl. rewrite H in Hl. discriminate.
    + intros Hl. rewrite H in Hl. discriminate.
    + intros j Hj. rewrite H in Hj. inversion Hj; subst j. exists AfterItem. rewrite nth_error_upd_eq by (eapply nth_error_lt; eauto).
      repeat split; auto; try lia. discriminate.
    + intros Hd. exfalso. assert (Hd' : (0 < cnt isDone (thr st))%nat) by lia. destruct (Id Hd') as [Hp _]. rewrite Hp in H1. destruct l1; discriminate.
    + rewrite H1 in Ia. eapply Permutation_trans; [exact Ia|]. apply Permutation_app_head. eapply Permutation_trans; [apply perm_pop|].
      rewrite (solvingL_upd_same _ _ _ _ H0) by reflexivity. apply Permutation_sym. apply perm_C.
  - (* ExitYes *)
    assert (Hw : nth_error (wake_all (thr st)) i = Some AfterItem) by (rewrite nth_error_wake_all, H0; reflexivity).
    cu Hw Done. cbn in *. rewrite cnt_wake_all_solving, cnt_wake_all_holder, cnt_wake_all_done, cnt_wake_all_waiting, cnt_wake_all_dead in *.
    destruct (Ils i H) as (t & Ht & Hh & Hc & _).
    constructor; unfold T; cbn; try lia; try discriminate; auto; try solve [destruct Ist as (?&?&?); repeat split; cbn; lia].
    + rewrite (solvingL_upd_same _ _ _ _ Hw), solvingL_wake_all by reflexivity. exact Ia.
  - (* ExitNo *)
    cu H0 Looping. cbn in *. destruct (Ils i H) as (t & Ht & Hh & Hc & _). rewrite H0 in Ht. inversion Ht; subst t.
    constructor; unfold T; cbn; try lia; try discriminate; auto; try solve [destruct Ist as (?&?&?); repeat split; cbn; lia].
    + intros Hl. rewrite H in Hl. discriminate.
    + intros Hl. rewrite H in Hl. discriminate.
    + intros j Hj. rewrite H in Hj. inversion Hj; subst j. exists Looping. rewrite nth_error_upd_eq by (eapply nth_error_lt; eauto).
      repeat split; auto; try lia. intros _ Hb. left. destruct H1 as [H1|H1]; [exact H1|lia].
    + intros Hd. apply Id. lia.
    + rewrite (solvingL_upd_same _ _ _ _ H0) by reflexivity. exact Ia.
  - (* EmptyWait *)
    cu H0 Waiting. cbn in *. destruct (Ils i H) as (t & Ht & Hh & Hc & _). rewrite H0 in Ht. inversion Ht; subst t.
    constructor; unfold T; cbn; try lia; try discriminate; auto; try solve [destruct Ist as (?&?&?); repeat split; cbn; lia].
    + rewrite (solvingL_upd_same _ _ _ _ H0) by reflexivity. exact Ia.
  - (* EmptyDone *)
    cu H0 Done. cbn in *. destruct (Ils i H) as (t & Ht & Hh & Hc & Hl). rewrite H0 in Ht. inversion Ht; subst t.
    constructor; unfold T; cbn; try lia; try discriminate; auto; try solve [destruct Ist as (?&?&?); repeat split; cbn; lia].
    + intros _ Hwt. exfalso. destruct (Hl eq_refl H2) as [Hp|Hz]; [congruence|lia].
    + rewrite (solvingL_upd_same _ _ _ _ H0) by reflexivity. exact Ia.
  - (* FinishNo *)
    cu H0 AfterItem. cbn in *. specialize (Iln H).
    constructor; unfold T; cbn; try lia; try discriminate; auto; try solve [destruct Ist as (?&?&?); repeat split; cbn; lia].
    + intros j Hj. inversion Hj; subst j. exists AfterItem. rewrite nth_error_upd_eq by (eapply nth_error_lt; eauto).
      repeat split; auto; try lia. discriminate.
    + eapply Permutation_trans; [exact Ia|]. apply Permutation_app_head. apply Permutation_sym. eapply Permutation_trans; [apply perm_B|].
      apply Permutation_sym. eapply Permutation_trans; [|apply perm_A].
      apply Permutation_app_head. apply Permutation_app_tail. apply (solvingL_upd_out _ _ _ _ H0). reflexivity.
  - (* FinishFeas *)
    cu H0 AfterItem. specialize (Iln H).
    assert (Hsame : forall st0 : state, (if newbest st s then st <| best := Some x |> <| bscore := s |> else st) = st0 -> 
              pend st0 = pend st /\ busy st0 = busy st /\ thr st0 = thr st /\ solved st0 = solved st /\ bounded st0 = bounded st /\
              generated st0 = generated st /\ failed st0 = failed st /\ n_ex st0 = n_ex st /\ n_no st0 = n_no st /\ n_inf st0 = n_inf st /\ n_fea st0 = n_fea st /\ n_bnd st0 = n_bnd st).
    { intros st0 <-. destruct (newbest st s); cbn; repeat split; reflexivity. }
    destruct (Hsame _ eq_refl) as (E1&E2&E3&E4&E5&E6&E12&E7&E8&E9&E10&E11).
    constructor; unfold T; cbn; rewrite ?E1, ?E2, ?E3, ?E4, ?E5, ?E6, ?E7, ?E8, ?E9, ?E10, ?E11, ?E12; cbn in *; try lia; try discriminate; auto; try solve [destruct Ist as (?&?&?); repeat split; cbn; lia].
    + intros j Hj. inversion Hj; subst j. exists AfterItem. rewrite nth_error_upd_eq by (eapply nth_error_lt; eauto).
      repeat split; auto; try lia. discriminate.
    + eapply Permutation_trans; [exact Ia|]. apply Permutation_app_head. apply Permutation_sym. eapply Permutation_trans; [apply perm_B|].
      apply Permutation_sym. eapply Permutation_trans; [|apply perm_A].
      apply Permutation_app_head. apply Permutation_app_tail. apply (solvingL_upd_out _ _ _ _ H0). reflexivity.
  - (* FinishInf *)
    cu H0 AfterItem. cbn in *. specialize (Iln H).
    constructor; unfold T; cbn; try lia; try discriminate; auto; try solve [destruct Ist as (?&?&?); repeat split; cbn; lia].
    + intros j Hj. inversion Hj; subst j. exists AfterItem. rewrite nth_error_upd_eq by (eapply nth_error_lt; eauto).
      repeat split; auto; try lia. discriminate.
    + rewrite map_app, map_map. cbn [fst]. rewrite map_id.
      eapply Permutation_trans; [apply Permutation_app_tail; exact Ia|]. rewrite <- app_assoc. apply Permutation_app_head.
      (* (P ++ S ++ So ++ Bo) ++ cs  ~  (P ++ cs) ++ S' ++ (n :: So) ++ Bo  with S ~ n :: S' *)
      set (P := map fst (pend st)). set (S' := solvingL (upd (thr st) i AfterItem)).
      assert (HS : Permutation (solvingL (thr st)) (n :: S')) by (apply (solvingL_upd_out _ _ _ _ H0); reflexivity).
      set (R := S' ++ solved st ++ bounded st).
      apply Permutation_trans with (n :: (P ++ R) ++ cs).
      { change (n :: (P ++ R) ++ cs) with ((n :: P ++ R) ++ cs). apply Permutation_app_tail.
        eapply Permutation_trans; [apply Permutation_app_head, Permutation_app_tail, HS|]. apply (perm_A P S' (solved st) (bounded st) n). }
      apply Permutation_sym. eapply Permutation_trans; [apply (perm_B (P ++ cs) S' (solved st) (bounded st) n)|].
      apply perm_skip. fold R. rewrite <- !app_assoc. apply Permutation_app_head. apply Permutation_app_comm.
  - (* FinishPanic *)
    assert (Hw : nth_error (wake_all (thr st)) i = Some (Solving n)) by (rewrite nth_error_wake_all, H0; reflexivity).
    cu Hw Dead. cbn in *. rewrite cnt_wake_all_solving, cnt_wake_all_holder, cnt_wake_all_done, cnt_wake_all_waiting, cnt_wake_all_dead in *.
    specialize (Iln H).
    constructor; unfold T; cbn; try lia; try discriminate; auto; try solve [destruct Ist as (?&?&?); repeat split; cbn; lia].
    + intros j Hj. rewrite H in Hj. discriminate.
    + set (S' := solvingL (upd (wake_all (thr st)) i Dead)).
      assert (HS : Permutation (solvingL (thr st)) (n :: S')).
      { unfold S'. rewrite <- (solvingL_wake_all (thr st)). apply (solvingL_upd_out _ _ _ _ Hw). reflexivity. }
      eapply Permutation_trans; [exact Ia|].
      eapply Permutation_trans; [apply Permutation_app_head, Permutation_app_head, Permutation_app_tail, HS|].
      (* failed ++ P ++ (n :: S') ++ R  ~  n :: failed ++ P ++ S' ++ R *)
      rewrite (app_assoc (failed st)). cbn [app]. eapply Permutation_trans; [apply perm_front|]. rewrite <- app_assoc. apply Permutation_refl.
  - (* Spurious *)
    cu H Ready. cbn in *. constructor; unfold T; cbn; try lia; try discriminate; auto; try solve [destruct Ist as (?&?&?); repeat split; cbn; lia].
    + intros Hl Hw. apply (Iw Hl). lia.
    + intros Hl. specialize (Iln Hl). lia.
    + intros j Hj. destruct (Ils j Hj) as (t & Ht & Hh & Hc & Hl).
      assert (i <> j). { intros ->. unfold T in Ht. rewrite H in Ht. inversion Ht; subst. discriminate. }
      exists t. rewrite nth_error_upd_neq by auto. repeat split; auto; try lia.
      intros Et Hb. destruct (Hl Et Hb) as [Hp|Hz]; [left; exact Hp|right; lia].
    + intros Hd. apply Id. lia.
    + rewrite (solvingL_upd_same _ _ _ _ H) by reflexivity. exact Ia.
Qed.

Lemma reach_inv k st : Reach k st -> Inv st.
Proof. induction 1; [apply inv_init|eapply inv_step; eauto]. Qed.

(* ---------- no deadlock ---------- *)
Definition isReady (t : tstat) : bool := match t with Ready => true | _ => false end.
Lemma cnt_pos_ex p : forall l, (0 < cnt p l)%nat -> exists i t, nth_error l i = Some t /\ p t = true.
Proof.
  unfold cnt. induction l as [|a l IH]; simpl; intros H; [lia|].
  destruct (p a) eqn:E; [exists 0%nat, a; auto|]. destruct (IH H) as (i & t & Hi & Ht). exists (S i), t. auto.
Qed.
Lemma cnt_zero_all p : forall l i t, cnt p l = 0%nat -> nth_error l i = Some t -> p t = false.
Proof.
  unfold cnt. induction l as [|a l IH]; intros [|i] t H Hn; simpl in *; try discriminate.
  - inversion Hn; subst. destruct (p t); simpl in H; [lia|reflexivity].
  - destruct (p a); simpl in H; [lia|]. eapply IH; eauto.
Qed.
Lemma cnt_ex_pos p : forall l i t, nth_error l i = Some t -> p t = true -> (0 < cnt p l)%nat.
Proof.
  intros l i t Hn Hp. destruct (Nat.eq_dec (cnt p l) 0) as [E|E]; [|lia].
  rewrite (cnt_zero_all p l i t E Hn) in Hp. discriminate.
Qed.

Theorem no_deadlock k st : Reach k st -> (exists i t, T st i = Some t /\ t <> Done /\ t <> Dead) -> exists st', Step true st st'.
Proof.
  intros R (i0 & t0 & Ht0 & Hnd & Hndd). pose proof (reach_inv k st R) as I. destruct I as [Ib Iw Iln Ils Id Ist Ia Idd].
  destruct (lock st) as [i|] eqn:El.
  - destruct (Ils i eq_refl) as (t & Ht & Hh & _). destruct t; try discriminate.
    + (* Looping *)
      destruct (pend st) as [|[n ps] l] eqn:Ep.
      * destruct (busy st) eqn:Eb; [eexists; eapply SEmptyDone; eauto|eexists; eapply SEmptyWait; eauto; lia].
      * destruct (best st) as [x0|] eqn:Ebst.
        -- destruct (Z_lt_le_dec (bscore st) ps).
           ++ eexists. eapply (SPopSolve st i [] n ps l); eauto.
           ++ eexists. eapply (SPopBound st i [] n ps l); eauto. rewrite Ebst. discriminate.
        -- eexists. eapply (SPopSolve st i [] n ps l); eauto.
    + (* AfterItem *)
      destruct (pend st) as [|p l] eqn:Ep.
      * destruct (busy st) eqn:Eb; [eexists; eapply SExitYes; eauto|eexists; eapply SExitNo; eauto; right; lia].
      * eexists. eapply SExitNo; eauto. left. rewrite Ep. discriminate.
  - destruct (Nat.eq_dec (cnt isReady (thr st)) 0) as [Er|Er].
    2:{ destruct (cnt_pos_ex isReady (thr st) ltac:(lia)) as (i & t & Hi & Ht). destruct t; try discriminate.
        eexists. eapply SAcquire; eauto. }
    destruct (Nat.eq_dec (cnt isSolving (thr st)) 0) as [Es|Es].
    2:{ destruct (cnt_pos_ex isSolving (thr st) ltac:(lia)) as (i & t & Hi & Ht). destruct t; try discriminate.
        destruct (f n) eqn:Ef; eexists; [eapply SFinishNo|eapply SFinishInf|eapply SFinishFeas|eapply SFinishPanic]; eauto. }
    exfalso. specialize (Iln eq_refl).
    assert (Hw : t0 = Waiting).
    { pose proof (cnt_zero_all isReady _ _ _ Er Ht0). pose proof (cnt_zero_all isSolving _ _ _ Es Ht0).
      pose proof (cnt_zero_all isHolder _ _ _ Iln Ht0). destruct t0; simpl in *; try discriminate; congruence. }
    subst t0. pose proof (cnt_ex_pos isWaiting _ _ _ Ht0 eq_refl) as Hpos. specialize (Iw eq_refl Hpos). lia.
Qed.

(* ---------- final accounting ---------- *)
Lemma solvingL_nil l : cnt isSolving l = 0%nat -> solvingL l = [].
Proof.
  unfold cnt, solvingL. induction l as [|a l IH]; simpl; auto. destruct a; simpl; auto; try lia.
Qed.

Lemma thr_length k st : Reach k st -> length (thr st) = k.
Proof.
  intros R. induction R; [apply repeat_length|]. destruct H; cbn; rewrite ?upd_length; auto.
  all: try (unfold wake_all; rewrite map_length; auto).
  all: try (destruct (newbest st s); cbn; rewrite ?upd_length; auto).
Qed.

Theorem final_accounting k st : Reach k st -> (forall i t, T st i = Some t -> t = Done \/ t = Dead) ->
  (exists i, T st i = Some Done) ->
  pend st = [] /\ busy st = 0%nat /\ Permutation (generated st) (failed st ++ solved st ++ bounded st) /\
  n_ex st = length (solved st) /\ n_bnd st = length (bounded st) /\ (n_ex st = n_no st + n_inf st + n_fea st)%nat.
Proof.
  intros R Hall (i & Hi). pose proof (reach_inv k st R) as I. destruct I as [Ib Iw Iln Ils Id Ist Ia Idd].
  assert (Hd : (0 < cnt isDone (thr st))%nat) by (apply (cnt_ex_pos isDone _ i Done Hi); reflexivity).
  destruct (Id Hd) as [Hp Hb]. split; [exact Hp|]. split; [exact Hb|]. split; [|exact Ist].
  rewrite Hp in Ia. rewrite (solvingL_nil (thr st)) in Ia by lia. exact Ia.
Qed.

(* C19: when all workers have stopped, a worker died iff a node solver failed; main's join then reports it *)
Theorem failure_reported k st : Reach k st -> ((exists i, T st i = Some Dead) <-> failed st <> []).
Proof.
  intros R. pose proof (reach_inv k st R) as I. destruct I as [_ _ _ _ _ _ _ Idd]. split.
  - intros (i & Hi). pose proof (cnt_ex_pos isDead _ i Dead Hi eq_refl). destruct (failed st); [simpl in *; lia|discriminate].
  - intros Hf. destruct (failed st) as [|n l] eqn:E; [congruence|]. simpl in Idd.
    destruct (cnt_pos_ex isDead (thr st) ltac:(lia)) as (i & t & Hi & Ht). destruct t; try discriminate. exists i. exact Hi.
Qed.

(* every generated node satisfies any predicate that holds of the root and is inherited by the children of solved nodes *)
Section NodeInv.
Variable P : node -> Prop.
Hypothesis P_root : P root.
Hypothesis P_child : forall n cs s c, P n -> f n = Infeas cs s -> In c cs -> P c.
Definition GenInv (st : state) : Prop :=
  Forall P (generated st) /\ (forall n ps, In (n, ps) (pend st) -> P n) /\ (forall i n, T st i = Some (Solving n) -> P n) /\ Forall P (solved st).
Lemma gen_step b st st' : GenInv st -> Step b st st' -> GenInv st'.
Proof.
  intros (G & Gp & Gs & Gd) S. destruct S; unfold GenInv, T in *; cbn.
  - repeat split; auto. intros j n Hj. destruct (Nat.eq_dec j i) as [->|Hne].
    + rewrite nth_error_upd_eq in Hj by (eapply nth_error_lt; eauto). discriminate.
    + rewrite nth_error_upd_neq in Hj by auto. eauto.
  - repeat split; auto.
    + intros n' ps' Hin. apply (Gp n' ps'). rewrite H1. apply in_app_or in Hin. apply in_or_app. destruct Hin; [left|right; right]; assumption.
    + intros j n' Hj. destruct (Nat.eq_dec j i) as [->|Hne].
      * rewrite nth_error_upd_eq in Hj by (eapply nth_error_lt; eauto). inversion Hj; subst. apply (Gp n' ps). rewrite H1. apply in_or_app. right. left. reflexivity.
      * rewrite nth_error_upd_neq in Hj by auto. eauto.
  - repeat split; auto.
    + intros n' ps' Hin. apply (Gp n' ps'). rewrite H1. apply in_app_or in Hin. apply in_or_app. destruct Hin; [left|right; right]; assumption.
    + intros j n' Hj. destruct (Nat.eq_dec j i) as [->|Hne].
      * rewrite nth_error_upd_eq in Hj by (eapply nth_error_lt; eauto). discriminate.
      * rewrite nth_error_upd_neq in Hj by auto. eauto.
  - repeat split; auto. intros j n' Hj. destruct (Nat.eq_dec j i) as [->|Hne].
    + rewrite nth_error_upd_eq in Hj by (unfold wake_all; rewrite map_length; eapply nth_error_lt; eauto). discriminate.
    + rewrite nth_error_upd_neq in Hj by auto. rewrite nth_error_wake_all in Hj. destruct (nth_error (thr st) j) as [t|] eqn:E; [|discriminate].
      destruct t; try discriminate. cbn in Hj. inversion Hj; subst. eauto.
  - repeat split; auto. intros j n Hj. destruct (Nat.eq_dec j i) as [->|Hne].
    + rewrite nth_error_upd_eq in Hj by (eapply nth_error_lt; eauto). discriminate.
    + rewrite nth_error_upd_neq in Hj by auto. eauto.
  - repeat split; auto. intros j n Hj. destruct (Nat.eq_dec j i) as [->|Hne].
    + rewrite nth_error_upd_eq in Hj by (eapply nth_error_lt; eauto). discriminate.
    + rewrite nth_error_upd_neq in Hj by auto. eauto.
  - repeat split; auto. intros j n Hj. destruct (Nat.eq_dec j i) as [->|Hne].
    + rewrite nth_error_upd_eq in Hj by (eapply nth_error_lt; eauto). discriminate.
    + rewrite nth_error_upd_neq in Hj by auto. eauto.
  - repeat split; auto.
    + intros j n' Hj. destruct (Nat.eq_dec j i) as [->|Hne].
      * rewrite nth_error_upd_eq in Hj by (eapply nth_error_lt; eauto). discriminate.
      * rewrite nth_error_upd_neq in Hj by auto. eauto.
    + constructor; eauto.
  - assert (E : forall st0, GenInv st0 -> True) by auto.
    assert (Hst : forall (st0 : state), generated st0 = generated st -> pend st0 = pend st -> thr st0 = thr st -> solved st0 = solved st ->
        Forall P (generated st0) /\ (forall n0 ps, In (n0, ps) (pend st0) -> P n0) /\
        (forall j n0, nth_error (upd (thr st0) i AfterItem) j = Some (Solving n0) -> P n0) /\ Forall P (n :: solved st0)).
    { intros st0 E1 E2 E3 E4. rewrite E1, E2, E3, E4. repeat split; auto.
      - intros j n' Hj. destruct (Nat.eq_dec j i) as [->|Hne].
        + rewrite nth_error_upd_eq in Hj by (eapply nth_error_lt; eauto). discriminate.
        + rewrite nth_error_upd_neq in Hj by auto. eauto.
      - constructor; eauto. }
    destruct (newbest st s); cbn; apply Hst; reflexivity.
  - assert (Pn : P n) by eauto.
    assert (Pcs : Forall P cs) by (apply Forall_forall; intros c Hc; eapply P_child; eauto).
    repeat split.
    + apply Forall_app. split; assumption.
    + intros n' ps' Hin. apply in_app_or in Hin. destruct Hin as [Hin|Hin]; [eauto|].
      apply in_map_iff in Hin. destruct Hin as (c & Hc & Hin). inversion Hc; subst. rewrite Forall_forall in Pcs. auto.
    + intros j n' Hj. destruct (Nat.eq_dec j i) as [->|Hne].
      * rewrite nth_error_upd_eq in Hj by (eapply nth_error_lt; eauto). discriminate.
      * rewrite nth_error_upd_neq in Hj by auto. eauto.
    + constructor; auto.
  - repeat split; auto. intros j n' Hj. destruct (Nat.eq_dec j i) as [->|Hne].
    + rewrite nth_error_upd_eq in Hj by (unfold wake_all; rewrite map_length; eapply nth_error_lt; eauto). discriminate.
    + rewrite nth_error_upd_neq in Hj by auto. rewrite nth_error_wake_all in Hj. destruct (nth_error (thr st) j) as [t|] eqn:E; [|discriminate].
      destruct t; try discriminate. cbn in Hj. inversion Hj; subst. eauto.
  - repeat split; auto. intros j n Hj. destruct (Nat.eq_dec j i) as [->|Hne].
    + rewrite nth_error_upd_eq in Hj by (eapply nth_error_lt; eauto). discriminate.
    + rewrite nth_error_upd_neq in Hj by auto. eauto.
Qed.
Theorem reach_gen k st : Reach k st -> GenInv st.
Proof.
  induction 1; [|eapply gen_step; eauto]. unfold GenInv, T; cbn. repeat split; auto.
  - intros n ps [E|[]]. inversion E; subst. exact P_root.
  - intros i n Hi. exfalso. revert i Hi. induction k as [|k' IH]; intros [|i] Hi; cbn in Hi; try discriminate. eauto.
Qed.
End NodeInv.

(* ---------- C09: covering invariant ---------- *)
Section Covering.
Variables (target : Type) (value : target -> Z) (covers : node -> target -> Prop).
(* P: any property of subproblems that holds of the root and is inherited by the children of solved nodes (e.g. well-formedness);
   the covering hypotheses are only needed for such nodes *)
Variable P : node -> Prop.
Hypothesis P_root : P root.
Hypothesis P_child : forall n cs s c, P n -> f n = Infeas cs s -> In c cs -> P c.
Hypothesis cov_root : forall t, covers root t.
Hypothesis cov_nosol : forall n t, P n -> f n = NoSol -> ~ covers n t.
Hypothesis cov_feas : forall n x s t, P n -> f n = Feas x s -> covers n t -> value t <= s.
Hypothesis cov_branch : forall n cs s t, P n -> f n = Infeas cs s -> covers n t -> value t <= s /\ exists c, In c cs /\ covers c t.
Hypothesis val_le : forall t, value t <= smax.
Hypothesis no_panic : forall n, P n -> f n <> PanicR.

Definition CovT (st : state) (t : target) : Prop :=
   (best st <> None /\ value t <= bscore st) \/
   (exists n ps, In (n, ps) (pend st) /\ covers n t /\ value t <= ps) \/
   (exists i n, T st i = Some (Solving n) /\ covers n t).
Definition CovInv (st : state) : Prop := forall t, CovT st t.

Lemma T_upd_other st i v j t : T st j = Some t -> i <> j -> nth_error (upd (thr st) i v) j = Some t.
Proof. intros H Hne. rewrite nth_error_upd_neq by auto. exact H. Qed.

(* generic: a step that changes only thr at a position whose old status is not Solving, and keeps pend/best/bscore *)
Lemma cov_keep st st' i told : CovInv st -> T st i = Some told -> isSolving told = false ->
  pend st' = pend st -> best st' = best st -> bscore st' = bscore st ->
  (forall j n, j <> i -> T st j = Some (Solving n) -> T st' j = Some (Solving n)) -> CovInv st'.
Proof.
  intros Hc Hi Hs Ep Eb Es Hthr. intros t.
  destruct (Hc t) as [H|[H|(j & n & Hj & Hcov)]].
  - left. rewrite Eb, Es. exact H.
  - right. left. rewrite Ep. exact H.
  - right. right. exists j, n. split; [|exact Hcov]. apply Hthr; [|exact Hj].
    intros ->. rewrite Hi in Hj. inversion Hj; subst. discriminate.
Qed.

Lemma cov_step b st st' : CovInv st -> GenInv P st -> Step b st st' -> CovInv st'.
Proof.
  intros C (_ & _ & GS & _) S. destruct S.
  - eapply (cov_keep st _ i Ready C); eauto. intros j n Hne Hj. unfold T; cbn. apply T_upd_other; auto.
  - (* PopSolve *)
    intros t. destruct (C t) as [Hx|[(n' & ps' & Hin & Hcov & Hv)|(j & n' & Hj & Hcov)]].
    + left. exact Hx.
    + rewrite H1 in Hin. apply in_app_or in Hin. destruct Hin as [Hin|[Heq|Hin]].
      * right. left. exists n', ps'. cbn. split; [apply in_or_app; left; exact Hin|auto].
      * inversion Heq; subst. right. right. exists i, n'. unfold T; cbn. split; [|exact Hcov].
        apply nth_error_upd_eq. eapply nth_error_lt; eauto.
      * right. left. exists n', ps'. cbn. split; [apply in_or_app; right; exact Hin|auto].
    + right. right. exists j, n'. unfold T; cbn. split; [|exact Hcov]. apply T_upd_other; auto.
      intros ->. unfold T in *. rewrite H0 in Hj. discriminate.
  - (* PopBound *)
    intros t. destruct (C t) as [Hx|[(n' & ps' & Hin & Hcov & Hv)|(j & n' & Hj & Hcov)]].
    + left. exact Hx.
    + rewrite H1 in Hin. apply in_app_or in Hin. destruct Hin as [Hin|[Heq|Hin]].
      * right. left. exists n', ps'. cbn. split; [apply in_or_app; left; exact Hin|auto].
      * inversion Heq; subst. left. cbn. split; [assumption|lia].
      * right. left. exists n', ps'. cbn. split; [apply in_or_app; right; exact Hin|auto].
    + right. right. exists j, n'. unfold T; cbn. split; [|exact Hcov]. apply T_upd_other; auto.
      intros ->. unfold T in *. rewrite H0 in Hj. discriminate.
  - (* ExitYes *)
    eapply (cov_keep st _ i AfterItem C); eauto. intros j n Hne Hj. unfold T in *; cbn.
    rewrite nth_error_upd_neq by auto. rewrite nth_error_wake_all, Hj. reflexivity.
  - eapply (cov_keep st _ i AfterItem C); eauto. intros j n Hne Hj. unfold T; cbn. apply T_upd_other; auto.
  - eapply (cov_keep st _ i Looping C); eauto. intros j n Hne Hj. unfold T; cbn. apply T_upd_other; auto.
  - eapply (cov_keep st _ i Looping C); eauto. intros j n Hne Hj. unfold T; cbn. apply T_upd_other; auto.
  - (* FinishNo *)
    intros t. destruct (C t) as [Hx|[Hx|(j & n' & Hj & Hcov)]].
    + left. exact Hx.
    + right. left. exact Hx.
    + destruct (Nat.eq_dec j i) as [->|Hne].
      * unfold T in *. rewrite H0 in Hj. inversion Hj; subst. exfalso. assert (Pn : P n') by (eapply GS; eauto). exact (cov_nosol _ _ Pn H1 Hcov).
      * right. right. exists j, n'. unfold T; cbn. split; [|exact Hcov]. apply T_upd_other; auto.
  - (* FinishFeas *)
    assert (Pn : P n) by (eapply GS; eauto).
    assert (G : forall t, CovT st t -> (* same witnesses except thread i *)
              (best st <> None /\ value t <= bscore st) \/ (exists n' ps, In (n', ps) (pend st) /\ covers n' t /\ value t <= ps) \/
              (exists j n', j <> i /\ T st j = Some (Solving n') /\ covers n' t) \/ covers n t).
    { intros t [Hx|[Hx|(j & n' & Hj & Hcov)]]; auto. destruct (Nat.eq_dec j i) as [->|Hne].
      - unfold T in *. rewrite H0 in Hj. inversion Hj; subst. auto.
      - right. right. left. exists j, n'. auto. }
    unfold newbest. destruct (best st) as [x0|] eqn:Eb; [destruct (bscore st <? s) eqn:E; [apply Z.ltb_lt in E|apply Z.ltb_ge in E]|].
    + intros t. destruct (G t (C t)) as [[Hx Hv]|[Hx|[(j & n' & Hne & Hj & Hcov)|Hcov]]].
      * left. cbn. split; [discriminate|lia].
      * right. left. exact Hx.
      * right. right. exists j, n'. unfold T; cbn. split; [|exact Hcov]. apply T_upd_other; auto.
      * left. cbn. split; [discriminate|]. eapply cov_feas; eauto.
    + intros t. destruct (G t (C t)) as [Hx|[Hx|[(j & n' & Hne & Hj & Hcov)|Hcov]]].
      * left. cbn. rewrite Eb. exact Hx.
      * right. left. exact Hx.
      * right. right. exists j, n'. unfold T; cbn. split; [|exact Hcov]. apply T_upd_other; auto.
      * left. cbn. rewrite Eb. pose proof (cov_feas _ _ _ _ Pn H1 Hcov). split; [discriminate|lia].
    + intros t. destruct (G t (C t)) as [[Hx Hv]|[Hx|[(j & n' & Hne & Hj & Hcov)|Hcov]]].
      * exfalso. apply Hx. reflexivity.
      * right. left. exact Hx.
      * right. right. exists j, n'. unfold T; cbn. split; [|exact Hcov]. apply T_upd_other; auto.
      * left. cbn. split; [discriminate|]. eapply cov_feas; eauto.
  - (* FinishInf *)
    intros t. destruct (C t) as [Hx|[(n' & ps' & Hin & Hcov & Hv)|(j & n' & Hj & Hcov)]].
    + left. exact Hx.
    + right. left. exists n', ps'. cbn. split; [apply in_or_app; left; exact Hin|auto].
    + destruct (Nat.eq_dec j i) as [->|Hne].
      * unfold T in *. rewrite H0 in Hj. inversion Hj; subst. assert (Pn : P n') by (eapply GS; eauto).
        destruct (cov_branch _ _ _ _ Pn H1 Hcov) as (Hv & c & Hc' & Hcc).
        right. left. exists c, s. cbn. split; [apply in_or_app; right; apply in_map_iff; exists c; auto|auto].
      * right. right. exists j, n'. unfold T; cbn. split; [|exact Hcov]. apply T_upd_other; auto.
  - exfalso. eapply no_panic; [eapply GS|]; eauto.
  - eapply (cov_keep st _ i Waiting C); eauto. intros j n Hne Hj. unfold T; cbn. apply T_upd_other; auto.
Qed.

Lemma cov_init k : CovInv (init k).
Proof.
  intros t. right. left. exists root, smax. cbn. split; [left; reflexivity|]. split; [apply cov_root|apply val_le].
Qed.

Theorem engine_complete k st : Reach k st -> (0 < k)%nat -> (forall i t, T st i = Some t -> t = Done) ->
  forall t, best st <> None /\ value t <= bscore st.
Proof.
  intros R Hk Hall t.
  assert (C : CovInv st).
  { clear Hall. induction R; [apply cov_init|]. eapply cov_step; eauto. eapply reach_gen; eauto. }
  assert (Hex : exists i, T st i = Some Done).
  { pose proof (thr_length k st R) as Hl. destruct (thr st) as [|t0 l] eqn:E; [simpl in Hl; lia|]. exists 0%nat.
    rewrite <- (Hall 0%nat t0); unfold T; rewrite E; reflexivity. }
  destruct (final_accounting k st R (fun i t Ht => or_introl (Hall i t Ht)) Hex) as (Hp & _).
  destruct (C t) as [H|[(n & ps & Hin & _)|(i & n & Hi & _)]].
  - exact H.
  - rewrite Hp in Hin. destruct Hin.
  - specialize (Hall i _ Hi). discriminate.
Qed.
End Covering.

(* best is always the output of a solved feasible node, with its score; and dominates all solved feasible scores *)
Definition BestInv (st : state) : Prop :=
  (forall x, best st = Some x -> exists n, In n (solved st) /\ f n = Feas x (bscore st)) /\
  (forall n x s, In n (solved st) -> f n = Feas x s -> best st <> None /\ s <= bscore st).
Lemma best_step b st st' : BestInv st -> Step b st st' -> BestInv st'.
Proof.
  intros (B1 & B2) S. destruct S; try (split; cbn; assumption).
  - (* FinishNo *) split; cbn; auto.
    + intros x Hx. destruct (B1 x Hx) as (n' & Hin & Hf). exists n'. split; [right; exact Hin|exact Hf].
    + intros n' x s [->|Hin] Hf; [congruence|eauto].
  - (* FinishFeas *)
    unfold newbest. destruct (best st) as [x0|] eqn:Eb; [destruct (bscore st <? s) eqn:E; [apply Z.ltb_lt in E|apply Z.ltb_ge in E]|]; split; cbn.
    + intros x' Hx'. inversion Hx'; subst. exists n. split; [left; reflexivity|exact H1].
    + intros n' x' s' [->|Hin] Hf.
      * rewrite H1 in Hf. inversion Hf; subst. split; [discriminate|lia].
      * destruct (B2 _ _ _ Hin Hf). split; [discriminate|lia].
    + rewrite Eb. intros x' Hx'. destruct (B1 x' Hx') as (n' & Hin & Hf). exists n'. split; [right; exact Hin|exact Hf].
    + rewrite Eb. intros n' x' s' [->|Hin] Hf; [|eauto].
      rewrite H1 in Hf. inversion Hf; subst. split; [discriminate|lia].
    + intros x' Hx'. inversion Hx'; subst. exists n. split; [left; reflexivity|exact H1].
    + intros n' x' s' [->|Hin] Hf.
      * rewrite H1 in Hf. inversion Hf; subst. split; [discriminate|lia].
      * destruct (B2 _ _ _ Hin Hf) as [Hne _]. exfalso. apply Hne. reflexivity.
  - (* FinishInf *) split; cbn; auto.
    + intros x Hx. destruct (B1 x Hx) as (n' & Hin & Hf). exists n'. split; [right; exact Hin|exact Hf].
    + intros n' x s' [->|Hin] Hf; [congruence|eauto].
Qed.
Lemma best_init k : BestInv (init k).
Proof. split; cbn; [discriminate|intros n x s []]. Qed.
Theorem reach_best k st : Reach k st -> BestInv st.
Proof. induction 1; [apply best_init|eapply best_step; eauto]. Qed.


(* the root is generated, and a subproblem is bounded only when a solution is known: so a search that ends without a failing node solver has
   EXECUTED at least one subproblem (the statistics line divides the elapsed time by that number) *)
Definition ExInv (st : state) : Prop := In root (generated st) /\ (bounded st <> [] -> best st <> None).
Lemma ex_step b st st' : ExInv st -> Step b st st' -> ExInv st'.
Proof.
  intros (E1 & E2) S. destruct S; try (split; cbn; assumption).
  - split; cbn; [exact E1|]. intros _. assumption.
  - unfold newbest. destruct (best st) as [x0|] eqn:Eb; [destruct (bscore st <? s)|]; split; cbn; auto; try discriminate; rewrite ?Eb; auto.
  - split; cbn; [apply in_or_app; left; exact E1|exact E2].
Qed.
Lemma ex_init k : ExInv (init k).
Proof. split; cbn; [left; reflexivity|congruence]. Qed.
Theorem reach_ex k st : Reach k st -> ExInv st.
Proof. induction 1; [apply ex_init|eapply ex_step; eauto]. Qed.
Theorem executed_positive k st : Reach k st -> (forall i t, T st i = Some t -> t = Done) -> (exists i, T st i = Some Done) -> (1 <= n_ex st)%nat.
Proof.
  intros R Hall Hex.
  destruct (final_accounting k st R) as (_ & _ & Hperm & Hne & Hnb & _); [intros i t Hi; left; exact (Hall i t Hi)|exact Hex|].
  assert (Hf : failed st = []).
  { destruct (failed st) eqn:E; [reflexivity|]. assert (Hne' : failed st <> []) by (rewrite E; discriminate).
    apply (failure_reported k st R) in Hne'. destruct Hne' as (i & Hi). specialize (Hall i _ Hi). discriminate. }
  rewrite Hf in Hperm. cbn [app] in Hperm. destruct (reach_ex k st R) as (Hroot & Hb).
  destruct (solved st) as [|n l] eqn:Es; [|rewrite Hne; simpl; lia]. exfalso.
  cbn [app] in Hperm. assert (Hin : In root (bounded st)) by (eapply Permutation_in; [exact Hperm|exact Hroot]).
  assert (Hbn : bounded st <> []) by (intros E; rewrite E in Hin; destruct Hin).
  destruct (best st) as [x|] eqn:Eb; [|exact (Hb Hbn eq_refl)].
  destruct (reach_best k st R) as (B1 & _). destruct (B1 x Eb) as (n & Hn & _). rewrite Es in Hn. destruct Hn.
Qed.

(* a worker only dies on a failing node solver *)
Lemma failed_step b st st' : Forall (fun n => f n = PanicR) (failed st) -> Step b st st' -> Forall (fun n => f n = PanicR) (failed st').
Proof. intros F S. destruct S; cbn; auto. destruct (newbest st s); cbn; auto. Qed.
Theorem reach_failed k st : Reach k st -> Forall (fun n => f n = PanicR) (failed st).
Proof. induction 1; [constructor|eapply failed_step; eauto]. Qed.

(* ---------- termination: a linear measure ---------- *)
Section Termination.
Variable h : node -> nat.
Hypothesis h_child : forall n cs s c, f n = Infeas cs s -> In c cs -> (h c < h n)%nat.

Definition sumn (l : list nat) : nat := fold_right Nat.add 0%nat l.
Lemma sumn_app l1 l2 : sumn (l1 ++ l2) = (sumn l1 + sumn l2)%nat.
Proof. unfold sumn. induction l1; simpl; lia. Qed.
Lemma sumn_perm l1 l2 : Permutation l1 l2 -> sumn l1 = sumn l2.
Proof. unfold sumn. induction 1; simpl; lia. Qed.

Lemma sumn_cons a l : sumn (a :: l) = (a + sumn l)%nat. Proof. reflexivity. Qed.

Fixpoint tsz (d : nat) (n : node) : nat :=
  match d with
  | O => 1
  | S d' => match f n with Infeas cs _ => S (sumn (map (tsz d') cs)) | _ => 1 end
  end.
Lemma tsz_pos d n : (1 <= tsz d n)%nat.
Proof. destruct d; simpl; [lia|]. destruct (f n); lia. Qed.
Lemma tsz_stable : forall d n, (h n <= d)%nat -> tsz d n = tsz (h n) n.
Proof.
  induction d as [d IH] using lt_wf_ind. intros n Hd.
  destruct d as [|d]; [replace (h n) with 0%nat by lia; reflexivity|].
  destruct (h n) as [|hn] eqn:Eh.
  - cbn [tsz]. destruct (f n) as [|cs s| |] eqn:Ef; try reflexivity.
    destruct cs as [|c cs]; [reflexivity|]. pose proof (h_child n _ s c Ef (or_introl eq_refl)). lia.
  - cbn [tsz]. destruct (f n) as [|cs s| |] eqn:Ef; try reflexivity. f_equal. f_equal. apply map_ext_in. intros c Hc.
    pose proof (h_child n cs s c Ef Hc) as Hlt. rewrite (IH d ltac:(lia) c ltac:(lia)). rewrite (IH hn ltac:(lia) c ltac:(lia)). reflexivity.
Qed.
Definition sz (n : node) : nat := tsz (h n) n.
Lemma sz_infeas n cs s : f n = Infeas cs s -> sz n = S (sumn (map sz cs)).
Proof.
  intros Ef. unfold sz. destruct (h n) as [|hn] eqn:Eh.
  - destruct cs as [|c cs]; [reflexivity|]. pose proof (h_child n _ s c Ef (or_introl eq_refl)). lia.
  - cbn [tsz]. rewrite Ef. f_equal. f_equal. apply map_ext_in. intros c Hc. pose proof (h_child n cs s c Ef Hc). apply tsz_stable. lia.
Qed.
Lemma sz_pos n : (1 <= sz n)%nat. Proof. apply tsz_pos. Qed.

Arguments sumn : simpl never.
Definition wt (t : tstat) : nat := match t with Ready => 4 | AfterItem => 4 | Looping => 3 | Solving _ => 2 | Waiting => 1 | Done => 0 | Dead => 0 end.
Definition notFin (t : tstat) : bool := match t with Done | Dead => false | _ => true end.
Definition Phi (st : state) : nat := (sumn (map (fun p => sz (fst p)) (pend st)) + sumn (map sz (solvingL (thr st))))%nat.
Definition M (k : nat) (st : state) : nat := (3 * Phi st + (3 * k + 1) * cnt notFin (thr st) + sumn (map wt (thr st)))%nat.

Lemma upd_cons_0 {A} (a : A) l v : upd (a :: l) 0 v = v :: l. Proof. reflexivity. Qed.
Lemma upd_cons_S {A} (a : A) l i v : upd (a :: l) (S i) v = a :: upd l i v. Proof. reflexivity. Qed.
Lemma sumn_wt_upd : forall l i t v, nth_error l i = Some t -> (sumn (map wt (upd l i v)) + wt t = sumn (map wt l) + wt v)%nat.
Proof.
  unfold sumn. induction l as [|a l IH]; intros [|i] t v H; cbn [nth_error] in H; try discriminate.
  - inversion H; subst. rewrite upd_cons_0. cbn [map fold_right]. lia.
  - specialize (IH i t v H). rewrite upd_cons_S. cbn [map fold_right]. lia.
Qed.
Lemma sumn_wt_wake_all l : (sumn (map wt (wake_all l)) <= sumn (map wt l) + 3 * length l)%nat.
Proof. unfold sumn. induction l as [|a l IH]; [simpl; lia|]. change (wake_all (a :: l)) with ((match a with Waiting => Ready | t => t end) :: wake_all l). destruct a; simpl in *; lia. Qed.
Lemma cnt_wake_all_notfin l : cnt notFin (wake_all l) = cnt notFin l.
Proof. unfold cnt. induction l as [|a l IH]; [reflexivity|]. change (wake_all (a :: l)) with ((match a with Waiting => Ready | t => t end) :: wake_all l). destruct a; simpl; rewrite ?IH; auto. Qed.
Lemma sumn_sz_solving_in l i t n : nth_error l i = Some t -> isSolving t = false ->
  sumn (map sz (solvingL (upd l i (Solving n)))) = (sz n + sumn (map sz (solvingL l)))%nat.
Proof. intros H Ht. rewrite (sumn_perm _ _ (Permutation_map sz (solvingL_upd_in l i t n H Ht))). reflexivity. Qed.
Lemma sumn_sz_solving_out l i n v : nth_error l i = Some (Solving n) -> isSolving v = false ->
  sumn (map sz (solvingL l)) = (sz n + sumn (map sz (solvingL (upd l i v))))%nat.
Proof. intros H Hv. rewrite (sumn_perm _ _ (Permutation_map sz (solvingL_upd_out l i n v H Hv))). reflexivity. Qed.

Theorem measure_step k b st st' : Reach k st -> Step b st st' ->
  if b then (M k st' + 1 <= M k st)%nat else (M k st' = M k st + 3)%nat.
Proof.
  intros R S. pose proof (thr_length k st R) as Hlen.
  destruct S; unfold T in *; unfold M, Phi; cbn [pend thr set].
  - (* Acquire *) cbn. pose proof (sumn_wt_upd _ _ _ Looping H0). pose proof (cnt_upd notFin _ _ _ Looping H0).
    rewrite (solvingL_upd_same _ _ _ _ H0) by reflexivity. cbn in *. lia.
  - (* PopSolve *) cbn. pose proof (sumn_wt_upd _ _ _ (Solving n) H0). pose proof (cnt_upd notFin _ _ _ (Solving n) H0).
    rewrite (sumn_sz_solving_in _ _ _ n H0) by reflexivity. rewrite H1, !map_app, !sumn_app. cbn [map fst]. rewrite sumn_cons. cbn in *. lia.
  - (* PopBound *) cbn. pose proof (sumn_wt_upd _ _ _ AfterItem H0). pose proof (cnt_upd notFin _ _ _ AfterItem H0).
    rewrite (solvingL_upd_same _ _ _ _ H0) by reflexivity. rewrite H1, !map_app, !sumn_app. cbn [map fst]. rewrite sumn_cons. cbn in *. pose proof (sz_pos n). lia.
  - (* ExitYes *) cbn.
    assert (Hw : nth_error (wake_all (thr st)) i = Some AfterItem) by (rewrite nth_error_wake_all, H0; reflexivity).
    pose proof (sumn_wt_upd _ _ _ Done Hw). pose proof (cnt_upd notFin _ _ _ Done Hw). pose proof (sumn_wt_wake_all (thr st)).
    rewrite (solvingL_upd_same _ _ _ _ Hw), solvingL_wake_all by reflexivity. rewrite cnt_wake_all_notfin in *. cbn in *. nia.
  - (* ExitNo *) cbn. pose proof (sumn_wt_upd _ _ _ Looping H0). pose proof (cnt_upd notFin _ _ _ Looping H0).
    rewrite (solvingL_upd_same _ _ _ _ H0) by reflexivity. cbn in *. lia.
  - (* EmptyWait *) cbn. pose proof (sumn_wt_upd _ _ _ Waiting H0). pose proof (cnt_upd notFin _ _ _ Waiting H0).
    rewrite (solvingL_upd_same _ _ _ _ H0) by reflexivity. cbn in *. lia.
  - (* EmptyDone *) cbn. pose proof (sumn_wt_upd _ _ _ Done H0). pose proof (cnt_upd notFin _ _ _ Done H0).
    rewrite (solvingL_upd_same _ _ _ _ H0) by reflexivity. cbn in *. nia.
  - (* FinishNo *) cbn. pose proof (sumn_wt_upd _ _ _ AfterItem H0). pose proof (cnt_upd notFin _ _ _ AfterItem H0).
    rewrite (sumn_sz_solving_out (thr st) i n AfterItem H0) by reflexivity. cbn in *. pose proof (sz_pos n). lia.
  - (* FinishFeas *)
    assert (E : forall st0, (if newbest st s then st <| best := Some x |> <| bscore := s |> else st) = st0 -> pend st0 = pend st /\ thr st0 = thr st).
    { intros st0 <-. destruct (newbest st s); cbn; auto. }
    destruct (E _ eq_refl) as [E1 E2]. cbn. rewrite ?E1, ?E2.
    pose proof (sumn_wt_upd _ _ _ AfterItem H0). pose proof (cnt_upd notFin _ _ _ AfterItem H0).
    rewrite (sumn_sz_solving_out (thr st) i n AfterItem H0) by reflexivity. cbn in *. pose proof (sz_pos n). lia.
  - (* FinishInf *) cbn. pose proof (sumn_wt_upd _ _ _ AfterItem H0). pose proof (cnt_upd notFin _ _ _ AfterItem H0).
    rewrite (sumn_sz_solving_out (thr st) i n AfterItem H0) by reflexivity. rewrite map_app, sumn_app, map_map. cbn [fst]. change (map (fun x : node => sz x) cs) with (map sz cs).
    rewrite (sz_infeas n cs s H1). cbn in *. lia.
  - (* FinishPanic *) cbn.
    assert (Hw : nth_error (wake_all (thr st)) i = Some (Solving n)) by (rewrite nth_error_wake_all, H0; reflexivity).
    pose proof (sumn_wt_upd _ _ _ Dead Hw). pose proof (cnt_upd notFin _ _ _ Dead Hw). pose proof (sumn_wt_wake_all (thr st)).
    rewrite <- (solvingL_wake_all (thr st)). rewrite (sumn_sz_solving_out (wake_all (thr st)) i n Dead Hw) by reflexivity.
    rewrite cnt_wake_all_notfin in *. cbn in *. pose proof (sz_pos n). nia.
  - (* Spurious *) cbn. pose proof (sumn_wt_upd _ _ _ Ready H). pose proof (cnt_upd notFin _ _ _ Ready H).
    rewrite (solvingL_upd_same _ _ _ _ H) by reflexivity. cbn in *. lia.
Qed.
End Termination.
End Engine.
