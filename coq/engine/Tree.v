(* C09: the generic engine returns the best leaf of any bounded tree.  The covering theorem of EngP2 instantiated with
   target = feasible nodes below the root, covers = ancestor-or-self. *)
From Coq Require Import List ZArith Lia Bool Arith.
Require Import EngP2.
Import ListNotations.
Open Scope Z_scope.

Section Tree.
Variables (node sol : Type).
Variable f : node -> nres node sol.
Variable root : node.
Variables (smin smax : Z).

(* m is in the subproblem tree below n (n itself included) *)
Inductive Below : node -> node -> Prop :=
| B_refl n : Below n n
| B_step n cs s c m : f n = Infeas node sol cs s -> In c cs -> Below c m -> Below n m.

Lemma Below_trans a b c : Below a b -> Below b c -> Below a c.
Proof. induction 1; intros H'; [exact H'|]. eapply B_step; eauto. Qed.
Lemma Below_child n cs s c : Below root n -> f n = Infeas node sol cs s -> In c cs -> Below root c.
Proof. intros Hn Hf Hc. eapply Below_trans; [exact Hn|]. eapply B_step; eauto. apply B_refl. Qed.

(* the score attached to an inner node is at least the score of every solution below it *)
Definition bound_consistent : Prop :=
  forall n cs s m x s', Below root n -> f n = Infeas node sol cs s -> Below n m -> f m = Feas node sol x s' -> s' <= s.

Hypothesis Hbc : bound_consistent.
Hypothesis Hnp : forall n, Below root n -> f n <> PanicR node sol.
Hypothesis Hrange : forall n x s, Below root n -> f n = Feas node sol x s -> s <= smax.

Record target := { t_n : node; t_x : sol; t_s : Z; t_below : Below root t_n; t_feas : f t_n = Feas node sol t_x t_s }.

Theorem engine_best_leaf k st : Reach node sol f root smin smax k st -> (0 < k)%nat ->
  (forall i t, T node sol st i = Some t -> t = Done node) ->
  match best node sol st with
  | Some x => (exists n, Below root n /\ f n = Feas node sol x (bscore node sol st)) /\
              (forall n x' s', Below root n -> f n = Feas node sol x' s' -> s' <= bscore node sol st)
  | None => forall n x' s', Below root n -> f n <> Feas node sol x' s'
  end.
Proof.
  intros R Hk Hall.
  assert (EC : forall t : target, best node sol st <> None /\ t_s t <= bscore node sol st).
  { intros t.
    refine (engine_complete node sol f root smin smax target t_s (fun n t => Below n (t_n t)) (Below root) (B_refl root) Below_child
              _ _ _ _ _ Hnp k st R Hk Hall t).
    - intros t0. apply t_below.
    - intros n t0 _ Hf Hb. pose proof (t_feas t0) as Ht. inversion Hb; subst; congruence.
    - intros n x s t0 _ Hf Hb. pose proof (t_feas t0) as Ht. inversion Hb; subst; [|congruence]. rewrite Hf in Ht. inversion Ht; subst. lia.
    - intros n cs s t0 Pn Hf Hb. pose proof (t_feas t0) as Ht. split; [eapply Hbc; eauto|].
      inversion Hb; subst; [congruence|]. rewrite Hf in H. inversion H; subst. eauto.
    - intros t0. eapply Hrange; [apply t_below|apply t_feas]. }
  destruct (best node sol st) as [x|] eqn:Eb.
  - split.
    + destruct (reach_best node sol f root smin smax k st R) as [B1 _]. destruct (B1 x Eb) as (n & Hin & Hf). exists n. split; [|exact Hf].
      destruct (reach_gen node sol f root smin smax (Below root) (B_refl root) Below_child k st R) as (_ & _ & _ & Hs).
      rewrite Forall_forall in Hs. apply Hs. exact Hin.
    + intros n x' s' Hb Hf. apply (EC {| t_n := n; t_x := x'; t_s := s'; t_below := Hb; t_feas := Hf |}).
  - intros n x' s' Hb Hf. destruct (EC {| t_n := n; t_x := x'; t_s := s'; t_below := Hb; t_feas := Hf |}) as [Hne _]. apply Hne. reflexivity.
Qed.
End Tree.
