(* The transition system depends on the node function only through its values: extensionally equal node functions generate the same
   reachable states (used by C17: a non-binding room list gives literally the same search). *)
From Coq Require Import List ZArith.
Require Import EngP2.
Import ListNotations.

Section Ext.
Variables (node sol : Type) (f g : node -> nres node sol) (root : node) (smin smax : Z).
Hypothesis Hext : forall n, f n = g n.

Lemma Step_ext b st st' : Step node sol f b st st' -> Step node sol g b st st'.
Proof.
  intros S. destruct S.
  - apply SAcquire; assumption.
  - eapply SPopSolve; eassumption.
  - eapply SPopBound; eassumption.
  - apply SExitYes; assumption.
  - apply SExitNo; assumption.
  - apply SEmptyWait; assumption.
  - apply SEmptyDone; assumption.
  - apply SFinishNo; [assumption|assumption|rewrite <- Hext; assumption].
  - eapply SFinishFeas; [assumption|eassumption|rewrite <- Hext; assumption].
  - eapply SFinishInf; [assumption|eassumption|rewrite <- Hext; assumption].
  - eapply SFinishPanic; [assumption|eassumption|rewrite <- Hext; assumption].
  - apply SSpurious; assumption.
Qed.
Theorem Reach_ext k st : Reach node sol f root smin smax k st -> Reach node sol g root smin smax k st.
Proof. induction 1; [apply R0|eapply RS; [eassumption|apply Step_ext; eassumption]]. Qed.
End Ext.
