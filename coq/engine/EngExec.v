(* Executable replay of recorded histories of bab.rs through the proof model EngP2: `exec` performs one recorded event or
   rejects it; every accepted event is a step of the transition system (exec_sound), so the state reached by replaying a
   history of the real implementation is a reachable state of the model (replay_reach) and all theorems about reachable
   states apply to it. *)
From Coq Require Import List ZArith Lia Bool Arith.
From RecordUpdate Require Import RecordSet.
Import RecordSetNotations.
Require Import EngP2.
Import ListNotations.
Open Scope Z_scope.

#[local] Arguments pend {node sol} _. #[local] Arguments busy {node sol} _. #[local] Arguments best {node sol} _.
#[local] Arguments bscore {node sol} _. #[local] Arguments lock {node sol} _. #[local] Arguments thr {node sol} _.
#[local] Arguments solved {node sol} _. #[local] Arguments bounded {node sol} _. #[local] Arguments generated {node sol} _.
#[local] Arguments failed {node sol} _. #[local] Arguments n_ex {node sol} _. #[local] Arguments n_no {node sol} _.
#[local] Arguments n_inf {node sol} _. #[local] Arguments n_fea {node sol} _. #[local] Arguments n_bnd {node sol} _.
#[local] Arguments NoSol {node sol}. #[local] Arguments Infeas {node sol} _ _. #[local] Arguments Feas {node sol} _ _. #[local] Arguments PanicR {node sol}.
#[local] Arguments Ready {node}. #[local] Arguments Looping {node}. #[local] Arguments AfterItem {node}. #[local] Arguments Solving {node} _.
#[local] Arguments Waiting {node}. #[local] Arguments Done {node}. #[local] Arguments Dead {node}.

Section Exec.
Variables (node sol : Type).
Variable f : node -> nres node sol.
Variable root : node.
Variables (smin smax : Z).
Variable node_eqb : node -> node -> bool.
Hypothesis node_eqb_eq : forall a b, node_eqb a b = true -> a = b.
Notation state := (state node sol).
Notation Step := (Step node sol f).
Notation Reach := (Reach node sol f root smin smax).

(* recorded events: worker index first; Finish events carry what the implementation reported *)
Inductive ev :=
| EAcq (i : nat) | EPopSolve (i : nat) (n : node) (ps : Z) | EPopBound (i : nat) (n : node) (ps : Z)
| EExitYes (i : nat) | EExitNo (i : nat) | EEmptyWait (i : nat) | EEmptyDone (i : nat)
| EFinNo (i : nat) | EFinFeas (i : nat) (s : Z) (nb : bool) | EFinInf (i : nat) (s : Z) (cs : list node) | EFinPanic (i : nat)
| EWake (i : nat).

Fixpoint split_at (n : node) (ps : Z) (l : list (node * Z)) : option (list (node * Z) * list (node * Z)) :=
  match l with
  | [] => None
  | (n', ps') :: t =>
    if node_eqb n n' && (ps =? ps') then Some ([], t)
    else match split_at n ps t with Some (l1, l2) => Some ((n', ps') :: l1, l2) | None => None end
  end.
Lemma split_at_spec n ps : forall l l1 l2, split_at n ps l = Some (l1, l2) -> l = l1 ++ (n, ps) :: l2.
Proof.
  induction l as [|[n' ps'] t IH]; intros l1 l2 H; simpl in H; [discriminate|].
  destruct (node_eqb n n' && (ps =? ps')) eqn:E.
  - inversion H; subst. apply andb_true_iff in E. destruct E as [E1 E2]. apply node_eqb_eq in E1. apply Z.eqb_eq in E2. subst. reflexivity.
  - destruct (split_at n ps t) as [[a b]|]; [|discriminate]. inversion H; subst. simpl. f_equal. apply IH. reflexivity.
Qed.

Definition holds (st : state) (i : nat) : bool := match lock st with Some j => Nat.eqb j i | None => false end.
Definition free (st : state) : bool := match lock st with None => true | Some _ => false end.
Fixpoint list_eqb {A} (e : A -> A -> bool) (a b : list A) : bool :=
  match a, b with [] , [] => true | x :: a', y :: b' => e x y && list_eqb e a' b' | _, _ => false end.
Lemma list_eqb_eq {A} (e : A -> A -> bool) : (forall x y, e x y = true -> x = y) -> forall a b, list_eqb e a b = true -> a = b.
Proof.
  intros He. induction a as [|x a IH]; intros [|y b] H; simpl in H; try discriminate; [reflexivity|].
  apply andb_true_iff in H. destruct H as [H1 H2]. f_equal; [apply He; exact H1|apply IH; exact H2].
Qed.

Definition exec (st : state) (e : ev) : option state :=
  match e with
  | EAcq i =>
    match T node sol st i with
    | Some Ready => if free st then Some (st <| lock := Some i |> <| thr := upd (thr st) i Looping |>) else None
    | _ => None end
  | EPopSolve i n ps =>
    match T node sol st i with
    | Some Looping =>
      if holds st i then
        match split_at n ps (pend st) with
        | Some (l1, l2) =>
          if (match best st with None => true | Some _ => false end) || (bscore st <? ps)
          then Some (st <| pend := l1 ++ l2 |> <| busy := S (busy st) |> <| lock := None |> <| thr := upd (thr st) i (Solving n) |>)
          else None
        | None => None end
      else None
    | _ => None end
  | EPopBound i n ps =>
    match T node sol st i with
    | Some Looping =>
      if holds st i then
        match split_at n ps (pend st) with
        | Some (l1, l2) =>
          if (match best st with None => false | Some _ => true end) && (ps <=? bscore st)
          then Some (st <| pend := l1 ++ l2 |> <| n_bnd := S (n_bnd st) |> <| bounded := n :: bounded st |> <| thr := upd (thr st) i AfterItem |>)
          else None
        | None => None end
      else None
    | _ => None end
  | EExitYes i =>
    match T node sol st i, pend st, busy st with
    | Some AfterItem, [], O => if holds st i then Some (st <| lock := None |> <| thr := upd (wake_all node (thr st)) i Done |>) else None
    | _, _, _ => None end
  | EExitNo i =>
    match T node sol st i with
    | Some AfterItem =>
      if holds st i && (match pend st, busy st with [], O => false | _, _ => true end)
      then Some (st <| thr := upd (thr st) i Looping |>) else None
    | _ => None end
  | EEmptyWait i =>
    match T node sol st i, pend st, busy st with
    | Some Looping, [], S _ => if holds st i then Some (st <| lock := None |> <| thr := upd (thr st) i Waiting |>) else None
    | _, _, _ => None end
  | EEmptyDone i =>
    match T node sol st i, pend st, busy st with
    | Some Looping, [], O => if holds st i then Some (st <| lock := None |> <| thr := upd (thr st) i Done |>) else None
    | _, _, _ => None end
  | EFinNo i =>
    match T node sol st i with
    | Some (Solving n) =>
      if free st then
        match f n with
        | NoSol => Some (st <| busy := pred (busy st) |> <| lock := Some i |> <| thr := upd (thr st) i AfterItem |>
                            <| solved := n :: solved st |> <| n_ex := S (n_ex st) |> <| n_no := S (n_no st) |>)
        | _ => None end
      else None
    | _ => None end
  | EFinFeas i s nb =>
    match T node sol st i with
    | Some (Solving n) =>
      if free st then
        match f n with
        | Feas x s' =>
          if (s =? s') && Bool.eqb nb (newbest node sol st s') then
            Some ((if newbest node sol st s' then st <| best := Some x |> <| bscore := s' |> else st)
                    <| busy := pred (busy st) |> <| lock := Some i |> <| thr := upd (thr st) i AfterItem |>
                    <| solved := n :: solved st |> <| n_ex := S (n_ex st) |> <| n_fea := S (n_fea st) |>)
          else None
        | _ => None end
      else None
    | _ => None end
  | EFinInf i s cs =>
    match T node sol st i with
    | Some (Solving n) =>
      if free st then
        match f n with
        | Infeas cs' s' =>
          if (s =? s') && list_eqb node_eqb cs cs' then
            Some (st <| pend := pend st ++ map (fun c => (c, s')) cs' |> <| busy := pred (busy st) |> <| lock := Some i |>
                     <| thr := upd (thr st) i AfterItem |> <| solved := n :: solved st |> <| generated := generated st ++ cs' |>
                     <| n_ex := S (n_ex st) |> <| n_inf := S (n_inf st) |>)
          else None
        | _ => None end
      else None
    | _ => None end
  | EFinPanic i =>
    match T node sol st i with
    | Some (Solving n) =>
      if free st then
        match f n with
        | PanicR => Some (st <| busy := pred (busy st) |> <| thr := upd (wake_all node (thr st)) i Dead |> <| failed := n :: failed st |>)
        | _ => None end
      else None
    | _ => None end
  | EWake i =>
    match T node sol st i with
    | Some Waiting => Some (st <| thr := upd (thr st) i Ready |>)
    | _ => None end
  end.

Lemma holds_spec st i : holds st i = true -> lock st = Some i.
Proof. unfold holds. destruct (lock st) as [j|]; [|discriminate]. intros H. apply Nat.eqb_eq in H. subst. reflexivity. Qed.
Lemma free_spec st : free st = true -> lock st = None.
Proof. unfold free. destruct (lock st); [discriminate|reflexivity]. Qed.

Theorem exec_sound st e st' : exec st e = Some st' -> exists b, Step b st st'.
Proof.
  destruct e; simpl; intros H.
  - destruct (T node sol st i) as [[]|] eqn:Et; try discriminate. destruct (free st) eqn:Ef; [|discriminate]. inversion H; subst.
    exists true. apply SAcquire; [apply free_spec; exact Ef|exact Et].
  - destruct (T node sol st i) as [[]|] eqn:Et; try discriminate. destruct (holds st i) eqn:Eh; [|discriminate].
    destruct (split_at n ps (pend st)) as [[l1 l2]|] eqn:Es; [|discriminate].
    destruct (_ || _) eqn:Ec; [|discriminate]. inversion H; subst. exists true.
    eapply SPopSolve; [apply holds_spec; exact Eh|exact Et|apply split_at_spec; exact Es|].
    apply orb_true_iff in Ec. destruct Ec as [Ec|Ec]; [left; destruct (best st); [discriminate|reflexivity]|right; apply Z.ltb_lt; exact Ec].
  - destruct (T node sol st i) as [[]|] eqn:Et; try discriminate. destruct (holds st i) eqn:Eh; [|discriminate].
    destruct (split_at n ps (pend st)) as [[l1 l2]|] eqn:Es; [|discriminate].
    destruct (_ && _) eqn:Ec; [|discriminate]. inversion H; subst. exists true. apply andb_true_iff in Ec. destruct Ec as [Ec1 Ec2].
    eapply SPopBound; [apply holds_spec; exact Eh|exact Et|apply split_at_spec; exact Es| |apply Z.leb_le; exact Ec2].
    destruct (best st); [discriminate|discriminate].
  - destruct (T node sol st i) as [[]|] eqn:Et; try discriminate. destruct (pend st) eqn:Ep; [|discriminate]. destruct (busy st) eqn:Eb; [|discriminate].
    destruct (holds st i) eqn:Eh; [|discriminate]. inversion H; subst. exists true. apply SExitYes; auto. apply holds_spec; exact Eh.
  - destruct (T node sol st i) as [[]|] eqn:Et; try discriminate. destruct (holds st i && _) eqn:Ec; [|discriminate]. inversion H; subst.
    apply andb_true_iff in Ec. destruct Ec as [Eh Ec]. exists true. apply SExitNo; [apply holds_spec; exact Eh|exact Et|].
    destruct (pend st); [destruct (busy st); [discriminate|right; discriminate]|left; discriminate].
  - destruct (T node sol st i) as [[]|] eqn:Et; try discriminate. destruct (pend st) eqn:Ep; [|discriminate]. destruct (busy st) eqn:Eb; [discriminate|].
    destruct (holds st i) eqn:Eh; [|discriminate]. inversion H; subst. exists true. apply SEmptyWait; auto; [apply holds_spec; exact Eh|lia].
  - destruct (T node sol st i) as [[]|] eqn:Et; try discriminate. destruct (pend st) eqn:Ep; [|discriminate]. destruct (busy st) eqn:Eb; [|discriminate].
    destruct (holds st i) eqn:Eh; [|discriminate]. inversion H; subst. exists true. apply SEmptyDone; auto. apply holds_spec; exact Eh.
  - destruct (T node sol st i) as [[]|] eqn:Et; try discriminate. destruct (free st) eqn:Ef; [|discriminate]. destruct (f n) eqn:En; try discriminate.
    inversion H; subst. exists true. apply SFinishNo; auto. apply free_spec; exact Ef.
  - destruct (T node sol st i) as [[]|] eqn:Et; try discriminate. destruct (free st) eqn:Ef; [|discriminate]. destruct (f n) eqn:En; try discriminate.
    destruct (_ && _); [|discriminate]. inversion H; subst. exists true. eapply SFinishFeas; eauto. apply free_spec; exact Ef.
  - destruct (T node sol st i) as [[]|] eqn:Et; try discriminate. destruct (free st) eqn:Ef; [|discriminate]. destruct (f n) eqn:En; try discriminate.
    destruct (_ && _); [|discriminate]. inversion H; subst. exists true. eapply SFinishInf; eauto. apply free_spec; exact Ef.
  - destruct (T node sol st i) as [[]|] eqn:Et; try discriminate. destruct (free st) eqn:Ef; [|discriminate]. destruct (f n) eqn:En; try discriminate.
    inversion H; subst. exists true. eapply SFinishPanic; eauto. apply free_spec; exact Ef.
  - destruct (T node sol st i) as [[]|] eqn:Et; try discriminate. inversion H; subst. exists false. apply SSpurious. exact Et.
Qed.

(* replay of a whole history; the index of the first rejected event is reported *)
Fixpoint replay (st : state) (evs : list ev) (pos : nat) : state + nat :=
  match evs with
  | [] => inl st
  | e :: t => match exec st e with Some st' => replay st' t (S pos) | None => inr pos end
  end.

Theorem replay_reach k : forall evs st pos st', Reach k st -> replay st evs pos = inl st' -> Reach k st'.
Proof.
  induction evs as [|e t IH]; intros st pos st' R H; simpl in H; [inversion H; subst; exact R|].
  destruct (exec st e) as [st1|] eqn:E; [|discriminate]. destruct (exec_sound _ _ _ E) as [b Hs].
  eapply IH; [|exact H]. eapply RS; eauto.
Qed.

Corollary replay_init_reach k evs st' : replay (init node sol root smin smax k) evs 0 = inl st' -> Reach k st'.
Proof. apply replay_reach. apply R0. Qed.

Definition all_done (st : state) : bool := forallb (fun t => match t with Done => true | _ => false end) (thr st).
Definition all_stopped (st : state) : bool := forallb (fun t => match t with Done | Dead => true | _ => false end) (thr st).
Lemma all_done_spec st : all_done st = true -> forall i t, T node sol st i = Some t -> t = Done.
Proof.
  unfold all_done, T. rewrite forallb_forall. intros H i t Hi. apply nth_error_In in Hi. specialize (H t Hi). destruct t; try discriminate. reflexivity.
Qed.

(* conformance of a pop with the priority queue of the implementation (not needed for any theorem: the proof model allows
   every pending element): no pending element is greater in the lexicographic order (node order, stored score) *)
Variable node_cmp : node -> node -> comparison.
Definition pop_is_max (st : state) (n : node) (ps : Z) : bool :=
  forallb (fun q : node * Z => match node_cmp (fst q) n with Gt => false | Eq => snd q <=? ps | Lt => true end) (pend st).
End Exec.
