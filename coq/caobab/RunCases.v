(* Spike: one decomposition lemma for run_node, so that later proofs need not re-open its guards *)
From Coq Require Import List ZArith Lia Bool Arith Permutation.
Require Import Cert HP1 HP2 HP5 HP6 Hall Cao1 Cao2 Cao3 Cao4 Cao5 Cao6.
Import ListNotations.
Open Scope nat_scope.

Section RC.
Variables (courses : list course) (parts : list participant) (rgate : node -> assignment -> out (option (list node))) (pick : node -> list bool -> assignment -> list node).
Notation np := (np parts). Notation nc := (nc courses). Notation m_ := (m_ courses). Notation n_ := (n_ courses parts).
Notation crs := (crs courses). Notation instructs := (instructs courses). Notation instr_only := (instr_only parts).
Notation course_map := (course_map courses). Notation base := (base courses).

Inductive NodeRun (nd : node) (r : nres) : Prop :=
| NodeRun_intro (sx sy : list bool) (mm : list nat) (ms : Z)
   (nr_sy_eq : sy = skip_y courses nd)
   (nr_g : m_ <= n_ /\ countB (skip_x1 courses parts nd) <= n_ - m_ + countB sy /\
           np + (n_ - m_ + countB sy - countB (skip_x1 courses parts nd)) <= n_)
   (nr_sx_eq : sx = map (fun x => getB (skip_x1 courses parts nd) x ||
                          ((np <=? x) && (x <? np + (n_ - m_ + countB sy - countB (skip_x1 courses parts nd))))) (seq 0 n_))
   (nr_Hsx : forall p, p < np -> getB sx p = instr_only p || existsb (fun c => negb (cancelled nd c) && instructs p c) (seq 0 nc))
   (nr_Hsy : forall y, y < m_ -> getB sy y = (eff_max courses nd (course_map y) <=? y - base (course_map y)))
   (nr_guard : existsb (fun y => getB (mandatory_y courses nd) y && getB sy y) (seq 0 m_) = false)
   (nr_pm : HP5.is_pm (dummy_x courses parts) (mandatory_y courses nd) sx sy n_ m_ (pairs_of sy m_ mm))
   (nr_w : ms = HP6.weight (adjacency courses parts) (pairs_of sy m_ mm))
   (nr_opt : forall pm', HP5.is_pm (dummy_x courses parts) (mandatory_y courses nd) sx sy n_ m_ pm' ->
             (HP6.weight (adjacency courses parts) pm' <= ms)%Z)
   (nr_res : let a' := add_instr courses nd (amatch courses parts sy mm) in
             let s := (ms + instr_score courses parts nd)%Z in
             match rgate nd a' with
             | Val (Some bs) => r = Infeasible bs s
             | Val None =>
               r = if existsb (wrong_course parts sx a') (seq 0 np) || existsb (min_violation courses parts nd sx a') (seq 0 nc)
                   then Infeasible (pick nd sx a') s else Feasible a' s
             | _ => False
             end).

Theorem run_node_cases nd : forall r, run courses parts rgate pick nd = Val r -> r = NoSolution \/ NodeRun nd r.
Proof.
  intros r. unfold run, run_node.
  set (sx1 := skip_x1 courses parts nd). set (nsx := countB sx1). set (sy := skip_y courses nd). set (nsy := countB sy).
  destruct (_ <? sumN _); [intros H; inversion H; auto|]. destruct (sumN _ <? _); [intros H; inversion H; auto|].
  destruct (existsb _ (seq 0 np)); [intros H; inversion H; auto|].
  destruct ((n_ <? m_) || (n_ - m_ + nsy <? nsx)) eqn:G1; [discriminate|].
  apply orb_false_iff in G1. destruct G1 as [G1a G1b]. apply Nat.ltb_ge in G1a, G1b.
  set (extra := n_ - m_ + nsy - nsx). destruct (n_ <? np + extra) eqn:G2; [discriminate|]. apply Nat.ltb_ge in G2.
  set (sx := map (fun x => getB sx1 x || ((np <=? x) && (x <? np + extra))) (seq 0 n_)).
  set (my := mandatory_y courses nd).
  destruct (existsb (fun y => getB my y && getB sy y) (seq 0 m_)) eqn:G3; [discriminate|].
  assert (Hlsx1 : length sx1 = n_) by (unfold sx1, skip_x1; rewrite map_length, seq_length; reflexivity).
  assert (Hlsx : length sx = n_) by (unfold sx; rewrite map_length, seq_length; reflexivity).
  assert (Hlsy : length sy = m_) by (unfold sy, skip_y; rewrite map_length, seq_length; reflexivity).
  assert (Hsx1_np : forall x, getB sx1 x = true -> x < np).
  { intros x H. destruct (lt_dec x n_) as [Hx|Hx].
    - unfold sx1, skip_x1 in H. rewrite getB_map_seq' in H by exact Hx. apply andb_prop in H. destruct H as [H _]. apply Nat.ltb_lt in H. exact H.
    - unfold getB in H. rewrite nth_overflow in H by lia. discriminate. }
  assert (Hcnt : countB sx = nsx + extra).
  { unfold sx. rewrite countB_map. rewrite filter_or_disj.
    - fold (cntf (getB sx1) n_). fold (cntf (fun x => (np <=? x) && (x <? np + extra)) n_). rewrite cntf_interval by exact G2.
      unfold cntf. rewrite (count_filter sx1 n_ Hlsx1), cntT_countB. reflexivity.
    - intros x _ H. apply Hsx1_np in H. apply andb_false_iff. left. apply Nat.leb_gt. exact H. }
  assert (Hsq : length (rowsL sx n_) = length (colsL sy m_)).
  { rewrite (rows_len sx n_ Hlsx), (cols_len sy m_ Hlsy), Hcnt. pose proof (countB_le sy). fold nsy in H. rewrite Hlsy in H.
    unfold extra. lia. }
  pose proof (hungarian_partial (adjacency courses parts) (dummy_x courses parts) my sx sy n_ m_ Hsq) as HP.
  destruct (hungarian (adjacency courses parts) (dummy_x courses parts) my sx sy n_ m_) as [[[[mm ms] lx] ly]| |]; try discriminate.
  destruct HP as (Hpm & Hms & Hopt).
  intros H. right.
  apply (NodeRun_intro nd r sx sy mm ms).
  - reflexivity.
  - unfold nsy, nsx, extra, sx1 in *. repeat split; lia.
  - reflexivity.
  - intros p Hp. unfold sx. rewrite getB_map_seq' by (pose proof (np_le_n courses parts); lia).
    replace ((np <=? p) && (p <? np + extra)) with false by (symmetry; apply andb_false_iff; left; apply Nat.leb_gt; exact Hp).
    rewrite orb_false_r. unfold sx1, skip_x1. rewrite getB_map_seq' by (pose proof (np_le_n courses parts); lia).
    replace (p <? np) with true by (symmetry; apply Nat.ltb_lt; exact Hp). reflexivity.
  - intros y Hy. unfold sy, skip_y. rewrite getB_map_seq' by exact Hy. reflexivity.
  - exact G3.
  - exact Hpm.
  - exact Hms.
  - intros pm' Hpm'. apply Hopt, Hpm'.
  - cbn zeta. destruct (rgate nd _) as [[bs|]|site|]; try discriminate.
    + inversion H; reflexivity.
    + destruct (negb _ && existsb _ (seq 0 nc)); [discriminate|].
      destruct (existsb _ (seq 0 np) || existsb _ (seq 0 nc)); inversion H; reflexivity.
Qed.
End RC.
