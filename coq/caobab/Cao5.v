(* caobab spike, part 5: the node's masks are square; C01 at node level with the real Hungarian model *)
From Coq Require Import List ZArith Lia Bool Arith Permutation.
Require Import HP1 HP2 HP5 HP6 Cao1 Cao2 Cao3 Cao4.
Import ListNotations.
Open Scope nat_scope.

Definition cntf (f : nat -> bool) (n : nat) : nat := length (filter f (seq 0 n)).

Lemma filter_compl {A} (f : A -> bool) l : length (filter f l) + length (filter (fun x => negb (f x)) l) = length l.
Proof. induction l as [|a l IH]; simpl; [reflexivity|]. destruct (f a); simpl; lia. Qed.
Lemma countB_map (f : nat -> bool) l : countB (map f l) = length (filter f l).
Proof. unfold countB. induction l as [|a l IH]; simpl; [reflexivity|]. destruct (f a); simpl; rewrite IH; reflexivity. Qed.
Lemma countB_le l : countB l <= length l.
Proof. unfold countB. induction l as [|a l IH]; simpl; [lia|]. destruct a; simpl; lia. Qed.
Lemma cntf_ext f g n : (forall x, x < n -> f x = g x) -> cntf f n = cntf g n.
Proof. intros H. unfold cntf. f_equal. apply filter_ext_in. intros x Hx. apply in_seq in Hx. apply H. lia. Qed.
Lemma filter_or_disj {A} (g h : A -> bool) l : (forall x, In x l -> g x = true -> h x = false) ->
  length (filter (fun x => g x || h x) l) = length (filter g l) + length (filter h l).
Proof.
  induction l as [|a l IH]; intros H; simpl; [reflexivity|].
  assert (IH' := IH (fun x Hx => H x (or_intror Hx))).
  destruct (g a) eqn:Eg; simpl.
  - rewrite (H a (or_introl eq_refl) Eg). simpl. rewrite IH'. lia.
  - destruct (h a); simpl; rewrite IH'; lia.
Qed.
Lemma filter_none {A} (f : A -> bool) l : (forall x, In x l -> f x = false) -> filter f l = [].
Proof. induction l as [|a l IH]; intros H; simpl; [reflexivity|]. rewrite (H a (or_introl eq_refl)). apply IH. intros; apply H; right; assumption. Qed.
Lemma filter_all {A} (f : A -> bool) l : (forall x, In x l -> f x = true) -> filter f l = l.
Proof. induction l as [|a l IH]; intros H; simpl; [reflexivity|]. rewrite (H a (or_introl eq_refl)). f_equal. apply IH. intros; apply H; right; assumption. Qed.
Lemma cntf_interval a e n : a + e <= n -> cntf (fun x => (a <=? x) && (x <? a + e)) n = e.
Proof.
  intros H. unfold cntf. replace n with (a + (e + (n - a - e))) by lia. rewrite !seq_app, !filter_app, !app_length.
  rewrite (filter_none _ (seq 0 a)), (filter_all _ (seq (0 + a) e)), (filter_none _ (seq (0 + a + e) _)).
  - simpl. rewrite seq_length. lia.
  - intros x Hx. apply in_seq in Hx. apply andb_false_iff. right. apply Nat.ltb_ge. lia.
  - intros x Hx. apply in_seq in Hx. apply andb_true_iff. split; [apply Nat.leb_le|apply Nat.ltb_lt]; lia.
  - intros x Hx. apply in_seq in Hx. apply andb_false_iff. left. apply Nat.leb_gt. lia.
Qed.

Lemma cntT_countB l : cntT l = countB l.
Proof. unfold cntT, countB. induction l as [|a l IH]; simpl; [reflexivity|]. destruct a; destruct (bool_dec _ _); simpl; try congruence; rewrite IH; reflexivity. Qed.

Lemma rows_len sx n : length sx = n -> length (rowsL sx n) = n - countB sx.
Proof.
  intros Hl. unfold rowsL. pose proof (filter_compl (getB sx) (seq 0 n)) as H. rewrite seq_length in H.
  rewrite (count_filter sx n Hl), cntT_countB in H. lia.
Qed.
Lemma cols_len sy n : length sy = n -> length (colsL sy n) = n - countB sy.
Proof. apply rows_len. Qed.

Section Top.
Variables (courses : list course) (parts : list participant) (rgate : node -> assignment -> out (option (list node))) (pick : node -> list bool -> assignment -> list node).
Notation np := (np parts). Notation nc := (nc courses). Notation m_ := (m_ courses). Notation n_ := (n_ courses parts).
Notation crs := (crs courses). Notation instructs := (instructs courses).
Hypothesis Hinstr_rng : forall c i, c < nc -> In i (c_instr (crs c)) -> i < np.
Hypothesis Hone : forall p c c', c < nc -> c' < nc -> instructs p c = true -> instructs p c' = true -> c = c'.

Definition run := run_node courses parts HP1.hungarian rgate pick.

Lemma np_le_n : np <= n_. Proof. unfold Cao1.n_. lia. Qed.

Theorem run_node_feasible_hard nd a s : run nd = Val (Feasible a s) -> HardOK_K courses parts (cancelled nd) a.
Proof.
  unfold run, run_node. 
  set (sx1 := skip_x1 courses parts nd). set (nsx := countB sx1). set (sy := skip_y courses nd). set (nsy := countB sy).
  destruct (_ <? sumN _); [discriminate|]. destruct (sumN _ <? _); [discriminate|]. destruct (existsb _ (seq 0 np)); [discriminate|].
  destruct ((n_ <? m_) || (n_ - m_ + nsy <? nsx)) eqn:G1; [discriminate|].
  apply orb_false_iff in G1. destruct G1 as [G1a G1b]. apply Nat.ltb_ge in G1a, G1b.
  set (extra := n_ - m_ + nsy - nsx). destruct (n_ <? np + extra) eqn:G2; [discriminate|]. apply Nat.ltb_ge in G2.
  set (sx := map (fun x => getB sx1 x || ((np <=? x) && (x <? np + extra))) (seq 0 n_)).
  set (my := mandatory_y courses nd).
  destruct (existsb (fun y => getB my y && getB sy y) (seq 0 m_)); [discriminate|].
  (* masks are square *)
  assert (Hlsx1 : length sx1 = n_) by (unfold sx1, skip_x1; rewrite map_length, seq_length; reflexivity).
  assert (Hlsx : length sx = n_) by (unfold sx; rewrite map_length, seq_length; reflexivity).
  assert (Hlsy : length sy = m_) by (unfold sy, skip_y; rewrite map_length, seq_length; reflexivity).
  assert (Hsx1_np : forall x, getB sx1 x = true -> x < np).
  { intros x H. destruct (lt_dec x n_) as [Hx|Hx].
    - unfold sx1, skip_x1 in H. rewrite getB_map_seq' in H by exact Hx. apply andb_prop in H. destruct H as [H _]. apply Nat.ltb_lt in H. exact H.
    - unfold getB in H. rewrite nth_overflow in H by lia. discriminate. }
  assert (Hcnt : countB sx = nsx + extra).
  { unfold sx. rewrite countB_map. rewrite filter_or_disj.
    - fold (cntf (getB sx1) n_). fold (cntf (fun x => (np <=? x) && (x <? np + extra)) n_). rewrite cntf_interval by exact G2.
      unfold cntf. rewrite (count_filter sx1 n_ Hlsx1), cntT_countB. reflexivity.
    - intros x _ H. apply Hsx1_np in H. apply andb_false_iff. left. apply Nat.leb_gt. exact H. }
  assert (Hsq : length (rowsL sx n_) = length (colsL sy m_)).
  { rewrite (rows_len sx n_ Hlsx), (cols_len sy m_ Hlsy), Hcnt. pose proof (countB_le sy). fold nsy in H. rewrite Hlsy in H.
    unfold extra. lia. }
  pose proof (hungarian_partial (adjacency courses parts) (dummy_x courses parts) my sx sy n_ m_ Hsq) as HP.
  destruct (hungarian (adjacency courses parts) (dummy_x courses parts) my sx sy n_ m_) as [[[[mm ms] lx] ly]| |]; try discriminate.
  destruct HP as (Hpm & _).
  destruct (rgate nd _) as [[bs|]|site|]; try discriminate.
  destruct (negb _ && existsb _ (seq 0 nc)); [discriminate|].
  destruct (existsb (wrong_course parts sx _) (seq 0 np) || existsb (min_violation courses parts nd sx _) (seq 0 nc)) eqn:Gate; [discriminate|].
  apply orb_false_iff in Gate. destruct Gate as [Gw Gm].
  intros H. inversion H; subst a s. clear H.
  apply (gate_hard courses parts Hinstr_rng Hone (cm_spec courses) nd sx sy mm).
  - (* Hsx *) intros p Hp. unfold sx. rewrite getB_map_seq' by (pose proof np_le_n; lia).
    replace ((np <=? p) && (p <? np + extra)) with false by (symmetry; apply andb_false_iff; left; apply Nat.leb_gt; exact Hp).
    rewrite orb_false_r. unfold sx1, skip_x1. rewrite getB_map_seq' by (pose proof np_le_n; lia).
    replace (p <? np) with true by (symmetry; apply Nat.ltb_lt; exact Hp). reflexivity.
  - (* Hsy *) intros y Hy. unfold sy, skip_y. rewrite getB_map_seq' by exact Hy. reflexivity.
  - intros y Hy Hs. apply (V1 _ _ sx sy n_ m_ mm Hpm y Hy Hs).
  - intros y y' Hy Hy' Hs Hs' He. apply (V2 _ _ sx sy n_ m_ mm Hpm y y' Hy Hy' Hs Hs' He).
  - intros x Hx Hs. apply (V3 _ _ sx sy n_ m_ mm Hpm x ltac:(pose proof np_le_n; lia) Hs).
  - exact Gw.
  - exact Gm.
  - auto.
Qed.
End Top.
