(* Spike: C02_partial for the model without room stage = engine_complete instantiated with the covering lemmas *)
From Coq Require Import List ZArith Lia Bool Arith Permutation.
Require Import Cert HP1 HP2 HP5 HP6 Hall Cao1 Cao2 Cao3 Cao4 Cao5 Cao6 Relax1 Relax2 Relax3 Relax4 Score1 Cov1 Cov2 Cov3 Cov4 Cov5 RunCases Cov6.
Require EngP2.
Import ListNotations.
Open Scope nat_scope.

Section Final.
Variables (courses : list course) (parts : list participant).
Notation np := (np parts). Notation nc := (nc courses).
Notation crs := (crs courses). Notation instructs := (instructs courses).
Variable pick_wrong : node -> list bool -> assignment -> list node.
(* validity of the instance *)
Hypothesis Hinstr_rng : forall c i, c < nc -> In i (c_instr (crs c)) -> i < np.
Hypothesis Hone : forall p c c', c < nc -> c' < nc -> instructs p c = true -> instructs p c' = true -> c = c'.
Hypothesis Hpairs : forall nd, NoDup (map fst (instr_pairs courses nd)).
Hypothesis Hminmax : forall c, c < nc -> c_min (crs c) <= c_max (crs c).
Variable maxpen : Z.
Hypothesis Hpen : forall p ch, In ch (p_choices (prt parts p)) -> (0 <= ch_pen ch <= maxpen)%Z.
Hypothesis Hmaxpen : (0 <= maxpen)%Z /\ (Z.of_nat np * maxpen < WEIGHT_OFFSET)%Z.

Lemma no_rooms_val : forall (nd : node) (a : assignment), exists o, no_rooms nd a = Val o.
Proof. intros. exists None. reflexivity. Qed.

Definition the_pick := pick_real courses parts pick_wrong.
Definition f (nd : node) : EngP2.nres node assignment :=
  match run courses parts no_rooms the_pick nd with
  | Val NoSolution => EngP2.NoSol _ _
  | Val (Infeasible cs s) => EngP2.Infeas _ _ cs s
  | Val (Feasible a s) => EngP2.Feas _ _ a s
  | _ => EngP2.PanicR _ _
  end.
Definition root : node := {| n_cancel := []; n_enf := []; n_shrink := [] |}.

(* targets: solutions that keep their teachers *)
Record target := { t_a : assignment; t_K : nat -> bool;
                   t_sol : Solution courses parts t_K t_a;
                   t_fix : forall c, c < nc -> t_K c = true -> c_fixed (crs c) = false }.
Definition value (t : target) : Z := score_of courses parts (t_a t).
Definition covers (nd : node) (t : target) : Prop := Covers courses nd (t_K t).

(* no panic / overflow outcome on the subproblems the search generates: P is any predicate that holds of the root and is inherited by
   children (instantiated with well-formedness, for which C10 proves the absence of panic sites) *)
Variable P : node -> Prop.
Hypothesis P_root : P root.
Hypothesis P_child : forall n cs s c, P n -> f n = EngP2.Infeas _ _ cs s -> In c cs -> P c.
Hypothesis Hnopanic : forall nd, P nd -> f nd <> EngP2.PanicR _ _.
Variables (smin smax : Z).
Hypothesis Hrange : forall t, (value t <= smax)%Z.

Theorem C02_partial_noroom k st :
  EngP2.Reach node assignment f root smin smax k st -> 0 < k ->
  (forall i t, EngP2.T node assignment st i = Some t -> t = EngP2.Done node) ->
  forall t : target, EngP2.best node assignment st <> None /\ (score_of courses parts (t_a t) <= EngP2.bscore node assignment st)%Z.
Proof.
  intros R Hk Hall t.
  refine (EngP2.engine_complete node assignment f root smin smax target value covers P P_root P_child _ _ _ _ _ Hnopanic k st R Hk Hall t).
  - (* root covers everything *)
    intros t0. constructor; cbn; auto; [intros c H; discriminate|intros c []|constructor].
  - (* "no solution" nodes cover nothing *)
    intros nd t0 _ Hf Hcov. unfold f in Hf.
    pose proof (covered_node_bound courses parts no_rooms the_pick Hinstr_rng Hpairs nd (t_K t0) (t_a t0) (t_sol t0) Hcov no_rooms_val) as B.
    destruct (run courses parts no_rooms the_pick nd) as [[| |]| |]; try discriminate; exact B.
  - (* feasible nodes dominate what they cover *)
    intros nd x s t0 _ Hf Hcov. unfold f in Hf.
    pose proof (covered_node_bound courses parts no_rooms the_pick Hinstr_rng Hpairs nd (t_K t0) (t_a t0) (t_sol t0) Hcov no_rooms_val) as B.
    destruct (run courses parts no_rooms the_pick nd) as [[| |]| |]; try discriminate. inversion Hf; subst. exact B.
  - (* branching nodes dominate and hand on *)
    intros nd cs s t0 _ Hf Hcov. unfold f in Hf.
    pose proof (covered_node_bound courses parts no_rooms the_pick Hinstr_rng Hpairs nd (t_K t0) (t_a t0) (t_sol t0) Hcov no_rooms_val) as B.
    destruct (run courses parts no_rooms the_pick nd) as [[|cs' s'|]| |] eqn:Er; try discriminate. inversion Hf; subst. split; [exact B|].
    apply (branch_covers courses parts pick_wrong Hone Hminmax maxpen Hpen Hmaxpen nd (t_K t0) (t_a t0) (t_sol t0) (t_fix t0) Hcov cs s Er).
  - intros t0. apply Hrange.
Qed.
End Final.
