(* Spike for C02 relax_ge, abstract part: a block-wise placement of the real rows extends to a perfect allowed matching
   whose weight is the weight of the placement *)
From Coq Require Import List ZArith Lia Bool Arith Permutation.
Require Import Cert HP1 HP2 HP5 HP6 Hall.
Import ListNotations.
Open Scope nat_scope.

Lemma sumZ_flat_map {A} (f : A -> list Z) l : sumZ (flat_map f l) = sumZ (map (fun a => sumZ (f a)) l).
Proof. induction l as [|a l IH]; simpl; [reflexivity|]. rewrite sumZ_app, IH. reflexivity. Qed.
Lemma sumZ_zero l : Forall (fun z => z = 0%Z) l -> sumZ l = 0%Z.
Proof. induction 1; simpl; lia. Qed.

Lemma blocks_fst (A : nat -> list nat) (blk : nat -> nat) l :
  map fst (flat_map (fun c => combine (A c) (seq (blk c) (length (A c)))) l) = flat_map A l.
Proof. induction l as [|c l IH]; simpl; [reflexivity|]. rewrite map_app, IH. f_equal. apply map_fst_combine. rewrite seq_length. reflexivity. Qed.
Lemma blocks_snd (A : nat -> list nat) (blk : nat -> nat) l :
  map snd (flat_map (fun c => combine (A c) (seq (blk c) (length (A c)))) l) = flat_map (fun c => seq (blk c) (length (A c))) l.
Proof. induction l as [|c l IH]; simpl; [reflexivity|]. rewrite map_app, IH. f_equal. apply map_snd_combine. rewrite seq_length. reflexivity. Qed.

Section R.
Variables (w : list (list Z)) (dx my sx sy : list bool) (nx ny : nat).
Notation W := (HP1.W w). Notation rowsL := (rowsL sx nx). Notation colsL := (colsL sy ny).
Notation is_pm := (HP5.is_pm dx my sx sy nx ny). Notation weight := (HP6.weight w).

Variables (nc : nat) (blk : nat -> nat) (A : nat -> list nat).
Let Rl := filter (fun x => negb (getB dx x)) rowsL.
Let Dl := filter (fun x => negb (negb (getB dx x))) rowsL.
Let cols_of (c : nat) := seq (blk c) (length (A c)).
Let Used := flat_map cols_of (seq 0 nc).
Let real_pairs := flat_map (fun c => combine (A c) (cols_of c)) (seq 0 nc).

Hypothesis H1 : Permutation (flat_map A (seq 0 nc)) Rl.
Hypothesis H2 : incl Used colsL.
Hypothesis H3 : NoDup Used.
Hypothesis H4 : forall y, In y colsL -> getB my y = true -> In y Used.
Hypothesis H5 : forall x y, In x Dl -> W x y = 0%Z.
Hypothesis Hsq : length rowsL = length colsL.

Lemma real_fst : map fst real_pairs = flat_map A (seq 0 nc).
Proof. apply blocks_fst. Qed.
Lemma real_snd : map snd real_pairs = Used.
Proof. apply blocks_snd. Qed.

Theorem placement_extends : exists pm, is_pm pm /\ weight pm = weight real_pairs.
Proof.
  set (inUsed := fun y => existsb (Nat.eqb y) Used).
  assert (HinU : forall y, inUsed y = true <-> In y Used).
  { intros y. unfold inUsed. rewrite existsb_exists. split; [intros (z & Hz & E); apply Nat.eqb_eq in E; subst; auto|intros H; exists y; split; [auto|apply Nat.eqb_refl]]. }
  set (Ul := filter (fun y => negb (inUsed y)) colsL).
  assert (HU : Permutation (Used ++ Ul) colsL).
  { eapply Permutation_trans; [|apply (perm_partition inUsed colsL)]. apply Permutation_app_tail.
    apply NoDup_Permutation; [exact H3|apply NoDup_filter, NoDup_filter_seq|].
    intros y. rewrite filter_In, HinU. split; [intros H; split; [apply H2, H|exact H]|tauto]. }
  assert (HRD : Permutation (Rl ++ Dl) rowsL) by apply perm_partition.
  assert (HlD : length Dl = length Ul).
  { pose proof (Permutation_length HU) as L1. pose proof (Permutation_length HRD) as L2. pose proof (Permutation_length H1) as L3.
    rewrite !app_length in *. rewrite <- real_fst, <- real_snd in *. rewrite !map_length in *. lia. }
  exists (real_pairs ++ combine Dl Ul). split; [split; [|split]|].
  - rewrite map_app, real_fst, map_fst_combine by exact HlD.
    eapply Permutation_trans; [apply Permutation_app_tail, H1|exact HRD].
  - rewrite map_app, real_snd, map_snd_combine by exact HlD. exact HU.
  - apply Forall_app. split; apply Forall_forall; intros [x y] Hin; cbn [fst snd]; unfold HP1.allowed.
    + assert (Hx : In x Rl). { apply (Permutation_in _ H1). rewrite <- real_fst. apply (in_map fst) in Hin. exact Hin. }
      unfold Rl in Hx. apply filter_In in Hx. destruct Hx as [_ Hx]. apply negb_true_iff in Hx. rewrite Hx. reflexivity.
    + apply in_combine_r in Hin. unfold Ul in Hin. apply filter_In in Hin. destruct Hin as [Hy Hn].
      destruct (getB my y) eqn:Em; [|rewrite andb_false_r; reflexivity].
      apply negb_true_iff in Hn. assert (inUsed y = true) by (apply HinU, H4; assumption). congruence.
  - unfold HP6.weight. rewrite map_app, sumZ_app. rewrite (sumZ_zero (map _ (combine Dl Ul))); [lia|].
    apply Forall_forall. intros z Hz. apply in_map_iff in Hz. destruct Hz as ([x y] & <- & Hin). cbn [fst snd].
    apply H5. apply in_combine_l in Hin. exact Hin.
Qed.
End R.
