(* Spike for C02: what "node nd covers solution (a, K)" means, and the hypotheses A1-A4 of relax_ge_node derived from it *)
From Coq Require Import List ZArith Lia Bool Arith Permutation.
Require Import Cert HP1 HP2 HP5 HP6 Hall Cao1 Cao2 Cao3 Cao4 Cao5 Cao6 Relax1 Relax2 Relax3 Relax4 Score1.
Import ListNotations.
Open Scope nat_scope.

Section CV.
Variables (courses : list course) (parts : list participant).
Notation np := (np parts). Notation nc := (nc courses). Notation m_ := (m_ courses). Notation n_ := (n_ courses parts).
Notation crs := (crs courses). Notation instructs := (instructs courses). Notation instr_only := (instr_only parts).
Notation has_choice := (has_choice parts).
Hypothesis Hinstr_rng : forall c i, c < nc -> In i (c_instr (crs c)) -> i < np.
Hypothesis Hone : forall p c c', c < nc -> c' < nc -> instructs p c = true -> instructs p c' = true -> c = c'.

(* a solution: assignment a with its set K of courses that do not take place; it keeps its teachers *)
Record Solution (K : nat -> bool) (a : assignment) : Prop := {
  s_hard : HardOK_K courses parts K a;
  s_keep : forall p c, p < np -> c < nc -> instr_only p = false -> instructs p c = true -> getO a p = Some c;
  s_Krng : forall c, K c = true -> c < nc
}.

Record Covers (nd : node) (K : nat -> bool) : Prop := {
  c_can : forall c, cancelled nd c = true -> K c = true;
  c_enf : forall c, In c (n_enf nd) -> K c = false /\ c < nc;
  c_enf_nd : NoDup (n_enf nd);
  c_noshrink : n_shrink nd = []        (* C02: no room stage *)
}.

Variables (nd : node) (K : nat -> bool) (a : assignment).
Hypothesis Hs : Solution K a.
Hypothesis Hc : Covers nd K.
Let sx1 := skip_x1 courses parts nd.

Lemma K_no_teacher c p : c < nc -> K c = true -> p < np -> instructs p c = true -> instr_only p = true.
Proof.
  intros Hcn Hk Hp Hi. destruct (instr_only p) eqn:E; [reflexivity|].
  pose proof (s_keep K a Hs p c Hp Hcn E Hi) as Ha. exfalso. apply (h_K _ _ _ _ (s_hard K a Hs) c Hcn Hk p Hp Ha).
Qed.

Lemma sx1_spec p : p < np -> getB sx1 p = instr_only p || existsb (fun c => negb (cancelled nd c) && instructs p c) (seq 0 nc).
Proof.
  intros Hp. unfold sx1, skip_x1. rewrite getB_map_seq' by (pose proof (np_le_n courses parts); lia).
  replace (p <? np) with true by (symmetry; apply Nat.ltb_lt; exact Hp). reflexivity.
Qed.
(* an active participant of the node has choices and instructs no course that takes place in the solution *)
Lemma active_free p : p < np -> getB sx1 p = false ->
  instr_only p = false /\ forall c, c < nc -> K c = false -> instructs p c = false.
Proof.
  intros Hp Hsx. rewrite (sx1_spec p Hp) in Hsx. apply orb_false_iff in Hsx. destruct Hsx as [Hio Hex]. split; [exact Hio|].
  intros c Hcn Hk. pose proof (existsb_false_all _ _ Hex c ltac:(apply in_seq; lia)) as E. cbn in E.
  destruct (cancelled nd c) eqn:Ec; [rewrite (c_can nd K Hc c Ec) in Hk; discriminate|]. exact E.
Qed.

Lemma cov_A4 p : p < np -> getB sx1 p = false -> exists c, getO a p = Some c /\ has_choice p c = true /\ cancelled nd c = false.
Proof.
  intros Hp Hsx. destruct (active_free p Hp Hsx) as [Hio Hn].
  destruct (h_choice _ _ _ _ (s_hard K a Hs) p Hp Hio Hn) as (c & Ha & Hch). exists c. split; [exact Ha|]. split; [exact Hch|].
  destruct (cancelled nd c) eqn:Ec; [|reflexivity]. exfalso.
  pose proof (c_can nd K Hc c Ec) as Hk. apply (h_K _ _ _ _ (s_hard K a Hs) c (s_Krng K a Hs c Hk) Hk p Hp Ha).
Qed.
Lemma cov_A1 p : p < np -> getB sx1 p = false -> exists c, c < nc /\ getO a p = Some c.
Proof. intros Hp Hsx. destruct (cov_A4 p Hp Hsx) as (c & Ha & _). exists c. split; [apply (h_rng _ _ _ _ (s_hard K a Hs) p c Hp Ha)|exact Ha]. Qed.

Let A (c : nat) : list nat := filter (fun p => negb (getB sx1 p) && opt_is (getO a p) c) (seq 0 np).

(* the group of c is exactly the attendees of c in the solution *)
Lemma group_is_attendees c : c < nc -> length (A c) = attendees courses parts a c.
Proof.
  intros Hcn. unfold A, attendees. f_equal. apply filter_ext_in. intros p Hp. apply in_seq in Hp.
  unfold opt_is. destruct (getO a p) as [c'|] eqn:Ea; [|apply andb_false_r].
  destruct (Nat.eqb c' c) eqn:E; [apply Nat.eqb_eq in E; subst c'|apply andb_false_r]. rewrite andb_true_r. cbn [andb].
  (* a p = Some c: p is active iff it does not instruct c *)
  assert (Hk : K c = false). { destruct (K c) eqn:Ek; [|reflexivity]. exfalso. apply (h_K _ _ _ _ (s_hard K a Hs) c Hcn Ek p ltac:(lia) Ea). }
  destruct (instructs p c) eqn:Ei; cbn [negb].
  - (* instructs c (which takes place and is not cancelled in nd) -> skipped *)
    apply negb_false_iff. rewrite (sx1_spec p ltac:(lia)). apply orb_true_iff. right. apply existsb_exists. exists c.
    split; [apply in_seq; lia|]. rewrite Ei, andb_true_r. apply negb_true_iff.
    destruct (cancelled nd c) eqn:Ec; [rewrite (c_can nd K Hc c Ec) in Hk; discriminate|reflexivity].
  - apply negb_true_iff. rewrite (sx1_spec p ltac:(lia)). apply orb_false_iff. split.
    + destruct (instr_only p) eqn:Eio; [|reflexivity]. destruct (h_only _ _ _ _ (s_hard K a Hs) p ltac:(lia) Eio c Ea) as (Hi & _). congruence.
    + destruct (existsb _ _) eqn:Ex; [|reflexivity]. apply existsb_exists in Ex. destruct Ex as (c' & Hc' & E). apply in_seq in Hc'.
      apply andb_prop in E. destruct E as [Ecan Ei']. apply negb_true_iff in Ecan.
      (* p instructs c' (not cancelled in nd). If p has choices it teaches c' in a, so c' = c: contradiction. If not, a p = Some c forces instructs p c. *)
      destruct (instr_only p) eqn:Eio.
      * destruct (h_only _ _ _ _ (s_hard K a Hs) p ltac:(lia) Eio c Ea) as (Hi & _). congruence.
      * pose proof (s_keep K a Hs p c' ltac:(lia) ltac:(lia) Eio Ei') as Ha'. rewrite Ea in Ha'. inversion Ha'; subst. congruence.
Qed.

Lemma eff_max_noshrink c : eff_max courses nd c = if cancelled nd c then 0 else c_max (crs c).
Proof. unfold eff_max. rewrite (c_noshrink nd K Hc). reflexivity. Qed.

Lemma cov_A2 c : c < nc -> length (A c) <= eff_max courses nd c.
Proof.
  intros Hcn. rewrite (group_is_attendees c Hcn), eff_max_noshrink. destruct (K c) eqn:Ek.
  - (* empty in the solution *)
    assert (attendees courses parts a c = 0); [|lia]. unfold attendees. rewrite filter_none; [reflexivity|].
    intros p Hp. apply in_seq in Hp. destruct (getO a p) as [c'|] eqn:Ea; [|reflexivity].
    destruct (Nat.eqb c' c) eqn:E; [|reflexivity]. apply Nat.eqb_eq in E. subst. exfalso. apply (h_K _ _ _ _ (s_hard K a Hs) c Hcn Ek p ltac:(lia) Ea).
  - destruct (cancelled nd c) eqn:Ec; [rewrite (c_can nd K Hc c Ec) in Ek; discriminate|].
    apply (h_notK _ _ _ _ (s_hard K a Hs) c Hcn Ek).
Qed.
Lemma cov_A3 c : In c (n_enf nd) -> c < nc -> c_min (crs c) <= length (A c).
Proof.
  intros Hin Hcn. rewrite (group_is_attendees c Hcn). destruct (c_enf nd K Hc c Hin) as [Hk _].
  apply (h_notK _ _ _ _ (s_hard K a Hs) c Hcn Hk).
Qed.
Lemma cov_Wenf : NoDup (n_enf nd) /\ forall c, In c (n_enf nd) -> c < nc.
Proof. split; [apply (c_enf_nd nd K Hc)|intros c Hin; apply (c_enf nd K Hc c Hin)]. Qed.
End CV.
