(* C02 assembled: the covering theorem (C02Engine) with the no-panic hypothesis discharged by C10 (NoPanic, WfPres); what remains as
   hypothesis is that the matching routine never reports its range-checked i32 Overflow outcome. *)
From Coq Require Import List ZArith Lia Bool Arith.
Require Import HP1 Cao1 Cao3 Cao5 Score1 Cov1 Rooms Spec Valid Node NodeThms NodeWf Solve NoPanic RoomSites WfPres C02Engine.
Require EngP2.
Import ListNotations.
Open Scope nat_scope.

Section F.
Variables (courses : list course) (parts : list participant).
Hypothesis V : Valid courses parts.
Notation ide := (fun (_ : nat) (n : nat) => n).
Notation f0 := (C02Engine.f courses parts (pick_wrong courses parts)).
Notation full0 := (run_full courses parts ide ide None).

Lemma fs_id : FloatSane courses ide ide None.
Proof. exact I. Qed.

Lemma f0_full nd : f0 nd = to_eng (full0 nd).
Proof. reflexivity. Qed.

Hypothesis Hnoov : forall nd, full0 nd <> HOverflow.

Lemma f0_child n cs s c : Wf2 courses n -> f0 n = EngP2.Infeas _ _ cs s -> In c cs -> Wf2 courses c.
Proof.
  intros Pn Hf Hc. rewrite f0_full in Hf. apply to_eng_inf in Hf.
  apply (children_wf2 courses parts ide ide None V fs_id n cs s Pn Hf c Hc).
Qed.
Lemma f0_nopanic nd : Wf2 courses nd -> f0 nd <> EngP2.PanicR _ _.
Proof.
  intros Pn Hf. rewrite f0_full in Hf. destruct (full0 nd) as [[| |]|site|] eqn:E; try discriminate.
  - apply (run_panic_sites courses parts _ _ (valid_one _ _ V) (v_minmax _ _ V) (fun _ => False) (fun s' Hs => match Hs with end)
             (fun nd' a s' (Hp : the_gate courses ide ide None nd' a = Panic s') => ltac:(discriminate Hp)) nd site (wf2_wf courses nd Pn) E).
  - apply (Hnoov nd E).
Qed.

Theorem c02_partial_full smin smax k st :
  (forall a, (score_of courses parts a <= smax)%Z) ->
  EngP2.Reach node assignment f0 root smin smax k st -> 0 < k ->
  (forall i t, EngP2.T node assignment st i = Some t -> t = EngP2.Done node) ->
  forall K a, Solution courses parts K a -> (forall c, c < nc courses -> K c = true -> c_fixed (crs courses c) = false) ->
  EngP2.best node assignment st <> None /\ (score_of courses parts a <= EngP2.bscore node assignment st)%Z.
Proof.
  intros Hr R Hk Hfin K a Hs Hfix.
  pose (t := {| t_a := a; t_K := K; t_sol := Hs; t_fix := Hfix |}).
  assert (Hmp : (0 <= maxpen parts)%Z /\ (Z.of_nat (np parts) * maxpen parts < WEIGHT_OFFSET)%Z).
  { split; [|apply (v_pen _ _ V)]. unfold maxpen. apply Valid.fold_max_ge. right. lia. }
  exact (C02_partial_noroom courses parts (pick_wrong courses parts) (v_instr_rng _ _ V) (valid_one _ _ V) (valid_pairs _ _ V)
           (v_minmax _ _ V) (maxpen parts) (valid_pen _ _ V) Hmp (Wf2 courses) (wf2_root courses) f0_child f0_nopanic smin smax (fun t0 => Hr _) k st R Hk Hfin t).
Qed.
End F.
