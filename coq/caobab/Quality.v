(* Model of caobab/solution_score.rs (integer part): theoretical_max_score, the numerator and denominator of solution_quality;
   theorems: the numerator is the sum of the penalties of the participants with choices, and the theoretical maximum is never
   below the score of an assignment (C08). *)
From Coq Require Import List ZArith Lia Bool Arith.
Require Import Cert HP1 Cao1 Cao3 Score1 Spec Valid.
Import ListNotations.
Open Scope nat_scope.

Section Q.
Variables (courses : list course) (parts : list participant).
Notation nc := (nc courses). Notation np := (np parts). Notation crs := (crs courses). Notation prt := (prt parts).
Notation instructs := (instructs courses). Notation instr_only := (instr_only parts). Notation cw := (choice_weight parts).

Definition n_real : nat := length (filter (fun p => negb (instr_only p)) (seq 0 np)).
Definition best_choice (p : nat) : Z := fold_left Z.max (map (fun ch => (WEIGHT_OFFSET - ch_pen ch)%Z) (p_choices (prt p))) 0%Z.
Definition is_instructor (p : nat) : bool := existsb (fun c => instructs p c) (seq 0 nc).
Definition theo_max : Z :=
  sumZ (map (fun p => if instr_only p then 0%Z else if is_instructor p then WEIGHT_OFFSET else best_choice p) (seq 0 np)).
(* what one participant contributes to the score, and the penalty counted for him in the quality figure *)
Definition contribution (a : assignment) (p : nat) : Z :=
  if instr_only p then 0%Z else match getO a p with Some c => if instructs p c then WEIGHT_OFFSET else cw p c | None => 0%Z end.
Definition penalty_of (a : assignment) (p : nat) : Z := (WEIGHT_OFFSET - contribution a p)%Z.
Definition quality_num (score : Z) : Z := (Z.of_nat n_real * WEIGHT_OFFSET - score)%Z.

Lemma score_of_contrib a : score_of courses parts a = sumZ (map (contribution a) (seq 0 np)).
Proof. reflexivity. Qed.

Lemma sum_compl {A} (F : A -> Z) (W : Z) (L : list A) :
  sumZ (map (fun p => (W - F p)%Z) L) = (Z.of_nat (length L) * W - sumZ (map F L))%Z.
Proof.
  induction L as [|p L IH]; [reflexivity|]. cbn [length map]. rewrite Nat2Z.inj_succ.
  change (sumZ ((W - F p)%Z :: map (fun p0 => (W - F p0)%Z) L)) with ((W - F p) + sumZ (map (fun p0 => (W - F p0)%Z) L))%Z.
  change (sumZ (F p :: map F L)) with (F p + sumZ (map F L))%Z. rewrite IH. lia.
Qed.

(* numerator of the reported quality lack = sum of the penalties of the participants with choices (instructors count zero) *)
Theorem quality_num_sum a :
  quality_num (score_of courses parts a) = sumZ (map (penalty_of a) (filter (fun p => negb (instr_only p)) (seq 0 np))).
Proof.
  unfold quality_num, n_real. rewrite score_of_contrib.
  rewrite (sumZ_partition (fun p => negb (instr_only p)) (contribution a) (seq 0 np)).
  assert (E0 : sumZ (map (contribution a) (filter (fun x => negb (negb (instr_only x))) (seq 0 np))) = 0%Z).
  { rewrite (sumZ_const _ 0%Z); [lia|]. intros x Hx. apply filter_In in Hx. destruct Hx as [_ Hx]. rewrite negb_involutive in Hx.
    unfold contribution. rewrite Hx. reflexivity. }
  rewrite E0. rewrite (sum_compl (contribution a) WEIGHT_OFFSET). unfold penalty_of. lia.
Qed.

Lemma fold_max_ge0 l : forall acc, (acc <= fold_left Z.max l acc)%Z.
Proof. induction l as [|x t IH]; intros acc; simpl; [lia|]. specialize (IH (Z.max acc x)). lia. Qed.
Lemma fold_max_in l : forall acc x, In x l -> (x <= fold_left Z.max l acc)%Z.
Proof.
  induction l as [|y t IH]; intros acc x H; simpl; [destruct H|]. destruct H as [->|H]; [|apply IH; exact H].
  pose proof (fold_max_ge0 t (Z.max acc x)). lia.
Qed.

Lemma cw_cases p c : cw p c = 0%Z \/ exists ch, In ch (p_choices (prt p)) /\ cw p c = (WEIGHT_OFFSET - ch_pen ch)%Z.
Proof.
  unfold choice_weight.
  assert (G : forall l acc, (acc = 0%Z \/ exists ch, In ch (p_choices (prt p)) /\ acc = (WEIGHT_OFFSET - ch_pen ch)%Z) ->
     (forall ch, In ch l -> In ch (p_choices (prt p))) ->
     let r := fold_left (fun acc ch => if Nat.eqb (ch_course ch) c then (WEIGHT_OFFSET - ch_pen ch)%Z else acc) l acc in
     r = 0%Z \/ exists ch, In ch (p_choices (prt p)) /\ r = (WEIGHT_OFFSET - ch_pen ch)%Z).
  { induction l as [|ch t IH]; intros acc Ha Hl; simpl; [exact Ha|]. apply IH; [|intros; apply Hl; right; assumption].
    destruct (Nat.eqb (ch_course ch) c); [right; exists ch; split; [apply Hl; left; reflexivity|reflexivity]|exact Ha]. }
  apply G; auto.
Qed.

(* the theoretical maximum score is never below the score of any assignment whose entries are courses of the instance *)
Theorem score_le_theo_max a : Valid courses parts -> (forall p c, p < np -> getO a p = Some c -> c < nc) ->
  (score_of courses parts a <= theo_max)%Z.
Proof.
  intros V Hr. rewrite score_of_contrib. unfold theo_max. apply sumZ_map_le. apply Forall_forall. intros p Hp. apply in_seq in Hp.
  unfold contribution. destruct (instr_only p); [lia|].
  assert (Hbc : (0 <= best_choice p)%Z) by apply fold_max_ge0.
  assert (Hcw : forall c, (cw p c <= best_choice p)%Z /\ (cw p c <= WEIGHT_OFFSET)%Z).
  { intros c. destruct (cw_cases p c) as [->|(ch & Hin & ->)].
    - split; [exact Hbc|unfold WEIGHT_OFFSET; lia].
    - split; [apply fold_max_in; apply in_map_iff; exists ch; auto|]. destruct (v_choice _ _ V p ch Hin) as [_ [H0 _]]. lia. }
  destruct (getO a p) as [c|] eqn:Ea.
  - destruct (instructs p c) eqn:Ei.
    + assert (Hi : is_instructor p = true).
      { unfold is_instructor. apply existsb_exists. exists c. split; [apply in_seq; specialize (Hr p c ltac:(lia) Ea); lia|exact Ei]. }
      rewrite Hi. lia.
    + destruct (is_instructor p); apply Hcw.
  - destruct (is_instructor p); [unfold WEIGHT_OFFSET; lia|exact Hbc].
Qed.
End Q.
