(* The node theorems instantiated for the complete node function Node.run_full (room stage and both branching heuristics
   included): hard constraints (C01), truthful score (C08), room gate (C06), no stuck matching (C10, site 4). *)
From Coq Require Import List ZArith Lia Bool Arith Permutation.
Require Import Cert HP1 HP2 HP5 HP6 Hall Cao1 Cao2 Cao3 Cao4 Cao5 Cao6 Score1 Score2 RunCases Cov6 Rooms Spec Node Valid RoomThms.
Import ListNotations.
Open Scope nat_scope.

Section NT.
Variables (courses : list course) (parts : list participant).
Variable esize : nat -> nat -> nat.
Variable shrinkf : nat -> nat -> nat.
Variable rooms : option (list nat).
Hypothesis V : Valid courses parts.
Notation nc := (nc courses). Notation np := (np parts). Notation crs := (crs courses).
Notation full := (run_full courses parts esize shrinkf rooms).

Theorem full_feasible_hard nd a s : full nd = Val (Feasible a s) -> HardOK_K courses parts (cancelled nd) a.
Proof.
  apply (run_node_feasible_hard courses parts _ _ (v_instr_rng _ _ V) (valid_one _ _ V)).
Qed.

Theorem full_feasible_score nd a s : full nd = Val (Feasible a s) -> s = score_of courses parts a.
Proof.
  apply (run_node_feasible_score courses parts _ _ (v_instr_rng _ _ V) (valid_one _ _ V) (valid_pairs _ _ V)).
Qed.

Theorem full_any_score nd r : full nd = Val r ->
  match r with Feasible _ s | Infeasible _ s => exists a, s = score_of courses parts a | NoSolution => True end.
Proof.
  apply (run_node_any_score courses parts _ _ (v_instr_rng _ _ V) (valid_one _ _ V) (valid_pairs _ _ V)).
Qed.

Lemma full_feasible_gate nd a s : full nd = Val (Feasible a s) -> the_gate courses esize shrinkf rooms nd a = Val None.
Proof.
  intros H. destruct (run_node_cases courses parts _ _ nd _ H) as [Hn|NR]; [discriminate|].
  destruct NR as [sx sy mm ms _ _ _ _ _ _ _ _ _ Hres]. cbn zeta in Hres.
  destruct (the_gate courses esize shrinkf rooms nd _) as [[bs|]| |] eqn:Eg; try contradiction; [discriminate|].
  destruct (_ || _); [discriminate|]. inversion Hres; subst. exact Eg.
Qed.

End NT.

Section NTR.
Variables (courses : list course) (parts : list participant).
Variable esize : nat -> nat -> nat.
Variable shrinkf : nat -> nat -> nat.
Hypothesis V : Valid courses parts.
Notation nc := (nc courses).
Theorem full_feasible_housed rs nd a s :
  run_full courses parts esize shrinkf (Some rs) nd = Val (Feasible a s) -> Housed (map (eff_size courses esize a) (seq 0 nc)) rs.
Proof.
  intros H. apply (room_gate_none_housed courses esize shrinkf rs nd a). apply (full_feasible_gate courses parts esize shrinkf (Some rs) nd a s H).
Qed.
End NTR.
