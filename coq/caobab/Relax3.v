(* Spike for C02 relax_ge, caobab part 2: from a covered assignment to a perfect matching of the node's place graph *)
From Coq Require Import List ZArith Lia Bool Arith Permutation.
Require Import Cert HP1 HP2 HP5 HP6 Hall Cao1 Cao2 Cao3 Cao4 Cao5 Cao6 Relax1 Relax2.
Import ListNotations.
Open Scope nat_scope.

Lemma flat_map_ext_in {A B} (f g : A -> list B) l : (forall a, In a l -> f a = g a) -> flat_map f l = flat_map g l.
Proof. induction l as [|a l IH]; intros H; simpl; [reflexivity|]. rewrite (H a (or_introl eq_refl)), IH; [reflexivity|]. intros; apply H; right; assumption. Qed.
Lemma seq_split c0 n : c0 < n -> seq 0 n = seq 0 c0 ++ c0 :: seq (S c0) (n - c0 - 1).
Proof. intros H. replace n with (c0 + S (n - c0 - 1)) at 1 by lia. rewrite seq_app. reflexivity. Qed.

Lemma group_perm (f : nat -> bool) (g : nat -> nat -> bool) nc : forall L,
  (forall p, In p L -> f p = true -> exists c, c < nc /\ g p c = true) ->
  (forall p c c', g p c = true -> g p c' = true -> c = c') ->
  Permutation (flat_map (fun c => filter (fun p => f p && g p c) L) (seq 0 nc)) (filter f L).
Proof.
  induction L as [|p L IH]; intros Hex Hun.
  - simpl. induction (seq 0 nc); simpl; auto.
  - assert (IH' := IH (fun q Hq => Hex q (or_intror Hq)) Hun). destruct (f p) eqn:Ef.
    + replace (filter f (p :: L)) with (p :: filter f L) by (cbn [filter]; rewrite Ef; reflexivity).
      destruct (Hex p (or_introl eq_refl) Ef) as (c0 & Hc0 & Hg0).
      rewrite (seq_split c0 nc Hc0) in *. rewrite !flat_map_app in *. cbn [flat_map] in *.
      set (F := fun c => filter (fun q => f q && g q c) L) in *.
      assert (Hoth : forall c, c <> c0 -> filter (fun q => f q && g q c) (p :: L) = F c).
      { intros c Hne. cbn [filter]. rewrite Ef. destruct (g p c) eqn:E; [exfalso; apply Hne; eapply Hun; eauto|reflexivity]. }
      rewrite (flat_map_ext_in _ F (seq 0 c0)) by (intros c Hc; apply in_seq in Hc; apply Hoth; lia).
      rewrite (flat_map_ext_in _ F (seq (S c0) (nc - c0 - 1))) by (intros c Hc; apply in_seq in Hc; apply Hoth; lia).
      cbn [filter]. rewrite Ef, Hg0. cbn [andb]. fold (F c0).
      eapply Permutation_trans; [apply Permutation_sym, Permutation_middle|]. constructor. exact IH'.
    + replace (filter f (p :: L)) with (filter f L) by (cbn [filter]; rewrite Ef; reflexivity).
      erewrite flat_map_ext; [exact IH'|]. intros c. cbn [filter]. rewrite Ef. reflexivity.
Qed.

Lemma sumZ_map_flat_map {A B} (F : B -> Z) (G : A -> list B) l : sumZ (map F (flat_map G l)) = sumZ (map (fun c => sumZ (map F (G c))) l).
Proof. induction l as [|a l IH]; simpl; [reflexivity|]. rewrite map_app, sumZ_app, IH. reflexivity. Qed.

Definition opt_is (o : option nat) (c : nat) : bool := match o with Some c' => Nat.eqb c' c | None => false end.

Section RX.
Variables (courses : list course) (parts : list participant).
Notation np := (np parts). Notation nc := (nc courses). Notation m_ := (m_ courses). Notation n_ := (n_ courses parts).
Notation crs := (crs courses). Notation base := (base courses). Notation course_map := (course_map courses).
Notation cw := (choice_weight parts).

Lemma W_adj x y : x < n_ -> y < m_ -> HP1.W (adjacency courses parts) x y = if x <? np then cw x (course_map y) else 0%Z.
Proof.
  intros Hx Hy. unfold HP1.W, row, adjacency, getZ.
  rewrite (nth_map_seq (fun x => map (fun y => if x <? np then cw x (course_map y) else 0%Z) (seq 0 m_)) n_ x [] Hx).
  rewrite (nth_map_seq _ m_ y 0%Z Hy). reflexivity.
Qed.
Lemma W_adj_dummy x y : np <= x -> HP1.W (adjacency courses parts) x y = 0%Z.
Proof.
  intros Hx. destruct (lt_dec x n_) as [Hxn|Hxn].
  - destruct (lt_dec y m_) as [Hy|Hy].
    + rewrite W_adj by assumption. replace (x <? np) with false by (symmetry; apply Nat.ltb_ge; exact Hx). reflexivity.
    + unfold HP1.W, row, adjacency, getZ. rewrite (nth_map_seq _ n_ x [] Hxn). rewrite nth_overflow; [reflexivity|]. rewrite map_length, seq_length. lia.
  - unfold HP1.W, row, adjacency, getZ. rewrite (nth_overflow _ []) by (rewrite map_length, seq_length; lia). destruct y; reflexivity.
Qed.

Variable nd : node.
Variable a : assignment.
Let sx1 := skip_x1 courses parts nd.
Let A (c : nat) : list nat := filter (fun p => negb (getB sx1 p) && opt_is (getO a p) c) (seq 0 np).
(* what the covered assignment provides *)
Hypothesis A1 : forall p, p < np -> getB sx1 p = false -> exists c, c < nc /\ getO a p = Some c.
Hypothesis A2 : forall c, c < nc -> length (A c) <= eff_max courses nd c.
Hypothesis A3 : forall c, In c (n_enf nd) -> c < nc -> c_min (crs c) <= length (A c).

Definition placed_weight : Z := sumZ (map (fun c => sumZ (map (fun p => cw p c) (A c))) (seq 0 nc)).

Theorem relax_pm :
  let nsx := countB sx1 in let sy := skip_y courses nd in let nsy := countB sy in
  n_ >= m_ -> n_ - m_ + nsy >= nsx ->
  let extra := n_ - m_ + nsy - nsx in
  np + extra <= n_ ->
  let sx := map (fun x => getB sx1 x || ((np <=? x) && (x <? np + extra))) (seq 0 n_) in
  let my := mandatory_y courses nd in
  exists pm, HP5.is_pm (dummy_x courses parts) my sx sy n_ m_ pm /\ HP6.weight (adjacency courses parts) pm = placed_weight.
Proof.
  intros nsx sy nsy G1a G1b extra G2 sx my.
  assert (Hlsx1 : length sx1 = n_) by (unfold sx1, skip_x1; rewrite map_length, seq_length; reflexivity).
  assert (Hlsx : length sx = n_) by (unfold sx; rewrite map_length, seq_length; reflexivity).
  assert (Hlsy : length sy = m_) by (unfold sy, skip_y; rewrite map_length, seq_length; reflexivity).
  assert (Hnpn : np <= n_) by apply np_le_n.
  assert (Hsx1_np : forall x, getB sx1 x = true -> x < np).
  { intros x H. destruct (lt_dec x n_) as [Hx|Hx].
    - unfold sx1, skip_x1 in H. rewrite getB_map_seq' in H by exact Hx. apply andb_prop in H. destruct H as [H _]. apply Nat.ltb_lt in H. exact H.
    - unfold getB in H. rewrite nth_overflow in H by lia. discriminate. }
  assert (Hcnt : countB sx = nsx + extra).
  { unfold sx. rewrite countB_map. rewrite filter_or_disj.
    - fold (cntf (getB sx1) n_). fold (cntf (fun x => (np <=? x) && (x <? np + extra)) n_). rewrite cntf_interval by exact G2.
      unfold cntf. rewrite (count_filter sx1 n_ Hlsx1), cntT_countB. reflexivity.
    - intros x _ H. apply Hsx1_np in H. apply andb_false_iff. left. apply Nat.leb_gt. exact H. }
  assert (Hsq : length (rowsL sx n_) = length (colsL sy m_)).
  { rewrite (rows_len sx n_ Hlsx), (cols_len sy m_ Hlsy), Hcnt. pose proof (countB_le sy). fold nsy in H. rewrite Hlsy in H.
    unfold extra. lia. }
  (* the real active rows, as a list *)
  assert (HRl : filter (fun x => negb (getB (dummy_x courses parts) x)) (rowsL sx n_) = filter (fun p => negb (getB sx1 p)) (seq 0 np)).
  { unfold rowsL. rewrite filter_filter. replace n_ with (np + (n_ - np)) at 1 by lia. rewrite seq_app, filter_app.
    rewrite (filter_none _ (seq (0 + np) (n_ - np))).
    2:{ intros x Hx. apply in_seq in Hx. unfold dummy_x. rewrite getB_map_seq' by lia.
        replace (np <=? x) with true by (symmetry; apply Nat.leb_le; lia). rewrite andb_false_r. reflexivity. }
    rewrite app_nil_r. apply filter_ext_in. intros x Hx. apply in_seq in Hx. unfold dummy_x, sx. rewrite !getB_map_seq' by lia.
    replace (np <=? x) with false by (symmetry; apply Nat.leb_gt; lia). cbn. rewrite orb_false_r, andb_true_r. reflexivity. }
  assert (HAlen : forall c, c < nc -> length (A c) <= c_max (crs c)).
  { intros c Hc. pose proof (A2 c Hc). pose proof (eff_max_le courses nd c). lia. }
  destruct (placement_extends (adjacency courses parts) (dummy_x courses parts) my sx sy n_ m_ nc base A) as (pm & Hpm & Hw).
  - (* H1: grouping *)
    rewrite HRl. apply (group_perm (fun p => negb (getB sx1 p)) (fun p c => opt_is (getO a p) c) nc (seq 0 np)).
    + intros p Hp Hf. apply in_seq in Hp. apply negb_true_iff in Hf. destruct (A1 p ltac:(lia) Hf) as (c & Hc & Ha).
      exists c. split; [exact Hc|]. unfold opt_is. rewrite Ha. apply Nat.eqb_refl.
    + intros p c c' H H'. unfold opt_is in *. destruct (getO a p); [|discriminate]. apply Nat.eqb_eq in H, H'. congruence.
  - (* H2: used columns are active *)
    intros y Hy. apply in_flat_map in Hy. destruct Hy as (c & Hc & Hy). apply in_seq in Hc. apply in_seq in Hy.
    set (j := y - base c). assert (Hj : j < c_max (crs c)) by (pose proof (HAlen c ltac:(lia)); lia).
    destruct (course_map_block courses c j ltac:(lia) Hj) as [Hm Hcm]. replace (base c + j) with y in * by lia.
    apply in_colsL. split; [exact Hm|]. unfold sy, skip_y. rewrite getB_map_seq' by exact Hm. rewrite Hcm. fold j.
    apply Nat.leb_gt. pose proof (A2 c ltac:(lia)). lia.
  - (* H3: blocks are disjoint *)
    apply NoDup_flat_map_disj; [apply seq_NoDup|intros; apply seq_NoDup|].
    intros c c' y Hc Hc' Hne Hy Hy'. apply in_seq in Hc, Hc', Hy, Hy'.
    assert (Hj : y - base c < c_max (crs c)) by (pose proof (HAlen c ltac:(lia)); lia).
    assert (Hj' : y - base c' < c_max (crs c')) by (pose proof (HAlen c' ltac:(lia)); lia).
    destruct (course_map_block courses c _ ltac:(lia) Hj) as [_ E]. destruct (course_map_block courses c' _ ltac:(lia) Hj') as [_ E'].
    replace (base c + (y - base c)) with y in E by lia. replace (base c' + (y - base c')) with y in E' by lia. congruence.
  - (* H4: mandatory active columns are used *)
    intros y Hy Hm. apply in_colsL in Hy. destruct Hy as [Hy _].
    unfold my, mandatory_y in Hm. rewrite getB_map_seq' in Hm by exact Hy. apply andb_prop in Hm. destruct Hm as [Hm1 Hm2].
    apply memb_true in Hm1. apply Nat.ltb_lt in Hm2. destruct (cm_spec courses y Hy) as (Hc & Hb & _).
    apply in_flat_map. exists (course_map y). split; [apply in_seq; lia|]. apply in_seq. pose proof (A3 _ Hm1 Hc). lia.
  - (* H5: dummy rows weigh nothing *)
    intros x y Hx. apply filter_In in Hx. destruct Hx as [Hx Hd]. apply in_rowsL in Hx. destruct Hx as [Hxn _].
    rewrite negb_involutive in Hd. unfold dummy_x in Hd. rewrite getB_map_seq' in Hd by exact Hxn. apply Nat.leb_le in Hd.
    apply W_adj_dummy. exact Hd.
  - exact Hsq.
  - exists pm. split; [exact Hpm|]. rewrite Hw. unfold HP6.weight, placed_weight. rewrite sumZ_map_flat_map.
    f_equal. apply map_ext_in. intros c Hc. apply in_seq in Hc.
    (* per block *)
    assert (G : forall (l : list nat) b, (forall p, In p l -> p < np) -> b + length l <= base c + c_max (crs c) -> base c <= b ->
              sumZ (map (fun q : nat * nat => HP1.W (adjacency courses parts) (fst q) (snd q)) (combine l (seq b (length l)))) = sumZ (map (fun p => cw p c) l)).
    { induction l as [|p l IH]; intros b Hp Hb Hb0; cbn [length seq combine map sumZ fold_right]; [reflexivity|].
      unfold sumZ in *. cbn [fold_right]. rewrite (IH (S b)) by (try (intros; apply Hp; right; assumption); cbn [length] in Hb; lia).
      f_equal. cbn [fst snd]. cbn [length] in Hb.
      destruct (course_map_block courses c (b - base c) ltac:(lia) ltac:(lia)) as [Hm Hcm]. replace (base c + (b - base c)) with b in * by lia.
      rewrite W_adj by (try exact Hm; pose proof (Hp p (or_introl eq_refl)); lia).
      replace (p <? np) with true by (symmetry; apply Nat.ltb_lt; apply Hp; left; reflexivity). rewrite Hcm. reflexivity. }
    apply G; [|pose proof (HAlen c ltac:(lia)); lia|lia].
    intros p Hp. apply filter_In in Hp. destruct Hp as [Hp _]. apply in_seq in Hp. lia.
Qed.
End RX.
