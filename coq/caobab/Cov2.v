(* Spike for C02: for a covered solution, placed weight + instructor score = score of the solution; node bound *)
From Coq Require Import List ZArith Lia Bool Arith Permutation.
Require Import Cert HP1 HP2 HP5 HP6 Hall Cao1 Cao2 Cao3 Cao4 Cao5 Cao6 Relax1 Relax2 Relax3 Relax4 Score1 Cov1.
Import ListNotations.
Open Scope nat_scope.

Section CV2.
Variables (courses : list course) (parts : list participant) (rgate : node -> assignment -> out (option (list node))) (pick : node -> list bool -> assignment -> list node).
Notation np := (np parts). Notation nc := (nc courses).
Notation crs := (crs courses). Notation instructs := (instructs courses). Notation instr_only := (instr_only parts).
Notation cw := (choice_weight parts).
Hypothesis Hinstr_rng : forall c i, c < nc -> In i (c_instr (crs c)) -> i < np.
Hypothesis Hone : forall p c c', c < nc -> c' < nc -> instructs p c = true -> instructs p c' = true -> c = c'.
Hypothesis Hpairs : forall nd, NoDup (map fst (instr_pairs courses nd)).

Variables (nd : node) (K : nat -> bool) (a : assignment).
Hypothesis Hs : Solution courses parts K a.
Hypothesis Hc : Covers courses nd K.
Let sx1 := skip_x1 courses parts nd.

Lemma placed_is_score : (placed_weight courses parts nd a + instr_score courses parts nd)%Z = score_of courses parts a.
Proof.
  unfold placed_weight, score_of. fold sx1.
  set (G := fun p => match getO a p with Some c => cw p c | None => 0%Z end).
  set (Rl := filter (fun p => negb (getB sx1 p)) (seq 0 np)).
  (* placed weight as a sum over the active participants *)
  assert (HP : sumZ (map (fun c => sumZ (map (fun p => cw p c) (filter (fun p => negb (getB sx1 p) && opt_is (getO a p) c) (seq 0 np)))) (seq 0 nc)) = sumZ (map G Rl)).
  { rewrite (map_ext_in _ (fun c => sumZ (map G (filter (fun p => negb (getB sx1 p) && opt_is (getO a p) c) (seq 0 np))))).
    2:{ intros c _. f_equal. apply map_ext_in. intros p Hp. apply filter_In in Hp. destruct Hp as [_ Hp].
        apply andb_prop in Hp. destruct Hp as [_ Hp]. unfold opt_is in Hp. unfold G. destruct (getO a p); [|discriminate]. apply Nat.eqb_eq in Hp. subst. reflexivity. }
    rewrite <- sumZ_map_flat_map. apply sumZ_map_perm.
    apply (group_perm (fun p => negb (getB sx1 p)) (fun p c => opt_is (getO a p) c) nc (seq 0 np)).
    - intros p Hp Hf. apply in_seq in Hp. apply negb_true_iff in Hf.
      destruct (cov_A1 courses parts nd K a Hs Hc p ltac:(lia) Hf) as (c & Hcn & Ha). exists c. split; [exact Hcn|]. unfold opt_is. rewrite Ha. apply Nat.eqb_refl.
    - intros p c c' H H'. unfold opt_is in *. destruct (getO a p); [|discriminate]. apply Nat.eqb_eq in H, H'. congruence. }
  rewrite HP.
  (* the score of the solution, split into active / skipped *)
  rewrite (sumZ_partition (fun p => negb (getB sx1 p)) _ (seq 0 np)). fold Rl. f_equal.
  - apply sumZ_map_eq. apply Forall_forall. intros p Hp. unfold Rl in Hp. apply filter_In in Hp. destruct Hp as [Hp Hsx]. apply in_seq in Hp. apply negb_true_iff in Hsx.
    destruct (active_free courses parts nd K Hc p ltac:(lia) Hsx) as [Hio Hn]. rewrite Hio. unfold G.
    destruct (getO a p) as [c|] eqn:Ea; [|reflexivity].
    assert (Hcn : c < nc) by (apply (h_rng _ _ _ _ (s_hard _ _ K a Hs) p c ltac:(lia) Ea)).
    assert (Hk : K c = false). { destruct (K c) eqn:Ek; [|reflexivity]. exfalso. apply (h_K _ _ _ _ (s_hard _ _ K a Hs) c Hcn Ek p ltac:(lia) Ea). }
    rewrite (Hn c Hcn Hk). reflexivity.
  - rewrite instr_score_sum.
    rewrite (teachers_count courses parts Hinstr_rng nd sx1 (Hpairs nd) (sx1_spec courses parts nd)).
    rewrite (sumZ_partition (fun p => negb (instr_only p)) _ (filter _ _)). rewrite !filter_filter.
    rewrite (sumZ_zero (map _ (filter (fun x => negb (negb (getB sx1 x)) && negb (negb (instr_only x))) _))).
    2:{ apply Forall_forall. intros z Hz. apply in_map_iff in Hz. destruct Hz as (p & <- & Hp). apply filter_In in Hp. destruct Hp as [_ Hp].
        apply andb_prop in Hp. destruct Hp as [_ Hp]. rewrite negb_involutive in Hp. rewrite Hp. reflexivity. }
    rewrite Z.add_0_r. symmetry.
    rewrite (filter_ext _ (fun p => getB sx1 p && negb (instr_only p))) by (intros p; rewrite negb_involutive; reflexivity).
    apply sumZ_const. intros p Hp. apply filter_In in Hp. destruct Hp as [Hp Hcnd]. apply in_seq in Hp. apply andb_prop in Hcnd. destruct Hcnd as [Hsx Hio].
    apply negb_true_iff in Hio. rewrite Hio.
    unfold sx1 in Hsx. rewrite (sx1_spec courses parts nd p ltac:(lia)), Hio in Hsx. cbn [orb] in Hsx. apply existsb_exists in Hsx. destruct Hsx as (c & Hcn & Hx). apply in_seq in Hcn.
    apply andb_prop in Hx. destruct Hx as [_ Hi].
    rewrite (s_keep _ _ K a Hs p c ltac:(lia) ltac:(lia) Hio Hi), Hi. reflexivity.
Qed.

Hypothesis Hrg : forall nd a, exists o, rgate nd a = Val o.

(* C02 step 2 in final form: a node that covers a solution is not "no solution" and its score bounds the solution's score *)
Theorem covered_node_bound :
  match run courses parts rgate pick nd with
  | Val (Infeasible _ s) | Val (Feasible _ s) => (score_of courses parts a <= s)%Z
  | HOverflow => True
  | Panic 5 => True
  | _ => False
  end.
Proof.
  rewrite <- placed_is_score.
  apply (relax_ge_node courses parts rgate pick nd a
           (cov_A1 courses parts nd K a Hs Hc) (cov_A2 courses parts nd K a Hs Hc) (cov_A3 courses parts nd K a Hs Hc)
           (cov_A4 courses parts nd K a Hs Hc) (cov_Wenf courses nd K Hc) Hrg).
Qed.
End CV2.
