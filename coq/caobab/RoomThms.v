(* The room gate of the node function: if the gate lets an assignment pass, the effective course sizes fit the rooms rank by rank
   after sorting both in descending order (C06 at node level); the sort used is a correct stable sort. *)
From Coq Require Import List ZArith Lia Bool Arith Permutation Sorted.
Require Import HP1 Cao1 Rooms Spec Consts.
Import ListNotations.
Open Scope nat_scope.

(* ---- sort_by is a sort ---- *)
Lemma insert_by_perm {A} (key : A -> nat) x : forall l, Permutation (insert_by key x l) (x :: l).
Proof.
  induction l as [|y t IH]; simpl; [reflexivity|]. destruct (key x <=? key y); [reflexivity|].
  rewrite IH. apply perm_swap.
Qed.
Lemma sort_by_perm {A} (key : A -> nat) : forall l, Permutation (sort_by key l) l.
Proof. induction l as [|x t IH]; simpl; [reflexivity|]. unfold sort_by in *. simpl. rewrite insert_by_perm. constructor. exact IH. Qed.
Lemma sort_by_length {A} (key : A -> nat) l : length (sort_by key l) = length l.
Proof. apply Permutation_length, sort_by_perm. Qed.

Definition asc {A} (key : A -> nat) (l : list A) : Prop := forall i j, i <= j -> j < length l -> forall d, key (nth i l d) <= key (nth j l d).
Lemma insert_by_sorted {A} (key : A -> nat) x : forall l, StronglySorted (fun a b => key a <= key b) l ->
  StronglySorted (fun a b => key a <= key b) (insert_by key x l).
Proof.
  induction l as [|y t IH]; intros H; simpl; [repeat constructor|].
  inversion H as [|? ? Ht Hy]; subst. destruct (key x <=? key y) eqn:E.
  - apply Nat.leb_le in E. constructor; [exact H|]. constructor; [exact E|]. rewrite Forall_forall in *. intros z Hz. specialize (Hy z Hz). lia.
  - apply Nat.leb_gt in E. constructor; [apply IH; exact Ht|]. rewrite Forall_forall in *. intros z Hz.
    apply (Permutation_in _ (insert_by_perm key x t)) in Hz. destruct Hz as [<-|Hz]; [lia|auto].
Qed.
Lemma sort_by_sorted {A} (key : A -> nat) : forall l, StronglySorted (fun a b => key a <= key b) (sort_by key l).
Proof. induction l as [|x t IH]; [constructor|]. unfold sort_by in *. simpl. apply insert_by_sorted. exact IH. Qed.

Lemma map_insert_by {A} (key : A -> nat) x : forall l, map key (insert_by key x l) = insert_by (fun r => r) (key x) (map key l).
Proof. induction l as [|y t IH]; simpl; [reflexivity|]. destruct (key x <=? key y); simpl; [reflexivity|]. rewrite IH. reflexivity. Qed.
Lemma map_sort_by {A} (key : A -> nat) : forall l, map key (sort_by key l) = sort_by (fun r => r) (map key l).
Proof. induction l as [|x t IH]; [reflexivity|]. unfold sort_by in *. simpl. rewrite map_insert_by, IH. reflexivity. Qed.

(* ---- the statement of C06: descending rank-wise comparison ---- *)
Definition desc (l : list nat) : list nat := rev (sort_by (fun r => r) l).
Definition Housed (sizes rooms : list nat) : Prop := forall i, i < length sizes -> nth i (desc sizes) 0 <= nth i (desc rooms) 0.

Lemma desc_perm l : Permutation (desc l) l.
Proof. unfold desc. rewrite <- Permutation_rev. apply sort_by_perm. Qed.
Lemma desc_length l : length (desc l) = length l.
Proof. apply Permutation_length, desc_perm. Qed.
Lemma desc_sorted l : forall i j, i <= j -> j < length l -> nth j (desc l) 0 <= nth i (desc l) 0.
Proof.
  intros i j Hij Hj. unfold desc. set (S := sort_by (fun r => r) l). assert (HL : length S = length l) by apply sort_by_length.
  rewrite !rev_nth by lia. pose proof (sort_by_sorted (fun r : nat => r) l) as HS. fold S in HS.
  assert (G : forall (L : list nat), StronglySorted (fun a b => a <= b) L -> forall a b, a <= b -> b < length L -> nth a L 0 <= nth b L 0).
  { induction 1 as [|x t Ht IH Hx]; intros a b Hab Hb; [simpl in Hb; lia|]. destruct a as [|a], b as [|b]; simpl in *; try lia.
    - rewrite Forall_forall in Hx. apply Hx. apply nth_In. lia.
    - apply IH; lia. }
  apply G; [exact HS|lia|lia].
Qed.

Lemma housedb_spec sizes rooms : housedb sizes rooms = true <-> Housed sizes rooms.
Proof.
  unfold housedb, Housed. fold (desc sizes) (desc rooms). rewrite forallb_forall. rewrite desc_length. split.
  - intros H i Hi. apply Nat.leb_le. apply H. apply in_seq. lia.
  - intros H i Hi. apply in_seq in Hi. apply Nat.leb_le. apply H. lia.
Qed.

Lemma nth_firstn_lt {A} (d : A) : forall n l j, j < n -> nth j (firstn n l) d = nth j l d.
Proof. induction n as [|n IH]; intros l j Hj; [lia|]. destruct l as [|x t]; [reflexivity|]. destruct j; simpl; [reflexivity|]. apply IH. lia. Qed.

Section RG.
Variables (courses : list course) (parts : list participant).
Variable esize : nat -> nat -> nat.
Variable shrinkf : nat -> nat -> nat.
Notation nc := (nc courses).

Lemma prep_rooms_length rs : length (prep_rooms courses rs) = nc.
Proof.
  unfold prep_rooms. rewrite app_length, firstn_length, repeat_length. lia.
Qed.
Lemma prep_rooms_nth rs j : j < nc -> nth j (prep_rooms courses rs) 0 = nth j (desc rs) 0.
Proof.
  intros Hj. unfold prep_rooms. fold (desc rs). destruct (Nat.lt_ge_cases j (length (desc rs))) as [H|H].
  - rewrite app_nth1 by (rewrite firstn_length; lia). apply nth_firstn_lt. lia.
  - rewrite app_nth2 by (rewrite firstn_length; lia). rewrite nth_repeat. rewrite nth_overflow by exact H. reflexivity.
Qed.

Lemma course_sizes_snd a : map snd (course_sizes courses esize a) = map (eff_size courses esize a) (seq 0 nc).
Proof. unfold course_sizes. rewrite map_map. reflexivity. Qed.

Theorem room_sets_none_housed rs nd a :
  room_sets courses esize shrinkf (prep_rooms courses rs) nd a = Val None ->
  Housed (map (eff_size courses esize a) (seq 0 nc)) rs.
Proof.
  unfold room_sets. set (cs := sort_by (fun p : nat * nat => snd p) (course_sizes courses esize a)).
  assert (Hn : length cs = nc) by (unfold cs; rewrite sort_by_length; unfold course_sizes; rewrite map_length, seq_length; reflexivity).
  rewrite prep_rooms_length, Hn, Nat.min_id.
  destruct (find _ (seq 0 nc)) as [j|] eqn:Ef.
  - repeat (match goal with |- context [match ?x with _ => _ end] => destruct x end); discriminate.
  - intros _. intros i Hi. rewrite map_length, seq_length in Hi.
    pose proof (find_none _ _ Ef i ltac:(apply in_seq; lia)) as E. apply Nat.ltb_ge in E.
    rewrite prep_rooms_nth in E by exact Hi. eapply Nat.le_trans; [|exact E].
    assert (Hd : map snd cs = sort_by (fun r => r) (map (eff_size courses esize a) (seq 0 nc))).
    { unfold cs. rewrite <- course_sizes_snd. apply (map_sort_by (fun p : nat * nat => snd p)). }
    unfold desc. rewrite <- Hd. rewrite rev_nth by (rewrite map_length; lia).
    rewrite map_length, Hn. replace (nc - S i) with (nc - 1 - i) by lia.
    rewrite (nth_indep _ 0 (snd (0, 0))) by (rewrite map_length; lia). rewrite map_nth. apply Nat.le_refl.
Qed.

Theorem room_gate_none_housed rs nd a :
  room_gate courses esize shrinkf (Some rs) nd a = Val None -> Housed (map (eff_size courses esize a) (seq 0 nc)) rs.
Proof.
  unfold room_gate. destruct (room_sets _ _ _ _ _ _) as [[sets|]| |] eqn:E; try discriminate. intros _.
  apply (room_sets_none_housed rs nd a E).
Qed.
End RG.

(* ---- the panic sites of the room stage are 6..10 (so the room gate never reports the matching routine's site 4) ---- *)
Section Sites.
Variables (courses : list course) (parts : list participant).
Variable esize : nat -> nat -> nat.
Variable shrinkf : nat -> nat -> nat.

Lemma create_set_site nd : forall cl ts ar sh ca s, create_set courses esize shrinkf nd cl ts ar sh ca = Panic s -> s = 9.
Proof.
  induction cl as [|c t IH]; intros ts ar sh ca s H; simpl in H; [discriminate|].
  repeat (match type of H with context [if ?b then _ else _] => destruct b end; try discriminate; try (inversion H; reflexivity); try (eapply IH; exact H)).
Qed.
Lemma create_set_noov nd : forall cl ts ar sh ca, create_set courses esize shrinkf nd cl ts ar sh ca <> HOverflow.
Proof.
  induction cl as [|c t IH]; intros ts ar sh ca H; simpl in H; [discriminate|].
  repeat (match type of H with context [if ?b then _ else _] => destruct b end; try discriminate; try (eapply IH; exact H)).
Qed.
Lemma build_sets_site nd : forall sels ts al acc s, build_sets courses esize shrinkf nd sels ts al acc = Panic s -> s = 8 \/ s = 9.
Proof.
  induction sels as [|sel t IH]; intros ts al acc s H; simpl in H; [discriminate|].
  destruct (create_set courses esize shrinkf nd sel ts true [] []) as [[[sh ca]|]| |] eqn:Ec.
  - destruct (sh ++ fst al); [destruct (ca ++ snd al); [inversion H; auto|eapply IH; exact H]|eapply IH; exact H].
  - eapply IH; exact H.
  - inversion H; subst. right. eapply create_set_site; exact Ec.
  - discriminate.
Qed.
Lemma build_sets_noov nd : forall sels ts al acc, build_sets courses esize shrinkf nd sels ts al acc <> HOverflow.
Proof.
  induction sels as [|sel t IH]; intros ts al acc H; simpl in H; [discriminate|].
  destruct (create_set courses esize shrinkf nd sel ts true [] []) as [[[sh ca]|]| |] eqn:Ec.
  - destruct (sh ++ fst al); [destruct (ca ++ snd al); [discriminate|eapply IH; exact H]|eapply IH; exact H].
  - eapply IH; exact H.
  - discriminate.
  - eapply create_set_noov; exact Ec.
Qed.
Theorem room_sets_site rs nd a s : room_sets courses esize shrinkf rs nd a = Panic s -> 6 <= s <= 10.
Proof.
  unfold room_sets. destruct (find _ (seq 0 _)) as [j|]; [|discriminate].
  destruct (find_index _ _) as [sm|]; [|intros H; inversion H; lia].
  destruct (_ <? sm); [intros H; inversion H; lia|].
  destruct (if _ <? MIN_K_nat then _ else _) as [lower k].
  match goal with |- context [create_set ?c ?e ?sf ?n ?cl ?ts false [] []] => destruct (create_set c e sf n cl ts false [] []) as [[al|]| |] eqn:Eal end.
  - match goal with |- context [build_sets ?c ?e ?sf ?n ?sels ?ts ?al' []] => destruct (build_sets c e sf n sels ts al' []) as [sets| |] eqn:Eb end.
    + discriminate.
    + intros H. inversion H; subst. destruct (build_sets_site _ _ _ _ _ _ Eb); lia.
    + discriminate.
  - intros H. inversion H; lia.
  - intros H. inversion H; subst. pose proof (create_set_site _ _ _ _ _ _ _ Eal). lia.
  - discriminate.
Qed.
Theorem room_gate_site rooms nd a s : room_gate courses esize shrinkf rooms nd a = Panic s -> 6 <= s <= 10.
Proof.
  unfold room_gate. destruct rooms as [rs|]; [|discriminate].
  destruct (room_sets courses esize shrinkf (prep_rooms courses rs) nd a) as [[sets|]| |] eqn:E; try discriminate.
  intros H. inversion H; subst. eapply room_sets_site; exact E.
Qed.
End Sites.

(* ---- a room list that cannot bind lets every assignment pass the gate (C17) ---- *)
Section NonBinding.
Variables (courses : list course) (parts : list participant).
Variable esize : nat -> nat -> nat.
Variable shrinkf : nat -> nat -> nat.
Notation nc := (nc courses). Notation crs := (crs courses).

(* at least as many rooms as courses, and every size a course can reach (up to its maximum plus its instructors) fits the
   smallest of the nc largest rooms *)
Definition NonBinding (rs : list nat) : Prop :=
  nc <= length rs /\ forall c s, c < nc -> s <= c_max (crs c) + n_instr courses c -> esize c s <= nth (nc - 1) (desc rs) 0.

Lemma find_all_false {A} (f : A -> bool) l : (forall x, In x l -> f x = false) -> find f l = None.
Proof. induction l as [|x t IH]; intros H; simpl; [reflexivity|]. rewrite (H x (or_introl eq_refl)). apply IH. intros y Hy. apply H. right. exact Hy. Qed.

Theorem nonbinding_gate rs nd a : NonBinding rs ->
  (forall c, c < nc -> people a c <= c_max (crs c) + n_instr courses c) ->
  room_gate courses esize shrinkf (Some rs) nd a = Val None.
Proof.
  intros [Hlen Hfit] Hpeople. unfold room_gate, room_sets.
  set (cs := sort_by (fun p : nat * nat => snd p) (course_sizes courses esize a)).
  assert (Hn : length cs = nc) by (unfold cs; rewrite sort_by_length; unfold course_sizes; rewrite map_length, seq_length; reflexivity).
  rewrite prep_rooms_length, Hn, Nat.min_id.
  rewrite find_all_false; [reflexivity|].
  intros j Hj. apply in_seq in Hj. apply Nat.ltb_ge. rewrite prep_rooms_nth by lia.
  transitivity (nth (nc - 1) (desc rs) 0); [|apply desc_sorted; lia].
  assert (Hin : In (nth (nc - 1 - j) cs (0, 0)) cs) by (apply nth_In; lia).
  destruct (nth (nc - 1 - j) cs (0, 0)) as [c0 s0] eqn:En. simpl.
  unfold cs in Hin. apply (Permutation_in _ (sort_by_perm _ _)) in Hin. unfold course_sizes in Hin. apply in_map_iff in Hin.
  destruct Hin as (c & Hc & Hcin). apply in_seq in Hcin. inversion Hc; subst c0 s0.
  unfold eff_size. destruct ((people a c =? 0) && negb (c_fixed (crs c))); [lia|]. apply Hfit; [lia|apply Hpeople; lia].
Qed.
End NonBinding.
