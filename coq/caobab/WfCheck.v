(* the executable class predicate of the node correspondence implies the well-formedness the C10 theorems are stated for *)
From Coq Require Import List ZArith Lia Bool Arith.
Require Import HP1 Cao1 Cao3 Spec NoPanic.
Import ListNotations.
Open Scope nat_scope.

Lemma node_wfb_wf courses nd : node_wfb courses nd = true -> WfNode courses nd.
Proof.
  unfold node_wfb. intros H. apply andb_prop in H. destruct H as [H H4]. apply andb_prop in H. destruct H as [H _].
  apply andb_prop in H. destruct H as [H1 H2]. rewrite forallb_forall in H1, H2, H4.
  intros c Hc. split; [apply Nat.ltb_lt, H2, Hc|]. split.
  - unfold cancelled. destruct (memb c (n_cancel nd)) eqn:E; [|reflexivity]. apply memb_true in E. specialize (H1 c E).
    apply andb_prop in H1. destruct H1 as [_ H1]. apply negb_true_iff in H1. apply memb_true in Hc. congruence.
  - intros cs Hcs <-. specialize (H4 cs Hcs). apply andb_prop in H4. destruct H4 as [_ H4]. apply orb_true_iff in H4. destruct H4 as [H4|H4].
    + apply negb_true_iff in H4. apply memb_true in Hc. congruence.
    + apply Nat.leb_le. exact H4.
Qed.
