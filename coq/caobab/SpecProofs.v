(* The executable specification predicates of Spec.v imply the Prop-level specification (so a `true` computed on an
   implementation output by the correspondence run means the proposition). *)
From Coq Require Import List ZArith Lia Bool Arith.
Require Import HP1 Cao1 Cao3 Rooms Spec.
Import ListNotations.
Open Scope nat_scope.

Section SP.
Variables (courses : list course) (parts : list participant).
Notation nc := (nc courses). Notation np := (np parts). Notation crs := (crs courses).

Lemma opt_isb_spec a p c : opt_isb a p c = true <-> getO a p = Some c.
Proof.
  unfold opt_isb. destruct (getO a p) as [c'|]; [|split; discriminate]. rewrite Nat.eqb_eq. split; [intros ->; reflexivity|intros H; inversion H; reflexivity].
Qed.

Theorem hard_okb_sound K a : hard_okb courses parts K a = true -> HardOK_K courses parts K a.
Proof.
  unfold hard_okb. intros H. repeat (apply andb_true_iff in H; destruct H as [H ?]).
  rename H into Hlen, H2 into Hrng, H1 into Hcs, H0 into Hps.
  rewrite forallb_forall in Hrng, Hcs, Hps.
  constructor.
  - apply Nat.eqb_eq. exact Hlen.
  - intros p c Hp Ha. specialize (Hrng p ltac:(apply in_seq; lia)). rewrite Ha in Hrng. apply Nat.ltb_lt. exact Hrng.
  - intros c Hc Hk p Hp Ha. specialize (Hcs c ltac:(apply in_seq; lia)). rewrite Hk in Hcs. rewrite forallb_forall in Hcs.
    specialize (Hcs p ltac:(apply in_seq; lia)). apply negb_true_iff in Hcs. apply opt_isb_spec in Ha. congruence.
  - intros c Hc Hk. specialize (Hcs c ltac:(apply in_seq; lia)). rewrite Hk in Hcs.
    repeat (apply andb_true_iff in Hcs; destruct Hcs as [Hcs ?]). rewrite forallb_forall in Hcs. split.
    + intros i Hi. apply opt_isb_spec. apply Hcs. exact Hi.
    + split; [apply Nat.leb_le|apply Nat.leb_le]; assumption.
  - intros p Hp Hio Hn. specialize (Hps p ltac:(apply in_seq; lia)). rewrite Hio in Hps. apply orb_true_iff in Hps. destruct Hps as [Hps|Hps].
    + apply existsb_exists in Hps. destruct Hps as (c & Hc & Hps). apply in_seq in Hc. apply andb_true_iff in Hps. destruct Hps as [H1 H2].
      apply negb_true_iff in H1. rewrite (Hn c ltac:(lia) H1) in H2. discriminate.
    + destruct (getO a p) as [c|]; [|discriminate]. exists c. split; [reflexivity|exact Hps].
  - intros p Hp Hio c Ha. specialize (Hps p ltac:(apply in_seq; lia)). rewrite Hio, Ha in Hps.
    repeat (apply andb_true_iff in Hps; destruct Hps as [Hps ?]). apply negb_true_iff in H0. apply Nat.ltb_lt in H. auto.
Qed.
End SP.
