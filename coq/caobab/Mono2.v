(* Monotonicity of the node relaxation, node level (outside class TC): a child subproblem (more cancelled, enforced or shrunk
   courses) never scores higher than its parent.  With it the whole subproblem tree -- room constraint sets included -- is bound
   consistent, so C09/C03 apply to caobab::solve with and without room lists. *)
From Coq Require Import List ZArith Lia Bool Arith Permutation.
Require Import Cert HP1 HP2 HP5 HP6 Hall Cao1 Cao2 Cao3 Cao4 Cao5 Cao6 Relax1 Relax2 Relax3 Relax4 Score1 RunCases Rooms Spec Valid Node NoPanic
               RoomThms NodeWf RoomSites WfPres Mono1.
Import ListNotations.
Open Scope nat_scope.

Section MN.
Variables (courses : list course) (parts : list participant).
Notation nc := (nc courses). Notation np := (np parts). Notation m_ := (m_ courses). Notation n_ := (n_ courses parts).
Notation crs := (crs courses). Notation course_map := (course_map courses). Notation base := (base courses).
Notation instructs := (instructs courses). Notation instr_only := (instr_only parts).
Hypothesis V : Valid courses parts.
(* outside class TC: whoever instructs a course has no choices of his own *)
Hypothesis NoTC : forall p c, p < np -> c < nc -> instructs p c = true -> instr_only p = true.

Lemma in_tc_false : in_tc courses parts = false -> forall p c, p < np -> c < nc -> instructs p c = true -> instr_only p = true.
Proof.
  unfold in_tc. intros H p c Hp Hc Hi. destruct (instr_only p) eqn:E; [reflexivity|]. exfalso.
  assert (existsb (fun p => negb (instr_only p) && existsb (fun c => instructs p c) (seq 0 nc)) (seq 0 np) = true).
  { apply existsb_exists. exists p. split; [apply in_seq; lia|]. rewrite E. simpl. apply existsb_exists. exists c. split; [apply in_seq; lia|exact Hi]. }
  congruence.
Qed.

(* nd' is at least as restricted as nd *)
Definition Restricts (nd nd' : node) : Prop :=
  incl (n_cancel nd) (n_cancel nd') /\ incl (n_enf nd) (n_enf nd') /\ exists ext, n_shrink nd' = n_shrink nd ++ ext.

Lemma restricts_cancelled nd nd' c : Restricts nd nd' -> cancelled nd c = true -> cancelled nd' c = true.
Proof. intros (H & _) Hc. unfold cancelled in *. apply memb_true. apply H. apply memb_true. exact Hc. Qed.

Lemma fold_min_le c : forall l acc, fold_left (fun acc cs => if Nat.eqb (fst cs) c then Nat.min acc (snd cs) else acc) l acc <= acc.
Proof. induction l as [|x l IH]; intros acc; simpl; [lia|]. etransitivity; [apply IH|]. destruct (Nat.eqb (fst x) c); lia. Qed.

Lemma eff_max_mono nd nd' c : Restricts nd nd' -> eff_max courses nd' c <= eff_max courses nd c.
Proof.
  intros R. unfold eff_max. destruct (cancelled nd c) eqn:E; [rewrite (restricts_cancelled nd nd' c R E); lia|].
  destruct (cancelled nd' c); [lia|]. destruct R as (_ & _ & ext & ->). rewrite fold_left_app. apply fold_min_le.
Qed.

Lemma skip_x1_same nd nd' x : x < n_ -> getB (skip_x1 courses parts nd) x = getB (skip_x1 courses parts nd') x.
Proof.
  intros Hx. unfold skip_x1. rewrite !getB_map_seq' by exact Hx. destruct (x <? np) eqn:E; [|reflexivity]. apply Nat.ltb_lt in E. simpl.
  destruct (instr_only x) eqn:Eio; [reflexivity|]. simpl.
  assert (G : forall nd0, existsb (fun c => negb (cancelled nd0 c) && instructs x c) (seq 0 nc) = false).
  { intros nd0. destruct (existsb _ (seq 0 nc)) eqn:Ex; [|reflexivity]. apply existsb_exists in Ex. destruct Ex as (c & Hc & Ex). apply in_seq in Hc.
    apply andb_prop in Ex. destruct Ex as [_ Hi]. rewrite (NoTC x c E ltac:(lia) Hi) in Eio. discriminate. }
  rewrite !G. reflexivity.
Qed.
Lemma countB_skip_x1_same nd nd' : countB (skip_x1 courses parts nd) = countB (skip_x1 courses parts nd').
Proof.
  unfold skip_x1. rewrite !countB_map. f_equal. apply filter_ext_in. intros x Hx. apply in_seq in Hx.
  pose proof (skip_x1_same nd nd' x ltac:(lia)) as H. unfold skip_x1 in H. rewrite !getB_map_seq' in H by lia. exact H.
Qed.

Lemma instr_score_zero nd : instr_score courses parts nd = 0%Z.
Proof.
  rewrite instr_score_sum. rewrite (filter_none _ (instr_pairs courses nd)); [simpl; lia|].
  intros [i c] Hin. apply in_instr_pairs in Hin. destruct Hin as (Hc & _ & Hi). simpl.
  assert (Hip : i < np) by (apply (v_instr_rng _ _ V c i Hc Hi)).
  rewrite (NoTC i c Hip Hc ltac:(apply memb_true; exact Hi)). reflexivity.
Qed.

Lemma pm_square dx my sx sy nx ny pm : HP5.is_pm dx my sx sy nx ny pm -> length (rowsL sx nx) = length (colsL sy ny).
Proof. intros (P1 & P2 & _). rewrite <- (Permutation_length P1), <- (Permutation_length P2), !map_length. reflexivity. Qed.

Section Pair.
Variables (rgate : node -> assignment -> out (option (list node))) (pick : node -> list bool -> assignment -> list node).
Variables (nd nd' : node).
Hypothesis R : Restricts nd nd'.
Hypothesis Hwf' : WfNode courses nd'.

(* the score of the more restricted node is not larger *)
Theorem node_score_mono r r' s s' :
  run courses parts rgate pick nd = Val r -> run courses parts rgate pick nd' = Val r' ->
  (r = Feasible (match r with Feasible a _ => a | _ => [] end) s \/ r = Infeasible (match r with Infeasible cs _ => cs | _ => [] end) s) ->
  (r' = Feasible (match r' with Feasible a _ => a | _ => [] end) s' \/ r' = Infeasible (match r' with Infeasible cs _ => cs | _ => [] end) s') ->
  (s' <= s)%Z.
Proof.
  intros Hr Hr' Hs Hs'.
  destruct (run_node_cases courses parts rgate pick nd r Hr) as [->|NR]; [destruct Hs; discriminate|].
  destruct (run_node_cases courses parts rgate pick nd' r' Hr') as [->|NR']; [destruct Hs'; discriminate|].
  destruct NR as [sx sy mm ms Esy (G1 & G2 & G3) Esx Hsxp Hsyp Hguard Hpm Hw Hopt Hres].
  destruct NR' as [sx' sy' mm' ms' Esy' (G1' & G2' & G3') Esx' Hsxp' Hsyp' Hguard' Hpm' Hw' Hopt' Hres'].
  (* both results carry the matching weight plus the (vanishing) instructor score *)
  assert (E : s = (ms + instr_score courses parts nd)%Z).
  { cbn zeta in Hres. destruct (rgate nd _) as [[bs|]| |]; try contradiction.
    - subst r. destruct Hs as [Hs|Hs]; inversion Hs; reflexivity.
    - destruct (_ || _); subst r; destruct Hs as [Hs|Hs]; inversion Hs; reflexivity. }
  assert (E' : s' = (ms' + instr_score courses parts nd')%Z).
  { cbn zeta in Hres'. destruct (rgate nd' _) as [[bs|]| |]; try contradiction.
    - subst r'. destruct Hs' as [Hs'|Hs']; inversion Hs'; reflexivity.
    - destruct (_ || _); subst r'; destruct Hs' as [Hs'|Hs']; inversion Hs'; reflexivity. }
  rewrite E, E', !instr_score_zero, !Z.add_0_r.
  (* extend the child's matching to the parent's masks *)
  assert (Hsyle : forall y, y < m_ -> getB sy y = true -> getB sy' y = true).
  { intros y Hy H. rewrite (Hsyp y Hy) in H. rewrite (Hsyp' y Hy). apply Nat.leb_le in H. apply Nat.leb_le.
    pose proof (eff_max_mono nd nd' (course_map y) R). lia. }
  assert (Hcnt : countB sy <= countB sy').
  { subst sy sy'. unfold skip_y. apply countB_mono. intros y Hy H.
    pose proof (Hsyle y Hy) as H'. subst. unfold skip_y in H'. rewrite !getB_map_seq' in H' by exact Hy. apply H'. exact H. }
  pose proof (countB_skip_x1_same nd nd') as Hnsx.
  assert (Hsxle : forall x, x < n_ -> getB sx x = true -> getB sx' x = true).
  { intros x Hx H. rewrite Esx in H. rewrite Esx'. rewrite getB_map_seq' in * by exact Hx.
    rewrite <- (skip_x1_same nd nd' x Hx). apply orb_true_iff in H. apply orb_true_iff. destruct H as [H|H]; [left; exact H|right].
    apply andb_prop in H. destruct H as [H1 H2]. apply Nat.ltb_lt in H2. apply andb_true_iff. split; [exact H1|apply Nat.ltb_lt; lia]. }
  destruct (pm_extends (adjacency courses parts) (dummy_x courses parts) n_ m_ (mandatory_y courses nd) sx sy (mandatory_y courses nd') sx' sy'
              Hsxle Hsyle) with (pm' := pairs_of sy' m_ mm') as (pm & Hpmp & Hwp).
  - (* mandatory columns only grow *)
    intros y Hy H. unfold mandatory_y in *. rewrite getB_map_seq' in * by exact Hy. apply andb_prop in H. destruct H as [H1 H2].
    apply andb_true_iff. split; [|exact H2]. apply memb_true. destruct R as (_ & Re & _). apply Re. apply memb_true. exact H1.
  - (* newly active rows are dummy rows *)
    intros x Hx Hq Hq' y. apply W_adj_dummy. destruct (Nat.lt_ge_cases x np) as [Hlt|Hge]; [|exact Hge]. exfalso.
    rewrite Esx in Hq. rewrite Esx' in Hq'. rewrite getB_map_seq' in Hq, Hq' by exact Hx.
    replace ((np <=? x) && _) with false in Hq by (symmetry; apply andb_false_iff; left; apply Nat.leb_gt; exact Hlt).
    replace ((np <=? x) && _) with false in Hq' by (symmetry; apply andb_false_iff; left; apply Nat.leb_gt; exact Hlt).
    rewrite orb_false_r in Hq, Hq'. rewrite (skip_x1_same nd nd' x Hx) in Hq. congruence.
  - (* newly active columns are not mandatory: an enforced course keeps at least its minimum in the child *)
    intros y Hy Hq Hq'. destruct (getB (mandatory_y courses nd) y) eqn:Em; [|reflexivity]. exfalso.
    unfold mandatory_y in Em. rewrite getB_map_seq' in Em by exact Hy. apply andb_prop in Em. destruct Em as [E1 E2].
    apply memb_true in E1. apply Nat.ltb_lt in E2. destruct R as (_ & Re & _).
    pose proof (eff_max_ge courses (v_minmax _ _ V) nd' (course_map y) Hwf' (Re _ E1)) as Hge.
    rewrite (Hsyp' y Hy) in Hq'. apply Nat.leb_le in Hq'. lia.
  - apply (pm_square _ _ _ _ _ _ _ Hpm).
  - apply (pm_square _ _ _ _ _ _ _ Hpm').
  - exact Hpm'.
  - rewrite Hw', <- Hwp. apply Hopt. exact Hpmp.
Qed.
End Pair.
End MN.
