(* Well-formedness of subproblems is inherited by all children the node function generates (minimum-size branching, wrong-course
   heuristic, room constraint sets); together with NoPanic and RoomSites this gives C10 for every subproblem the search ever solves. *)
From Coq Require Import List ZArith Lia Bool Arith Permutation.
Require Import Cert HP1 HP2 HP5 HP6 Hall Cao1 Cao2 Cao3 Cao4 Cao5 Cao6 Relax1 Relax2 Relax3 Relax4 Score1 Cov5 RunCases Cov6 Rooms Spec Valid
               Node RoomThms NodeWf NoPanic RoomSites Consts SelModel.
Import ListNotations.
Open Scope nat_scope.

Section WP.
Variables (courses : list course) (parts : list participant).
Variable esize : nat -> nat -> nat.
Variable shrinkf : nat -> nat -> nat.
Variable rooms : option (list nat).
Notation nc := (nc courses). Notation np := (np parts). Notation crs := (crs courses).
Hypothesis V : Valid courses parts.
Hypothesis FS : FloatSane courses esize shrinkf rooms.

Definition okS (cs : nat * nat) : Prop := fst cs < nc /\ c_min (crs (fst cs)) <= snd cs.
(* every shrink bound respects the course's minimum; enforced courses exist and are not cancelled *)
Definition Wf2 (nd : node) : Prop :=
  Forall okS (n_shrink nd) /\ forall c, In c (n_enf nd) -> c < nc /\ cancelled nd c = false.

Lemma wf2_wf nd : Wf2 nd -> WfNode courses nd.
Proof.
  intros [Hs He] c Hc. destruct (He c Hc) as [H1 H2]. split; [exact H1|]. split; [exact H2|].
  intros cs Hin Hf. rewrite Forall_forall in Hs. destruct (Hs cs Hin) as [_ Hm]. rewrite Hf in Hm. exact Hm.
Qed.
Lemma wf2_root : Wf2 root.
Proof. split; [constructor|intros c []]. Qed.

Lemma create_set_wf R nd : FloatSaneOn courses esize shrinkf R -> forall cl ts ar sh ca sh' ca', In ts R -> Forall (fun c => c < nc) cl -> Forall okS sh -> Forall (fun c => memb c (n_enf nd) = false) ca ->
  create_set courses esize shrinkf nd cl ts ar sh ca = Val (Some (sh', ca')) -> Forall okS sh' /\ Forall (fun c => memb c (n_enf nd) = false) ca'.
Proof.
  intros FSR. induction cl as [|c t IH]; intros ts ar sh ca sh' ca' Hts Hcl Hsh Hca H; simpl in H.
  - inversion H; subst. auto.
  - inversion Hcl as [|? ? Hc Ht]; subst.
    destruct (cancelled nd c).
    { destruct ar; [discriminate|]. eapply IH; eauto. }
    destruct (esize c (c_min (crs c) + n_instr courses c) <=? ts) eqn:E.
    { apply Nat.leb_le in E. pose proof (FSR c ts Hc Hts E) as Hsane.
      destruct (shrinkf c ts <? n_instr courses c); [discriminate|].
      destruct (existsb _ (n_shrink nd)); [destruct ar; [discriminate|]; eapply IH; eauto|].
      eapply IH; [exact Hts|exact Ht| |exact Hca|exact H]. apply Forall_app. split; [exact Hsh|]. constructor; [|constructor]. split; simpl; [exact Hc|lia]. }
    destruct (memb c (n_enf nd) || c_fixed (crs c)) eqn:E2.
    { destruct ar; [discriminate|]. eapply IH; eauto. }
    apply orb_false_iff in E2. destruct E2 as [E2 _]. eapply IH; [exact Hts|exact Ht|exact Hsh| |exact H].
    apply Forall_app. split; [exact Hca|]. constructor; [exact E2|constructor].
Qed.

Definition okSet (nd : node) (set : list (nat * nat) * list nat) : Prop := Forall okS (fst set) /\ Forall (fun c => memb c (n_enf nd) = false) (snd set).

Lemma build_sets_wf R nd ts always : FloatSaneOn courses esize shrinkf R -> In ts R -> okSet nd always ->
  forall sels acc sets, Forall (Forall (fun c => c < nc)) sels -> Forall (okSet nd) acc ->
  build_sets courses esize shrinkf nd sels ts always acc = Val sets -> Forall (okSet nd) sets.
Proof.
  intros FSR Hts [Ha1 Ha2]. induction sels as [|sel t IH]; intros acc sets Hs Hacc H; simpl in H.
  - inversion H; subst. exact Hacc.
  - inversion Hs as [|? ? Hsel Ht]; subst.
    destruct (create_set courses esize shrinkf nd sel ts true [] []) as [[[sh ca]|]| |] eqn:Ec; try discriminate.
    + destruct (create_set_wf R nd FSR sel ts true [] [] sh ca Hts Hsel (Forall_nil _) (Forall_nil _) Ec) as [H1 H2].
      assert (Hnew : okSet nd (sh ++ fst always, ca ++ snd always)) by (split; simpl; apply Forall_app; split; assumption).
      destruct (sh ++ fst always) eqn:E1; [destruct (ca ++ snd always) eqn:E2; [discriminate|]|];
        (eapply IH; [exact Ht| |exact H]; apply Forall_app; split; [exact Hacc|constructor; [exact Hnew|constructor]]).
    + eapply IH; eauto.
Qed.

Lemma room_sets_wf rs nd a sets : FloatSaneOn courses esize shrinkf rs -> length rs = nc ->
  room_sets courses esize shrinkf rs nd a = Val (Some sets) -> Forall (okSet nd) sets.
Proof.
  intros FSR Hlen. unfold room_sets. set (cs := sort_by (fun p : nat * nat => snd p) (course_sizes courses esize a)).
  assert (Hcs : forall p, In p cs -> fst p < nc).
  { intros p Hp. apply sort_by_in in Hp. unfold course_sizes in Hp. apply in_map_iff in Hp. destruct Hp as (c & <- & Hc). apply in_seq in Hc. simpl. lia. }
  destruct (find _ (seq 0 _)) as [j|] eqn:Ef; [|discriminate].
  apply find_some in Ef. destruct Ef as [Hj _]. apply in_seq in Hj.
  assert (Hn : length cs = nc) by (unfold cs; rewrite sort_by_length; unfold course_sizes; rewrite map_length, seq_length; reflexivity).
  rewrite Hn, Hlen, Nat.min_id in Hj.
  assert (Hpos : 0 < nc) by lia.
  destruct (find_index _ cs) as [smallest|]; [|discriminate]. destruct (_ <? smallest); [discriminate|].
  destruct (if _ <? MIN_K_nat then _ else _) as [lower k] eqn:Elk.
  match goal with |- context [create_set ?cc ?ee ?sf ?nn ?cl ?ts false [] []] =>
    assert (Hts : In ts rs) by (apply nth_In; rewrite Hn, Hlen; lia);
    assert (Hcl : Forall (fun c0 => c0 < nc) cl);
    [apply Forall_forall; intros c0 Hc0; apply in_map_iff in Hc0; destruct Hc0 as (p0 & <- & Hp0); apply filter_In in Hp0; apply Hcs; apply Hp0|];
    destruct (create_set cc ee sf nn cl ts false [] []) as [[always|]| |] eqn:Eal end; try discriminate.
  match goal with |- context [build_sets ?cc ?ee ?sf ?nn ?sels ?ts ?al []] => destruct (build_sets cc ee sf nn sels ts al []) as [sets'| |] eqn:Eb end; try discriminate.
  intros H. inversion H; subst sets'. clear H. destruct always as [sha caa].
  destruct (create_set_wf rs nd FSR _ _ false [] [] sha caa Hts Hcl (Forall_nil _) (Forall_nil _) Eal) as [Ha1 Ha2].
  eapply (build_sets_wf rs nd _ (sha, caa) FSR Hts); [split; simpl; assumption| |constructor|exact Eb].
  apply Forall_forall. intros sel Hsel. apply in_map_iff in Hsel. destruct Hsel as (idx & <- & _).
  apply Forall_forall. intros c0 Hc0. apply in_map_iff in Hc0. destruct Hc0 as (ix & <- & _).
  match goal with |- fst (nth ix ?range (0, 0)) < nc => destruct (Nat.lt_ge_cases ix (length range)) as [Hl|Hl];
    [apply Hcs; assert (Hin : In (nth ix range (0, 0)) range) by (apply nth_In; exact Hl); apply firstn_In in Hin; eapply skipn_In; eauto
    |rewrite nth_overflow by exact Hl; simpl; exact Hpos] end.
Qed.

Lemma memb_app x l1 l2 : memb x (l1 ++ l2) = memb x l1 || memb x l2.
Proof. unfold memb. apply existsb_app. Qed.

Theorem children_wf2 nd cs s : Wf2 nd -> run_full courses parts esize shrinkf rooms nd = Val (Infeasible cs s) -> forall c, In c cs -> Wf2 c.
Proof.
  intros [Hsh Henf] H c Hc. destruct (run_node_cases courses parts _ _ nd _ H) as [Hn|NR]; [discriminate|].
  destruct NR as [sx sy mm ms _ _ _ Hsxp _ Hguard Hpm _ _ Hres]. cbn zeta in Hres.
  set (a' := add_instr courses nd (amatch courses parts sy mm)) in *.
  destruct (the_gate courses esize shrinkf rooms nd a') as [[bs|]| |] eqn:Eg; try contradiction.
  - (* room constraint sets *)
    inversion Hres; subst bs. clear Hres. unfold the_gate, room_gate in Eg. destruct rooms as [rs|]; [|discriminate].
    destruct (room_sets courses esize shrinkf (prep_rooms courses rs) nd a') as [[sets|]| |] eqn:Er; try discriminate.
    inversion Eg; subst cs. apply in_map_iff in Hc. destruct Hc as (set & <- & Hset).
    pose proof (room_sets_wf _ _ _ _ FS (prep_rooms_length courses rs) Er) as Hok. rewrite Forall_forall in Hok. destruct (Hok set Hset) as [Hs1 Hs2].
    split; unfold child_of; simpl.
    + apply Forall_app. split; assumption.
    + intros e He. destruct (Henf e He) as [He1 He2]. split; [exact He1|]. unfold cancelled in *. simpl. rewrite memb_app, He2. simpl.
      destruct (memb e (snd set)) eqn:Em; [|reflexivity]. exfalso. apply memb_true in Em. rewrite Forall_forall in Hs2. specialize (Hs2 e Em).
      assert (memb e (n_enf nd) = true) by (apply memb_true; exact He). congruence.
  - destruct (_ || _) eqn:Eor; [|discriminate]. inversion Hres; subst cs. clear Hres.
    unfold the_pick, pick_real in Hc. destruct (existsb (wrong_course parts sx a') (seq 0 np)) eqn:Ew.
    + (* wrong-course heuristic *)
      unfold pick_wrong in Hc. destruct (find _ (seq 0 np)) as [p|]; [|destruct Hc].
      match type of Hc with In _ (match ?L with _ => _ end) => destruct L as [|rc t] eqn:El end; [destruct Hc|].
      destruct (c_fixed (crs rc)) eqn:Efix; [destruct Hc|]. destruct Hc as [<-|[]].
      assert (Hin : In rc (rc :: t)) by (left; reflexivity). rewrite <- El in Hin. apply sort_by_in in Hin.
      apply filter_In in Hin. destruct Hin as [_ Hf]. apply andb_prop in Hf. destruct Hf as [Hf _]. apply andb_prop in Hf. destruct Hf as [_ Hne].
      apply negb_true_iff in Hne.
      split; simpl; [exact Hsh|]. intros e He. destruct (Henf e He) as [He1 He2]. split; [exact He1|]. unfold cancelled in *. simpl.
      rewrite memb_app, He2. simpl. rewrite orb_false_r. destruct (Nat.eqb e rc) eqn:Ee; [|reflexivity].
      apply Nat.eqb_eq in Ee. subst e. assert (memb rc (n_enf nd) = true) by (apply memb_true; exact He). congruence.
    + (* minimum-size branching *)
      destruct (branch_course courses parts nd sx a') as [bc|] eqn:Eb; [|destruct Hc].
      destruct (proj1 (branch_course_spec courses parts nd sx a') bc Eb) as [Hbc Hdisc].
      assert (Hbcn : cancelled nd bc = false).
      { unfold discrepancy in Hdisc. destruct (cancelled nd bc); [lia|reflexivity]. }
      unfold children_min in Hc. destruct Hc as [<-|Hc].
      * (* enforce bc *)
        split; simpl; [exact Hsh|]. intros e He. apply in_app_or in He. destruct He as [He|[<-|[]]]; [apply (Henf e He)|].
        split; [exact Hbc|exact Hbcn].
      * destruct (c_fixed (crs bc)) eqn:Efix; [destruct Hc|]. destruct Hc as [<-|[]].
        (* cancel bc: it is not an enforced course, because enforced courses reach their minimum *)
        split; simpl; [exact Hsh|]. intros e He. destruct (Henf e He) as [He1 He2]. split; [exact He1|]. unfold cancelled in *. simpl.
        rewrite memb_app, He2. simpl. rewrite orb_false_r. destruct (Nat.eqb e bc) eqn:Ee; [|reflexivity]. exfalso.
        apply Nat.eqb_eq in Ee. subst e.
        pose proof (enforced_reaches_min courses parts (valid_one _ _ V) (v_minmax _ _ V) nd sx sy mm Hsxp Hguard Hpm bc He He1) as Hmin.
        fold a' in Hmin. unfold discrepancy in Hdisc. unfold cancelled in Hdisc. rewrite He2 in Hdisc. lia.
Qed.
End WP.
