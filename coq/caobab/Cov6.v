(* Spike for C02 step 5: the real branch choice (minimum-size branching) and the coverage lemma *)
From Coq Require Import List ZArith Lia Bool Arith Permutation.
Require Import Cert HP1 HP2 HP5 HP6 Hall Cao1 Cao2 Cao3 Cao4 Cao5 Cao6 Relax1 Relax2 Relax3 Relax4 Score1 Cov1 Cov2 Cov3 Cov4 Cov5 RunCases.
Import ListNotations.
Open Scope nat_scope.

Section BR.
Variables (courses : list course) (parts : list participant).
Notation np := (np parts). Notation nc := (nc courses). Notation m_ := (m_ courses). Notation n_ := (n_ courses parts).
Notation crs := (crs courses). Notation instructs := (instructs courses). Notation instr_only := (instr_only parts).

(* check_feasibility, second part: the course that misses its minimum most (first one among equals) *)
Definition discrepancy (nd : node) (sx : list bool) (a : assignment) (c : nat) : nat :=
  if cancelled nd c then 0 else c_min (crs c) - course_size parts sx a c.
Definition branch_step (nd : node) (sx : list bool) (a : assignment) (acc : nat * option nat) (c : nat) : nat * option nat :=
  let d := discrepancy nd sx a c in if fst acc <? d then (d, Some c) else acc.
Definition branch_course (nd : node) (sx : list bool) (a : assignment) : option nat :=
  snd (fold_left (branch_step nd sx a) (seq 0 nc) (0, None)).

Variable pick_wrong : node -> list bool -> assignment -> list node.   (* the wrong-course heuristic, not needed here *)
Definition pick_real (nd : node) (sx : list bool) (a : assignment) : list node :=
  if existsb (wrong_course parts sx a) (seq 0 np) then pick_wrong nd sx a
  else match branch_course nd sx a with Some c => children_min courses nd c | None => [] end.

Lemma branch_course_spec nd sx a :
  (forall c, branch_course nd sx a = Some c -> c < nc /\ 0 < discrepancy nd sx a c) /\
  ((exists c, c < nc /\ 0 < discrepancy nd sx a c) -> branch_course nd sx a <> None).
Proof.
  unfold branch_course.
  assert (G : forall k, k <= nc ->
     let acc := fold_left (branch_step nd sx a) (seq 0 k) (0, None) in
     (forall c, snd acc = Some c -> c < k /\ 0 < discrepancy nd sx a c /\ fst acc = discrepancy nd sx a c) /\
     (snd acc = None -> fst acc = 0) /\ (forall c, c < k -> discrepancy nd sx a c <= fst acc)).
  { induction k as [|k IH]; intros Hk; cbn zeta.
    - cbn. repeat split; try discriminate; intros; lia.
    - rewrite seq_S, fold_left_app. cbn [fold_left plus]. specialize (IH ltac:(lia)). cbn zeta in IH.
      set (acc := fold_left (branch_step nd sx a) (seq 0 k) (0, None)) in *. destruct IH as (I1 & I2 & I3).
      unfold branch_step. destruct (fst acc <? discrepancy nd sx a k) eqn:E; [apply Nat.ltb_lt in E|apply Nat.ltb_ge in E]; cbn [fst snd].
      + repeat split.
        * inversion H; subst. lia.
        * inversion H; subst. lia.
        * inversion H; subst. reflexivity.
        * discriminate.
        * intros c Hc. destruct (Nat.eq_dec c k) as [->|Hne]; [lia|]. specialize (I3 c ltac:(lia)). lia.
      + repeat split.
        * destruct (I1 c H) as (H1 & _). lia.
        * apply (I1 c H).
        * apply (I1 c H).
        * exact I2.
        * intros c Hc. destruct (Nat.eq_dec c k) as [->|Hne]; [lia|]. apply I3. lia. }
  specialize (G nc ltac:(lia)). cbn zeta in G. destruct G as (G1 & G2 & G3). split.
  - intros c Hc. destruct (G1 c Hc) as (H1 & H2 & _). auto.
  - intros (c & Hc & Hd) Hn. specialize (G2 Hn). specialize (G3 c Hc). lia.
Qed.

(* ---- coverage ---- *)
Hypothesis Hinstr_rng : forall c i, c < nc -> In i (c_instr (crs c)) -> i < np.
Hypothesis Hone : forall p c c', c < nc -> c' < nc -> instructs p c = true -> instructs p c' = true -> c = c'.
Hypothesis Hminmax : forall c, c < nc -> c_min (crs c) <= c_max (crs c).
Variable maxpen : Z.
Hypothesis Hpen : forall p ch, In ch (p_choices (prt parts p)) -> (0 <= ch_pen ch <= maxpen)%Z.
Hypothesis Hmaxpen : (0 <= maxpen)%Z /\ (Z.of_nat np * maxpen < WEIGHT_OFFSET)%Z.

Variables (nd : node) (K : nat -> bool) (a : assignment).
Hypothesis Hs : Solution courses parts K a.
Hypothesis HKfix : forall c, c < nc -> K c = true -> c_fixed (crs c) = false.
Hypothesis Hc : Covers courses nd K.

Theorem branch_covers cs s : run courses parts no_rooms pick_real nd = Val (Infeasible cs s) -> exists child, In child cs /\ Covers courses child K.
Proof.
  intros Hrun. destruct (run_node_cases courses parts no_rooms pick_real nd _ Hrun) as [Hn|NR]; [discriminate|].
  destruct NR as [sx sy mm ms Hsyeq Hg Hsxeq Hsx Hsy Hguard Hpm Hw Hopt Hres]. cbn zeta in Hres. cbn [no_rooms] in Hres.
  set (a' := add_instr courses nd (amatch courses parts sy mm)) in *.
  (* no wrong-course participant *)
  assert (Hnw : existsb (wrong_course parts sx a') (seq 0 np) = false).
  { destruct (existsb (wrong_course parts sx a') (seq 0 np)) eqn:E; [|reflexivity]. exfalso.
    apply existsb_exists in E. destruct E as (p & Hp & Hwp). apply in_seq in Hp.
    assert (Hpw : (placed_weight courses parts nd a <= HP6.weight (adjacency courses parts) (pairs_of sy m_ mm))%Z).
    { (* the covering matching is one of the competitors *)
      destruct Hg as (G1a & G1b & G2). rewrite Hsyeq in G1b, G2.
      destruct (relax_pm courses parts nd a (cov_A1 courses parts nd K a Hs Hc) (cov_A2 courses parts nd K a Hs Hc) (cov_A3 courses parts nd K a Hs Hc) G1a G1b G2) as (pm0 & Hpm0 & Hw0).
      rewrite <- Hw0, <- Hw. apply Hopt. rewrite Hsxeq, Hsyeq. exact Hpm0. }
    pose proof (covered_no_wrong courses parts Hone maxpen Hpen Hmaxpen nd K a Hs Hc sx sy (mandatory_y courses nd) mm Hsx Hpm Hpw p ltac:(lia)) as Hz. fold a' in Hz. congruence. }
  rewrite Hnw in Hres. cbn [orb] in Hres.
  destruct (existsb (min_violation courses parts nd sx a') (seq 0 nc)) eqn:Emin; [|discriminate].
  inversion Hres; subst cs s. clear Hres.
  unfold pick_real. rewrite Hnw.
  destruct (branch_course_spec nd sx a') as [B1 B2].
  assert (Hex : exists c, c < nc /\ 0 < discrepancy nd sx a' c).
  { apply existsb_exists in Emin. destruct Emin as (c & Hcn & Hv). apply in_seq in Hcn. unfold min_violation in Hv. apply andb_prop in Hv. destruct Hv as [Hcan Hlt].
    apply negb_true_iff in Hcan. apply Nat.ltb_lt in Hlt. exists c. split; [lia|]. unfold discrepancy. rewrite Hcan. lia. }
  destruct (branch_course nd sx a') as [c0|] eqn:Eb; [|exfalso; apply (B2 Hex); reflexivity].
  destruct (B1 c0 eq_refl) as [Hc0 Hd0]. unfold discrepancy in Hd0. destruct (cancelled nd c0) eqn:Ecan; [lia|].
  (* c0 is not enforced yet *)
  assert (Hnotenf : ~ In c0 (n_enf nd)).
  { intros Hin. pose proof (enforced_reaches_min courses parts Hone Hminmax nd sx sy mm Hsx Hguard Hpm c0 Hin Hc0). fold a' in H. lia. }
  unfold children_min. destruct (K c0) eqn:Ek.
  - (* the solution cancels c0: the cancel child exists and covers *)
    rewrite (HKfix c0 Hc0 Ek).
    exists {| n_cancel := n_cancel nd ++ [c0]; n_enf := n_enf nd; n_shrink := n_shrink nd |}. split; [right; left; reflexivity|].
    constructor; cbn [n_cancel n_enf n_shrink].
    + intros c Hcc. unfold cancelled in Hcc. cbn [n_cancel] in Hcc. apply memb_true in Hcc. apply in_app_or in Hcc.
      destruct Hcc as [Hcc|[<-|[]]]; [apply (c_can courses nd K Hc c); apply memb_true; exact Hcc|exact Ek].
    + apply (c_enf courses nd K Hc).
    + apply (c_enf_nd courses nd K Hc).
    + apply (c_noshrink courses nd K Hc).
  - (* the solution runs c0: the enforce child covers *)
    exists {| n_cancel := n_cancel nd; n_enf := n_enf nd ++ [c0]; n_shrink := n_shrink nd |}. split; [left; reflexivity|].
    constructor; cbn [n_cancel n_enf n_shrink].
    + apply (c_can courses nd K Hc).
    + intros c Hin. apply in_app_or in Hin. destruct Hin as [Hin|[<-|[]]]; [apply (c_enf courses nd K Hc c Hin)|auto].
    + apply NoDup_app_intro; [apply (c_enf_nd courses nd K Hc)|repeat constructor; auto|]. intros y Hy [<-|[]]. contradiction.
    + apply (c_noshrink courses nd K Hc).
Qed.
End BR.
