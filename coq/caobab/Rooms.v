(* Model of the room stage of caobab.rs: room_effective_course_sizes, check_room_feasibility, create_room_constraint_set,
   and of the wrong-course heuristic of check_feasibility.  Definitions only.
   The float computations are abstracted as two functions of the course index (instantiated with Flocq binary32 in F32.v):
     esize c s   = ceil(room_offset_c + room_factor_c * (s as f32)) as usize
     shrinkf c r = floor(((r as f32) - room_offset_c) / room_factor_c) as usize                                          *)
From Coq Require Import List ZArith Lia Bool Arith.
Require Import HP1 Cao1 SelModel Consts.
Import ListNotations.
Open Scope nat_scope.

Section Rooms.
Variables (courses : list course) (parts : list participant).
Variable esize : nat -> nat -> nat.
Variable shrinkf : nat -> nat -> nat.
Notation nc := (nc courses). Notation np := (np parts). Notation crs := (crs courses).

(* ---- stable sort by a key (Rust's sort_by_key is stable; any stable sort yields this list) ---- *)
Fixpoint insert_by {A} (key : A -> nat) (x : A) (l : list A) : list A :=
  match l with [] => [x] | y :: t => if key x <=? key y then x :: y :: t else y :: insert_by key x t end.
Definition sort_by {A} (key : A -> nat) (l : list A) : list A := fold_right (insert_by key) [] l.

(* rooms as stored by precompute_problem: sorted descending, truncated / padded with 0 to the number of courses *)
Definition prep_rooms (rooms : list nat) : list nat :=
  let d := rev (sort_by (fun r => r) rooms) in
  firstn nc d ++ repeat 0 (nc - length d).

(* ---- room_effective_course_sizes ---- *)
Definition people (a : assignment) (c : nat) : nat :=
  length (filter (fun o => match o with Some c' => Nat.eqb c' c | None => false end) a).
Definition eff_size (a : assignment) (c : nat) : nat :=
  let s := people a c in if (s =? 0) && negb (c_fixed (crs c)) then 0 else esize c s.
Definition course_sizes (a : assignment) : list (nat * nat) := map (fun c => (c, eff_size a c)) (seq 0 nc).

(* ---- create_room_constraint_set ---- *)
Definition n_instr (c : nat) : nat := length (c_instr (crs c)).
Fixpoint create_set (nd : node) (cl : list nat) (to_size : nat) (allreq : bool) (sh : list (nat * nat)) (ca : list nat)
  : out (option (list (nat * nat) * list nat)) :=
  match cl with
  | [] => Val (Some (sh, ca))
  | c :: t =>
    if cancelled nd c then (if allreq then Val None else create_set nd t to_size allreq sh ca)
    else if esize c (c_min (crs c) + n_instr c) <=? to_size then
      let raw := shrinkf c to_size in
      if raw <? n_instr c then Panic 9 else            (* usize subtraction `floor(..) as usize - instructors.len()` *)
      let ssz := raw - n_instr c in
      if existsb (fun cs => Nat.eqb (fst cs) c && (snd cs <=? ssz)) (n_shrink nd)
      then (if allreq then Val None else create_set nd t to_size allreq sh ca)
      else create_set nd t to_size allreq (sh ++ [(c, ssz)]) ca
    else if memb c (n_enf nd) || c_fixed (crs c)
      then (if allreq then Val None else create_set nd t to_size allreq sh ca)
      else create_set nd t to_size allreq sh (ca ++ [c])
  end.

(* ---- check_room_feasibility ---- *)
Definition find_index {A} (f : A -> bool) (l : list A) : option nat :=
  (fix go (l : list A) (i : nat) := match l with [] => None | x :: t => if f x then Some i else go t (S i) end) l 0.

Definition child_of (nd : node) (set : list (nat * nat) * list nat) : node :=
  {| n_cancel := n_cancel nd ++ snd set; n_enf := n_enf nd; n_shrink := n_shrink nd ++ fst set |}.

Fixpoint build_sets (nd : node) (sels : list (list nat)) (to_size : nat) (always : list (nat * nat) * list nat)
  (acc : list (list (nat * nat) * list nat)) : out (list (list (nat * nat) * list nat)) :=
  match sels with
  | [] => Val acc
  | sel :: t =>
    match create_set nd sel to_size true [] [] with
    | Panic s => Panic s | HOverflow => HOverflow
    | Val None => build_sets nd t to_size always acc
    | Val (Some (sh, ca)) =>
      let sh' := sh ++ fst always in let ca' := ca ++ snd always in
      match sh', ca' with
      | [], [] => Panic 8                                 (* assert!(!(shrink.is_empty() && cancel.is_empty())) *)
      | _, _ => build_sets nd t to_size always (acc ++ [(sh', ca')])
      end
    end
  end.

Definition room_sets (rooms : list nat) (nd : node) (a : assignment) : out (option (list (list (nat * nat) * list nat))) :=
  let cs := sort_by (fun p : nat * nat => snd p) (course_sizes a) in
  let n := length cs in
  match find (fun j => nth j rooms 0 <? snd (nth (n - 1 - j) cs (0, 0))) (seq 0 (Nat.min n (length rooms))) with
  | None => Val None
  | Some j =>
    let i := n - 1 - j in
    let room_size := nth (length rooms - 1 - i) rooms 0 in
    match find_index (fun p : nat * nat => room_size <? snd p) cs with
    | None => Panic 6                                      (* position(..).unwrap() *)
    | Some smallest =>
      if i <? smallest then Panic 7 else                   (* assert!(conflicting >= smallest) *)
      let k0 := i - smallest + 1 in
      let '(lower, k) := if k0 <? MIN_K_nat
                         then (if i + 1 <? MIN_K_nat then (0, i + 1) else (i + 1 - MIN_K_nat, MIN_K_nat))
                         else (smallest, k0) in
      let upper0 := i + 1 in
      let upper := if upper0 - lower <? MAX_N_nat
                   then Nat.min (Nat.min (i + MAX_NTOK_nat) (lower + MAX_N_nat)) n else upper0 in
      match create_set nd (map fst (filter (fun p : nat * nat => snd p <=? room_size) cs)) room_size false [] [] with
      | Panic s => Panic s | HOverflow => HOverflow
      | Val None => Panic 10                               (* .unwrap(): cannot fail because all_required is not set *)
      | Val (Some always) =>
        let range := firstn (upper - lower) (skipn lower cs) in
        let sels := map (fun idx => map (fun ix => fst (nth ix range (0, 0))) idx) (selections_fast (length range) k) in
        match build_sets nd sels room_size always [] with
        | Panic s => Panic s | HOverflow => HOverflow
        | Val sets => Val (Some sets)
        end
      end
    end
  end.

(* the room stage as run_bab_node uses it: None = feasible w.r.t. rooms, Some branches = Infeasible with these children *)
Definition room_gate (rooms : option (list nat)) (nd : node) (a : assignment) : out (option (list node)) :=
  match rooms with
  | None => Val None
  | Some rs =>
    match room_sets (prep_rooms rs) nd a with
    | Panic s => Panic s | HOverflow => HOverflow
    | Val None => Val None
    | Val (Some sets) => Val (Some (map (child_of nd) sets))
    end
  end.

(* ---- check_feasibility, first part: the wrong-course heuristic ---- *)
Definition pick_wrong (nd : node) (sx : list bool) (a : assignment) : list node :=
  match find (wrong_course parts sx a) (seq 0 np) with
  | None => []
  | Some p =>
    let c := getO a p in
    let relevant := filter (fun rc => negb (cancelled nd rc) && negb (memb rc (n_enf nd)) &&
                       existsb (fun i => match c with Some c' => has_choice parts i c' | None => false end) (c_instr (crs rc)))
                      (seq 0 nc) in
    match sort_by (course_size parts sx a) relevant with
    | [] => []
    | rc :: _ => if c_fixed (crs rc) then []
                 else [{| n_cancel := n_cancel nd ++ [rc]; n_enf := n_enf nd; n_shrink := n_shrink nd |}]
    end
  end.
End Rooms.
