(* binary32 arithmetic of the room stage, via Flocq.  Everything that mentions this file carries Flocq's four classical
   real-number axioms in Print Assumptions (they sit inside the dependent records of its operations). *)
From Coq Require Import ZArith List.
From Flocq Require Import Core.Core IEEE754.BinarySingleNaN IEEE754.Binary IEEE754.Bits.
Open Scope Z_scope.

Definition f32_of_Z (z : Z) : binary32 := binary_normalize 24 128 (eq_refl _) (eq_refl _) mode_NE z 0 false.
Definition mulf (a b : binary32) := b32_mult mode_NE a b.
Definition addf (a b : binary32) := b32_plus mode_NE a b.
Definition divf (a b : binary32) := b32_div mode_NE a b.
Definition subf (a b : binary32) := b32_minus mode_NE a b.
Definition ceilf (x : binary32) : binary32 := Bnearbyint 24 128 (eq_refl _) (fun _ => default_nan_pl32) mode_UP x.
Definition floorf (x : binary32) : binary32 := Bnearbyint 24 128 (eq_refl _) (fun _ => default_nan_pl32) mode_DN x.
(* Rust's `as usize`: saturating, NaN -> 0 *)
Definition usize_max : Z := 18446744073709551615.
Definition to_usize (x : binary32) : nat :=
  match x with
  | B754_nan _ _ _ _ _ => 0%nat
  | B754_infinity _ _ s => if s then 0%nat else Z.to_nat usize_max
  | _ => let z := Btrunc 24 128 x in Z.to_nat (Z.min usize_max (Z.max 0 z))
  end.

(* per-course room parameters as bit patterns (factor, offset) *)
Definition esize32 (params : list (Z * Z)) (c : nat) (s : nat) : nat :=
  let '(fb, ob) := nth c params (1065353216, 0) in
  to_usize (ceilf (addf (b32_of_bits ob) (mulf (b32_of_bits fb) (f32_of_Z (Z.of_nat s))))).
Definition shrinkf32 (params : list (Z * Z)) (c : nat) (r : nat) : nat :=
  let '(fb, ob) := nth c params (1065353216, 0) in
  to_usize (floorf (divf (subf (f32_of_Z (Z.of_nat r)) (b32_of_bits ob)) (b32_of_bits fb))).

(* solution_quality / combined_quality of solution_score.rs: (num as f32) / (den as f32), as a bit pattern *)
Definition quality_bits (num den : Z) : Z := bits_of_b32 (divf (f32_of_Z num) (f32_of_Z den)).
