(* Monotonicity of the node relaxation, matching level: a perfect allowed matching of a MORE restricted mask set (more skipped rows,
   more skipped columns, more mandatory columns) extends to a perfect allowed matching of the less restricted one with the same
   weight, provided the additionally active rows are zero-weight dummies and the additionally active columns are not mandatory. *)
From Coq Require Import List ZArith Lia Bool Arith Permutation.
Require Import Cert HP1 HP2 HP5 HP6 Hall Cao4 Relax1.
Import ListNotations.
Open Scope nat_scope.

Section M.
Variables (w : list (list Z)) (dx : list bool) (nx ny : nat).
Variables (my sx sy : list bool).        (* the less restricted masks (parent) *)
Variables (my' sx' sy' : list bool).     (* the more restricted masks (child) *)
Notation W := (HP1.W w).

Hypothesis Hsx : forall x, x < nx -> getB sx x = true -> getB sx' x = true.
Hypothesis Hsy : forall y, y < ny -> getB sy y = true -> getB sy' y = true.
Hypothesis Hmy : forall y, y < ny -> getB my y = true -> getB my' y = true.
(* rows that become active are dummies without weight; columns that become active are not mandatory *)
Hypothesis Hnewrow : forall x, x < nx -> getB sx x = false -> getB sx' x = true -> forall y, W x y = 0%Z.
Hypothesis Hnewcol : forall y, y < ny -> getB sy y = false -> getB sy' y = true -> getB my y = false.
Hypothesis Hsq : length (rowsL sx nx) = length (colsL sy ny).
Hypothesis Hsq' : length (rowsL sx' nx) = length (colsL sy' ny).

Lemma split_active (s s' : list bool) (n : nat) : (forall x, x < n -> getB s x = true -> getB s' x = true) ->
  Permutation (filter (fun x => negb (getB s' x)) (seq 0 n) ++ filter (fun x => negb (getB s x) && getB s' x) (seq 0 n))
              (filter (fun x => negb (getB s x)) (seq 0 n)).
Proof.
  intros H. set (L := filter (fun x => negb (getB s x)) (seq 0 n)).
  eapply Permutation_trans; [|apply (perm_partition (fun x => negb (getB s' x)) L)].
  apply Permutation_app; apply NoDup_Permutation; try (apply NoDup_filter; try apply NoDup_filter; apply seq_NoDup).
  - intros x. unfold L. rewrite !filter_In, in_seq, !negb_true_iff. split.
    + intros [Hx Hs']. repeat split; try lia; auto. destruct (getB s x) eqn:E; [|reflexivity]. rewrite (H x ltac:(lia) E) in Hs'. discriminate.
    + intros [[Hx _] Hs']. split; [lia|exact Hs'].
  - intros x. unfold L. rewrite !filter_In, in_seq, andb_true_iff. destruct (getB s x), (getB s' x); simpl; intuition (try discriminate; try lia).
Qed.

Theorem pm_extends pm' : HP5.is_pm dx my' sx' sy' nx ny pm' ->
  exists pm, HP5.is_pm dx my sx sy nx ny pm /\ HP6.weight w pm = HP6.weight w pm'.
Proof.
  intros (P1 & P2 & P3).
  set (Dn := filter (fun x => negb (getB sx x) && getB sx' x) (seq 0 nx)).
  set (Cn := filter (fun y => negb (getB sy y) && getB sy' y) (seq 0 ny)).
  pose proof (split_active sx sx' nx Hsx) as SR. pose proof (split_active sy sy' ny Hsy) as SC. fold Dn in SR. fold Cn in SC.
  assert (Hl : length Dn = length Cn).
  { pose proof (Permutation_length SR) as L1. pose proof (Permutation_length SC) as L2. rewrite !app_length in *.
    unfold rowsL, colsL in Hsq, Hsq'. lia. }
  exists (pm' ++ combine Dn Cn). split; [split; [|split]|].
  - rewrite map_app, map_fst_combine by exact Hl. eapply Permutation_trans; [apply Permutation_app_tail, P1|exact SR].
  - rewrite map_app, map_snd_combine by exact Hl. eapply Permutation_trans; [apply Permutation_app_tail, P2|exact SC].
  - apply Forall_app. split.
    + rewrite Forall_forall in *. intros [x y] Hin. specialize (P3 _ Hin). cbn [fst snd] in *. unfold HP1.allowed in *.
      destruct (getB dx x); [|reflexivity]. simpl in *. apply negb_true_iff in P3.
      assert (Hy : y < ny).
      { assert (In y (colsL sy' ny)) by (apply (Permutation_in _ P2); apply in_map_iff; exists (x, y); auto).
        unfold colsL in H. apply filter_In in H. destruct H as [H _]. apply in_seq in H. lia. }
      destruct (getB my y) eqn:E; [|reflexivity]. rewrite (Hmy y Hy E) in P3. discriminate.
    + apply Forall_forall. intros [x y] Hin. cbn [fst snd]. apply in_combine_r in Hin. unfold Cn in Hin. apply filter_In in Hin.
      destruct Hin as [Hy Hf]. apply in_seq in Hy. apply andb_prop in Hf. destruct Hf as [H1 H2]. apply negb_true_iff in H1.
      unfold HP1.allowed. rewrite (Hnewcol y ltac:(lia) H1 H2), andb_false_r. reflexivity.
  - unfold HP6.weight. rewrite map_app, sumZ_app. rewrite (sumZ_zero (map _ (combine Dn Cn))); [lia|].
    apply Forall_forall. intros z Hz. apply in_map_iff in Hz. destruct Hz as ([x y] & <- & Hin). cbn [fst snd].
    apply in_combine_l in Hin. unfold Dn in Hin. apply filter_In in Hin. destruct Hin as [Hx Hf]. apply in_seq in Hx.
    apply andb_prop in Hf. destruct Hf as [H1 H2]. apply negb_true_iff in H1. apply (Hnewrow x ltac:(lia) H1 H2).
Qed.
End M.
