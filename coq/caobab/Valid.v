(* Instance validity as a proposition (the quantifier of C01/C02/C08/C10), derived facts used as hypotheses by the node
   theorems, and the reflection of the executable check Spec.validb. *)
From Coq Require Import List ZArith Lia Bool Arith.
Require Import HP1 Cao1 Cao3 Rooms Spec.
Import ListNotations.
Open Scope nat_scope.

Section V.
Variables (courses : list course) (parts : list participant).
Notation nc := (nc courses). Notation np := (np parts). Notation crs := (crs courses). Notation prt := (prt parts).
Notation instructs := (instructs courses).

Record Valid : Prop := {
  v_instr_rng : forall c i, c < nc -> In i (c_instr (crs c)) -> i < np;
  v_instr_nodup : NoDup (flat_map c_instr courses);           (* each participant instructs at most one course *)
  v_minmax : forall c, c < nc -> c_min (crs c) <= c_max (crs c);
  v_choice : forall p ch, In ch (p_choices (prt p)) -> ch_course ch < nc /\ (0 <= ch_pen ch <= maxpen parts)%Z;
  v_choice_nodup : forall p, NoDup (map ch_course (p_choices (prt p)));
  v_pen : (Z.of_nat np * maxpen parts < WEIGHT_OFFSET)%Z;
  v_real : exists p, p < np /\ instr_only parts p = false    (* at least one participant with choices *)
}.

Lemma NoDup_app_remove_l {A} (l l' : list A) : NoDup (l ++ l') -> NoDup l'.
Proof. induction l as [|a l IH]; simpl; intros H; [exact H|]. inversion H; subst. apply IH. assumption. Qed.

Lemma flat_map_nodup_nth {A B} (g : A -> list B) (d : A) : forall l, NoDup (flat_map g l) ->
  forall c c' x, c < length l -> c' < length l -> In x (g (nth c l d)) -> In x (g (nth c' l d)) -> c = c'.
Proof.
  induction l as [|a l IH]; intros Hnd c c' x Hc Hc' H1 H2; [simpl in Hc; lia|].
  simpl in Hnd. apply NoDup_app_remove_l in Hnd as Hnd'.
  assert (Hdisj : forall y, In y (g a) -> In y (flat_map g l) -> False).
  { clear -Hnd. intros y Ha Hl. induction (g a) as [|z t IHt]; [destruct Ha|].
    simpl in Hnd. inversion Hnd as [|? ? Hnz Hndt]; subst. destruct Ha as [->|Ha].
    - apply Hnz. apply in_or_app. right. exact Hl.
    - apply IHt; assumption. }
  destruct c as [|c], c' as [|c']; simpl in *.
  - reflexivity.
  - exfalso. apply (Hdisj x H1). apply in_flat_map. exists (nth c' l d). split; [apply nth_In; lia|exact H2].
  - exfalso. apply (Hdisj x H2). apply in_flat_map. exists (nth c l d). split; [apply nth_In; lia|exact H1].
  - f_equal. apply (IH Hnd' c c' x); auto; lia.
Qed.

Lemma valid_one : Valid -> forall p c c', c < nc -> c' < nc -> instructs p c = true -> instructs p c' = true -> c = c'.
Proof.
  intros V p c c' Hc Hc' H1 H2. unfold Cao1.instructs in *. apply memb_true in H1, H2.
  eapply (flat_map_nodup_nth c_instr _ courses (v_instr_nodup V)); eauto.
Qed.

Lemma nodup_flat_map_filter {A B} (g : A -> list B) (b : A -> bool) : forall l, NoDup (flat_map g l) ->
  NoDup (flat_map (fun x => if b x then [] else g x) l).
Proof.
  induction l as [|a l IH]; intros H; simpl; [constructor|]. simpl in H.
  destruct (b a); simpl; [apply IH; eapply NoDup_app_remove_l; eauto|].
  assert (Hsub : forall y, In y (flat_map (fun x => if b x then [] else g x) l) -> In y (flat_map g l)).
  { intros y Hy. apply in_flat_map in Hy. destruct Hy as (x & Hx & Hy). destruct (b x); [destruct Hy|]. apply in_flat_map. eauto. }
  induction (g a) as [|z t IHt]; simpl in *; [apply IH; exact H|].
  inversion H as [|? ? Hnz Hndt]; subst. constructor.
  - intros Hin. apply Hnz. apply in_app_or in Hin. apply in_or_app. destruct Hin as [Hin|Hin]; [left; exact Hin|right; apply Hsub; exact Hin].
  - apply IHt. exact Hndt.
Qed.

Lemma list_as_map {A} (d : A) : forall l, l = map (fun i => nth i l d) (seq 0 (length l)).
Proof.
  induction l as [|a l IH]; [reflexivity|]. simpl. f_equal. rewrite <- seq_shift, map_map. exact IH.
Qed.
Lemma courses_as_map : courses = map crs (seq 0 nc).
Proof. apply list_as_map. Qed.

Lemma valid_pairs : Valid -> forall nd, NoDup (map fst (instr_pairs courses nd)).
Proof.
  intros V nd. unfold instr_pairs.
  assert (E : map fst (flat_map (fun c => if cancelled nd c then [] else map (fun i => (i, c)) (c_instr (crs c))) (seq 0 nc)) =
              flat_map (fun c => if cancelled nd c then [] else c_instr (crs c)) (seq 0 nc)).
  { induction (seq 0 nc) as [|c l IH]; simpl; [reflexivity|]. rewrite map_app, IH. f_equal.
    destruct (cancelled nd c); [reflexivity|]. rewrite map_map. simpl. apply map_id. }
  rewrite E. apply (nodup_flat_map_filter (fun c => c_instr (crs c)) (cancelled nd)).
  pose proof (v_instr_nodup V) as H. rewrite courses_as_map in H at 1. rewrite flat_map_concat_map, map_map, <- flat_map_concat_map in H. exact H.
Qed.

Lemma valid_pen : Valid -> forall p ch, In ch (p_choices (prt p)) -> (0 <= ch_pen ch <= maxpen parts)%Z.
Proof. intros V p ch H. apply (v_choice V p ch H). Qed.

(* ---- reflection of the executable check ---- *)
Lemma nodupb_spec l : nodupb l = true -> NoDup l.
Proof.
  induction l as [|x t IH]; simpl; intros H; [constructor|]. apply andb_true_iff in H. destruct H as [H1 H2].
  constructor; [|apply IH; exact H2]. intros Hin. apply memb_true in Hin. rewrite Hin in H1. discriminate.
Qed.

Lemma fold_max_ge (l : list Z) : forall acc x, (In x l \/ x <= acc)%Z -> (x <= fold_left Z.max l acc)%Z.
Proof.
  induction l as [|y t IH]; intros acc x H; simpl.
  - destruct H as [[]|H]; exact H.
  - apply IH. destruct H as [[->|H]|H]; [right; lia|left; exact H|right; lia].
Qed.

Lemma validb_valid : validb courses parts = true -> Valid.
Proof.
  unfold validb. intros H. repeat (apply andb_true_iff in H; destruct H as [H ?]).
  rename H into Hc, H3 into Hnd, H2 into Hp, H1 into Hpen, H0 into Hreal.
  assert (Hcrs : forall c, c < nc -> In (crs c) courses) by (intros c Hc'; apply nth_In; exact Hc').
  rewrite forallb_forall in Hc, Hp.
  assert (Hprt : forall p, p_choices (prt p) <> [] -> In (prt p) parts).
  { intros p Hne. unfold Cao1.prt in *. destruct (Nat.lt_ge_cases p (length parts)) as [Hl|Hl]; [apply nth_In; exact Hl|].
    rewrite nth_overflow in Hne by exact Hl. simpl in Hne. congruence. }
  constructor.
  - intros c i Hc' Hi. specialize (Hc _ (Hcrs c Hc')). apply andb_true_iff in Hc. destruct Hc as [Hc _].
    rewrite forallb_forall in Hc. apply Nat.ltb_lt. apply Hc. exact Hi.
  - apply nodupb_spec. exact Hnd.
  - intros c Hc'. specialize (Hc _ (Hcrs c Hc')). apply andb_true_iff in Hc. destruct Hc as [_ Hc]. apply Nat.leb_le. exact Hc.
  - intros p ch Hch. assert (Hne : p_choices (prt p) <> []) by (intros E; rewrite E in Hch; destruct Hch).
    specialize (Hp _ (Hprt p Hne)). apply andb_true_iff in Hp. destruct Hp as [Hp _]. rewrite forallb_forall in Hp.
    specialize (Hp _ Hch). apply andb_true_iff in Hp. destruct Hp as [Hp1 Hp2]. split; [apply Nat.ltb_lt; exact Hp1|].
    split; [apply Z.leb_le; exact Hp2|]. unfold maxpen. apply fold_max_ge. left. apply in_flat_map. exists (prt p).
    split; [apply Hprt; exact Hne|apply in_map; exact Hch].
  - intros p. destruct (p_choices (prt p)) as [|ch0 t] eqn:E; [constructor|]. rewrite <- E.
    assert (Hne : p_choices (prt p) <> []) by (rewrite E; discriminate).
    specialize (Hp _ (Hprt p Hne)). apply andb_true_iff in Hp. destruct Hp as [_ Hp]. apply nodupb_spec. exact Hp.
  - apply Z.ltb_lt. exact Hpen.
  - apply existsb_exists in Hreal. destruct Hreal as (p & Hp' & Hr). apply in_seq in Hp'. apply negb_true_iff in Hr. exists p. split; [lia|exact Hr].
Qed.
End V.
