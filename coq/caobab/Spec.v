(* Executable specification predicates for assignments (used on the implementation's outputs by the correspondence run)
   and the instance validity predicate.  Definitions only; SpecProofs.v relates them to the Prop-level specification. *)
From Coq Require Import List ZArith Bool Arith.
Require Import HP1 Cao1 Cao3 Score1 Rooms.
Import ListNotations.
Open Scope nat_scope.

Section Spec.
Variables (courses : list course) (parts : list participant).
Notation nc := (nc courses). Notation np := (np parts). Notation crs := (crs courses).
Notation instructs := (instructs courses). Notation instr_only := (instr_only parts).

Definition opt_isb (a : assignment) (p c : nat) : bool := match getO a p with Some c' => Nat.eqb c' c | None => false end.

(* HardOK_K as a boolean *)
Definition hard_okb (K : nat -> bool) (a : assignment) : bool :=
  (length a =? np) &&
  forallb (fun p => match getO a p with Some c => c <? nc | None => true end) (seq 0 np) &&
  forallb (fun c => if K c then forallb (fun p => negb (opt_isb a p c)) (seq 0 np)
                    else forallb (fun i => opt_isb a i c) (c_instr (crs c)) &&
                         (c_min (crs c) <=? attendees courses parts a c) && (attendees courses parts a c <=? c_max (crs c)))
          (seq 0 nc) &&
  forallb (fun p => if instr_only p
                    then match getO a p with Some c => instructs p c && negb (K c) && (c <? nc) | None => true end
                    else existsb (fun c => negb (K c) && instructs p c) (seq 0 nc) ||
                         match getO a p with Some c => has_choice parts p c | None => false end)
          (seq 0 np).

(* the canonical set of cancelled courses of an assignment: non-fixed courses nobody is assigned to *)
Definition canonK (a : assignment) (c : nat) : bool := (people a c =? 0) && negb (c_fixed (crs c)).
Definition hard_ok_canon (a : assignment) : bool := hard_okb (canonK a) a.

(* descending rank-wise comparison *)
Definition housedb (sizes rooms : list nat) : bool :=
  let s := rev (sort_by (fun x => x) sizes) in let r := rev (sort_by (fun x => x) rooms) in
  forallb (fun i => nth i s 0 <=? nth i r 0) (seq 0 (length s)).

(* instance validity *)
Fixpoint nodupb (l : list nat) : bool := match l with [] => true | x :: t => negb (memb x t) && nodupb t end.
Definition maxpen : Z := fold_left Z.max (flat_map (fun p => map ch_pen (p_choices p)) parts) 0%Z.
Definition validb : bool :=
  forallb (fun c => forallb (fun i => i <? np) (c_instr c) && (c_min c <=? c_max c)) courses &&
  nodupb (flat_map c_instr courses) &&
  forallb (fun p => forallb (fun ch => (ch_course ch <? nc) && (0 <=? ch_pen ch)%Z) (p_choices p) &&
                    nodupb (map ch_course (p_choices p))) parts &&
  (Z.of_nat np * maxpen <? WEIGHT_OFFSET)%Z &&
  existsb (fun p => negb (instr_only p)) (seq 0 np).            (* at least one participant with choices *)
(* a participant who has own choices instructs a course: the class of the known finding for C02/C03 *)
Definition in_tc : bool :=
  existsb (fun p => negb (instr_only p) && existsb (fun c => instructs p c) (seq 0 nc)) (seq 0 np).
(* node well-formedness: indices in range, no fixed or enforced course cancelled, an enforced course is never shrunk below its minimum
   (the search only generates such nodes: WfPres) *)
Definition node_wfb (nd : node) : bool :=
  forallb (fun c => (c <? nc) && negb (c_fixed (crs c)) && negb (memb c (n_enf nd))) (n_cancel nd) &&
  forallb (fun c => c <? nc) (n_enf nd) && nodupb (n_enf nd) &&
  forallb (fun cs => (fst cs <? nc) && (negb (memb (fst cs) (n_enf nd)) || (c_min (crs (fst cs)) <=? snd cs))) (n_shrink nd).
End Spec.
