(* Spike for C08: node-level statement on run_node *)
From Coq Require Import List ZArith Lia Bool Arith Permutation.
Require Import Cert HP1 HP2 HP5 HP6 Hall Cao1 Cao2 Cao3 Cao4 Cao5 Cao6 Relax1 Relax3 Score1.
Import ListNotations.
Open Scope nat_scope.

Section T.
Variables (courses : list course) (parts : list participant) (rgate : node -> assignment -> out (option (list node))) (pick : node -> list bool -> assignment -> list node).
Notation np := (np parts). Notation nc := (nc courses). Notation m_ := (m_ courses). Notation n_ := (n_ courses parts).
Notation crs := (crs courses). Notation instructs := (instructs courses).
Hypothesis Hinstr_rng : forall c i, c < nc -> In i (c_instr (crs c)) -> i < np.
Hypothesis Hone : forall p c c', c < nc -> c' < nc -> instructs p c = true -> instructs p c' = true -> c = c'.
Hypothesis Hpairs : forall nd, NoDup (map fst (instr_pairs courses nd)).

Theorem run_node_feasible_score nd a s : run courses parts rgate pick nd = Val (Feasible a s) -> s = score_of courses parts a.
Proof.
  unfold run, run_node.
  set (sx1 := skip_x1 courses parts nd). set (nsx := countB sx1). set (sy := skip_y courses nd). set (nsy := countB sy).
  destruct (_ <? sumN _); [discriminate|]. destruct (sumN _ <? _); [discriminate|]. destruct (existsb _ (seq 0 np)); [discriminate|].
  destruct ((n_ <? m_) || (n_ - m_ + nsy <? nsx)) eqn:G1; [discriminate|].
  apply orb_false_iff in G1. destruct G1 as [G1a G1b]. apply Nat.ltb_ge in G1a, G1b.
  set (extra := n_ - m_ + nsy - nsx). destruct (n_ <? np + extra) eqn:G2; [discriminate|]. apply Nat.ltb_ge in G2.
  set (sx := map (fun x => getB sx1 x || ((np <=? x) && (x <? np + extra))) (seq 0 n_)).
  set (my := mandatory_y courses nd).
  destruct (existsb (fun y => getB my y && getB sy y) (seq 0 m_)); [discriminate|].
  assert (Hlsx1 : length sx1 = n_) by (unfold sx1, skip_x1; rewrite map_length, seq_length; reflexivity).
  assert (Hlsx : length sx = n_) by (unfold sx; rewrite map_length, seq_length; reflexivity).
  assert (Hlsy : length sy = m_) by (unfold sy, skip_y; rewrite map_length, seq_length; reflexivity).
  assert (Hsx1_np : forall x, getB sx1 x = true -> x < np).
  { intros x H. destruct (lt_dec x n_) as [Hx|Hx].
    - unfold sx1, skip_x1 in H. rewrite getB_map_seq' in H by exact Hx. apply andb_prop in H. destruct H as [H _]. apply Nat.ltb_lt in H. exact H.
    - unfold getB in H. rewrite nth_overflow in H by lia. discriminate. }
  assert (Hcnt : countB sx = nsx + extra).
  { unfold sx. rewrite countB_map. rewrite filter_or_disj.
    - fold (cntf (getB sx1) n_). fold (cntf (fun x => (np <=? x) && (x <? np + extra)) n_). rewrite cntf_interval by exact G2.
      unfold cntf. rewrite (count_filter sx1 n_ Hlsx1), cntT_countB. reflexivity.
    - intros x _ H. apply Hsx1_np in H. apply andb_false_iff. left. apply Nat.leb_gt. exact H. }
  assert (Hsq : length (rowsL sx n_) = length (colsL sy m_)).
  { rewrite (rows_len sx n_ Hlsx), (cols_len sy m_ Hlsy), Hcnt. pose proof (countB_le sy). fold nsy in H. rewrite Hlsy in H.
    unfold extra. lia. }
  pose proof (hungarian_partial (adjacency courses parts) (dummy_x courses parts) my sx sy n_ m_ Hsq) as HP.
  destruct (hungarian (adjacency courses parts) (dummy_x courses parts) my sx sy n_ m_) as [[[[mm ms] lx] ly]| |]; try discriminate.
  destruct HP as (Hpm & Hms & _).
  destruct (rgate nd _) as [[bs|]|site|]; try discriminate.
  destruct (negb _ && existsb _ (seq 0 nc)); [discriminate|].
  destruct (existsb _ (seq 0 np) || existsb _ (seq 0 nc)); [discriminate|].
  intros H. inversion H; subst a s. clear H. rewrite Hms.
  apply (node_score_truthful courses parts Hinstr_rng Hone nd sx sy mm my (Hpairs nd)).
  - intros p Hp. unfold sx. rewrite getB_map_seq' by (pose proof (np_le_n courses parts); lia).
    replace ((np <=? p) && (p <? np + extra)) with false by (symmetry; apply andb_false_iff; left; apply Nat.leb_gt; exact Hp).
    rewrite orb_false_r. unfold sx1, skip_x1. rewrite getB_map_seq' by (pose proof (np_le_n courses parts); lia).
    replace (p <? np) with true by (symmetry; apply Nat.ltb_lt; exact Hp). reflexivity.
  - intros y Hy. unfold sy, skip_y. rewrite getB_map_seq' by exact Hy. reflexivity.
  - exact Hpm.
Qed.

(* the score of EVERY answer of a node -- Feasible or Infeasible -- is the recomputed score of the assignment decoded from its matching *)
Theorem run_node_any_score nd r : run courses parts rgate pick nd = Val r ->
  match r with Feasible _ s | Infeasible _ s => exists a, s = score_of courses parts a | NoSolution => True end.
Proof.
  unfold run, run_node.
  set (sx1 := skip_x1 courses parts nd). set (nsx := countB sx1). set (sy := skip_y courses nd). set (nsy := countB sy).
  destruct (_ <? sumN _); [intros H; inversion H; exact I|]. destruct (sumN _ <? _); [intros H; inversion H; exact I|]. destruct (existsb _ (seq 0 np)); [intros H; inversion H; exact I|].
  destruct ((n_ <? m_) || (n_ - m_ + nsy <? nsx)) eqn:G1; [discriminate|].
  apply orb_false_iff in G1. destruct G1 as [G1a G1b]. apply Nat.ltb_ge in G1a, G1b.
  set (extra := n_ - m_ + nsy - nsx). destruct (n_ <? np + extra) eqn:G2; [discriminate|]. apply Nat.ltb_ge in G2.
  set (sx := map (fun x => getB sx1 x || ((np <=? x) && (x <? np + extra))) (seq 0 n_)).
  set (my := mandatory_y courses nd).
  destruct (existsb (fun y => getB my y && getB sy y) (seq 0 m_)); [discriminate|].
  assert (Hlsx1 : length sx1 = n_) by (unfold sx1, skip_x1; rewrite map_length, seq_length; reflexivity).
  assert (Hlsx : length sx = n_) by (unfold sx; rewrite map_length, seq_length; reflexivity).
  assert (Hlsy : length sy = m_) by (unfold sy, skip_y; rewrite map_length, seq_length; reflexivity).
  assert (Hsx1_np : forall x, getB sx1 x = true -> x < np).
  { intros x H. destruct (lt_dec x n_) as [Hx|Hx].
    - unfold sx1, skip_x1 in H. rewrite getB_map_seq' in H by exact Hx. apply andb_prop in H. destruct H as [H _]. apply Nat.ltb_lt in H. exact H.
    - unfold getB in H. rewrite nth_overflow in H by lia. discriminate. }
  assert (Hcnt : countB sx = nsx + extra).
  { unfold sx. rewrite countB_map. rewrite filter_or_disj.
    - fold (cntf (getB sx1) n_). fold (cntf (fun x => (np <=? x) && (x <? np + extra)) n_). rewrite cntf_interval by exact G2.
      unfold cntf. rewrite (count_filter sx1 n_ Hlsx1), cntT_countB. reflexivity.
    - intros x _ H. apply Hsx1_np in H. apply andb_false_iff. left. apply Nat.leb_gt. exact H. }
  assert (Hsq : length (rowsL sx n_) = length (colsL sy m_)).
  { rewrite (rows_len sx n_ Hlsx), (cols_len sy m_ Hlsy), Hcnt. pose proof (countB_le sy). fold nsy in H. rewrite Hlsy in H.
    unfold extra. lia. }
  pose proof (hungarian_partial (adjacency courses parts) (dummy_x courses parts) my sx sy n_ m_ Hsq) as HP.
  destruct (hungarian (adjacency courses parts) (dummy_x courses parts) my sx sy n_ m_) as [[[[mm ms] lx] ly]| |]; try discriminate.
  destruct HP as (Hpm & Hms & _).
  assert (Hkey : (ms + instr_score courses parts nd)%Z = score_of courses parts (add_instr courses nd (amatch courses parts sy mm))).
  { rewrite Hms.
    apply (node_score_truthful courses parts Hinstr_rng Hone nd sx sy mm my (Hpairs nd)).
    - intros p Hp. unfold sx. rewrite getB_map_seq' by (pose proof (np_le_n courses parts); lia).
      replace ((np <=? p) && (p <? np + extra)) with false by (symmetry; apply andb_false_iff; left; apply Nat.leb_gt; exact Hp).
      rewrite orb_false_r. unfold sx1, skip_x1. rewrite getB_map_seq' by (pose proof (np_le_n courses parts); lia).
      replace (p <? np) with true by (symmetry; apply Nat.ltb_lt; exact Hp). reflexivity.
    - intros y Hy. unfold sy, skip_y. rewrite getB_map_seq' by exact Hy. reflexivity.
    - exact Hpm. }
  destruct (rgate nd _) as [[bs|]|site|]; try discriminate.
  - intros H. inversion H; subst r. eexists. exact Hkey.
  - destruct (negb _ && existsb _ (seq 0 nc)); [discriminate|].
    destruct (existsb _ (seq 0 np) || existsb _ (seq 0 nc)); intros H; inversion H; subst r; eexists; exact Hkey.
Qed.
End T.
