(* Spike for C10/C02: an enforced course always reaches its minimum in the relaxed assignment (the assert in check_feasibility) *)
From Coq Require Import List ZArith Lia Bool Arith Permutation.
Require Import Cert HP1 HP2 HP5 HP6 Hall Cao1 Cao2 Cao3 Cao4 Cao5 Cao6 Relax1 Relax2 Relax3 Relax4 Score1.
Import ListNotations.
Open Scope nat_scope.

Section EM.
Variables (courses : list course) (parts : list participant).
Notation np := (np parts). Notation nc := (nc courses). Notation m_ := (m_ courses). Notation n_ := (n_ courses parts).
Notation crs := (crs courses). Notation instructs := (instructs courses). Notation instr_only := (instr_only parts).
Notation course_map := (course_map courses). Notation base := (base courses).
Hypothesis Hone : forall p c c', c < nc -> c' < nc -> instructs p c = true -> instructs p c' = true -> c = c'.
Hypothesis Hminmax : forall c, c < nc -> c_min (crs c) <= c_max (crs c).

Variable nd : node.
Variables (sx sy : list bool) (mm : list nat).
Let my := mandatory_y courses nd.
Hypothesis Hsx : forall p, p < np -> getB sx p = instr_only p || existsb (fun c => negb (cancelled nd c) && instructs p c) (seq 0 nc).
Hypothesis Hguard : existsb (fun y => getB my y && getB sy y) (seq 0 m_) = false.
Hypothesis Hpm : HP5.is_pm (dummy_x courses parts) my sx sy n_ m_ (pairs_of sy m_ mm).
Let a' := add_instr courses nd (amatch courses parts sy mm).
Let V1' := V1 (dummy_x courses parts) my sx sy n_ m_ mm Hpm.
Let V2' := V2 (dummy_x courses parts) my sx sy n_ m_ mm Hpm.

Theorem enforced_reaches_min c : In c (n_enf nd) -> c < nc -> c_min (crs c) <= course_size parts sx a' c.
Proof.
  intros Hin Hcn. set (Y := seq (base c) (c_min (crs c))).
  assert (HY : forall y, In y Y -> y < m_ /\ course_map y = c /\ getB sy y = false /\ getB my y = true).
  { intros y Hy. apply in_seq in Hy.
    destruct (course_map_block courses c (y - base c) Hcn ltac:(pose proof (Hminmax c Hcn); lia)) as [Hm Hcm].
    replace (base c + (y - base c)) with y in * by lia.
    assert (Hmy : getB my y = true).
    { unfold my, mandatory_y. rewrite getB_map_seq' by exact Hm. rewrite Hcm. apply andb_true_iff. split; [apply memb_true; exact Hin|apply Nat.ltb_lt; lia]. }
    repeat split; auto. pose proof (existsb_false_all _ _ Hguard y ltac:(apply in_seq; lia)) as E. cbn in E. rewrite Hmy in E. exact E. }
  (* the participants on the mandatory places *)
  assert (Hreal : forall y, In y Y -> getN mm y < np /\ getB sx (getN mm y) = false /\ getO a' (getN mm y) = Some c).
  { intros y Hy. destruct (HY y Hy) as (Hm & Hcm & Hs & Hmy). destruct (V1' y Hm Hs) as [Hxn Hsx0].
    assert (Hp : getN mm y < np).
    { pose proof Hpm as (_ & _ & Hall). rewrite Forall_forall in Hall.
      assert (Hinp : In (getN mm y, y) (pairs_of sy m_ mm)) by (unfold pairs_of; apply in_map_iff; exists y; split; [reflexivity|apply in_colsL; split; assumption]).
      specialize (Hall _ Hinp). cbn [fst snd] in Hall. unfold HP1.allowed in Hall. rewrite Hmy, andb_true_r in Hall. apply negb_true_iff in Hall.
      unfold dummy_x in Hall. rewrite getB_map_seq' in Hall by exact Hxn. apply Nat.leb_gt in Hall. exact Hall. }
    split; [exact Hp|]. split; [exact Hsx0|]. unfold a'.
    rewrite (a_noinstr courses parts Hone nd sy mm V2' (getN mm y) Hp).
    - apply (am_some courses parts sy mm V2' (getN mm y) c Hp). exists y. auto.
    - apply (sx_false_iff courses parts nd sx Hsx (getN mm y) Hp). exact Hsx0. }
  unfold course_size.
  assert (Hincl : incl (map (getN mm) Y) (filter (fun p => negb (getB sx p) && match getO a' p with Some c' => Nat.eqb c' c | None => false end) (seq 0 np))).
  { intros x Hx. apply in_map_iff in Hx. destruct Hx as (y & <- & Hy). destruct (Hreal y Hy) as (Hp & Hs & Ha).
    apply filter_In. split; [apply in_seq; lia|]. rewrite Hs, Ha, Nat.eqb_refl. reflexivity. }
  assert (Hnd : NoDup (map (getN mm) Y)).
  { apply NoDup_map_inj_in; [apply seq_NoDup|]. intros y y' Hy Hy' He. destruct (HY y Hy) as (Hm & _ & Hs & _). destruct (HY y' Hy') as (Hm' & _ & Hs' & _).
    apply (V2' y y' Hm Hm' Hs Hs' He). }
  pose proof (NoDup_incl_length Hnd Hincl) as L. rewrite map_length in L. unfold Y in L. rewrite seq_length in L. exact L.
Qed.
End EM.
