(* caobab spike, part 4: discharge the matching hypotheses V1-V3 from the Hungarian theorem's conclusion; cm_spec *)
From Coq Require Import List ZArith Lia Bool Arith Permutation.
Require Import HP1 HP2 HP5 HP6 Cao1.
Import ListNotations.
Open Scope nat_scope.

Lemma NoDup_map_inj {A B} (f : A -> B) : forall l a b, NoDup (map f l) -> In a l -> In b l -> f a = f b -> a = b.
Proof.
  induction l as [|x l IH]; intros a b Hnd Ha Hb He; [destruct Ha|]. cbn in Hnd. inversion Hnd as [|? ? Hnot Hnd']; subst.
  destruct Ha as [->|Ha], Hb as [->|Hb]; auto.
  - exfalso. apply Hnot. rewrite He. apply in_map. exact Hb.
  - exfalso. apply Hnot. rewrite <- He. apply in_map. exact Ha.
Qed.

Section V.
Variables (dx my sx sy : list bool) (nx ny : nat) (mm : list nat).
Hypothesis Hpm : HP5.is_pm dx my sx sy nx ny (pairs_of sy ny mm).

Lemma pm_rows : Permutation (map (getN mm) (colsL sy ny)) (rowsL sx nx).
Proof. destruct Hpm as (H & _). unfold pairs_of in H. rewrite map_map in H. cbn [fst] in H. exact H. Qed.

Lemma V1 y : y < ny -> getB sy y = false -> getN mm y < nx /\ getB sx (getN mm y) = false.
Proof.
  intros Hy Hs. assert (Hin : In (getN mm y) (rowsL sx nx)).
  { apply (Permutation_in _ pm_rows). apply in_map. apply in_colsL. split; assumption. }
  apply in_rowsL in Hin. exact Hin.
Qed.
Lemma V2 y y' : y < ny -> y' < ny -> getB sy y = false -> getB sy y' = false -> getN mm y = getN mm y' -> y = y'.
Proof.
  intros Hy Hy' Hs Hs' He. apply (NoDup_map_inj (getN mm) (colsL sy ny)); auto.
  - apply (Permutation_NoDup (Permutation_sym pm_rows)). apply NoDup_filter_seq.
  - apply in_colsL. split; assumption.
  - apply in_colsL. split; assumption.
Qed.
Lemma V3 x : x < nx -> getB sx x = false -> exists y, y < ny /\ getB sy y = false /\ getN mm y = x.
Proof.
  intros Hx Hs. assert (Hin : In x (map (getN mm) (colsL sy ny))).
  { apply (Permutation_in _ (Permutation_sym pm_rows)). apply in_rowsL. split; assumption. }
  apply in_map_iff in Hin. destruct Hin as (y & He & Hy). apply in_colsL in Hy. destruct Hy. exists y. auto.
Qed.
End V.

(* ---- course_map / base arithmetic ---- *)
Lemma course_of_aux_spec : forall cs c y, y < sumN (map c_max cs) ->
  let r := course_of_aux cs c y in
  c <= r /\ r < c + length cs /\
  sumN (map c_max (firstn (r - c) cs)) <= y /\ y < sumN (map c_max (firstn (r - c) cs)) + c_max (nth (r - c) cs {| c_min := 0; c_max := 0; c_instr := []; c_fixed := false |}).
Proof.
  induction cs as [|k t IH]; intros c y Hy; cbn [map sumN fold_right] in Hy; [lia|].
  cbn [course_of_aux]. destruct (y <? c_max k) eqn:E.
  - apply Nat.ltb_lt in E. cbn zeta. replace (c - c) with 0 by lia. cbn. lia.
  - apply Nat.ltb_ge in E. specialize (IH (S c) (y - c_max k) ltac:(unfold sumN in *; lia)). cbn zeta in *.
    set (r := course_of_aux t (S c) (y - c_max k)) in *. destruct IH as (H1 & H2 & H3 & H4).
    replace (r - c) with (S (r - S c)) by lia. cbn [firstn map sumN fold_right nth length]. unfold sumN in *. lia.
Qed.

Lemma cm_spec courses y : y < m_ courses ->
  course_map courses y < nc courses /\ base courses (course_map courses y) <= y /\
  y < base courses (course_map courses y) + c_max (crs courses (course_map courses y)).
Proof.
  intros Hy. pose proof (course_of_aux_spec courses 0 y Hy) as H. cbn zeta in H. unfold course_map, base, crs, nc.
  rewrite Nat.sub_0_r in H. lia.
Qed.
