(* Spike for C02/C10: number of active columns = sum of effective maxima; covered nodes pass all early checks and guards *)
From Coq Require Import List ZArith Lia Bool Arith Permutation.
Require Import Cert HP1 HP2 HP5 HP6 Hall Cao1 Cao2 Cao3 Cao4 Cao5 Cao6 Relax1 Relax2 Relax3.
Import ListNotations.
Open Scope nat_scope.

Lemma filter_flat_map {A B} (f : B -> bool) (g : A -> list B) l : filter f (flat_map g l) = flat_map (fun a => filter f (g a)) l.
Proof. induction l as [|a l IH]; simpl; [reflexivity|]. rewrite filter_app, IH. reflexivity. Qed.
Lemma seq_shift_filter_prefix b n k : k <= n -> filter (fun y => y - b <? k) (seq b n) = seq b k.
Proof.
  intros Hk. replace n with (k + (n - k)) by lia. rewrite seq_app, filter_app.
  rewrite (filter_all _ (seq b k)), (filter_none _ (seq (b + k) (n - k))), app_nil_r; [reflexivity| |].
  - intros y Hy. apply in_seq in Hy. apply Nat.ltb_ge. lia.
  - intros y Hy. apply in_seq in Hy. apply Nat.ltb_lt. lia.
Qed.

Section B.
Variables (courses : list course).
Notation nc := (nc courses). Notation m_ := (m_ courses). Notation crs := (crs courses). Notation base := (base courses).
Notation course_map := (course_map courses).

Lemma base_0 : base 0 = 0. Proof. reflexivity. Qed.
Lemma base_nc : base nc = m_.
Proof. unfold Cao1.base, Cao1.nc, Cao1.m_. rewrite firstn_all. reflexivity. Qed.

Lemma seq_blocks : forall c, c <= nc -> seq 0 (base c) = flat_map (fun c' => seq (base c') (c_max (crs c'))) (seq 0 c).
Proof.
  induction c as [|c IH]; intros Hc; [reflexivity|].
  rewrite seq_S, flat_map_app. cbn [flat_map plus]. rewrite app_nil_r, <- IH by lia.
  rewrite (base_S courses c) by lia. rewrite seq_app. reflexivity.
Qed.

Lemma active_cols_count nd :
  length (colsL (skip_y courses nd) m_) = sumN (map (eff_max courses nd) (seq 0 nc)).
Proof.
  unfold colsL. rewrite <- base_nc at 1. rewrite (seq_blocks nc) by lia. rewrite filter_flat_map, flat_map_length'.
  f_equal. apply map_ext_in. intros c Hc. apply in_seq in Hc.
  rewrite (filter_ext_in _ (fun y => y - base c <? eff_max courses nd c)).
  - rewrite seq_shift_filter_prefix by apply eff_max_le. apply seq_length.
  - intros y Hy. apply in_seq in Hy.
    destruct (course_map_block courses c (y - base c) ltac:(lia) ltac:(lia)) as [Hm Hcm]. replace (base c + (y - base c)) with y in * by lia.
    unfold skip_y. rewrite getB_map_seq' by exact Hm. rewrite Hcm.
    destruct (eff_max courses nd c <=? y - base c) eqn:E; [apply Nat.leb_le in E|apply Nat.leb_gt in E]; cbn; symmetry; [apply Nat.ltb_ge|apply Nat.ltb_lt]; lia.
Qed.
End B.

Lemma sumN_le_map {A} (f g : A -> nat) l : (forall x, In x l -> f x <= g x) -> sumN (map f l) <= sumN (map g l).
Proof. unfold sumN. induction l as [|a l IH]; intros H; simpl; [lia|]. specialize (IH (fun x Hx => H x (or_intror Hx))). specialize (H a (or_introl eq_refl)). lia. Qed.
Lemma sumN_incl_nodup (g : nat -> nat) : forall E L, NoDup E -> incl E L -> sumN (map g E) <= sumN (map g L).
Proof.
  induction E as [|x E IH]; intros L Hnd HE; [unfold sumN; simpl; lia|].
  inversion Hnd as [|? ? Hnx Hnd']; subst.
  assert (Hx : In x L) by (apply HE; left; reflexivity). apply in_split in Hx. destruct Hx as (l1 & l2 & ->).
  assert (HE' : incl E (l1 ++ l2)).
  { intros y Hy. assert (y <> x) by (intros ->; contradiction). specialize (HE y (or_intror Hy)). apply in_app_or in HE.
    apply in_or_app. destruct HE as [H1|[H1|H1]]; [left; exact H1|congruence|right; exact H1]. }
  specialize (IH (l1 ++ l2) Hnd' HE'). rewrite !map_app, !sumN_app in *. cbn [map]. unfold sumN in *. cbn [fold_right]. lia.
Qed.
Lemma sumN_sub_nodup (g : nat -> nat) E n : NoDup E -> (forall c, In c E -> c < n) -> sumN (map g E) <= sumN (map g (seq 0 n)).
Proof. intros Hnd Hin. apply sumN_incl_nodup; [exact Hnd|]. intros c Hc. apply in_seq. specialize (Hin c Hc). lia. Qed.

Lemma countB_mono (f g : nat -> bool) n : (forall x, x < n -> f x = true -> g x = true) ->
  countB (map f (seq 0 n)) <= countB (map g (seq 0 n)).
Proof. intros H. rewrite !countB_map. apply filter_length_le. intros x Hx. apply in_seq in Hx. apply H. lia. Qed.

Lemma seq_split2 a n : a <= n -> seq 0 n = seq 0 a ++ seq a (n - a).
Proof. intros H. replace n with (a + (n - a)) at 1 by lia. rewrite seq_app. reflexivity. Qed.

Section RG.
Variables (courses : list course) (parts : list participant) (rgate : node -> assignment -> out (option (list node))) (pick : node -> list bool -> assignment -> list node).
Notation np := (np parts). Notation nc := (nc courses). Notation m_ := (m_ courses). Notation n_ := (n_ courses parts).
Notation crs := (crs courses). Notation base := (base courses). Notation course_map := (course_map courses).
Variable nd : node.
Variable a : assignment.
Let sx1 := skip_x1 courses parts nd.
Let A (c : nat) : list nat := filter (fun p => negb (getB sx1 p) && opt_is (getO a p) c) (seq 0 np).
Hypothesis A1 : forall p, p < np -> getB sx1 p = false -> exists c, c < nc /\ getO a p = Some c.
Hypothesis A2 : forall c, c < nc -> length (A c) <= eff_max courses nd c.
Hypothesis A3 : forall c, In c (n_enf nd) -> c < nc -> c_min (crs c) <= length (A c).
Hypothesis A4 : forall p, p < np -> getB sx1 p = false -> exists c, getO a p = Some c /\ has_choice parts p c = true /\ cancelled nd c = false.
Hypothesis Wenf : NoDup (n_enf nd) /\ forall c, In c (n_enf nd) -> c < nc.

Lemma sx1_len : length sx1 = n_. Proof. unfold sx1, skip_x1. rewrite map_length, seq_length. reflexivity. Qed.
Lemma sx1_np x : getB sx1 x = true -> x < np.
Proof.
  intros H. destruct (lt_dec x n_) as [Hx|Hx].
  - unfold sx1, skip_x1 in H. rewrite getB_map_seq' in H by exact Hx. apply andb_prop in H. destruct H as [H _]. apply Nat.ltb_lt in H. exact H.
  - unfold getB in H. rewrite nth_overflow in H by (rewrite sx1_len; lia). discriminate.
Qed.
(* active participants, counted two ways *)
Lemma active_count : length (filter (fun p => negb (getB sx1 p)) (seq 0 np)) = np - countB sx1.
Proof.
  pose proof (filter_compl (getB sx1) (seq 0 np)) as Hc. rewrite seq_length in Hc.
  assert (E : length (filter (getB sx1) (seq 0 np)) = countB sx1).
  { rewrite <- cntT_countB, <- (count_filter sx1 n_ sx1_len). pose proof (np_le_n courses parts).
    rewrite (seq_split2 np n_) by lia. rewrite filter_app, app_length.
    rewrite (filter_none _ (seq np (n_ - np))); [cbn; lia|].
    intros x Hx. apply in_seq in Hx. destruct (getB sx1 x) eqn:E; [apply sx1_np in E; lia|reflexivity]. }
  lia.
Qed.
Lemma groups_count : sumN (map (fun c => length (A c)) (seq 0 nc)) = np - countB sx1.
Proof.
  rewrite <- active_count, <- flat_map_length'. apply Permutation_length.
  apply (group_perm (fun p => negb (getB sx1 p)) (fun p c => opt_is (getO a p) c) nc (seq 0 np)).
  - intros p Hp Hf. apply in_seq in Hp. apply negb_true_iff in Hf. destruct (A1 p ltac:(lia) Hf) as (c & Hc & Ha).
    exists c. split; [exact Hc|]. unfold opt_is. rewrite Ha. apply Nat.eqb_refl.
  - intros p c c' H H'. unfold opt_is in *. destruct (getO a p); [|discriminate]. apply Nat.eqb_eq in H, H'. congruence.
Qed.

(* the room stage itself does not fail (its own panic sites are C10's subject) *)
Hypothesis Hrg : forall nd a, exists o, rgate nd a = Val o.

Theorem relax_ge_node :
  match run courses parts rgate pick nd with
  | Val (Infeasible _ s) | Val (Feasible _ s) => (placed_weight courses parts nd a + instr_score courses parts nd <= s)%Z
  | HOverflow => True
  | Panic 5 => True     (* the assert of check_feasibility; excluded separately (Cov5.enforced_reaches_min) *)
  | _ => False
  end.
Proof.
  unfold run, run_node. fold sx1.
  set (nsx := countB sx1). set (sy := skip_y courses nd). set (nsy := countB sy).
  pose proof groups_count as HG. fold nsx in HG.
  (* check 1 *)
  destruct (np - nsx <? sumN _) eqn:C1.
  { exfalso. apply Nat.ltb_lt in C1. destruct Wenf as [Hnd Hrng].
    pose proof (sumN_le_map (fun c => c_min (crs c)) (fun c => length (A c)) (n_enf nd) (fun c Hc => A3 c Hc (Hrng c Hc))) as L1.
    pose proof (sumN_sub_nodup (fun c => length (A c)) (n_enf nd) nc Hnd Hrng) as L2. lia. }
  (* check 2 *)
  destruct (sumN (map (eff_max courses nd) (seq 0 nc)) <? np - nsx) eqn:C2.
  { exfalso. apply Nat.ltb_lt in C2. pose proof (sumN_le_map (fun c => length (A c)) (eff_max courses nd) (seq 0 nc) (fun c Hc => A2 c ltac:(apply in_seq in Hc; lia))). lia. }
  apply Nat.ltb_ge in C2.
  (* check 3 *)
  destruct (existsb _ (seq 0 np)) eqn:C3.
  { exfalso. apply existsb_exists in C3. destruct C3 as (p & Hp & H). apply in_seq in Hp. apply andb_prop in H. destruct H as [Hs Hall].
    apply negb_true_iff in Hs. destruct (A4 p ltac:(lia) Hs) as (c & _ & Hch & Hcan).
    unfold has_choice in Hch. apply existsb_exists in Hch. destruct Hch as (ch & Hin & E). apply Nat.eqb_eq in E.
    rewrite forallb_forall in Hall. specialize (Hall ch Hin). rewrite E in Hall. congruence. }
  (* guards *)
  assert (Hlsy : length sy = m_) by (unfold sy, skip_y; rewrite map_length, seq_length; reflexivity).
  assert (Hcols : m_ - nsy = sumN (map (eff_max courses nd) (seq 0 nc))).
  { rewrite <- (active_cols_count courses nd). fold sy. rewrite (cols_len sy m_ Hlsy). reflexivity. }
  assert (Hnsy : nsy <= m_) by (pose proof (countB_le sy); lia).
  assert (Hnm : m_ + countB (map (skippable courses parts) (seq 0 np)) <= n_) by (unfold Cao1.n_; lia).
  assert (Hskip : nsx <= countB (map (skippable courses parts) (seq 0 np))).
  { unfold nsx. rewrite <- cntT_countB, <- (count_filter sx1 n_ sx1_len). rewrite countB_map.
    pose proof (np_le_n courses parts) as Hnpn. rewrite (seq_split2 np n_) by lia. rewrite filter_app, app_length.
    rewrite (filter_none _ (seq np (n_ - np))) by (intros x Hx; apply in_seq in Hx; destruct (getB sx1 x) eqn:E; [apply sx1_np in E; lia|reflexivity]).
    cbn [length]. rewrite Nat.add_0_r. apply filter_length_le. intros p Hp H. apply in_seq in Hp.
    unfold sx1, skip_x1 in H. rewrite getB_map_seq' in H by lia. apply andb_prop in H. destruct H as [_ H].
    unfold skippable. apply orb_true_iff in H. apply orb_true_iff. destruct H as [H|H]; [left; exact H|right].
    apply existsb_exists in H. destruct H as (c & Hc & H). apply andb_prop in H. apply existsb_exists. exists c. tauto. }
  destruct ((n_ <? m_) || (n_ - m_ + nsy <? nsx)) eqn:G1.
  { exfalso. apply orb_true_iff in G1. destruct G1 as [G|G]; apply Nat.ltb_lt in G; lia. }
  apply orb_false_iff in G1. destruct G1 as [G1a G1b]. apply Nat.ltb_ge in G1a, G1b.
  set (extra := n_ - m_ + nsy - nsx). destruct (n_ <? np + extra) eqn:G2.
  { exfalso. apply Nat.ltb_lt in G2. pose proof (sx1_np) as _. assert (nsx <= np).
    { unfold nsx. rewrite <- cntT_countB, <- (count_filter sx1 n_ sx1_len). pose proof active_count. pose proof (filter_compl (getB sx1) (seq 0 np)).
      rewrite seq_length in *. fold nsx in H. lia. }
    unfold extra in G2. lia. }
  apply Nat.ltb_ge in G2.
  set (sx := map (fun x => getB sx1 x || ((np <=? x) && (x <? np + extra))) (seq 0 n_)).
  set (my := mandatory_y courses nd).
  destruct (existsb (fun y => getB my y && getB sy y) (seq 0 m_)) eqn:G3.
  { exfalso. apply existsb_exists in G3. destruct G3 as (y & Hy & H). apply in_seq in Hy. apply andb_prop in H. destruct H as [Hm Hs].
    unfold my, mandatory_y in Hm. rewrite getB_map_seq' in Hm by lia. apply andb_prop in Hm. destruct Hm as [Hm1 Hm2].
    apply memb_true in Hm1. apply Nat.ltb_lt in Hm2. destruct (cm_spec courses y ltac:(lia)) as (Hc & _).
    unfold sy, skip_y in Hs. rewrite getB_map_seq' in Hs by lia. apply Nat.leb_le in Hs.
    pose proof (A3 _ Hm1 Hc). pose proof (A2 _ Hc). lia. }
  (* the matching *)
  destruct (relax_pm courses parts nd a A1 A2 A3 G1a G1b G2) as (pm & Hpm & Hw).
  pose proof (hungarian_correct (adjacency courses parts) (dummy_x courses parts) my sx sy n_ m_ pm Hpm) as HC.
  destruct (hungarian (adjacency courses parts) (dummy_x courses parts) my sx sy n_ m_) as [[[[mm ms] lx] ly]| |]; [|destruct HC|exact I].
  destruct HC as (_ & _ & Hopt). specialize (Hopt pm Hpm). rewrite Hw in Hopt.
  destruct (Hrg nd (add_instr courses nd (amatch courses parts sy mm))) as (o & ->). destruct o as [bs|]; [lia|].
  destruct (negb _ && existsb _ (seq 0 nc)); [exact I|].
  destruct (existsb _ _ || existsb _ _); lia.
Qed.
End RG.
