(* The complete node function of caobab.rs assembled from its parts: precompute_problem + run_bab_node (Cao1), the matching
   routine (HP1), the room stage and the wrong-course heuristic (Rooms), the minimum-size branching (Cov6.pick_real). *)
From Coq Require Import List ZArith Bool Arith.
Require Import HP1 Cao1 Cao5 Cov6 Rooms.
Import ListNotations.

Section Node.
Variables (courses : list course) (parts : list participant).
Variable esize : nat -> nat -> nat.
Variable shrinkf : nat -> nat -> nat.
Variable rooms : option (list nat).

Definition the_gate := room_gate courses esize shrinkf rooms.
Definition the_pick := pick_real courses parts (pick_wrong courses parts).
Definition run_full (nd : node) : out nres := run courses parts the_gate the_pick nd.
Definition root : node := {| n_cancel := []; n_enf := []; n_shrink := [] |}.
End Node.
