(* Spike for C08: the score of a Feasible node equals the score recomputed from its assignment *)
From Coq Require Import List ZArith Lia Bool Arith Permutation.
Require Import Cert HP1 HP2 HP5 HP6 Hall Cao1 Cao2 Cao3 Cao4 Cao5 Cao6 Relax1 Relax3.
Import ListNotations.
Open Scope nat_scope.

Lemma Permutation_filter {A} (f : A -> bool) l l' : Permutation l l' -> Permutation (filter f l) (filter f l').
Proof.
  induction 1; simpl; auto.
  - destruct (f x); auto.
  - destruct (f x), (f y); auto. apply perm_swap.
  - eapply Permutation_trans; eauto.
Qed.
Lemma filter_map_comm {A B} (g : A -> B) (f : B -> bool) l : filter f (map g l) = map g (filter (fun x => f (g x)) l).
Proof. induction l as [|a l IH]; simpl; [reflexivity|]. destruct (f (g a)); simpl; rewrite IH; reflexivity. Qed.
Lemma sumZ_partition {A} (f : A -> bool) (F : A -> Z) l :
  sumZ (map F l) = (sumZ (map F (filter f l)) + sumZ (map F (filter (fun x => negb (f x)) l)))%Z.
Proof. rewrite <- sumZ_app, <- map_app. apply sumZ_map_perm. apply Permutation_sym, perm_partition. Qed.
Lemma sumZ_const {A} (F : A -> Z) k l : (forall x, In x l -> F x = k) -> sumZ (map F l) = (k * Z.of_nat (length l))%Z.
Proof. induction l as [|a l IH]; intros H; [simpl; lia|]. cbn [map sumZ fold_right length]. unfold sumZ in *. rewrite IH by (intros; apply H; right; assumption). rewrite (H a (or_introl eq_refl)). lia. Qed.

(* fold over instructor pairs as a sum *)
Lemma instr_score_sum courses parts nd :
  instr_score courses parts nd =
  (WEIGHT_OFFSET * Z.of_nat (length (filter (fun ic => negb (instr_only parts (fst ic))) (instr_pairs courses nd))))%Z.
Proof.
  unfold instr_score.
  assert (G : forall l s, fold_left (fun s ic => if instr_only parts (fst ic) then s else (s + WEIGHT_OFFSET)%Z) l s =
            (s + WEIGHT_OFFSET * Z.of_nat (length (filter (fun ic : nat * nat => negb (instr_only parts (fst ic))) l)))%Z).
  { induction l as [|ic l IH]; intros s; cbn [fold_left filter]; [simpl; lia|]. rewrite IH. destruct (instr_only parts (fst ic)); cbn [negb length]; lia. }
  rewrite G. lia.
Qed.

Lemma NoDup_map_filter {A B} (g : A -> B) (f : A -> bool) l : NoDup (map g l) -> NoDup (map g (filter f l)).
Proof.
  induction l as [|a l IH]; intros H; simpl; [constructor|]. cbn in H. inversion H as [|? ? Hn Hnd]; subst.
  destruct (f a); [|apply IH, Hnd]. cbn. constructor; [|apply IH, Hnd].
  intros Hin. apply Hn. apply in_map_iff in Hin. destruct Hin as (b & Hb & Hin). apply filter_In in Hin. apply in_map_iff. exists b. tauto.
Qed.

Section SC.
Variables (courses : list course) (parts : list participant).
Notation np := (np parts). Notation nc := (nc courses). Notation m_ := (m_ courses). Notation n_ := (n_ courses parts).
Notation crs := (crs courses). Notation course_map := (course_map courses). Notation base := (base courses).
Notation instructs := (instructs courses). Notation instr_only := (instr_only parts). Notation cw := (choice_weight parts).
Hypothesis Hinstr_rng : forall c i, c < nc -> In i (c_instr (crs c)) -> i < np.
Hypothesis Hone : forall p c c', c < nc -> c' < nc -> instructs p c = true -> instructs p c' = true -> c = c'.

Definition score_of (a : assignment) : Z :=
  sumZ (map (fun p => if instr_only p then 0%Z else
                      match getO a p with Some c => if instructs p c then WEIGHT_OFFSET else cw p c | None => 0%Z end) (seq 0 np)).

Variable nd : node.
Variables (sx sy : list bool) (mm : list nat) (my : list bool).
Let K := cancelled nd.
Hypothesis Hpairs_nd : NoDup (map fst (instr_pairs courses nd)).
Hypothesis Hsx : forall p, p < np -> getB sx p = instr_only p || existsb (fun c => negb (K c) && instructs p c) (seq 0 nc).
Hypothesis Hsx_dummy : forall x, np <= x -> x < n_ -> True.
Hypothesis Hsy : forall y, y < m_ -> getB sy y = (eff_max courses nd (course_map y) <=? y - base (course_map y)).
Hypothesis Hpm : HP5.is_pm (dummy_x courses parts) my sx sy n_ m_ (pairs_of sy m_ mm).
Let a := add_instr courses nd (amatch courses parts sy mm).

Let V1' := V1 (dummy_x courses parts) my sx sy n_ m_ mm Hpm.
Let V2' := V2 (dummy_x courses parts) my sx sy n_ m_ mm Hpm.
Let V3' : forall x, x < np -> getB sx x = false -> exists y, y < m_ /\ getB sy y = false /\ getN mm y = x.
Proof. intros x Hx Hs. apply (V3 (dummy_x courses parts) my sx sy n_ m_ mm Hpm x); [pose proof (np_le_n courses parts); lia|exact Hs]. Qed.

Let G (p : nat) : Z := match getO a p with Some c => cw p c | None => 0%Z end.
Let Rl := filter (fun p => negb (getB sx p)) (seq 0 np).

(* the matching part *)
Lemma mscore_sum : HP6.weight (adjacency courses parts) (pairs_of sy m_ mm) = sumZ (map G Rl).
Proof.
  unfold HP6.weight, pairs_of. rewrite map_map. cbn [fst snd].
  rewrite (sumZ_partition (fun y => getN mm y <? np)).
  rewrite (sumZ_zero (map _ (filter (fun y => negb (getN mm y <? np)) _))).
  2:{ apply Forall_forall. intros z Hz. apply in_map_iff in Hz. destruct Hz as (y & <- & Hy). apply filter_In in Hy. destruct Hy as [_ Hy].
      apply negb_true_iff, Nat.ltb_ge in Hy. apply (W_adj_dummy courses parts). exact Hy. }
  rewrite Z.add_0_r.
  set (Yr := filter (fun y => getN mm y <? np) (colsL sy m_)).
  assert (HYr : forall y, In y Yr -> y < m_ /\ getB sy y = false /\ getN mm y < np).
  { intros y Hy. apply filter_In in Hy. destruct Hy as [Hy Hlt]. apply in_colsL in Hy. destruct Hy. apply Nat.ltb_lt in Hlt. auto. }
  rewrite (map_ext_in _ (fun y => G (getN mm y)) Yr).
  2:{ intros y Hy. destruct (HYr y Hy) as (Hym & Hs & Hp). destruct (V1' y Hym Hs) as [Hxn Hsx0].
      rewrite (W_adj courses parts _ _ Hxn Hym). replace (getN mm y <? np) with true by (symmetry; apply Nat.ltb_lt; exact Hp).
      unfold G. assert (Ha : getO a (getN mm y) = Some (course_map y)).
      { unfold a. rewrite (a_noinstr courses parts Hone nd sy mm V2' (getN mm y) Hp).
        - apply (am_some courses parts sy mm V2' (getN mm y) (course_map y) Hp). exists y. auto.
        - apply (sx_false_iff courses parts nd sx Hsx (getN mm y) Hp). exact Hsx0. }
      rewrite Ha. reflexivity. }
  rewrite <- map_map. apply sumZ_map_perm.
  (* map mm Yr ~ Rl *)
  pose proof (pm_rows (dummy_x courses parts) my sx sy n_ m_ mm Hpm) as Hr.
  apply (Permutation_filter (fun x => x <? np)) in Hr. rewrite filter_map_comm in Hr. fold Yr in Hr.
  eapply Permutation_trans; [exact Hr|]. unfold rowsL, Rl. rewrite filter_filter.
  pose proof (np_le_n courses parts) as Hn. replace n_ with (np + (n_ - np)) by lia. rewrite seq_app, filter_app.
  rewrite (filter_none _ (seq (0 + np) (n_ - np))).
  2:{ intros x Hx. apply in_seq in Hx. apply andb_false_iff. right. apply Nat.ltb_ge. lia. }
  rewrite app_nil_r. erewrite filter_ext_in; [apply Permutation_refl|].
  intros x Hx. apply in_seq in Hx. replace (x <? np) with true by (symmetry; apply Nat.ltb_lt; lia). apply andb_true_r.
Qed.

Let Tl := filter (fun p => getB sx p && negb (instr_only p)) (seq 0 np).

(* a participant's own course when active: never an instructed one *)
Lemma active_not_instr p c : p < np -> getB sx p = false -> getO a p = Some c -> instructs p c = false.
Proof.
  intros Hp Hs Ha. pose proof (proj1 (sx_false_iff courses parts nd sx Hsx p Hp) Hs) as [_ Hn].
  destruct (a_cases courses parts Hone nd sx sy mm V1' V2' p c Hp Ha) as [(Hc & Hk & Hi)|(_ & cp & Hcp & Hsc & Hm & Hcm)].
  - rewrite (Hn c Hc Hk) in Hi. discriminate.
  - destruct (cm_spec courses cp Hcp) as (Hc & _). rewrite Hcm in Hc.
    apply Hn; [exact Hc|]. fold (K c). destruct (K c) eqn:Ek; [|reflexivity].
    rewrite (Hsy cp Hcp), Hcm in Hsc. unfold eff_max in Hsc. fold (K c) in Hsc. rewrite Ek in Hsc. discriminate.
Qed.

Lemma score_of_split : score_of a = (sumZ (map G Rl) + WEIGHT_OFFSET * Z.of_nat (length Tl))%Z.
Proof.
  unfold score_of. rewrite (sumZ_partition (fun p => negb (getB sx p))). fold Rl. f_equal.
  - apply sumZ_map_eq. apply Forall_forall. intros p Hp. apply filter_In in Hp. destruct Hp as [Hp Hs]. apply in_seq in Hp. apply negb_true_iff in Hs.
    pose proof (proj1 (sx_false_iff courses parts nd sx Hsx p ltac:(lia)) Hs) as [Hio _]. rewrite Hio. unfold G.
    destruct (getO a p) as [c|] eqn:Ea; [|reflexivity]. rewrite (active_not_instr p c ltac:(lia) Hs Ea). reflexivity.
  - (* skipped participants: instructor-only count 0, teachers count the offset *)
    rewrite (sumZ_partition (fun p => negb (instr_only p)) _ (filter _ _)). rewrite !filter_filter.
    rewrite (sumZ_zero (map _ (filter (fun x => negb (negb (getB sx x)) && negb (negb (instr_only x))) _))).
    2:{ apply Forall_forall. intros z Hz. apply in_map_iff in Hz. destruct Hz as (p & <- & Hp). apply filter_In in Hp. destruct Hp as [_ Hp].
        apply andb_prop in Hp. destruct Hp as [_ Hp]. rewrite negb_involutive in Hp. rewrite Hp. reflexivity. }
    rewrite Z.add_0_r.
    rewrite (filter_ext _ (fun p => getB sx p && negb (instr_only p))) by (intros p; rewrite negb_involutive; reflexivity). fold Tl.
    apply sumZ_const. intros p Hp. apply filter_In in Hp. destruct Hp as [Hp Hc]. apply in_seq in Hp. apply andb_prop in Hc. destruct Hc as [Hs Hio].
    apply negb_true_iff in Hio. rewrite Hio.
    rewrite (Hsx p ltac:(lia)), Hio in Hs. cbn [orb] in Hs. apply existsb_exists in Hs. destruct Hs as (c & Hc & Hs). apply in_seq in Hc.
    apply andb_prop in Hs. destruct Hs as [Hk Hi]. apply negb_true_iff in Hk.
    pose proof (a_instr courses parts Hone nd sy mm V2' p c ltac:(lia) ltac:(lia) Hk Hi) as Ha. fold a in Ha. rewrite Ha, Hi. reflexivity.
Qed.

Lemma teachers_count : length (filter (fun ic => negb (instr_only (fst ic))) (instr_pairs courses nd)) = length Tl.
Proof.
  rewrite <- (map_length fst). apply Permutation_length. apply NoDup_Permutation.
  - apply NoDup_map_filter. exact Hpairs_nd.
  - apply NoDup_filter, seq_NoDup.
  - intros p. rewrite in_map_iff. unfold Tl. rewrite filter_In, in_seq. split.
    + intros ([i c] & Hf & Hin). cbn in Hf. subst i. apply filter_In in Hin. destruct Hin as [Hin Hio]. cbn in Hio.
      apply in_instr_pairs in Hin. destruct Hin as (Hc & Hk & Hi). pose proof (Hinstr_rng c p Hc Hi) as Hp.
      split; [lia|]. rewrite Hio, andb_true_r. rewrite (Hsx p Hp). apply orb_true_iff. right. apply existsb_exists.
      exists c. split; [apply in_seq; lia|]. change (cancelled nd c) with (K c) in Hk. rewrite Hk. cbn. apply memb_true. exact Hi.
    + intros [Hp Hc]. apply andb_prop in Hc. destruct Hc as [Hs Hio]. rewrite (Hsx p ltac:(lia)) in Hs.
      apply negb_true_iff in Hio. rewrite Hio in Hs. cbn [orb] in Hs. apply existsb_exists in Hs. destruct Hs as (c & Hc & Hs). apply in_seq in Hc.
      apply andb_prop in Hs. destruct Hs as [Hk Hi]. apply negb_true_iff in Hk. apply memb_true in Hi.
      exists (p, c). split; [reflexivity|]. apply filter_In. split; [apply in_instr_pairs; repeat split; auto; lia|]. cbn. rewrite Hio. reflexivity.
Qed.

Theorem node_score_truthful :
  (HP6.weight (adjacency courses parts) (pairs_of sy m_ mm) + instr_score courses parts nd)%Z = score_of a.
Proof. rewrite mscore_sum, score_of_split, instr_score_sum, teachers_count. reflexivity. Qed.
End SC.
