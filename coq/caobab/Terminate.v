(* The subproblem tree of caobab::solve is finite: a height function on subproblems decreases strictly along every child the node
   function generates (minimum-size branching, wrong-course heuristic, room constraint sets).  With the engine's measure theorem
   (C04_termination) this bounds the length of every run: the search never hangs (C10), for every worker count and interleaving. *)
From Coq Require Import List ZArith Lia Bool Arith Permutation.
Require Import Cert HP1 HP2 HP5 HP6 Hall Cao1 Cao2 Cao3 Cao4 Cao5 Cao6 Relax1 Relax2 Relax3 Relax4 Score1 Cov5 RunCases Cov6 Rooms Spec Valid
               Node RoomThms NodeWf NoPanic RoomSites WfPres Consts SelModel Solve.
Require EngP2.
Import ListNotations.
Open Scope nat_scope.

Section TM.
Variables (courses : list course) (parts : list participant).
Variable esize : nat -> nat -> nat.
Variable shrinkf : nat -> nat -> nat.
Variable rooms : option (list nat).
Notation nc := (nc courses). Notation np := (np parts). Notation crs := (crs courses).
Hypothesis V : Valid courses parts.
(* a bound above every shrink size the room stage can produce *)
Variable B : nat.
Hypothesis HB : forall c r, c < nc -> match rooms with Some rs => In r (prep_rooms courses rs) | None => False end -> shrinkf c r - n_instr courses c < B.

Definition cntF (f : nat -> bool) : nat := length (filter f (seq 0 nc)).
Definition shb (sh : list (nat * nat)) (c : nat) : nat :=
  fold_left (fun acc cs => if Nat.eqb (fst cs) c then Nat.min acc (snd cs) else acc) sh B.
Definition height (nd : node) : nat :=
  cntF (fun c => negb (cancelled nd c)) + cntF (fun c => negb (memb c (n_enf nd))) + sumN (map (shb (n_shrink nd)) (seq 0 nc)).

(* ---- counting ---- *)
Lemma cntF_le (f g : nat -> bool) : (forall c, c < nc -> g c = true -> f c = true) -> cntF g <= cntF f.
Proof.
  unfold cntF. intros H. generalize (fun c (Hc : In c (seq 0 nc)) => H c (proj2 (proj1 (in_seq _ _ _) Hc))). clear H.
  induction (seq 0 nc) as [|x t IH]; intros H; simpl; [lia|].
  specialize (IH (fun c Hc => H c (or_intror Hc))). pose proof (H x (or_introl eq_refl)) as Hx.
  destruct (g x); [rewrite (Hx eq_refl); simpl; lia|destruct (f x); simpl; lia].
Qed.
Lemma cntF_lt (f g : nat -> bool) c0 : (forall c, c < nc -> g c = true -> f c = true) -> c0 < nc -> f c0 = true -> g c0 = false -> cntF g < cntF f.
Proof.
  unfold cntF. intros H Hc0 Hf Hg.
  assert (G : forall l, (forall c, In c l -> c < nc) -> length (filter g l) <= length (filter f l) /\ (In c0 l -> length (filter g l) < length (filter f l))).
  { induction l as [|x t IH]; intros Hl; [simpl; split; [lia|intros []]|].
    destruct (IH (fun c Hc => Hl c (or_intror Hc))) as [I1 I2]. pose proof (H x (Hl x (or_introl eq_refl))) as Hx. cbn [filter].
    destruct (g x) eqn:Eg.
    - rewrite (Hx eq_refl). cbn [length]. split; [lia|]. intros [E|Hin]; [subst x; congruence|specialize (I2 Hin); lia].
    - destruct (f x) eqn:Ef; cbn [length].
      + split; [lia|]. intros [E|Hin]; [lia|specialize (I2 Hin); lia].
      + split; [lia|]. intros [E|Hin]; [subst x; congruence|apply I2; exact Hin]. }
  apply (G (seq 0 nc)); [intros c Hc; apply in_seq in Hc; lia|apply in_seq; lia].
Qed.

Lemma sumN_le (f g : nat -> nat) : forall l, (forall c, In c l -> g c <= f c) -> sumN (map g l) <= sumN (map f l).
Proof. induction l as [|x t IH]; intros H; simpl; [lia|]. pose proof (H x (or_introl eq_refl)). specialize (IH (fun c Hc => H c (or_intror Hc))). lia. Qed.
Lemma sumN_lt (f g : nat -> nat) c0 : forall l, (forall c, In c l -> g c <= f c) -> In c0 l -> g c0 < f c0 -> sumN (map g l) < sumN (map f l).
Proof.
  induction l as [|x t IH]; intros H Hin Hlt; [destruct Hin|]. simpl. pose proof (H x (or_introl eq_refl)).
  pose proof (sumN_le f g t (fun c Hc => H c (or_intror Hc))). destruct Hin as [->|Hin]; [lia|].
  specialize (IH (fun c Hc => H c (or_intror Hc)) Hin Hlt). lia.
Qed.

(* ---- the shrink component ---- *)
Lemma fold_min_le' c : forall l acc, fold_left (fun acc cs => if Nat.eqb (fst cs) c then Nat.min acc (snd cs) else acc) l acc <= acc.
Proof. induction l as [|x l IH]; intros acc; simpl; [lia|]. etransitivity; [apply IH|]. destruct (Nat.eqb (fst x) c); lia. Qed.
Lemma fold_min_in c v : forall l acc, In (c, v) l -> fold_left (fun acc cs => if Nat.eqb (fst cs) c then Nat.min acc (snd cs) else acc) l acc <= v.
Proof.
  induction l as [|x l IH]; intros acc Hin; [destruct Hin|]. simpl. destruct Hin as [->|Hin]; [|apply IH; exact Hin].
  simpl. rewrite Nat.eqb_refl. etransitivity; [apply fold_min_le'|lia].
Qed.
Lemma fold_min_gt c v : forall l acc, (forall cs, In cs l -> fst cs = c -> v < snd cs) -> v < acc ->
  v < fold_left (fun acc cs => if Nat.eqb (fst cs) c then Nat.min acc (snd cs) else acc) l acc.
Proof.
  induction l as [|x l IH]; intros acc H Hacc; simpl; [exact Hacc|]. apply IH; [intros cs Hcs; apply H; right; exact Hcs|].
  destruct (Nat.eqb (fst x) c) eqn:E; [|exact Hacc]. apply Nat.eqb_eq in E. pose proof (H x (or_introl eq_refl) E). lia.
Qed.
Lemma shb_app sh ext c : shb (sh ++ ext) c <= shb sh c.
Proof. unfold shb. rewrite fold_left_app. apply fold_min_le'. Qed.
Lemma shb_app_in sh ext c v : In (c, v) ext -> shb (sh ++ ext) c <= v.
Proof. intros H. unfold shb. rewrite fold_left_app. apply fold_min_in. exact H. Qed.

(* ---- what a room constraint set adds ---- *)
Definition newS (nd : node) (cs : nat * nat) : Prop := fst cs < nc /\ snd cs < shb (n_shrink nd) (fst cs).
Definition newC (nd : node) (c : nat) : Prop := c < nc /\ cancelled nd c = false.
Definition progSet (nd : node) (set : list (nat * nat) * list nat) : Prop :=
  Forall (newS nd) (fst set) /\ Forall (newC nd) (snd set) /\ (fst set <> [] \/ snd set <> []).

Section OnRooms.
Variable rs : list nat.
Hypothesis Hrooms : rooms = Some rs.
Let R := prep_rooms courses rs.

Lemma HB' c r : c < nc -> In r R -> shrinkf c r - n_instr courses c < B.
Proof. intros Hc Hr. apply HB; [exact Hc|]. rewrite Hrooms. exact Hr. Qed.

Lemma create_set_new nd : forall cl ts ar sh ca sh' ca', In ts R -> Forall (fun c => c < nc) cl -> Forall (newS nd) sh -> Forall (newC nd) ca ->
  create_set courses esize shrinkf nd cl ts ar sh ca = Val (Some (sh', ca')) -> Forall (newS nd) sh' /\ Forall (newC nd) ca'.
Proof.
  induction cl as [|c t IH]; intros ts ar sh ca sh' ca' Hts Hcl Hsh Hca H; simpl in H.
  - inversion H as [[E1 E2]]. rewrite <- E1, <- E2. auto.
  - pose proof (Forall_inv Hcl) as Hc. pose proof (Forall_inv_tail Hcl) as Ht. cbv beta in Hc.
    destruct (cancelled nd c) eqn:Ecan.
    { destruct ar; [discriminate|]. eapply IH; eauto. }
    destruct (esize c (c_min (crs c) + n_instr courses c) <=? ts) eqn:E.
    { destruct (shrinkf c ts <? n_instr courses c); [discriminate|].
      destruct (existsb _ (n_shrink nd)) eqn:Eex; [destruct ar; [discriminate|]; eapply IH; eauto|].
      eapply IH; [exact Hts|exact Ht| |exact Hca|exact H]. apply Forall_app. split; [exact Hsh|]. constructor; [|constructor].
      split; simpl; [exact Hc|]. apply fold_min_gt; [|apply HB'; [exact Hc|exact Hts]].
      intros cs Hcs Hf. destruct (Nat.lt_ge_cases (shrinkf c ts - n_instr courses c) (snd cs)) as [Hl|Hl]; [exact Hl|]. exfalso.
      assert (existsb (fun cs0 : nat * nat => Nat.eqb (fst cs0) c && (snd cs0 <=? shrinkf c ts - n_instr courses c)) (n_shrink nd) = true).
      { apply existsb_exists. exists cs. split; [exact Hcs|]. rewrite Hf, Nat.eqb_refl. simpl. apply Nat.leb_le. exact Hl. }
      congruence. }
    destruct (memb c (n_enf nd) || c_fixed (crs c)) eqn:E2.
    { destruct ar; [discriminate|]. eapply IH; eauto. }
    eapply IH; [exact Hts|exact Ht|exact Hsh| |exact H]. apply Forall_app. split; [exact Hca|]. constructor; [split; assumption|constructor].
Qed.

Lemma build_sets_new nd ts always : In ts R -> Forall (newS nd) (fst always) -> Forall (newC nd) (snd always) ->
  forall sels acc sets, Forall (Forall (fun c => c < nc)) sels -> Forall (progSet nd) acc ->
  build_sets courses esize shrinkf nd sels ts always acc = Val sets -> Forall (progSet nd) sets.
Proof.
  intros Hts Ha1 Ha2. induction sels as [|sel t IH]; intros acc sets Hs Hacc H; simpl in H.
  - inversion H as [E1]. rewrite <- E1. exact Hacc.
  - pose proof (Forall_inv Hs) as Hsel. pose proof (Forall_inv_tail Hs) as Ht.
    destruct (create_set courses esize shrinkf nd sel ts true [] []) as [[[sh ca]|]| |] eqn:Ec; try discriminate.
    + destruct (create_set_new nd sel ts true [] [] sh ca Hts Hsel (Forall_nil _) (Forall_nil _) Ec) as [H1 H2].
      assert (F1 : Forall (newS nd) (sh ++ fst always)) by (apply Forall_app; split; assumption).
      assert (F2 : Forall (newC nd) (ca ++ snd always)) by (apply Forall_app; split; assumption).
      destruct (sh ++ fst always) as [|x1 t1] eqn:E1; [destruct (ca ++ snd always) as [|y1 u1] eqn:E2; [discriminate|]|].
      * eapply IH; [exact Ht| |exact H]. apply Forall_app. split; [exact Hacc|]. constructor; [|constructor].
        split; [exact F1|]. split; [exact F2|]. right. simpl. discriminate.
      * eapply IH; [exact Ht| |exact H]. apply Forall_app. split; [exact Hacc|]. constructor; [|constructor].
        split; [exact F1|]. split; [exact F2|]. left. simpl. discriminate.
    + eapply IH; eauto.
Qed.

Lemma room_sets_new nd a sets : room_sets courses esize shrinkf R nd a = Val (Some sets) -> Forall (progSet nd) sets.
Proof.
  assert (Hlen : length R = nc) by apply prep_rooms_length.
  unfold room_sets. set (cs := sort_by (fun p : nat * nat => snd p) (course_sizes courses esize a)).
  assert (Hcs : forall p, In p cs -> fst p < nc).
  { intros p Hp. apply sort_by_in in Hp. unfold course_sizes in Hp. apply in_map_iff in Hp. destruct Hp as (c & <- & Hc). apply in_seq in Hc. simpl. lia. }
  destruct (find _ (seq 0 _)) as [j|] eqn:Ef; [|discriminate].
  apply find_some in Ef. destruct Ef as [Hj _]. apply in_seq in Hj.
  assert (Hn : length cs = nc) by (unfold cs; rewrite sort_by_length; unfold course_sizes; rewrite map_length, seq_length; reflexivity).
  rewrite Hn, Hlen, Nat.min_id in Hj.
  assert (Hpos : 0 < nc) by lia.
  destruct (find_index _ cs) as [smallest|]; [|discriminate]. destruct (_ <? smallest); [discriminate|].
  destruct (if _ <? MIN_K_nat then _ else _) as [lower k] eqn:Elk.
  match goal with |- context [create_set ?cc ?ee ?sf ?nn ?cl ?ts false [] []] =>
    assert (Hts : In ts R) by (apply nth_In; rewrite Hn, Hlen; lia);
    assert (Hcl : Forall (fun c0 => c0 < nc) cl);
    [apply Forall_forall; intros c0 Hc0; apply in_map_iff in Hc0; destruct Hc0 as (p0 & <- & Hp0); apply filter_In in Hp0; apply Hcs; apply Hp0|];
    destruct (create_set cc ee sf nn cl ts false [] []) as [[always|]| |] eqn:Eal end; try discriminate.
  match goal with |- context [build_sets ?cc ?ee ?sf ?nn ?sels ?ts ?al []] => destruct (build_sets cc ee sf nn sels ts al []) as [sets'| |] eqn:Eb end; try discriminate.
  intros H. inversion H; subst sets'. clear H. destruct always as [sha caa].
  destruct (create_set_new nd _ _ false [] [] sha caa Hts Hcl (Forall_nil _) (Forall_nil _) Eal) as [Ha1 Ha2].
  eapply (build_sets_new nd _ (sha, caa) Hts Ha1 Ha2); [|constructor|exact Eb].
  apply Forall_forall. intros sel Hsel. apply in_map_iff in Hsel. destruct Hsel as (idx & <- & _).
  apply Forall_forall. intros c0 Hc0. apply in_map_iff in Hc0. destruct Hc0 as (ix & <- & _).
  match goal with |- fst (nth ix ?range (0, 0)) < nc => destruct (Nat.lt_ge_cases ix (length range)) as [Hl|Hl];
    [apply Hcs; assert (Hin : In (nth ix range (0, 0)) range) by (apply nth_In; exact Hl); apply firstn_In in Hin; eapply skipn_In; eauto
    |rewrite nth_overflow by exact Hl; simpl; exact Hpos] end.
Qed.
End OnRooms.

(* ---- every child is strictly lower ---- *)
Lemma cnt_cancel_le nd ext : cntF (fun c => negb (memb c (n_cancel nd ++ ext))) <= cntF (fun c => negb (memb c (n_cancel nd))).
Proof. apply cntF_le. intros c _ H. rewrite memb_app in H. destruct (memb c (n_cancel nd)); [discriminate|reflexivity]. Qed.
Lemma cnt_cancel_lt nd c t : c < nc -> memb c (n_cancel nd) = false ->
  cntF (fun c0 => negb (memb c0 (n_cancel nd ++ c :: t))) < cntF (fun c0 => negb (memb c0 (n_cancel nd))).
Proof.
  intros Hc Hcan. apply (cntF_lt _ _ c); [|exact Hc|rewrite Hcan; reflexivity|].
  - intros c' _ H. rewrite memb_app in H. destruct (memb c' (n_cancel nd)); [discriminate|reflexivity].
  - rewrite memb_app. apply negb_false_iff. apply orb_true_iff. right. apply memb_true. left. reflexivity.
Qed.

Lemma height_child_set nd set : progSet nd set -> height (child_of nd set) < height nd.
Proof.
  destruct set as [sh ca]. intros (F1 & F2 & Hne). cbn [fst snd] in *. unfold height, child_of, cancelled. cbn [n_cancel n_enf n_shrink fst snd].
  pose proof (cnt_cancel_le nd ca) as Hc_le.
  assert (Hs_le : sumN (map (shb (n_shrink nd ++ sh)) (seq 0 nc)) <= sumN (map (shb (n_shrink nd)) (seq 0 nc))).
  { apply sumN_le. intros c _. apply shb_app. }
  destruct Hne as [Hne|Hne].
  - destruct sh as [|[c v] t]; [congruence|]. pose proof (Forall_inv F1) as [Hc Hv]. simpl in Hc, Hv.
    assert (sumN (map (shb (n_shrink nd ++ (c, v) :: t)) (seq 0 nc)) < sumN (map (shb (n_shrink nd)) (seq 0 nc))).
    { apply (sumN_lt _ _ c); [intros c' _; apply shb_app|apply in_seq; lia|].
      eapply Nat.le_lt_trans; [apply (shb_app_in _ _ c v); left; reflexivity|exact Hv]. }
    lia.
  - destruct ca as [|c t]; [congruence|]. pose proof (Forall_inv F2) as [Hc Hcan]. unfold cancelled in Hcan.
    pose proof (cnt_cancel_lt nd c t Hc Hcan). lia.
Qed.

Lemma height_cancel nd c : c < nc -> cancelled nd c = false ->
  height {| n_cancel := n_cancel nd ++ [c]; n_enf := n_enf nd; n_shrink := n_shrink nd |} < height nd.
Proof.
  intros Hc Hcan. unfold height, cancelled. cbn [n_cancel n_enf n_shrink]. unfold cancelled in Hcan. pose proof (cnt_cancel_lt nd c [] Hc Hcan). lia.
Qed.
Lemma height_enforce nd c : c < nc -> memb c (n_enf nd) = false ->
  height {| n_cancel := n_cancel nd; n_enf := n_enf nd ++ [c]; n_shrink := n_shrink nd |} < height nd.
Proof.
  intros Hc He. unfold height. cbn [n_cancel n_enf n_shrink].
  assert (cntF (fun c0 => negb (memb c0 (n_enf nd ++ [c]))) < cntF (fun c0 => negb (memb c0 (n_enf nd)))).
  { apply (cntF_lt _ _ c); [|exact Hc|rewrite He; reflexivity|].
    - intros c' _ H. rewrite memb_app in H. destruct (memb c' (n_enf nd)); [discriminate|reflexivity].
    - rewrite memb_app. apply negb_false_iff. apply orb_true_iff. right. apply memb_true. left. reflexivity. }
  unfold cancelled. cbn [n_cancel]. lia.
Qed.

Theorem children_lower nd cs s : run_full courses parts esize shrinkf rooms nd = Val (Infeasible cs s) ->
  forall c, In c cs -> height c < height nd.
Proof.
  intros H c Hc. destruct (run_node_cases courses parts _ _ nd _ H) as [Hn|NR]; [discriminate|].
  destruct NR as [sx sy mm ms _ _ _ Hsxp _ Hguard Hpm _ _ Hres]. cbn zeta in Hres.
  set (a' := add_instr courses nd (amatch courses parts sy mm)) in *.
  destruct (the_gate courses esize shrinkf rooms nd a') as [[bs|]| |] eqn:Eg; try contradiction.
  - (* room constraint sets *)
    inversion Hres; subst bs. clear Hres. unfold the_gate, room_gate in Eg. pose proof room_sets_new as RSN. destruct rooms as [rs|] eqn:Erooms; [|discriminate].
    destruct (room_sets courses esize shrinkf (prep_rooms courses rs) nd a') as [[sets|]| |] eqn:Er; try discriminate.
    inversion Eg; subst cs. apply in_map_iff in Hc. destruct Hc as (set & <- & Hset).
    pose proof (RSN rs eq_refl nd a' sets Er) as Hok. rewrite Forall_forall in Hok. apply height_child_set. apply Hok. exact Hset.
  - destruct (_ || _) eqn:Eor; [|discriminate]. inversion Hres; subst cs. clear Hres.
    unfold the_pick, pick_real in Hc. destruct (existsb (wrong_course parts sx a') (seq 0 np)) eqn:Ew.
    + (* wrong-course heuristic *)
      unfold pick_wrong in Hc. destruct (find _ (seq 0 np)) as [p|]; [|destruct Hc].
      match type of Hc with In _ (match ?L with _ => _ end) => destruct L as [|rc t] eqn:El end; [destruct Hc|].
      destruct (c_fixed (crs rc)) eqn:Efix; [destruct Hc|]. destruct Hc as [<-|[]].
      assert (Hin : In rc (rc :: t)) by (left; reflexivity). rewrite <- El in Hin. apply sort_by_in in Hin.
      apply filter_In in Hin. destruct Hin as [Hrc Hf]. apply in_seq in Hrc. apply andb_prop in Hf. destruct Hf as [Hf _]. apply andb_prop in Hf. destruct Hf as [Hcan _].
      apply negb_true_iff in Hcan. apply height_cancel; [lia|exact Hcan].
    + (* minimum-size branching *)
      destruct (branch_course courses parts nd sx a') as [bc|] eqn:Eb; [|destruct Hc].
      destruct (proj1 (branch_course_spec courses parts nd sx a') bc Eb) as [Hbc Hdisc].
      assert (Hbcn : cancelled nd bc = false).
      { unfold discrepancy in Hdisc. destruct (cancelled nd bc); [lia|reflexivity]. }
      unfold children_min in Hc. destruct Hc as [<-|Hc].
      * (* enforce bc: it is not yet enforced, because enforced courses reach their minimum *)
        apply height_enforce; [exact Hbc|]. destruct (memb bc (n_enf nd)) eqn:Em; [|reflexivity]. exfalso. apply memb_true in Em.
        pose proof (enforced_reaches_min courses parts (valid_one _ _ V) (v_minmax _ _ V) nd sx sy mm Hsxp Hguard Hpm bc Em Hbc) as Hmin.
        fold a' in Hmin. unfold discrepancy in Hdisc. rewrite Hbcn in Hdisc. lia.
      * destruct (c_fixed (crs bc)) eqn:Efix; [destruct Hc|]. destruct Hc as [<-|[]]. apply height_cancel; assumption.
Qed.

(* ---- hence every run of the search is finite ---- *)
Lemma height_child_eng : forall n cs s c, f_full courses parts esize shrinkf rooms n = EngP2.Infeas node assignment cs s -> In c cs -> height c < height n.
Proof. intros n cs s c Hf Hc. apply (children_lower n cs s (to_eng_inf _ _ _ Hf) c Hc). Qed.

Theorem search_measure smin smax k b st st' :
  SReach courses parts esize shrinkf rooms smin smax k st ->
  EngP2.Step node assignment (f_full courses parts esize shrinkf rooms) b st st' ->
  let M := EngP2.M node assignment (f_full courses parts esize shrinkf rooms) height k in
  if b then M st' + 1 <= M st else M st' = M st + 3.
Proof. intros R S. apply (EngP2.measure_step node assignment (f_full courses parts esize shrinkf rooms) root smin smax height height_child_eng k b st st' R S). Qed.
End TM.

(* a bound B always exists: one more than the largest shrink size over the finitely many (course, room size) pairs *)
Definition max_list (l : list nat) : nat := fold_right Nat.max 0 l.
Lemma max_list_ge l x : In x l -> x <= max_list l.
Proof. induction l as [|y t IH]; intros H; [destruct H|]. simpl. destruct H as [->|H]; [lia|specialize (IH H); lia]. Qed.
Definition shrink_bound (courses : list course) (shrinkf : nat -> nat -> nat) (rooms : option (list nat)) : nat :=
  match rooms with
  | None => 0
  | Some rs => S (max_list (map (fun cr : nat * nat => shrinkf (fst cr) (snd cr)) (list_prod (seq 0 (nc courses)) (prep_rooms courses rs))))
  end.
Lemma shrink_bound_ok courses shrinkf rooms : forall c r, c < nc courses ->
  match rooms with Some rs => In r (prep_rooms courses rs) | None => False end -> shrinkf c r - n_instr courses c < shrink_bound courses shrinkf rooms.
Proof.
  intros c r Hc Hr. unfold shrink_bound. destruct rooms as [rs|]; [|destruct Hr].
  assert (shrinkf c r <= max_list (map (fun cr : nat * nat => shrinkf (fst cr) (snd cr)) (list_prod (seq 0 (nc courses)) (prep_rooms courses rs)))).
  { apply max_list_ge. apply in_map_iff. exists (c, r). split; [reflexivity|]. apply in_prod; [apply in_seq; lia|exact Hr]. }
  lia.
Qed.

(* for every valid instance, room list and pair of size functions: a measure on search states that drops with every step of every
   run except spurious wake-ups (which add 3) -- no run is infinite unless the OS wakes sleeping workers infinitely often *)
Theorem search_terminates courses parts esize shrinkf rooms : Valid courses parts ->
  exists Mf : nat -> EngP2.state node assignment -> nat, forall smin smax k b st st',
    SReach courses parts esize shrinkf rooms smin smax k st ->
    EngP2.Step node assignment (f_full courses parts esize shrinkf rooms) b st st' ->
    if b then Mf k st' + 1 <= Mf k st else Mf k st' = Mf k st + 3.
Proof.
  intros V. exists (fun k => EngP2.M node assignment (f_full courses parts esize shrinkf rooms)
                              (height courses (shrink_bound courses shrinkf rooms)) k).
  intros smin smax k b st st' R S.
  apply (search_measure courses parts esize shrinkf rooms V (shrink_bound courses shrinkf rooms) (shrink_bound_ok courses shrinkf rooms) smin smax k b st st' R S).
Qed.
