(* The node function never takes the Overflow exit of the matching routine: under the node's own guards a perfect allowed matching
   exists (as in Cao6), the weights are in [0, WEIGHT_OFFSET] and the labels stay within (n + 1) * WEIGHT_OFFSET (HP7). *)
From Coq Require Import List ZArith Lia Bool Arith Permutation.
Require Import HP1 HP2 HP5 HP6 HP7 Hall Cao1 Cao2 Cao3 Cao4 Cao5 Cao6.
Import ListNotations.
Open Scope nat_scope.

Section NO.
Variables (courses : list course) (parts : list participant) (rgate : node -> assignment -> out (option (list node))) (pick : node -> list bool -> assignment -> list node).
Notation np := (np parts). Notation nc := (nc courses). Notation m_ := (m_ courses). Notation n_ := (n_ courses parts).
Notation crs := (crs courses). Notation base := (base courses). Notation course_map := (course_map courses).

(* the room stage has no Overflow exit (RoomSites.room_gate_no_overflow for the real one) *)
Hypothesis Hrg : forall nd a, rgate nd a <> HOverflow.
(* all edge weights lie in [0, WEIGHT_OFFSET] (valid penalties) and the matrix is small enough for i32 labels *)
Hypothesis HWt : forall x y, (0 <= HP1.W (adjacency courses parts) x y <= WEIGHT_OFFSET)%Z.
Hypothesis Hsz : ((Z.of_nat n_ + 2) * WEIGHT_OFFSET <= maxI)%Z.

Theorem run_node_no_overflow nd : run courses parts rgate pick nd <> HOverflow.
Proof.
  unfold run, run_node.
  set (sx1 := skip_x1 courses parts nd). set (nsx := countB sx1). set (sy := skip_y courses nd). set (nsy := countB sy).
  destruct (np - nsx <? sumN _) eqn:C1; [discriminate|]. apply Nat.ltb_ge in C1.
  destruct (sumN _ <? _); [discriminate|]. destruct (existsb _ (seq 0 np)); [discriminate|].
  destruct ((n_ <? m_) || (n_ - m_ + nsy <? nsx)) eqn:G1; [discriminate|].
  apply orb_false_iff in G1. destruct G1 as [G1a G1b]. apply Nat.ltb_ge in G1a, G1b.
  set (extra := n_ - m_ + nsy - nsx). destruct (n_ <? np + extra) eqn:G2; [discriminate|]. apply Nat.ltb_ge in G2.
  set (sx := map (fun x => getB sx1 x || ((np <=? x) && (x <? np + extra))) (seq 0 n_)).
  set (my := mandatory_y courses nd).
  destruct (existsb (fun y => getB my y && getB sy y) (seq 0 m_)) eqn:G3; [discriminate|].
  assert (Hlsx1 : length sx1 = n_) by (unfold sx1, skip_x1; rewrite map_length, seq_length; reflexivity).
  assert (Hlsx : length sx = n_) by (unfold sx; rewrite map_length, seq_length; reflexivity).
  assert (Hlsy : length sy = m_) by (unfold sy, skip_y; rewrite map_length, seq_length; reflexivity).
  assert (Hnpn : np <= n_) by apply np_le_n.
  assert (Hsx1_np : forall x, getB sx1 x = true -> x < np).
  { intros x H. destruct (lt_dec x n_) as [Hx|Hx].
    - unfold sx1, skip_x1 in H. rewrite getB_map_seq' in H by exact Hx. apply andb_prop in H. destruct H as [H _]. apply Nat.ltb_lt in H. exact H.
    - unfold getB in H. rewrite nth_overflow in H by lia. discriminate. }
  assert (Hcnt : countB sx = nsx + extra).
  { unfold sx. rewrite countB_map. rewrite filter_or_disj.
    - fold (cntf (getB sx1) n_). fold (cntf (fun x => (np <=? x) && (x <? np + extra)) n_). rewrite cntf_interval by exact G2.
      unfold cntf. rewrite (count_filter sx1 n_ Hlsx1), cntT_countB. reflexivity.
    - intros x _ H. apply Hsx1_np in H. apply andb_false_iff. left. apply Nat.leb_gt. exact H. }
  assert (Hsq : length (rowsL sx n_) = length (colsL sy m_)).
  { rewrite (rows_len sx n_ Hlsx), (cols_len sy m_ Hlsy), Hcnt. pose proof (countB_le sy). fold nsy in H. rewrite Hlsy in H.
    unfold extra. lia. }
  (* real active rows: exactly np - nsx *)
  assert (HR : length (filter (fun x => negb (getB (dummy_x courses parts) x)) (rowsL sx n_)) = np - nsx).
  { unfold rowsL. rewrite filter_filter. replace n_ with (np + (n_ - np)) at 1 by lia. rewrite seq_app, filter_app, app_length.
    rewrite (filter_none _ (seq (0 + np) (n_ - np))).
    2:{ intros x Hx. apply in_seq in Hx. unfold dummy_x. rewrite getB_map_seq' by lia.
        replace (np <=? x) with true by (symmetry; apply Nat.leb_le; lia). rewrite andb_false_r. reflexivity. }
    cbn [length]. rewrite Nat.add_0_r.
    rewrite (filter_ext_in _ (fun x => negb (getB sx1 x))).
    2:{ intros x Hx. apply in_seq in Hx. unfold dummy_x, sx. rewrite !getB_map_seq' by lia.
        replace (np <=? x) with false by (symmetry; apply Nat.leb_gt; lia). cbn. rewrite orb_false_r, andb_true_r. reflexivity. }
    pose proof (filter_compl (getB sx1) (seq 0 np)) as Hc. rewrite seq_length in Hc.
    assert (E : length (filter (getB sx1) (seq 0 np)) = nsx).
    { unfold nsx. rewrite <- cntT_countB, <- (count_filter sx1 n_ Hlsx1).
      replace n_ with (np + (n_ - np)) at 1 by lia. rewrite seq_app, filter_app, app_length.
      rewrite (filter_none _ (seq (0 + np) (n_ - np))); [cbn; lia|].
      intros x Hx. apply in_seq in Hx. destruct (getB sx1 x) eqn:E; [apply Hsx1_np in E; lia|reflexivity]. }
    lia. }
  (* mandatory active columns: at most the enforced minimum sum *)
  assert (HM : length (filter (getB my) (colsL sy m_)) <= sumN (map (fun c => c_min (crs c)) (n_enf nd))).
  { assert (Hincl : incl (filter (getB my) (colsL sy m_)) (flat_map (fun c => seq (base c) (c_min (crs c))) (n_enf nd))).
    { intros y Hy. apply filter_In in Hy. destruct Hy as [Hy Hm]. apply in_colsL in Hy. destruct Hy as [Hy _].
      unfold my, mandatory_y in Hm. rewrite getB_map_seq' in Hm by exact Hy. apply andb_prop in Hm. destruct Hm as [Hm1 Hm2].
      apply memb_true in Hm1. apply Nat.ltb_lt in Hm2. destruct (cm_spec courses y Hy) as (_ & Hb & _).
      apply in_flat_map. exists (course_map y). split; [exact Hm1|]. apply in_seq. lia. }
    pose proof (NoDup_incl_length (NoDup_filter _ (NoDup_filter_seq _ 0 m_)) Hincl) as L.
    rewrite flat_map_length' in L. erewrite map_ext in L; [exact L|]. intros c. apply seq_length. }
  destruct (hall_from_counts (dummy_x courses parts) my sx sy n_ m_ Hsq ltac:(rewrite HR; lia)) as (pm & Hpm).
  assert (Hsz' : ((Z.of_nat (length (rowsL sx n_)) + 2) * WEIGHT_OFFSET <= maxI)%Z).
  { assert (length (rowsL sx n_) <= n_) by (rewrite (rows_len sx n_ Hlsx); lia).
    assert (0 <= WEIGHT_OFFSET)%Z by (pose proof (HWt 0 0); lia). nia. }
  pose proof (hungarian_no_overflow (adjacency courses parts) (dummy_x courses parts) my sx sy n_ m_ WEIGHT_OFFSET HWt pm Hpm Hsz') as HC.
  destruct (hungarian (adjacency courses parts) (dummy_x courses parts) my sx sy n_ m_) as [[[[mm ms] lx] ly]| |]; [|discriminate|congruence].
  destruct (rgate nd _) as [[bs|]|site|] eqn:Erg; try discriminate.
  - destruct (negb _ && existsb _ (seq 0 nc)); [discriminate|]. destruct (existsb _ _ || existsb _ _); discriminate.
  - exfalso. exact (Hrg _ _ Erg).
Qed.
End NO.

(* ---------------------------------------------------------------- instantiation for valid instances and the real room stage *)
Require Import Relax3 Quality Valid Spec Rooms Node RoomSites.

Definition SizeOK (courses : list course) (parts : list participant) : Prop :=
  ((Z.of_nat (n_ courses parts) + 2) * WEIGHT_OFFSET <= maxI)%Z.
Definition size_okb (courses : list course) (parts : list participant) : bool :=
  ((Z.of_nat (n_ courses parts) + 2) * WEIGHT_OFFSET <=? maxI)%Z.
Lemma size_okb_spec courses parts : size_okb courses parts = true -> SizeOK courses parts.
Proof. apply Z.leb_le. Qed.

(* the size clause of io::check_data_consistency, on the problem itself (whatever reader produced it): participants plus the sum of the
   maximal course sizes is at most i32::MAX / WEIGHT_OFFSET - 2; it implies the size bound of the no-overflow theorem *)
Definition rows_okb (courses : list course) (parts : list participant) : bool :=
  (Z.of_nat (np parts) + Z.of_nat (sumN (map c_max courses)) <=? 2147483647 / WEIGHT_OFFSET - 2)%Z.
Lemma rows_okb_size_ok courses parts : rows_okb courses parts = true -> SizeOK courses parts.
Proof.
  unfold rows_okb, SizeOK, n_, m_. intros H. apply Z.leb_le in H.
  pose proof (countB_le (map (skippable courses parts) (seq 0 (np parts)))) as Hsk. rewrite map_length, seq_length in Hsk.
  assert (HW : (0 < WEIGHT_OFFSET)%Z) by (unfold WEIGHT_OFFSET; lia).
  pose proof (Z.mul_div_le 2147483647 WEIGHT_OFFSET HW) as Hd. unfold maxI.
  set (n := Nat.max (sumN (map c_max courses) + countB (map (skippable courses parts) (seq 0 (np parts)))) (np parts)) in *.
  assert (Hn : (Z.of_nat n <= Z.of_nat (np parts) + Z.of_nat (sumN (map c_max courses)))%Z) by (unfold n; lia).
  nia.
Qed.

Section NO2.
Variables (courses : list course) (parts : list participant).
Notation np := (np parts). Notation m_ := (m_ courses). Notation n_ := (n_ courses parts).
Hypothesis V : Valid courses parts.

Lemma maxpen_nonneg : (0 <= maxpen parts)%Z.
Proof. unfold maxpen. apply fold_max_ge. right. lia. Qed.
Lemma weight_offset_nonneg : (0 <= WEIGHT_OFFSET)%Z.
Proof. pose proof (v_pen _ _ V). pose proof maxpen_nonneg. nia. Qed.

Lemma adj_bounds x y : (0 <= HP1.W (adjacency courses parts) x y <= WEIGHT_OFFSET)%Z.
Proof.
  pose proof weight_offset_nonneg as H0.
  destruct (Nat.lt_ge_cases x np) as [Hx|Hx]; [|rewrite (W_adj_dummy courses parts x y Hx); lia].
  assert (Hxn : x < n_) by (pose proof (np_le_n courses parts); lia).
  destruct (lt_dec y m_) as [Hy|Hy].
  - rewrite (W_adj courses parts x y Hxn Hy). replace (x <? np) with true by (symmetry; apply Nat.ltb_lt; exact Hx).
    destruct (cw_cases parts x (course_map courses y)) as [->|(ch & Hch & ->)]; [lia|].
    pose proof (valid_pen _ _ V x ch Hch). pose proof (v_pen _ _ V). nia.
  - unfold HP1.W, row, adjacency, getZ. rewrite (nth_map_seq _ n_ x [] Hxn). rewrite nth_overflow; [lia|]. rewrite map_length, seq_length. lia.
Qed.

Theorem run_full_no_overflow esize shrinkf rooms nd : SizeOK courses parts ->
  run_full courses parts esize shrinkf rooms nd <> HOverflow.
Proof.
  intros Hs. unfold run_full. apply run_node_no_overflow; [|exact adj_bounds|exact Hs].
  intros nd' a. apply room_gate_no_overflow.
Qed.
End NO2.

(* ---------------------------------------------------------------- scores fit the Score type (u32) *)
Require Import Score1 Cert.
Section NO3.
Variables (courses : list course) (parts : list participant).
Hypothesis V : Valid courses parts.

Lemma contribution_le a p : (contribution courses parts a p <= WEIGHT_OFFSET)%Z.
Proof.
  pose proof (weight_offset_nonneg courses parts V) as H0. unfold contribution.
  destruct (instr_only parts p); [lia|]. destruct (getO a p) as [c|]; [|lia]. destruct (instructs courses p c); [lia|].
  destruct (cw_cases parts p c) as [->|(ch & Hch & ->)]; [lia|]. pose proof (valid_pen _ _ V p ch Hch). lia.
Qed.

Lemma score_le_np a : (score_of courses parts a <= Z.of_nat (np parts) * WEIGHT_OFFSET)%Z.
Proof.
  rewrite score_of_contrib. rewrite <- (seq_length (np parts) 0) at 2. generalize (seq 0 (np parts)) as L. intros L.
  induction L as [|p t IH]; [simpl; lia|]. cbn [map length]. change (sumZ (?x :: ?l)) with (x + sumZ l)%Z.
  pose proof (contribution_le a p). rewrite Nat2Z.inj_succ. lia.
Qed.

Lemma contribution_nonneg a p : (0 <= contribution courses parts a p)%Z.
Proof.
  pose proof (weight_offset_nonneg courses parts V) as H0. unfold contribution.
  destruct (instr_only parts p); [lia|]. destruct (getO a p) as [c|]; [|lia]. destruct (instructs courses p c); [lia|].
  destruct (cw_cases parts p c) as [->|(ch & Hch & ->)]; [lia|]. pose proof (valid_pen _ _ V p ch Hch).
  pose proof (v_pen _ _ V). pose proof (maxpen_nonneg parts). destruct (v_real _ _ V) as (q & Hq & _). nia.
Qed.
Lemma score_nonneg a : (0 <= score_of courses parts a)%Z.
Proof.
  rewrite score_of_contrib. generalize (seq 0 (np parts)) as L. intros L.
  induction L as [|p t IH]; [simpl; lia|]. cbn [map]. change (sumZ (?x :: ?l)) with (x + sumZ l)%Z. pose proof (contribution_nonneg a p). lia.
Qed.

(* under the size bound every score fits u32 (Score): the `smax` hypothesis of the search theorems holds for smax = u32::MAX *)
Theorem score_fits_u32 a : SizeOK courses parts -> (score_of courses parts a <= 4294967295)%Z.
Proof.
  intros Hs. pose proof (score_le_np a). unfold SizeOK, maxI in Hs. pose proof (np_le_n courses parts). pose proof (weight_offset_nonneg courses parts V). nia.
Qed.
End NO3.
