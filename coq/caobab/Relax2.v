(* Spike for C02 relax_ge, caobab part 1: block arithmetic (base / course_map) and grouping lemmas *)
From Coq Require Import List ZArith Lia Bool Arith Permutation.
Require Import HP1 Cao1 Cao4.
Import ListNotations.
Open Scope nat_scope.

Definition dflt : course := {| c_min := 0; c_max := 0; c_instr := []; c_fixed := false |}.

Lemma sumN_app l1 l2 : sumN (l1 ++ l2) = sumN l1 + sumN l2.
Proof. unfold sumN. induction l1; simpl; lia. Qed.

Lemma sumN_firstn_cons k t c : sumN (map c_max (firstn (S c) (k :: t))) = c_max k + sumN (map c_max (firstn c t)).
Proof. reflexivity. Qed.
Lemma base_S courses c : c < nc courses -> base courses (S c) = base courses c + c_max (crs courses c).
Proof.
  unfold base, crs, nc. revert c. induction courses as [|k t IH]; intros c Hc; simpl in Hc; [lia|].
  destruct c as [|c].
  - rewrite sumN_firstn_cons. cbn. unfold sumN. cbn. lia.
  - rewrite (sumN_firstn_cons k t (S c)), (sumN_firstn_cons k t c). rewrite (IH c) by lia. cbn [nth]. lia.
Qed.
Lemma base_le_m courses c : c < nc courses -> base courses c + c_max (crs courses c) <= m_ courses.
Proof.
  unfold base, crs, nc, m_. revert c. induction courses as [|k t IH]; intros c Hc; simpl in Hc; [lia|].
  destruct c as [|c].
  - cbn. unfold sumN. cbn. lia.
  - rewrite sumN_firstn_cons. cbn [nth map]. specialize (IH c ltac:(lia)). unfold sumN in *. cbn [fold_right]. lia.
Qed.

(* inverse of cm_spec *)
Lemma course_of_aux_inv : forall cs c0 c j, c < length cs -> j < c_max (nth c cs dflt) ->
  course_of_aux cs c0 (sumN (map c_max (firstn c cs)) + j) = c0 + c.
Proof.
  induction cs as [|k t IH]; intros c0 c j Hc Hj; simpl in Hc; [lia|].
  destruct c as [|c].
  - cbn [firstn map nth] in *. unfold sumN. cbn [fold_right course_of_aux]. replace (0 + j) with j by lia.
    replace (j <? c_max k) with true by (symmetry; apply Nat.ltb_lt; exact Hj). lia.
  - rewrite sumN_firstn_cons. cbn [nth] in Hj. cbn [course_of_aux].
    set (b := sumN (map c_max (firstn c t))).
    replace (c_max k + b + j <? c_max k) with false by (symmetry; apply Nat.ltb_ge; lia).
    replace (c_max k + b + j - c_max k) with (b + j) by lia.
    unfold b. rewrite (IH (S c0) c j) by (try lia; exact Hj). lia.
Qed.
Lemma course_map_block courses c j : c < nc courses -> j < c_max (crs courses c) ->
  base courses c + j < m_ courses /\ course_map courses (base courses c + j) = c.
Proof.
  intros Hc Hj. split; [pose proof (base_le_m courses c Hc); lia|].
  unfold course_map, base. rewrite (course_of_aux_inv courses 0 c j Hc Hj). reflexivity.
Qed.

Lemma NoDup_app_intro {A} : forall (l1 l2 : list A), NoDup l1 -> NoDup l2 -> (forall y, In y l1 -> In y l2 -> False) -> NoDup (l1 ++ l2).
Proof.
  induction l1 as [|a l1 IH]; intros l2 H1 H2 Hd; simpl; [exact H2|]. inversion H1; subst. constructor.
  - intros Hin. apply in_app_or in Hin. destruct Hin as [Hin|Hin]; [contradiction|]. apply (Hd a); [left; reflexivity|exact Hin].
  - apply IH; auto. intros y Hy1 Hy2. apply (Hd y); [right; exact Hy1|exact Hy2].
Qed.
(* NoDup of a flat_map of pairwise disjoint NoDup blocks *)
Lemma NoDup_flat_map_disj {A B} (f : A -> list B) : forall l, NoDup l -> (forall a, In a l -> NoDup (f a)) ->
  (forall a a' y, In a l -> In a' l -> a <> a' -> In y (f a) -> ~ In y (f a')) -> NoDup (flat_map f l).
Proof.
  induction l as [|a l IH]; intros Hnd Hf Hd; simpl; [constructor|]. inversion Hnd as [|? ? Hnot Hnd']; subst.
  apply NoDup_app_intro.
  - apply Hf. left. reflexivity.
  - apply IH; [exact Hnd'|intros; apply Hf; right; assumption|intros; eapply Hd; eauto; right; assumption].
  - intros y Hy Hy'. apply in_flat_map in Hy'. destruct Hy' as (a' & Ha' & Hy').
    apply (Hd a a' y); auto; [left; reflexivity|right; exact Ha'|intros ->; contradiction].
Qed.
