(* caobab spike, part 2: lemmas about the assignment construction *)
From Coq Require Import List ZArith Lia Bool Arith Permutation.
Require Import HP1 Cao1.
Import ListNotations.
Open Scope nat_scope.

Lemma getO_upd_eq (a : assignment) i v : i < length a -> getO (upd a i v) i = v.
Proof. intros; unfold getO; apply nth_upd_eq; assumption. Qed.
Lemma getO_upd_neq (a : assignment) i j v : i <> j -> getO (upd a i v) j = getO a j.
Proof. intros; unfold getO; apply nth_upd_neq; assumption. Qed.
Lemma getO_repeat_none n i : getO (repeat None n) i = None.
Proof. unfold getO. rewrite nth_repeat_lt. destruct (i <? n); reflexivity. Qed.

(* fold of point updates: value at p is that of the last update hitting p, else the original *)
Lemma fold_upd_length {A B} (key : B -> nat) (val : B -> A) : forall l (a : list A),
  length (fold_left (fun a b => upd a (key b) (val b)) l a) = length a.
Proof. induction l as [|b l IH]; intros a; simpl; [reflexivity|]. rewrite IH, upd_length. reflexivity. Qed.

Lemma fold_upd_notin {B} (key : B -> nat) (val : B -> option nat) : forall l (a : assignment) p,
  (forall b, In b l -> key b <> p) -> getO (fold_left (fun a b => upd a (key b) (val b)) l a) p = getO a p.
Proof.
  induction l as [|b l IH]; intros a p H; simpl; [reflexivity|].
  rewrite IH by (intros; apply H; right; assumption). apply getO_upd_neq. apply H. left. reflexivity.
Qed.

Lemma fold_upd_in {B} (key : B -> nat) (val : B -> option nat) : forall l (a : assignment) p v,
  p < length a -> (exists b, In b l /\ key b = p) -> (forall b, In b l -> key b = p -> val b = v) ->
  getO (fold_left (fun a b => upd a (key b) (val b)) l a) p = v.
Proof.
  induction l as [|b l IH]; intros a p v Hp (b0 & Hin & Hk) Hall; [destruct Hin|]. simpl.
  destruct (in_dec Nat.eq_dec p (map key l)) as [Hi|Hn].
  - apply IH; [rewrite upd_length; exact Hp| |intros; apply Hall; auto; right; assumption].
    apply in_map_iff in Hi. destruct Hi as (b1 & Hb1 & Hin1). exists b1. auto.
  - rewrite fold_upd_notin.
    + destruct Hin as [->|Hin]; [|exfalso; apply Hn; apply in_map_iff; exists b0; auto].
      rewrite Hk. rewrite getO_upd_eq by exact Hp. apply Hall; auto. left. reflexivity.
    + intros b1 Hb1 E. apply Hn. apply in_map_iff. exists b1. auto.
Qed.

Section A.
Variables (courses : list course) (parts : list participant).
Notation np := (np parts). Notation nc := (nc courses). Notation m_ := (m_ courses).
Notation crs := (crs courses). Notation course_map := (course_map courses).
Notation instructs := (instructs courses). Notation cancelled := cancelled.

(* ---- amatch ---- *)
Section AM.
Variables (sy : list bool) (mm : list nat).
Hypothesis V2 : forall y y', y < m_ -> y' < m_ -> getB sy y = false -> getB sy y' = false -> getN mm y = getN mm y' -> y = y'.

Definition am_step (a : assignment) (cp : nat) : assignment :=
  if negb (getB sy cp) && (getN mm cp <? np) then upd a (getN mm cp) (Some (course_map cp)) else a.

Lemma amatch_prefix : forall k, k <= m_ ->
  let a := fold_left am_step (seq 0 k) (repeat None np) in
  length a = np /\
  forall p, p < np -> forall c, getO a p = Some c <-> exists cp, cp < k /\ getB sy cp = false /\ getN mm cp = p /\ course_map cp = c.
Proof.
  induction k as [|k IH]; intros Hk.
  - cbn [seq fold_left]. split; [apply repeat_length|]. intros p Hp c. rewrite getO_repeat_none. split; [discriminate|intros (cp & H & _); lia].
  - destruct (IH ltac:(lia)) as [Hlen Hspec]. rewrite seq_S, fold_left_app. cbn [fold_left plus].
    set (a := fold_left am_step (seq 0 k) (repeat None np)) in *. cbn zeta. unfold am_step.
    destruct (negb (getB sy k) && (getN mm k <? np)) eqn:E.
    + apply andb_prop in E. destruct E as [E1 E2]. apply negb_true_iff in E1. apply Nat.ltb_lt in E2.
      split; [rewrite upd_length; exact Hlen|]. intros p Hp c.
      destruct (Nat.eq_dec (getN mm k) p) as [Heq|Hne].
      * subst p. rewrite getO_upd_eq by lia. split.
        -- intros H. inversion H; subst. exists k. repeat split; auto.
        -- intros (cp & Hcp & Hs & Hm & Hc). assert (cp = k) by (apply V2; auto; lia). subst. reflexivity.
      * rewrite getO_upd_neq by exact Hne. rewrite (Hspec p Hp c). split.
        -- intros (cp & Hcp & H). exists cp. split; [lia|exact H].
        -- intros (cp & Hcp & Hs & Hm & Hc). assert (cp <> k) by (intros ->; congruence). exists cp. repeat split; auto; lia.
    + split; [exact Hlen|]. intros p Hp c. rewrite (Hspec p Hp c). split.
      * intros (cp & Hcp & H). exists cp. split; [lia|exact H].
      * intros (cp & Hcp & Hs & Hm & Hc). assert (cp <> k).
        { intros ->. rewrite Hs in E. simpl in E. apply Nat.ltb_ge in E. lia. }
        exists cp. repeat split; auto; lia.
Qed.

Lemma amatch_spec : length (amatch courses parts sy mm) = np /\
  forall p, p < np -> forall c, getO (amatch courses parts sy mm) p = Some c <->
     exists cp, cp < m_ /\ getB sy cp = false /\ getN mm cp = p /\ course_map cp = c.
Proof. apply (amatch_prefix m_). lia. Qed.
End AM.

(* ---- add_instr ---- *)
Lemma in_instr_pairs nd i c : In (i, c) (instr_pairs courses nd) <-> c < nc /\ cancelled nd c = false /\ In i (c_instr (crs c)).
Proof.
  unfold instr_pairs. rewrite in_flat_map. split.
  - intros (c' & Hc' & Hin). apply in_seq in Hc'. destruct (cancelled nd c') eqn:E; [destruct Hin|].
    apply in_map_iff in Hin. destruct Hin as (i' & Heq & Hi'). inversion Heq; subst. repeat split; auto; lia.
  - intros (Hc & Hn & Hi). exists c. split; [apply in_seq; lia|]. rewrite Hn. apply in_map_iff. exists i. auto.
Qed.

Lemma add_instr_spec nd (a : assignment) :
  (forall i c c', In (i, c) (instr_pairs courses nd) -> In (i, c') (instr_pairs courses nd) -> c = c') ->
  length (add_instr courses nd a) = length a /\
  forall p, p < length a ->
    (forall c, In (p, c) (instr_pairs courses nd) -> getO (add_instr courses nd a) p = Some c) /\
    ((forall c, ~ In (p, c) (instr_pairs courses nd)) -> getO (add_instr courses nd a) p = getO a p).
Proof.
  intros Huniq. unfold add_instr. split; [apply (fold_upd_length fst (fun ic => Some (snd ic)))|].
  intros p Hp. split.
  - intros c Hin. apply (fold_upd_in fst (fun ic : nat * nat => Some (snd ic))); auto.
    + exists (p, c). auto.
    + intros [i c'] Hin' Hk. cbn in *. subst i. f_equal. eapply Huniq; eauto.
  - intros Hno. apply (fold_upd_notin fst (fun ic : nat * nat => Some (snd ic))). intros [i c] Hin E. cbn in E. subst. eapply Hno; eauto.
Qed.
End A.
