(* Spike for C02 step 4: in a node that covers a solution the optimal matching puts nobody into an unchosen course *)
From Coq Require Import List ZArith Lia Bool Arith Permutation.
Require Import Cert HP1 HP2 HP5 HP6 Hall Cao1 Cao2 Cao3 Cao4 Cao5 Cao6 Relax1 Relax2 Relax3 Relax4 Score1 Cov1 Cov2.
Import ListNotations.
Open Scope nat_scope.

Lemma sumZ_bounds (F : nat -> Z) lo hi l : (forall p, In p l -> (lo <= F p <= hi)%Z) ->
  (lo * Z.of_nat (length l) <= sumZ (map F l) <= hi * Z.of_nat (length l))%Z.
Proof.
  induction l as [|p l IH]; intros H; [simpl; lia|]. cbn [map length]. unfold sumZ in *. cbn [fold_right].
  specialize (IH (fun q Hq => H q (or_intror Hq))). specialize (H p (or_introl eq_refl)). lia.
Qed.

Lemma sumZ_cons z l : sumZ (z :: l) = (z + sumZ l)%Z. Proof. reflexivity. Qed.

Lemma dominance (G G' : nat -> Z) (Rl : list nat) (maxpen : Z) :
  (0 <= maxpen)%Z -> (Z.of_nat (length Rl) * maxpen < WEIGHT_OFFSET)%Z ->
  (sumZ (map G Rl) <= sumZ (map G' Rl))%Z ->
  (forall p, In p Rl -> (WEIGHT_OFFSET - maxpen <= G p)%Z) ->
  (forall p, In p Rl -> (G' p <= WEIGHT_OFFSET)%Z) ->
  forall p0, In p0 Rl -> (0 < G' p0)%Z.
Proof.
  intros Hm Hn Hopt Hlo Hhi p0 Hin. destruct (Z_lt_le_dec 0 (G' p0)) as [H|H]; [exact H|exfalso].
  apply in_split in Hin. destruct Hin as (l1 & l2 & ->).
  rewrite !map_app in Hopt. cbn [map] in Hopt. rewrite !sumZ_app, !sumZ_cons in Hopt. rewrite app_length in Hn. cbn [length] in Hn.
  assert (U1 : (sumZ (map G' l1) <= WEIGHT_OFFSET * Z.of_nat (length l1))%Z).
  { clear -Hhi. induction l1 as [|q l1 IH]; [simpl; lia|]. cbn [map length app] in *. unfold sumZ in *. cbn [fold_right].
    assert (IH' := IH (fun p Hp => Hhi p (or_intror Hp))). specialize (Hhi q (or_introl eq_refl)). lia. }
  assert (U2 : (sumZ (map G' l2) <= WEIGHT_OFFSET * Z.of_nat (length l2))%Z).
  { assert (Hhi2 : forall p, In p l2 -> (G' p <= WEIGHT_OFFSET)%Z) by (intros p Hp; apply Hhi; apply in_or_app; right; right; exact Hp).
    clear -Hhi2. induction l2 as [|q l2 IH]; [simpl; lia|]. cbn [map length] in *. unfold sumZ in *. cbn [fold_right].
    assert (IH' := IH (fun p Hp => Hhi2 p (or_intror Hp))). specialize (Hhi2 q (or_introl eq_refl)). lia. }
  assert (L1 : ((WEIGHT_OFFSET - maxpen) * Z.of_nat (length l1) <= sumZ (map G l1))%Z).
  { assert (Hlo1 : forall p, In p l1 -> (WEIGHT_OFFSET - maxpen <= G p)%Z) by (intros p Hp; apply Hlo; apply in_or_app; left; exact Hp).
    clear -Hlo1. induction l1 as [|q l1 IH]; [simpl; lia|]. cbn [map length] in *. unfold sumZ in *. cbn [fold_right].
    assert (IH' := IH (fun p Hp => Hlo1 p (or_intror Hp))). specialize (Hlo1 q (or_introl eq_refl)). lia. }
  assert (L2 : ((WEIGHT_OFFSET - maxpen) * Z.of_nat (length l2) <= sumZ (map G l2))%Z).
  { assert (Hlo2 : forall p, In p l2 -> (WEIGHT_OFFSET - maxpen <= G p)%Z) by (intros p Hp; apply Hlo; apply in_or_app; right; right; exact Hp).
    clear -Hlo2. induction l2 as [|q l2 IH]; [simpl; lia|]. cbn [map length] in *. unfold sumZ in *. cbn [fold_right].
    assert (IH' := IH (fun p Hp => Hlo2 p (or_intror Hp))). specialize (Hlo2 q (or_introl eq_refl)). lia. }
  assert (L0 : (WEIGHT_OFFSET - maxpen <= G p0)%Z) by (apply Hlo; apply in_or_app; right; left; reflexivity).
  unfold WEIGHT_OFFSET in *. nia.
Qed.

(* choice weights *)
Section CW.
Variable parts : list participant.
Notation cw := (choice_weight parts).
Variable maxpen : Z.
Hypothesis Hpen : forall p ch, In ch (p_choices (prt parts p)) -> (0 <= ch_pen ch <= maxpen)%Z.

Lemma cw_fold_bounds c : forall l acc, (forall ch, In ch l -> (0 <= ch_pen ch <= maxpen)%Z) ->
  let r := fold_left (fun acc ch => if Nat.eqb (ch_course ch) c then (WEIGHT_OFFSET - ch_pen ch)%Z else acc) l acc in
  (existsb (fun ch => Nat.eqb (ch_course ch) c) l = true -> (WEIGHT_OFFSET - maxpen <= r <= WEIGHT_OFFSET)%Z) /\
  (existsb (fun ch => Nat.eqb (ch_course ch) c) l = false -> r = acc).
Proof.
  induction l as [|ch l IH]; intros acc H; cbn zeta; [split; [discriminate|reflexivity]|]. cbn [fold_left existsb].
  specialize (IH (if Nat.eqb (ch_course ch) c then (WEIGHT_OFFSET - ch_pen ch)%Z else acc) (fun x Hx => H x (or_intror Hx))). cbn zeta in IH.
  destruct IH as [IH1 IH2]. pose proof (H ch (or_introl eq_refl)) as Hb.
  destruct (Nat.eqb (ch_course ch) c) eqn:E; cbn [orb].
  - split; [|discriminate]. intros _. destruct (existsb (fun ch0 => Nat.eqb (ch_course ch0) c) l) eqn:Ex; [apply IH1; reflexivity|rewrite (IH2 eq_refl); lia].
  - split; [exact IH1|exact IH2].
Qed.
Lemma cw_chosen p c : has_choice parts p c = true -> (WEIGHT_OFFSET - maxpen <= cw p c <= WEIGHT_OFFSET)%Z.
Proof. intros H. apply (proj1 (cw_fold_bounds c (p_choices (prt parts p)) 0%Z (Hpen p))). exact H. Qed.
Lemma cw_unchosen p c : has_choice parts p c = false -> cw p c = 0%Z.
Proof. intros H. apply (proj2 (cw_fold_bounds c (p_choices (prt parts p)) 0%Z (Hpen p))). exact H. Qed.
Lemma cw_le p c : (0 <= maxpen)%Z -> (cw p c <= WEIGHT_OFFSET)%Z.
Proof. intros Hm. destruct (has_choice parts p c) eqn:E; [apply cw_chosen, E|rewrite (cw_unchosen p c E); unfold WEIGHT_OFFSET; lia]. Qed.
End CW.
