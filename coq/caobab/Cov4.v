(* Spike for C02 step 4, node level: covered node => no wrong-course participant in the optimal relaxed assignment *)
From Coq Require Import List ZArith Lia Bool Arith Permutation.
Require Import Cert HP1 HP2 HP5 HP6 Hall Cao1 Cao2 Cao3 Cao4 Cao5 Cao6 Relax1 Relax2 Relax3 Relax4 Score1 Cov1 Cov2 Cov3.
Import ListNotations.
Open Scope nat_scope.

Section NW.
Variables (courses : list course) (parts : list participant).
Notation np := (np parts). Notation nc := (nc courses). Notation m_ := (m_ courses). Notation n_ := (n_ courses parts).
Notation crs := (crs courses). Notation instructs := (instructs courses). Notation instr_only := (instr_only parts).
Notation cw := (choice_weight parts). Notation has_choice := (has_choice parts).
Notation course_map := (course_map courses). Notation base := (base courses).
Hypothesis Hinstr_rng : forall c i, c < nc -> In i (c_instr (crs c)) -> i < np.
Hypothesis Hone : forall p c c', c < nc -> c' < nc -> instructs p c = true -> instructs p c' = true -> c = c'.
Variable maxpen : Z.
Hypothesis Hpen : forall p ch, In ch (p_choices (prt parts p)) -> (0 <= ch_pen ch <= maxpen)%Z.
Hypothesis Hmaxpen : (0 <= maxpen)%Z /\ (Z.of_nat np * maxpen < WEIGHT_OFFSET)%Z.

Variables (nd : node) (K : nat -> bool) (a : assignment).
Hypothesis Hs : Solution courses parts K a.
Hypothesis Hc : Covers courses nd K.
Variables (sx sy my : list bool) (mm : list nat).
Hypothesis Hsx : forall p, p < np -> getB sx p = instr_only p || existsb (fun c => negb (cancelled nd c) && instructs p c) (seq 0 nc).
Hypothesis Hsy : forall y, y < m_ -> getB sy y = (eff_max courses nd (course_map y) <=? y - base (course_map y)).
Hypothesis Hpm : HP5.is_pm (dummy_x courses parts) my sx sy n_ m_ (pairs_of sy m_ mm).
Hypothesis Hopt : (placed_weight courses parts nd a <= HP6.weight (adjacency courses parts) (pairs_of sy m_ mm))%Z.
Let a' := add_instr courses nd (amatch courses parts sy mm).
Let sx1 := skip_x1 courses parts nd.

Lemma sx_sx1 p : p < np -> getB sx p = getB sx1 p.
Proof. intros Hp. rewrite (Hsx p Hp). unfold sx1. rewrite (sx1_spec courses parts nd p Hp). reflexivity. Qed.

Theorem covered_no_wrong : forall p, p < np -> wrong_course parts sx a' p = false.
Proof.
  intros p0 Hp0. unfold wrong_course. destruct (getB sx p0) eqn:Esx; [reflexivity|]. cbn [negb andb].
  set (G := fun p => match getO a p with Some c => cw p c | None => 0%Z end).
  set (G' := fun p => match getO a' p with Some c => cw p c | None => 0%Z end).
  set (Rl := filter (fun p => negb (getB sx p)) (seq 0 np)).
  assert (HRl : Rl = filter (fun p => negb (getB sx1 p)) (seq 0 np)).
  { unfold Rl. apply filter_ext_in. intros p Hp. apply in_seq in Hp. rewrite sx_sx1 by lia. reflexivity. }
  (* both scores as sums over the active participants *)
  assert (HG' : HP6.weight (adjacency courses parts) (pairs_of sy m_ mm) = sumZ (map G' Rl)).
  { apply (mscore_sum courses parts Hone nd sx sy mm my Hsx Hpm). }
  assert (HG : placed_weight courses parts nd a = sumZ (map G Rl)).
  { unfold placed_weight. fold sx1.
    rewrite (map_ext_in _ (fun c => sumZ (map G (filter (fun p => negb (getB sx1 p) && opt_is (getO a p) c) (seq 0 np))))).
    2:{ intros c _. f_equal. apply map_ext_in. intros p Hp. apply filter_In in Hp. destruct Hp as [_ Hp].
        apply andb_prop in Hp. destruct Hp as [_ Hp]. unfold opt_is in Hp. unfold G. destruct (getO a p); [|discriminate]. apply Nat.eqb_eq in Hp. subst. reflexivity. }
    rewrite <- sumZ_map_flat_map, HRl. apply sumZ_map_perm.
    apply (group_perm (fun p => negb (getB sx1 p)) (fun p c => opt_is (getO a p) c) nc (seq 0 np)).
    - intros p Hp Hf. apply in_seq in Hp. apply negb_true_iff in Hf.
      destruct (cov_A1 courses parts nd K a Hs Hc p ltac:(lia) Hf) as (c & Hcn & Ha). exists c. split; [exact Hcn|]. unfold opt_is. rewrite Ha. apply Nat.eqb_refl.
    - intros p c c' H H'. unfold opt_is in *. destruct (getO a p); [|discriminate]. apply Nat.eqb_eq in H, H'. congruence. }
  assert (HinRl : forall p, In p Rl -> p < np /\ getB sx1 p = false).
  { intros p Hp. rewrite HRl in Hp. apply filter_In in Hp. destruct Hp as [Hp Hf]. apply in_seq in Hp. apply negb_true_iff in Hf. split; [lia|exact Hf]. }
  assert (Hpos : (0 < G' p0)%Z).
  { apply (dominance G G' Rl maxpen (proj1 Hmaxpen)).
    - assert (length Rl <= np). { unfold Rl. pose proof (filter_compl (fun p => negb (getB sx p)) (seq 0 np)) as Hl. rewrite seq_length in Hl. lia. }
      destruct Hmaxpen as [H0 H1]. nia.
    - rewrite <- HG, <- HG'. exact Hopt.
    - intros p Hp. destruct (HinRl p Hp) as [Hpn Hf]. destruct (cov_A4 courses parts nd K a Hs Hc p Hpn Hf) as (c & Ha & Hch & _).
      unfold G. rewrite Ha. apply (cw_chosen parts maxpen Hpen p c Hch).
    - intros p Hp. unfold G'. destruct (getO a' p); [apply (cw_le parts maxpen Hpen), Hmaxpen|unfold WEIGHT_OFFSET; lia].
    - unfold Rl. apply filter_In. split; [apply in_seq; lia|]. rewrite Esx. reflexivity. }
  unfold G' in Hpos. destruct (getO a' p0) as [c|] eqn:Ea; [|lia].
  destruct (has_choice p0 c) eqn:Ech; [rewrite andb_false_r; reflexivity|].
  rewrite (cw_unchosen parts maxpen Hpen p0 c Ech) in Hpos. lia.
Qed.
End NW.
