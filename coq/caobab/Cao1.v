(* caobab spike, part 1: model of precompute_problem + run_bab_node (no room stage), spec HardOK *)
From Coq Require Import List ZArith Lia Bool Arith Permutation.
Require Import HP1 Consts.
Import ListNotations.
Open Scope nat_scope.

Record choice := { ch_course : nat; ch_pen : Z }.
Record participant := { p_choices : list choice }.
Record course := { c_min : nat; c_max : nat; c_instr : list nat; c_fixed : bool }.
Record node := { n_cancel : list nat; n_enf : list nat; n_shrink : list (nat * nat) }.
Definition assignment := list (option nat).

Inductive nres := NoSolution | Infeasible (cs : list node) (s : Z) | Feasible (a : assignment) (s : Z).
Inductive out (A : Type) := Val (a : A) | Panic (site : nat) | HOverflow.
Arguments Val {A} a. Arguments Panic {A} site. Arguments HOverflow {A}.

Definition memb (x : nat) (l : list nat) : bool := existsb (Nat.eqb x) l.
Definition sumN (l : list nat) : nat := fold_right Nat.add 0 l.
Definition countB (l : list bool) : nat := length (filter (fun b => b) l).
Definition getO (l : assignment) (i : nat) : option nat := nth i l None.
Notation WEIGHT_OFFSET := Consts.WEIGHT_OFFSET.   (* regenerated from caobab.rs on every run *)

Section Cao.
Variables (courses : list course) (parts : list participant).
Definition nc := length courses.
Definition np := length parts.
Definition crs (c : nat) : course := nth c courses {| c_min := 0; c_max := 0; c_instr := []; c_fixed := false |}.
Definition prt (p : nat) : participant := nth p parts {| p_choices := [] |}.
Definition instr_only (p : nat) : bool := match p_choices (prt p) with [] => true | _ => false end.
Definition instructs (p c : nat) : bool := memb p (c_instr (crs c)).

(* ---- precompute_problem ---- *)
Definition skippable (p : nat) : bool := instr_only p || existsb (fun c => instructs p c) (seq 0 nc).
Definition m_ : nat := sumN (map c_max courses).
Definition n_ : nat := Nat.max (m_ + countB (map skippable (seq 0 np))) np.       (* with the fix for D1 *)
Definition base (c : nat) : nat := sumN (map c_max (firstn c courses)).
(* course of a column: first course whose block contains y *)
Fixpoint course_of_aux (cs : list course) (c y : nat) : nat :=
  match cs with [] => c | k :: t => if y <? c_max k then c else course_of_aux t (S c) (y - c_max k) end.
Definition course_map (y : nat) : nat := course_of_aux courses 0 y.
(* weight of row x for course c: the last choice for c wins, 0 if not chosen *)
Definition choice_weight (p c : nat) : Z :=
  fold_left (fun acc ch => if Nat.eqb (ch_course ch) c then (WEIGHT_OFFSET - ch_pen ch)%Z else acc) (p_choices (prt p)) 0%Z.
Definition adjacency : list (list Z) :=
  map (fun x => map (fun y => if x <? np then choice_weight x (course_map y) else 0%Z) (seq 0 m_)) (seq 0 n_).
Definition dummy_x : list bool := map (fun x => np <=? x) (seq 0 n_).
Definition skip_always : list bool := map (fun x => (x <? np) && instr_only x) (seq 0 n_).

(* ---- run_bab_node ---- *)
Variable hung : list (list Z) -> list bool -> list bool -> list bool -> list bool -> nat -> nat -> res (list nat * Z * list Z * list Z).

Definition cancelled (nd : node) (c : nat) : bool := memb c (n_cancel nd).
Definition skip_x1 (nd : node) : list bool :=
  map (fun x => (x <? np) && (instr_only x || existsb (fun c => negb (cancelled nd c) && instructs x c) (seq 0 nc))) (seq 0 n_).
Definition eff_max (nd : node) (c : nat) : nat :=
  if cancelled nd c then 0
  else fold_left (fun acc cs => if Nat.eqb (fst cs) c then Nat.min acc (snd cs) else acc) (n_shrink nd) (c_max (crs c)).
Definition has_choice (p c : nat) : bool := existsb (fun ch => Nat.eqb (ch_course ch) c) (p_choices (prt p)).

Definition skip_y (nd : node) : list bool :=
  map (fun y => let c := course_map y in eff_max nd c <=? y - base c) (seq 0 m_).
Definition mandatory_y (nd : node) : list bool :=
  map (fun y => let c := course_map y in memb c (n_enf nd) && (y - base c <? c_min (crs c))) (seq 0 m_).

Definition amatch (sy : list bool) (mm : list nat) : assignment :=
  fold_left (fun a cp => if negb (getB sy cp) && (getN mm cp <? np) then upd a (getN mm cp) (Some (course_map cp)) else a)
            (seq 0 m_) (repeat None np).
Definition instr_pairs (nd : node) : list (nat * nat) :=   (* (instructor, course) in the order the code writes them *)
  flat_map (fun c => if cancelled nd c then [] else map (fun i => (i, c)) (c_instr (crs c))) (seq 0 nc).
Definition add_instr (nd : node) (a : assignment) : assignment :=
  fold_left (fun a ic => upd a (fst ic) (Some (snd ic))) (instr_pairs nd) a.
Definition instr_score (nd : node) : Z :=
  fold_left (fun s ic => if instr_only (fst ic) then s else (s + WEIGHT_OFFSET)%Z) (instr_pairs nd) 0%Z.

(* check_feasibility: course sizes over non-instructors, wrong-course check, minimum check *)
Definition course_size (sx : list bool) (a : assignment) (c : nat) : nat :=
  length (filter (fun p => negb (getB sx p) && match getO a p with Some c' => Nat.eqb c' c | None => false end) (seq 0 np)).
Definition wrong_course (sx : list bool) (a : assignment) (p : nat) : bool :=
  negb (getB sx p) && negb (instr_only p) &&
  negb (match getO a p with Some c => has_choice p c | None => false end).
Definition min_violation (nd : node) (sx : list bool) (a : assignment) (c : nat) : bool :=
  negb (cancelled nd c) && (course_size sx a c <? c_min (crs c)).

Definition children_min (nd : node) (c : nat) : list node :=
  {| n_cancel := n_cancel nd; n_enf := n_enf nd ++ [c]; n_shrink := n_shrink nd |} ::
  (if c_fixed (crs c) then [] else [{| n_cancel := n_cancel nd ++ [c]; n_enf := n_enf nd; n_shrink := n_shrink nd |}]).
(* the room stage (check_room_feasibility): None = the assignment fits the rooms, Some bs = the node is answered Infeasible with
   branches bs.  Abstract here (the theorems of C01/C02/C08 hold for every such function); Rooms.v defines the real one. *)
Variable rgate : node -> assignment -> out (option (list node)).
(* the course to branch on / wrong-course heuristic are needed for optimality, not for C01: abstracted as a function *)
Variable pick_branches : node -> list bool -> assignment -> list node.

Definition run_node (nd : node) : out nres :=
  let sx1 := skip_x1 nd in
  let num_skip_x := countB sx1 in
  let active := np - num_skip_x in
  if active <? sumN (map (fun c => c_min (crs c)) (n_enf nd)) then Val NoSolution else
  if sumN (map (eff_max nd) (seq 0 nc)) <? active then Val NoSolution else
  if existsb (fun x => negb (getB sx1 x) && forallb (fun ch => cancelled nd (ch_course ch)) (p_choices (prt x))) (seq 0 np)
  then Val NoSolution else
  let sy := skip_y nd in
  let num_skip_y := countB sy in
  (* n - m + num_skip_y - num_skip_x, evaluated left to right in usize *)
  if (n_ <? m_) || (n_ - m_ + num_skip_y <? num_skip_x) then Panic 1 else
  let extra := n_ - m_ + num_skip_y - num_skip_x in
  if n_ <? np + extra then Panic 2 else
  let sx := map (fun x => getB sx1 x || ((np <=? x) && (x <? np + extra))) (seq 0 n_) in
  let my := mandatory_y nd in
  if existsb (fun y => getB my y && getB sy y) (seq 0 m_) then Panic 3 else
  match hung adjacency dummy_x my sx sy n_ m_ with
  | Stuck => Panic 4
  | Overflow => HOverflow
  | Ok (mm, mscore, _, _) =>
    let a := add_instr nd (amatch sy mm) in
    let score := (mscore + instr_score nd)%Z in
    match rgate nd a with
    | Panic site => Panic site
    | HOverflow => HOverflow
    | Val (Some bs) => Val (Infeasible bs score)
    | Val None =>
      (* check_feasibility: the wrong-course test returns first; afterwards the minimum loop asserts that no enforced course
         misses its minimum (site 5) *)
      if negb (existsb (wrong_course sx a) (seq 0 np)) && existsb (fun c => min_violation nd sx a c && memb c (n_enf nd)) (seq 0 nc)
      then Panic 5 else
      if existsb (wrong_course sx a) (seq 0 np) || existsb (min_violation nd sx a) (seq 0 nc)
      then Val (Infeasible (pick_branches nd sx a) score)
      else Val (Feasible a score)
    end
  end.
End Cao.

(* no room list given: the room stage is skipped *)
Definition no_rooms : node -> assignment -> out (option (list node)) := fun _ _ => Val None.
