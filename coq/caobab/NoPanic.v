(* C10 at node level: the internal assertion / arithmetic / unwrap sites 1-5 of run_bab_node are unreachable on valid instances and
   well-formed nodes; what remains are the sites of the room stage (numbered 6..10), see RoomThms.room_gate_site.
   1, 2: usize subtractions sizing the dummy rows; 3: assert that no place is both mandatory and skipped; 4: y.unwrap() of the
   matching routine; 5: assert in check_feasibility that an enforced course reaches its minimum. *)
From Coq Require Import List ZArith Lia Bool Arith Permutation.
Require Import Cert HP1 HP2 HP5 HP6 Hall Cao1 Cao2 Cao3 Cao4 Cao5 Cao6 Relax1 Relax2 Relax3 Relax4 Score1 Cov5.
Import ListNotations.
Open Scope nat_scope.

Section NP.
Variables (courses : list course) (parts : list participant) (rgate : node -> assignment -> out (option (list node))) (pick : node -> list bool -> assignment -> list node).
Notation np := (np parts). Notation nc := (nc courses). Notation m_ := (m_ courses). Notation n_ := (n_ courses parts).
Notation crs := (crs courses). Notation base := (base courses). Notation course_map := (course_map courses).
Notation instructs := (instructs courses).
Hypothesis Hone : forall p c c', c < nc -> c' < nc -> instructs p c = true -> instructs p c' = true -> c = c'.
Hypothesis Hminmax : forall c, c < nc -> c_min (crs c) <= c_max (crs c).
Variable Q : nat -> Prop.          (* the panic sites of the room stage *)
Hypothesis HQ : forall s, Q s -> 6 <= s.
Hypothesis Hrg : forall nd a s, rgate nd a = Panic s -> Q s.

(* well-formed node: enforced courses exist, are not cancelled, and are never shrunk below their minimum *)
Definition WfNode (nd : node) : Prop :=
  forall c, In c (n_enf nd) -> c < nc /\ cancelled nd c = false /\ forall cs, In cs (n_shrink nd) -> fst cs = c -> c_min (crs c) <= snd cs.

Lemma m_le_n : m_ <= n_. Proof. unfold Cao1.n_. lia. Qed.

Lemma countB_skip_x1 nd : countB (skip_x1 courses parts nd) <= countB (map (skippable courses parts) (seq 0 np)).
Proof.
  unfold skip_x1. rewrite !countB_map. pose proof (np_le_n courses parts) as Hn.
  rewrite (seq_split2 np n_ Hn), filter_app, app_length.
  rewrite (filter_none _ (seq np (n_ - np))).
  - simpl. rewrite Nat.add_0_r. apply filter_length_le. intros x Hx Hf. apply andb_prop in Hf. destruct Hf as [_ Hf].
    unfold skippable. apply orb_prop in Hf. destruct Hf as [Hf|Hf]; [rewrite Hf; reflexivity|].
    apply orb_true_iff. right. apply existsb_exists in Hf. destruct Hf as (c & Hc & Hf). apply andb_prop in Hf.
    apply existsb_exists. exists c. split; [exact Hc|apply Hf].
  - intros x Hx. apply in_seq in Hx. apply andb_false_iff. left. apply Nat.ltb_ge. lia.
Qed.

Lemma eff_max_ge nd c : WfNode nd -> In c (n_enf nd) -> c_min (crs c) <= eff_max courses nd c.
Proof.
  intros Hwf Hin. destruct (Hwf c Hin) as (Hc & Hcan & Hsh). unfold eff_max. rewrite Hcan.
  assert (G : forall l acc, c_min (crs c) <= acc -> (forall cs, In cs l -> fst cs = c -> c_min (crs c) <= snd cs) ->
            c_min (crs c) <= fold_left (fun acc cs => if Nat.eqb (fst cs) c then Nat.min acc (snd cs) else acc) l acc).
  { induction l as [|x l IH]; intros acc Ha Hl; simpl; [exact Ha|]. apply IH; [|intros; apply Hl; [right|]; assumption].
    destruct (Nat.eqb (fst x) c) eqn:E; [|exact Ha]. apply Nat.eqb_eq in E. specialize (Hl x (or_introl eq_refl) E). lia. }
  apply G; [apply Hminmax; exact Hc|exact Hsh].
Qed.

Theorem run_panic_sites nd s : WfNode nd -> run courses parts rgate pick nd = Panic s -> Q s.
Proof.
  intros Hwf Hrun.
  assert (Hn4 : s <> 4).
  { intros ->. apply (run_node_never_stuck courses parts rgate pick) with (nd := nd); [|exact Hrun].
    intros nd' a' H4. pose proof (HQ 4 (Hrg nd' a' 4 H4)). lia. }
  revert Hrun. unfold Cao5.run, run_node.
  set (sx1 := skip_x1 courses parts nd). set (nsx := countB sx1). set (sy := skip_y courses nd). set (nsy := countB sy).
  destruct (np - nsx <? sumN _) eqn:C1; [discriminate|]. apply Nat.ltb_ge in C1.
  destruct (sumN (map (eff_max courses nd) (seq 0 nc)) <? np - nsx) eqn:C2; [discriminate|]. apply Nat.ltb_ge in C2.
  destruct (existsb _ (seq 0 np)); [discriminate|].
  assert (Hlsx1 : length sx1 = n_) by (unfold sx1, skip_x1; rewrite map_length, seq_length; reflexivity).
  assert (Hlsy : length sy = m_) by (unfold sy, skip_y; rewrite map_length, seq_length; reflexivity).
  assert (Hnpn : np <= n_) by apply np_le_n.
  assert (Hsx1_np : forall x, getB sx1 x = true -> x < np).
  { intros x H. destruct (lt_dec x n_) as [Hx|Hx].
    - unfold sx1, skip_x1 in H. rewrite getB_map_seq' in H by exact Hx. apply andb_prop in H. destruct H as [H _]. apply Nat.ltb_lt in H. exact H.
    - unfold getB in H. rewrite nth_overflow in H by lia. discriminate. }
  assert (Hnsx_np : nsx <= np).
  { unfold nsx. rewrite <- cntT_countB, <- (count_filter sx1 n_ Hlsx1).
    transitivity (length (seq 0 np)); [|rewrite seq_length; lia]. apply NoDup_incl_length; [apply NoDup_filter, seq_NoDup|].
    intros x Hx. apply filter_In in Hx. destruct Hx as [_ Hx]. apply in_seq. specialize (Hsx1_np x Hx). lia. }
  assert (Hcols : m_ - nsy = sumN (map (eff_max courses nd) (seq 0 nc))).
  { rewrite <- (active_cols_count courses nd). fold sy. rewrite (cols_len sy m_ Hlsy). reflexivity. }
  assert (Hnsy : nsy <= m_) by (unfold nsy; rewrite <- Hlsy; apply countB_le).
  destruct ((n_ <? m_) || (n_ - m_ + nsy <? nsx)) eqn:G1.
  { exfalso. apply orb_true_iff in G1. destruct G1 as [G|G]; [apply Nat.ltb_lt in G; pose proof m_le_n; lia|].
    apply Nat.ltb_lt in G. pose proof (countB_skip_x1 nd) as Hsk. fold sx1 in Hsk. fold nsx in Hsk. unfold Cao1.n_ in G. lia. }
  apply orb_false_iff in G1. destruct G1 as [G1a G1b]. apply Nat.ltb_ge in G1a, G1b.
  set (extra := n_ - m_ + nsy - nsx). destruct (n_ <? np + extra) eqn:G2.
  { exfalso. apply Nat.ltb_lt in G2. unfold extra in G2. lia. }
  apply Nat.ltb_ge in G2.
  set (sx := map (fun x => getB sx1 x || ((np <=? x) && (x <? np + extra))) (seq 0 n_)).
  set (my := mandatory_y courses nd).
  destruct (existsb (fun y => getB my y && getB sy y) (seq 0 m_)) eqn:G3.
  { exfalso. apply existsb_exists in G3. destruct G3 as (y & Hy & G3). apply in_seq in Hy. apply andb_prop in G3. destruct G3 as [Gm Gs].
    unfold my, mandatory_y in Gm. rewrite getB_map_seq' in Gm by lia. apply andb_prop in Gm. destruct Gm as [Gm1 Gm2].
    apply memb_true in Gm1. apply Nat.ltb_lt in Gm2.
    unfold sy, skip_y in Gs. rewrite getB_map_seq' in Gs by lia. apply Nat.leb_le in Gs.
    pose proof (eff_max_ge nd _ Hwf Gm1). lia. }
  assert (Hlsx : length sx = n_) by (unfold sx; rewrite map_length, seq_length; reflexivity).
  assert (Hcnt : countB sx = nsx + extra).
  { unfold sx. rewrite countB_map. rewrite filter_or_disj.
    - fold (cntf (getB sx1) n_). fold (cntf (fun x => (np <=? x) && (x <? np + extra)) n_). rewrite cntf_interval by exact G2.
      unfold cntf. rewrite (count_filter sx1 n_ Hlsx1), cntT_countB. reflexivity.
    - intros x _ H. apply Hsx1_np in H. apply andb_false_iff. left. apply Nat.leb_gt. exact H. }
  assert (Hsq : length (rowsL sx n_) = length (colsL sy m_)).
  { rewrite (rows_len sx n_ Hlsx), (cols_len sy m_ Hlsy), Hcnt. unfold extra. lia. }
  pose proof (hungarian_partial (adjacency courses parts) (dummy_x courses parts) my sx sy n_ m_ Hsq) as HP.
  destruct (hungarian (adjacency courses parts) (dummy_x courses parts) my sx sy n_ m_) as [[[[mm ms] lx] ly]| |];
    [|intros H; inversion H; congruence|discriminate].
  destruct HP as (Hpm & _).
  destruct (rgate nd _) as [[bs|]|site|] eqn:Eg; try discriminate.
  - set (a' := add_instr courses nd (amatch courses parts sy mm)) in *.
    destruct (negb _ && existsb _ (seq 0 nc)) eqn:G5.
    + exfalso. apply andb_prop in G5. destruct G5 as [_ G5]. apply existsb_exists in G5. destruct G5 as (c & Hc & G5).
      apply in_seq in Hc. apply andb_prop in G5. destruct G5 as [Gv Ge]. apply memb_true in Ge.
      unfold min_violation in Gv. apply andb_prop in Gv. destruct Gv as [_ Gv]. apply Nat.ltb_lt in Gv.
      assert (Hsxp : forall p, p < np -> getB sx p = instr_only parts p || existsb (fun c => negb (cancelled nd c) && instructs p c) (seq 0 nc)).
      { intros p Hp. unfold sx. rewrite getB_map_seq' by lia.
        replace ((np <=? p) && (p <? np + extra)) with false by (symmetry; apply andb_false_iff; left; apply Nat.leb_gt; exact Hp).
        rewrite orb_false_r. unfold sx1, skip_x1. rewrite getB_map_seq' by lia.
        replace (p <? np) with true by (symmetry; apply Nat.ltb_lt; exact Hp). reflexivity. }
      pose proof (enforced_reaches_min courses parts Hone Hminmax nd sx sy mm Hsxp G3 Hpm c Ge ltac:(lia)) as Hmin.
      fold a' in Hmin. lia.
    + destruct (_ || _); discriminate.
  - intros H. inversion H; subst. eapply Hrg; eauto.
Qed.
End NP.
