(* An invariant of every subproblem the search generates: the cancelled courses of a node are courses of the instance that are
   not marked fixed ("a course marked fixed always takes place", C01).  Inherited by all three kinds of children: minimum-size
   branching, the wrong-course heuristic, and the room constraint sets. *)
From Coq Require Import List ZArith Lia Bool Arith Permutation.
Require Import Cert HP1 HP2 HP5 HP6 Hall Cao1 Cao2 Cao3 Cao4 Cao5 Cao6 RunCases Cov6 Rooms Spec Node RoomThms SelModel Consts.
Import ListNotations.
Open Scope nat_scope.

Lemma firstn_In {A} : forall n (l : list A) x, In x (firstn n l) -> In x l.
Proof. induction n as [|n IH]; intros [|y t] x H; simpl in *; auto; try contradiction. destruct H as [->|H]; auto. Qed.
Lemma skipn_In {A} : forall n (l : list A) x, In x (skipn n l) -> In x l.
Proof. induction n as [|n IH]; intros [|y t] x H; simpl in *; auto. Qed.

Section W.
Variables (courses : list course) (parts : list participant).
Variable esize : nat -> nat -> nat.
Variable shrinkf : nat -> nat -> nat.
Variable rooms : option (list nat).
Notation nc := (nc courses). Notation np := (np parts). Notation crs := (crs courses).

Definition okc (c : nat) : Prop := c < nc /\ c_fixed (crs c) = false.
Definition NoFix (nd : node) : Prop := Forall okc (n_cancel nd).

Lemma nofix_root : NoFix root. Proof. constructor. Qed.

Lemma create_set_ok nd : forall cl ts ar sh ca sh' ca', Forall (fun c => c < nc) cl -> Forall okc ca ->
  create_set courses esize shrinkf nd cl ts ar sh ca = Val (Some (sh', ca')) -> Forall okc ca'.
Proof.
  induction cl as [|c t IH]; intros ts ar sh ca sh' ca' Hcl Hca H; simpl in H.
  - inversion H; subst. exact Hca.
  - inversion Hcl as [|? ? Hc Ht]; subst.
    destruct (cancelled nd c).
    { destruct ar; [discriminate|]. eapply IH; eauto. }
    destruct (esize c _ <=? ts).
    { destruct (shrinkf c ts <? n_instr courses c); [discriminate|].
      destruct (existsb _ (n_shrink nd)); [destruct ar; [discriminate|]|]; eapply IH; eauto. }
    destruct (memb c (n_enf nd) || c_fixed (crs c)) eqn:E.
    { destruct ar; [discriminate|]. eapply IH; eauto. }
    apply orb_false_iff in E. destruct E as [_ E]. eapply IH; [exact Ht| |exact H].
    apply Forall_app. split; [exact Hca|]. constructor; [split; assumption|constructor].
Qed.

Lemma build_sets_ok nd ts always : Forall okc (snd always) ->
  forall sels acc sets, Forall (Forall (fun c => c < nc)) sels -> Forall (fun set => Forall okc (snd set)) acc ->
  build_sets courses esize shrinkf nd sels ts always acc = Val sets -> Forall (fun set => Forall okc (snd set)) sets.
Proof.
  intros Hal. induction sels as [|sel t IH]; intros acc sets Hs Hacc H; simpl in H.
  - inversion H; subst. exact Hacc.
  - inversion Hs as [|? ? Hsel Ht]; subst.
    destruct (create_set courses esize shrinkf nd sel ts true [] []) as [[[sh ca]|]| |] eqn:Ec; try discriminate.
    + pose proof (create_set_ok nd sel ts true [] [] sh ca Hsel (Forall_nil _) Ec) as Hca.
      destruct (sh ++ fst always) eqn:E1; [destruct (ca ++ snd always) eqn:E2; [discriminate|]|].
      * eapply IH; [exact Ht| |exact H]. apply Forall_app. split; [exact Hacc|]. constructor; [|constructor]. simpl.
        rewrite <- E2. apply Forall_app. split; assumption.
      * eapply IH; [exact Ht| |exact H]. apply Forall_app. split; [exact Hacc|]. constructor; [|constructor]. simpl.
        apply Forall_app. split; assumption.
    + eapply IH; eauto.
Qed.

Lemma sort_by_in {A} (key : A -> nat) l x : In x (sort_by key l) -> In x l.
Proof. apply Permutation_in, sort_by_perm. Qed.

Lemma room_sets_ok rs nd a sets : room_sets courses esize shrinkf rs nd a = Val (Some sets) ->
  Forall (fun set => Forall okc (snd set)) sets.
Proof.
  unfold room_sets. set (cs := sort_by (fun p : nat * nat => snd p) (course_sizes courses esize a)).
  assert (Hcs : forall p, In p cs -> fst p < nc).
  { intros p Hp. apply sort_by_in in Hp. unfold course_sizes in Hp. apply in_map_iff in Hp. destruct Hp as (c & <- & Hc). apply in_seq in Hc. simpl. lia. }
  destruct (find _ (seq 0 _)) as [j|] eqn:Ef; [|discriminate].
  apply find_some in Ef. destruct Ef as [Hj _]. apply in_seq in Hj.
  assert (Hpos : 0 < nc).
  { destruct cs as [|p0 t] eqn:E; [simpl in Hj; lia|]. specialize (Hcs p0 (or_introl eq_refl)). lia. }
  destruct (find_index _ cs) as [smallest|]; [|discriminate]. destruct (_ <? smallest); [discriminate|].
  destruct (if _ <? MIN_K_nat then _ else _) as [lower k] eqn:Elk.
  match goal with |- context [create_set ?c ?e ?s ?n ?cl ?ts false [] []] => destruct (create_set c e s n cl ts false [] []) as [[always|]| |] eqn:Eal end; try discriminate.
  match goal with |- context [build_sets ?c ?e ?s ?n ?sels ?ts ?al []] => destruct (build_sets c e s n sels ts al []) as [sets'| |] eqn:Eb end; try discriminate.
  intros H. inversion H; subst sets'. clear H.
  destruct always as [sha caa].
  eapply build_sets_ok; [| |constructor|exact Eb].
  - simpl. eapply create_set_ok; [|constructor|exact Eal].
    apply Forall_forall. intros c Hc. apply in_map_iff in Hc. destruct Hc as (p & <- & Hp). apply filter_In in Hp. apply Hcs. apply Hp.
  - apply Forall_forall. intros sel Hsel. apply in_map_iff in Hsel. destruct Hsel as (idx & <- & _).
    apply Forall_forall. intros c Hc. apply in_map_iff in Hc. destruct Hc as (ix & <- & _).
    set (range := firstn _ (skipn lower cs)).
    destruct (Nat.lt_ge_cases ix (length range)) as [Hl|Hl].
    + apply Hcs. assert (Hin : In (nth ix range (0, 0)) range) by (apply nth_In; exact Hl).
      unfold range in Hin. apply firstn_In in Hin. eapply skipn_In; eauto.
    + rewrite nth_overflow by exact Hl. simpl. exact Hpos.
Qed.

Lemma children_nofix nd cs s : NoFix nd -> run_full courses parts esize shrinkf rooms nd = Val (Infeasible cs s) ->
  forall c, In c cs -> NoFix c.
Proof.
  intros Hnd H c Hc. destruct (run_node_cases courses parts _ _ nd _ H) as [Hn|NR]; [discriminate|].
  destruct NR as [sx sy mm ms _ _ _ _ _ _ _ _ _ Hres]. cbn zeta in Hres.
  set (a' := add_instr courses nd (amatch courses parts sy mm)) in *.
  destruct (the_gate courses esize shrinkf rooms nd a') as [[bs|]| |] eqn:Eg; try contradiction.
  - (* room constraint sets *)
    inversion Hres; subst bs. clear Hres. unfold the_gate, room_gate in Eg. destruct rooms as [rs|]; [|discriminate].
    destruct (room_sets courses esize shrinkf (prep_rooms courses rs) nd a') as [[sets|]| |] eqn:Er; try discriminate.
    inversion Eg; subst cs. apply in_map_iff in Hc. destruct Hc as (set & <- & Hset).
    pose proof (room_sets_ok _ _ _ _ Er) as Hok. rewrite Forall_forall in Hok. specialize (Hok set Hset).
    unfold NoFix, child_of. simpl. apply Forall_app. split; assumption.
  - destruct (_ || _) eqn:Eor; [|discriminate]. inversion Hres; subst cs. clear Hres.
    unfold the_pick, pick_real in Hc. destruct (existsb (wrong_course parts sx a') (seq 0 np)).
    + (* wrong-course heuristic *)
      unfold pick_wrong in Hc. destruct (find _ (seq 0 np)) as [p|]; [|destruct Hc].
      match type of Hc with In _ (match ?L with _ => _ end) => destruct L as [|rc t] eqn:El end; [destruct Hc|].
      destruct (c_fixed (crs rc)) eqn:Efix; [destruct Hc|]. destruct Hc as [<-|[]]. unfold NoFix. simpl.
      apply Forall_app. split; [exact Hnd|]. constructor; [|constructor]. split; [|exact Efix].
      assert (Hin : In rc (rc :: t)) by (left; reflexivity). rewrite <- El in Hin. apply sort_by_in in Hin.
      apply filter_In in Hin. destruct Hin as [Hin _]. apply in_seq in Hin. lia.
    + (* minimum-size branching *)
      destruct (branch_course courses parts nd sx a') as [bc|] eqn:Eb; [|destruct Hc].
      destruct (proj1 (branch_course_spec courses parts nd sx a') bc Eb) as [Hbc _].
      unfold children_min in Hc. destruct Hc as [<-|Hc]; [exact Hnd|].
      destruct (c_fixed (crs bc)) eqn:Efix; [destruct Hc|]. destruct Hc as [<-|[]]. unfold NoFix. simpl.
      apply Forall_app. split; [exact Hnd|]. constructor; [split; assumption|constructor].
Qed.
End W.
