(* Witness for the known finding D3 (C03 on class TC): one instance, two recorded histories of the real caobab::solve (1 worker,
   default schedule; 2 workers, a random schedule found by the harness) that are both runs of the model and end with different
   scores.  The histories were recorded through the scheduler shim; here they are replayed by EngExec.replay inside Coq. *)
From Coq Require Import List ZArith Bool Arith.
Require Import HP1 Cao1 Score1 Rooms F32 Node Spec Valid Solve CorrSel CorrNode CorrTree CorrSolve.
Require Import EngP2 EngExec.
Import ListNotations.
Open Scope nat_scope.

Definition d3_pcs : list pcourse := [(0%nat, 1%nat, [2%nat], false, 1065353216%Z, 0%Z); (0%nat, 0%nat, [], true, 1065353216%Z, 0%Z); (2%nat, 3%nat, [], true, 1065353216%Z, 0%Z); (2%nat, 3%nat, [], false, 1065353216%Z, 0%Z)].
Definition d3_pps : list (list pchoice) := [[(2%nat, 0%Z)]; [(2%nat, 0%Z)]; [(3%nat, 0%Z)]; [(3%nat, 0%Z); (0%nat, 1%Z)]].
Definition d3_courses := map mk_course d3_pcs.
Definition d3_parts := map mk_part d3_pps.
Definition d3_ev1 : list (pev pnode) := [PAcq 0; PPopSolve 0 ([], [], []) 4294967295%Z; PFinInf 0 200000%Z [([], [3%nat], []); ([3%nat], [], [])]; PExitNo 0; PPopSolve 0 ([], [3%nat], []) 200000%Z; PFinInf 0 150000%Z [([0%nat], [3%nat], [])]; PExitNo 0; PPopSolve 0 ([0%nat], [3%nat], []) 150000%Z; PFinFeas 0 200000%Z true; PExitNo 0; PPopBound 0 ([3%nat], [], []) 200000%Z; PExitYes 0].
Definition d3_ev2 : list (pev pnode) := [PAcq 0; PPopSolve 0 ([], [], []) 4294967295%Z; PFinInf 0 200000%Z [([], [3%nat], []); ([3%nat], [], [])]; PExitNo 0; PPopSolve 0 ([], [3%nat], []) 200000%Z; PAcq 1; PPopSolve 1 ([3%nat], [], []) 200000%Z; PFinFeas 1 199999%Z true; PExitNo 1; PEmptyWait 1; PFinInf 0 150000%Z [([0%nat], [3%nat], [])]; PExitNo 0; PPopBound 0 ([0%nat], [3%nat], []) 150000%Z; PExitYes 0; PAcq 1; PEmptyDone 1].
Definition d3_f := f_full d3_courses d3_parts (fun _ n => n) (fun _ r => r) None.
Lemma pair_eqb_eq a b : pair_eqb a b = true -> a = b.
Proof. destruct a, b. unfold pair_eqb. simpl. intros H. apply andb_true_iff in H. destruct H as [H1 H2]. apply Nat.eqb_eq in H1, H2. subst. reflexivity. Qed.
Lemma pnode_eqb_eq a b : pnode_eqb a b = true -> a = b.
Proof.
  destruct a, b. unfold pnode_eqb. simpl. intros H. repeat (apply andb_true_iff in H; destruct H as [H ?]).
  apply (EngExec.list_eqb_eq Nat.eqb (fun x y => proj1 (Nat.eqb_eq x y))) in H, H1.
  apply (EngExec.list_eqb_eq pair_eqb pair_eqb_eq) in H0. subst. reflexivity.
Qed.

Notation d3_reach := (Reach node assignment d3_f root CorrTree.smin CorrTree.smax).

Lemma d3_history1 : exists st, replay node assignment d3_f pnode_eqb (init node assignment root CorrTree.smin CorrTree.smax 1) (map to_sev d3_ev1) 0 = Datatypes.inl st /\ all_done node assignment st = true /\ bscore node assignment st = 200000%Z.
Proof. vm_compute. eexists. split; [reflexivity|]. split; reflexivity. Qed.
Lemma d3_history2 : exists st, replay node assignment d3_f pnode_eqb (init node assignment root CorrTree.smin CorrTree.smax 2) (map to_sev d3_ev2) 0 = Datatypes.inl st /\ all_done node assignment st = true /\ bscore node assignment st = 199999%Z.
Proof. vm_compute. eexists. split; [reflexivity|]. split; reflexivity. Qed.

Lemma d3_reach1 : exists st, d3_reach 1 st /\ all_done node assignment st = true /\ bscore node assignment st = 200000%Z.
Proof.
  destruct d3_history1 as (st & H & D & S). exists st. split; [|split; assumption].
  pose proof (replay_init_reach node assignment d3_f root CorrTree.smin CorrTree.smax pnode_eqb pnode_eqb_eq 1 (map to_sev d3_ev1) st) as G.
  apply G. exact H.
Qed.
Lemma d3_reach2 : exists st, d3_reach 2 st /\ all_done node assignment st = true /\ bscore node assignment st = 199999%Z.
Proof.
  destruct d3_history2 as (st & H & D & S). exists st. split; [|split; assumption].
  pose proof (replay_init_reach node assignment d3_f root CorrTree.smin CorrTree.smax pnode_eqb pnode_eqb_eq 2 (map to_sev d3_ev2) st) as G.
  apply G. exact H.
Qed.
