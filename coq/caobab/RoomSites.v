(* C10, room stage: the sites 6..10 (position(..).unwrap(), assert!(conflicting >= smallest), assert!(set not empty), the usize
   subtraction of the shrink size, constraint_set.unwrap()) are unreachable, provided the two float functions are sane with respect
   to each other:  esize c n <= r  ->  n <= shrinkf c r  for n = minimum + instructors (a decidable property of instance and room
   sizes, evaluated for the binary32 instance by the correspondence run). *)
From Coq Require Import List ZArith Lia Bool Arith Permutation.
Require Import HP1 Cao1 Rooms SelModel SelProofs Consts RoomThms NodeWf.
Import ListNotations.
Open Scope nat_scope.

Section RS.
Variables (courses : list course) (parts : list participant).
Variable esize : nat -> nat -> nat.
Variable shrinkf : nat -> nat -> nat.
Notation nc := (nc courses). Notation crs := (crs courses).

(* for the room sizes R that can occur as the size of a conflicting room *)
Definition FloatSaneOn (R : list nat) : Prop :=
  forall c r, c < nc -> In r R -> esize c (c_min (crs c) + n_instr courses c) <= r -> c_min (crs c) + n_instr courses c <= shrinkf c r.
Definition FloatSane (rooms : option (list nat)) : Prop :=
  match rooms with None => True | Some rs => FloatSaneOn (prep_rooms courses rs) end.
Definition float_saneb (rooms : option (list nat)) : bool :=
  match rooms with
  | None => true
  | Some rs => forallb (fun c => forallb (fun r => negb (esize c (c_min (crs c) + n_instr courses c) <=? r) ||
                                                   (c_min (crs c) + n_instr courses c <=? shrinkf c r)) (prep_rooms courses rs)) (seq 0 nc)
  end.
Lemma float_saneb_spec rooms : float_saneb rooms = true -> FloatSane rooms.
Proof.
  destruct rooms as [rs|]; simpl; [|auto]. intros H c r Hc Hr Hle. rewrite forallb_forall in H. specialize (H c ltac:(apply in_seq; lia)).
  rewrite forallb_forall in H. specialize (H r Hr). apply orb_true_iff in H. destruct H as [H|H].
  - apply negb_true_iff in H. apply Nat.leb_gt in H. lia.
  - apply Nat.leb_le. exact H.
Qed.
End RS.

(* After fix edde4a5 the code never shrinks a course below its minimal size: the inverse computation is max(floor(..), num_min +
   instructors).  For that shrink function FloatSane holds by construction, for EVERY forward function and room list. *)
Definition fixed_shrink (courses : list course) (shrinkf : nat -> nat -> nat) (c r : nat) : nat :=
  Nat.max (shrinkf c r) (c_min (crs courses c) + n_instr courses c).
Theorem float_sane_fixed courses esize shrinkf rooms : FloatSane courses esize (fixed_shrink courses shrinkf) rooms.
Proof. destruct rooms as [rs|]; simpl; [|exact I]. intros c r _ _ _. unfold fixed_shrink. apply Nat.le_max_r. Qed.

Section RS2.
Variables (courses : list course) (parts : list participant).
Variable esize : nat -> nat -> nat.
Variable shrinkf : nat -> nat -> nat.
Notation nc := (nc courses). Notation crs := (crs courses).
Notation FloatSaneOn := (FloatSaneOn courses esize shrinkf). Notation FloatSane := (FloatSane courses esize shrinkf).
Variable R : list nat.
Hypothesis FS : FloatSaneOn R.

Lemma create_set_no_site nd : forall cl ts ar sh ca s, In ts R -> Forall (fun c => c < nc) cl ->
  create_set courses esize shrinkf nd cl ts ar sh ca <> Panic s.
Proof.
  induction cl as [|c t IH]; intros ts ar sh ca s Hts Hcl H; simpl in H; [discriminate|].
  inversion Hcl as [|? ? Hc Ht]; subst.
  destruct (cancelled nd c).
  { destruct ar; [discriminate|]. eapply IH; eauto. }
  destruct (esize c (c_min (crs c) + n_instr courses c) <=? ts) eqn:E.
  { apply Nat.leb_le in E. pose proof (FS c ts Hc Hts E) as Hs.
    destruct (shrinkf c ts <? n_instr courses c) eqn:E2; [apply Nat.ltb_lt in E2; lia|].
    destruct (existsb _ (n_shrink nd)); [destruct ar; [discriminate|]|]; eapply IH; eauto. }
  destruct (memb c (n_enf nd) || c_fixed (crs c)); [destruct ar; [discriminate|]|]; eapply IH; eauto.
Qed.

Lemma create_set_false_some nd : forall cl ts sh ca, create_set courses esize shrinkf nd cl ts false sh ca <> Val None.
Proof.
  induction cl as [|c t IH]; intros ts sh ca H; simpl in H; [discriminate|].
  repeat (match type of H with context [if ?b then _ else _] => destruct b end; try discriminate; try (eapply IH; exact H)).
Qed.

(* with all_required every course of the selection contributes exactly one restriction *)
Lemma create_set_true_count nd : forall cl ts sh ca sh' ca', create_set courses esize shrinkf nd cl ts true sh ca = Val (Some (sh', ca')) ->
  length sh' + length ca' = length sh + length ca + length cl.
Proof.
  induction cl as [|c t IH]; intros ts sh ca sh' ca' H; simpl in H.
  - inversion H; subst. simpl. lia.
  - destruct (cancelled nd c); [discriminate|].
    destruct (esize c _ <=? ts).
    + destruct (shrinkf c ts <? n_instr courses c); [discriminate|]. destruct (existsb _ (n_shrink nd)); [discriminate|].
      apply IH in H. rewrite app_length in H. simpl in *. lia.
    + destruct (memb c (n_enf nd) || c_fixed (crs c)); [discriminate|]. apply IH in H. rewrite app_length in H. simpl in *. lia.
Qed.

Lemma build_sets_no_site nd ts always : In ts R -> forall sels acc s,
  Forall (fun sel => Forall (fun c => c < nc) sel /\ sel <> []) sels ->
  build_sets courses esize shrinkf nd sels ts always acc <> Panic s.
Proof.
  intros Hts. induction sels as [|sel t IH]; intros acc s Hs H; simpl in H; [discriminate|].
  inversion Hs as [|? ? [Hsel Hne] Ht]; subst.
  destruct (create_set courses esize shrinkf nd sel ts true [] []) as [[[sh ca]|]| |] eqn:Ec.
  - pose proof (create_set_true_count nd sel ts [] [] sh ca Ec) as Hcnt. simpl in Hcnt.
    destruct (sh ++ fst always) eqn:E1; [destruct (ca ++ snd always) eqn:E2|].
    + exfalso. apply app_eq_nil in E1, E2. destruct E1 as [-> _], E2 as [-> _]. simpl in Hcnt. destruct sel; [congruence|simpl in Hcnt; lia].
    + eapply IH; eauto.
    + eapply IH; eauto.
  - eapply IH; eauto.
  - eapply create_set_no_site; [exact Hts|exact Hsel|exact Ec].
  - discriminate.
Qed.

Lemma find_index_first {A} (f : A -> bool) (d : A) : forall l k, k < length l -> f (nth k l d) = true ->
  exists m, find_index f l = Some m /\ m <= k.
Proof.
  unfold find_index.
  assert (G : forall l i k, k < length l -> f (nth k l d) = true ->
              exists m, (fix go (l : list A) (i : nat) := match l with [] => None | x :: t => if f x then Some i else go t (S i) end) l i = Some m /\ m <= i + k).
  { induction l as [|x t IH]; intros i k Hk Hf; [simpl in Hk; lia|]. destruct (f x) eqn:Ex; [exists i; split; [reflexivity|lia]|].
    destruct k as [|k]; [simpl in Hf; congruence|]. simpl in Hk, Hf. destruct (IH (S i) k ltac:(lia) Hf) as (m & Hm & Hle). exists m. split; [exact Hm|lia]. }
  intros l k Hk Hf. destruct (G l 0 k Hk Hf) as (m & Hm & Hle). exists m. split; [exact Hm|lia].
Qed.

Lemma selections_nonempty n k idx : 1 <= k -> In idx (selections n k) -> idx <> [].
Proof.
  intros Hk Hin. destruct (Nat.le_gt_cases k n) as [Hkn|Hkn].
  - apply (selections_complete n k (conj Hk Hkn)) in Hin. destruct Hin as (Hl & _). intros ->. simpl in Hl. lia.
  - rewrite (selections_empty n k (or_intror Hkn)) in Hin. destruct Hin.
Qed.

Theorem room_sets_no_site rooms nd a s : length rooms = nc -> incl rooms R -> room_sets courses esize shrinkf rooms nd a <> Panic s.
Proof.
  intros Hlen Hincl. unfold room_sets. set (cs := sort_by (fun p : nat * nat => snd p) (course_sizes courses esize a)).
  assert (Hn : length cs = nc) by (unfold cs; rewrite sort_by_length; unfold course_sizes; rewrite map_length, seq_length; reflexivity).
  assert (Hcs : forall p, In p cs -> fst p < nc).
  { intros p Hp. apply sort_by_in in Hp. unfold course_sizes in Hp. apply in_map_iff in Hp. destruct Hp as (c & <- & Hc). apply in_seq in Hc. simpl. lia. }
  rewrite Hlen, Hn, Nat.min_id.
  destruct (find _ (seq 0 nc)) as [j|] eqn:Ef; [|discriminate].
  apply find_some in Ef. destruct Ef as [Hj Hconf]. apply in_seq in Hj.
  assert (Hpos : 0 < nc) by lia.
  set (i := nc - 1 - j) in *. assert (Hi : i < nc) by (unfold i; lia).
  replace (nc - 1 - i) with j by (unfold i; lia).
  set (room_size := nth j rooms 0) in *.
  assert (Hrs : In room_size R) by (apply Hincl; apply nth_In; lia).
  destruct (find_index_first (fun p : nat * nat => room_size <? snd p) (0, 0) cs i ltac:(lia) Hconf) as (smallest & Hsm & Hle).
  rewrite Hsm. destruct (i <? smallest) eqn:E7; [apply Nat.ltb_lt in E7; lia|].
  destruct (if i - smallest + 1 <? MIN_K_nat then if i + 1 <? MIN_K_nat then (0, i + 1) else (i + 1 - MIN_K_nat, MIN_K_nat) else (smallest, i - smallest + 1)) as [lower k] eqn:Elk.
  assert (Hk : 1 <= k).
  { destruct (i - smallest + 1 <? MIN_K_nat); [destruct (i + 1 <? MIN_K_nat)|]; inversion Elk; subst; try lia. unfold MIN_K_nat. lia. }
  match goal with |- context [create_set ?cc ?ee ?sf ?nn ?cl ?ts false [] []] =>
    assert (Hcl : Forall (fun c0 => c0 < nc) cl);
    [apply Forall_forall; intros c0 Hc0; apply in_map_iff in Hc0; destruct Hc0 as (p0 & <- & Hp0); apply filter_In in Hp0; apply Hcs; apply Hp0|];
    destruct (create_set cc ee sf nn cl ts false [] []) as [[always|]| |] eqn:Eal end.
  - match goal with |- context [build_sets ?cc ?ee ?sf ?nn ?sels ?ts ?al []] => destruct (build_sets cc ee sf nn sels ts al []) as [sets| |] eqn:Eb end; try discriminate.
    exfalso. eapply build_sets_no_site; [exact Hrs| |exact Eb].
    apply Forall_forall. intros sel Hsel. apply in_map_iff in Hsel. destruct Hsel as (idx & <- & Hidx). split.
    + apply Forall_forall. intros c0 Hc0. apply in_map_iff in Hc0. destruct Hc0 as (ix & <- & _).
      match goal with |- fst (nth ix ?range (0, 0)) < nc => destruct (Nat.lt_ge_cases ix (length range)) as [Hl|Hl];
        [apply Hcs; assert (Hin : In (nth ix range (0, 0)) range) by (apply nth_In; exact Hl); apply firstn_In in Hin; eapply skipn_In; eauto
        |rewrite nth_overflow by exact Hl; simpl; exact Hpos] end.
    + rewrite selections_fast_eq in Hidx. pose proof (selections_nonempty _ _ idx Hk Hidx) as Hne. destruct idx; [congruence|discriminate].
  - exfalso. eapply create_set_false_some; exact Eal.
  - exfalso. eapply create_set_no_site; [exact Hrs|exact Hcl|exact Eal].
  - discriminate.
Qed.
End RS2.

Section RS2.
Variables (courses : list course) (parts : list participant).
Variable esize : nat -> nat -> nat.
Variable shrinkf : nat -> nat -> nat.

Theorem room_gate_no_site rooms nd a s : FloatSane courses esize shrinkf rooms -> room_gate courses esize shrinkf rooms nd a <> Panic s.
Proof.
  unfold room_gate. destruct rooms as [rs|]; [|discriminate]. intros FS.
  destruct (room_sets courses esize shrinkf (prep_rooms courses rs) nd a) as [[sets|]| |] eqn:E; try discriminate.
  intros H. inversion H; subst. eapply (room_sets_no_site courses esize shrinkf (prep_rooms courses rs) FS); [apply prep_rooms_length|apply incl_refl|exact E].
Qed.
Theorem room_gate_no_overflow rooms nd a : room_gate courses esize shrinkf rooms nd a <> HOverflow.
Proof.
  unfold room_gate. destruct rooms as [rs|]; [|discriminate]. unfold room_sets.
  destruct (find _ _); [|discriminate]. destruct (find_index _ _); [|discriminate]. destruct (_ <? _); [discriminate|].
  destruct (if _ <? MIN_K_nat then _ else _) as [lower k].
  match goal with |- context [create_set ?cc ?ee ?sf ?nn ?cl ?ts false [] []] => destruct (create_set cc ee sf nn cl ts false [] []) as [[always|]| |] eqn:Eal end; try discriminate.
  - match goal with |- context [build_sets ?cc ?ee ?sf ?nn ?sels ?ts ?al []] => destruct (build_sets cc ee sf nn sels ts al []) as [sets| |] eqn:Eb end; try discriminate.
    exfalso. eapply build_sets_noov; exact Eb.
  - exfalso. eapply create_set_noov; exact Eal.
Qed.
End RS2.
