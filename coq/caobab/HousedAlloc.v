(* C06: the rank-wise criterion Housed (descending sizes fit descending rooms) yields a concrete allocation: pairwise distinct rooms
   of the given list, each large enough for its course (courses of effective size 0 need none). *)
From Coq Require Import List Arith Lia Bool Permutation FinFun.
Require Import HP5 RoomThms.
Import ListNotations.
Open Scope nat_scope.

Lemma perm_index_maps (l : list nat) : exists g h : nat -> nat,
  (forall c, c < length l -> g c < length l /\ nth (g c) (desc l) 0 = nth c l 0) /\
  (forall r, r < length l -> h r < length l /\ nth (h r) l 0 = nth r (desc l) 0) /\
  (forall c, c < length l -> h (g c) = c) /\ (forall r, r < length l -> g (h r) = r).
Proof.
  pose proof (proj1 (Permutation_nth l (desc l) 0) (Permutation_sym (desc_perm l))) as (Hlen & f & Hb & Hi & Hn).
  cbv zeta in *. destruct (@bSurjective_bBijective (length l) f Hb (proj1 (@bInjective_bSurjective (length l) f Hb) Hi)) as (g & Hgb & Hgf).
  exists g, f. split; [|split; [|split]].
  - intros c Hc. split; [apply Hgb; exact Hc|]. rewrite (Hn (g c) (Hgb c Hc)). destruct (Hgf c Hc) as [_ E]. rewrite E. reflexivity.
  - intros r Hr. split; [apply Hb; exact Hr|]. symmetry. apply Hn. exact Hr.
  - intros c Hc. apply (Hgf c Hc).
  - intros r Hr. apply (Hgf r Hr).
Qed.

Theorem housed_allocation sizes rooms : Housed sizes rooms ->
  exists alloc : nat -> nat,
    (forall c, c < length sizes -> 0 < nth c sizes 0 -> alloc c < length rooms /\ nth c sizes 0 <= nth (alloc c) rooms 0) /\
    (forall c c', c < length sizes -> c' < length sizes -> 0 < nth c sizes 0 -> 0 < nth c' sizes 0 -> alloc c = alloc c' -> c = c').
Proof.
  intros H. destruct (perm_index_maps sizes) as (g & h & Hg & _ & Hhg & _). destruct (perm_index_maps rooms) as (g' & h' & _ & Hh' & _ & Hgh').
  assert (Hrank : forall c, c < length sizes -> 0 < nth c sizes 0 -> g c < length rooms).
  { intros c Hc Hp. destruct (Hg c Hc) as [Hgc E]. specialize (H (g c) Hgc). rewrite E in H.
    destruct (Nat.lt_ge_cases (g c) (length rooms)) as [Hl|Hl]; [exact Hl|]. rewrite (nth_overflow (desc rooms)) in H by (rewrite desc_length; exact Hl). lia. }
  exists (fun c => h' (g c)). split.
  - intros c Hc Hp. pose proof (Hrank c Hc Hp) as Hr. destruct (Hh' (g c) Hr) as [Hb E]. split; [exact Hb|]. rewrite E.
    destruct (Hg c Hc) as [Hgc E']. rewrite <- E'. apply H. exact Hgc.
  - intros c c' Hc Hc' Hp Hp' E. assert (g c = g c').
    { rewrite <- (Hgh' (g c) (Hrank c Hc Hp)), <- (Hgh' (g c') (Hrank c' Hc' Hp')). f_equal. exact E. }
    rewrite <- (Hhg c Hc), <- (Hhg c' Hc'), H0. reflexivity.
Qed.

(* ---------------------------------------------------------------- the converse: any such allocation implies Housed *)
Lemma filter_length_perm {A} (f : A -> bool) l l' : Permutation l l' -> length (filter f l) = length (filter f l').
Proof.
  induction 1; simpl; try lia.
  - destruct (f x); simpl; lia.
  - destruct (f x), (f y); simpl; lia.
Qed.
Lemma filter_map_comm' {A B} (g : A -> B) (f : B -> bool) : forall l, filter f (map g l) = map g (filter (fun a => f (g a)) l).
Proof. induction l as [|a t IH]; simpl; [reflexivity|]. destruct (f (g a)); simpl; rewrite IH; reflexivity. Qed.
Lemma filter_length_index (f : nat -> bool) : forall l, length (filter f l) = length (filter (fun j => f (nth j l 0)) (seq 0 (length l))).
Proof.
  induction l as [|x t IH]; [reflexivity|]. cbn [length seq]. rewrite <- seq_shift. cbn [filter nth]. rewrite filter_map_comm'.
  destruct (f x); cbn [length]; rewrite map_length, IH; reflexivity.
Qed.
(* k distinct positions whose entries satisfy f: at least k entries satisfy f *)
Lemma count_ge_of_indices (f : nat -> bool) l J : NoDup J -> (forall j, In j J -> j < length l /\ f (nth j l 0) = true) -> length J <= length (filter f l).
Proof.
  intros Hn HJ. rewrite filter_length_index. apply NoDup_incl_length; [exact Hn|]. intros j Hj. destruct (HJ j Hj) as [H1 H2].
  apply filter_In. split; [apply in_seq; lia|exact H2].
Qed.
(* in a descending list, if the entry at rank i fails a monotone test, at most i entries pass it *)
Lemma count_le_sorted (v : nat) l i : (forall a b, a <= b -> b < length l -> nth b l 0 <= nth a l 0) -> nth i l 0 < v ->
  length (filter (fun x => v <=? x) l) <= i.
Proof.
  intros Hs Hi. rewrite filter_length_index.
  assert (Hincl : incl (filter (fun j => v <=? nth j l 0) (seq 0 (length l))) (seq 0 i)).
  { intros j Hj. apply filter_In in Hj. destruct Hj as [Hj Hf]. apply in_seq in Hj. apply Nat.leb_le in Hf. apply in_seq.
    destruct (Nat.lt_ge_cases j i) as [Hl|Hl]; [lia|]. pose proof (Hs i j Hl ltac:(lia)). lia. }
  pose proof (NoDup_incl_length (NoDup_filter _ (seq_NoDup (length l) 0)) Hincl) as H. rewrite seq_length in H. exact H.
Qed.

Theorem allocation_housed sizes rooms (alloc : nat -> nat) :
  (forall c, c < length sizes -> 0 < nth c sizes 0 -> alloc c < length rooms /\ nth c sizes 0 <= nth (alloc c) rooms 0) ->
  (forall c c', c < length sizes -> c' < length sizes -> 0 < nth c sizes 0 -> 0 < nth c' sizes 0 -> alloc c = alloc c' -> c = c') ->
  Housed sizes rooms.
Proof.
  intros Hfit Hinj i Hi. set (v := nth i (desc sizes) 0).
  destruct (Nat.eq_dec v 0) as [E|Hv]; [lia|].
  destruct (Nat.lt_ge_cases (nth i (desc rooms) 0) v) as [Hlt|Hge]; [|exact Hge]. exfalso.
  (* the i+1 largest courses have size >= v > 0 and pairwise distinct, sufficiently large rooms *)
  destruct (perm_index_maps sizes) as (g & h & _ & Hh & _ & Hgh).
  set (J := map (fun r => alloc (h r)) (seq 0 (S i))).
  assert (Hrank : forall r, r <= i -> h r < length sizes /\ v <= nth (h r) sizes 0).
  { intros r Hr. destruct (Hh r ltac:(lia)) as [H1 H2]. split; [exact H1|]. rewrite H2. unfold v.
    apply (desc_sorted sizes r i Hr Hi). }
  assert (HJ : NoDup J).
  { unfold J. apply NoDup_map_inj_in; [apply seq_NoDup|]. intros r r' Hr Hr' E. apply in_seq in Hr, Hr'.
    destruct (Hrank r ltac:(lia)) as [H1 H2]. destruct (Hrank r' ltac:(lia)) as [H1' H2'].
    assert (h r = h r') by (apply Hinj; try assumption; lia).
    rewrite <- (Hgh r ltac:(lia)), <- (Hgh r' ltac:(lia)), H. reflexivity. }
  assert (Hcount : S i <= length (filter (fun x => v <=? x) rooms)).
  { replace (S i) with (length J) by (unfold J; rewrite map_length, seq_length; reflexivity).
    apply count_ge_of_indices; [exact HJ|]. intros j Hj. unfold J in Hj. apply in_map_iff in Hj. destruct Hj as (r & <- & Hr). apply in_seq in Hr.
    destruct (Hrank r ltac:(lia)) as [H1 H2]. destruct (Hfit (h r) H1 ltac:(lia)) as [H3 H4]. split; [exact H3|apply Nat.leb_le; lia]. }
  rewrite (filter_length_perm _ _ _ (Permutation_sym (desc_perm rooms))) in Hcount.
  pose proof (count_le_sorted v (desc rooms) i (fun a b Hab Hb => desc_sorted rooms a b Hab ltac:(rewrite desc_length in Hb; exact Hb)) Hlt). lia.
Qed.

(* Housed is exactly "the courses can be given pairwise distinct, sufficiently large rooms" *)
Theorem housed_iff_allocation sizes rooms : Housed sizes rooms <->
  exists alloc : nat -> nat,
    (forall c, c < length sizes -> 0 < nth c sizes 0 -> alloc c < length rooms /\ nth c sizes 0 <= nth (alloc c) rooms 0) /\
    (forall c c', c < length sizes -> c' < length sizes -> 0 < nth c sizes 0 -> 0 < nth c' sizes 0 -> alloc c = alloc c' -> c = c').
Proof. split; [apply housed_allocation|intros (alloc & H1 & H2); apply (allocation_housed sizes rooms alloc H1 H2)]. Qed.
