(* C06: the rank-wise criterion Housed (descending sizes fit descending rooms) yields a concrete allocation: pairwise distinct rooms
   of the given list, each large enough for its course (courses of effective size 0 need none). *)
From Coq Require Import List Arith Lia Bool Permutation FinFun.
Require Import RoomThms.
Import ListNotations.
Open Scope nat_scope.

Lemma perm_index_maps (l : list nat) : exists g h : nat -> nat,
  (forall c, c < length l -> g c < length l /\ nth (g c) (desc l) 0 = nth c l 0) /\
  (forall r, r < length l -> h r < length l /\ nth (h r) l 0 = nth r (desc l) 0) /\
  (forall c, c < length l -> h (g c) = c) /\ (forall r, r < length l -> g (h r) = r).
Proof.
  pose proof (proj1 (Permutation_nth l (desc l) 0) (Permutation_sym (desc_perm l))) as (Hlen & f & Hb & Hi & Hn).
  cbv zeta in *. destruct (@bSurjective_bBijective (length l) f Hb (proj1 (@bInjective_bSurjective (length l) f Hb) Hi)) as (g & Hgb & Hgf).
  exists g, f. split; [|split; [|split]].
  - intros c Hc. split; [apply Hgb; exact Hc|]. rewrite (Hn (g c) (Hgb c Hc)). destruct (Hgf c Hc) as [_ E]. rewrite E. reflexivity.
  - intros r Hr. split; [apply Hb; exact Hr|]. symmetry. apply Hn. exact Hr.
  - intros c Hc. apply (Hgf c Hc).
  - intros r Hr. apply (Hgf r Hr).
Qed.

Theorem housed_allocation sizes rooms : Housed sizes rooms ->
  exists alloc : nat -> nat,
    (forall c, c < length sizes -> 0 < nth c sizes 0 -> alloc c < length rooms /\ nth c sizes 0 <= nth (alloc c) rooms 0) /\
    (forall c c', c < length sizes -> c' < length sizes -> 0 < nth c sizes 0 -> 0 < nth c' sizes 0 -> alloc c = alloc c' -> c = c').
Proof.
  intros H. destruct (perm_index_maps sizes) as (g & h & Hg & _ & Hhg & _). destruct (perm_index_maps rooms) as (g' & h' & _ & Hh' & _ & Hgh').
  assert (Hrank : forall c, c < length sizes -> 0 < nth c sizes 0 -> g c < length rooms).
  { intros c Hc Hp. destruct (Hg c Hc) as [Hgc E]. specialize (H (g c) Hgc). rewrite E in H.
    destruct (Nat.lt_ge_cases (g c) (length rooms)) as [Hl|Hl]; [exact Hl|]. rewrite (nth_overflow (desc rooms)) in H by (rewrite desc_length; exact Hl). lia. }
  exists (fun c => h' (g c)). split.
  - intros c Hc Hp. pose proof (Hrank c Hc Hp) as Hr. destruct (Hh' (g c) Hr) as [Hb E]. split; [exact Hb|]. rewrite E.
    destruct (Hg c Hc) as [Hgc E']. rewrite <- E'. apply H. exact Hgc.
  - intros c c' Hc Hc' Hp Hp' E. assert (g c = g c').
    { rewrite <- (Hgh' (g c) (Hrank c Hc Hp)), <- (Hgh' (g c') (Hrank c' Hc' Hp')). f_equal. exact E. }
    rewrite <- (Hhg c Hc), <- (Hhg c' Hc'), H0. reflexivity.
Qed.
