(* caobab::solve = the generic engine (EngP2) run on the complete node function.  Every best solution the engine ever holds,
   for every number of workers and every interleaving, is the Feasible output of a solved node. *)
From Coq Require Import List ZArith Lia Bool Arith.
Require Import HP1 Cao1 Cao3 Score1 Rooms Spec Node Valid RoomThms NodeThms NodeWf.
Require EngP2.
Import ListNotations.
Open Scope nat_scope.

Definition to_eng (r : out nres) : EngP2.nres node assignment :=
  match r with
  | Val NoSolution => EngP2.NoSol _ _
  | Val (Infeasible cs s) => EngP2.Infeas _ _ cs s
  | Val (Feasible a s) => EngP2.Feas _ _ a s
  | _ => EngP2.PanicR _ _
  end.

Section S.
Variables (courses : list course) (parts : list participant).
Variable esize : nat -> nat -> nat.
Variable shrinkf : nat -> nat -> nat.
Variable rooms : option (list nat).
Variables (smin smax : Z).
Notation nc := (nc courses). Notation crs := (crs courses).
Definition f_full (nd : node) := to_eng (run_full courses parts esize shrinkf rooms nd).
Definition SReach (k : nat) (st : EngP2.state node assignment) : Prop := EngP2.Reach node assignment f_full root smin smax k st.

Lemma to_eng_feas r a s : to_eng r = EngP2.Feas _ _ a s -> r = Val (Feasible a s).
Proof. destruct r as [[| |]| |]; simpl; intros H; inversion H; reflexivity. Qed.

Theorem best_is_node_output k st a : SReach k st -> EngP2.best _ _ st = Some a ->
  exists nd, In nd (EngP2.solved _ _ st) /\ run_full courses parts esize shrinkf rooms nd = Val (Feasible a (EngP2.bscore _ _ st)).
Proof.
  intros R Hb. destruct (EngP2.reach_best _ _ _ _ _ _ _ _ R) as [B1 _]. destruct (B1 a Hb) as (nd & Hin & Hf).
  exists nd. split; [exact Hin|]. apply to_eng_feas. exact Hf.
Qed.

Lemma to_eng_inf r cs s : to_eng r = EngP2.Infeas _ _ cs s -> r = Val (Infeasible cs s).
Proof. destruct r as [[| |]| |]; simpl; intros H; inversion H; reflexivity. Qed.

(* every subproblem the search ever generates cancels only existing, non-fixed courses *)
Theorem solved_nofix k st nd : SReach k st -> In nd (EngP2.solved _ _ st) -> NoFix courses nd.
Proof.
  intros R Hin.
  destruct (EngP2.reach_gen node assignment f_full root smin smax (NoFix courses) (nofix_root courses)
             (fun n cs s c Pn Hf Hc => children_nofix courses parts esize shrinkf rooms n cs s Pn (to_eng_inf _ _ _ Hf) c Hc) k st R)
    as (_ & _ & _ & Hs).
  rewrite Forall_forall in Hs. apply Hs. exact Hin.
Qed.
End S.
