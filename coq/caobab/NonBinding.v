(* C17, first clause at node level: with a room list that cannot bind, the node function gives exactly the result it gives without
   a room list, for every subproblem; hence both searches are the same transition system. *)
From Coq Require Import List ZArith Lia Bool Arith Permutation.
Require Import Cert HP1 HP2 HP5 HP6 Hall Cao1 Cao2 Cao3 Cao4 Cao5 Cao6 Relax1 Relax3 Score1 Rooms Spec Valid Node RoomThms.
Import ListNotations.
Open Scope nat_scope.

Section NB.
Variables (courses : list course) (parts : list participant).
Variable esize : nat -> nat -> nat.
Variable shrinkf : nat -> nat -> nat.
Notation nc := (nc courses). Notation np := (np parts). Notation m_ := (m_ courses). Notation n_ := (n_ courses parts).
Notation crs := (crs courses). Notation course_map := (course_map courses). Notation base := (base courses).
Hypothesis V : Valid courses parts.

(* the relaxed assignment of a node never puts more people into a course than its effective maximum plus its instructors *)
Lemma people_bound nd sx sy mm :
  (forall y, y < m_ -> getB sy y = (eff_max courses nd (course_map y) <=? y - base (course_map y))) ->
  (forall y, y < m_ -> getB sy y = false -> getN mm y < n_ /\ getB sx (getN mm y) = false) ->
  (forall y y', y < m_ -> y' < m_ -> getB sy y = false -> getB sy y' = false -> getN mm y = getN mm y' -> y = y') ->
  forall c, c < nc -> people (add_instr courses nd (amatch courses parts sy mm)) c <= eff_max courses nd c + n_instr courses c.
Proof.
  intros Hsy V1 V2 c Hc. set (a := add_instr courses nd (amatch courses parts sy mm)).
  pose proof (a_len courses parts (valid_one _ _ V) nd sy mm V2) as Hlen. fold a in Hlen.
  assert (Ea : a = map (getO a) (seq 0 np)).
  { rewrite <- Hlen. clear. unfold getO. induction a as [|x t IH]; [reflexivity|]. simpl. f_equal. rewrite <- seq_shift, map_map. exact IH. }
  unfold people. rewrite Ea at 1. rewrite filter_map_comm, map_length.
  set (F := filter (fun p => match getO a p with Some c' => Nat.eqb c' c | None => false end) (seq 0 np)).
  set (Lc := filter (fun cp => negb (getB sy cp) && Nat.eqb (course_map cp) c) (seq 0 m_)).
  assert (Hincl : incl F (c_instr (crs c) ++ map (getN mm) Lc)).
  { intros p Hp. unfold F in Hp. apply filter_In in Hp. destruct Hp as [Hp Hf]. apply in_seq in Hp.
    destruct (getO a p) as [c'|] eqn:Eap; [|discriminate]. apply Nat.eqb_eq in Hf. subst c'.
    destruct (a_cases courses parts (valid_one _ _ V) nd sx sy mm V1 V2 p c ltac:(lia) Eap) as [(_ & _ & Hi)|(_ & cp & Hcp & Hs & Hm & Hcm)].
    - apply in_or_app. left. apply memb_true. exact Hi.
    - apply in_or_app. right. apply in_map_iff. exists cp. split; [exact Hm|]. unfold Lc. apply filter_In. split; [apply in_seq; lia|].
      rewrite Hs, Hcm, Nat.eqb_refl. reflexivity. }
  pose proof (NoDup_incl_length (NoDup_filter _ (seq_NoDup np 0)) Hincl) as L1. fold F in L1. rewrite app_length, map_length in L1.
  assert (H2 : incl Lc (seq (base c) (eff_max courses nd c))).
  { intros cp Hcp. unfold Lc in Hcp. apply filter_In in Hcp. destruct Hcp as [Hcp Hf]. apply in_seq in Hcp. apply andb_prop in Hf. destruct Hf as [Hs Hcm].
    apply negb_true_iff in Hs. apply Nat.eqb_eq in Hcm. destruct (cm_spec courses cp ltac:(lia)) as (_ & Hb1 & _).
    rewrite (Hsy cp ltac:(lia)), Hcm in Hs. apply Nat.leb_gt in Hs. rewrite Hcm in Hb1. apply in_seq. lia. }
  pose proof (NoDup_incl_length (NoDup_filter _ (seq_NoDup m_ 0)) H2) as L2. fold Lc in L2. rewrite seq_length in L2.
  unfold n_instr. lia.
Qed.

Theorem nonbinding_same_node rs nd : NonBinding courses esize rs ->
  run_full courses parts esize shrinkf (Some rs) nd = run_full courses parts esize shrinkf None nd.
Proof.
  intros NB. unfold run_full, Cao5.run, run_node.
  set (sx1 := skip_x1 courses parts nd). set (nsx := countB sx1). set (sy := skip_y courses nd). set (nsy := countB sy).
  destruct (np - nsx <? sumN _); [reflexivity|]. destruct (sumN _ <? np - nsx); [reflexivity|]. destruct (existsb _ (seq 0 np)); [reflexivity|].
  destruct ((n_ <? m_) || (n_ - m_ + nsy <? nsx)) eqn:G1; [reflexivity|].
  apply orb_false_iff in G1. destruct G1 as [G1a G1b]. apply Nat.ltb_ge in G1a, G1b.
  set (extra := n_ - m_ + nsy - nsx). destruct (n_ <? np + extra) eqn:G2; [reflexivity|]. apply Nat.ltb_ge in G2.
  set (sx := map (fun x => getB sx1 x || ((np <=? x) && (x <? np + extra))) (seq 0 n_)).
  set (my := mandatory_y courses nd).
  destruct (existsb (fun y => getB my y && getB sy y) (seq 0 m_)); [reflexivity|].
  assert (Hlsx1 : length sx1 = n_) by (unfold sx1, skip_x1; rewrite map_length, seq_length; reflexivity).
  assert (Hlsx : length sx = n_) by (unfold sx; rewrite map_length, seq_length; reflexivity).
  assert (Hlsy : length sy = m_) by (unfold sy, skip_y; rewrite map_length, seq_length; reflexivity).
  assert (Hsx1_np : forall x, getB sx1 x = true -> x < np).
  { intros x H. destruct (lt_dec x n_) as [Hx|Hx].
    - unfold sx1, skip_x1 in H. rewrite getB_map_seq' in H by exact Hx. apply andb_prop in H. destruct H as [H _]. apply Nat.ltb_lt in H. exact H.
    - unfold getB in H. rewrite nth_overflow in H by lia. discriminate. }
  assert (Hcnt : countB sx = nsx + extra).
  { unfold sx. rewrite countB_map. rewrite filter_or_disj.
    - fold (cntf (getB sx1) n_). fold (cntf (fun x => (np <=? x) && (x <? np + extra)) n_). rewrite cntf_interval by exact G2.
      unfold cntf. rewrite (count_filter sx1 n_ Hlsx1), cntT_countB. reflexivity.
    - intros x _ H. apply Hsx1_np in H. apply andb_false_iff. left. apply Nat.leb_gt. exact H. }
  assert (Hsq : length (rowsL sx n_) = length (colsL sy m_)).
  { rewrite (rows_len sx n_ Hlsx), (cols_len sy m_ Hlsy), Hcnt. pose proof (countB_le sy) as Hle. fold nsy in Hle. rewrite Hlsy in Hle. unfold extra. lia. }
  pose proof (hungarian_partial (adjacency courses parts) (dummy_x courses parts) my sx sy n_ m_ Hsq) as HP.
  destruct (hungarian (adjacency courses parts) (dummy_x courses parts) my sx sy n_ m_) as [[[[mm ms] lx] ly]| |]; try reflexivity.
  destruct HP as (Hpm & _).
  assert (Hgate : the_gate courses esize shrinkf (Some rs) nd (add_instr courses nd (amatch courses parts sy mm)) = Val None).
  { apply (nonbinding_gate courses esize shrinkf rs nd _ NB). intros c Hc.
    etransitivity; [apply (people_bound nd sx sy mm)|]; try exact Hc.
    - intros y Hy. unfold sy, skip_y. rewrite getB_map_seq' by exact Hy. reflexivity.
    - intros y Hy Hs. apply (V1 _ _ sx sy n_ m_ mm Hpm y Hy Hs).
    - intros y y' Hy Hy' Hs Hs' He. apply (V2 _ _ sx sy n_ m_ mm Hpm y y' Hy Hy' Hs Hs' He).
    - pose proof (eff_max_le courses nd c). lia. }
  rewrite Hgate. reflexivity.
Qed.
End NB.
