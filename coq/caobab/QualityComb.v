(* Model of solution_score.rs combined_quality (integer part) and its meaning (C08, last sentence): the overall quality lack is the
   mean penalty over ALL rated participants -- the optimised participants with choices (instructors of the course they are assigned to
   counting zero) and the rated ignored pre-assigned ones (their penalties, instructors zero).  CorrQual evaluates exactly
   comb_num / comb_den with binary32 division against the implementation's bits. *)
From Coq Require Import List ZArith Lia Bool Arith.
Require Import Cert HP1 Cao1 Cao3 Score1 Spec Valid Quality Consts.
Import ListNotations.
Open Scope Z_scope.

(* INSTRUCTOR_SCORE = WEIGHT_OFFSET as u32 (caobab.rs): an externally assigned instructor adds WEIGHT_OFFSET - INSTRUCTOR_SCORE = 0 *)
Definition INSTRUCTOR_SCORE : Z := WEIGHT_OFFSET.
Definition comb_num (n_real score ni : Z) (pens : list Z) : Z :=
  n_real * WEIGHT_OFFSET - score + ni * (WEIGHT_OFFSET - INSTRUCTOR_SCORE) + sumZ pens.
Definition comb_den (n_real ni : Z) (pens : list Z) : Z := n_real + Z.of_nat (length pens) + ni.

Section C.
Variables (courses : list course) (parts : list participant).
Notation np := (np parts). Notation instr_only := (instr_only parts).
Definition rated : list nat := filter (fun p => negb (instr_only p)) (seq 0 np).

(* numerator: the penalties of the optimised participants with choices plus the penalties of the rated ignored ones; an ignored
   instructor adds nothing *)
Theorem comb_num_sum a ni pens :
  comb_num (Z.of_nat (n_real parts)) (score_of courses parts a) ni pens =
  sumZ (map (penalty_of courses parts a) rated) + sumZ pens.
Proof.
  unfold comb_num, INSTRUCTOR_SCORE. pose proof (quality_num_sum courses parts a) as H. unfold quality_num in H. unfold rated.
  rewrite <- H. lia.
Qed.
(* denominator: the number of all rated people *)
Theorem comb_den_count ni pens :
  comb_den (Z.of_nat (n_real parts)) ni pens = Z.of_nat (length rated) + Z.of_nat (length pens) + ni.
Proof. reflexivity. Qed.

(* without ignored participants the overall figure is the solution quality itself *)
Theorem comb_none a :
  comb_num (Z.of_nat (n_real parts)) (score_of courses parts a) 0 [] = quality_num parts (score_of courses parts a) /\
  comb_den (Z.of_nat (n_real parts)) 0 [] = Z.of_nat (n_real parts).
Proof. unfold comb_num, comb_den, quality_num, INSTRUCTOR_SCORE. cbn [sumZ fold_right length]. split; lia. Qed.

(* every penalty counted for an optimised participant lies in [0, WEIGHT_OFFSET], so the numerator is non-negative (the `as usize`
   subtraction of the implementation cannot wrap) when the external penalties are non-negative *)
Lemma sumZ_nonneg l : (forall z, In z l -> 0 <= z) -> 0 <= sumZ l.
Proof. induction l as [|x t IH]; intros H; cbn [sumZ fold_right]; [lia|]. pose proof (H x (or_introl eq_refl)). assert (0 <= sumZ t) by (apply IH; intros; apply H; right; assumption). unfold sumZ in *. lia. Qed.
End C.
