(* Model of solution_score.rs combined_quality (integer part) and its meaning (C08, last sentence): the overall quality lack is the
   mean penalty over ALL rated participants -- the optimised participants with choices (instructors of the course they are assigned to
   counting zero) and the rated ignored pre-assigned ones (their penalties, instructors zero).  CorrQual evaluates exactly
   comb_num / comb_den with binary32 division against the implementation's bits. *)
From Coq Require Import List ZArith Lia Bool Arith.
Require Import Cert HP1 Cao1 Cao3 Score1 Spec Valid Quality Consts.
Import ListNotations.
Open Scope Z_scope.

(* INSTRUCTOR_SCORE = WEIGHT_OFFSET as u32 (caobab.rs; Consts.INSTRUCTOR_SCORE is generated from that line): an externally assigned
   instructor adds WEIGHT_OFFSET - INSTRUCTOR_SCORE = 0 *)
Definition comb_num (n_real score ni : Z) (pens : list Z) : Z :=
  n_real * WEIGHT_OFFSET - score + ni * (WEIGHT_OFFSET - INSTRUCTOR_SCORE) + sumZ pens.
Definition comb_den (n_real ni : Z) (pens : list Z) : Z := n_real + Z.of_nat (length pens) + ni.

Section C.
Variables (courses : list course) (parts : list participant).
Notation np := (np parts). Notation instr_only := (instr_only parts).
Definition rated : list nat := filter (fun p => negb (instr_only p)) (seq 0 np).

(* numerator: the penalties of the optimised participants with choices plus the penalties of the rated ignored ones; an ignored
   instructor adds nothing *)
Theorem comb_num_sum a ni pens :
  comb_num (Z.of_nat (n_real parts)) (score_of courses parts a) ni pens =
  sumZ (map (penalty_of courses parts a) rated) + sumZ pens.
Proof.
  unfold comb_num, INSTRUCTOR_SCORE. rewrite Z.sub_diag, Z.mul_0_r. pose proof (quality_num_sum courses parts a) as H. unfold quality_num in H. unfold rated.
  rewrite <- H. lia.
Qed.
(* denominator: the number of all rated people *)
Theorem comb_den_count ni pens :
  comb_den (Z.of_nat (n_real parts)) ni pens = Z.of_nat (length rated) + Z.of_nat (length pens) + ni.
Proof. reflexivity. Qed.

(* without ignored participants the overall figure is the solution quality itself *)
Theorem comb_none a :
  comb_num (Z.of_nat (n_real parts)) (score_of courses parts a) 0 [] = quality_num parts (score_of courses parts a) /\
  comb_den (Z.of_nat (n_real parts)) 0 [] = Z.of_nat (n_real parts).
Proof. unfold comb_num, comb_den, quality_num, INSTRUCTOR_SCORE. rewrite Z.sub_diag. cbn [sumZ fold_right length]. split; lia. Qed.

(* every penalty counted for an optimised participant lies in [0, WEIGHT_OFFSET], so the numerator is non-negative (the `as usize`
   subtraction of the implementation cannot wrap) when the external penalties are non-negative *)
Lemma sumZ_nonneg l : (forall z, In z l -> 0 <= z) -> 0 <= sumZ l.
Proof. induction l as [|x t IH]; intros H; cbn [sumZ fold_right]; [lia|]. pose proof (H x (or_introl eq_refl)). assert (0 <= sumZ t) by (apply IH; intros; apply H; right; assumption). unfold sumZ in *. lia. Qed.

(* every rated participant's penalty is between 0 and WEIGHT_OFFSET, so the numerators are non-negative: the subtraction
   `n * WEIGHT_OFFSET as usize - score as usize` of solution_quality / combined_quality cannot wrap *)
Lemma contribution_le a p : Valid courses parts -> (0 <= contribution courses parts a p <= WEIGHT_OFFSET)%Z.
Proof.
  intros V. unfold contribution. destruct (instr_only p); [unfold WEIGHT_OFFSET; lia|].
  destruct (getO a p) as [c|]; [|unfold WEIGHT_OFFSET; lia]. destruct (instructs courses p c); [unfold WEIGHT_OFFSET; lia|].
  destruct (cw_cases parts p c) as [->|(ch & Hin & ->)]; [unfold WEIGHT_OFFSET; lia|].
  destruct (v_choice _ _ V p ch Hin) as [_ [H0 H1]]. pose proof (v_pen _ _ V) as Hp. destruct (v_real _ _ V) as (q & Hq & _).
  assert (1 <= Z.of_nat np) by lia. nia.
Qed.
Theorem quality_num_nonneg a : Valid courses parts -> 0 <= quality_num parts (score_of courses parts a).
Proof.
  intros V. rewrite quality_num_sum. apply sumZ_nonneg. intros z Hz. apply in_map_iff in Hz. destruct Hz as (p & <- & _).
  unfold penalty_of. pose proof (contribution_le a p V). lia.
Qed.
Theorem comb_num_nonneg a ni pens : Valid courses parts -> (forall z, In z pens -> 0 <= z) ->
  0 <= comb_num (Z.of_nat (n_real parts)) (score_of courses parts a) ni pens.
Proof.
  intros V Hp. rewrite comb_num_sum. pose proof (quality_num_nonneg a V) as H. rewrite quality_num_sum in H.
  pose proof (sumZ_nonneg pens Hp). unfold rated. lia.
Qed.
End C.
