(* Outside class TC the whole subproblem tree of caobab::solve -- with or without a room list -- is bound consistent: the score of
   an inner node is at least the score of every feasible node below it.  Hence (C09, C03) verdict and score are the same for every
   worker count and interleaving, and the reported solution is the best leaf of the tree. *)
From Coq Require Import List ZArith Lia Bool Arith Permutation.
Require Import Cert HP1 HP2 HP5 HP6 Hall Cao1 Cao2 Cao3 Cao4 Cao5 Cao6 RunCases Cov6 Rooms Spec Valid Node NoPanic RoomThms NodeWf RoomSites WfPres
               Mono1 Mono2 Solve.
Require Import EngP2 Tree.
Import ListNotations.
Open Scope nat_scope.

Section M3.
Variables (courses : list course) (parts : list participant).
Variable esize : nat -> nat -> nat.
Variable shrinkf : nat -> nat -> nat.
Variable rooms : option (list nat).
Notation nc := (nc courses). Notation np := (np parts). Notation crs := (crs courses).
Hypothesis V : Valid courses parts.
Hypothesis FS : FloatSane courses esize shrinkf rooms.
Hypothesis NoTC : in_tc courses parts = false.
Notation full := (run_full courses parts esize shrinkf rooms).
Notation f := (f_full courses parts esize shrinkf rooms).
Notation Below := (Below node assignment f).

Lemma children_restrict nd cs s c : full nd = Val (Infeasible cs s) -> In c cs -> Restricts nd c.
Proof.
  intros H Hc. destruct (run_node_cases courses parts _ _ nd _ H) as [Hn|NR]; [discriminate|].
  destruct NR as [sx sy mm ms _ _ _ _ _ _ _ _ _ Hres]. cbn zeta in Hres.
  set (a' := add_instr courses nd (amatch courses parts sy mm)) in *.
  destruct (the_gate courses esize shrinkf rooms nd a') as [[bs|]| |] eqn:Eg; try contradiction.
  - inversion Hres; subst bs. clear Hres. unfold the_gate, room_gate in Eg. destruct rooms as [rs|]; [|discriminate].
    destruct (room_sets courses esize shrinkf (prep_rooms courses rs) nd a') as [[sets|]| |]; try discriminate.
    inversion Eg; subst cs. apply in_map_iff in Hc. destruct Hc as (set & <- & _). unfold child_of. repeat split; simpl.
    + apply incl_appl, incl_refl.
    + apply incl_refl.
    + exists (fst set). reflexivity.
  - destruct (_ || _); [|discriminate]. inversion Hres; subst cs. clear Hres.
    unfold the_pick, pick_real in Hc. destruct (existsb (wrong_course parts sx a') (seq 0 np)).
    + unfold pick_wrong in Hc. destruct (find _ (seq 0 np)) as [p|]; [|destruct Hc].
      match type of Hc with In _ (match ?L with _ => _ end) => destruct L as [|rc t] end; [destruct Hc|].
      destruct (c_fixed (crs rc)); [destruct Hc|]. destruct Hc as [<-|[]]. repeat split; simpl;
        [apply incl_appl, incl_refl|apply incl_refl|exists []; rewrite app_nil_r; reflexivity].
    + destruct (branch_course courses parts nd sx a') as [bc|]; [|destruct Hc].
      unfold children_min in Hc. destruct Hc as [<-|Hc].
      * repeat split; simpl; [apply incl_refl|apply incl_appl, incl_refl|exists []; rewrite app_nil_r; reflexivity].
      * destruct (c_fixed (crs bc)); [destruct Hc|]. destruct Hc as [<-|[]]. repeat split; simpl;
          [apply incl_appl, incl_refl|apply incl_refl|exists []; rewrite app_nil_r; reflexivity].
Qed.

Lemma below_wf2 a b : Wf2 courses a -> Below a b -> Wf2 courses b.
Proof.
  intros Ha Hb. induction Hb as [n|n cs s c m Hf Hc Hb IH]; [exact Ha|]. apply IH.
  apply (children_wf2 courses parts esize shrinkf rooms V FS n cs s Ha (to_eng_inf _ _ _ Hf) c Hc).
Qed.

Lemma child_score_le n cs s c r' s' : Wf2 courses n -> full n = Val (Infeasible cs s) -> In c cs -> full c = Val r' ->
  (r' = Feasible (match r' with Feasible a _ => a | _ => [] end) s' \/ r' = Infeasible (match r' with Infeasible cs0 _ => cs0 | _ => [] end) s') ->
  (s' <= s)%Z.
Proof.
  intros Hwf Hn Hc Hr' Hs'.
  pose proof (children_wf2 courses parts esize shrinkf rooms V FS n cs s Hwf Hn c Hc) as Hwfc.
  apply (node_score_mono courses parts V (in_tc_false courses parts NoTC) _ _ n c (children_restrict n cs s c Hn Hc) (wf2_wf courses c Hwfc)
           (Infeasible cs s) r' s s' Hn Hr'); [right; reflexivity|exact Hs'].
Qed.

Theorem tree_bound_consistent : bound_consistent node assignment f root.
Proof.
  intros n cs s m x s' Hn Hf Hm Hx. pose proof (below_wf2 root n (wf2_root courses) Hn) as Hwf. clear Hn.
  revert cs s Hf Hwf. induction Hm as [n|n cs0 s0 c m Hf0 Hc Hb IH]; intros cs s Hf Hwf.
  - rewrite Hf in Hx. discriminate.
  - rewrite Hf in Hf0. inversion Hf0; subst cs0 s0. clear Hf0.
    pose proof (to_eng_inf _ _ _ Hf) as Hfull.
    pose proof (children_wf2 courses parts esize shrinkf rooms V FS n cs s Hwf Hfull c Hc) as Hwfc.
    inversion Hb as [|? cs1 s1 c1 ? Hf1 Hc1 Hb1]; subst.
    + (* c itself is the feasible node *)
      pose proof (to_eng_feas _ _ _ Hx) as Hfc. apply (child_score_le n cs s m (Feasible x s') s' Hwf Hfull Hc Hfc). left. reflexivity.
    + (* c is an inner node *)
      pose proof (to_eng_inf _ _ _ Hf1) as Hfc.
      assert (H1 : (s1 <= s)%Z) by (apply (child_score_le n cs s c (Infeasible cs1 s1) s1 Hwf Hfull Hc Hfc); right; reflexivity).
      specialize (IH Hx cs1 s1 Hf1 Hwfc). lia.
Qed.
End M3.
