(* Panic site 11 of the room stage: `Vec::with_capacity(binom(upper_bound - lower_bound, k))` in check_room_feasibility (caobab.rs).
   Before fix f71c4f2 binom overflowed for 63 and more courses that all have to shrink to one room size (defect D15).  Here: the range of
   the k-selections exactly as Rooms.room_sets computes it, its shape (at most MAX_N courses, or exactly the k courses that all have to
   shrink), and hence: binom never overflows there and the requested capacity is at most C(17, 8) = 24310 elements. *)
From Coq Require Import List ZArith NArith Lia Bool Arith.
Require Import HP1 Cao1 SelModel SelProofs Consts Rooms RoomThms.
Import ListNotations.
Open Scope nat_scope.

Section P.
Variable courses : list course.
Variable esize : nat -> nat -> nat.
Variable shrinkf : nat -> nat -> nat.
Notation course_sizes := (course_sizes courses esize).
Notation room_sets := (room_sets courses esize shrinkf).

(* (lower bound, upper bound, k) -- the let-bindings of room_sets, word for word; None = no conflict, or one of the two earlier exits *)
Definition room_window (rooms : list nat) (a : assignment) : option (nat * nat * nat) :=
  let cs := sort_by (fun p : nat * nat => snd p) (course_sizes a) in
  let n := length cs in
  match find (fun j => nth j rooms 0 <? snd (nth (n - 1 - j) cs (0, 0))) (seq 0 (Nat.min n (length rooms))) with
  | None => None
  | Some j =>
    let i := n - 1 - j in
    let room_size := nth (length rooms - 1 - i) rooms 0 in
    match find_index (fun p : nat * nat => room_size <? snd p) cs with
    | None => None
    | Some smallest =>
      if i <? smallest then None else
      let k0 := i - smallest + 1 in
      let '(lower, k) := if k0 <? MIN_K_nat
                         then (if i + 1 <? MIN_K_nat then (0, i + 1) else (i + 1 - MIN_K_nat, MIN_K_nat))
                         else (smallest, k0) in
      let upper0 := i + 1 in
      let upper := if upper0 - lower <? MAX_N_nat
                   then Nat.min (Nat.min (i + MAX_NTOK_nat) (lower + MAX_N_nat)) n else upper0 in
      Some (lower, upper, k)
    end
  end.

(* the capacity the code requests: None = no pre-allocation on this path; Some None = binom overflows (arithmetic overflow panic) *)
Definition prealloc_capacity (rooms : list nat) (a : assignment) : option (option N) :=
  match room_window rooms a with
  | Some (lower, upper, k) => Some (binom64 (N.of_nat (upper - lower)) (N.of_nat k))
  | None => None
  end.

(* whenever the room stage produces constraint sets, it went through that window *)
Lemma room_sets_window rooms nd a sets : room_sets rooms nd a = Val (Some sets) -> exists w, room_window rooms a = Some w.
Proof.
  unfold Rooms.room_sets, room_window.
  destruct (find _ _) as [j|]; [|discriminate].
  destruct (find_index _ _) as [smallest|]; [|discriminate].
  destruct (_ <? smallest); [discriminate|].
  destruct (if _ <? MIN_K_nat then _ else _) as [lower k]. intros _. eexists. reflexivity.
Qed.

Theorem window_shape rooms a lower upper k : room_window rooms a = Some (lower, upper, k) ->
  upper - lower <= MAX_N_nat \/ (upper - lower = k /\ k <= nc courses).
Proof.
  unfold room_window.
  assert (Hn : length (sort_by (fun p : nat * nat => snd p) (course_sizes a)) = nc courses)
    by (rewrite sort_by_length; unfold Rooms.course_sizes; rewrite map_length, seq_length; reflexivity).
  rewrite Hn.
  destruct (find _ _) as [j|]; [|discriminate].
  destruct (find_index _ _) as [smallest|]; [|discriminate].
  destruct (_ <? smallest) eqn:Es; [discriminate|]. apply Nat.ltb_ge in Es.
  set (i := nc courses - 1 - j) in *. unfold MIN_K_nat, MAX_N_nat, MAX_NTOK_nat.
  destruct (Nat.ltb_spec (i - smallest + 1) 5) as [Ek|Ek].
  - destruct (Nat.ltb_spec (i + 1) 5) as [E1|E1]; intros H; inversion H; subst lower upper k; clear H; left;
      match goal with |- context [if ?x <? ?y then _ else _] => destruct (Nat.ltb_spec x y) as [E2|E2] end; lia.
  - intros H; inversion H; subst lower upper k; clear H.
    match goal with |- context [if ?x <? ?y then _ else _] => destruct (Nat.ltb_spec x y) as [E2|E2] end; [left|right]; lia.
Qed.

Lemma C_17_bound : forall n k, n <= 17 -> (N.of_nat (C n k) <= 24310)%N.
Proof.
  intros n k Hn. destruct (Nat.le_gt_cases k n) as [Hk|Hk]; [|rewrite C_lt by lia; lia].
  assert (H : forallb (fun n => forallb (fun k => (N.of_nat (C n k) <=? 24310)%N) (seq 0 18)) (seq 0 18) = true) by (vm_compute; reflexivity).
  rewrite forallb_forall in H. specialize (H n ltac:(apply in_seq; lia)). rewrite forallb_forall in H.
  apply N.leb_le. apply H. apply in_seq. lia.
Qed.

(* site 11 is never a panic: binom does not overflow and the capacity is small (the vector's element type has 48 bytes) *)
Theorem prealloc_small rooms a : (N.of_nat (nc courses) < 18446744073709551616)%N ->
  match prealloc_capacity rooms a with
  | Some None => False
  | Some (Some cap) => (cap <= 24310)%N
  | None => True end.
Proof.
  intros Hnc. unfold prealloc_capacity. destruct (room_window rooms a) as [[[lower upper] k]|] eqn:Ew; [|exact I].
  pose proof (window_shape _ _ _ _ _ Ew) as Hw. unfold MAX_N_nat in Hw.
  rewrite binom64_spec by (destruct Hw as [H|[H1 H2]]; lia).
  apply N.le_trans with (N.of_nat (C (upper - lower) k)); [apply N.le_min_l|].
  destruct Hw as [H|[H _]].
  - exact (C_17_bound (upper - lower) k H).
  - rewrite H, C_diag. lia.
Qed.
End P.
