(* caobab spike, part 3: the gate theorem behind C01 (Feasible => hard constraints), matching abstracted by V1-V3 *)
From Coq Require Import List ZArith Lia Bool Arith Permutation.
Require Import HP1 Cao1 Cao2.
Import ListNotations.
Open Scope nat_scope.

Lemma filter_length_le {A} (f g : A -> bool) l : (forall x, In x l -> f x = true -> g x = true) -> length (filter f l) <= length (filter g l).
Proof.
  induction l as [|a l IH]; intros H; simpl; [lia|].
  assert (IH' : length (filter f l) <= length (filter g l)) by (apply IH; intros; apply H; auto; right; assumption).
  destruct (f a) eqn:Ef; [rewrite (H a (or_introl eq_refl) Ef); simpl; lia|]. destruct (g a); simpl; lia.
Qed.
Lemma getB_map_seq' (f : nat -> bool) n i : i < n -> getB (map f (seq 0 n)) i = f i.
Proof. intros; unfold getB; apply nth_map_seq; assumption. Qed.
Lemma existsb_false_all {A} (f : A -> bool) l : existsb f l = false -> forall x, In x l -> f x = false.
Proof. intros H x Hx. destruct (f x) eqn:E; [|reflexivity]. rewrite <- H. symmetry. apply existsb_exists. exists x. auto. Qed.
Lemma memb_true x l : memb x l = true <-> In x l.
Proof. unfold memb. rewrite existsb_exists. split; [intros (y & Hy & E); apply Nat.eqb_eq in E; subst; auto|intros H; exists x; split; [auto|apply Nat.eqb_refl]]. Qed.

Section G.
Variables (courses : list course) (parts : list participant).
Notation np := (np parts). Notation nc := (nc courses). Notation m_ := (m_ courses). Notation n_ := (n_ courses parts).
Notation crs := (crs courses). Notation course_map := (course_map courses). Notation base := (base courses).
Notation instructs := (instructs courses). Notation instr_only := (instr_only parts). Notation has_choice := (has_choice parts).

(* ---- validity of the instance (the parts C01 needs) ---- *)
Hypothesis Hinstr_rng : forall c i, c < nc -> In i (c_instr (crs c)) -> i < np.
Hypothesis Hone : forall p c c', c < nc -> c' < nc -> instructs p c = true -> instructs p c' = true -> c = c'.
(* course_map / base arithmetic (provable from the definitions; assumed in this spike) *)
Hypothesis cm_spec : forall y, y < m_ -> course_map y < nc /\ base (course_map y) <= y /\ y < base (course_map y) + c_max (crs (course_map y)).

Definition attendees (a : assignment) (c : nat) : nat :=
  length (filter (fun p => match getO a p with Some c' => Nat.eqb c' c && negb (instructs p c) | None => false end) (seq 0 np)).

Record HardOK_K (K : nat -> bool) (a : assignment) : Prop := {
  h_len : length a = np;
  h_rng : forall p c, p < np -> getO a p = Some c -> c < nc;
  h_K : forall c, c < nc -> K c = true -> forall p, p < np -> getO a p <> Some c;
  h_notK : forall c, c < nc -> K c = false ->
      (forall i, In i (c_instr (crs c)) -> getO a i = Some c) /\ c_min (crs c) <= attendees a c <= c_max (crs c);
  h_choice : forall p, p < np -> instr_only p = false -> (forall c, c < nc -> K c = false -> instructs p c = false) ->
      exists c, getO a p = Some c /\ has_choice p c = true;
  h_only : forall p, p < np -> instr_only p = true -> forall c, getO a p = Some c -> instructs p c = true /\ K c = false /\ c < nc
}.

Lemma eff_max_le nd c : eff_max courses nd c <= c_max (crs c).
Proof.
  unfold eff_max. destruct (cancelled nd c); [lia|].
  assert (G : forall l acc, acc <= c_max (crs c) -> fold_left (fun acc cs => if Nat.eqb (fst cs) c then Nat.min acc (snd cs) else acc) l acc <= c_max (crs c)).
  { induction l as [|x l IH]; intros acc H; simpl; [exact H|]. apply IH. destruct (Nat.eqb (fst x) c); lia. }
  apply G. lia.
Qed.

Section Node.
Variable nd : node.
Variables (sx sy : list bool) (mm : list nat).
Let K := cancelled nd.
(* what the node computed *)
Hypothesis Hsx : forall p, p < np -> getB sx p = instr_only p || existsb (fun c => negb (K c) && instructs p c) (seq 0 nc).
Hypothesis Hsy : forall y, y < m_ -> getB sy y = (eff_max courses nd (course_map y) <=? y - base (course_map y)).
(* what the matching routine guarantees *)
Hypothesis V1 : forall y, y < m_ -> getB sy y = false -> getN mm y < n_ /\ getB sx (getN mm y) = false.
Hypothesis V2 : forall y y', y < m_ -> y' < m_ -> getB sy y = false -> getB sy y' = false -> getN mm y = getN mm y' -> y = y'.
Hypothesis V3 : forall x, x < np -> getB sx x = false -> exists y, y < m_ /\ getB sy y = false /\ getN mm y = x.
(* the gate *)
Let a := add_instr courses nd (amatch courses parts sy mm).
Hypothesis Gwrong : existsb (wrong_course parts sx a) (seq 0 np) = false.
Hypothesis Gmin : existsb (min_violation courses parts nd sx a) (seq 0 nc) = false.

Lemma sx_false_iff p : p < np -> (getB sx p = false <-> instr_only p = false /\ forall c, c < nc -> K c = false -> instructs p c = false).
Proof.
  intros Hp. rewrite (Hsx p Hp), orb_false_iff. split.
  - intros [H1 H2]. split; [exact H1|]. intros c Hc Hk. pose proof (existsb_false_all _ _ H2 c ltac:(apply in_seq; lia)) as E.
    cbn in E. rewrite Hk in E. simpl in E. exact E.
  - intros [H1 H2]. split; [exact H1|]. destruct (existsb (fun c => negb (K c) && instructs p c) (seq 0 nc)) eqn:E; [|reflexivity]. apply existsb_exists in E.
    destruct E as (c & Hc & E). apply in_seq in Hc. apply andb_prop in E. destruct E as [E1 E2]. apply negb_true_iff in E1.
    rewrite (H2 c ltac:(lia) E1) in E2. discriminate.
Qed.

Lemma pairs_uniq : forall i c c', In (i, c) (instr_pairs courses nd) -> In (i, c') (instr_pairs courses nd) -> c = c'.
Proof.
  intros i c c' H H'. apply in_instr_pairs in H. apply in_instr_pairs in H'. destruct H as (Hc & _ & Hi), H' as (Hc' & _ & Hi').
  apply (Hone i c c'); auto; apply memb_true; assumption.
Qed.

Lemma a_len : length a = np.
Proof. unfold a. rewrite (proj1 (add_instr_spec courses nd _ pairs_uniq)). apply (amatch_spec courses parts sy mm V2). Qed.

Lemma a_instr p c : p < np -> c < nc -> K c = false -> instructs p c = true -> getO a p = Some c.
Proof.
  intros Hp Hc Hk Hi. unfold a. destruct (add_instr_spec courses nd (amatch courses parts sy mm) pairs_uniq) as [_ Hs].
  apply (proj1 (Hs p ltac:(rewrite (proj1 (amatch_spec courses parts sy mm V2)); exact Hp))).
  apply in_instr_pairs. repeat split; auto. apply memb_true. exact Hi.
Qed.
Lemma a_noinstr p : p < np -> (forall c, c < nc -> K c = false -> instructs p c = false) ->
  getO a p = getO (amatch courses parts sy mm) p.
Proof.
  intros Hp Hn. unfold a. destruct (add_instr_spec courses nd (amatch courses parts sy mm) pairs_uniq) as [_ Hs].
  apply (proj2 (Hs p ltac:(rewrite (proj1 (amatch_spec courses parts sy mm V2)); exact Hp))).
  intros c Hin. apply in_instr_pairs in Hin. destruct Hin as (Hc & Hk & Hi).
  apply memb_true in Hi. fold (instructs p c) in Hi. rewrite (Hn c Hc Hk) in Hi. discriminate.
Qed.
Lemma am_some p c : p < np -> (getO (amatch courses parts sy mm) p = Some c <->
   exists cp, cp < m_ /\ getB sy cp = false /\ getN mm cp = p /\ course_map cp = c).
Proof. intros Hp. apply (proj2 (amatch_spec courses parts sy mm V2) p Hp c). Qed.

(* a value of the final assignment is either an instructor pair or a matched column *)
Lemma a_cases p c : p < np -> getO a p = Some c ->
  (c < nc /\ K c = false /\ instructs p c = true) \/
  (getB sx p = false /\ exists cp, cp < m_ /\ getB sy cp = false /\ getN mm cp = p /\ course_map cp = c).
Proof.
  intros Hp Ha.
  destruct (existsb (fun c => negb (K c) && instructs p c) (seq 0 nc)) eqn:E.
  - apply existsb_exists in E. destruct E as (c' & Hc' & E). apply in_seq in Hc'. apply andb_prop in E. destruct E as [E1 E2].
    apply negb_true_iff in E1. rewrite (a_instr p c' Hp ltac:(lia) E1 E2) in Ha. inversion Ha; subst. left. repeat split; auto; lia.
  - assert (Hn : forall c, c < nc -> K c = false -> instructs p c = false).
    { intros c' Hc' Hk. pose proof (existsb_false_all _ _ E c' ltac:(apply in_seq; lia)) as E'. cbn in E'. rewrite Hk in E'. exact E'. }
    rewrite (a_noinstr p Hp Hn) in Ha. apply (am_some p c Hp) in Ha. destruct Ha as (cp & Hcp & Hs & Hm & Hc).
    right. split; [|exists cp; auto]. rewrite <- Hm. apply (V1 cp Hcp Hs).
Qed.

Theorem gate_hard : (forall c, c < nc -> K c = true -> True) -> HardOK_K K a.
Proof.
  intros _. constructor.
  - exact a_len.
  - intros p c Hp Ha. destruct (a_cases p c Hp Ha) as [(Hc & _)|(_ & cp & Hcp & _ & _ & <-)]; [exact Hc|apply (cm_spec cp Hcp)].
  - intros c Hc Hk p Hp Ha. destruct (a_cases p c Hp Ha) as [(_ & Hk' & _)|(_ & cp & Hcp & Hs & _ & Hcm)]; [congruence|].
    rewrite (Hsy cp Hcp), Hcm in Hs. unfold eff_max in Hs. fold (K c) in Hs. rewrite Hk in Hs. simpl in Hs. discriminate.
  - intros c Hc Hk. split; [|split].
    + intros i Hi. apply a_instr; auto; [eapply Hinstr_rng; eauto|apply memb_true; exact Hi].
    + (* minimum: from the gate *)
      pose proof (existsb_false_all _ _ Gmin c ltac:(apply in_seq; lia)) as E. unfold min_violation in E.
      fold (K c) in E. rewrite Hk in E. simpl in E. apply Nat.ltb_ge in E.
      eapply Nat.le_trans; [exact E|]. unfold course_size, attendees. apply filter_length_le.
      intros p Hp Hf. apply in_seq in Hp. apply andb_prop in Hf. destruct Hf as [Hs Hf]. apply negb_true_iff in Hs.
      destruct (getO a p) as [c'|]; [|discriminate]. rewrite Hf. simpl.
      apply (sx_false_iff p ltac:(lia)) in Hs. rewrite (proj2 Hs c Hc Hk). reflexivity.
    + (* maximum: attendees inject into the active columns of c *)
      set (Lc := filter (fun cp => negb (getB sy cp) && Nat.eqb (course_map cp) c) (seq 0 m_)).
      assert (HLc : forall cp, In cp Lc <-> cp < m_ /\ getB sy cp = false /\ course_map cp = c).
      { intros cp. unfold Lc. rewrite filter_In, in_seq, andb_true_iff, negb_true_iff, Nat.eqb_eq. intuition lia. }
      unfold attendees. set (Af := filter _ (seq 0 np)).
      assert (H1 : incl Af (map (getN mm) Lc)).
      { intros p Hp. unfold Af in Hp. apply filter_In in Hp. destruct Hp as [Hp Hf]. apply in_seq in Hp.
        destruct (getO a p) as [c'|] eqn:Ea; [|discriminate]. apply andb_prop in Hf. destruct Hf as [Hf1 Hf2].
        apply Nat.eqb_eq in Hf1. subst c'. apply negb_true_iff in Hf2.
        destruct (a_cases p c ltac:(lia) Ea) as [(_ & _ & Hi)|(_ & cp & Hcp & Hs & Hm & Hcm)]; [congruence|].
        apply in_map_iff. exists cp. split; [exact Hm|apply HLc; auto]. }
      pose proof (NoDup_incl_length (NoDup_filter _ (seq_NoDup np 0)) H1) as L1. rewrite map_length in L1.
      assert (H2 : incl Lc (seq (base c) (eff_max courses nd c))).
      { intros cp Hcp. apply HLc in Hcp. destruct Hcp as (Hcp & Hs & Hcm). destruct (cm_spec cp Hcp) as (_ & Hb1 & Hb2).
        rewrite (Hsy cp Hcp), Hcm in Hs. apply Nat.leb_gt in Hs. rewrite Hcm in Hb1. apply in_seq. lia. }
      pose proof (NoDup_incl_length (NoDup_filter _ (seq_NoDup m_ 0)) H2) as L2. rewrite seq_length in L2.
      pose proof (eff_max_le nd c). unfold Af, Lc in *. lia.
  - intros p Hp Hio Hn. assert (Hs : getB sx p = false) by (apply (sx_false_iff p Hp); auto).
    destruct (V3 p Hp Hs) as (cp & Hcp & Hsc & Hm).
    assert (Ha : getO a p = Some (course_map cp)).
    { rewrite (a_noinstr p Hp Hn). apply (am_some p _ Hp). exists cp. auto. }
    exists (course_map cp). split; [exact Ha|].
    pose proof (existsb_false_all _ _ Gwrong p ltac:(apply in_seq; lia)) as E. unfold wrong_course in E.
    rewrite Hs, Hio, Ha in E. simpl in E. apply negb_false_iff in E. exact E.
  - intros p Hp Hio c Ha. destruct (a_cases p c Hp Ha) as [(Hc & Hk & Hi)|(Hs & _)]; [auto|].
    apply (sx_false_iff p Hp) in Hs. destruct Hs as [Hs _]. congruence.
Qed.
End Node.
End G.
