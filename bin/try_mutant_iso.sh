#!/bin/bash
# usage: try_mutant_iso.sh <name> <patch file> <property id>...
# Development aid: applies a seeded change to a PRIVATE worktree of /repo and runs the quick checks from a PRIVATE copy of /verif against it
# (VERIF_REPO), so that /repo and /verif/work stay untouched and several changes can be tried at the same time.  Everything is removed afterwards.
name="$1"; patch="$2"; shift; shift
base=/tmp/iso/$name
rm -rf "$base"; mkdir -p "$base"
git -C /repo worktree add --detach "$base/repo" HEAD >/dev/null 2>&1 || { echo "worktree failed"; exit 2; }
( cd "$base/repo" && { git apply "$patch" 2>/dev/null || git apply -3 "$patch" 2>/dev/null || patch -p1 --no-backup-if-mismatch < "$patch" >/dev/null; } ) || { echo "patch does not apply"; git -C /repo worktree remove --force "$base/repo"; exit 2; }
rsync -a --exclude work --exclude replays --exclude .git --exclude seeded --exclude incremental /verif/ "$base/verif/" >/dev/null 2>&1
for pid in "$@"; do
  ( cd "$base/verif" && VERIF_REPO="$base/repo" timeout 3000 python3 bin/check.py "$pid" --tier "${TIER:-quick}" 2>/dev/null | grep -E "^(VIOLATION|OK|KNOWN)" | cut -c1-400; echo "  -> $pid exit=${PIPESTATUS[0]}" )
done
if [ -n "$KEEP_REPLAYS" ]; then mkdir -p /tmp/iso_replays/$name; cp -r "$base/verif/replays/." /tmp/iso_replays/$name/ 2>/dev/null; fi
git -C /repo worktree remove --force "$base/repo"; rm -rf "$base"
